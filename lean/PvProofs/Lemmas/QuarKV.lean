/-
Helper lemmas for C07: the association-list store, record totals, the record suffix
(sorting is invariant under permutation), `Simplify`.
-/
import PvModel.QuarSpec

namespace PvProofs.QuarL
open PvModel PvModel.Quar

/-! ### kvGet / kvSet / kvDel -/

section kv
variable {κ ν : Type} [DecidableEq κ]

@[simp] theorem kvGet_nil (k : κ) : kvGet ([] : List (κ × ν)) k = none := rfl

theorem kvGet_kvSet_self (l : List (κ × ν)) (k : κ) (v : ν) : kvGet (kvSet l k v) k = some v := by
  induction l with
  | nil => simp [kvSet, kvGet]
  | cons h t ih =>
    obtain ⟨k', v'⟩ := h
    by_cases hk : k' = k <;> simp [kvSet, kvGet, hk, ih]

theorem kvGet_kvSet_ne (l : List (κ × ν)) {k k' : κ} (v : ν) (h : k' ≠ k) :
    kvGet (kvSet l k v) k' = kvGet l k' := by
  induction l with
  | nil => simp [kvSet, kvGet, Ne.symm h]
  | cons hd t ih =>
    obtain ⟨k2, v2⟩ := hd
    by_cases hk : k2 = k
    · subst hk
      simp [kvSet, kvGet, Ne.symm h]
    · by_cases hk' : k2 = k' <;> simp [kvSet, kvGet, hk, hk', ih, h]

theorem kvGet_kvDel_ne (l : List (κ × ν)) {k k' : κ} (h : k' ≠ k) :
    kvGet (kvDel l k) k' = kvGet l k' := by
  induction l with
  | nil => simp [kvDel]
  | cons hd t ih =>
    obtain ⟨k2, v2⟩ := hd
    by_cases hk : k2 = k
    · subst hk
      simp [kvDel, kvGet, Ne.symm h]
    · by_cases hk' : k2 = k' <;> simp [kvDel, kvGet, hk, hk', ih, h]

theorem mem_of_kvGet {l : List (κ × ν)} {k : κ} {v : ν} (h : kvGet l k = some v) : (k, v) ∈ l := by
  induction l with
  | nil => simp at h
  | cons hd t ih =>
    obtain ⟨k2, v2⟩ := hd
    by_cases hk : k2 = k
    · subst hk
      simp [kvGet] at h
      simp [h]
    · simp [kvGet, hk] at h
      exact List.mem_cons_of_mem _ (ih h)

theorem kvGet_none_of_not_mem_keys {l : List (κ × ν)} {k : κ} (h : k ∉ l.map (·.1)) : kvGet l k = none := by
  induction l with
  | nil => rfl
  | cons hd t ih =>
    obtain ⟨k2, v2⟩ := hd
    simp only [List.map_cons, List.mem_cons, not_or] at h
    simp [kvGet, Ne.symm h.1, ih h.2]

theorem kvGet_of_mem_nodup {l : List (κ × ν)} {k : κ} {v : ν} (hn : (l.map (·.1)).Nodup) (h : (k, v) ∈ l) :
    kvGet l k = some v := by
  induction l with
  | nil => simp at h
  | cons hd t ih =>
    obtain ⟨k2, v2⟩ := hd
    simp only [List.map_cons, List.nodup_cons] at hn
    rcases List.mem_cons.mp h with h | h
    · simp at h
      simp [kvGet, h.1, h.2]
    · have : k2 ≠ k := by
        intro e
        subst e
        exact hn.1 (List.mem_map.mpr ⟨_, h, rfl⟩)
      simp [kvGet, this, ih hn.2 h]

theorem mem_kvSet {l : List (κ × ν)} {k : κ} {v : ν} {e : κ × ν} (h : e ∈ kvSet l k v) :
    e = (k, v) ∨ e ∈ l := by
  induction l with
  | nil => simp [kvSet] at h; exact Or.inl h
  | cons hd t ih =>
    obtain ⟨k2, v2⟩ := hd
    by_cases hk : k2 = k
    · subst hk
      simp only [kvSet, if_true, List.mem_cons] at h
      rcases h with h | h
      · exact Or.inl h
      · exact Or.inr (List.mem_cons_of_mem _ h)
    · simp only [kvSet, hk, if_false, List.mem_cons] at h
      rcases h with h | h
      · exact Or.inr (by simp [h])
      · rcases ih h with h | h
        · exact Or.inl h
        · exact Or.inr (List.mem_cons_of_mem _ h)

theorem mem_kvDel {l : List (κ × ν)} {k : κ} {e : κ × ν} (h : e ∈ kvDel l k) : e ∈ l := by
  induction l with
  | nil => simp [kvDel] at h
  | cons hd t ih =>
    obtain ⟨k2, v2⟩ := hd
    by_cases hk : k2 = k
    · simp only [kvDel, hk, if_true] at h
      exact List.mem_cons_of_mem _ h
    · simp only [kvDel, hk, if_false, List.mem_cons] at h
      rcases h with h | h
      · simp [h]
      · exact List.mem_cons_of_mem _ (ih h)

theorem keys_kvSet_subset {l : List (κ × ν)} {k : κ} {v : ν} {x : κ} (h : x ∈ (kvSet l k v).map (·.1)) :
    x = k ∨ x ∈ l.map (·.1) := by
  obtain ⟨e, he, rfl⟩ := List.mem_map.mp h
  rcases mem_kvSet he with h | h
  · exact Or.inl (by simp [h])
  · exact Or.inr (List.mem_map.mpr ⟨e, h, rfl⟩)

theorem nodup_kvSet {l : List (κ × ν)} (k : κ) (v : ν) (hn : (l.map (·.1)).Nodup) :
    ((kvSet l k v).map (·.1)).Nodup := by
  induction l with
  | nil => simp [kvSet]
  | cons hd t ih =>
    obtain ⟨k2, v2⟩ := hd
    simp only [List.map_cons, List.nodup_cons] at hn
    by_cases hk : k2 = k
    · subst hk
      simpa [kvSet] using hn
    · simp only [kvSet, hk, if_false, List.map_cons, List.nodup_cons]
      refine ⟨?_, ih hn.2⟩
      intro hx
      rcases keys_kvSet_subset hx with h | h
      · exact hk h
      · exact hn.1 h

theorem nodup_kvDel {l : List (κ × ν)} (k : κ) (hn : (l.map (·.1)).Nodup) :
    ((kvDel l k).map (·.1)).Nodup := by
  induction l with
  | nil => simp [kvDel]
  | cons hd t ih =>
    obtain ⟨k2, v2⟩ := hd
    simp only [List.map_cons, List.nodup_cons] at hn
    by_cases hk : k2 = k
    · simpa [kvDel, hk] using hn.2
    · simp only [kvDel, hk, if_false, List.map_cons, List.nodup_cons]
      refine ⟨?_, ih hn.2⟩
      intro hx
      obtain ⟨e, he, hek⟩ := List.mem_map.mp hx
      exact hn.1 (List.mem_map.mpr ⟨e, mem_kvDel he, hek⟩)

theorem kvGet_kvDel_self {l : List (κ × ν)} (k : κ) (hn : (l.map (·.1)).Nodup) :
    kvGet (kvDel l k) k = none := by
  induction l with
  | nil => rfl
  | cons hd t ih =>
    obtain ⟨k2, v2⟩ := hd
    simp only [List.map_cons, List.nodup_cons] at hn
    by_cases hk : k2 = k
    · subst hk
      simp only [kvDel, if_true]
      exact kvGet_none_of_not_mem_keys hn.1
    · simp [kvDel, kvGet, hk, ih hn.2]

theorem key_ne_of_mem_kvDel {l : List (κ × ν)} {k : κ} {e : κ × ν} (hn : (l.map (·.1)).Nodup)
    (h : e ∈ kvDel l k) : e.1 ≠ k := by
  intro hk
  have h1 := kvGet_kvDel_self k hn
  have h2 := kvGet_of_mem_nodup (nodup_kvDel k hn) (show (e.1, e.2) ∈ kvDel l k from h)
  rw [hk, h1] at h2
  cases h2

end kv

/-! ### record totals -/

def optCoins : Option Record → Coins
  | some r => r.coins
  | none => []

theorem coinsAt_eq (s : State) (to : Addr) (sfx : Suffix) :
    coinsAt s to sfx = optCoins (kvGet s.recs (to, sfx)) := by
  unfold coinsAt optCoins
  cases kvGet s.recs (to, sfx) <;> rfl

theorem sumRecs_kvSet (l : List ((Addr × Suffix) × Record)) (k : Addr × Suffix) (r : Record) (d : Denom) :
    sumRecs (kvSet l k r) d = sumRecs l d - Coins.amountOf (optCoins (kvGet l k)) d + Coins.amountOf r.coins d := by
  induction l with
  | nil => simp [kvSet, sumRecs, optCoins]
  | cons hd t ih =>
    obtain ⟨k2, r2⟩ := hd
    by_cases hk : k2 = k
    · subst hk
      simp [kvSet, sumRecs, kvGet, optCoins]
      omega
    · simp [kvSet, sumRecs, kvGet, hk, ih]
      omega

theorem sumRecs_kvDel (l : List ((Addr × Suffix) × Record)) (k : Addr × Suffix) (d : Denom) :
    sumRecs (kvDel l k) d = sumRecs l d - Coins.amountOf (optCoins (kvGet l k)) d := by
  induction l with
  | nil => simp [kvDel, sumRecs, optCoins]
  | cons hd t ih =>
    obtain ⟨k2, r2⟩ := hd
    by_cases hk : k2 = k
    · subst hk
      simp [kvDel, sumRecs, kvGet, optCoins]
      omega
    · simp [kvDel, sumRecs, kvGet, hk, ih]
      omega

/-! ### record totals per receiver -/

theorem sumRecsFor_kvSet (t : Addr) (l : List ((Addr × Suffix) × Record)) (k : Addr × Suffix) (r : Record) (d : Denom) :
    sumRecsFor t (kvSet l k r) d = sumRecsFor t l d
      + (if k.1 = t then Coins.amountOf r.coins d - Coins.amountOf (optCoins (kvGet l k)) d else 0) := by
  induction l with
  | nil => simp [kvSet, sumRecsFor, optCoins]
  | cons hd tl ih =>
    obtain ⟨k2, r2⟩ := hd
    by_cases hk : k2 = k
    · subst hk
      simp only [kvSet, if_true, sumRecsFor, kvGet, optCoins]
      split <;> omega
    · simp only [kvSet, hk, if_false, sumRecsFor, kvGet, ih]
      omega

theorem sumRecsFor_kvDel (t : Addr) (l : List ((Addr × Suffix) × Record)) (k : Addr × Suffix) (d : Denom) :
    sumRecsFor t (kvDel l k) d = sumRecsFor t l d
      - (if k.1 = t then Coins.amountOf (optCoins (kvGet l k)) d else 0) := by
  induction l with
  | nil => simp [kvDel, sumRecsFor, optCoins]
  | cons hd tl ih =>
    obtain ⟨k2, r2⟩ := hd
    by_cases hk : k2 = k
    · subst hk
      simp only [kvDel, if_true, sumRecsFor, kvGet, optCoins]
      split <;> omega
    · simp only [kvDel, hk, if_false, sumRecsFor, kvGet, ih]
      omega

/-! ### the record suffix does not depend on the order of the senders -/

theorem addrLe_trans (a b c : Addr) : addrLe a b = true → addrLe b c = true → addrLe a c = true := by
  simp only [addrLe, decide_eq_true_eq]
  exact String.le_trans

theorem addrLe_total (a b : Addr) : (addrLe a b || addrLe b a) = true := by
  simp only [addrLe, Bool.or_eq_true, decide_eq_true_eq]
  exact String.le_total a b

theorem perm_insertAddr (a : Addr) (l : List Addr) : (insertAddr a l).Perm (a :: l) := by
  induction l with
  | nil => exact List.Perm.refl _
  | cons b t ih =>
    unfold insertAddr
    split
    · exact List.Perm.refl _
    · exact (List.Perm.cons b ih).trans (List.Perm.swap a b t)

theorem perm_sortAddrs (l : List Addr) : (sortAddrs l).Perm l := by
  induction l with
  | nil => exact List.Perm.refl _
  | cons a t ih => exact (perm_insertAddr a _).trans (List.Perm.cons a ih)

theorem sorted_insertAddr (a : Addr) (l : List Addr) (h : l.Pairwise (fun x y => addrLe x y = true)) :
    (insertAddr a l).Pairwise (fun x y => addrLe x y = true) := by
  induction l with
  | nil => simp [insertAddr]
  | cons b t ih =>
    unfold insertAddr
    have hb := List.pairwise_cons.mp h
    by_cases hab : addrLe a b = true
    · simp only [hab, if_true]
      refine List.pairwise_cons.mpr ⟨?_, h⟩
      intro y hy
      rcases List.mem_cons.mp hy with rfl | hy
      · exact hab
      · exact addrLe_trans _ _ _ hab (hb.1 y hy)
    · simp only [hab]
      have hba : addrLe b a = true := by
        have := addrLe_total a b
        simp only [Bool.or_eq_true] at this
        rcases this with h1 | h1
        · exact absurd h1 hab
        · exact h1
      refine List.pairwise_cons.mpr ⟨?_, ih hb.2⟩
      intro y hy
      have := (perm_insertAddr a t).mem_iff.mp hy
      rcases List.mem_cons.mp this with rfl | hy'
      · exact hba
      · exact hb.1 y hy'

theorem sorted_sortAddrs (l : List Addr) : (sortAddrs l).Pairwise (fun x y => addrLe x y = true) := by
  induction l with
  | nil => simp [sortAddrs]
  | cons a t ih => exact sorted_insertAddr a _ ih

theorem createRecordSuffix_perm {l₁ l₂ : List Addr} (h : l₁.Perm l₂) :
    createRecordSuffix l₁ = createRecordSuffix l₂ := by
  unfold createRecordSuffix
  apply List.Perm.eq_of_pairwise (le := fun a b => addrLe a b = true)
  · intro a b _ _ hab hba
    simp only [addrLe, decide_eq_true_eq] at hab hba
    exact String.le_antisymm hab hba
  · exact sorted_sortAddrs l₁
  · exact sorted_sortAddrs l₂
  · exact ((perm_sortAddrs l₁).trans h).trans (perm_sortAddrs l₂).symm

@[simp] theorem createRecordSuffix_length (l : List Addr) : (createRecordSuffix l).length = l.length :=
  (perm_sortAddrs l).length_eq

@[simp] theorem createRecordSuffix_singleton (a : Addr) : createRecordSuffix [a] = [a] := rfl

theorem mem_createRecordSuffix {l : List Addr} {a : Addr} : a ∈ createRecordSuffix l ↔ a ∈ l :=
  (perm_sortAddrs l).mem_iff

/-- the two halves `findAddresses` returns are a permutation of the input -/
theorem findAddresses_perm (all toFind : List Addr) :
    ((Record.findAddresses all toFind).1 ++ (Record.findAddresses all toFind).2).Perm all := by
  unfold Record.findAddresses
  exact List.filter_append_perm _ _

/-! ### Simplify -/

theorem mem_insertSorted {x y : Suffix} {l : List Suffix} : y ∈ insertSorted x l ↔ y = x ∨ y ∈ l := by
  induction l with
  | nil => simp [insertSorted]
  | cons h t ih =>
    unfold insertSorted
    cases hl : sfxLt x h
    · simp only [Bool.false_eq_true, if_false, List.mem_cons, ih]
      constructor
      · rintro (h1 | h1 | h1)
        · exact Or.inr (Or.inl h1)
        · exact Or.inl h1
        · exact Or.inr (Or.inr h1)
      · rintro (h1 | h1 | h1)
        · exact Or.inr (Or.inl h1)
        · exact Or.inl h1
        · exact Or.inr (Or.inr h1)
    · simp

theorem nodup_insertSorted {x : Suffix} {l : List Suffix} (hx : x ∉ l) (h : l.Nodup) : (insertSorted x l).Nodup := by
  induction l with
  | nil => simp [insertSorted]
  | cons hd t ih =>
    unfold insertSorted
    simp only [List.mem_cons, not_or] at hx
    simp only [List.nodup_cons] at h
    cases hl : sfxLt x hd
    · simp only [Bool.false_eq_true, if_false, List.nodup_cons, mem_insertSorted, not_or]
      exact ⟨⟨Ne.symm hx.1, h.1⟩, ih hx.2 h.2⟩
    · simp only [if_true, List.nodup_cons, List.mem_cons, not_or]
      exact ⟨⟨hx.1, hx.2⟩, h.1, h.2⟩

theorem mem_insertSfx {x y : Suffix} {l : List Suffix} : y ∈ insertSfx x l ↔ y = x ∨ y ∈ l := by
  unfold insertSfx
  cases hc : l.contains x
  · simp only [Bool.false_eq_true, if_false]
    exact mem_insertSorted
  · simp only [if_true]
    constructor
    · exact Or.inr
    · rintro (h | h)
      · subst h; simpa using hc
      · exact h

theorem nodup_insertSfx {x : Suffix} {l : List Suffix} (h : l.Nodup) : (insertSfx x l).Nodup := by
  unfold insertSfx
  cases hc : l.contains x
  · simp only [Bool.false_eq_true, if_false]
    exact nodup_insertSorted (by simpa using hc) h
  · simpa using h

theorem mem_simplify {rm l : List Suffix} {x : Suffix} : x ∈ simplify rm l ↔ x ∈ l ∧ x ∉ rm := by
  unfold simplify
  induction l with
  | nil => simp
  | cons h t ih =>
    by_cases hr : rm.contains h = true
    · have hr' : h ∈ rm := by simpa using hr
      simp only [List.filter_cons, hr, Bool.not_true, List.mem_cons]
      rw [show (if false = true then h :: List.filter (fun x => !rm.contains x) t else List.filter (fun x => !rm.contains x) t) = List.filter (fun x => !rm.contains x) t from rfl, ih]
      constructor
      · rintro ⟨h1, h2⟩; exact ⟨Or.inr h1, h2⟩
      · rintro ⟨h1 | h1, h2⟩
        · subst h1; exact absurd hr' h2
        · exact ⟨h1, h2⟩
    · have hr' : h ∉ rm := by simpa using hr
      simp only [List.filter_cons, hr, Bool.not_false, if_true, List.foldr_cons, mem_insertSfx, ih, List.mem_cons]
      constructor
      · rintro (h1 | ⟨h1, h2⟩)
        · subst h1; exact ⟨Or.inl rfl, hr'⟩
        · exact ⟨Or.inr h1, h2⟩
      · rintro ⟨h1 | h1, h2⟩
        · exact Or.inl h1
        · exact Or.inr ⟨h1, h2⟩

theorem nodup_simplify (rm l : List Suffix) : (simplify rm l).Nodup := by
  unfold simplify
  induction (l.filter fun x => !rm.contains x) with
  | nil => simp
  | cons h t ih => exact nodup_insertSfx ih

end PvProofs.QuarL
