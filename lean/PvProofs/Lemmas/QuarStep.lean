/-
Helper lemmas for C07: what one operation (`exec`) does, uniformly for all nine kinds.
-/
import PvProofs.Lemmas.QuarAccept

namespace PvProofs.QuarL
open PvModel PvModel.Quar

theorem amountOf_nonneg_of_all_pos {c : Coins} (h : c.all (fun p => decide (0 < p.2)) = true) (d : Denom) :
    0 ≤ Coins.amountOf c d := by
  induction c with
  | nil => simp
  | cons p t ih =>
    obtain ⟨d', x⟩ := p
    simp only [List.all_cons, Bool.and_eq_true, decide_eq_true_eq] at h
    have := ih h.2
    simp only [Coins.amountOf_cons]
    split <;> omega

theorem coinsValid_nonneg {c : Coins} (h : coinsValid c = true) (d : Denom) : 0 ≤ Coins.amountOf c d := by
  unfold coinsValid at h
  simp only [Bool.and_eq_true] at h
  exact amountOf_nonneg_of_all_pos h.1.2 d

/-- holder's expected gain minus the expected growth of the records: what is sent to it directly -/
theorem slack_xfers_ge (s : State) (xs : List Xfer) (d : Denom)
    (hf : ∀ x ∈ xs, x.from_ ≠ s.holder) (hn : ∀ x ∈ xs, 0 ≤ Coins.amountOf x.amt d) :
    expQuarantined s xs d ≤ expDelta s xs s.holder d := by
  induction xs with
  | nil => simp [expQuarantined, expDelta]
  | cons x rest ih =>
    have h1 := hf x (List.mem_cons_self ..)
    have h2 := hn x (List.mem_cons_self ..)
    have := ih (fun y hy => hf y (List.mem_cons_of_mem _ hy)) (fun y hy => hn y (List.mem_cons_of_mem _ hy))
    simp only [expQuarantined, expDelta, destOf, h1, if_false]
    by_cases hq : quarantines s x.from_ x.to = true
    · simp only [hq, if_true]
      omega
    · have hq' : quarantines s x.from_ x.to = false := by simpa using hq
      simp only [hq', Bool.false_eq_true, if_false]
      split <;> omega

theorem slack_xfers_eq (s : State) (xs : List Xfer) (d : Denom)
    (hf : ∀ x ∈ xs, x.from_ ≠ s.holder) (ht : ∀ x ∈ xs, x.to ≠ s.holder) :
    expDelta s xs s.holder d = expQuarantined s xs d := by
  induction xs with
  | nil => simp [expQuarantined, expDelta]
  | cons x rest ih =>
    have h1 := hf x (List.mem_cons_self ..)
    have h2 := ht x (List.mem_cons_self ..)
    have := ih (fun y hy => hf y (List.mem_cons_of_mem _ hy)) (fun y hy => ht y (List.mem_cons_of_mem _ hy))
    simp only [expQuarantined, expDelta, destOf, h1, if_false]
    by_cases hq : quarantines s x.from_ x.to = true
    · simp only [hq, if_true]
      omega
    · have hq' : quarantines s x.from_ x.to = false := by simpa using hq
      simp only [hq', Bool.false_eq_true, if_false, h2]
      omega

/-- the facts every successful operation satisfies -/
structure StepOK (s s' : State) (op : Op) : Prop where
  inv : StoreInv s'
  holder : s'.holder = s.holder
  supply : ∀ d, Ledger.supply s'.bank d = Ledger.supply s.bank d
  ghost : ∀ d, Coins.amountOf s'.qin d - Coins.amountOf s'.qout d - outstanding s' d
      = Coins.amountOf s.qin d - Coins.amountOf s.qout d - outstanding s d
  slack_ge : op.holderNeverSigns s.holder = true → ∀ d, slack s d ≤ slack s' d
  slack_eq : op.holderNotNamed s.holder = true → ∀ d, slack s' d = slack s d

theorem stepOK_of_settings {s s' : State} {op : Op} (inv : StoreInv s) (h : OnlySettings s s') : StepOK s s' op := by
  have hsl : ∀ d, slack s' d = slack s d := by
    intro d; unfold slack; rw [h.bank, h.holder, h.outstanding]
  exact ⟨h.inv inv, h.holder, fun d => by rw [h.bank], fun d => by rw [h.qin, h.qout, h.outstanding],
    fun _ d => by rw [hsl]; exact Int.le_refl _, fun _ d => hsl d⟩

/-- `MsgSend`, `MsgMultiSend`, `InputOutputCoinsProv`: facts from the transfers -/
theorem stepOK_of_transferred {s s' : State} {op : Op} {xs : List Xfer} (T : Transferred s s' xs)
    (hn : ∀ x ∈ xs, ∀ d, 0 ≤ Coins.amountOf x.amt d)
    (hsign : op.holderNeverSigns s.holder = true → ∀ x ∈ xs, x.from_ ≠ s.holder)
    (hname : op.holderNotNamed s.holder = true → (∀ x ∈ xs, x.from_ ≠ s.holder) ∧ ∀ x ∈ xs, x.to ≠ s.holder) :
    StepOK s s' op := by
  refine ⟨T.inv, T.rest.holder, T.supply, ?_, ?_, ?_⟩
  · intro d; rw [T.qin, T.qout, T.out]; omega
  · intro hs d
    unfold slack
    rw [T.rest.holder, T.bal, T.out]
    have := slack_xfers_ge s xs d (hsign hs) (fun x hx => hn x hx d)
    omega
  · intro hs d
    unfold slack
    rw [T.rest.holder, T.bal, T.out]
    have := slack_xfers_eq s xs d (hname hs).1 (hname hs).2
    omega

theorem stepOK_of_accepted {s s1 s' : State} {to : Addr} {froms : List Addr} {perm : Bool} {rs : List Record}
    {rel rel' : Coins} (A : Accepted s s1 to froms rs rel rel') (O : OnlySettings s1 s') :
    StepOK s s' (.accept to froms perm) := by
  have hsl : to ≠ s.holder → ∀ d, slack s' d = slack s d := by
    intro hto d
    unfold slack
    rw [O.bank, O.holder, O.outstanding, A.rest.holder, A.bal, A.out]
    simp [hto]
    omega
  refine ⟨O.inv A.inv, O.holder.trans A.rest.holder, fun d => by rw [O.bank, A.supply], ?_, ?_, ?_⟩
  · intro d; rw [O.qin, O.qout, O.outstanding, A.qin, A.qout, A.out]; omega
  · intro hs d
    have : to ≠ s.holder := by simpa [Op.holderNeverSigns] using hs
    rw [hsl this]; exact Int.le_refl _
  · intro hs d
    have : to ≠ s.holder := by simpa [Op.holderNotNamed, Op.holderNeverSigns] using hs
    exact hsl this d

theorem exec_ok {s s' : State} {op : Op} {rel : Coins} (inv : StoreInv s) (h : exec s op = .ok (s', rel)) :
    StepOK s s' op := by
  cases op with
  | optIn a =>
    simp only [exec, Except.ok.injEq, Prod.mk.injEq] at h
    obtain ⟨rfl, _⟩ := h
    exact stepOK_of_settings inv (setOptIn_only s a)
  | optOut a =>
    simp only [exec, Except.ok.injEq, Prod.mk.injEq] at h
    obtain ⟨rfl, _⟩ := h
    exact stepOK_of_settings inv (setOptOut_only s a)
  | auto to ups =>
    simp only [exec] at h
    split at h
    · cases h
    · simp only [Except.ok.injEq, Prod.mk.injEq] at h
      obtain ⟨rfl, _⟩ := h
      exact stepOK_of_settings inv (setAutoResponses_only to ups s)
  | send f t c =>
    simp only [exec, msgSend] at h
    cases hv : coinsValid c
    · simp [hv, Except.map] at h
    · simp only [hv, Bool.not_true, Bool.false_eq_true, if_false] at h
      cases hb : bankTransfers s false [⟨f, t, c⟩] with
      | error e => simp [hb, Except.map] at h
      | ok s1 =>
        simp only [hb, Except.map, Except.ok.injEq, Prod.mk.injEq] at h
        obtain ⟨rfl, _⟩ := h
        have hnn : ∀ x ∈ [(⟨f, t, c⟩ : Xfer)], ∀ d, 0 ≤ Coins.amountOf x.amt d := by
          intro x hx d
          simp only [List.mem_singleton] at hx; subst hx
          exact coinsValid_nonneg hv d
        apply stepOK_of_transferred (bankTransfers_ok inv hnn hb)
        · exact hnn
        · intro hs x hx
          simp only [List.mem_singleton] at hx; subst hx
          simpa [Op.holderNeverSigns] using hs
        · intro hs
          simp only [Op.holderNotNamed, Bool.and_eq_true, decide_eq_true_eq] at hs
          constructor <;> intro x hx <;> simp only [List.mem_singleton] at hx <;> subst hx
          · exact hs.1
          · exact hs.2
  | msend f outs =>
    simp only [exec, msgMultiSend] at h
    cases hv : (outs.isEmpty || !outs.all fun o => coinsValid o.2)
    · simp only [hv, Bool.false_eq_true, if_false] at h
      cases hb : bankTransfers s false (outs.map fun o => ⟨f, o.1, o.2⟩) with
      | error e => simp [hb, Except.map] at h
      | ok s1 =>
        simp only [hb, Except.map, Except.ok.injEq, Prod.mk.injEq] at h
        obtain ⟨rfl, _⟩ := h
        simp only [Bool.or_eq_false_iff, Bool.not_eq_false'] at hv
        have hall := List.all_eq_true.mp hv.2
        have hnn : ∀ x ∈ outs.map (fun o => (⟨f, o.1, o.2⟩ : Xfer)), ∀ d, 0 ≤ Coins.amountOf x.amt d := by
          intro x hx d
          obtain ⟨o, ho, rfl⟩ := List.mem_map.mp hx
          exact coinsValid_nonneg (hall o ho) d
        apply stepOK_of_transferred (bankTransfers_ok inv hnn hb)
        · exact hnn
        · intro hs x hx
          obtain ⟨o, ho, rfl⟩ := List.mem_map.mp hx
          simpa [Op.holderNeverSigns] using hs
        · intro hs
          simp only [Op.holderNotNamed, Bool.and_eq_true, decide_eq_true_eq, List.all_eq_true] at hs
          constructor <;> intro x hx <;> obtain ⟨o, ho, rfl⟩ := List.mem_map.mp hx
          · exact hs.1
          · exact hs.2 o ho
    · simp [hv, Except.map] at h
  | iosend ins t =>
    simp only [exec, ioSend] at h
    cases hv : (ins.isEmpty || !ins.all fun i => coinsValid i.2)
    · simp only [hv, Bool.false_eq_true, if_false] at h
      cases hb : bankTransfers s false (ins.map fun i => ⟨i.1, t, i.2⟩) with
      | error e => simp [hb, Except.map] at h
      | ok s1 =>
        simp only [hb, Except.map, Except.ok.injEq, Prod.mk.injEq] at h
        obtain ⟨rfl, _⟩ := h
        simp only [Bool.or_eq_false_iff, Bool.not_eq_false'] at hv
        have hall := List.all_eq_true.mp hv.2
        have hnn : ∀ x ∈ ins.map (fun i => (⟨i.1, t, i.2⟩ : Xfer)), ∀ d, 0 ≤ Coins.amountOf x.amt d := by
          intro x hx d
          obtain ⟨o, ho, rfl⟩ := List.mem_map.mp hx
          exact coinsValid_nonneg (hall o ho) d
        apply stepOK_of_transferred (bankTransfers_ok inv hnn hb)
        · exact hnn
        · intro hs x hx
          obtain ⟨o, ho, rfl⟩ := List.mem_map.mp hx
          simp only [Op.holderNeverSigns, List.all_eq_true, decide_eq_true_eq] at hs
          exact hs o ho
        · intro hs
          simp only [Op.holderNotNamed, Bool.and_eq_true, decide_eq_true_eq, List.all_eq_true] at hs
          constructor <;> intro x hx <;> obtain ⟨o, ho, rfl⟩ := List.mem_map.mp hx
          · exact hs.2 o ho
          · exact hs.1
    · simp [hv, Except.map] at h
  | bsend f t c =>
    simp only [exec, bypassSend] at h
    cases hv : coinsValid c
    · simp [hv, Except.map] at h
    · simp only [hv, Bool.not_true, Bool.false_eq_true, if_false] at h
      cases hb : bankTransfers s true [⟨f, t, c⟩] with
      | error e => simp [hb, Except.map] at h
      | ok s1 =>
        simp only [hb, Except.map, Except.ok.injEq, Prod.mk.injEq] at h
        obtain ⟨rfl, _⟩ := h
        obtain ⟨rfl, _, _⟩ := bankTransfers_bypass_ok hb
        have hnn := coinsValid_nonneg hv
        have hsl : f ≠ s.holder → ∀ d, slack { s with bank := Ledger.move s.bank f t c } d
            = slack s d + (if t = s.holder then Coins.amountOf c d else 0) := by
          intro hf d
          unfold slack
          show Ledger.bal (Ledger.move s.bank f t c) s.holder d - outstanding s d = _
          rw [Ledger.bal_move]
          simp [hf]
          omega
        refine ⟨inv_with_bank inv _, rfl, fun d => Ledger.supply_move _ _ _ _ _, fun d => rfl, ?_, ?_⟩
        · intro hs d
          have hf : f ≠ s.holder := by simpa [Op.holderNeverSigns] using hs
          rw [hsl hf]
          have := hnn d
          split <;> omega
        · intro hs d
          simp only [Op.holderNotNamed, Bool.and_eq_true, decide_eq_true_eq] at hs
          rw [hsl hs.1]
          simp [hs.2]
  | accept to froms perm =>
    simp only [exec, msgAccept] at h
    cases hf : froms.isEmpty
    · simp only [hf, Bool.false_eq_true, if_false] at h
      cases ha : acceptQuarantinedFunds s to froms with
      | error e => simp [ha] at h
      | ok p =>
        obtain ⟨s1, rel1⟩ := p
        simp only [ha, Except.ok.injEq, Prod.mk.injEq] at h
        obtain ⟨rfl, _⟩ := h
        have A := acceptLoop_ok to froms _ s s1 [] rel1 inv (getQuarantineRecords_snapshot inv to froms) ha
        apply stepOK_of_accepted A
        split
        · exact setAutoResponses_only to _ s1
        · exact OnlySettings.refl s1
    · simp [hf] at h
  | decline to froms perm =>
    simp only [exec, msgDecline] at h
    cases hf : froms.isEmpty
    · simp only [hf, Bool.false_eq_true, if_false, Except.map, Except.ok.injEq, Prod.mk.injEq] at h
      obtain ⟨rfl, _⟩ := h
      have D := declineQuarantinedFunds_ok inv to froms
      have O : OnlySettings (declineQuarantinedFunds s to froms)
          (if perm = true then setAutoResponses (declineQuarantinedFunds s to froms) to (froms.map fun f => (f, AutoResp.decline))
           else declineQuarantinedFunds s to froms) := by
        split
        · exact setAutoResponses_only to _ _
        · exact OnlySettings.refl _
      have hsl : ∀ d, slack (if perm = true then setAutoResponses (declineQuarantinedFunds s to froms) to (froms.map fun f => (f, AutoResp.decline))
           else declineQuarantinedFunds s to froms) d = slack s d := by
        intro d
        unfold slack
        rw [O.bank, O.holder, O.outstanding, D.bank, D.rest.holder, D.out]
      refine ⟨O.inv D.inv, O.holder.trans D.rest.holder, fun d => by rw [O.bank, D.bank], ?_, ?_, ?_⟩
      · intro d; rw [O.qin, O.qout, O.outstanding, D.qin, D.qout, D.out]
      · intro _ d; rw [hsl]; exact Int.le_refl _
      · intro _ d; exact hsl d
    · simp [hf, Except.map] at h
  | qadd to froms amt payer =>
    simp only [exec, qAdd] at h
    cases hv : (froms.isEmpty || !coinsValid amt)
    · simp only [hv, Bool.false_eq_true, if_false] at h
      cases hb : bankTransfers s true [⟨payer, s.holder, amt⟩] with
      | error e => simp [hb, Except.map] at h
      | ok s1 =>
        simp only [hb] at h
        cases hq : addQuarantinedCoins s1 amt to froms with
        | error e => simp [hq, Except.map] at h
        | ok s2 =>
          simp only [hq, Except.map, Except.ok.injEq, Prod.mk.injEq] at h
          obtain ⟨rfl, _⟩ := h
          obtain ⟨rfl, _, _⟩ := bankTransfers_bypass_ok hb
          have hvv : coinsValid amt = true := by
            simp only [Bool.or_eq_false_iff, Bool.not_eq_false'] at hv; exact hv.2
          have Q := addQuarantinedCoins_ok (inv_with_bank inv _) (coinsValid_nonneg hvv) hq
          have hsl : payer ≠ s.holder → ∀ d, slack s2 d = slack s d := by
            intro hp d
            unfold slack
            rw [Q.bank, Q.rest.holder, Q.out]
            show Ledger.bal (Ledger.move s.bank payer s.holder amt) s.holder d - (outstanding s d + _) = _
            rw [Ledger.bal_move]
            simp [hp]
            omega
          refine ⟨Q.inv, Q.rest.holder, ?_, ?_, ?_, ?_⟩
          · intro d; rw [Q.bank]; exact Ledger.supply_move _ _ _ _ _
          · intro d
            rw [Q.qin, Q.qout, Q.out]
            simp only [Coins.amountOf_add]
            show _ - _ - (outstanding s d + _) = _
            omega
          · intro hs d
            have : payer ≠ s.holder := by simpa [Op.holderNeverSigns] using hs
            rw [hsl this]; exact Int.le_refl _
          · intro hs d
            have : payer ≠ s.holder := by
              simp only [Op.holderNotNamed, Bool.and_eq_true, decide_eq_true_eq] at hs
              exact hs.1
            exact hsl this d
    · simp [hv, Except.map] at h

/-- a successful `MsgSend` / `MsgMultiSend` / `InputOutputCoinsProv` is its list of transfers -/
theorem exec_transfer {s s' : State} {op : Op} {rel : Coins} (inv : StoreInv s) (h : exec s op = .ok (s', rel))
    (hop : op.xfers ≠ []) : Transferred s s' op.xfers := by
  cases op with
  | send f t c =>
    simp only [exec, msgSend] at h
    cases hv : coinsValid c
    · simp [hv, Except.map] at h
    · simp only [hv, Bool.not_true, Bool.false_eq_true, if_false] at h
      cases hb : bankTransfers s false [⟨f, t, c⟩] with
      | error e => simp [hb, Except.map] at h
      | ok s1 =>
        simp only [hb, Except.map, Except.ok.injEq, Prod.mk.injEq] at h
        obtain ⟨rfl, _⟩ := h
        refine bankTransfers_ok inv ?_ hb
        intro x hx d
        simp only [Op.xfers, List.mem_singleton] at hx; subst hx
        exact coinsValid_nonneg hv d
  | msend f outs =>
    simp only [exec, msgMultiSend] at h
    cases hv : (outs.isEmpty || !outs.all fun o => coinsValid o.2)
    · simp only [hv, Bool.false_eq_true, if_false] at h
      cases hb : bankTransfers s false (outs.map fun o => ⟨f, o.1, o.2⟩) with
      | error e => simp [hb, Except.map] at h
      | ok s1 =>
        simp only [hb, Except.map, Except.ok.injEq, Prod.mk.injEq] at h
        obtain ⟨rfl, _⟩ := h
        simp only [Bool.or_eq_false_iff, Bool.not_eq_false'] at hv
        have hall := List.all_eq_true.mp hv.2
        refine bankTransfers_ok inv ?_ hb
        intro x hx d
        simp only [Op.xfers] at hx
        obtain ⟨o, ho, rfl⟩ := List.mem_map.mp hx
        exact coinsValid_nonneg (hall o ho) d
    · simp [hv, Except.map] at h
  | iosend ins t =>
    simp only [exec, ioSend] at h
    cases hv : (ins.isEmpty || !ins.all fun i => coinsValid i.2)
    · simp only [hv, Bool.false_eq_true, if_false] at h
      cases hb : bankTransfers s false (ins.map fun i => ⟨i.1, t, i.2⟩) with
      | error e => simp [hb, Except.map] at h
      | ok s1 =>
        simp only [hb, Except.map, Except.ok.injEq, Prod.mk.injEq] at h
        obtain ⟨rfl, _⟩ := h
        simp only [Bool.or_eq_false_iff, Bool.not_eq_false'] at hv
        have hall := List.all_eq_true.mp hv.2
        refine bankTransfers_ok inv ?_ hb
        intro x hx d
        simp only [Op.xfers] at hx
        obtain ⟨o, ho, rfl⟩ := List.mem_map.mp hx
        exact coinsValid_nonneg (hall o ho) d
    · simp [hv, Except.map] at h
  | bsend f t c => simp [Op.xfers] at hop
  | optIn a => simp [Op.xfers] at hop
  | optOut a => simp [Op.xfers] at hop
  | auto to ups => simp [Op.xfers] at hop
  | accept to froms perm => simp [Op.xfers] at hop
  | decline to froms perm => simp [Op.xfers] at hop
  | qadd to froms amt payer => simp [Op.xfers] at hop

/-! ### the sum over the store equals the sum over any duplicate-free key list covering it -/

section reindex
variable {κ ν : Type} [DecidableEq κ]

def sumStore (f : κ → ν → Int) : List (κ × ν) → Int
  | [] => 0
  | (k, v) :: t => f k v + sumStore f t

def sumKeys (g : κ → Int) : List κ → Int
  | [] => 0
  | k :: t => g k + sumKeys g t

omit [DecidableEq κ] in
theorem sumKeys_zero (ks : List κ) : sumKeys (fun _ => (0 : Int)) ks = 0 := by
  induction ks with
  | nil => rfl
  | cons k t ih => simp [sumKeys, ih]

theorem sumKeys_split (g : κ → Int) (k0 : κ) (c : Int) (hg : g k0 = 0) :
    ∀ ks : List κ, ks.Nodup →
      sumKeys (fun k => if k = k0 then c else g k) ks = (if k0 ∈ ks then c else 0) + sumKeys g ks := by
  intro ks
  induction ks with
  | nil => intro _; simp [sumKeys]
  | cons k t ih =>
    intro hn
    simp only [List.nodup_cons] at hn
    have := ih hn.2
    simp only [sumKeys, this, List.mem_cons]
    by_cases hk : k = k0
    · subst hk
      simp [hn.1, hg]
    · have hk' : ¬ k0 = k := fun e => hk e.symm
      simp only [hk, hk', if_false, false_or]
      omega

theorem sumStore_eq_sumKeys (f : κ → ν → Int) :
    ∀ (l : List (κ × ν)) (ks : List κ), (l.map (·.1)).Nodup → ks.Nodup →
      (∀ e ∈ l, f e.1 e.2 ≠ 0 → e.1 ∈ ks) →
      sumStore f l = sumKeys (fun k => match kvGet l k with | some v => f k v | none => 0) ks := by
  intro l
  induction l with
  | nil =>
    intro ks _ _ _
    simp only [sumStore, kvGet_nil]
    exact (sumKeys_zero ks).symm
  | cons e t ih =>
    intro ks hnl hnk hcov
    obtain ⟨k0, v0⟩ := e
    simp only [List.map_cons, List.nodup_cons] at hnl
    have hnone : kvGet t k0 = none := kvGet_none_of_not_mem_keys hnl.1
    have hfun : (fun k => match kvGet ((k0, v0) :: t) k with | some v => f k v | none => 0)
        = (fun k => if k = k0 then f k0 v0 else (match kvGet t k with | some v => f k v | none => 0)) := by
      funext k
      by_cases hk : k = k0
      · subst hk; simp [kvGet]
      · have : ¬ k0 = k := fun e => hk e.symm
        simp [kvGet, hk, this]
    rw [hfun, sumKeys_split _ k0 _ (by simp [hnone]) ks hnk]
    simp only [sumStore]
    rw [ih ks hnl.2 hnk (fun e he hne => hcov e (List.mem_cons_of_mem _ he) hne)]
    by_cases hz : f k0 v0 = 0
    · simp [hz]
    · have := hcov (k0, v0) (List.mem_cons_self ..) hz
      simp [this]

end reindex

end PvProofs.QuarL
