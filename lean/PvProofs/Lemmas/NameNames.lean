/-
Helper lemmas for C15: which names a message can add to the store (so that collision freedom of
the hash on "stored names + names of the messages" is inherited along a history), the "stored
addresses parse" invariant, and the replay of an exported record list by `InitGenesis`.
-/
import PvProofs.Lemmas.NameRoot

namespace PvModel.Name
open KV

variable {κ : Type} [DecidableEq κ] (cfg : Cfg κ)

/-- a successful message adds only names among its targets -/
theorem storedNames_step_sub {st st' : State κ} (hI : Inv cfg st) {op : Op}
    (h : step cfg st op = .ok st') : ∀ x ∈ storedNames st', x ∈ storedNames st ∨ x ∈ op.targets := by
  intro x hx
  obtain ⟨k, r, hg, rfl⟩ := mem_storedNames cfg (inv_step cfg hI h) hx
  have hc := step_ok_cases cfg h
  cases op with
  | root a n o rr =>
    obtain ⟨-, -, hl⟩ := createRootNameMsg_ok cfg hc
    rcases createRootLoop_created cfg _ _ _ _ _ _ hl k r hg with h1 | ⟨-, y, hy, rfl, -⟩
    · exact Or.inl (mem_storedNames_of_get h1)
    · exact Or.inr (mem_rootSuffixes.mpr ⟨y, hy, rfl⟩)
  | bind pn pa rn ra rr =>
    obtain ⟨par, name, k0, -, -, hn, -, -, -, rfl⟩ := bindName_ok cfg hc
    by_cases hk : k = k0
    · subst hk
      simp only [get_set_self, Option.some.injEq] at hg
      subst hg
      exact Or.inr (by simp [Op.targets, normalize_eq_normalizeName cfg hn])
    · simp only [get_set_ne _ _ hk] at hg; exact Or.inl (mem_storedNames_of_get hg)
  | modify a n ad rr =>
    obtain ⟨ex, name, k0, -, -, hn, -, -, rfl⟩ := modifyName_ok cfg hc
    by_cases hk : k = k0
    · subst hk
      simp only [get_set_self, Option.some.injEq] at hg
      subst hg
      exact Or.inr (by simp [Op.targets, normalize_eq_normalizeName cfg hn])
    · simp only [get_set_ne _ _ hk] at hg; exact Or.inl (mem_storedNames_of_get hg)
  | delete n a =>
    obtain ⟨name, k0, rec, -, -, -, -, rfl⟩ := deleteName_ok cfg hc
    by_cases hk : k = k0
    · subst hk; simp [get_del_self] at hg
    · simp only [get_del_ne _ hk] at hg; exact Or.inl (mem_storedNames_of_get hg)

theorem storedNames_apply_sub {st : State κ} (hI : Inv cfg st) (op : Op) :
    ∀ x ∈ storedNames (apply cfg st op), x ∈ storedNames st ∨ x ∈ op.names := by
  intro x hx
  unfold apply at hx
  split at hx
  · rename_i st' h
    rcases storedNames_step_sub cfg hI h x hx with h1 | h2
    · exact Or.inl h1
    · exact Or.inr (by simp [Op.names, h2])
  · exact Or.inl hx

/-- collision freedom on "stored names + names of the remaining messages" is inherited by the
state after the first message -/
theorem noHashCollision_apply {st : State κ} (hI : Inv cfg st) (op : Op) (ops : List Op)
    (hH : NoHashCollision cfg (storedNames st ++ (op :: ops).flatMap Op.names)) :
    NoHashCollision cfg (storedNames (apply cfg st op) ++ ops.flatMap Op.names) := by
  refine hH.mono cfg ?_
  intro x hx
  rcases List.mem_append.mp hx with h1 | h2
  · rcases storedNames_apply_sub cfg hI op x h1 with h3 | h3
    · exact List.mem_append_left _ h3
    · exact List.mem_append_right _ (by simp [List.flatMap_cons, h3])
  · exact List.mem_append_right _ (by simp [List.flatMap_cons, h2])

omit [DecidableEq κ] in
theorem noHashCollision_head {st : State κ} (op : Op) (ops : List Op)
    (hH : NoHashCollision cfg (storedNames st ++ (op :: ops).flatMap Op.names)) :
    NoHashCollision cfg (op.names ++ storedNames st) := by
  refine hH.mono cfg ?_
  intro x hx
  rcases List.mem_append.mp hx with h1 | h2
  · exact List.mem_append_right _ (by simp [List.flatMap_cons, h1])
  · exact List.mem_append_left _ h2

omit [DecidableEq κ] in
/-- the levels of a root name, as the loop of `CreateRootName` builds them, are in the hypothesis
list `Op.names … ++ storedNames st` as written and normalized -/
theorem rootPath_mem_names (st : State κ) (a o : Addr) (n : Bytes) (r : Bool) :
    ∀ x ∈ rootPath (splitDot n).reverse [],
      x ∈ (Op.root a n o r).names ++ storedNames st ∧
      normalizeName x ∈ (Op.root a n o r).names ++ storedNames st := by
  intro x hx
  constructor
  · simp [Op.names, Op.lookups, hx]
  · refine List.mem_append_left _ (List.mem_append_left _ (List.mem_append_right _ ?_))
    exact List.mem_map.mpr ⟨x, by simp [Op.lookups, hx], rfl⟩

end PvModel.Name
