/-
Helper lemmas for C15: which names a message can add to the store (so that collision freedom of
the hash on "stored names + names of the messages" is inherited along a history), the "stored
addresses parse" invariant, and the replay of an exported record list by `InitGenesis`.
-/
import PvProofs.Lemmas.NameRoot
import Mathlib.Data.List.Nodup

namespace PvModel.Name
open KV

variable {κ : Type} [DecidableEq κ] (cfg : Cfg κ)

/-- a successful message adds only names among its targets -/
theorem storedNames_step_sub {st st' : State κ} (hI : Inv cfg st) {op : Op}
    (h : step cfg st op = .ok st') : ∀ x ∈ storedNames st', x ∈ storedNames st ∨ x ∈ op.targets := by
  intro x hx
  obtain ⟨k, r, hg, rfl⟩ := mem_storedNames cfg (inv_step cfg hI h) hx
  have hc := step_ok_cases cfg h
  cases op with
  | root a n o rr =>
    obtain ⟨-, -, hl⟩ := createRootNameMsg_ok cfg hc
    rcases createRootLoop_created cfg _ _ _ _ _ _ hl k r hg with h1 | ⟨-, y, hy, rfl, -⟩
    · exact Or.inl (mem_storedNames_of_get h1)
    · exact Or.inr (mem_rootSuffixes.mpr ⟨y, hy, rfl⟩)
  | bind pn pa rn ra rr =>
    obtain ⟨par, name, k0, -, -, hn, -, -, -, rfl⟩ := bindName_ok cfg hc
    by_cases hk : k = k0
    · subst hk
      simp only [get_set_self, Option.some.injEq] at hg
      subst hg
      exact Or.inr (by simp [Op.targets, normalize_eq_normalizeName cfg hn])
    · simp only [get_set_ne _ _ hk] at hg; exact Or.inl (mem_storedNames_of_get hg)
  | modify a n ad rr =>
    obtain ⟨ex, name, k0, -, -, hn, -, -, rfl⟩ := modifyName_ok cfg hc
    by_cases hk : k = k0
    · subst hk
      simp only [get_set_self, Option.some.injEq] at hg
      subst hg
      exact Or.inr (by simp [Op.targets, normalize_eq_normalizeName cfg hn])
    · simp only [get_set_ne _ _ hk] at hg; exact Or.inl (mem_storedNames_of_get hg)
  | delete n a =>
    obtain ⟨name, k0, rec, -, -, -, -, rfl⟩ := deleteName_ok cfg hc
    by_cases hk : k = k0
    · subst hk; simp [get_del_self] at hg
    · simp only [get_del_ne _ hk] at hg; exact Or.inl (mem_storedNames_of_get hg)

theorem storedNames_apply_sub {st : State κ} (hI : Inv cfg st) (op : Op) :
    ∀ x ∈ storedNames (apply cfg st op), x ∈ storedNames st ∨ x ∈ op.names := by
  intro x hx
  unfold apply at hx
  split at hx
  · rename_i st' h
    rcases storedNames_step_sub cfg hI h x hx with h1 | h2
    · exact Or.inl h1
    · exact Or.inr (by simp [Op.names, h2])
  · exact Or.inl hx

/-- collision freedom on "stored names + names of the remaining messages" is inherited by the
state after the first message -/
theorem noHashCollision_apply {st : State κ} (hI : Inv cfg st) (op : Op) (ops : List Op)
    (hH : NoHashCollision cfg (storedNames st ++ (op :: ops).flatMap Op.names)) :
    NoHashCollision cfg (storedNames (apply cfg st op) ++ ops.flatMap Op.names) := by
  refine hH.mono cfg ?_
  intro x hx
  rcases List.mem_append.mp hx with h1 | h2
  · rcases storedNames_apply_sub cfg hI op x h1 with h3 | h3
    · exact List.mem_append_left _ h3
    · exact List.mem_append_right _ (by simp [List.flatMap_cons, h3])
  · exact List.mem_append_right _ (by simp [List.flatMap_cons, h2])

omit [DecidableEq κ] in
theorem noHashCollision_head {st : State κ} (op : Op) (ops : List Op)
    (hH : NoHashCollision cfg (storedNames st ++ (op :: ops).flatMap Op.names)) :
    NoHashCollision cfg (op.names ++ storedNames st) := by
  refine hH.mono cfg ?_
  intro x hx
  rcases List.mem_append.mp hx with h1 | h2
  · exact List.mem_append_right _ (by simp [List.flatMap_cons, h1])
  · exact List.mem_append_left _ h2

omit [DecidableEq κ] in
/-- the levels of a root name, as the loop of `CreateRootName` builds them, are in the hypothesis
list `Op.names … ++ storedNames st` as written and normalized -/
theorem rootPath_mem_names (st : State κ) (a o : Addr) (n : Bytes) (r : Bool) :
    ∀ x ∈ rootPath (splitDot n).reverse [],
      x ∈ (Op.root a n o r).names ++ storedNames st ∧
      normalizeName x ∈ (Op.root a n o r).names ++ storedNames st := by
  intro x hx
  constructor
  · simp [Op.names, Op.lookups, hx]
  · refine List.mem_append_left _ (List.mem_append_left _ (List.mem_append_right _ ?_))
    exact List.mem_map.mpr ⟨x, by simp [Op.lookups, hx], rfl⟩

/-! ### stored addresses parse -/

/-- every stored address string is one `sdk.AccAddressFromBech32` accepts -/
def AddrOkStored (st : State κ) : Prop := ∀ k r, get st.recs k = some r → cfg.addrOk r.addr = true

theorem addrOkStored_init : AddrOkStored cfg ({} : State κ) := by
  intro k r h; simp at h

theorem addrOkStored_initGenesis (hA : ∀ a, cfg.addrOk a = true → cfg.addrOk (cfg.canon a) = true)
    {gs : List Record} {st st' : State κ} (hS : AddrOkStored cfg st)
    (h : initGenesis cfg st gs = .ok st') : AddrOkStored cfg st' := by
  intro k r hg
  rcases (initGenesis_effect cfg gs st st' h).2.1 k r hg with h1 | ⟨b, -, hok, -, ha, -⟩
  · exact hS k r h1
  · rw [ha]; exact hA _ hok

theorem addrOkStored_step (hA : ∀ a, cfg.addrOk a = true → cfg.addrOk (cfg.canon a) = true)
    {st st' : State κ} (hS : AddrOkStored cfg st) {op : Op} (h : step cfg st op = .ok st') :
    AddrOkStored cfg st' := by
  intro k r hg
  have hc := step_ok_cases cfg h
  cases op with
  | root a n o rr =>
    obtain ⟨-, hok, hl⟩ := createRootNameMsg_ok cfg hc
    rcases createRootLoop_created cfg _ _ _ _ _ _ hl k r hg with h1 | ⟨-, y, -, rfl, -⟩
    · exact hS k r h1
    · exact hA _ hok
  | bind pn pa rn ra rr =>
    obtain ⟨par, name, k0, -, -, -, -, -, hok, rfl⟩ := bindName_ok cfg hc
    by_cases hk : k = k0
    · subst hk
      simp only [get_set_self, Option.some.injEq] at hg
      subst hg; exact hA _ hok
    · simp only [get_set_ne _ _ hk] at hg; exact hS k r hg
  | modify a n ad rr =>
    obtain ⟨ex, name, k0, -, -, -, -, hok, rfl⟩ := modifyName_ok cfg hc
    by_cases hk : k = k0
    · subst hk
      simp only [get_set_self, Option.some.injEq] at hg
      subst hg; exact hA _ hok
    · simp only [get_set_ne _ _ hk] at hg; exact hS k r hg
  | delete n a =>
    obtain ⟨name, k0, rec, -, -, -, -, rfl⟩ := deleteName_ok cfg hc
    by_cases hk : k = k0
    · subst hk; simp [get_del_self] at hg
    · simp only [get_del_ne _ hk] at hg; exact hS k r hg

theorem addrOkStored_run (hA : ∀ a, cfg.addrOk a = true → cfg.addrOk (cfg.canon a) = true)
    (ops : List Op) : ∀ {st : State κ}, AddrOkStored cfg st → AddrOkStored cfg (run cfg st ops) := by
  induction ops with
  | nil => intro st hS; exact hS
  | cons op ops ih =>
    intro st hS
    refine ih ?_
    unfold apply
    split
    · rename_i st' h; exact addrOkStored_step cfg hA hS h
    · exact hS

/-! ### `InitGenesis` replays a well-formed record list -/

/-- importing the values of an association list of well-formed records (each under the key of its
own normalized name, canonical parsable address, keys distinct and free in the store) stores
exactly these records under these keys -/
theorem initGenesis_replay : ∀ (l : List (κ × Record)) (st : State κ), (Keys l).Nodup →
    (∀ k r, (k, r) ∈ l → getNameKeyPrefix cfg r.name = .ok k ∧ normalize cfg r.name = .ok r.name ∧
      cfg.canon r.addr = r.addr ∧ cfg.addrOk r.addr = true) →
    (∀ k r, (k, r) ∈ l → get st.recs k = none) →
    ∃ st', initGenesis cfg st (l.map (·.2)) = .ok st' ∧
      ∀ k, get st'.recs k = (get l k).orElse (fun _ => get st.recs k) := by
  intro l
  induction l with
  | nil => intro st _ _ _; exact ⟨st, rfl, fun k => by simp⟩
  | cons e l ih =>
    obtain ⟨k1, r1⟩ := e
    intro st hnd hwf hfree
    have hnd' : (Keys l).Nodup := (List.nodup_cons.mp hnd).2
    have hk1 : k1 ∉ Keys l := (List.nodup_cons.mp hnd).1
    obtain ⟨hkey, hnorm, hcan, hok⟩ := hwf k1 r1 (by simp)
    have hnone := hfree k1 r1 (by simp)
    have hset : setNameRecord cfg st r1.name (cfg.canon r1.addr) r1.restricted =
        .ok { recs := set st.recs k1 r1, idx := set st.idx (r1.addr, k1) r1 } := by
      simp [setNameRecord, hnorm, addRecord, hkey, has, hnone, hcan]
    obtain ⟨st', hst', hget⟩ := ih { recs := set st.recs k1 r1, idx := set st.idx (r1.addr, k1) r1 }
      hnd' (fun k r hm => hwf k r (List.mem_cons_of_mem _ hm)) (by
        intro k r hm
        have hne : k ≠ k1 := by
          intro e; subst e; exact hk1 (List.mem_map.mpr ⟨(k, r), hm, rfl⟩)
        simp only [get_set_ne _ _ hne]
        exact hfree k r (List.mem_cons_of_mem _ hm))
    refine ⟨st', ?_, ?_⟩
    · simp only [List.map_cons, initGenesis, hok, hset]
      exact hst'
    · intro k
      rw [hget k, get_cons]
      by_cases hk : k1 = k
      · subst hk
        have : get l k1 = none := (get_eq_none_iff l k1).mpr hk1
        simp [this, get_set_self]
      · have hne : k ≠ k1 := fun e => hk e.symm
        simp [hk, get_set_ne _ _ hne]

/-- association lists with distinct keys and the same lookups are permutations of one another -/
theorem KV.perm_of_get_eq {ν : Type} {m1 m2 : List (κ × ν)} (h1 : (Keys m1).Nodup) (h2 : (Keys m2).Nodup)
    (h : ∀ k, get m1 k = get m2 k) : m1.Perm m2 := by
  rw [List.perm_ext_iff_of_nodup (List.Nodup.of_map _ h1) (List.Nodup.of_map _ h2)]
  rintro ⟨k, v⟩
  rw [mem_iff_get h1, mem_iff_get h2, h k]

end PvModel.Name
