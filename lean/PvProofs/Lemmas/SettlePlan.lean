/-
Helper lemmas for C01: unfolding `plan` / `Plan.settlement`, what `validateCanSettle` and
`splitPartial` establish for the orders the rest of `BuildSettlement` works on, and the per-side
loops (`recordSide`, `zipFilled`, `indexFees`, `askFeesToPay`) as index sums.
-/
import PvProofs.Lemmas.SettlePrice

namespace PvProofs.Settle
open PvModel PvModel.Settle PvModel.Coins PvModel.Ledger

/-- all orders of a list are on one side and share one asset denom and one price denom -/
def Uniform (os : List Order) (ad pd : Denom) (isAsk : Bool) : Prop :=
  ∀ o ∈ os, o.assetsDenom = ad ∧ o.priceDenom = pd ∧ o.isAsk = isAsk

theorem validateCanSettle_ok {asks bids : List Order} (h : validateCanSettle asks bids = .ok ()) :
    asks ≠ [] ∧ bids ≠ [] ∧
    Uniform asks (asks.headD default).assetsDenom (asks.headD default).priceDenom true ∧
    Uniform bids (asks.headD default).assetsDenom (asks.headD default).priceDenom false := by
  unfold validateCanSettle at h
  split at h; · simp at h
  rename_i h1
  split at h; · simp at h
  rename_i h2
  simp only at h
  split at h; · simp at h
  rename_i h3
  split at h; · simp at h
  rename_i h4
  simp only [List.isEmpty_iff, not_or] at h1
  simp only [List.any_eq_true, Bool.not_eq_eq_eq_not, Bool.not_true, not_or, not_exists, not_and,
    Bool.not_eq_false, Bool.not_eq_true, decide_eq_true_eq, ne_eq, Decidable.not_not] at h2 h3 h4
  refine ⟨h1.1, h1.2, ?_, ?_⟩
  · intro o ho
    exact ⟨h3.1 o ho, h3.2.1 o ho, by simpa using h2.1 o ho⟩
  · intro o ho
    exact ⟨by rw [h3.2.2.1 o ho, h4.1], by rw [h3.2.2.2 o ho, h4.2], by simpa using h2.2 o ho⟩

theorem Uniform.of_split {os os' : List Order} {ad pd : Denom} {k : Bool} {filled : Nat → Int} {i : Nat}
    {left left' : Option Order} (hu : Uniform os ad pd k)
    (h : splitOrderFulfillments filled i os left = .ok (os', left')) :
    Uniform os' ad pd k ∧ os'.length = os.length ∧ (∀ l, left' = some l → left = some l ∨ (l.assetsDenom = ad ∧ l.priceDenom = pd ∧ l.isAsk = k)) := by
  rcases splitOrderFulfillments_spec h with ⟨e1, e2, _⟩ | ⟨init, o, f, u, e1, e2, e3, e4, e5, _⟩
  · subst e1 e2
    exact ⟨hu, rfl, fun l hl => Or.inl hl⟩
  · subst e1 e2 e4
    have F := split_facts e5
    have ho := hu o (by simp)
    obtain ⟨_, f1, _, f2, f3, _⟩ := F.a_party
    obtain ⟨_, g1, _, g2, g3, _⟩ := F.b_party
    refine ⟨?_, by simp, ?_⟩
    · intro o' ho'
      simp only [List.mem_append, List.mem_singleton] at ho'
      rcases ho' with h' | rfl
      · exact hu o' (by simp [h'])
      · exact ⟨by rw [f2]; exact ho.1, by rw [f3]; exact ho.2.1, by rw [f1]; exact ho.2.2⟩
    · intro l hl
      simp only [Option.some.injEq] at hl
      subst hl
      exact Or.inr ⟨by rw [g2]; exact ho.1, by rw [g3]; exact ho.2.1, by rw [g1]; exact ho.2.2⟩

/-- the steps of `plan`, as equations -/
theorem plan_unfold {asks bids : List Order} {lookup : Denom → Except Err (Option Ratio)} {p : Plan}
    (h : plan asks bids lookup = .ok p) :
    ∃ left1 ratio,
      validateCanSettle asks bids = .ok () ∧
      allocateAssets 0 (asks.map (·.assets)) 0 (bids.map (·.assets)) = .ok p.trA ∧
      splitOrderFulfillments (filledA p.trA) 0 asks none = .ok (p.asks, left1) ∧
      splitOrderFulfillments (filledB p.trA) 0 bids left1 = .ok (p.bids, p.partialLeft) ∧
      allocatePrice (p.asks.map (·.price)) (p.bids.map (·.price))
        ((List.range p.asks.length).map (filledA p.trA)) = .ok p.trP ∧
      lookup (p.asks.headD default).priceDenom = .ok ratio ∧
      askFeesToPay ratio (filledA p.trP) 0 p.asks = .ok p.askFees ∧
      p.bidFees = p.bids.map (·.fees) := by
  unfold plan at h
  split at h; · simp at h
  rename_i h1
  split at h; · simp at h
  rename_i trA h2
  split at h; · simp at h
  rename_i asks' left1 h3
  split at h; · simp at h
  rename_i bids' left h4
  split at h; · simp at h
  rename_i trP h5
  split at h; · simp at h
  rename_i ratio h6
  split at h; · simp at h
  rename_i askFees h7
  simp only [Except.ok.injEq] at h
  subst h
  exact ⟨left1, ratio, h1, h2, h3, h4, h5, h6, h7, rfl⟩

/-- the steps of `Plan.settlement`, as equations -/
theorem settlement_unfold {p : Plan} {s : Settlement} (h : p.settlement = .ok s) :
    ∃ ta tb,
      validateSide true (filledA p.trP) (filledA p.trA) 0 p.asks = .ok () ∧
      validateSide false (filledB p.trP) (filledB p.trA) 0 p.bids = .ok () ∧
      recordSide (getAssetTransfer p.trA p.bids) 0 p.asks p.askFees = .ok ta ∧
      recordSide (getPriceTransfer p.trP p.asks) 0 p.bids p.bidFees = .ok tb ∧
      s.transfers = ta ++ tb ∧
      s.feeInputs = indexFees p.bids p.bidFees (indexFees p.asks p.askFees []) ∧
      (s.fullyFilled, s.partialFilled) = populateFilled
        (zipFilled p.asks (filledA p.trP) p.askFees 0 ++ zipFilled p.bids (filledB p.trP) p.bidFees 0) p.partialLeft ∧
      s.partialLeft = p.partialLeft := by
  unfold Plan.settlement at h
  split at h; · simp at h
  rename_i h1
  split at h; · simp at h
  rename_i h2
  split at h; · simp at h
  rename_i ta h3
  split at h; · simp at h
  rename_i tb h4
  simp only [Except.ok.injEq] at h
  subst h
  exact ⟨ta, tb, h1, h2, h3, h4, rfl, rfl, rfl, rfl⟩

/-! ### per-side loops as index sums -/

theorem sumIdx_congr_idx {f g : Nat → Order → Int} {i : Nat} {os : List Order}
    (h : ∀ k o, os[k]? = some o → f (i + k) o = g (i + k) o) : sumIdx f i os = sumIdx g i os := by
  induction os generalizing i with
  | nil => simp [sumIdx]
  | cons o rest ih =>
    simp only [sumIdx]
    have h0 := h 0 o (by simp)
    simp only [Nat.add_zero] at h0
    rw [h0, ih]
    intro k o' hk
    have := h (k + 1) o' (by simpa using hk)
    rw [show i + (k + 1) = i + 1 + k by omega] at this
    exact this

theorem recordSide_bal {getter : Nat → Order → Except Err Transfer} {i : Nat} {os : List Order}
    {fees : List Coins} {ts : List Transfer} (h : recordSide getter i os fees = .ok ts)
    (x : Addr) (d : Denom) (F : Nat → Order → Int)
    (hF : ∀ k o t, o ∈ os → getter k o = .ok t → bal t.ledger x d = F k o) :
    bal (ts.flatMap Transfer.ledger) x d = sumIdx F i os := by
  induction os generalizing i fees ts with
  | nil =>
    simp only [recordSide, Except.ok.injEq] at h
    subst h; simp [sumIdx]
  | cons o rest ih =>
    simp only [recordSide] at h
    split at h; · simp at h
    rename_i t ht
    split at h; · simp at h
    split at h; · simp at h
    rename_i ts' hrec
    simp only [Except.ok.injEq] at h
    subst h
    simp only [List.flatMap_cons, bal_append, sumIdx, hF i o t (by simp) ht,
      ih hrec (fun k o' t' ho' => hF k o' t' (by simp [ho']))]

theorem recordSide_forall {getter : Nat → Order → Except Err Transfer} {i : Nat} {os : List Order}
    {fees : List Coins} {ts : List Transfer} (h : recordSide getter i os fees = .ok ts) :
    ∀ t ∈ ts, ∃ k o, o ∈ os ∧ getter k o = .ok t := by
  induction os generalizing i fees ts with
  | nil =>
    simp only [recordSide, Except.ok.injEq] at h
    subst h; intro t ht; simp at ht
  | cons o rest ih =>
    simp only [recordSide] at h
    split at h; · simp at h
    rename_i t ht
    split at h; · simp at h
    split at h; · simp at h
    rename_i ts' hrec
    simp only [Except.ok.injEq] at h
    subst h
    intro t' ht'
    simp only [List.mem_cons] at ht'
    rcases ht' with rfl | ht'
    · exact ⟨i, o, by simp, ht⟩
    · obtain ⟨k, o', h1, h2⟩ := ih hrec t' ht'
      exact ⟨k, o', by simp [h1], h2⟩

/-- the expected transfer delta of the filled orders of one side, as an index sum -/
theorem expectedDelta_zipFilled (os : List Order) (applied : Nat → Int) (fees : List Coins) (i : Nat)
    (hl : fees.length = os.length) (x : Addr) (d : Denom) :
    expectedDelta (zipFilled os applied fees i) x d =
      sumIdx (fun k o => if o.owner = x then (FilledOrder.mk o (applied k) []).delta d else 0) i os := by
  induction os generalizing i fees with
  | nil => simp [zipFilled, expectedDelta, sumIdx]
  | cons o rest ih =>
    cases fees with
    | nil => simp at hl
    | cons f fs =>
      simp only [List.length_cons, Nat.add_right_cancel_iff] at hl
      have := ih fs (i + 1) hl
      simp only [expectedDelta] at this
      simp only [zipFilled, expectedDelta, List.map_cons, List.sum_cons, sumIdx, this]
      rfl

theorem expectedDelta_append (a b : List FilledOrder) (x : Addr) (d : Denom) :
    expectedDelta (a ++ b) x d = expectedDelta a x d + expectedDelta b x d := by
  simp [expectedDelta]

theorem expectedFees_append (a b : List FilledOrder) (x : Addr) (d : Denom) :
    expectedFees (a ++ b) x d = expectedFees a x d + expectedFees b x d := by
  simp [expectedFees]

theorem expectedFees_zipFilled (os : List Order) (applied : Nat → Int) (fees : List Coins) (i : Nat)
    (hl : fees.length = os.length) (x : Addr) (d : Denom) (acc : Indexed) :
    bal (indexFees os fees acc).credits x d = bal acc.credits x d + expectedFees (zipFilled os applied fees i) x d := by
  induction os generalizing i fees acc with
  | nil => simp [zipFilled, expectedFees, indexFees]
  | cons o rest ih =>
    cases fees with
    | nil => simp at hl
    | cons f fs =>
      simp only [List.length_cons, Nat.add_right_cancel_iff] at hl
      have := ih fs (i + 1) hl (acc.add o.owner f)
      simp only [expectedFees] at this
      simp only [indexFees, zipFilled, expectedFees, List.map_cons, List.sum_cons, this, bal_credits_add]
      omega

theorem askFeesToPay_length {r : Option Ratio} {applied : Nat → Int} {i : Nat} {os : List Order} {fs : List Coins}
    (h : askFeesToPay r applied i os = .ok fs) : fs.length = os.length := by
  induction os generalizing i fs with
  | nil => simp only [askFeesToPay, Except.ok.injEq] at h; subst h; rfl
  | cons o rest ih =>
    simp only [askFeesToPay] at h
    split at h
    · split at h; · simp at h
      rename_i fs' hrec
      simp only [Except.ok.injEq] at h; subst h
      simp [ih hrec]
    · split at h; · simp at h
      split at h; · simp at h
      rename_i fs' hrec
      simp only [Except.ok.injEq] at h; subst h
      simp [ih hrec]

theorem sumTr_filter_congr (key : Tr → Nat) (k : Nat) (f g : Tr → Int) (t : List Tr)
    (h : ∀ e, key e = k → f e = g e) :
    sumTr f (t.filter (fun e => key e = k)) = sumTr g (t.filter (fun e => key e = k)) := by
  induction t with
  | nil => rfl
  | cons e t ih =>
    rw [List.filter_cons]
    by_cases hk : key e = k
    · simp [hk, ih, h e hk]
    · simp [hk, ih]

theorem sumTr_zero (t : List Tr) : sumTr (fun _ => 0) t = 0 := by
  simp [sumTr]

/-- regrouping: summing per order (of a side) what the trace gives to that order, for the orders
satisfying `P`, is summing the trace entries whose order satisfies `P`. -/
theorem regroup (key : Tr → Nat) (t : List Tr) (os : List Order) (P : Order → Prop) [DecidablePred P]
    (hk : ∀ e ∈ t, key e < os.length) :
    sumIdx (fun k o => if P o then sumTr (·.amt) (t.filter (fun e => key e = k)) else 0) 0 os
      = sumTr (fun e => if P (os.getD (key e) default) then e.amt else 0) t := by
  rw [sumIdx_getD]
  have : ∀ k, (if P (os.getD k default) then sumTr (·.amt) (t.filter (fun e => key e = k)) else 0)
      = sumTr (fun e => if P (os.getD (key e) default) then e.amt else 0) (t.filter (fun e => key e = k)) := by
    intro k
    by_cases hp : P (os.getD k default)
    · rw [if_pos hp]
      apply sumTr_filter_congr
      intro e he; rw [he, if_pos hp]
    · rw [if_neg hp]
      rw [sumTr_filter_congr key k _ (fun _ => 0) t (by intro e he; rw [he, if_neg hp])]
      simp [sumTr]
  simp only [this]
  rw [sumIdx_const]
  exact sum_partition key _ t 0 os.length (fun e he => ⟨by omega, by have := hk e he; omega⟩)


/-- the credits of all asset transfers, regrouped by receiving bid -/
theorem sumIdx_credits (key : Tr → Nat) (t : List Tr) (os : List Order) (h : Tr → Int)
    (hk : ∀ e ∈ t, key e < os.length) :
    sumIdx (fun k _ => sumTr h (t.filter (fun e => key e = k))) 0 os = sumTr h t := by
  rw [sumIdx_const]
  exact sum_partition key _ t 0 os.length (fun e he => ⟨by omega, by have := hk e he; omega⟩)

/-- Balance deltas of all transfers of one kind (assets from the asks' side, price from the bids'
side): `giver` orders (indexed by `gkey`) each give what the trace says, `taker` orders receive. -/
theorem side_deltas {getter : Nat → Order → Except Err Transfer} {givers takers : List Order} {fees : List Coins}
    {ts : List Transfer} {t : List Tr} (gkey tkey : Tr → Nat) (den : Denom) (x : Addr) (d : Denom)
    (h : recordSide getter 0 givers fees = .ok ts)
    (hg : ∀ k o tr, o ∈ givers → getter k o = .ok tr → bal tr.ledger x d =
        - (if o.owner = x ∧ den = d then sumTr (·.amt) (t.filter (fun e => gkey e = k)) else 0)
        + sumTr (fun e => if (takers.getD (tkey e) default).owner = x ∧ den = d then e.amt else 0)
            (t.filter (fun e => gkey e = k)))
    (hgk : ∀ e ∈ t, gkey e < givers.length) (htk : ∀ e ∈ t, tkey e < takers.length) :
    bal (ts.flatMap Transfer.ledger) x d =
      - sumIdx (fun k o => if o.owner = x ∧ den = d then sumTr (·.amt) (t.filter (fun e => gkey e = k)) else 0) 0 givers
      + sumIdx (fun k o => if o.owner = x ∧ den = d then sumTr (·.amt) (t.filter (fun e => tkey e = k)) else 0) 0 takers := by
  rw [recordSide_bal h x d _ hg, sumIdx_add]
  congr 1
  · generalize givers = gs
    generalize (0 : Nat) = i
    induction gs generalizing i with
    | nil => simp [sumIdx]
    | cons o rest ih => simp only [sumIdx, ih]; omega
  · rw [sumIdx_credits gkey t givers _ hgk]
    rw [regroup tkey t takers (fun o => o.owner = x ∧ den = d) htk]


/-- well-formedness of a plan: one asset denom, one price denom, traces within the order lists -/
structure PlanWF (asks bids : List Order) (p : Plan) (ad pd : Denom) : Prop where
  uA : Uniform p.asks ad pd true
  uB : Uniform p.bids ad pd false
  lenA : p.asks.length = asks.length
  lenB : p.bids.length = bids.length
  posA : 0 < p.asks.length
  posB : 0 < p.bids.length
  rA : InRange p.trA 0 p.asks.length 0 p.bids.length
  amtA : ∀ e ∈ p.trA, 0 < e.amt
  rP : InRange p.trP 0 p.asks.length 0 p.bids.length
  lenAF : p.askFees.length = p.asks.length
  lenBF : p.bidFees.length = p.bids.length

theorem plan_wf {asks bids : List Order} {lookup : Denom → Except Err (Option Ratio)} {p : Plan}
    (h : plan asks bids lookup = .ok p) : ∃ ad pd, PlanWF asks bids p ad pd := by
  obtain ⟨left1, ratio, h1, h2, h3, h4, h5, h6, h7, h8⟩ := plan_unfold h
  obtain ⟨ne1, ne2, u1, u2⟩ := validateCanSettle_ok h1
  obtain ⟨v1, l1, _⟩ := u1.of_split h3
  obtain ⟨v2, l2, _⟩ := u2.of_split h4
  obtain ⟨r1, r2⟩ := allocateAssets_spec h2
  have n1 : 0 < asks.length := List.length_pos_iff.mpr ne1
  have n2 : 0 < bids.length := List.length_pos_iff.mpr ne2
  have r3 := allocatePrice_range (by simp; omega) (by simp) h5
  refine ⟨_, _, v1, v2, l1, l2, by omega, by omega, ?_, r2, ?_, askFeesToPay_length h7, by simp [h8]⟩
  · simpa [l1, l2] using r1
  · simpa using r3


end PvProofs.Settle
