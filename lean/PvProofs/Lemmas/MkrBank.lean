/-
Helper lemmas for the bank wiring model (`PvModel.MkrBank`) — C04.
-/
import PvModel.MkrBank
import PvModel.MkrSendSpec
import Mathlib.Tactic.SplitIfs

namespace PvProofs.MkrBankLemmas
open PvModel PvModel.MkrSend PvModel.MkrSend.Bank

/-! ### sdk.Coins validity -/

theorem isValid_imp : ∀ amt : Coins, isValid amt = true →
    Spec.DenomsAscending amt ∧ ∀ c ∈ amt, 0 < c.2
  | [], _ => ⟨List.Pairwise.nil, by simp⟩
  | [(d, a)], h => by
    simp only [isValid, decide_eq_true_eq] at h
    exact ⟨List.pairwise_singleton _ _, by simpa using h⟩
  | (d0, a0) :: (d1, a1) :: rest, h => by
    simp only [isValid, Bool.and_eq_true, decide_eq_true_eq] at h
    obtain ⟨⟨h0, hlt⟩, hr⟩ := h
    obtain ⟨ihs, ihp⟩ := isValid_imp ((d1, a1) :: rest) hr
    refine ⟨?_, ?_⟩
    · unfold Spec.DenomsAscending at *
      rw [List.pairwise_cons]
      refine ⟨?_, ihs⟩
      intro x hx
      rcases List.mem_cons.mp hx with rfl | hx
      · exact hlt
      · exact String.lt_trans hlt ((List.pairwise_cons.mp ihs).1 x hx)
    · intro c hc
      rcases List.mem_cons.mp hc with rfl | hc
      · exact h0
      · exact ihp c hc

theorem isValid_of : ∀ amt : Coins, Spec.DenomsAscending amt → (∀ c ∈ amt, 0 < c.2) → isValid amt = true
  | [], _, _ => rfl
  | [(d, a)], _, hp => by simpa [isValid] using hp (d, a) (by simp)
  | (d0, a0) :: (d1, a1) :: rest, hs, hp => by
    unfold Spec.DenomsAscending at hs
    have hs' := List.pairwise_cons.mp hs
    simp only [isValid, Bool.and_eq_true, decide_eq_true_eq]
    refine ⟨⟨hp (d0, a0) (by simp), hs'.1 (d1, a1) (by simp)⟩, ?_⟩
    exact isValid_of ((d1, a1) :: rest) hs'.2 fun c hc => hp c (List.mem_cons_of_mem _ hc)

/-- `sdk.Coins.IsValid` (denom syntax aside) = strictly ascending denoms, positive amounts. -/
theorem isValid_iff (amt : Coins) :
    isValid amt = true ↔ Spec.DenomsAscending amt ∧ ∀ c ∈ amt, 0 < c.2 :=
  ⟨isValid_imp amt, fun h => isValid_of amt h.1 h.2⟩

/-! ### subUnlockedCoins -/

theorem debit_debit (l : Ledger) (a : Addr) (c : Denom × Int) (rest : Coins) :
    Ledger.debit (Ledger.debit l a [c]) a rest = Ledger.debit l a (c :: rest) := by
  simp [Ledger.debit, Ledger.entries, Coins.neg, List.append_assoc]

/-- The coin loop on coins with pairwise different denoms: every coin is tested against the balance the
account had at the start. -/
theorem subLoop_eq (w : World) (a : Addr) : ∀ (amt : Coins) (l : Ledger),
    amt.Pairwise (fun x y => x.1 ≠ y.1) → (∀ c ∈ amt, 0 < c.2) →
    subLoop w a l amt = if fundsSuffice w l a amt then .ok (l.debit a amt) else .error .funds
  | [], l, _, _ => by simp [subLoop, fundsSuffice, Ledger.debit, Ledger.entries, Coins.neg]
  | (d, x) :: rest, l, hn, hp => by
    have hn' := List.pairwise_cons.mp hn
    have hx : 0 < x := hp (d, x) (by simp)
    have ih := subLoop_eq w a rest (l.debit a [(d, x)]) hn'.2 fun c hc => hp c (List.mem_cons_of_mem _ hc)
    -- the debit of `d` does not touch the balances the rest of the loop reads
    have hb : ∀ c ∈ rest, (l.debit a [(d, x)]).bal a c.1 = l.bal a c.1 := by
      intro c hc
      have hne : d ≠ c.1 := hn'.1 c hc
      simp [Ledger.bal_debit, hne]
    have hrest : fundsSuffice w (l.debit a [(d, x)]) a rest = fundsSuffice w l a rest := by
      unfold fundsSuffice
      rw [Bool.eq_iff_iff]
      simp only [List.all_eq_true, decide_eq_true_eq]
      constructor
      · intro h c hc; rw [← hb c hc]; exact h c hc
      · intro h c hc; rw [hb c hc]; exact h c hc
    unfold subLoop
    simp only []
    rw [ih, hrest, debit_debit]
    by_cases h1 : l.bal a d - w.locked a d < 0
    · have hdx : Decidable.decide (x ≤ l.bal a d - w.locked a d) = false := decide_eq_false (by omega)
      rw [if_pos h1]
      simp only [fundsSuffice, List.all_cons, hdx, Bool.false_and]
      rfl
    · rw [if_neg h1]
      by_cases h2 : l.bal a d - w.locked a d - x < 0
      · have hdx : Decidable.decide (x ≤ l.bal a d - w.locked a d) = false := decide_eq_false (by omega)
        rw [if_pos h2]
        simp only [fundsSuffice, List.all_cons, hdx, Bool.false_and]
        rfl
      · have hdx : Decidable.decide (x ≤ l.bal a d - w.locked a d) = true := decide_eq_true (by omega)
        rw [if_neg h2]
        simp only [fundsSuffice, List.all_cons, hdx, Bool.true_and]
        rcases Bool.eq_false_or_eq_true
          (rest.all fun c => Decidable.decide (c.snd ≤ l.bal a c.fst - w.locked a c.fst)) with h | h <;>
          simp [h]

theorem ascending_ne {amt : Coins} (h : Spec.DenomsAscending amt) : amt.Pairwise (fun x y => x.1 ≠ y.1) := by
  unfold Spec.DenomsAscending at h
  exact h.imp fun {a b} hlt heq => by rw [heq] at hlt; exact String.lt_irrefl _ hlt

/-- `subUnlockedCoins`, closed form. -/
theorem subUnlockedCoins_eq (w : World) (l : Ledger) (a : Addr) (amt : Coins) :
    subUnlockedCoins w l a amt =
      if isValid amt then
        if fundsSuffice w l a amt then .ok (l.debit a amt) else .error .funds
      else .error .invalid := by
  unfold subUnlockedCoins
  by_cases hv : isValid amt = true
  · obtain ⟨hs, hp⟩ := isValid_imp amt hv
    simp [hv, subLoop_eq w a amt l (ascending_ne hs) hp]
  · simp [hv]

/-! ### totals moved by a multi-send -/

/-- what the inputs take from address `a` -/
def inTotal : List IO → Addr → Denom → Int
  | [], _, _ => 0
  | i :: rest, a, d => (if i.addr = a then Coins.amountOf i.coins d else 0) + inTotal rest a d

/-- what a list of (receiver, coins) credits gives to address `a` -/
def creditTotal : List (Addr × Coins) → Addr → Denom → Int
  | [], _, _ => 0
  | (t, c) :: rest, a, d => (if t = a then Coins.amountOf c d else 0) + creditTotal rest a d

theorem bal_creditAll : ∀ (cs : List (Addr × Coins)) (l : Ledger) (a : Addr) (d : Denom),
    Ledger.bal (creditAll l cs) a d = Ledger.bal l a d + creditTotal cs a d
  | [], l, a, d => by simp [creditAll, creditTotal]
  | (t, c) :: rest, l, a, d => by
    simp only [creditAll, creditTotal]
    rw [bal_creditAll rest, Ledger.bal_credit]
    omega

theorem supply_creditAll : ∀ (cs : List (Addr × Coins)) (l : Ledger) (d : Denom),
    Ledger.supply (creditAll l cs) d = Ledger.supply l d + Coins.amountOf (cs.flatMap (·.2)) d
  | [], l, d => by simp [creditAll]
  | (t, c) :: rest, l, d => by
    simp only [creditAll, List.flatMap_cons, Coins.amountOf_append]
    rw [supply_creditAll rest, Ledger.supply_credit]
    omega

theorem amountOf_sumCoins_filter (xs : List IO) (a : Addr) (d : Denom) :
    Coins.amountOf (sumCoins (xs.filter fun j => j.addr = a)) d = inTotal xs a d := by
  induction xs with
  | nil => simp [sumCoins, inTotal]
  | cons i rest ih =>
    unfold sumCoins at ih ⊢
    by_cases h : i.addr = a
    · simp [h, inTotal, ih]
    · simp [h, inTotal, ih]

theorem inTotal_filter_ne_self (xs : List IO) (a : Addr) (d : Denom) :
    inTotal (xs.filter fun j => ¬ j.addr = a) a d = 0 := by
  induction xs with
  | nil => simp [inTotal]
  | cons i rest ih =>
    by_cases h : i.addr = a
    · simpa [h] using ih
    · simpa [h, inTotal] using ih

theorem inTotal_filter_ne_other (xs : List IO) (a b : Addr) (hab : b ≠ a) (d : Denom) :
    inTotal (xs.filter fun j => ¬ j.addr = b) a d = inTotal xs a d := by
  induction xs with
  | nil => simp [inTotal]
  | cons i rest ih =>
    by_cases h : i.addr = b
    · have : ¬ i.addr = a := by rw [h]; exact hab
      simpa [h, inTotal, hab] using ih
    · simpa [h, inTotal] using ih

/-- The debit phase takes from every address exactly the sum of its inputs. -/
theorem bal_debitPhaseAux (w : World) : ∀ (n : Nat) (ins : List IO) (l l1 : Ledger),
    ins.length ≤ n → debitPhaseAux w n l ins = .ok l1 →
    ∀ a d, Ledger.bal l1 a d = Ledger.bal l a d - inTotal ins a d
  | 0, ins, l, l1, hn, h, a, d => by
    have : ins = [] := List.length_eq_zero_iff.mp (Nat.le_zero.mp hn)
    subst this
    simp only [debitPhaseAux] at h
    cases h
    simp [inTotal]
  | n + 1, [], l, l1, _, h, a, d => by
    simp only [debitPhaseAux] at h
    cases h
    simp [inTotal]
  | n + 1, i :: rest, l, l1, hn, h, a, d => by
    simp only [debitPhaseAux] at h
    split_ifs at h with hf
    have hlen : (rest.filter fun j => ¬ j.addr = i.addr).length ≤ n :=
      Nat.le_trans (List.length_filter_le _ _) (Nat.le_of_succ_le_succ hn)
    rw [bal_debitPhaseAux w n _ _ l1 hlen h a d, Ledger.bal_debit]
    simp only [inTotal, Coins.amountOf_append, amountOf_sumCoins_filter]
    by_cases hia : i.addr = a
    · subst hia
      rw [inTotal_filter_ne_self]
      simp
    · rw [inTotal_filter_ne_other rest a i.addr hia]
      simp [hia]

theorem bal_debitPhase (w : World) (l l1 : Ledger) (ins : List IO)
    (h : debitPhase w l ins = .ok l1) (a : Addr) (d : Denom) :
    Ledger.bal l1 a d = Ledger.bal l a d - inTotal ins a d :=
  bal_debitPhaseAux w ins.length ins l l1 (Nat.le_refl _) h a d

theorem supply_debitPhaseAux (w : World) : ∀ (n : Nat) (ins : List IO) (l l1 : Ledger),
    ins.length ≤ n → debitPhaseAux w n l ins = .ok l1 →
    ∀ d, Ledger.supply l1 d = Ledger.supply l d - Coins.amountOf (sumCoins ins) d
  | 0, ins, l, l1, hn, h, d => by
    have : ins = [] := List.length_eq_zero_iff.mp (Nat.le_zero.mp hn)
    subst this
    simp only [debitPhaseAux] at h
    cases h
    simp [sumCoins]
  | n + 1, [], l, l1, _, h, d => by
    simp only [debitPhaseAux] at h
    cases h
    simp [sumCoins]
  | n + 1, i :: rest, l, l1, hn, h, d => by
    simp only [debitPhaseAux] at h
    split_ifs at h with hf
    have hlen : (rest.filter fun j => ¬ j.addr = i.addr).length ≤ n :=
      Nat.le_trans (List.length_filter_le _ _) (Nat.le_of_succ_le_succ hn)
    rw [supply_debitPhaseAux w n _ _ l1 hlen h d, Ledger.supply_debit]
    have hsplit : ∀ xs : List IO, Coins.amountOf (sumCoins xs) d =
        Coins.amountOf (sumCoins (xs.filter fun j => j.addr = i.addr)) d +
        Coins.amountOf (sumCoins (xs.filter fun j => ¬ j.addr = i.addr)) d := by
      intro xs
      induction xs with
      | nil => simp [sumCoins]
      | cons j r ih =>
        unfold sumCoins at ih ⊢
        by_cases hj : j.addr = i.addr
        · simp [List.filter_cons, hj, ih]; omega
        · simp [List.filter_cons, hj, ih]; omega
    have := hsplit rest
    simp only [sumCoins, List.flatMap_cons, Coins.amountOf_append] at this ⊢
    omega

/-- One input: the debit phase is `subUnlockedCoins`' test on that input. -/
theorem debitPhase_single (w : World) (l : Ledger) (i : IO) :
    debitPhase w l [i] =
      if (Coins.denoms i.coins).all fun d =>
          Decidable.decide (Coins.amountOf i.coins d ≤ l.bal i.addr d - w.locked i.addr d)
      then .ok (l.debit i.addr i.coins) else .error .funds := by
  have e : debitPhase w l [i] =
      (if (Coins.denoms (i.coins ++ sumCoins ([].filter fun j => j.addr = i.addr))).all fun d =>
          Decidable.decide (Coins.amountOf (i.coins ++ sumCoins ([].filter fun j => j.addr = i.addr)) d
            ≤ l.bal i.addr d - w.locked i.addr d)
       then debitPhaseAux w 0 (l.debit i.addr (i.coins ++ sumCoins ([].filter fun j => j.addr = i.addr)))
              ([].filter fun j => ¬ j.addr = i.addr)
       else .error .funds) := rfl
  rw [e]
  simp only [List.filter_nil, sumCoins, List.flatMap_nil, List.append_nil]
  rfl

/-! ### the restriction over the pairs -/

/-- the receiver the restrictions hand back for a pair they let through -/
def resolved (w : World) (p : Addr × Addr × Coins) : Addr × Coins :=
  ((w.later p.1 p.2.1 p.2.2).getD p.2.1, p.2.2)

theorem applyRestriction_ok_iff (w : World) (f t : Addr) (amt : Coins) (t' : Addr) :
    applyRestriction w f t amt = .ok t' ↔
      MkrSend.decide (pairCfg w.env f t) amt = allow ∧ w.later f t amt = some t' := by
  unfold applyRestriction
  cases hd : MkrSend.decide (pairCfg w.env f t) amt with
  | error r => simp [allow]
  | ok u =>
    cases hl : w.later f t amt with
    | none => simp
    | some t'' => simp [allow]

theorem restrictAll_ok_iff (w : World) : ∀ (ps : List (Addr × Addr × Coins)) (out : List (Addr × Coins)),
    restrictAll w ps = .ok out ↔
      (∀ p ∈ ps, MkrSend.decide (pairCfg w.env p.1 p.2.1) p.2.2 = allow ∧ (w.later p.1 p.2.1 p.2.2).isSome = true) ∧
      out = ps.map (resolved w)
  | [], out => by
    simp only [restrictAll]
    constructor
    · intro h; cases h; simp
    · rintro ⟨_, rfl⟩; rfl
  | (f, t, c) :: rest, out => by
    unfold restrictAll
    cases ha : applyRestriction w f t c with
    | error e =>
      have : ¬ (MkrSend.decide (pairCfg w.env f t) c = allow ∧ (w.later f t c).isSome = true) := by
        rintro ⟨h1, h2⟩
        obtain ⟨t', ht'⟩ := Option.isSome_iff_exists.mp h2
        have := (applyRestriction_ok_iff w f t c t').mpr ⟨h1, ht'⟩
        rw [ha] at this; cases this
      simp only [List.mem_cons, forall_eq_or_imp]
      constructor
      · intro h; cases h
      · rintro ⟨⟨h, _⟩, _⟩; exact absurd h this
    | ok t' =>
      obtain ⟨h1, h2⟩ := (applyRestriction_ok_iff w f t c t').mp ha
      cases hr : restrictAll w rest with
      | error e =>
        simp only [List.mem_cons, forall_eq_or_imp]
        constructor
        · intro h; cases h
        · rintro ⟨⟨_, hrest⟩, _⟩
          have := (restrictAll_ok_iff w rest (rest.map (resolved w))).mpr ⟨hrest, rfl⟩
          rw [hr] at this; cases this
      | ok o =>
        obtain ⟨hall, ho⟩ := (restrictAll_ok_iff w rest o).mp hr
        simp only [List.mem_cons, forall_eq_or_imp, List.map_cons]
        constructor
        · intro h
          cases h
          refine ⟨⟨⟨h1, by simp [h2]⟩, hall⟩, ?_⟩
          simp [resolved, h2, ho]
        · rintro ⟨_, rfl⟩
          simp [resolved, h2, ho]

end PvProofs.MkrBankLemmas
