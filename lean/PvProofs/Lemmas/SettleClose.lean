/-
Helper lemmas for C01: `exchangeSplit` / `collectFees` / `closeSettlement` over the ledger.
-/
import PvProofs.Lemmas.SettleFilled

namespace PvProofs.Settle
open PvModel PvModel.Settle PvModel.Coins PvModel.Ledger

theorem mem_dedupDenoms (l : List Denom) (d : Denom) : d ∈ dedupDenoms l ↔ d ∈ l := by
  induction l with
  | nil => simp [dedupDenoms]
  | cons a t ih =>
    simp only [dedupDenoms, List.mem_cons, List.mem_filter, ih, decide_eq_true_eq]
    constructor
    · rintro (h | ⟨h, _⟩)
      · exact Or.inl h
      · exact Or.inr h
    · rintro (h | h)
      · exact Or.inl h
      · by_cases hd : d = a
        · exact Or.inl hd
        · exact Or.inr ⟨h, hd⟩

theorem nodup_dedupDenoms (l : List Denom) : (dedupDenoms l).Nodup := by
  induction l with
  | nil => simp [dedupDenoms]
  | cons a t ih =>
    simp only [dedupDenoms, List.nodup_cons, List.mem_filter, decide_eq_true_eq, ne_eq, not_true_eq_false,
      and_false, not_false_eq_true, true_and]
    exact ih.filter _

/-- the per-denom result of `CalculateExchangeSplit` -/
def splitOf (split : Denom → Nat) (total : Coins) (d : Denom) : Except AErr (Option Int) :=
  Fees.exchangeSplitCoin (amountOf total d) (split d)

theorem exchangeSplit_fold_spec (split : Denom → Nat) (total : Coins) (ds : List Denom) (hn : ds.Nodup) (ex : Coins)
    (h : ds.foldr (fun d acc =>
      match acc with
      | .error e => .error e
      | .ok cs =>
        match Fees.exchangeSplitCoin (amountOf total d) (split d) with
        | .error _ => .error .overflow
        | .ok none => .ok cs
        | .ok (some y) => .ok ((d, y) :: cs)) (.ok []) = (.ok ex : Except Err Coins)) :
    (∀ d ∈ ds, ∃ r, splitOf split total d = .ok r ∧ amountOf ex d = r.getD 0) ∧ (∀ d, d ∉ ds → amountOf ex d = 0) := by
  induction ds generalizing ex with
  | nil =>
    simp only [List.foldr_nil, Except.ok.injEq] at h
    subst h
    exact ⟨by intro d hd; simp at hd, by intro d _; rfl⟩
  | cons a t ih =>
    simp only [List.foldr_cons] at h
    simp only [List.nodup_cons] at hn
    split at h; · simp at h
    rename_i cs hcs
    obtain ⟨i1, i2⟩ := ih hn.2 cs hcs
    split at h
    · simp at h
    · rename_i hnone
      simp only [Except.ok.injEq] at h; subst h
      refine ⟨?_, ?_⟩
      · intro d hd
        simp only [List.mem_cons] at hd
        rcases hd with rfl | hd
        · exact ⟨none, hnone, by simpa using i2 d hn.1⟩
        · exact i1 d hd
      · intro d hd
        simp only [List.mem_cons, not_or] at hd
        exact i2 d hd.2
    · rename_i y hsome
      simp only [Except.ok.injEq] at h; subst h
      refine ⟨?_, ?_⟩
      · intro d hd
        simp only [List.mem_cons] at hd
        rcases hd with rfl | hd
        · refine ⟨some y, hsome, ?_⟩
          simp only [amountOf_cons, if_true, i2 d hn.1, Option.getD_some]; omega
        · obtain ⟨r, h1, h2⟩ := i1 d hd
          refine ⟨r, h1, ?_⟩
          have : a ≠ d := fun e => hn.1 (e ▸ hd)
          simp only [amountOf_cons, this, if_false, h2]; omega
      · intro d hd
        simp only [List.mem_cons, not_or] at hd
        have : a ≠ d := fun e => hd.1 e.symm
        simp only [amountOf_cons, this, if_false, i2 d hd.2]; rfl

/-- **The exchange's share**: per denom, exactly what `CalculateExchangeSplit` computes on the total
of that denom (`Fees.exchangeSplitCoin`: nothing for a zero total or a zero split, otherwise
`QuoIntRoundUp(total·split, 10000)`). -/
theorem exchangeSplit_spec {split : Denom → Nat} {total ex : Coins} (h : exchangeSplit split total = .ok ex)
    (d : Denom) : ∃ r, splitOf split total d = .ok r ∧ amountOf ex d = r.getD 0 := by
  obtain ⟨h1, h2⟩ := exchangeSplit_fold_spec split total _ (nodup_dedupDenoms _) ex h
  by_cases hd : d ∈ dedupDenoms (denoms total)
  · exact h1 d hd
  · refine ⟨none, ?_, by simpa using h2 d hd⟩
    have : d ∉ denoms total := fun hm => hd ((mem_dedupDenoms _ _).mpr hm)
    unfold splitOf
    rw [amountOf_not_mem this]
    exact PvProofs.C19.exchangeSplit_skips (Or.inl rfl)

theorem bal_flatMap_ledger_supply (ts : List Transfer)
    (hb : ∀ t ∈ ts, ∀ d, amountOf t.inputs.total d = amountOf t.outputs.total d) (d : Denom) :
    supply (ts.flatMap Transfer.ledger) d = 0 := by
  induction ts with
  | nil => simp
  | cons t rest ih =>
    simp only [List.flatMap_cons, supply_append, Transfer.ledger, supply_debits, supply_credits]
    rw [ih (fun t' ht' => hb t' (by simp [ht'])), hb t (by simp) d]
    omega

theorem total_indexFees (os : List Order) (applied : Nat → Int) (fees : List Coins) (i : Nat)
    (hl : fees.length = os.length) (d : Denom) (acc : Indexed) :
    amountOf (indexFees os fees acc).total d = amountOf acc.total d + totalFees (zipFilled os applied fees i) d := by
  induction os generalizing i fees acc with
  | nil => simp [zipFilled, totalFees, indexFees]
  | cons o rest ih =>
    cases fees with
    | nil => simp at hl
    | cons f fs =>
      simp only [List.length_cons, Nat.add_right_cancel_iff] at hl
      have := ih fs (i + 1) hl (acc.add o.owner f)
      simp only [totalFees] at this
      simp only [indexFees, zipFilled, totalFees, List.map_cons, List.sum_cons, this, total_add]
      omega

theorem totalFees_append (a b : List FilledOrder) (d : Denom) :
    totalFees (a ++ b) d = totalFees a d + totalFees b d := by
  simp [totalFees]

theorem expectedDelta_not_owner (fos : List FilledOrder) (x : Addr) (d : Denom)
    (h : ∀ f ∈ fos, f.order.owner ≠ x) : expectedDelta fos x d = 0 := by
  induction fos with
  | nil => rfl
  | cons f t ih =>
    simp only [expectedDelta, List.map_cons, List.sum_cons, if_neg (h f (by simp))]
    have := ih (fun f' hf' => h f' (by simp [hf']))
    simp only [expectedDelta] at this
    omega

theorem expectedFees_not_owner (fos : List FilledOrder) (x : Addr) (d : Denom)
    (h : ∀ f ∈ fos, f.order.owner ≠ x) : expectedFees fos x d = 0 := by
  induction fos with
  | nil => rfl
  | cons f t ih =>
    simp only [expectedFees, List.map_cons, List.sum_cons, if_neg (h f (by simp))]
    have := ih (fun f' hf' => h f' (by simp [hf']))
    simp only [expectedFees] at this
    omega

end PvProofs.Settle
