/-
Helper lemmas for C13: what a governance closure (`closeMarket`, market.go:1601) does to the order
records and to the two market flags — whatever the flags were before.
-/
import PvProofs.Lemmas.ExrecRun

namespace PvProofs.Exrec
open PvModel.Exrec

theorem hasPermission_authority (s : Store) (m : UInt32) : hasPermission s m authority = true := by
  unfold hasPermission; simp

/-- the step function of `cancelAllOrdersForMarket` -/
def cancelStep (signer : Bytes) (acc : Store) (e : UInt64 × Nat) : Store :=
  match cancelOrder acc e.1 signer false with | some s' => s' | none => acc

theorem cancelAllOrdersForMarket_eq (s : Store) (m : UInt32) (signer : Bytes) :
    cancelAllOrdersForMarket s m signer =
      (iterateOrderIndex s (prefixMarketToOrder m)).foldl (cancelStep signer) s := rfl

/-- one cancellation by the authority: the invariant is kept, no order record appears or changes, and
the order with that id is gone (it is cancelled if it was there: the authority may cancel any order) -/
theorem cancelStep_spec {a : Store} (hinv : IndexInv a) (e : UInt64 × Nat) :
    IndexInv (cancelStep authority a e) ∧
    (∀ i v, (cancelStep authority a e).get (keyOrder i) = some v → a.get (keyOrder i) = some v) ∧
    (cancelStep authority a e).get (keyOrder e.1) = none := by
  have hh := (indexInvF_iff.mp hinv).1
  unfold cancelStep
  cases hg : getOrderFromStore a e.1 with
  | none =>
    have hc : cancelOrder a e.1 authority false = none := by unfold cancelOrder; rw [hg]
    rw [hc]
    refine ⟨hinv, fun _ _ h => h, ?_⟩
    cases hv : a.get (keyOrder e.1) with
    | none => rfl
    | some v =>
      exfalso
      obtain ⟨id, o, _, rfl, _⟩ := hh.order_key _ v hv
      unfold getOrderFromStore at hg
      rw [hv] at hg
      cases hg
  | some o =>
    have hc : cancelOrder a e.1 authority false = some (deleteAndDeIndexOrder a o) := by
      unfold cancelOrder
      rw [hg]
      simp [hasPermission_authority]
    rw [hc]
    obtain ⟨_, hid⟩ := getOrderFromStore_eq hh hg
    refine ⟨inv_cancelOrder hinv hc, fun i v h => ?_, ?_⟩
    · rw [get_deleteAndDeIndexOrder] at h
      split_ifs at h
      exact h
    · rw [get_deleteAndDeIndexOrder, if_pos (Or.inl (by rw [hid]))]

/-- cancelling a list of ids: the invariant is kept, the order records left are records of the start,
unchanged, and none of the listed ids has a record any more -/
theorem cancelFold_spec : ∀ (l : List (UInt64 × Nat)) (a : Store), IndexInv a →
    IndexInv (l.foldl (cancelStep authority) a) ∧
    (∀ i v, (l.foldl (cancelStep authority) a).get (keyOrder i) = some v → a.get (keyOrder i) = some v) ∧
    (∀ e ∈ l, (l.foldl (cancelStep authority) a).get (keyOrder e.1) = none)
  | [], a, h => ⟨h, fun _ _ h => h, fun _ he => by cases he⟩
  | x :: r, a, h => by
    obtain ⟨h1, s1, n1⟩ := cancelStep_spec h x
    obtain ⟨h2, s2, n2⟩ := cancelFold_spec r (cancelStep authority a x) h1
    simp only [List.foldl_cons]
    refine ⟨h2, fun i v hv => s1 i v (s2 i v hv), fun e he => ?_⟩
    rcases List.mem_cons.mp he with rfl | he
    · cases hv : (r.foldl (cancelStep authority) (cancelStep authority a e)).get (keyOrder e.1) with
      | none => rfl
      | some v => have := s2 _ v hv; rw [n1] at this; cases this
    · exact n2 e he

/-- the store after the two flag updates of `closeMarket`, and what they leave alone -/
def closeFlags (s : Store) (m : UInt32) : Store :=
  let s1 := if isMarketAcceptingOrders s m then s.set (keyMarketNotAcceptingOrders m) .empty else s
  if isMarketAcceptingCommitments s1 m then s1.del (keyMarketAcceptingCommitments m) else s1

theorem closeMarket_eq (s : Store) (m : UInt32) :
    closeMarket s m =
      releaseAllCommitmentsForMarket (cancelAllOrdersForMarket (closeFlags s m) m authority) m := rfl

theorem touches_closeFlags (s : Store) (m : UInt32) : Touches s (closeFlags s m) [1] := by
  unfold closeFlags
  dsimp only
  refine Touches.trans (s' := if isMarketAcceptingOrders s m = true then s.set (keyMarketNotAcceptingOrders m) .empty else s) ?_ ?_
  · split_ifs
    · exact Touches.set s _ _ (head_keyNotAccepting m)
    · exact Touches.refl _ _
  · split_ifs
    · exact Touches.del _ _ (head_keyAcceptingCommitments m)
    · exact Touches.refl _ _
    · exact Touches.del _ _ (head_keyAcceptingCommitments m)
    · exact Touches.refl _ _

theorem keyNotAccepting_ne_keyAcceptingCommitments (m m' : UInt32) :
    keyMarketNotAcceptingOrders m ≠ keyMarketAcceptingCommitments m' := by
  intro h
  have := congrArg (fun l => l.drop 5) h
  simp [keyMarketNotAcceptingOrders, keyMarketAcceptingCommitments, u32Bz] at this

/-- after the flag updates both flags are off — whether or not they were on before -/
theorem closeFlags_off (s : Store) (m : UInt32) :
    isMarketAcceptingOrders (closeFlags s m) m = false ∧ isMarketAcceptingCommitments (closeFlags s m) m = false := by
  unfold closeFlags
  dsimp only
  have h1 : isMarketAcceptingOrders
      (if isMarketAcceptingOrders s m = true then s.set (keyMarketNotAcceptingOrders m) .empty else s) m = false := by
    by_cases h : isMarketAcceptingOrders s m = true
    · rw [if_pos h]
      unfold isMarketAcceptingOrders
      have : (s.set (keyMarketNotAcceptingOrders m) .empty).has (keyMarketNotAcceptingOrders m) = true :=
        (has_iff _ _).mpr ⟨.empty, by rw [get_set, if_pos rfl]⟩
      simp [this]
    · rw [if_neg h]; simpa using h
  generalize (if isMarketAcceptingOrders s m = true then s.set (keyMarketNotAcceptingOrders m) .empty else s) = s1 at h1
  by_cases h : isMarketAcceptingCommitments s1 m = true
  · rw [if_pos h]
    constructor
    · unfold isMarketAcceptingOrders Store.has at h1 ⊢
      rw [get_del, if_neg (keyNotAccepting_ne_keyAcceptingCommitments m m)]
      exact h1
    · unfold isMarketAcceptingCommitments
      rw [has_false_iff, get_del, if_pos rfl]
  · rw [if_neg h]
    exact ⟨h1, by simpa using h⟩

end PvProofs.Exrec
