/-
Helper lemmas for C13: every handler of the model preserves the index invariant, touches
only its own key families, and (except order creation) adds no order record.
-/
import PvProofs.Lemmas.ExrecOps

namespace PvProofs.Exrec
open PvModel.Exrec

/-- no order record appears -/
def NoNew (s s' : Store) : Prop := ∀ id v, s'.get (keyOrder id) = some v → ∃ v', s.get (keyOrder id) = some v'

theorem NoNew.refl (s : Store) : NoNew s s := fun _ v h => ⟨v, h⟩
theorem NoNew.trans {s s' s'' : Store} (h1 : NoNew s s') (h2 : NoNew s' s'') : NoNew s s'' :=
  fun id v h => let ⟨v', h'⟩ := h2 id v h; h1 id v' h'
theorem NoNew.del (s : Store) (k : Bytes) : NoNew s (s.del k) := by
  intro id v h; rw [get_del] at h; split_ifs at h; exact ⟨v, h⟩
theorem NoNew.set_other (s : Store) {k : Bytes} (v : Val) (hk : k.head? ≠ some 2) : NoNew s (s.set k v) := by
  intro id v' h; rw [get_set] at h
  split_ifs at h with he
  · exact absurd (he ▸ head_keyOrder id) hk
  · exact ⟨v', h⟩
theorem NoNew.set_existing (s : Store) {k : Bytes} {v0 : Val} (v : Val) (hk : s.get k = some v0) : NoNew s (s.set k v) := by
  intro id v' h; rw [get_set] at h
  split_ifs at h with he
  · exact ⟨v0, he ▸ hk⟩
  · exact ⟨v', h⟩
theorem NoNew.of_touches {s s' : Store} {hs : List Nat} (h : Touches s s' hs) (h2 : 2 ∉ hs) : NoNew s s' :=
  fun id v hv => ⟨v, by rw [← h.eq_of_head (head_keyOrder id) h2]; exact hv⟩

theorem noNew_delete (s : Store) (o : Order) : NoNew s (deleteAndDeIndexOrder s o) := by
  intro id v hv
  rw [get_deleteAndDeIndexOrder] at hv
  split_ifs at hv
  exact ⟨v, hv⟩

theorem inv_delete {s : Store} {o : Order} (h : IndexInv s) (ho : s.get (keyOrder o.id) = some (.order o)) :
    IndexInv (deleteAndDeIndexOrder s o) := by
  have hh := indexInvF_iff.mp h
  exact indexInvF_iff.mpr ⟨hh.1.delete ho (get_deleteAndDeIndexOrder s o),
    hh.2.of_touches (touches_deleteAndDeIndexOrder s o) (by simp [orderHeads])⟩

def allHeads : List Nat := orderHeads ++ payHeads

theorem orderHeads_sub : ∀ b ∈ orderHeads, b ∈ allHeads := fun _ hb => List.mem_append_left _ hb
theorem payHeads_sub : ∀ b ∈ payHeads, b ∈ allHeads := fun _ hb => List.mem_append_right _ hb

/-! ### cancel -/

theorem cancelOrder_eq {s s' : Store} {id : UInt64} {signer : Bytes} {up : Bool}
    (h : cancelOrder s id signer up = some s') :
    ∃ o, getOrderFromStore s id = some o ∧ s' = deleteAndDeIndexOrder s o := by
  unfold cancelOrder at h
  split at h
  · cases h
  · next o ho =>
    split_ifs at h
    cases h
    exact ⟨o, ho, rfl⟩

theorem inv_cancelOrder {s s' : Store} {id : UInt64} {signer : Bytes} {up : Bool} (hinv : IndexInv s)
    (h : cancelOrder s id signer up = some s') : IndexInv s' := by
  obtain ⟨o, ho, rfl⟩ := cancelOrder_eq h
  have := getOrderFromStore_eq (indexInvF_iff.mp hinv).1 ho
  exact inv_delete hinv (by rw [this.2]; exact this.1)

theorem touches_cancelOrder {s s' : Store} {id : UInt64} {signer : Bytes} {up : Bool}
    (h : cancelOrder s id signer up = some s') : Touches s s' orderHeads := by
  obtain ⟨o, _, rfl⟩ := cancelOrder_eq h
  exact touches_deleteAndDeIndexOrder s o

theorem noNew_cancelOrder {s s' : Store} {id : UInt64} {signer : Bytes} {up : Bool}
    (h : cancelOrder s id signer up = some s') : NoNew s s' := by
  obtain ⟨o, _, rfl⟩ := cancelOrder_eq h
  exact noNew_delete s o

/-- generic fold: a step that either changes the store by a good change or leaves it -/
theorem foldl_preserves {α : Type} (P : Store → Store → Prop) (hrefl : ∀ s, P s s)
    (htrans : ∀ s s' s'', P s s' → P s' s'' → P s s'') (f : Store → α → Store)
    (hf : ∀ s x, P s (f s x)) : ∀ (l : List α) (s : Store), P s (l.foldl f s) := by
  intro l
  induction l with
  | nil => intro s; exact hrefl s
  | cons x r ih => intro s; exact htrans _ _ _ (hf s x) (ih (f s x))

theorem cancelAll_good (s : Store) (m : UInt32) (signer : Bytes) :
    (IndexInv s → IndexInv (cancelAllOrdersForMarket s m signer)) ∧
    Touches s (cancelAllOrdersForMarket s m signer) orderHeads ∧ NoNew s (cancelAllOrdersForMarket s m signer) := by
  unfold cancelAllOrdersForMarket
  refine foldl_preserves (fun a b => (IndexInv a → IndexInv b) ∧ Touches a b orderHeads ∧ NoNew a b)
    (fun a => ⟨id, Touches.refl _ _, NoNew.refl _⟩)
    (fun a b c h1 h2 => ⟨fun h => h2.1 (h1.1 h), h1.2.1.trans h2.2.1, h1.2.2.trans h2.2.2⟩) _ ?_ _ s
  intro a e
  cases hc : cancelOrder a e.1 signer false with
  | none => exact ⟨id, Touches.refl _ _, NoNew.refl _⟩
  | some a' => exact ⟨fun h => inv_cancelOrder h hc, touches_cancelOrder hc, noNew_cancelOrder hc⟩


/-! ### rewriting a live order's value (partial fill) -/

theorem update_get {s s' : Store} {o o' : Order} (hinv : IndexInv s) (ho : s.get (keyOrder o.id) = some (.order o))
    (hid : o'.id = o.id) (hm : o'.market = o.market) (hx : o'.ext = o.ext)
    (h : setOrderInStore s o' = some s') :
    ∀ k, s'.get k = if k = keyOrder o.id then some (.order o') else s.get k := by
  have hu := (setOrderInStore_update (v := .order o) (by rw [hid]; exact ho) h).2
  intro k
  rw [hu, hid, hm, hx]
  by_cases hk : o.ext ≠ [] ∧ k = idxMarketExternalIDToOrder o.market o.ext
  · rw [if_pos hk, if_neg (by rw [hk.2]; simp [keyOrder, idxMarketExternalIDToOrder])]
    rw [hk.2]
    exact ((indexInvF_iff.mp hinv).1.indexed o.id o ho _
      (mem_orderIndexEntries.mpr (Or.inr (Or.inr (Or.inr ⟨hk.1, rfl⟩))))).symm
  · rw [if_neg hk]

theorem inv_update {s s' : Store} {o o' : Order} (hinv : IndexInv s) (ho : s.get (keyOrder o.id) = some (.order o))
    (hid : o'.id = o.id) (hm : o'.market = o.market) (hx : o'.ext = o.ext)
    (hent : orderIndexEntries o' = orderIndexEntries o)
    (h : setOrderInStore s o' = some s') : IndexInv s' := by
  have hg := update_get hinv ho hid hm hx h
  have hh := indexInvF_iff.mp hinv
  refine indexInvF_iff.mpr ⟨hh.1.update ho hid hent hg, hh.2.frame fun k hk => ?_⟩
  rw [hg, if_neg]
  rintro rfl; simp [payHead, keyOrder] at hk

theorem touches_setOrderInStore {s s' : Store} {o : Order} (h : setOrderInStore s o = some s') :
    Touches s s' orderHeads := by
  intro k hk
  cases hv : s.get (keyOrder o.id) with
  | none =>
    have hg := (setOrderInStore_new hv h).2
    rw [hg] at hk
    split_ifs at hk with h1
    · exact ⟨2, by simp [orderHeads], h1 ▸ rfl⟩
    · cases hev : entryVal o k with
      | none => rw [hev] at hk; exact absurd rfl hk
      | some v => exact head_of_entry_mem (List.mem_map.mpr ⟨_, entryVal_some hev, rfl⟩)
  | some v =>
    have hg := (setOrderInStore_update hv h).2
    rw [hg] at hk
    split_ifs at hk with h1 h2
    · exact ⟨9, by simp [orderHeads], h1.2 ▸ rfl⟩
    · exact ⟨2, by simp [orderHeads], h2 ▸ rfl⟩
    · exact absurd rfl hk

theorem noNew_setOrderInStore_existing {s s' : Store} {o : Order} {v : Val} (hv : s.get (keyOrder o.id) = some v)
    (h : setOrderInStore s o = some s') : NoNew s s' := by
  intro id v' hv'
  rw [(setOrderInStore_update hv h).2] at hv'
  split_ifs at hv' with h1 h2
  · exact absurd h1.2 (by simp [keyOrder, idxMarketExternalIDToOrder])
  · exact ⟨v, by rw [h2]; exact hv⟩
  · exact ⟨v', hv'⟩

/-! ### external id change -/

theorem setOrderExternalID_eq {s s' : Store} {m : UInt32} {id : UInt64} {x signer : Bytes}
    (h : setOrderExternalID s m id x signer = some s') :
    ∃ o, getOrderFromStore s id = some o ∧ o.ext ≠ x ∧
      setOrderInStore (if o.ext ≠ [] then s.del (idxMarketExternalIDToOrder o.market o.ext) else s)
        { o with ext := x } = some s' := by
  unfold setOrderExternalID at h
  split_ifs at h
  split at h
  · cases h
  · next o ho =>
    split_ifs at h with h1 h2 h3
    · exact ⟨o, ho, h2, by rw [if_pos h3]; exact h⟩
    · exact ⟨o, ho, h2, by rw [if_neg h3]; exact h⟩

theorem inv_setOrderExternalID {s s' : Store} {m : UInt32} {id : UInt64} {x signer : Bytes} (hinv : IndexInv s)
    (h : setOrderExternalID s m id x signer = some s') : IndexInv s' := by
  obtain ⟨o, ho, hx, hset⟩ := setOrderExternalID_eq h
  have hh := indexInvF_iff.mp hinv
  obtain ⟨hrec, hid⟩ := getOrderFromStore_eq hh.1 ho
  subst hid
  -- the store after dropping the old external-id entry
  have hs1 : ∀ k, (if o.ext ≠ [] then s.del (idxMarketExternalIDToOrder o.market o.ext) else s).get k =
      if o.ext ≠ [] ∧ k = idxMarketExternalIDToOrder o.market o.ext then none else s.get k := by
    intro k
    by_cases he : o.ext = []
    · simp [he]
    · simp only [ne_eq, he, not_false_eq_true, ↓reduceIte, get_del, true_and]
  have hrec1 : (if o.ext ≠ [] then s.del (idxMarketExternalIDToOrder o.market o.ext) else s).get (keyOrder o.id) =
      some (.order o) := by
    rw [hs1, if_neg (by simp [keyOrder, idxMarketExternalIDToOrder])]; exact hrec
  obtain ⟨hconf, hg⟩ := setOrderInStore_update (o := { o with ext := x }) hrec1 hset
  have hne : idxMarketExternalIDToOrder o.market x ≠ idxMarketExternalIDToOrder o.market o.ext := by
    simp [Ne.symm hx]
  have hfree : x ≠ [] → s.get (idxMarketExternalIDToOrder o.market x) = none := by
    intro hxe
    cases hv : s.get (idxMarketExternalIDToOrder o.market x) with
    | none => rfl
    | some v =>
      exfalso
      obtain ⟨id2, o2, ho2, hm⟩ := hh.1.no_dangling _ v rfl hv
      have hid2 := hh.1.record_id ho2
      rcases mem_orderIndexEntries.mp hm with hq | hq | hq | ⟨hx2, hq⟩ <;>
        simp [idxMarketToOrder, idxAddressToOrder, idxAssetToOrder, idxMarketExternalIDToOrder] at hq
      obtain ⟨hkq, rfl⟩ := hq
      have := u32_append_inj hkq
      have hother := hconf hxe o2.id (by
        show (if o.ext ≠ [] then s.del (idxMarketExternalIDToOrder o.market o.ext) else s).get
          (idxMarketExternalIDToOrder o.market x) = some (Val.u64 o2.id)
        rw [hs1, if_neg (fun hh2 => hne hh2.2)]; exact hv)
      simp only at hother
      rw [hid2] at hother; subst hother
      rw [hrec] at ho2; cases ho2
      exact hx this.2.symm
  refine indexInvF_iff.mpr ⟨hh.1.reext hrec (Ne.symm hx) hfree (fun k => ?_), hh.2.frame fun k hk => ?_⟩
  · rw [hg, hs1]
    simp only
    split_ifs <;> simp_all [keyOrder, idxMarketExternalIDToOrder]
  · rw [hg, hs1]
    simp only
    rw [if_neg, if_neg, if_neg]
    · rintro ⟨_, rfl⟩; simp [payHead, idxMarketExternalIDToOrder] at hk
    · rintro rfl; simp [payHead, keyOrder] at hk
    · rintro ⟨_, rfl⟩; simp [payHead, idxMarketExternalIDToOrder] at hk

theorem touches_setOrderExternalID {s s' : Store} {m : UInt32} {id : UInt64} {x signer : Bytes}
    (h : setOrderExternalID s m id x signer = some s') : Touches s s' orderHeads := by
  obtain ⟨o, _, _, hset⟩ := setOrderExternalID_eq h
  refine Touches.trans ?_ (touches_setOrderInStore hset)
  by_cases he : o.ext = []
  · simp only [he, ne_eq, not_true_eq_false, ↓reduceIte]; exact Touches.refl _ _
  · simp only [ne_eq, he, not_false_eq_true, ↓reduceIte]
    exact (Touches.del s _ (head_idxExt _ _)).mono (by simp [orderHeads])

theorem noNew_setOrderExternalID {s s' : Store} {m : UInt32} {id : UInt64} {x signer : Bytes}
    (h : setOrderExternalID s m id x signer = some s') : NoNew s s' := by
  obtain ⟨o, ho, _, hset⟩ := setOrderExternalID_eq h
  have hs1 : NoNew s (if o.ext ≠ [] then s.del (idxMarketExternalIDToOrder o.market o.ext) else s) := by
    by_cases he : o.ext = []
    · simp only [he, ne_eq, not_true_eq_false, ↓reduceIte]; exact NoNew.refl _
    · simp only [ne_eq, he, not_false_eq_true, ↓reduceIte]; exact NoNew.del _ _
  refine hs1.trans ?_
  -- the record exists (it was just read)
  unfold getOrderFromStore at ho
  split at ho
  · next o' hv =>
    have : (if o.ext ≠ [] then s.del (idxMarketExternalIDToOrder o.market o.ext) else s).get (keyOrder id) = some (.order o') := by
      by_cases he : o.ext = []
      · simp only [he, ne_eq, not_true_eq_false, ↓reduceIte]; exact hv
      · simp only [ne_eq, he, not_false_eq_true, ↓reduceIte, get_del]
        rw [if_neg (by simp [keyOrder, idxMarketExternalIDToOrder])]; exact hv
    cases ho
    exact noNew_setOrderInStore_existing (o := { o' with id := id, ext := x }) this hset
  · cases ho


/-! ### settlement of one ask with one bid -/

theorem settlePartial_eq {s s' : Store} {l f : Order} (h : settlePartial s l f = some s') :
    ∃ s1, setOrderInStore s l = some s1 ∧ s' = deleteAndDeIndexOrder s1 f := by
  unfold settlePartial at h
  split at h
  · cases h
  · next s1 hs1 => cases h; exact ⟨s1, hs1, rfl⟩

theorem settleDecide_partial {a b l f : Order} {ep : Bool} (h : settleDecide a b ep = some (some (l, f))) :
    (l.id = a.id ∧ l.market = a.market ∧ l.ext = a.ext ∧ orderIndexEntries l = orderIndexEntries a ∧ f = b) ∨
    (l.id = b.id ∧ l.market = b.market ∧ l.ext = b.ext ∧ orderIndexEntries l = orderIndexEntries b ∧ f = a) := by
  unfold settleDecide at h
  dsimp only at h
  split_ifs at h <;> simp only [Option.some.injEq, Prod.mk.injEq, reduceCtorEq] at h
  · obtain ⟨rfl, rfl⟩ := h; exact Or.inl ⟨rfl, rfl, rfl, rfl, rfl⟩
  · obtain ⟨rfl, rfl⟩ := h; exact Or.inr ⟨rfl, rfl, rfl, rfl, rfl⟩

/-- the three shapes of a successful settlement -/
theorem settle_cases {s s' : Store} {m : UInt32} {a b : UInt64} {ep : Bool} {signer : Bytes}
    (h : settle s m a b ep signer = some s') :
    a ≠ b ∧ ∃ oa ob, getOrderFromStore s a = some oa ∧ getOrderFromStore s b = some ob ∧
      ((∃ o' s1, o'.id = oa.id ∧ o'.market = oa.market ∧ o'.ext = oa.ext ∧
          orderIndexEntries o' = orderIndexEntries oa ∧ setOrderInStore s o' = some s1 ∧
          s' = deleteAndDeIndexOrder s1 ob) ∨
       (∃ o' s1, o'.id = ob.id ∧ o'.market = ob.market ∧ o'.ext = ob.ext ∧
          orderIndexEntries o' = orderIndexEntries ob ∧ setOrderInStore s o' = some s1 ∧
          s' = deleteAndDeIndexOrder s1 oa) ∨
       s' = deleteAndDeIndexOrder (deleteAndDeIndexOrder s oa) ob) := by
  unfold settle at h
  split_ifs at h with h0 h1 h2
  have hab : a ≠ b := fun e => h0 (Or.inr (Or.inr (Or.inr e)))
  refine ⟨hab, ?_⟩
  split at h
  · next oa ob hoa hob =>
    refine ⟨oa, ob, hoa, hob, ?_⟩
    split_ifs at h
    split at h
    · cases h
    · cases h; exact Or.inr (Or.inr rfl)
    · next l f hd =>
      obtain ⟨s1, hs1, rfl⟩ := settlePartial_eq h
      rcases settleDecide_partial hd with ⟨h1, h2, h3, h4, rfl⟩ | ⟨h1, h2, h3, h4, rfl⟩
      · exact Or.inl ⟨l, s1, h1, h2, h3, h4, hs1, rfl⟩
      · exact Or.inr (Or.inl ⟨l, s1, h1, h2, h3, h4, hs1, rfl⟩)
  · cases h

theorem get_keyOrder_delete_ne {s : Store} {o : Order} {i : UInt64} (hne : i ≠ o.id) :
    (deleteAndDeIndexOrder s o).get (keyOrder i) = s.get (keyOrder i) := by
  rw [get_deleteAndDeIndexOrder, if_neg]
  rintro (hk | hk)
  · exact hne (keyOrder_inj.mp hk)
  · obtain ⟨e, he, hk2⟩ := List.mem_map.mp hk
    exact index_ne_keyOrder (isOrderIndexKey_of_mem he) _ hk2

theorem inv_settle {s s' : Store} {m : UInt32} {a b : UInt64} {ep : Bool} {signer : Bytes} (hinv : IndexInv s)
    (h : settle s m a b ep signer = some s') : IndexInv s' := by
  obtain ⟨hab, oa, ob, hoa, hob, hc⟩ := settle_cases h
  have hh := indexInvF_iff.mp hinv
  obtain ⟨hra, hida⟩ := getOrderFromStore_eq hh.1 hoa
  obtain ⟨hrb, hidb⟩ := getOrderFromStore_eq hh.1 hob
  subst hida hidb
  rcases hc with ⟨o', s1, hid, hm, hx, hent, hset, rfl⟩ | ⟨o', s1, hid, hm, hx, hent, hset, rfl⟩ | rfl
  · have hinv1 := inv_update hinv hra hid hm hx hent hset
    refine inv_delete hinv1 ?_
    rw [update_get hinv hra hid hm hx hset, if_neg (by simpa using Ne.symm hab)]; exact hrb
  · have hinv1 := inv_update hinv hrb hid hm hx hent hset
    refine inv_delete hinv1 ?_
    rw [update_get hinv hrb hid hm hx hset, if_neg (by simpa using hab)]; exact hra
  · refine inv_delete (inv_delete hinv hra) ?_
    rw [get_keyOrder_delete_ne (Ne.symm hab)]; exact hrb

theorem touches_settle {s s' : Store} {m : UInt32} {a b : UInt64} {ep : Bool} {signer : Bytes}
    (h : settle s m a b ep signer = some s') : Touches s s' orderHeads := by
  obtain ⟨_, oa, ob, _, _, hc⟩ := settle_cases h
  rcases hc with ⟨o', s1, _, _, _, _, hset, rfl⟩ | ⟨o', s1, _, _, _, _, hset, rfl⟩ | rfl
  · exact (touches_setOrderInStore hset).trans (touches_deleteAndDeIndexOrder _ _)
  · exact (touches_setOrderInStore hset).trans (touches_deleteAndDeIndexOrder _ _)
  · exact (touches_deleteAndDeIndexOrder _ _).trans (touches_deleteAndDeIndexOrder _ _)

theorem getOrderFromStore_get {s : Store} {id : UInt64} {o : Order} (ho : getOrderFromStore s id = some o) :
    ∃ v, s.get (keyOrder id) = some v := by
  unfold getOrderFromStore at ho
  split at ho
  · next o' hv => exact ⟨_, hv⟩
  · cases ho

theorem noNew_settle {s s' : Store} {m : UInt32} {a b : UInt64} {ep : Bool} {signer : Bytes}
    (h : settle s m a b ep signer = some s') : NoNew s s' := by
  obtain ⟨_, oa, ob, hoa, hob, hc⟩ := settle_cases h
  obtain ⟨va, hva⟩ := getOrderFromStore_get hoa
  obtain ⟨vb, hvb⟩ := getOrderFromStore_get hob
  have ida : oa.id = a := by
    unfold getOrderFromStore at hoa; split at hoa
    · cases hoa; rfl
    · cases hoa
  have idb : ob.id = b := by
    unfold getOrderFromStore at hob; split at hob
    · cases hob; rfl
    · cases hob
  rcases hc with ⟨o', s1, hid, _, _, _, hset, rfl⟩ | ⟨o', s1, hid, _, _, _, hset, rfl⟩ | rfl
  · exact (noNew_setOrderInStore_existing (v := va) (by rw [hid, ida]; exact hva) hset).trans (noNew_delete _ _)
  · exact (noNew_setOrderInStore_existing (v := vb) (by rw [hid, idb]; exact hvb) hset).trans (noNew_delete _ _)
  · exact (noNew_delete _ _).trans (noNew_delete _ _)

/-! ### user settlements (`FillBids` / `FillAsks`): a list of orders, each filled in full -/

theorem getOrderFromStore_id {s : Store} {id : UInt64} {o : Order} (ho : getOrderFromStore s id = some o) :
    o.id = id := by
  unfold getOrderFromStore at ho
  split at ho
  · cases ho; rfl
  · cases ho

/-- what `getOrdersToFill` returns: the orders of the listed ids, in that order, each of the wanted type,
in the market, and not the filler's own (same account AND same spelling) -/
theorem getOrdersToFill_spec {s : Store} {m : UInt32} {wb : Bool} {f : Bytes} {fu : Bool} :
    ∀ {ids : List UInt64} {os : List Order}, getOrdersToFill s m wb f fu ids = some os →
      os.map (·.id) = ids ∧
      ∀ o ∈ os, getOrderFromStore s o.id = some o ∧ o.isBid = wb ∧ o.market = m ∧ ¬ (o.owner = f ∧ o.ownerUp = fu)
  | [], os, h => by
    unfold getOrdersToFill at h
    cases h
    exact ⟨rfl, fun _ ho => by cases ho⟩
  | id :: r, os, h => by
    unfold getOrdersToFill at h
    split at h
    · cases h
    · next o ho =>
      split_ifs at h with hc
      cases hr : getOrdersToFill s m wb f fu r with
      | none => rw [hr] at h; cases h
      | some os' =>
        rw [hr] at h
        simp only [Option.map_some, Option.some.injEq] at h
        subst h
        obtain ⟨hm, hall⟩ := getOrdersToFill_spec hr
        have hid := getOrderFromStore_id ho
        refine ⟨by simp [hm, hid], fun o' ho' => ?_⟩
        rcases List.mem_cons.mp ho' with rfl | ho'
        · refine ⟨by rw [hid]; exact ho, ?_, ?_, ?_⟩
          · exact Classical.byContradiction fun hx => hc (Or.inl hx)
          · exact Classical.byContradiction fun hx => hc (Or.inr (Or.inl hx))
          · exact fun hx => hc (Or.inr (Or.inr hx))
        · exact hall o' ho'

theorem fillFold_inv : ∀ (os : List Order) (s : Store), IndexInv s → (os.map (·.id)).Nodup →
    (∀ o ∈ os, s.get (keyOrder o.id) = some (.order o)) → IndexInv (os.foldl deleteAndDeIndexOrder s)
  | [], _, h, _, _ => h
  | x :: r, s, h, hn, hr => by
    simp only [List.foldl_cons]
    simp only [List.map_cons, List.nodup_cons] at hn
    refine fillFold_inv r _ (inv_delete h (hr x List.mem_cons_self)) hn.2 (fun o ho => ?_)
    rw [get_keyOrder_delete_ne (fun e => hn.1 (List.mem_map.mpr ⟨o, ho, e⟩))]
    exact hr o (List.mem_cons_of_mem _ ho)

theorem fillFold_touches (os : List Order) (s : Store) :
    Touches s (os.foldl deleteAndDeIndexOrder s) orderHeads :=
  foldl_preserves (fun a b => Touches a b orderHeads) (fun a => Touches.refl a _)
    (fun _ _ _ h1 h2 => h1.trans h2) _ (fun a o => touches_deleteAndDeIndexOrder a o) os s

theorem fillFold_noNew (os : List Order) (s : Store) : NoNew s (os.foldl deleteAndDeIndexOrder s) :=
  foldl_preserves NoNew NoNew.refl (fun _ _ _ h1 h2 => h1.trans h2) _ (fun a o => noNew_delete a o) os s

/-- whatever is stored after the fold was stored before it, with the same value -/
theorem fillFold_get_sub : ∀ (os : List Order) (s : Store) (k : Bytes) (v : Val),
    (os.foldl deleteAndDeIndexOrder s).get k = some v → s.get k = some v
  | [], _, _, _, h => h
  | x :: r, s, k, v, h => by
    have := fillFold_get_sub r _ k v h
    rw [get_deleteAndDeIndexOrder] at this
    split_ifs at this
    exact this

/-- the record of an order that is not in the list is what it was -/
theorem fillFold_get_other : ∀ (os : List Order) (s : Store) (i : UInt64), i ∉ os.map (·.id) →
    (os.foldl deleteAndDeIndexOrder s).get (keyOrder i) = s.get (keyOrder i)
  | [], _, _, _ => rfl
  | x :: r, s, i, hi => by
    simp only [List.map_cons, List.mem_cons, not_or] at hi
    simp only [List.foldl_cons]
    rw [fillFold_get_other r _ i hi.2, get_keyOrder_delete_ne hi.1]

/-- the record of an order in the list is gone -/
theorem fillFold_get_listed : ∀ (os : List Order) (s : Store) (i : UInt64), i ∈ os.map (·.id) →
    (os.foldl deleteAndDeIndexOrder s).get (keyOrder i) = none
  | [], _, _, hi => by cases hi
  | x :: r, s, i, hi => by
    simp only [List.foldl_cons]
    cases hv : (r.foldl deleteAndDeIndexOrder (deleteAndDeIndexOrder s x)).get (keyOrder i) with
    | none => rfl
    | some v =>
      exfalso
      have h1 := fillFold_get_sub r _ _ v hv
      simp only [List.map_cons, List.mem_cons] at hi
      rcases hi with rfl | hi
      · rw [get_deleteAndDeIndexOrder, if_pos (Or.inl rfl)] at h1; cases h1
      · rw [fillFold_get_listed r _ i hi] at hv; cases hv

/-- the shape of an accepted user settlement -/
theorem fillOrders_eq {s s' : Store} {m : UInt32} {wb : Bool} {f : Bytes} {fu : Bool} {ids : List UInt64}
    {total : List (Bytes × Nat)} (h : fillOrders s m wb f fu ids total = some s') :
    ids.Nodup ∧ ids ≠ [] ∧ ∃ os, getOrdersToFill s m wb f fu ids = some os ∧
      coinsEqual (fillSum wb os) total = true ∧ s' = os.foldl deleteAndDeIndexOrder s := by
  unfold fillOrders at h
  split_ifs at h with h0 h1
  have hn : ids.Nodup :=
    Classical.byContradiction fun hc => h0 (Or.inr (Or.inr (Or.inr (Or.inr (Or.inl hc)))))
  have hne : ids ≠ [] := fun hc => h0 (Or.inr (Or.inr (Or.inl hc)))
  split at h
  · cases h
  · next os hos =>
    split_ifs at h with h2
    cases h
    exact ⟨hn, hne, os, hos, by simpa using h2, rfl⟩

theorem inv_fillOrders {s s' : Store} {m : UInt32} {wb : Bool} {f : Bytes} {fu : Bool} {ids : List UInt64}
    {total : List (Bytes × Nat)} (hinv : IndexInv s) (h : fillOrders s m wb f fu ids total = some s') :
    IndexInv s' := by
  obtain ⟨hn, _, os, hos, _, rfl⟩ := fillOrders_eq h
  obtain ⟨hm, hall⟩ := getOrdersToFill_spec hos
  have hh := (indexInvF_iff.mp hinv).1
  exact fillFold_inv os s hinv (by rw [hm]; exact hn)
    (fun o ho => (getOrderFromStore_eq hh (hall o ho).1).1)

theorem touches_fillOrders {s s' : Store} {m : UInt32} {wb : Bool} {f : Bytes} {fu : Bool} {ids : List UInt64}
    {total : List (Bytes × Nat)} (h : fillOrders s m wb f fu ids total = some s') : Touches s s' orderHeads := by
  obtain ⟨_, _, os, _, _, rfl⟩ := fillOrders_eq h
  exact fillFold_touches os s

theorem noNew_fillOrders {s s' : Store} {m : UInt32} {wb : Bool} {f : Bytes} {fu : Bool} {ids : List UInt64}
    {total : List (Bytes × Nat)} (h : fillOrders s m wb f fu ids total = some s') : NoNew s s' := by
  obtain ⟨_, _, os, _, _, rfl⟩ := fillOrders_eq h
  exact fillFold_noNew os s

end PvProofs.Exrec
