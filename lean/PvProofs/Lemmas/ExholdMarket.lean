/-
C02 helper lemmas, part 3: market settlement, user fills, commitment settlement, market close.
-/
import PvProofs.Lemmas.ExholdSettle

namespace PvProofs.Exhold
open PvModel PvModel.Exhold

theorem validIds_nodup {ids : List Nat} (h : validIds ids = true) : ids.Nodup := by
  simp only [validIds, Bool.and_eq_true, decide_eq_true_eq] at h
  exact h.2

theorem settlePlan_ok {s : State} {admin : Addr} {m : Nat} {askIds bidIds : List Nat} {plan : Plan}
    (h : settlePlan s admin m askIds bidIds = .ok plan) : PlanOk s.orders plan := by
  unfold settlePlan at h
  split at h
  · simp at h
  · rename_i hnd
    split at h
    · simp at h
    · split at h
      · simp at h
      · split at h
        · simp at h
        · split at h
          · simp at h
          · rename_i asks ha
            split at h
            · simp at h
            · rename_i bids hb
              obtain ⟨ha1, ha2⟩ := getOrders_spec ha
              obtain ⟨hb1, hb2⟩ := getOrders_spec hb
              exact planSettlement_ok
                (fun o ho => by
                  rcases List.mem_append.mp ho with h1 | h1
                  · exact ha2 o h1
                  · exact hb2 o h1)
                (by rw [List.map_append, ha1, hb1]; simpa using hnd) h

theorem settleOrders_inv {s s' : State} {admin : Addr} {m : Nat} {askIds bidIds : List Nat} {ep : Bool}
    {orc : Oracle} (hi : Inv s) (h : settleOrders s admin m askIds bidIds ep orc = .ok s') :
    ∃ p, settlePlan s admin m askIds bidIds = .ok p ∧ PlanOk s.orders p ∧ Inv s' ∧
      (∀ b e, hold s' b e = hold s b e - ordersObl p.full b e -
        (match p.part with | some (fl, _) => contrib fl b e | none => 0)) ∧
      s'.orders = deleteAll (match p.part with | some (_, left) => setOrder s.orders left | none => s.orders)
        (p.full.map (·.id)) := by
  unfold settleOrders at h
  split at h
  · simp at h
  · rename_i plan hplan
    split at h
    · simp at h
    · split at h
      · simp at h
      · split at h
        · simp at h
        · have hp := settlePlan_ok hplan
          exact ⟨plan, hplan, hp, closeSettlement_inv hi hp h⟩

theorem fullPlan_ok {s : State} {m : Nat} {ids : List Nat} {ask : Bool} {no : Addr} {os : List Order}
    (hv : ids.Nodup) (h : getOrders s m ids ask no = .ok os) : PlanOk s.orders { full := os, part := none } := by
  obtain ⟨h1, h2⟩ := getOrders_spec h
  exact ⟨h2, by simp only; rw [h1]; exact hv, fun _ _ hp => by simp at hp⟩

theorem fillBidsOrders_ok {s : State} {seller : Addr} {m : Nat} {ids : List Nat} {total : Coins}
    {flat cfee : Option Coin} {bids : List Order} (h : fillBidsOrders s seller m ids total flat cfee = .ok bids) :
    PlanOk s.orders { full := bids, part := none } := by
  unfold fillBidsOrders at h
  split at h
  · simp at h
  · rename_i hv
    split at h
    · simp at h
    · split at h
      · simp at h
      · split at h
        · simp at h
        · split at h
          · simp at h
          · split at h
            · simp at h
            · rename_i bids' hb
              split at h
              · simp at h
              · injection h with h; subst h
                exact fullPlan_ok (validIds_nodup (by simpa using hv)) hb

theorem fillAsksOrders_ok {s : State} {buyer : Addr} {m : Nat} {ids : List Nat} {total : Coin}
    {fees : Coins} {cfee : Option Coin} {asks : List Order} (h : fillAsksOrders s buyer m ids total fees cfee = .ok asks) :
    PlanOk s.orders { full := asks, part := none } := by
  unfold fillAsksOrders at h
  split at h
  · simp at h
  · rename_i hv
    split at h
    · simp at h
    · split at h
      · simp at h
      · split at h
        · simp at h
        · split at h
          · simp at h
          · split at h
            · simp at h
            · rename_i asks' ha
              split at h
              · simp at h
              · injection h with h; subst h
                exact fullPlan_ok (validIds_nodup (by simpa using hv)) ha

theorem fillBids_inv {s s' : State} {seller : Addr} {m : Nat} {ids : List Nat} {total : Coins}
    {flat cfee : Option Coin} {orc : Oracle} (hi : Inv s)
    (h : fillBids s seller m ids total flat cfee orc = .ok s') :
    ∃ bids, fillBidsOrders s seller m ids total flat cfee = .ok bids ∧ Inv s' ∧
      ∀ b e, hold s' b e = hold s b e - ordersObl bids b e := by
  unfold fillBids at h
  split at h
  · simp at h
  · rename_i bids hb
    split at h
    · simp at h
    · obtain ⟨hi', hh, _⟩ := closeSettlement_inv hi (fillBidsOrders_ok hb) h
      exact ⟨bids, hb, hi', fun b e => by rw [hh]; simp⟩

theorem fillAsks_inv {s s' : State} {buyer : Addr} {m : Nat} {ids : List Nat} {total : Coin}
    {fees : Coins} {cfee : Option Coin} {orc : Oracle} (hi : Inv s)
    (h : fillAsks s buyer m ids total fees cfee orc = .ok s') :
    ∃ asks, fillAsksOrders s buyer m ids total fees cfee = .ok asks ∧ Inv s' ∧
      ∀ b e, hold s' b e = hold s b e - ordersObl asks b e := by
  unfold fillAsks at h
  split at h
  · simp at h
  · rename_i asks ha
    split at h
    · simp at h
    · obtain ⟨hi', hh, _⟩ := closeSettlement_inv hi (fillAsksOrders_ok ha) h
      exact ⟨asks, ha, hi', fun b e => by rw [hh]; simp⟩


/-! ### commitment settlement -/

/-- entries whose coins can be handed to the hold keeper and the bank -/
def EntriesGood (es : List (Addr × Coins)) : Prop := ∀ e ∈ es, nodupDenoms e.2 = true ∧ EntriesNonneg e.2

theorem simplify_good {es : List (Addr × Coins)} (h : ∀ e ∈ es, EntriesNonneg e.2) : EntriesGood (simplify es) := by
  unfold simplify
  suffices H : ∀ (acc : List (Addr × Coins)), EntriesGood acc → EntriesGood (es.foldl (fun acc e =>
      if acc.any (·.1 = e.1) then acc.map fun x => if x.1 = e.1 then (x.1, norm (x.2 ++ e.2)) else x
      else acc ++ [(e.1, norm e.2)]) acc) from H [] (fun e he => by simp at he)
  induction es with
  | nil => intro acc hacc; simpa using hacc
  | cons e t ih =>
    intro acc hacc
    simp only [List.foldl_cons]
    apply ih (fun e' he' => h e' (by simp [he']))
    have he := h e (by simp)
    split
    · intro x hx
      simp only [List.mem_map] at hx
      obtain ⟨y, hy, rfl⟩ := hx
      split
      · exact ⟨nodup_norm _, entriesNonneg_norm (entriesNonneg_append (hacc y hy).2 he)⟩
      · exact hacc y hy
    · intro x hx
      rcases List.mem_append.mp hx with hx' | hx'
      · exact hacc x hx'
      · simp at hx'; subst hx'
        exact ⟨nodup_norm _, entriesNonneg_norm he⟩

theorem Inv.of_bank {s : State} (hi : Inv s) (k : Ledger) (hc : HoldsCovered { s with bank := k }) :
    Inv { s with bank := k } :=
  ⟨hi.holdsMatch, hc, ⟨hi.wf.orders, hi.wf.ids, hi.wf.idsNodup, hi.wf.commits, hi.wf.ckeys, hi.wf.pays, hi.wf.keys⟩⟩

theorem debitAll_inv {s s' : State} {es : List (Addr × Coins)} (hi : Inv s) (hg : EntriesGood es)
    (h : debitAll s es = some s') : Inv s' := by
  induction es generalizing s with
  | nil => simp only [debitAll] at h; injection h with h; subst h; exact hi
  | cons x t ih =>
    obtain ⟨a, cs⟩ := x
    simp only [debitAll] at h
    split at h
    · rename_i hsp
      apply ih _ (fun e he => hg e (by simp [he])) h
      apply hi.of_bank
      intro b e
      simp only [canSpend, List.all_eq_true, decide_eq_true_eq] at hsp
      have hsp0 : ∀ e, 0 ≤ spendable s a e := fun e => by have := hi.covered a e; simp [spendable]; omega
      have hle := amountOf_le_of_nodup (hg (a, cs) (by simp)).1 (spendable s a) hsp e (hsp0 e)
      have := hi.covered b e
      simp only [hold, bal, spendable, Ledger.bal_debit] at *
      split <;> rename_i hab
      · subst hab; omega
      · omega
    · simp at h

theorem creditAll_inv {s : State} {es : List (Addr × Coins)} (hi : Inv s) (hg : EntriesGood es) :
    Inv (creditAll s es) := by
  induction es generalizing s with
  | nil => simpa [creditAll] using hi
  | cons x t ih =>
    obtain ⟨a, cs⟩ := x
    simp only [creditAll]
    apply ih _ (fun e he => hg e (by simp [he]))
    apply hi.of_bank
    intro b e
    have hnn := amountOf_nonneg (hg (a, cs) (by simp)).2 e
    have := hi.covered b e
    simp only [hold, bal, Ledger.bal_credit] at *
    split <;> omega

theorem sendAllTo_inv {s s' : State} {dst : Addr} {es : List (Addr × Coins)} (hi : Inv s) (hg : EntriesGood es)
    (h : sendAllTo s dst es = some s') : Inv s' := by
  induction es generalizing s with
  | nil => simp only [sendAllTo] at h; injection h with h; subst h; exact hi
  | cons x t ih =>
    obtain ⟨a, cs⟩ := x
    simp only [sendAllTo] at h
    split at h
    · simp at h
    · rename_i s1 hs1
      exact ih (sendCoins_inv hi (hg (a, cs) (by simp)).1 hs1).1 (fun e he => hg e (by simp [he])) h

theorem commitAll_inv {s s' : State} {m : Nat} {es : List (Addr × Coins)} (hi : Inv s) (hg : EntriesGood es)
    (h : commitAll s m es = .ok s') : Inv s' := by
  induction es generalizing s with
  | nil => simp only [commitAll] at h; injection h with h; subst h; exact hi
  | cons x t ih =>
    obtain ⟨a, cs⟩ := x
    simp only [commitAll] at h
    split at h
    · simp at h
    · rename_i s1 hs1
      exact ih (addCommitmentCore_inv hi (hg (a, cs) (by simp)).1 hs1).1 (fun e he => hg e (by simp [he])) h

theorem settleCommitments_inv {s s' : State} {admin : Addr} {m : Nat} {ins outs fees : List (Addr × Coins)}
    (hi : Inv s) (h : settleCommitments s admin m ins outs fees = .ok s') : Inv s' := by
  unfold settleCommitments at h
  split at h
  · simp at h
  · rename_i hv
    split at h
    · simp at h
    · simp only at h
      split at h
      · simp at h
      · rename_i s1 hs1
        split at h
        · simp at h
        · rename_i s2 hs2
          split at h
          · simp at h
          · rename_i s3 hs3
            have hall : ∀ e ∈ ins ++ outs ++ fees, EntriesNonneg e.2 := by
              simp only [not_or] at hv
              have h4 : ((ins ++ outs ++ fees).all fun e => isValidCoins e.2 && !e.2.isEmpty) = true := by
                have := hv.2.2.2.1
                simpa using this
              simp only [List.all_eq_true, Bool.and_eq_true] at h4
              intro e he
              exact isValidCoins_nonneg (h4 e he).1
            have hgi := simplify_good (es := ins) (fun e he => hall e (by simp [he]))
            have hgo := simplify_good (es := outs) (fun e he => hall e (by simp [he]))
            have hgf := simplify_good (es := fees) (fun e he => hall e (by simp [he]))
            have hi1 := releaseCommitments_inv hi hs1
            have hi2 := debitAll_inv hi1 hgi hs2
            have hi3 := sendAllTo_inv (creditAll_inv hi2 hgo) hgf hs3
            exact commitAll_inv hi3 hgo h


/-! ### market close -/

theorem Inv.of_markets {s : State} (hi : Inv s) (ms : List Market) : Inv { s with markets := ms } :=
  ⟨hi.holdsMatch, hi.covered, ⟨hi.wf.orders, hi.wf.ids, hi.wf.idsNodup, hi.wf.commits, hi.wf.ckeys, hi.wf.pays, hi.wf.keys⟩⟩

/-- under the invariant `CancelOrder` cannot hit the "release failed" branch, so the call without
rollback behaves like the transactional one -/
theorem cancelOrderNoTx_inv {s : State} (hi : Inv s) (id : Nat) : Inv (cancelOrderNoTx s id) := by
  unfold cancelOrderNoTx
  split
  · exact hi
  · rename_i o hg
    have hok : (releaseHold s o.owner (holdAmt o)).2 = true :=
      releaseHold_never_fails s o.owner (holdAmt o)
        (holdAmt_entriesNonneg (hi.wf.orders o (getOrder_mem hg)))
        (fun e => by
          rw [hi.holdsMatch o.owner e]
          have h1 := contrib_le_ordersObl hi.wf.orders hg o.owner e
          have h2 := commitsObl_nonneg hi.wf.commits o.owner e
          have h3 := paysObl_nonneg hi.wf.paysNonneg o.owner e
          simp only [contrib, ↓reduceIte] at h1
          simp only [obligations]; omega)
    simp only [hok, ↓reduceIte]
    have hc : cancelOrder s id o.owner = .ok { (releaseHold s o.owner (holdAmt o)).1 with
        orders := deleteOrder (releaseHold s o.owner (holdAmt o)).1.orders id } := by
      unfold cancelOrder releaseHoldTx
      simp [hg, hok]
    obtain ⟨_, _, hi', _⟩ := cancelOrder_inv hi hc
    exact hi'

theorem foldl_cancel_inv {s : State} (hi : Inv s) (ids : List Nat) : Inv (ids.foldl cancelOrderNoTx s) := by
  induction ids generalizing s with
  | nil => exact hi
  | cons id t ih => exact ih (cancelOrderNoTx_inv hi id)

theorem releaseCommitmentNoTx_inv {s : State} (hi : Inv s) (m : Nat) (a : Addr) :
    Inv (releaseCommitmentNoTx s m a) := by
  unfold releaseCommitmentNoTx
  simp only
  split
  · exact hi
  · rename_i hnz
    have hok : (releaseHold s a (getCommitment s.commitments m a)).2 = true :=
      releaseHold_never_fails s a _ (getCommitment_nonneg hi.wf.commits m a)
        (fun e => by
          rw [hi.holdsMatch a e]
          have h1 := commit_le_commitsObl hi.wf.commits m a e
          have h2 := ordersObl_nonneg hi.wf.orders a e
          have h3 := paysObl_nonneg hi.wf.paysNonneg a e
          simp only [obligations]; omega)
    simp only [hok, ↓reduceIte]
    have hc : releaseCommitment s m a [] = .ok { (releaseHold s a (getCommitment s.commitments m a)).1 with
        commitments := setCommitment (releaseHold s a (getCommitment s.commitments m a)).1.commitments m a [] } := by
      have hnz' : allZero (getCommitment s.commitments m a) = false := by simpa using hnz
      unfold releaseCommitment releaseHoldTx
      simp only [anyNegative, List.any_nil, Bool.false_eq_true, ↓reduceIte, hnz', hok]
      simp [allZero]
    exact (releaseCommitment_inv hi hc).1

theorem foldl_release_inv {s : State} (hi : Inv s) (m : Nat) (as : List Addr) :
    Inv (as.foldl (fun st a => releaseCommitmentNoTx st m a) s) := by
  induction as generalizing s with
  | nil => exact hi
  | cons a t ih => exact ih (releaseCommitmentNoTx_inv hi m a)

theorem closeMarket_inv {s : State} (hi : Inv s) (m : Nat) : Inv (closeMarket s m) := by
  unfold closeMarket releaseAllCommitmentsForMarket cancelAllOrdersForMarket
  apply foldl_release_inv
  apply foldl_cancel_inv
  split
  · exact hi
  · exact hi.of_markets _

end PvProofs.Exhold
