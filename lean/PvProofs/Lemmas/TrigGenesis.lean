/-
Helper lemmas for the genesis round trip of the trigger module (`PvProofs.C18Trigger`):
what the three write loops of `InitGenesis` build, the key ranges of a reachable store, and the
extra history invariants the round trip needs (listener keys kept in key order, queue start ≥ 1).
-/
import PvProofs.Lemmas.TrigFit
import PvModel.TrigGenesis

namespace PvProofs.Lemmas.Trig
open PvModel.Trig

theorem State.ext' : ∀ (a b : State), a.nextId = b.nextId → a.triggers = b.triggers →
    a.listeners = b.listeners → a.gasLimits = b.gasLimits → a.qItems = b.qItems →
    a.qStart = b.qStart → a.qLen = b.qLen → a.bal = b.bal → a = b
  | ⟨_, _, _, _, _, _, _, _⟩, ⟨_, _, _, _, _, _, _, _⟩, h1, h2, h3, h4, h5, h6, h7, h8 => by
    simp only at h1 h2 h3 h4 h5 h6 h7 h8
    subst h1 h2 h3 h4 h5 h6 h7 h8
    rfl

/-! ### a loop of keyed writes into a function store -/

/-- `for e in L { store[key e] = val e }` -/
def writeAll {α β : Type} (key : α → Nat) (val : α → β) (L : List α) (f : Nat → Option β) :
    Nat → Option β :=
  L.foldl (fun f e => fun i => if i = key e then some (val e) else f i) f

theorem writeAll_not_mem {α β : Type} (key : α → Nat) (val : α → β) : ∀ (L : List α)
    (f : Nat → Option β) (i : Nat), i ∉ L.map key → writeAll key val L f i = f i
  | [], _, _, _ => rfl
  | e :: L, f, i, h => by
    simp only [List.map_cons, List.mem_cons, not_or] at h
    show writeAll key val L _ i = f i
    rw [writeAll_not_mem key val L _ i h.2]
    exact if_neg h.1

theorem writeAll_mem {α β : Type} (key : α → Nat) (val : α → β) : ∀ (L : List α)
    (f : Nat → Option β) (e : α), (L.map key).Nodup → e ∈ L →
    writeAll key val L f (key e) = some (val e)
  | [], _, _, _, h => by cases h
  | a :: L, f, e, hnd, h => by
    simp only [List.map_cons, List.nodup_cons] at hnd
    show writeAll key val L _ (key e) = some (val e)
    rcases List.mem_cons.1 h with rfl | h
    · rw [writeAll_not_mem key val L _ _ hnd.1]
      exact if_pos rfl
    · exact writeAll_mem key val L _ e hnd.2 h

/-- the keys of what an in-order iteration over `0 … n-1` yields are pairwise distinct -/
theorem nodup_keys_filterMap {α : Type} (key : α → Nat) (f : Nat → Option α)
    (hk : ∀ i a, f i = some a → key a = i) : ∀ (l : List Nat), l.Nodup →
    ((l.filterMap f).map key).Nodup ∧ ∀ k ∈ (l.filterMap f).map key, k ∈ l
  | [], _ => by simp
  | i :: l, hnd => by
    rw [List.nodup_cons] at hnd
    obtain ⟨ih1, ih2⟩ := nodup_keys_filterMap key f hk l hnd.2
    cases hfi : f i with
    | none =>
      rw [List.filterMap_cons_none hfi]
      exact ⟨ih1, fun k hk' => List.mem_cons_of_mem _ (ih2 k hk')⟩
    | some a =>
      rw [List.filterMap_cons_some hfi, List.map_cons, hk i a hfi]
      refine ⟨List.nodup_cons.2 ⟨fun hm => hnd.1 (ih2 i hm), ih1⟩, fun k hk' => ?_⟩
      rcases List.mem_cons.1 hk' with e | e
      · rw [e]; exact List.mem_cons_self
      · exact List.mem_cons_of_mem _ (ih2 k e)

/-- Writing back what an in-order iteration over `0 … n-1` of a function store yields rebuilds the
store, provided no key lies at or beyond `n`. -/
theorem writeAll_filterMap_range {α β : Type} (key : α → Nat) (val : α → β) (g : Nat → Option β)
    (pack : Nat → β → α) (hkey : ∀ i b, g i = some b → key (pack i b) = i)
    (hval : ∀ i b, val (pack i b) = b)
    (n : Nat) (hn : ∀ i b, g i = some b → i < n) :
    writeAll key val ((List.range n).filterMap fun i => (g i).map (pack i)) (fun _ => none) = g := by
  have hk : ∀ i a, (fun i => (g i).map (pack i)) i = some a → key a = i := by
    intro i a h
    cases hg : g i with
    | none => simp [hg] at h
    | some b => simp only [hg, Option.map_some, Option.some.injEq] at h; rw [← h, hkey i b hg]
  have hnd := (nodup_keys_filterMap key _ hk (List.range n) List.nodup_range).1
  funext i
  cases hg : g i with
  | none =>
    rw [writeAll_not_mem]
    intro hm
    obtain ⟨a, ha, e⟩ := List.mem_map.1 hm
    obtain ⟨j, _, hj⟩ := List.mem_filterMap.1 ha
    have := hk j a hj
    cases hgj : g j with
    | none => simp [hgj] at hj
    | some b => rw [← this, e, hg] at hgj; cases hgj
  | some b =>
    have hmem : pack i b ∈ (List.range n).filterMap fun i => (g i).map (pack i) :=
      List.mem_filterMap.2 ⟨i, List.mem_range.2 (hn i b hg), by simp [hg]⟩
    have := writeAll_mem key val _ (fun _ => none) (pack i b) hnd hmem
    rwa [hkey i b hg, hval] at this

/-! ### the three write loops of `InitGenesis` -/

theorem foldl_setGasLimit (L : List (Nat × Nat)) : ∀ (s : State),
    L.foldl (fun s e => setGasLimit s e.1 e.2) s =
      { s with gasLimits := writeAll (·.1) (·.2) L s.gasLimits } := by
  induction L with
  | nil => intro s; rfl
  | cons e L ih => intro s; simp only [List.foldl_cons]; rw [ih]; rfl

theorem foldl_setTrigger (T : List Trigger) : ∀ (s : State),
    T.foldl (fun s t => setEventListener (setTrigger s t) t) s =
      { s with triggers := writeAll (·.id) id T s.triggers,
               listeners := T.foldl (fun ls t => insertListener (listenerOf t) ls) s.listeners } := by
  induction T with
  | nil => intro s; rfl
  | cons t T ih => intro s; simp only [List.foldl_cons]; rw [ih]; rfl

/-- `Enqueue` in a loop: the items land in consecutive slots after the current end of the queue -/
theorem foldl_enqueue : ∀ (E : List QItem) (s : State),
    (E.foldl enqueue s).qLen = s.qLen + E.length ∧ (E.foldl enqueue s).qStart = s.qStart ∧
    (E.foldl enqueue s).nextId = s.nextId ∧ (E.foldl enqueue s).triggers = s.triggers ∧
    (E.foldl enqueue s).listeners = s.listeners ∧ (E.foldl enqueue s).gasLimits = s.gasLimits ∧
    (E.foldl enqueue s).bal = s.bal ∧
    ∀ i, (E.foldl enqueue s).qItems i =
      if s.qStart + s.qLen ≤ i ∧ i < s.qStart + s.qLen + E.length then E[i - (s.qStart + s.qLen)]?
      else s.qItems i
  | [], s => ⟨rfl, rfl, rfl, rfl, rfl, rfl, rfl, fun i => by simp; omega⟩
  | e :: E, s => by
    obtain ⟨h1, h2, h3, h4, h5, h6, h7, h8⟩ := foldl_enqueue E (enqueue s e)
    simp only [List.foldl_cons]
    refine ⟨by rw [h1]; simp [enqueue]; omega, h2, h3, h4, h5, h6, h7, fun i => ?_⟩
    rw [h8]
    show (if s.qStart + (s.qLen + 1) ≤ i ∧ i < s.qStart + (s.qLen + 1) + E.length then
        E[i - (s.qStart + (s.qLen + 1))]? else if i = s.qStart + s.qLen then some e else s.qItems i) = _
    by_cases h0 : i = s.qStart + s.qLen
    · subst h0
      rw [if_neg (by omega), if_pos rfl, if_pos (by simp), Nat.sub_self]; rfl
    · by_cases hin : s.qStart + (s.qLen + 1) ≤ i ∧ i < s.qStart + (s.qLen + 1) + E.length
      · rw [if_pos hin, if_pos (by simp; omega)]
        obtain ⟨k, rfl⟩ : ∃ k, i = s.qStart + s.qLen + 1 + k := ⟨i - (s.qStart + s.qLen + 1), by omega⟩
        rw [show s.qStart + s.qLen + 1 + k - (s.qStart + (s.qLen + 1)) = k by omega,
          show s.qStart + s.qLen + 1 + k - (s.qStart + s.qLen) = k + 1 by omega]
        rfl
      · rw [if_neg hin, if_neg h0, if_neg (by simp; omega)]

/-- a complete window read as a list: element `k` is slot `i + k` -/
theorem qFrom_getElem (f : Nat → Option QItem) : ∀ (n i : Nat), (qFrom f i n).length = n →
    ∀ k, k < n → (qFrom f i n)[k]? = f (i + k)
  | 0, _, _, k, hk => by omega
  | n + 1, i, h, k, hk => by
    have hfull := (qFrom_full_iff f (n + 1) i).1 h
    cases hfi : f i with
    | none => exact absurd hfi (by simpa using hfull 0 (by omega))
    | some q0 =>
      have hlen : (qFrom f (i + 1) n).length = n := by
        have := h; simp only [qFrom, hfi, List.length_cons] at this; omega
      rw [qFrom_succ_some f i n q0 hfi]
      cases k with
      | zero => simp [hfi]
      | succ k =>
        rw [List.getElem?_cons_succ, qFrom_getElem f n (i + 1) hlen k (by omega)]
        congr 1; omega

/-! ### listener keys are kept in key order -/

/-- the model's key order of the listener sub-store -/
def LSorted (ls : List Listener) : Prop := ls.Pairwise fun a b => a.lt b = true

theorem Listener.lt_trans {a b c : Listener} (h1 : a.lt b = true) (h2 : b.lt c = true) :
    a.lt c = true := by
  simp only [Listener.lt, Bool.or_eq_true, decide_eq_true_eq, Bool.and_eq_true, beq_iff_eq] at *
  omega

theorem Listener.lt_total {a b : Listener} (h : a.id ≠ b.id) (h1 : ¬ a.lt b = true) :
    b.lt a = true := by
  simp only [Listener.lt, Bool.or_eq_true, decide_eq_true_eq, Bool.and_eq_true, beq_iff_eq] at *
  omega

theorem Listener.lt_asymm {a b : Listener} (h1 : a.lt b = true) (h2 : b.lt a = true) : False := by
  simp only [Listener.lt, Bool.or_eq_true, decide_eq_true_eq, Bool.and_eq_true, beq_iff_eq] at *
  omega

theorem LSorted_insert (l : Listener) : ∀ (ls : List Listener), LSorted ls →
    (∀ x ∈ ls, x.id ≠ l.id) → LSorted (insertListener l ls)
  | [], _, _ => by simp [insertListener, LSorted]
  | x :: xs, hp, hf => by
    have hx : x.id ≠ l.id := hf x List.mem_cons_self
    have hne : l ≠ x := fun e => hx (by rw [e])
    obtain ⟨hp1, hp2⟩ := List.pairwise_cons.1 hp
    unfold insertListener
    rw [if_neg hne]
    split
    · next hlt =>
      refine List.pairwise_cons.2 ⟨fun y hy => ?_, hp⟩
      rcases List.mem_cons.1 hy with e | hy
      · rw [e]; exact hlt
      · exact Listener.lt_trans hlt (hp1 y hy)
    · next hlt =>
      refine List.pairwise_cons.2 ⟨fun y hy => ?_,
        LSorted_insert l xs hp2 (fun y hy => hf y (List.mem_cons_of_mem _ hy))⟩
      rcases (mem_insertListener l y xs).1 hy with e | hy
      · rw [e]; exact Listener.lt_total (fun e' => hx e'.symm) hlt
      · exact hp1 y hy

theorem LSorted_sublist {a b : List Listener} (h : a.Sublist b) (hb : LSorted b) : LSorted a :=
  List.Pairwise.sublist h hb

theorem LSorted_nodup {ls : List Listener} (h : LSorted ls) : ls.Nodup :=
  List.Pairwise.imp (fun {a b} hlt e => by subst e; exact Listener.lt_asymm hlt hlt) h

/-- two key-ordered listener lists with the same keys are the same list -/
theorem LSorted_ext {a b : List Listener} (ha : LSorted a) (hb : LSorted b)
    (h : ∀ l, l ∈ a ↔ l ∈ b) : a = b :=
  List.Perm.eq_of_pairwise (fun _ _ _ _ h1 h2 => (Listener.lt_asymm h1 h2).elim) ha hb
    ((List.perm_ext_iff_of_nodup (LSorted_nodup ha) (LSorted_nodup hb)).2 h)

/-- `SetEventListener` in a loop over triggers with pairwise distinct, fresh ids keeps the keys in key
order and adds exactly their keys -/
theorem foldl_insert_sorted : ∀ (T : List Trigger) (ls : List Listener), LSorted ls →
    (T.map (·.id)).Nodup → (∀ t ∈ T, ∀ x ∈ ls, x.id ≠ t.id) →
    LSorted (T.foldl (fun ls t => insertListener (listenerOf t) ls) ls) ∧
    ∀ l, l ∈ T.foldl (fun ls t => insertListener (listenerOf t) ls) ls ↔
      l ∈ ls ∨ ∃ t ∈ T, l = listenerOf t
  | [], ls, h, _, _ => ⟨h, fun l => by simp⟩
  | t :: T, ls, h, hnd, hf => by
    simp only [List.map_cons, List.nodup_cons] at hnd
    have h1 : LSorted (insertListener (listenerOf t) ls) :=
      LSorted_insert _ _ h (fun x hx => hf t List.mem_cons_self x hx)
    have hf' : ∀ t' ∈ T, ∀ x ∈ insertListener (listenerOf t) ls, x.id ≠ t'.id := by
      intro t' ht' x hx
      rcases (mem_insertListener _ x ls).1 hx with e | hx
      · rw [e]; exact fun e' => hnd.1 (List.mem_map.2 ⟨t', ht', e'.symm⟩)
      · exact hf t' (List.mem_cons_of_mem _ ht') x hx
    obtain ⟨a, b⟩ := foldl_insert_sorted T _ h1 hnd.2 hf'
    refine ⟨a, fun l => ?_⟩
    simp only [List.foldl_cons]
    rw [b, mem_insertListener]
    simp only [List.mem_cons, exists_eq_or_imp]
    constructor
    · rintro ((h | h) | h)
      · exact Or.inr (Or.inl h)
      · exact Or.inl h
      · exact Or.inr (Or.inr h)
    · rintro (h | h | h)
      · exact Or.inl (Or.inr h)
      · exact Or.inl (Or.inl h)
      · exact Or.inr h

/-- what the action handlers and the block functions do to the listener keys: only removals -/
theorem lis_handleMsg {s s' : State} {a : Action} (h : handleMsg s a = .ok s') :
    s'.listeners.Sublist s.listeners := by
  cases a with
  | send f t amt =>
    obtain ⟨b, hb⟩ := bankSend_ok (show bankSend s f t amt = .ok s' from h)
    subst hb; exact List.Sublist.refl _
  | kill auth id =>
    obtain ⟨_, _, t, _, _, e⟩ := destroyTrigger_ok (show destroyTrigger s auth id = .ok s' from h)
    subst e
    exact List.filter_sublist
  | boom => cases h

theorem lis_applyAll : ∀ (acts : List Action) (s : State),
    (applyAll s acts).listeners.Sublist s.listeners
  | [], s => List.Sublist.refl _
  | a :: rest, s => by
    simp only [applyAll]
    split
    · next s' hs => exact (lis_applyAll rest s').trans (lis_handleMsg hs)
    · exact lis_applyAll rest s

theorem lis_replay : ∀ (xs : List Exec) (s : State), (replay s xs).listeners.Sublist s.listeners
  | [], s => List.Sublist.refl _
  | x :: xs, s => by
    simp only [replay]
    split
    · exact (lis_replay xs _).trans (lis_applyAll _ _)
    · exact lis_replay xs _

theorem lis_queueDetected (height time : Nat) : ∀ (ts : List Trigger) (s : State),
    (queueDetected height time s ts).listeners.Sublist s.listeners
  | [], s => List.Sublist.refl _
  | t :: ts, s => by
    simp only [queueDetected]
    exact (lis_queueDetected height time ts _).trans List.filter_sublist

theorem qStart_applyAll : ∀ (acts : List Action) (s : State), (applyAll s acts).qStart = s.qStart
  | [], s => rfl
  | a :: rest, s => by
    simp only [applyAll]
    split
    · next s' hs =>
      rw [qStart_applyAll rest s']
      cases a with
      | send f t amt =>
        obtain ⟨b, hb⟩ := bankSend_ok (show bankSend s f t amt = .ok s' from hs)
        subst hb; rfl
      | kill auth id =>
        obtain ⟨_, _, t, _, _, e⟩ := destroyTrigger_ok (show destroyTrigger s auth id = .ok s' from hs)
        subst e; rfl
      | boom => cases hs
    · exact qStart_applyAll rest s

theorem qStart_replay : ∀ (xs : List Exec) (s : State), s.qStart ≤ (replay s xs).qStart
  | [], s => Nat.le_refl _
  | x :: xs, s => by
    simp only [replay]
    split
    · have := qStart_replay xs (applyAll (removeGasLimit (dequeue s) x.id) x.actions)
      rw [qStart_applyAll] at this
      exact Nat.le_trans (Nat.le_succ _) this
    · exact Nat.le_trans (Nat.le_succ _) (qStart_replay xs (removeGasLimit (dequeue s) x.id))

theorem qStart_queueDetected (height time : Nat) : ∀ (ts : List Trigger) (s : State),
    (queueDetected height time s ts).qStart = s.qStart
  | [], s => rfl
  | t :: ts, s => by
    simp only [queueDetected]
    rw [qStart_queueDetected height time ts]; rfl

/-- The extra store invariant of the genesis round trip: listener keys in key order, queue start at
least 1 (as in the default genesis). -/
structure GInv (s : State) : Prop where
  sorted : LSorted s.listeners
  qstart : 1 ≤ s.qStart

theorem GInv_init : GInv State.init := ⟨by simp [State.init, LSorted], by decide⟩

theorem GInv_step {s : State} (hw : WF s) (hg : GInv s) (op : Op) : GInv (step s op).1 := by
  cases op with
  | fund a amt => exact ⟨hg.sorted, hg.qstart⟩
  | pay f t amt =>
    simp only [step]
    split
    · next s' hs => obtain ⟨b, hb⟩ := bankSend_ok hs; subst hb; exact ⟨hg.sorted, hg.qstart⟩
    · exact hg
  | create m rem hh tm =>
    simp only [step]
    split
    · next s' id g hc =>
      obtain ⟨_, _, _, _, _, owner, rest, _, hs⟩ := createTrigger_ok hc
      subst hs
      refine ⟨?_, hg.qstart⟩
      show LSorted (insertListener (listenerOf ⟨s.nextId, owner, m.event, m.actions⟩) s.listeners)
      refine LSorted_insert _ _ hg.sorted (fun x hx e => ?_)
      obtain ⟨t', ht', _⟩ := (hw.lis x).1 hx
      have := (hw.trig _ _ ht').2.2
      simp only [listenerOf] at e
      omega
    · exact hg
  | destroy auth id =>
    simp only [step]
    split
    · next s' hd =>
      obtain ⟨_, _, t, _, _, e⟩ := destroyTrigger_ok hd
      subst e
      exact ⟨LSorted_sublist List.filter_sublist hg.sorted, hg.qstart⟩
    · exact hg
  | beginBlock cost =>
    simp only [step, processTriggers]
    obtain ⟨s', xs, hp, _, _, _, _, _, _, _, _, _, _, hrep, _⟩ := processLoop_spec cost MaximumActions 0 s hw
    rw [hp]
    subst hrep
    exact ⟨LSorted_sublist (lis_replay xs s) hg.sorted, Nat.le_trans hg.qstart (qStart_replay xs s)⟩
  | endBlock evs hh tm =>
    simp only [step, detectBlockEvents]
    split
    · next s' ts hd =>
      split at hd
      · next ts' hda =>
        cases hd
        exact ⟨LSorted_sublist (lis_queueDetected hh tm ts s) hg.sorted,
          by rw [qStart_queueDetected]; exact hg.qstart⟩
      · cases hd
    · exact hg

theorem GInv_run : ∀ (ops : List Op) (s : State), WF s → GInv s → GInv (run s ops).1
  | [], s, _, hg => by simpa [run] using hg
  | op :: ops, s, hw, hg => by
    simp only [run]
    exact GInv_run ops _ (WF_step hw op) (GInv_step hw hg op)

theorem GInv_reach (ops : List Op) : GInv (run State.init ops).1 :=
  GInv_run ops State.init WF_init GInv_init

/-! ### `GenesisState.Validate` on an exported store -/

theorem allDistinct_iff : ∀ (l : List Nat), allDistinct l = true ↔ l.Nodup
  | [] => by simp [allDistinct]
  | x :: xs => by
    simp only [allDistinct, Bool.and_eq_true, Bool.not_eq_eq_eq_not, Bool.not_true,
      List.nodup_cons, allDistinct_iff xs]
    constructor
    · rintro ⟨h1, h2⟩; exact ⟨by simpa using h1, h2⟩
    · rintro ⟨h1, h2⟩; exact ⟨by simpa using h1, h2⟩

theorem validateBasic_ok_actions {m : CreateMsg} (h : m.validateBasic = .ok ()) :
    ∀ a ∈ m.actions, a.validateBasic = true := by
  unfold CreateMsg.validateBasic at h
  split at h; · cases h
  split at h; · cases h
  split at h; · cases h
  exact fun a ha => (validateActions_ok _ _ h a ha).2

theorem genesisValidateBasic_of_validateBasic {a : Action} (h : a.validateBasic = true) :
    a.genesisValidateBasic = true := by
  cases a <;> simp_all [Action.validateBasic, Action.genesisValidateBasic]

theorem mem_getAllTriggers {s : State} (hw : WF s) (t : Trigger) :
    t ∈ getAllTriggers s ↔ s.triggers t.id = some t := by
  simp only [getAllTriggers, List.mem_filterMap, List.mem_range]
  constructor
  · rintro ⟨i, _, h⟩; rw [(hw.trig i t h).1]; exact h
  · intro h; exact ⟨t.id, (hw.trig _ t h).2.2, h⟩

theorem nodup_getAllTriggers {s : State} (hw : WF s) : ((getAllTriggers s).map (·.id)).Nodup :=
  (nodup_keys_filterMap (·.id) s.triggers (fun i t h => (hw.trig i t h).1) _ List.nodup_range).1

theorem nodup_getAllGasLimits (s : State) : ((getAllGasLimits s).map (·.1)).Nodup := by
  refine (nodup_keys_filterMap (fun (p : Nat × Nat) => p.1) _ (fun i a h => ?_) _ List.nodup_range).1
  cases hg : s.gasLimits i with
  | none => simp [hg] at h
  | some b => simp only [hg, Option.map_some, Option.some.injEq] at h; rw [← h]

theorem mem_gasKeys {s : State} (hw : WF s) (k : Nat) :
    k ∈ (getAllGasLimits s).map (·.1) ↔ (s.gasLimits k).isSome = true := by
  simp only [getAllGasLimits, List.mem_map, List.mem_filterMap, List.mem_range]
  constructor
  · rintro ⟨a, ⟨i, _, h⟩, e⟩
    cases hg : s.gasLimits i with
    | none => simp [hg] at h
    | some b =>
      simp only [hg, Option.map_some, Option.some.injEq] at h
      rw [← e, ← h, hg]; rfl
  · intro h
    obtain ⟨g, hg⟩ := Option.isSome_iff_exists.1 h
    exact ⟨(k, g), ⟨k, gasLimit_id_lt hw hg, by simp [hg]⟩, rfl⟩

/-- the ids of the exported waiting and queued triggers: pairwise distinct, and exactly the ids that
have a gas limit -/
theorem exported_ids {s : State} (hw : WF s) :
    ((getAllTriggers s).map (·.id) ++ qIds s).Nodup ∧
    ((getAllGasLimits s).map (·.1)).Perm ((getAllTriggers s).map (·.id) ++ qIds s) := by
  have hmemT : ∀ k, k ∈ (getAllTriggers s).map (·.id) ↔ (s.triggers k).isSome = true := by
    intro k
    constructor
    · intro h
      obtain ⟨t, ht, e⟩ := List.mem_map.1 h
      rw [← e, (mem_getAllTriggers hw t).1 ht]; rfl
    · intro h
      obtain ⟨t, ht⟩ := Option.isSome_iff_exists.1 h
      have hid := (hw.trig k t ht).1
      exact List.mem_map.2 ⟨t, (mem_getAllTriggers hw t).2 (by rw [hid]; exact ht), hid⟩
  have hnd : ((getAllTriggers s).map (·.id) ++ qIds s).Nodup := by
    refine List.nodup_append.2 ⟨nodup_getAllTriggers hw, hw.qNodup, ?_⟩
    intro a ha b hb e
    subst e
    obtain ⟨x, hx, e⟩ := List.mem_map.1 hb
    have h1 := (hw.q x hx).1
    have h2 := (hmemT a).1 ha
    rw [← e, h1] at h2; cases h2
  refine ⟨hnd, (List.perm_ext_iff_of_nodup (nodup_getAllGasLimits s) hnd).2 (fun k => ?_)⟩
  rw [mem_gasKeys hw, hw.gas k, List.mem_append, hmemT]

end PvProofs.Lemmas.Trig
