/-
Helper lemmas for C15: the root-creation loop establishes every level — a name it brings into
being never hangs below an unbound name.
-/
import PvProofs.Lemmas.NameGenesis

namespace PvModel.Name
open KV

variable {κ : Type} [DecidableEq κ] (cfg : Cfg κ)

theorem trimRightDots_eq (s : Bytes) : trimRightDots s = s.rdropWhile (· == dot) := rfl

theorem trimRightDots_idem (s : Bytes) : trimRightDots (trimRightDots s) = trimRightDots s := by
  simp only [trimRightDots_eq]
  exact List.rdropWhile_idempotent _ _

theorem trimRightDots_dotfree_concat {seg : Bytes} (h : dot ∉ seg) :
    trimRightDots (seg ++ [dot]) = seg := by
  rw [trimRightDots_eq, List.rdropWhile_concat_pos _ _ _ (by simp), List.rdropWhile_eq_self_iff]
  intro hl hp
  have : seg.getLast hl = dot := by simpa using hp
  exact h (this ▸ List.getLast_mem hl)

theorem trimRightDots_append {x n : Bytes} (hn : n ≠ []) (ht : trimRightDots n = n) :
    trimRightDots (x ++ n) = x ++ n := by
  rw [trimRightDots_eq, List.rdropWhile_eq_self_iff] at ht ⊢
  intro hl
  have := ht hn
  rwa [List.getLast_append_right hn]

/-- Every name the root-creation loop brings into being with two or more segments has its
immediate parent bound when the loop is done (`n` = the name built so far: empty, or bound). -/
theorem createRootLoop_levels (hH : Function.Injective cfg.H) (addr : Addr) (restricted : Bool)
    (segs : List Bytes) :
    ∀ (n : Bytes) (st st' : State κ), (∀ s ∈ segs, dot ∉ s) → Inv cfg st → trimRightDots n = n →
      (n = [] ∨ ∃ k, getNameKeyPrefix cfg (normalizeName n) = .ok k ∧ (get st.recs k).isSome = true) →
      createRootLoop cfg addr restricted segs n st = .ok st' →
      ∀ k r, get st'.recs k = some r → get st.recs k = none → 2 ≤ (splitDot r.name).length →
        (getRecordByName cfg st' (immediateParent r.name)).isSome = true := by
  induction segs with
  | nil =>
    intro n st st' _ _ _ _ h k r hg hnone _
    simp [createRootLoop] at h
    subst h
    rw [hnone] at hg; cases hg
  | cons seg rest ih =>
    intro n st st' hfree hI htrim hQ h k r hg hnone hlen
    have hseg : dot ∉ seg := hfree seg (by simp)
    have hrest : ∀ s ∈ rest, dot ∉ s := fun s hs => hfree s (List.mem_cons_of_mem _ hs)
    simp only [createRootLoop] at h
    have htrim' := trimRightDots_idem (seg ++ dot :: n)
    split at h
    · split at h
      · cases h
      · rename_i st1 h1
        have hI1 := inv_setNameRecord cfg hI h1
        obtain ⟨nn, k1, hnn, hk1, hfree1, rfl⟩ := setNameRecord_ok cfg h1
        have hnneq := normalize_eq_normalizeName cfg hnn
        have ih1 := ih _ _ _ hrest hI1 htrim'
          (Or.inr ⟨k1, by rw [← hnneq]; exact hk1, by simp [get_set_self]⟩) h
        have hmono := (createRootLoop_effect cfg addr restricted rest _ _ _ h).1
        by_cases hk : k = k1
        · subst hk
          have hr := hmono k _ (get_set_self _ _ _)
          rw [hr] at hg; cases hg
          simp only at hlen ⊢
          by_cases hn0 : n = []
          · exfalso
            subst hn0
            rw [trimRightDots_dotfree_concat hseg] at hnneq
            rw [hnneq, splitDot_normalizeName, splitDot_dotfree_eq hseg] at hlen
            simp at hlen
          · obtain ⟨kp, hkp, hsome⟩ := hQ.resolve_left hn0
            have hn' : trimRightDots (seg ++ dot :: n) = seg ++ dot :: n := by
              have := trimRightDots_append (x := seg ++ [dot]) hn0 htrim
              simpa using this
            rw [hn'] at hnneq
            have hsplit : splitDot (seg ++ dot :: n) = seg :: splitDot n := by
              have := splitDot_append_dotfree seg hseg (dot :: n) [] (splitDot n) (splitDot_cons_dot n)
              simpa using this
            have hs : splitDot nn = normSeg seg :: (splitDot n).map normSeg := by
              rw [hnneq, splitDot_normalizeName, hsplit, List.map_cons]
            have hip : immediateParent nn = normalizeName n := by
              unfold immediateParent; rw [hs, List.tail_cons, normalizeName_eq]
            rw [hip, getRecordByName_eq cfg hkp]
            have hne : kp ≠ k := by
              intro e; subst e; rw [hfree1] at hsome; cases hsome
            cases hge : get st.recs kp with
            | none => rw [hge] at hsome; cases hsome
            | some e =>
              have := hmono kp e (by rw [get_set_ne _ _ hne]; exact hge)
              rw [this]; rfl
        · exact ih1 k r hg (by rw [get_set_ne _ _ hk]; exact hnone) hlen
    · rename_i e hex
      obtain ⟨k0, hk0, hg0⟩ := getRecordByName_some cfg hex
      have hkey := key_normalizeName_of_resolves cfg hH hk0 (hI.keyed k0 e hg0) (hI.lower cfg k0 e hg0)
      exact ih _ _ _ hrest hI htrim' (Or.inr ⟨k0, hkey, by simp [hg0]⟩) h k r hg hnone hlen

end PvModel.Name
