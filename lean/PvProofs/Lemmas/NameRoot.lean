/-
Helper lemmas for C15: the root-creation loop establishes every level — a name it brings into
being never hangs below an unbound name.
-/
import PvProofs.Lemmas.NameGenesis

namespace PvModel.Name
open KV

variable {κ : Type} [DecidableEq κ] (cfg : Cfg κ)

theorem trimRightDots_eq (s : Bytes) : trimRightDots s = s.rdropWhile (· == dot) := rfl

theorem trimRightDots_idem (s : Bytes) : trimRightDots (trimRightDots s) = trimRightDots s := by
  simp only [trimRightDots_eq]
  exact List.rdropWhile_idempotent _ _

theorem trimRightDots_dotfree_concat {seg : Bytes} (h : dot ∉ seg) :
    trimRightDots (seg ++ [dot]) = seg := by
  rw [trimRightDots_eq, List.rdropWhile_concat_pos _ _ _ (by simp), List.rdropWhile_eq_self_iff]
  intro hl hp
  have : seg.getLast hl = dot := by simpa using hp
  exact h (this ▸ List.getLast_mem hl)

theorem trimRightDots_append {x n : Bytes} (hn : n ≠ []) (ht : trimRightDots n = n) :
    trimRightDots (x ++ n) = x ++ n := by
  rw [trimRightDots_eq, List.rdropWhile_eq_self_iff] at ht ⊢
  intro hl
  have := ht hn
  rwa [List.getLast_append_right hn]

/-- the names stored after one more level was created are stored names or that level -/
theorem storedNames_set_sub {names : List Bytes} {st : State κ} {k1 : κ} {rec : Record}
    (hInv : Inv cfg { recs := set st.recs k1 rec, idx := set st.idx (rec.addr, k1) rec })
    (hst : ∀ x ∈ storedNames st, x ∈ names) (hrec : rec.name ∈ names) :
    ∀ x ∈ storedNames ({ recs := set st.recs k1 rec, idx := set st.idx (rec.addr, k1) rec } : State κ),
      x ∈ names := by
  intro x hx
  obtain ⟨k, r, hg, rfl⟩ := mem_storedNames cfg hInv hx
  by_cases hk : k = k1
  · subst hk
    simp only [get_set_self, Option.some.injEq] at hg
    subst hg; exact hrec
  · simp only [get_set_ne _ _ hk] at hg
    exact hst _ (mem_storedNames_of_get hg)

/-- Every name the root-creation loop brings into being with two or more segments has its
immediate parent bound when the loop is done (`n` = the name built so far: empty, or bound).
The hash must not collide on the names the loop builds (as written and normalized) and the stored
names. -/
theorem createRootLoop_levels {names : List Bytes} (hH : NoHashCollision cfg names) (addr : Addr)
    (restricted : Bool) (segs : List Bytes) :
    ∀ (n : Bytes) (st st' : State κ), (∀ s ∈ segs, dot ∉ s) → Inv cfg st → trimRightDots n = n →
      (∀ x ∈ rootPath segs n, x ∈ names ∧ normalizeName x ∈ names) →
      (∀ x ∈ storedNames st, x ∈ names) →
      (n = [] ∨ ∃ k, getNameKeyPrefix cfg (normalizeName n) = .ok k ∧ (get st.recs k).isSome = true) →
      createRootLoop cfg addr restricted segs n st = .ok st' →
      ∀ k r, get st'.recs k = some r → get st.recs k = none → 2 ≤ (splitDot r.name).length →
        (getRecordByName cfg st' (immediateParent r.name)).isSome = true := by
  induction segs with
  | nil =>
    intro n st st' _ _ _ _ _ _ h k r hg hnone _
    simp [createRootLoop] at h
    subst h
    rw [hnone] at hg; cases hg
  | cons seg rest ih =>
    intro n st st' hfree hI htrim hpath hstored hQ h k r hg hnone hlen
    have hseg : dot ∉ seg := hfree seg (by simp)
    have hrest : ∀ s ∈ rest, dot ∉ s := fun s hs => hfree s (List.mem_cons_of_mem _ hs)
    have hhead := hpath (trimRightDots (seg ++ dot :: n)) (by simp [rootPath])
    have hpath' : ∀ x ∈ rootPath rest (trimRightDots (seg ++ dot :: n)), x ∈ names ∧ normalizeName x ∈ names :=
      fun x hx => hpath x (by simp [rootPath, hx])
    simp only [createRootLoop] at h
    have htrim' := trimRightDots_idem (seg ++ dot :: n)
    split at h
    · split at h
      · cases h
      · rename_i st1 h1
        have hI1 := inv_setNameRecord cfg hI h1
        obtain ⟨nn, k1, hnn, hk1, hfree1, rfl⟩ := setNameRecord_ok cfg h1
        have hnneq := normalize_eq_normalizeName cfg hnn
        have hstored1 := storedNames_set_sub cfg hI1 hstored
          (by simp only; rw [hnneq]; exact hhead.2)
        have ih1 := ih _ _ _ hrest hI1 htrim' hpath' hstored1
          (Or.inr ⟨k1, by rw [← hnneq]; exact hk1, by simp [get_set_self]⟩) h
        have hmono := (createRootLoop_effect cfg addr restricted rest _ _ _ h).1
        by_cases hk : k = k1
        · subst hk
          have hr := hmono k _ (get_set_self _ _ _)
          rw [hr] at hg; cases hg
          simp only at hlen ⊢
          by_cases hn0 : n = []
          · exfalso
            subst hn0
            rw [trimRightDots_dotfree_concat hseg] at hnneq
            rw [hnneq, splitDot_normalizeName, splitDot_dotfree_eq hseg] at hlen
            simp at hlen
          · obtain ⟨kp, hkp, hsome⟩ := hQ.resolve_left hn0
            have hn' : trimRightDots (seg ++ dot :: n) = seg ++ dot :: n := by
              have := trimRightDots_append (x := seg ++ [dot]) hn0 htrim
              simpa using this
            rw [hn'] at hnneq
            have hsplit : splitDot (seg ++ dot :: n) = seg :: splitDot n := by
              have := splitDot_append_dotfree seg hseg (dot :: n) [] (splitDot n) (splitDot_cons_dot n)
              simpa using this
            have hs : splitDot nn = normSeg seg :: (splitDot n).map normSeg := by
              rw [hnneq, splitDot_normalizeName, hsplit, List.map_cons]
            have hip : immediateParent nn = normalizeName n := by
              unfold immediateParent; rw [hs, List.tail_cons, normalizeName_eq]
            rw [hip, getRecordByName_eq cfg hkp]
            have hne : kp ≠ k := by
              intro e; subst e; rw [hfree1] at hsome; cases hsome
            cases hge : get st.recs kp with
            | none => rw [hge] at hsome; cases hsome
            | some e =>
              have := hmono kp e (by rw [get_set_ne _ _ hne]; exact hge)
              rw [this]; rfl
        · exact ih1 k r hg (by rw [get_set_ne _ _ hk]; exact hnone) hlen
    · rename_i e hex
      obtain ⟨k0, hk0, hg0⟩ := getRecordByName_some cfg hex
      have hkey := key_normalizeName_of_resolves cfg hH hhead.1 (hstored _ (mem_storedNames_of_get hg0))
        hk0 (hI.keyed k0 e hg0) (hI.lower cfg k0 e hg0)
      exact ih _ _ _ hrest hI htrim' hpath' hstored (Or.inr ⟨k0, hkey, by simp [hg0]⟩) h k r hg hnone hlen

/-! ### which names the loop creates -/

/-- the records the loop adds are exactly named: each is `⟨normalized level, owner, restriction⟩`
for a level of the path, stored under that level's key (no hypothesis on the hash). -/
theorem createRootLoop_created (addr : Addr) (restricted : Bool) (segs : List Bytes) :
    ∀ (n : Bytes) (st st' : State κ), createRootLoop cfg addr restricted segs n st = .ok st' →
      ∀ k r, get st'.recs k = some r → get st.recs k = some r ∨
        (get st.recs k = none ∧ ∃ x ∈ rootPath segs n, r = ⟨normalizeName x, addr, restricted⟩ ∧
          getNameKeyPrefix cfg (normalizeName x) = .ok k) := by
  induction segs with
  | nil =>
    intro n st st' h k r hg
    simp [createRootLoop] at h
    subst h; exact Or.inl hg
  | cons seg rest ih =>
    intro n st st' h k r hg
    simp only [createRootLoop] at h
    split at h
    · split at h
      · cases h
      · rename_i st1 h1
        obtain ⟨nn, k1, hnn, hk1, hfree, rfl⟩ := setNameRecord_ok cfg h1
        have hnneq := normalize_eq_normalizeName cfg hnn
        rcases ih _ _ _ h k r hg with h2 | ⟨h2, x, hx, hr, hkx⟩
        · by_cases hk : k = k1
          · subst hk
            simp only [get_set_self, Option.some.injEq] at h2
            refine Or.inr ⟨hfree, trimRightDots (seg ++ dot :: n), by simp [rootPath], ?_, ?_⟩
            · rw [← h2, hnneq]
            · rw [← hnneq]; exact hk1
          · rw [get_set_ne _ _ hk] at h2; exact Or.inl h2
        · by_cases hk : k = k1
          · subst hk; simp [get_set_self] at h2
          · rw [get_set_ne _ _ hk] at h2
            exact Or.inr ⟨h2, x, by simp [rootPath, hx], hr, hkx⟩
    · rcases ih _ _ _ h k r hg with h2 | ⟨h2, x, hx, hr, hkx⟩
      · exact Or.inl h2
      · exact Or.inr ⟨h2, x, by simp [rootPath, hx], hr, hkx⟩

/-- every level of the path is bound when the loop is done: to the record that was there before,
or to a new record of the given owner and restriction. -/
theorem createRootLoop_all_bound {names : List Bytes} (hH : NoHashCollision cfg names) (addr : Addr)
    (restricted : Bool) (segs : List Bytes) :
    ∀ (n : Bytes) (st st' : State κ), Inv cfg st →
      (∀ x ∈ rootPath segs n, x ∈ names ∧ normalizeName x ∈ names) →
      (∀ x ∈ storedNames st, x ∈ names) →
      createRootLoop cfg addr restricted segs n st = .ok st' →
      ∀ x ∈ rootPath segs n, ∃ k r, getNameKeyPrefix cfg (normalizeName x) = .ok k ∧
        get st'.recs k = some r ∧
        (get st.recs k = some r ∨ (get st.recs k = none ∧ r.addr = addr ∧ r.restricted = restricted)) := by
  induction segs with
  | nil => intro n st st' _ _ _ _ x hx; simp [rootPath] at hx
  | cons seg rest ih =>
    intro n st st' hI hpath hstored h x hx
    have hhead := hpath (trimRightDots (seg ++ dot :: n)) (by simp [rootPath])
    have hpath' : ∀ x ∈ rootPath rest (trimRightDots (seg ++ dot :: n)), x ∈ names ∧ normalizeName x ∈ names :=
      fun x hx => hpath x (by simp [rootPath, hx])
    simp only [rootPath, List.mem_cons] at hx
    simp only [createRootLoop] at h
    split at h
    · split at h
      · cases h
      · rename_i st1 h1
        have hI1 := inv_setNameRecord cfg hI h1
        obtain ⟨nn, k1, hnn, hk1, hfree1, rfl⟩ := setNameRecord_ok cfg h1
        have hnneq := normalize_eq_normalizeName cfg hnn
        have hstored1 := storedNames_set_sub cfg hI1 hstored
          (by simp only; rw [hnneq]; exact hhead.2)
        have hmono := (createRootLoop_effect cfg addr restricted rest _ _ _ h).1
        rcases hx with rfl | hx
        · exact ⟨k1, _, by rw [← hnneq]; exact hk1, hmono k1 _ (get_set_self _ _ _),
            Or.inr ⟨hfree1, rfl, rfl⟩⟩
        · obtain ⟨k, r, hk, hg', hcase⟩ := ih _ _ _ hI1 hpath' hstored1 h x hx
          refine ⟨k, r, hk, hg', ?_⟩
          by_cases hkk : k = k1
          · subst hkk
            rcases hcase with h2 | ⟨h2, -⟩
            · simp only [get_set_self, Option.some.injEq] at h2
              exact Or.inr ⟨hfree1, by rw [← h2], by rw [← h2]⟩
            · simp [get_set_self] at h2
          · simpa only [get_set_ne _ _ hkk] using hcase
    · rename_i e hex
      obtain ⟨k0, hk0, hg0⟩ := getRecordByName_some cfg hex
      have hkey := key_normalizeName_of_resolves cfg hH hhead.1 (hstored _ (mem_storedNames_of_get hg0))
        hk0 (hI.keyed k0 e hg0) (hI.lower cfg k0 e hg0)
      have hmono := (createRootLoop_effect cfg addr restricted rest _ _ _ h).1
      rcases hx with rfl | hx
      · exact ⟨k0, e, hkey, hmono k0 e hg0, Or.inl hg0⟩
      · exact ih _ _ _ hI hpath' hstored h x hx

/-! ### `rootSuffixes` (the declarative list of levels) is the normalized path of the loop -/

theorem rootSuffixes_fold (segs : List Bytes) : ∀ (acc : List Bytes) (n : Bytes),
    (segs.foldl (fun (acc : List Bytes × Bytes) seg =>
      let n := trimRightDots (seg ++ dot :: acc.2)
      (normalizeName n :: acc.1, n)) (acc, n)).1 =
    ((rootPath segs n).map normalizeName).reverse ++ acc := by
  induction segs with
  | nil => intro acc n; simp [rootPath]
  | cons seg rest ih =>
    intro acc n
    simp only [List.foldl_cons, rootPath, List.map_cons, List.reverse_cons, List.append_assoc,
      List.singleton_append]
    exact ih _ _

theorem rootSuffixes_eq (name : Bytes) :
    rootSuffixes name = ((rootPath (splitDot name).reverse []).map normalizeName).reverse := by
  unfold rootSuffixes
  rw [rootSuffixes_fold]; simp

theorem mem_rootSuffixes {name t : Bytes} :
    t ∈ rootSuffixes name ↔ ∃ x ∈ rootPath (splitDot name).reverse [], t = normalizeName x := by
  rw [rootSuffixes_eq, List.mem_reverse, List.mem_map]
  constructor
  · rintro ⟨x, hx, rfl⟩; exact ⟨x, hx, rfl⟩
  · rintro ⟨x, hx, rfl⟩; exact ⟨x, hx, rfl⟩

end PvModel.Name
