/-
Helper lemmas for C03 (`PvModel.Lock`): what each bank / hold primitive does to balances and
holds.  Property theorems are in `PvProofs/C03.lean`.
-/
import PvModel.Lock
import Mathlib.Tactic.SplitIfs

namespace PvProofs.Lemmas.Lock
open PvModel PvModel.Lock

/-! ### invariants -/

/-- no account's hold exceeds its balance, denom by denom -/
def HoldLeBal (s : State) : Prop := ∀ a d, s.hold a d ≤ s.bal a d
def HoldNonneg (s : State) : Prop := ∀ a d, 0 ≤ s.hold a d

/-! ### small facts -/

theorem pos_nonneg (x : Int) : 0 ≤ pos x := by unfold pos; split <;> omega
theorem le_pos (x : Int) : x ≤ pos x := by unfold pos; split <;> omega
theorem pos_of_nonneg {x : Int} (h : 0 ≤ x) : pos x = x := by unfold pos; split <;> omega

theorem unvested_nonneg (s : State) (a : Addr) (d : Denom) : 0 ≤ unvested s a d := by
  unfold unvested
  split
  · show 0 ≤ _ - min _ _; omega
  · omega

theorem hold_le_locked (s : State) (c : Ctx) (a : Addr) (d : Denom) (hc : c.holdBypass = false) :
    s.hold a d ≤ lockedCoins s c a d := by
  unfold lockedCoins unvestedGetter holdGetter
  have h1 := pos_nonneg (unvested s a d)
  have h2 := le_pos (s.hold a d)
  simp [hc]; split <;> omega

theorem pos_hold_le_locked (s : State) (c : Ctx) (a : Addr) (d : Denom) (hc : c.holdBypass = false) :
    pos (s.hold a d) ≤ lockedCoins s c a d := by
  unfold lockedCoins unvestedGetter holdGetter
  have h1 := pos_nonneg (unvested s a d)
  simp [hc]; split <;> omega

theorem locked_nonneg (s : State) (c : Ctx) (a : Addr) (d : Denom) : 0 ≤ lockedCoins s c a d := by
  unfold lockedCoins unvestedGetter holdGetter
  have h1 := pos_nonneg (unvested s a d)
  have h2 := pos_nonneg (s.hold a d)
  split <;> split <;> omega

theorem isValid_pos : ∀ (cs : Coins), isValid cs = true → ∀ p ∈ cs, 0 < p.2
  | [], _, p, hp => by cases hp
  | [(d, x)], h, p, hp => by
    simp [isValid] at h
    simp at hp; subst hp; exact h
  | (d₁, x₁) :: (d₂, x₂) :: rest, h, p, hp => by
    simp [isValid] at h
    rcases List.mem_cons.mp hp with rfl | hp'
    · exact h.1.1
    · exact isValid_pos ((d₂, x₂) :: rest) h.2 p hp'

theorem amountOf_nonneg_of_pos (cs : Coins) (h : ∀ p ∈ cs, 0 ≤ p.2) (d : Denom) :
    0 ≤ Coins.amountOf cs d := by
  induction cs with
  | nil => simp
  | cons p t ih =>
    obtain ⟨d', x⟩ := p
    have hx : 0 ≤ x := h (d', x) (by simp)
    have := ih (fun q hq => h q (List.mem_cons_of_mem _ hq))
    simp only [Coins.amountOf_cons]; split <;> omega

theorem amountOf_nonneg_of_valid (cs : Coins) (h : isValid cs = true) (d : Denom) :
    0 ≤ Coins.amountOf cs d :=
  amountOf_nonneg_of_pos cs (fun p hp => Int.le_of_lt (isValid_pos cs h p hp)) d

theorem amountOf_of_not_mem : ∀ (cs : Coins) (d : Denom), d ∉ Coins.denoms cs → Coins.amountOf cs d = 0
  | [], _, _ => by simp
  | (dq, xq) :: t, d, h => by
    simp only [Coins.denoms, List.map_cons, List.mem_cons, not_or] at h
    have ih := amountOf_of_not_mem t d (by simpa [Coins.denoms] using h.2)
    have hne : dq ≠ d := fun e => h.1 e.symm
    simp [ih, hne]

/-- with distinct denoms, `amountOf` is the listed amount -/
theorem amountOf_of_mem_nodup : ∀ (cs : Coins), (Coins.denoms cs).Nodup → ∀ d x, (d, x) ∈ cs →
    Coins.amountOf cs d = x
  | [], _, _, _, h => by cases h
  | (d', x') :: t, hnd, d, x, hm => by
    have hnd' : d' ∉ Coins.denoms t ∧ (Coins.denoms t).Nodup := by
      simpa [Coins.denoms] using hnd
    rcases List.mem_cons.mp hm with heq | hm'
    · have h1 : d = d' := congrArg Prod.fst heq
      have h2 : x = x' := congrArg Prod.snd heq
      subst h1; subst h2
      simp [amountOf_of_not_mem t d hnd'.1]
    · have hne : d' ≠ d := by
        intro e; subst e
        exact hnd'.1 (List.mem_map.mpr ⟨(d', x), hm', rfl⟩)
      have := amountOf_of_mem_nodup t hnd'.2 d x hm'
      simp [hne, this]

/-! ### field projections through the small state updates -/

@[simp] theorem debit1_bal (s : State) (a : Addr) (d : Denom) (x : Int) (a' : Addr) (d' : Denom) :
    (debit1 s a d x).bal a' d' = s.bal a' d' - (if a = a' ∧ d = d' then x else 0) := by
  unfold debit1 State.bal
  simp only [Ledger.bal_debit, Coins.amountOf_cons, Coins.amountOf_nil]
  by_cases h1 : a = a' <;> by_cases h2 : d = d' <;> simp [h1, h2]

@[simp] theorem debit1_holds (s : State) (a : Addr) (d : Denom) (x : Int) : (debit1 s a d x).holds = s.holds := rfl
@[simp] theorem debit1_kinds (s : State) (a : Addr) (d : Denom) (x : Int) : (debit1 s a d x).kinds = s.kinds := rfl
@[simp] theorem debit1_dv (s : State) (a : Addr) (d : Denom) (x : Int) : (debit1 s a d x).dv = s.dv := rfl
@[simp] theorem debit1_df (s : State) (a : Addr) (d : Denom) (x : Int) : (debit1 s a d x).df = s.df := rfl
@[simp] theorem debit1_time (s : State) (a : Addr) (d : Denom) (x : Int) : (debit1 s a d x).time = s.time := rfl

/-- everything except balances (and account existence) is untouched -/
structure BankFrame (s s' : State) : Prop where
  holds : s'.holds = s.holds
  time : s'.time = s.time
  kindOf : ∀ a, s'.kindOf a = s.kindOf a

theorem BankFrame.refl (s : State) : BankFrame s s := ⟨rfl, rfl, fun _ => rfl⟩
theorem BankFrame.trans {s₁ s₂ s₃ : State} (h₁ : BankFrame s₁ s₂) (h₂ : BankFrame s₂ s₃) : BankFrame s₁ s₃ :=
  ⟨h₂.holds.trans h₁.holds, h₂.time.trans h₁.time, fun a => (h₂.kindOf a).trans (h₁.kindOf a)⟩

theorem kindOf_of_kinds {s s' : State} (h : s'.kinds = s.kinds) (a : Addr) : s'.kindOf a = s.kindOf a := by
  unfold State.kindOf; rw [h]

theorem BankFrame.hold {s s' : State} (h : BankFrame s s') (a : Addr) (d : Denom) : s'.hold a d = s.hold a d := by
  unfold State.hold; rw [h.holds]

/-! ### `subLoop` / `delegateLoop`: a debited balance stays at or above the locked amount -/

/-- What a successful debit loop guarantees. `L` is the locked amount read before the loop. -/
structure Debited (L : Denom → Int) (a : Addr) (s s' : State) : Prop where
  frame : BankFrame s s'
  kinds : s'.kinds = s.kinds
  dv : s'.dv = s.dv
  df : s'.df = s.df
  other : ∀ a' d', a' ≠ a → s'.bal a' d' = s.bal a' d'
  own : ∀ d', s'.bal a d' = s.bal a d' ∨ L d' ≤ s'.bal a d'

theorem subLoop_debited (L : Denom → Int) (a : Addr) :
    ∀ (amt : Coins) (s s' : State), subLoop s L a amt = .ok s' → Debited L a s s'
  | [], s, s', h => by
    simp [subLoop] at h; subst h
    exact ⟨BankFrame.refl _, rfl, rfl, rfl, fun _ _ _ => rfl, fun _ => Or.inl rfl⟩
  | (d, x) :: rest, s, s', h => by
    simp only [subLoop] at h
    split_ifs at h with h1 h2
    have ih := subLoop_debited L a rest _ _ h
    refine ⟨⟨ih.frame.holds, ih.frame.time, kindOf_of_kinds ih.kinds⟩, ih.kinds, ih.dv, ih.df, ?_, ?_⟩
    · intro a' d' hne
      rw [ih.other a' d' hne, debit1_bal]
      have : ¬ (a = a' ∧ d = d') := fun hh => hne hh.1.symm
      simp [this]
    · intro d'
      rcases ih.own d' with he | hl
      · rw [he, debit1_bal]
        by_cases hd : d = d'
        · subst hd; right; simp; omega
        · left; simp [hd]
      · exact Or.inr hl

theorem delegateLoop_debited (L : Denom → Int) (a : Addr) :
    ∀ (amt : Coins) (s s' : State), delegateLoop s L a amt = .ok s' → Debited L a s s'
  | [], s, s', h => by
    simp [delegateLoop] at h; subst h
    exact ⟨BankFrame.refl _, rfl, rfl, rfl, fun _ _ _ => rfl, fun _ => Or.inl rfl⟩
  | (d, x) :: rest, s, s', h => by
    simp only [delegateLoop] at h
    split_ifs at h with h1
    have ih := delegateLoop_debited L a rest _ _ h
    refine ⟨⟨ih.frame.holds, ih.frame.time, kindOf_of_kinds ih.kinds⟩, ih.kinds, ih.dv, ih.df, ?_, ?_⟩
    · intro a' d' hne
      rw [ih.other a' d' hne, debit1_bal]
      have : ¬ (a = a' ∧ d = d') := fun hh => hne hh.1.symm
      simp [this]
    · intro d'
      rcases ih.own d' with he | hl
      · rw [he, debit1_bal]
        by_cases hd : d = d'
        · subst hd; right; simp; omega
        · left; simp [hd]
      · exact Or.inr hl

/-- a debit loop whose locked amount covers the hold preserves `hold ≤ balance` -/
theorem Debited.holdLeBal {L : Denom → Int} {a : Addr} {s s' : State} (h : Debited L a s s')
    (hL : ∀ d, s.hold a d ≤ L d) (hinv : HoldLeBal s) : HoldLeBal s' := by
  intro a' d'
  rw [h.frame.hold]
  by_cases ha : a' = a
  · subst ha
    rcases h.own d' with he | hl
    · rw [he]; exact hinv _ _
    · exact Int.le_trans (hL d') hl
  · rw [h.other a' d' ha]; exact hinv _ _

theorem subUnlockedCoins_debited {s s' : State} {c : Ctx} {a : Addr} {amt : Coins}
    (h : subUnlockedCoins s c a amt = .ok s') : Debited (lockedCoins s c a) a s s' ∧ isValid amt = true := by
  unfold subUnlockedCoins at h
  split_ifs at h with hv
  exact ⟨subLoop_debited _ _ _ _ _ h, by simpa using hv⟩

theorem subUnlockedCoins_holdLeBal {s s' : State} {c : Ctx} {a : Addr} {amt : Coins}
    (hc : c.holdBypass = false) (hinv : HoldLeBal s) (h : subUnlockedCoins s c a amt = .ok s') :
    HoldLeBal s' :=
  (subUnlockedCoins_debited h).1.holdLeBal (fun d => hold_le_locked s c a d hc) hinv

/-! ### credits -/

/-- the balance of every account can only have grown; nothing else changed -/
structure Credited (s s' : State) : Prop where
  frame : BankFrame s s'
  dv : s'.dv = s.dv
  df : s'.df = s.df
  ge : ∀ a d, s.bal a d ≤ s'.bal a d

theorem Credited.holdLeBal {s s' : State} (h : Credited s s') (hinv : HoldLeBal s) : HoldLeBal s' := by
  intro a d; rw [h.frame.hold]; exact Int.le_trans (hinv a d) (h.ge a d)

theorem Credited.refl (s : State) : Credited s s :=
  ⟨BankFrame.refl _, rfl, rfl, fun _ _ => Int.le_refl _⟩
theorem Credited.trans {s₁ s₂ s₃ : State} (h₁ : Credited s₁ s₂) (h₂ : Credited s₂ s₃) : Credited s₁ s₃ :=
  ⟨h₁.frame.trans h₂.frame, h₂.dv.trans h₁.dv, h₂.df.trans h₁.df,
    fun a d => Int.le_trans (h₁.ge a d) (h₂.ge a d)⟩

/-- creating the recipient's (base) account does not change any account's kind -/
theorem ensureAccount_kindOf (s : State) (a b : Addr) : (ensureAccount s a).kindOf b = s.kindOf b := by
  unfold ensureAccount
  split
  · rfl
  · rename_i hne
    unfold State.accountExists at hne
    unfold State.kindOf
    simp only [List.lookup_append]
    cases hb : List.lookup b s.kinds with
    | some k => simp
    | none =>
      simp only [Option.none_or, Option.getD_none]
      by_cases hab : b = a
      · subst hab; simp [List.lookup]
      · have : (b == a) = false := by simpa using hab
        simp [List.lookup, this]

theorem addCoins_bal {s s' : State} {a : Addr} {amt : Coins} (h : addCoins s a amt = .ok s') (a' : Addr) (d : Denom) :
    s'.bal a' d = s.bal a' d + (if a = a' then Coins.amountOf amt d else 0) := by
  unfold addCoins at h
  split_ifs at h
  simp at h; subst h
  simp [State.bal]

theorem addCoins_credited {s s' : State} {a : Addr} {amt : Coins} (h : addCoins s a amt = .ok s') :
    Credited s s' := by
  have hb := addCoins_bal h
  unfold addCoins at h
  split_ifs at h with hv
  have hv' : isValid amt = true := by simpa using hv
  simp at h
  refine ⟨⟨by subst h; rfl, by subst h; rfl, fun _ => by subst h; rfl⟩, by subst h; rfl, by subst h; rfl, ?_⟩
  intro a' d
  rw [hb]
  have := amountOf_nonneg_of_valid amt hv' d
  split <;> omega

theorem addCoins_kinds {s s' : State} {a : Addr} {amt : Coins} (h : addCoins s a amt = .ok s') :
    s'.kinds = s.kinds := by
  unfold addCoins at h
  split_ifs at h
  simp at h; subst h; rfl

theorem ensureAccount_credited (s : State) (a : Addr) : Credited s (ensureAccount s a) := by
  unfold ensureAccount
  split
  · exact Credited.refl _
  · rename_i hne
    refine ⟨⟨rfl, rfl, ?_⟩, rfl, rfl, fun _ _ => Int.le_refl _⟩
    intro b
    have := ensureAccount_kindOf s a b
    unfold ensureAccount at this
    simpa [hne] using this

@[simp] theorem ensureAccount_bal (s : State) (a : Addr) (a' : Addr) (d : Denom) :
    (ensureAccount s a).bal a' d = s.bal a' d := by
  unfold ensureAccount; split <;> rfl

theorem addAll_credited : ∀ (xs : List (Addr × Coins)) (s s' : State), addAll s xs = .ok s' → Credited s s'
  | [], s, s', h => by simp [addAll] at h; subst h; exact Credited.refl _
  | (a, amt) :: rest, s, s', h => by
    simp only [addAll] at h
    split at h
    · cases h
    · rename_i s₁ h₁
      exact (addCoins_credited h₁).trans ((ensureAccount_credited s₁ a).trans (addAll_credited rest _ _ h))

theorem subAll_holdLeBal (c : Ctx) (hc : c.holdBypass = false) :
    ∀ (xs : List (Addr × Coins)) (s s' : State), HoldLeBal s → subAll s c xs = .ok s' →
      HoldLeBal s' ∧ BankFrame s s'
  | [], s, s', hinv, h => by simp [subAll] at h; subst h; exact ⟨hinv, BankFrame.refl _⟩
  | (a, amt) :: rest, s, s', hinv, h => by
    simp only [subAll] at h
    split at h
    · cases h
    · rename_i s₁ h₁
      have hi := subUnlockedCoins_holdLeBal hc hinv h₁
      have hf := (subUnlockedCoins_debited h₁).1.frame
      have := subAll_holdLeBal c hc rest s₁ s' hi h
      exact ⟨this.1, hf.trans this.2⟩

theorem subAll_frame (c : Ctx) : ∀ (xs : List (Addr × Coins)) (s s' : State), subAll s c xs = .ok s' → BankFrame s s'
  | [], s, s', h => by simp [subAll] at h; subst h; exact BankFrame.refl _
  | (a, amt) :: rest, s, s', h => by
    simp only [subAll] at h
    split at h
    · cases h
    · rename_i s₁ h₁
      exact (subUnlockedCoins_debited h₁).1.frame.trans (subAll_frame c rest s₁ s' h)

/-! ### delegation tracking never touches balances or holds -/

theorem trackDelegation_ledger (a : Addr) : ∀ (amt : Coins) (s : State),
    (trackDelegation s a amt).ledger = s.ledger ∧ (trackDelegation s a amt).holds = s.holds ∧
    (trackDelegation s a amt).time = s.time ∧ (trackDelegation s a amt).kinds = s.kinds
  | [], s => by simp [trackDelegation]
  | (d, x) :: rest, s => by
    simp only [trackDelegation]
    split
    · have := trackDelegation_ledger a rest (trackDelegation1 s a d x)
      simpa [trackDelegation1] using this
    · simp

theorem trackUndelegation_ledger (a : Addr) : ∀ (amt : Coins) (s : State),
    (trackUndelegation s a amt).ledger = s.ledger ∧ (trackUndelegation s a amt).holds = s.holds ∧
    (trackUndelegation s a amt).time = s.time ∧ (trackUndelegation s a amt).kinds = s.kinds
  | [], s => by simp [trackUndelegation]
  | (d, x) :: rest, s => by
    simp only [trackUndelegation]
    split
    · have := trackUndelegation_ledger a rest (trackUndelegation1 s a d x)
      simpa [trackUndelegation1] using this
    · simp

/-! ### hold keeper loops -/

theorem addHoldLoop_spec (a : Addr) : ∀ (funds : Coins) (s : State),
    (addHoldLoop s a funds).ledger = s.ledger ∧ (addHoldLoop s a funds).kinds = s.kinds ∧
    (addHoldLoop s a funds).dv = s.dv ∧ (addHoldLoop s a funds).df = s.df ∧
    (addHoldLoop s a funds).time = s.time ∧
    ∀ a' d', (addHoldLoop s a funds).hold a' d' = s.hold a' d' + (if a = a' then Coins.amountOf funds d' else 0)
  | [], s => by simp [addHoldLoop]
  | (d, x) :: rest, s => by
    simp only [addHoldLoop]
    split
    · rename_i hx
      obtain ⟨h1, h2, h3, h4, h5, h6⟩ := addHoldLoop_spec a rest s
      refine ⟨h1, h2, h3, h4, h5, ?_⟩
      intro a' d'; rw [h6]; simp [hx]
    · obtain ⟨h1, h2, h3, h4, h5, h6⟩ := addHoldLoop_spec a rest { s with holds := s.holds.credit a [(d, x)] }
      refine ⟨h1, h2, h3, h4, h5, ?_⟩
      intro a' d'; rw [h6]
      simp only [State.hold, Ledger.bal_credit, Coins.amountOf_cons, Coins.amountOf_nil]
      by_cases ha : a = a' <;> by_cases hd : d = d' <;> simp [ha, hd] <;> omega

/-- a passed `validateLoop`: every non-zero coin is within the spendable amount, which is positive -/
theorem validateLoop_ok (s : State) (c : Ctx) (a : Addr) : ∀ (funds : Coins),
    validateLoop s c a funds = .ok () → ∀ d x, (d, x) ∈ funds → x ≠ 0 →
      x ≤ spendableCoins s c a d ∧ 0 < spendableCoins s c a d
  | [], _, _, _, hm, _ => by cases hm
  | (d', x') :: rest, h, d, x, hm, hx => by
    simp only [validateLoop] at h
    rcases List.mem_cons.mp hm with heq | hm'
    · cases heq
      split_ifs at h with h0 h1 h2
      · exact absurd h0 hx
      · omega
    · split_ifs at h with h0 h1 h2
      · exact validateLoop_ok s c a rest h d x hm' hx
      · exact validateLoop_ok s c a rest h d x hm' hx

theorem isAnyNegative_false {cs : Coins} (h : isAnyNegative cs = false) : ∀ p ∈ cs, 0 ≤ p.2 := by
  intro p hp
  unfold isAnyNegative at h
  have := (List.any_eq_false.mp h) p hp
  simpa using this

theorem releaseLoop_spec (a : Addr) : ∀ (funds : Coins) (s s' : State), (∀ p ∈ funds, 0 ≤ p.2) →
    releaseLoop s a funds = .ok s' →
    s'.ledger = s.ledger ∧ s'.kinds = s.kinds ∧ s'.dv = s.dv ∧ s'.df = s.df ∧ s'.time = s.time ∧
    (∀ a' d', s'.hold a' d' ≤ s.hold a' d') ∧
    (∀ a' d', s'.hold a' d' = s.hold a' d' ∨ 0 ≤ s'.hold a' d')
  | [], s, s', _, h => by
    simp [releaseLoop] at h; subst h
    exact ⟨rfl, rfl, rfl, rfl, rfl, fun _ _ => Int.le_refl _, fun _ _ => Or.inl rfl⟩
  | (d, x) :: rest, s, s', hpos, h => by
    have hx : 0 ≤ x := hpos (d, x) (by simp)
    have hrest : ∀ p ∈ rest, 0 ≤ p.2 := fun p hp => hpos p (List.mem_cons_of_mem _ hp)
    simp only [releaseLoop] at h
    split_ifs at h with h0 h1
    · exact releaseLoop_spec a rest s s' hrest h
    · obtain ⟨l1, l2, l3, l4, l5, l6, l7⟩ := releaseLoop_spec a rest _ s' hrest h
      have hh : ∀ a' d', State.hold { s with holds := s.holds.debit a [(d, x)] } a' d' =
          s.hold a' d' - (if a = a' ∧ d = d' then x else 0) := by
        intro a' d'
        simp only [State.hold, Ledger.bal_debit, Coins.amountOf_cons, Coins.amountOf_nil]
        by_cases ha : a = a' <;> by_cases hd : d = d' <;> simp [ha, hd]
      refine ⟨l1, l2, l3, l4, l5, ?_, ?_⟩
      · intro a' d'
        have := l6 a' d'; rw [hh] at this
        split at this <;> omega
      · intro a' d'
        rcases l7 a' d' with he | hl
        · rw [he, hh]
          by_cases hc : a = a' ∧ d = d'
          · right; obtain ⟨rfl, rfl⟩ := hc; simp; omega
          · left; simp [hc]
        · exact Or.inr hl

/-- releasing holds of `a` leaves every other account's holds alone -/
theorem releaseLoop_other (a : Addr) : ∀ (funds : Coins) (s s' : State), releaseLoop s a funds = .ok s' →
    ∀ a' d', a' ≠ a → s'.hold a' d' = s.hold a' d'
  | [], s, s', h => by
    simp [releaseLoop] at h; subst h; intros; rfl
  | (d, x) :: rest, s, s', h => by
    simp only [releaseLoop] at h
    split_ifs at h with h0 h1
    · exact releaseLoop_other a rest s s' h
    · intro a' d' hne
      rw [releaseLoop_other a rest _ s' h a' d' hne]
      simp only [State.hold, Ledger.bal_debit, Coins.amountOf_cons, Coins.amountOf_nil]
      have : ¬ (a = a') := fun e => hne e.symm
      simp [this]

end PvProofs.Lemmas.Lock
