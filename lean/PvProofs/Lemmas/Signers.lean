/-
Helper lemmas for C10 (metadata signer rules): `updateFirst`, the greedy role loops, the
party-details list built by `BuildPartyDetails`.
-/
import PvModel.SignersSpec
import Mathlib.Tactic.SplitIfs
import Mathlib.Data.List.Perm.Basic
import Mathlib.Data.List.Nodup

namespace PvProofs.Lemmas.Signers
open PvModel.Signers

/-! ### updateFirst -/

theorem updateFirst_decomp {α} {c : α → Bool} {f : α → α} {l l' : List α}
    (h : updateFirst c f l = some l') :
    ∃ pre x post, l = pre ++ x :: post ∧ l' = pre ++ f x :: post ∧ c x = true ∧ ∀ y ∈ pre, c y = false := by
  induction l generalizing l' with
  | nil => simp [updateFirst] at h
  | cons a as ih =>
    unfold updateFirst at h
    by_cases hc : c a = true
    · simp [hc] at h
      exact ⟨[], a, as, by simp, by simp [← h], hc, by simp⟩
    · simp [hc] at h
      obtain ⟨l2, h2, rfl⟩ := h
      obtain ⟨pre, x, post, h1, h2', h3, h4⟩ := ih h2
      refine ⟨a :: pre, x, post, by simp [h1], by simp [h2'], h3, ?_⟩
      intro y hy
      rcases List.mem_cons.mp hy with rfl | hy
      · simpa using hc
      · exact h4 y hy

theorem updateFirst_eq_none_iff {α} {c : α → Bool} {f : α → α} {l : List α} :
    updateFirst c f l = none ↔ ∀ x ∈ l, c x = false := by
  induction l with
  | nil => simp [updateFirst]
  | cons a as ih =>
    unfold updateFirst
    by_cases hc : c a = true
    · simp [hc]
    · simp [hc, ih]

theorem updateFirst_isSome_iff {α} {c : α → Bool} {f : α → α} {l : List α} :
    (updateFirst c f l).isSome = true ↔ ∃ x ∈ l, c x = true := by
  rw [← Option.ne_none_iff_isSome, Ne, updateFirst_eq_none_iff]
  simp

/-- a counted predicate that the update switches off loses exactly one element -/
theorem updateFirst_countP_dec {α} {c d : α → Bool} {f : α → α} {l l' : List α}
    (h : updateFirst c f l = some l') (hd : ∀ x, c x = true → d x = true ∧ d (f x) = false) :
    l.countP d = l'.countP d + 1 := by
  obtain ⟨pre, x, post, rfl, rfl, hx, _⟩ := updateFirst_decomp h
  have := hd x hx
  simp [List.countP_append, List.countP_cons, this.1, this.2]
  omega

/-- a counted predicate the update does not touch keeps its count -/
theorem updateFirst_countP_same {α} {c d : α → Bool} {f : α → α} {l l' : List α}
    (h : updateFirst c f l = some l') (hd : ∀ x, c x = true → d (f x) = d x) :
    l'.countP d = l.countP d := by
  obtain ⟨pre, x, post, rfl, rfl, hx, _⟩ := updateFirst_decomp h
  simp [List.countP_append, List.countP_cons, hd x hx]

theorem updateFirst_map_same {α β} {c : α → Bool} {f : α → α} {g : α → β} {l l' : List α}
    (h : updateFirst c f l = some l') (hg : ∀ x, g (f x) = g x) : l'.map g = l.map g := by
  obtain ⟨pre, x, post, rfl, rfl, _, _⟩ := updateFirst_decomp h
  simp [hg]

/-- an invariant of the elements survives when `f` preserves it -/
theorem updateFirst_forall {α} {c : α → Bool} {f : α → α} {P : α → Prop} {l l' : List α}
    (h : updateFirst c f l = some l') (hP : ∀ x ∈ l, P x) (hf : ∀ x, c x = true → P x → P (f x)) :
    ∀ x ∈ l', P x := by
  obtain ⟨pre, x, post, rfl, rfl, hx, _⟩ := updateFirst_decomp h
  intro y hy
  simp only [List.mem_append, List.mem_cons] at hy hP
  rcases hy with hy | rfl | hy
  · exact hP y (Or.inl hy)
  · exact hf x hx (hP x (Or.inr (Or.inl rfl)))
  · exact hP y (Or.inr (Or.inr hy))

/-! ### the greedy role loop (`associateRequiredRoles`, `validateRolesPresent`) -/

/-- number of parties still usable as role `r` that satisfy `extra` -/
def cnt (extra : PartyDetails → Bool) (r : Role) (ps : List PartyDetails) : Nat :=
  ps.countP fun p => p.isStillUsableAs r && extra p

@[simp] theorem isStillUsableAs_markAsUsed (p : PartyDetails) (r : Role) :
    p.markAsUsed.isStillUsableAs r = false := by
  simp [PartyDetails.isStillUsableAs, PartyDetails.markAsUsed, PartyDetails.isUsed]

theorem isStillUsableAs_role {p : PartyDetails} {r : Role} (h : p.isStillUsableAs r = true) :
    p.role = r := by
  simp [PartyDetails.isStillUsableAs] at h
  exact h.2

theorem isStillUsableAs_ne {p : PartyDetails} {r r' : Role} (h : p.isStillUsableAs r = true)
    (hne : r' ≠ r) : p.isStillUsableAs r' = false := by
  have := isStillUsableAs_role h
  simp [PartyDetails.isStillUsableAs, this]
  intro _ _ h2; exact absurd h2.symm hne

/-- What the greedy loop computes, for every role at once: the unfulfilled entries of role
`r` are exactly the excess of the demand over the supply, the supply shrinks by the demand,
and nothing else about the parties changes. -/
theorem associateRolesWith_spec (extra : PartyDetails → Bool)
    (hextra : ∀ p, extra p.markAsUsed = extra p) (roles : List Role) :
    ∀ ps : List PartyDetails,
      let res := associateRolesWith (fun role p => p.isStillUsableAs role && extra p) ps roles
      (∀ r, res.2.count r = roles.count r - cnt extra r ps)
      ∧ (∀ r, cnt extra r res.1 = cnt extra r ps - roles.count r)
      ∧ (∀ d : PartyDetails → Bool,
          (∀ role x, (x.isStillUsableAs role && extra x) = true → d x.markAsUsed = d x) →
          res.1.countP d = ps.countP d)
      ∧ (∀ {β : Type} (g : PartyDetails → β), (∀ x, g x.markAsUsed = g x) → res.1.map g = ps.map g) := by
  induction roles with
  | nil => intro ps; simp [associateRolesWith]
  | cons role rest ih =>
    intro ps
    simp only [associateRolesWith]
    cases hu : updateFirst (fun p => p.isStillUsableAs role && extra p) PartyDetails.markAsUsed ps with
    | some ps1 =>
      simp only
      obtain ⟨i1, i2, i3, i4⟩ := ih ps1
      have hdec : cnt extra role ps = cnt extra role ps1 + 1 := by
        unfold cnt
        apply updateFirst_countP_dec hu
        intro x hx
        simp [hx, hextra]
      have hsame : ∀ r, r ≠ role → cnt extra r ps1 = cnt extra r ps := by
        intro r hr
        unfold cnt
        apply updateFirst_countP_same hu
        intro x hx
        simp only [Bool.and_eq_true] at hx
        simp [isStillUsableAs_ne hx.1 hr]
      refine ⟨?_, ?_, ?_, ?_⟩
      · intro r
        rw [i1 r]
        by_cases hr : r = role
        · subst hr; simp [List.count_cons]; omega
        · have : (role == r) = false := by simp; exact fun h => hr h.symm
          simp [List.count_cons, this, hsame r hr]
      · intro r
        rw [i2 r]
        by_cases hr : r = role
        · subst hr; simp [List.count_cons]; omega
        · have : (role == r) = false := by simp; exact fun h => hr h.symm
          simp [List.count_cons, this, hsame r hr]
      · intro d hd
        rw [i3 d hd]
        exact updateFirst_countP_same hu (fun x hx => hd role x hx)
      · intro β g hg
        rw [i4 g hg]
        exact updateFirst_map_same hu hg
    | none =>
      simp only
      obtain ⟨i1, i2, i3, i4⟩ := ih ps
      have hzero : cnt extra role ps = 0 := by
        unfold cnt
        rw [List.countP_eq_zero]
        intro x hx
        have := (updateFirst_eq_none_iff.mp hu) x hx
        simpa using this
      refine ⟨?_, ?_, ?_, ?_⟩
      · intro r
        by_cases hr : r = role
        · subst hr; simp [List.count_cons, i1, hzero]
        · have : (role == r) = false := by simp; exact fun h => hr h.symm
          simp [List.count_cons, this, i1]
      · intro r
        rw [i2 r]
        by_cases hr : r = role
        · subst hr; simp [hzero]
        · have : (role == r) = false := by simp; exact fun h => hr h.symm
          simp [List.count_cons, this]
      · exact i3
      · exact i4

/-! ### the authz pass over the still-missing roles (`associateAuthorizationsForRoles`) -/

/-- the party's address has an authz grantee among the signers -/
def hasGrantee (env : Env) (mt : MsgType) (signers : List Addr) (a : Addr) : Bool :=
  (findAuthzGrantee env mt a (accs env signers)).isSome

/-- the condition under which `associateAuthorizationsForRoles` picks a party for `role` -/
def viaAuthz (env : Env) (mt : MsgType) (signers : List Addr) (role : Role) (p : PartyDetails) : Bool :=
  p.isStillUsableAs role && !p.hasSigner && hasGrantee env mt signers p.address

def cnt2 (env : Env) (mt : MsgType) (signers : List Addr) (r : Role) (ps : List PartyDetails) : Nat :=
  ps.countP (viaAuthz env mt signers r)

theorem useViaAuthz_not_usable {env : Env} {mt : MsgType} {signers : List Addr} {role r : Role}
    {x : PartyDetails} (hx : viaAuthz env mt signers role x = true) :
    (useViaAuthz env mt signers x).isStillUsableAs r = false := by
  simp only [viaAuthz, hasGrantee, Bool.and_eq_true] at hx
  obtain ⟨g, hg⟩ := Option.isSome_iff_exists.mp hx.2
  simp [useViaAuthz, hg, PartyDetails.setSigner, PartyDetails.markAsUsed, PartyDetails.isStillUsableAs,
    PartyDetails.isUsed]

theorem associateAuthorizationsForRoles_spec (env : Env) (mt : MsgType) (signers : List Addr)
    (missing : List Role) :
    ∀ ps : List PartyDetails,
      let res := associateAuthorizationsForRoles env mt signers missing ps
      (res.2 = false ↔ ∀ r, missing.count r ≤ cnt2 env mt signers r ps)
      ∧ (∀ {β : Type} (g : PartyDetails → β), (∀ x, g (useViaAuthz env mt signers x) = g x) →
          res.1.map g = ps.map g) := by
  induction missing with
  | nil => intro ps; simp [associateAuthorizationsForRoles]
  | cons role rest ih =>
    intro ps
    simp only [associateAuthorizationsForRoles]
    have hc : (fun p : PartyDetails => p.isStillUsableAs role && !p.hasSigner
          && (findAuthzGrantee env mt p.address (accs env signers)).isSome)
        = viaAuthz env mt signers role := by
      funext p; simp [viaAuthz, hasGrantee]
    rw [hc]
    cases hu : updateFirst (viaAuthz env mt signers role) (useViaAuthz env mt signers) ps with
    | some ps1 =>
      simp only
      obtain ⟨i1, i2⟩ := ih ps1
      have hdec : cnt2 env mt signers role ps = cnt2 env mt signers role ps1 + 1 := by
        unfold cnt2
        apply updateFirst_countP_dec hu
        intro x hx
        refine ⟨hx, ?_⟩
        simp [viaAuthz, useViaAuthz_not_usable hx]
      have hsame : ∀ r, r ≠ role → cnt2 env mt signers r ps1 = cnt2 env mt signers r ps := by
        intro r hr
        unfold cnt2
        apply updateFirst_countP_same hu
        intro x hx
        have h1 : x.isStillUsableAs role = true := by
          simp only [viaAuthz, Bool.and_eq_true] at hx; exact hx.1.1
        simp [viaAuthz, useViaAuthz_not_usable hx, isStillUsableAs_ne h1 hr]
      refine ⟨?_, ?_⟩
      · rw [i1]
        constructor
        · intro h r
          by_cases hr : r = role
          · subst hr; have := h r; simp [List.count_cons]; omega
          · have hb : (role == r) = false := by simp; exact fun h => hr h.symm
            have := h r
            simp [List.count_cons, hb]; rw [← hsame r hr]; exact this
        · intro h r
          by_cases hr : r = role
          · subst hr; have := h r; simp [List.count_cons] at this; omega
          · have hb : (role == r) = false := by simp; exact fun h => hr h.symm
            have := h r
            simp [List.count_cons, hb] at this; rw [hsame r hr]; exact this
      · intro β g hg
        rw [i2 g hg]
        exact updateFirst_map_same hu hg
    | none =>
      simp only
      obtain ⟨_, i2⟩ := ih ps
      have hzero : cnt2 env mt signers role ps = 0 := by
        unfold cnt2
        rw [List.countP_eq_zero]
        intro x hx
        have := (updateFirst_eq_none_iff.mp hu) x hx
        simpa using this
      refine ⟨?_, i2⟩
      simp only [Bool.true_eq_false, false_iff, not_forall]
      exact ⟨role, by simp [hzero]⟩

/-! ### authz: the code's message-type table is the documented hierarchy -/

theorem mem_getAuthzMessageTypeURLs (mt t : MsgType) :
    t ∈ getAuthzMessageTypeURLs mt ↔ mt ≠ "" ∧ (t = mt ∨ Spec.parentType mt = some t) := by
  by_cases h1 : mt = "AddScopeDataAccess"
  · subst h1; simp [getAuthzMessageTypeURLs, Spec.parentType, @eq_comm _ _ t]
  by_cases h2 : mt = "DeleteScopeDataAccess"
  · subst h2; simp [getAuthzMessageTypeURLs, Spec.parentType, @eq_comm _ _ t]
  by_cases h3 : mt = "AddScopeOwner"
  · subst h3; simp [getAuthzMessageTypeURLs, Spec.parentType, @eq_comm _ _ t]
  by_cases h4 : mt = "DeleteScopeOwner"
  · subst h4; simp [getAuthzMessageTypeURLs, Spec.parentType, @eq_comm _ _ t]
  by_cases h5 : mt = "WriteRecord"
  · subst h5; simp [getAuthzMessageTypeURLs, Spec.parentType, @eq_comm _ _ t]
  by_cases h6 : mt = "AddContractSpecToScopeSpec"
  · subst h6; simp [getAuthzMessageTypeURLs, Spec.parentType, @eq_comm _ _ t]
  by_cases h7 : mt = "DeleteContractSpecFromScopeSpec"
  · subst h7; simp [getAuthzMessageTypeURLs, Spec.parentType, @eq_comm _ _ t]
  by_cases h8 : mt = "WriteRecordSpecification"
  · subst h8; simp [getAuthzMessageTypeURLs, Spec.parentType, @eq_comm _ _ t]
  by_cases h9 : mt = "DeleteRecordSpecification"
  · subst h9; simp [getAuthzMessageTypeURLs, Spec.parentType, @eq_comm _ _ t]
  by_cases h0 : mt = ""
  · subst h0; simp [getAuthzMessageTypeURLs]
  simp [getAuthzMessageTypeURLs, Spec.parentType, h1, h2, h3, h4, h5, h6, h7, h8, h9, h0]

theorem hasAuthorization_iff (env : Env) (mt : MsgType) (a s : Addr) :
    hasAuthorization env mt a s = true ↔
      mt ≠ "" ∧ (env.grant a s mt = true ∨ ∃ p, Spec.parentType mt = some p ∧ env.grant a s p = true) := by
  unfold hasAuthorization
  rw [List.any_eq_true]
  constructor
  · rintro ⟨t, ht, hg⟩
    obtain ⟨h1, h2 | h2⟩ := (mem_getAuthzMessageTypeURLs mt t).mp ht
    · exact ⟨h1, Or.inl (h2 ▸ hg)⟩
    · exact ⟨h1, Or.inr ⟨t, h2, hg⟩⟩
  · rintro ⟨h1, h2 | ⟨p, hp, hg⟩⟩
    · exact ⟨mt, (mem_getAuthzMessageTypeURLs mt mt).mpr ⟨h1, Or.inl rfl⟩, h2⟩
    · exact ⟨p, (mem_getAuthzMessageTypeURLs mt p).mpr ⟨h1, Or.inr hp⟩, hg⟩

theorem authorizes_iff (env : Env) (mt : MsgType) (a s : Addr) :
    Spec.authorizes env mt a s = true ↔
      env.valid a = true ∧ env.valid s = true ∧ hasAuthorization env mt a s = true := by
  rw [hasAuthorization_iff]
  unfold Spec.authorizes
  cases hp : Spec.parentType mt <;> simp [and_assoc]

theorem findAuthzGrantee_eq_some {env : Env} {mt : MsgType} {a g : Addr} {grantees : List Addr}
    (h : findAuthzGrantee env mt a grantees = some g) :
    env.valid a = true ∧ g ∈ grantees ∧ hasAuthorization env mt a g = true := by
  unfold findAuthzGrantee at h
  split_ifs at h with hc
  simp only [Bool.or_eq_true, Bool.not_eq_true', not_or, Bool.not_eq_false] at hc
  exact ⟨hc.1, List.mem_of_find?_eq_some h, by simpa using List.find?_some h⟩

theorem findAuthzGrantee_isSome_iff (env : Env) (mt : MsgType) (a : Addr) (grantees : List Addr) :
    (findAuthzGrantee env mt a grantees).isSome = true ↔
      env.valid a = true ∧ ∃ g ∈ grantees, hasAuthorization env mt a g = true := by
  unfold findAuthzGrantee
  split_ifs with hc
  · simp only [Bool.or_eq_true, Bool.not_eq_true'] at hc
    rcases hc with hc | hc
    · simp [hc]
    · simp [List.isEmpty_iff.mp hc]
  · simp only [Bool.or_eq_true, Bool.not_eq_true', not_or, Bool.not_eq_false] at hc
    simp [List.find?_isSome, hc.1]

theorem hasGrantee_eq_signsViaAuthz (env : Env) (mt : MsgType) (signers : List Addr) (a : Addr) :
    hasGrantee env mt signers a = Spec.signsViaAuthz env mt signers a := by
  rw [Bool.eq_iff_iff]
  unfold hasGrantee Spec.signsViaAuthz
  rw [findAuthzGrantee_isSome_iff, List.any_eq_true]
  simp only [accs, List.mem_filter]
  constructor
  · rintro ⟨ha, g, ⟨hg, hv⟩, hauth⟩
    exact ⟨g, hg, (authorizes_iff env mt a g).mpr ⟨ha, hv, hauth⟩⟩
  · rintro ⟨g, hg, hauth⟩
    obtain ⟨ha, hv, h⟩ := (authorizes_iff env mt a g).mp hauth
    exact ⟨ha, g, ⟨hg, hv⟩, h⟩

/-! ### `BuildPartyDetails` -/

def key (p : PartyDetails) : Addr × Role := (p.address, p.role)
def pkey (p : Party) : Addr × Role := (p.address, p.role)

/-- a freshly built entry: no signer, not used -/
def Fresh (p : PartyDetails) : Prop := p.signer = "" ∧ p.usedBySpec = false

/-- the `(address, role)` of the entries that can fulfil roles, in order -/
def ckeys (l : List PartyDetails) : List (Addr × Role) :=
  l.filterMap fun p => if p.canBeUsedBySpec then some (key p) else none

/-- the projection `ckeys` depends on -/
def gk (p : PartyDetails) : Bool × Addr × Role := (p.canBeUsedBySpec, p.address, p.role)

theorem ckeys_eq_of_map_gk : ∀ {l l' : List PartyDetails}, l'.map gk = l.map gk → ckeys l' = ckeys l := by
  intro l
  induction l with
  | nil => intro l' h; simp at h; subst h; rfl
  | cons a as ih =>
    intro l' h
    cases l' with
    | nil => simp at h
    | cons b bs =>
      simp only [List.map_cons, List.cons.injEq] at h
      have := ih h.2
      have hb : b.canBeUsedBySpec = a.canBeUsedBySpec ∧ b.address = a.address ∧ b.role = a.role := by
        have := h.1; simp [gk] at this; exact this
      simp only [ckeys, key] at this
      simp [ckeys, List.filterMap_cons, key, hb.1, hb.2.1, hb.2.2, this]

theorem any_isSameAs_iff (details : List PartyDetails) (p : Party) :
    details.any (·.isSameAs p) = true ↔ pkey p ∈ details.map key := by
  rw [List.any_eq_true, List.mem_map]
  constructor
  · rintro ⟨d, hd, h⟩
    simp [PartyDetails.isSameAs] at h
    exact ⟨d, hd, by simp [key, pkey, h.1, h.2]⟩
  · rintro ⟨d, hd, h⟩
    simp [key, pkey] at h
    exact ⟨d, hd, by simp [PartyDetails.isSameAs, h.1, h.2]⟩

theorem addAvailable_spec (l : List Party) :
    ∀ acc : List PartyDetails,
      (∀ d ∈ acc, d.optional = true ∧ d.canBeUsedBySpec = true ∧ Fresh d) → (acc.map key).Nodup →
      (∀ d ∈ addAvailable acc l, d.optional = true ∧ d.canBeUsedBySpec = true ∧ Fresh d)
      ∧ ((addAvailable acc l).map key).Nodup
      ∧ (∀ k, k ∈ (addAvailable acc l).map key ↔ k ∈ acc.map key ∨ k ∈ l.map pkey) := by
  induction l with
  | nil => intro acc h1 h2; simp [addAvailable]; exact ⟨h1, h2⟩
  | cons p rest ih =>
    intro acc h1 h2
    unfold addAvailable
    split_ifs with hc
    · obtain ⟨i1, i2, i3⟩ := ih acc h1 h2
      refine ⟨i1, i2, ?_⟩
      intro k
      rw [i3 k]
      have := (any_isSameAs_iff acc p).mp hc
      simp only [List.map_cons, List.mem_cons]
      constructor
      · rintro (h | h); exact Or.inl h; exact Or.inr (Or.inr h)
      · rintro (h | rfl | h); exact Or.inl h; exact Or.inl this; exact Or.inr h
    · have hnot : pkey p ∉ acc.map key := fun h => hc ((any_isSameAs_iff acc p).mpr h)
      have h1' : ∀ d ∈ acc ++ [wrapAvailableParty p], d.optional = true ∧ d.canBeUsedBySpec = true ∧ Fresh d := by
        intro d hd
        rcases List.mem_append.mp hd with hd | hd
        · exact h1 d hd
        · simp at hd; subst hd; simp [wrapAvailableParty, Fresh]
      have h2' : ((acc ++ [wrapAvailableParty p]).map key).Nodup := by
        simp only [List.map_append, List.map_cons, List.map_nil]
        rw [List.nodup_append]
        refine ⟨h2, by simp, ?_⟩
        intro a ha b hb
        simp at hb; subst hb
        intro heq; subst heq
        exact hnot (by simpa [key, pkey, wrapAvailableParty] using ha)
      obtain ⟨i1, i2, i3⟩ := ih _ h1' h2'
      refine ⟨i1, i2, ?_⟩
      intro k
      rw [i3 k]
      simp only [List.map_append, List.map_cons, List.map_nil, List.mem_append, List.mem_cons,
        List.not_mem_nil, or_false]
      have : key (wrapAvailableParty p) = pkey p := by simp [key, pkey, wrapAvailableParty]
      rw [this]
      tauto

theorem ckeys_of_all_canBeUsed {l : List PartyDetails} (h : ∀ d ∈ l, d.canBeUsedBySpec = true) :
    ckeys l = l.map key := by
  induction l with
  | nil => rfl
  | cons a as ih =>
    have ha := h a (by simp)
    have := ih (fun d hd => h d (by simp [hd]))
    simp only [ckeys] at this
    simp [ckeys, ha, this]

theorem addRequired_spec (l : List Party) :
    ∀ details : List PartyDetails, (∀ d ∈ details, Fresh d) →
      (∀ d ∈ addRequired details l, Fresh d)
      ∧ ckeys (addRequired details l) = ckeys details
      ∧ (∀ C : Addr → Prop, (∀ d ∈ addRequired details l, d.isRequired = true → C d.address) ↔
          (∀ d ∈ details, d.isRequired = true → C d.address) ∧ (∀ r ∈ l, r.optional = false → C r.address)) := by
  induction l with
  | nil => intro details h; simp [addRequired]; exact h
  | cons r rest ih =>
    intro details hf
    unfold addRequired
    split_ifs with hopt
    · obtain ⟨i1, i2, i3⟩ := ih details hf
      refine ⟨i1, i2, ?_⟩
      intro C
      rw [i3 C]
      simp [hopt]
    · have hopt' : r.optional = false := by simpa using hopt
      cases hu : updateFirst (fun x => x.isSameAs r) PartyDetails.makeRequired details with
      | some details' =>
        simp only
        have hf' : ∀ d ∈ details', Fresh d :=
          updateFirst_forall hu hf (fun x _ hx => by simpa [Fresh, PartyDetails.makeRequired] using hx)
        obtain ⟨i1, i2, i3⟩ := ih details' hf'
        refine ⟨i1, ?_, ?_⟩
        · rw [i2]
          exact ckeys_eq_of_map_gk (updateFirst_map_same hu (by intro x; simp [gk, PartyDetails.makeRequired]))
        · intro C
          rw [i3 C]
          obtain ⟨pre, x, post, rfl, rfl, hx, _⟩ := updateFirst_decomp hu
          have hxa : x.address = r.address := by
            simp [PartyDetails.isSameAs] at hx; exact hx.1
          simp only [List.mem_append, List.mem_cons, forall_eq_or_imp, hopt', true_implies]
          constructor
          · rintro ⟨h1, h2⟩
            have hC : C r.address := by
              have := h1 x.makeRequired (Or.inr (Or.inl rfl)) (by simp [PartyDetails.makeRequired, PartyDetails.isRequired])
              simpa [PartyDetails.makeRequired, hxa] using this
            refine ⟨?_, hC, h2⟩
            intro d hd hreq
            rcases hd with hd | rfl | hd
            · exact h1 d (Or.inl hd) hreq
            · rw [hxa]; exact hC
            · exact h1 d (Or.inr (Or.inr hd)) hreq
          · rintro ⟨h1, hC, h2⟩
            refine ⟨?_, h2⟩
            intro d hd hreq
            rcases hd with hd | rfl | hd
            · exact h1 d (Or.inl hd) hreq
            · simpa [PartyDetails.makeRequired, hxa] using hC
            · exact h1 d (Or.inr (Or.inr hd)) hreq
      | none =>
        simp only
        have hf' : ∀ d ∈ details ++ [wrapRequiredParty r], Fresh d := by
          intro d hd
          rcases List.mem_append.mp hd with hd | hd
          · exact hf d hd
          · simp at hd; subst hd; simp [wrapRequiredParty, Fresh]
        obtain ⟨i1, i2, i3⟩ := ih _ hf'
        refine ⟨i1, ?_, ?_⟩
        · rw [i2]; simp [ckeys, List.filterMap_append, wrapRequiredParty]
        · intro C
          rw [i3 C]
          simp only [List.mem_append, List.mem_cons, List.not_mem_nil, or_false, forall_eq_or_imp,
            hopt', true_implies]
          constructor
          · rintro ⟨h1, h2⟩
            refine ⟨fun d hd => h1 d (Or.inl hd), ?_, h2⟩
            have := h1 (wrapRequiredParty r) (Or.inr rfl)
              (by simp [wrapRequiredParty, PartyDetails.isRequired, hopt'])
            simpa [wrapRequiredParty] using this
          · rintro ⟨h1, hC, h2⟩
            refine ⟨?_, h2⟩
            rintro d (hd | rfl) hreq
            · exact h1 d hd hreq
            · simpa [wrapRequiredParty] using hC

theorem buildPartyDetails_spec (req avail : List Party) :
    (∀ d ∈ buildPartyDetails req avail, Fresh d)
    ∧ (ckeys (buildPartyDetails req avail)).Nodup
    ∧ (∀ k, k ∈ ckeys (buildPartyDetails req avail) ↔ k ∈ avail.map pkey)
    ∧ (∀ C : Addr → Prop, (∀ d ∈ buildPartyDetails req avail, d.isRequired = true → C d.address) ↔
        (∀ r ∈ req, r.optional = false → C r.address)) := by
  obtain ⟨a1, a2, a3⟩ := addAvailable_spec avail [] (by simp) (by simp)
  obtain ⟨b1, b2, b3⟩ := addRequired_spec req (addAvailable [] avail) (fun d hd => (a1 d hd).2.2)
  have hck : ckeys (addAvailable [] avail) = (addAvailable [] avail).map key :=
    ckeys_of_all_canBeUsed (fun d hd => (a1 d hd).2.1)
  refine ⟨b1, ?_, ?_, ?_⟩
  · unfold buildPartyDetails; rw [b2, hck]; exact a2
  · intro k; unfold buildPartyDetails; rw [b2, hck, a3 k]; simp
  · intro C
    unfold buildPartyDetails
    rw [b3 C]
    constructor
    · exact fun h => h.2
    · intro h
      refine ⟨?_, h⟩
      intro d hd hreq
      have := (a1 d hd).1
      simp [PartyDetails.isRequired, this] at hreq

/-! ### counting -/

theorem distinct_nodup : ∀ l : List (Addr × Role), (Spec.distinct l).Nodup
  | [] => by simp [Spec.distinct]
  | k :: ks => by
    unfold Spec.distinct
    split_ifs with h
    · exact distinct_nodup ks
    · have ih := distinct_nodup ks
      have hmem : ∀ l : List (Addr × Role), ∀ x, x ∈ Spec.distinct l → x ∈ l := by
        intro l
        induction l with
        | nil => simp [Spec.distinct]
        | cons a as ih2 =>
          intro x hx
          unfold Spec.distinct at hx
          split_ifs at hx
          · exact List.mem_cons_of_mem _ (ih2 x hx)
          · rcases List.mem_cons.mp hx with rfl | hx
            · simp
            · exact List.mem_cons_of_mem _ (ih2 x hx)
      rw [List.nodup_cons]
      refine ⟨?_, ih⟩
      intro hk
      exact h (by simpa using hmem ks k hk)

theorem mem_distinct : ∀ (l : List (Addr × Role)) (x : Addr × Role), x ∈ Spec.distinct l ↔ x ∈ l
  | [], x => by simp [Spec.distinct]
  | k :: ks, x => by
    unfold Spec.distinct
    split_ifs with h
    · rw [mem_distinct ks x]
      have : k ∈ ks := by simpa using h
      constructor
      · exact fun hx => List.mem_cons_of_mem _ hx
      · intro hx
        rcases List.mem_cons.mp hx with rfl | hx
        · exact this
        · exact hx
    · simp [mem_distinct ks x]

theorem countP_ckeys (q : Addr × Role → Bool) (ps : List PartyDetails) :
    ps.countP (fun p => p.canBeUsedBySpec && q (key p)) = ((ckeys ps).filter q).length := by
  induction ps with
  | nil => simp [ckeys]
  | cons a as ih =>
    simp only [ckeys] at ih
    by_cases hc : a.canBeUsedBySpec = true
    · by_cases hq : q (key a) = true
      · simp [ckeys, List.countP_cons, List.filterMap_cons, hc, hq, ih]
      · simp [ckeys, List.countP_cons, List.filterMap_cons, hc, hq, ih]
    · simp [ckeys, List.countP_cons, List.filterMap_cons, hc, ih]

/-- The supply side of the role count: the usable entries of the built list, counted by any
property of `(address, role)`, are the distinct available parties. -/
theorem count_build_eq_distinct (req avail : List Party) (q : Addr × Role → Bool) :
    (buildPartyDetails req avail).countP (fun p => p.canBeUsedBySpec && q (key p))
      = ((Spec.distinctParties avail).filter q).length := by
  rw [countP_ckeys]
  obtain ⟨_, h2, h3, _⟩ := buildPartyDetails_spec req avail
  have hperm : (ckeys (buildPartyDetails req avail)).Perm (Spec.distinctParties avail) := by
    unfold Spec.distinctParties
    rw [List.perm_ext_iff_of_nodup h2 (distinct_nodup _)]
    intro k
    rw [h3 k, mem_distinct]
    rfl
  exact (hperm.filter q).length_eq

theorem countP_add_of_split {α} (a b c : α → Bool) (l : List α)
    (h : ∀ x ∈ l, (c x = (a x || b x)) ∧ ¬(a x = true ∧ b x = true)) :
    l.countP a + l.countP b = l.countP c := by
  induction l with
  | nil => simp
  | cons x xs ih =>
    have hx := h x (by simp)
    have := ih (fun y hy => h y (by simp [hy]))
    simp only [List.countP_cons]
    rcases ha : a x <;> rcases hb : b x <;> simp_all <;> omega

/-! ### the first pass: direct signers, then authz for the required parties -/

def sel1 (p : PartyDetails) : Bool := p.isRequired && !p.hasSigner

/-- what `associateSigners` then `associateAuthorizations` do to one party -/
def stage1fn (env : Env) (mt : MsgType) (signers : List Addr) (p : PartyDetails) : PartyDetails :=
  let p1 := if signers.contains p.address then p.setSigner p.address else p
  if sel1 p1 && !p1.hasSigner then
    match findAuthzGrantee env mt p1.address (accs env signers) with
    | some g => p1.setSigner g
    | none => p1
  else p1

theorem stage1_eq_map (env : Env) (mt : MsgType) (signers : List Addr) (ps : List PartyDetails) :
    associateAuthorizations env mt signers (fun p => p.isRequired && !p.hasSigner)
      (associateSigners ps signers) = ps.map (stage1fn env mt signers) := by
  simp only [associateAuthorizations, associateSigners, List.map_map]
  apply List.map_congr_left
  intro p _
  rfl

theorem findAuthzGrantee_ne_empty {env : Env} {mt : MsgType} {a g : Addr} {signers : List Addr}
    (hv : env.valid "" = false) (h : findAuthzGrantee env mt a (accs env signers) = some g) : g ≠ "" := by
  obtain ⟨_, hg, _⟩ := findAuthzGrantee_eq_some h
  simp only [accs, List.mem_filter] at hg
  intro he; subst he; simp [hv] at hg

/-- Facts about one party after the first pass.  `env.valid "" = false`: the empty string is
not an address (`AccAddressFromBech32("")` fails). -/
theorem stage1fn_facts (env : Env) (mt : MsgType) (signers : List Addr) (hv : env.valid "" = false)
    (p : PartyDetails) (hf : Fresh p) :
    let p1 := stage1fn env mt signers p
    p1.address = p.address ∧ p1.role = p.role ∧ p1.optional = p.optional
    ∧ p1.canBeUsedBySpec = p.canBeUsedBySpec ∧ p1.usedBySpec = false
    ∧ (p1.hasSigner = (Spec.signsDirectly signers p.address
          || (p.isRequired && hasGrantee env mt signers p.address)))
    ∧ (p1.signer = "" ∨ (p1.signer = p.address ∧ Spec.signsDirectly signers p.address = true)
        ∨ findAuthzGrantee env mt p.address (accs env signers) = some p1.signer)
    ∧ (Spec.signsDirectly signers p.address = true → p1.signer = p.address) := by
  obtain ⟨hs, hu⟩ := hf
  simp only [stage1fn, sel1]
  by_cases hc : signers.contains p.address = true
  · rw [if_pos hc]
    by_cases he : p.address = ""
    · -- the empty address "signs" with the empty signer: still no signer
      have hg : findAuthzGrantee env mt p.address (accs env signers) = none := by
        simp [findAuthzGrantee, he, hv]
      have hh : (p.setSigner p.address).hasSigner = false := by
        simp [PartyDetails.hasSigner, PartyDetails.setSigner, he]
      have ha : (p.setSigner p.address).address = p.address := rfl
      have hd : Spec.signsDirectly signers p.address = false := by simp [Spec.signsDirectly, he]
      simp only [hh, ha, hg]
      rw [he] at hd hg
      simp [PartyDetails.setSigner, he, hu, hd, hasGrantee, hg, PartyDetails.hasSigner]
    · have hh : (p.setSigner p.address).hasSigner = true := by
        simp [PartyDetails.hasSigner, PartyDetails.setSigner, he]
      have hd : Spec.signsDirectly signers p.address = true := by
        simp [Spec.signsDirectly, he]; simpa using hc
      simp only [hh]
      simp [PartyDetails.setSigner, hu, hd, PartyDetails.hasSigner, he]
  · rw [if_neg hc]
    have hd : Spec.signsDirectly signers p.address = false := by
      simp [Spec.signsDirectly]; intro _; simpa using hc
    have hh : p.hasSigner = false := by simp [PartyDetails.hasSigner, hs]
    simp only [hh]
    by_cases hr : p.isRequired = true
    · cases hg : findAuthzGrantee env mt p.address (accs env signers) with
      | none => simp [hr, hd, hasGrantee, hg, hu, hh, hs]
      | some g =>
        have hne := findAuthzGrantee_ne_empty hv hg
        simp [hr, hd, hasGrantee, hg, hu, PartyDetails.setSigner, PartyDetails.hasSigner, hne]
    · simp [hr, hd, hu, hh, hs]

end PvProofs.Lemmas.Signers
