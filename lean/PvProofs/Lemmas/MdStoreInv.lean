/-
Helper lemmas for C14: each keeper-level primitive of the metadata store model preserves the
invariant `Inv` (and, where relevant, `SessionsHaveScope`).
-/
import PvProofs.Lemmas.MdKMap

namespace PvProofs.MdLemmas
open PvModel.MdStore

variable {B : Addr → Addr}

/-- a scope with this id is stored -/
def HasScope (st : State) (id : UUID) : Prop := ∃ sc ∈ st.scopes, sc.id = id

/-! ### scope writes -/

theorem mem_scopeIndexAddrs (sc : Scope) (b : Addr) : b ∈ scopeIndexAddrs B sc ↔ b ∈ Scope.accts B sc := by
  simp only [scopeIndexAddrs, Scope.accts, Scope.addrs, List.mem_map, mem_dedup, List.mem_append]
  constructor
  · rintro ⟨a, ha | ha, rfl⟩
    · exact ⟨a, Or.inr ha, rfl⟩
    · exact ⟨a, Or.inl ha, rfl⟩
  · rintro ⟨a, ha | ha, rfl⟩
    · exact ⟨a, Or.inr ha, rfl⟩
    · exact ⟨a, Or.inl ha, rfl⟩

theorem optAddrs_kget {st : State} {id : UUID} (b : Addr) :
    b ∈ optAddrs B (kget (·.id) st.scopes id) ↔
      ∃ o, kget (·.id) st.scopes id = some o ∧ b ∈ Scope.accts B o := by
  cases kget (·.id) st.scopes id with
  | none => simp [optAddrs]
  | some o => simp [optAddrs, mem_scopeIndexAddrs]

theorem optSpec_kget {st : State} {id : UUID} (b : UUID) :
    b ∈ optSpec (kget (·.id) st.scopes id) ↔
      ∃ o, kget (·.id) st.scopes id = some o ∧ b ∈ [o.spec] := by
  cases kget (·.id) st.scopes id with
  | none => simp [optSpec]
  | some o => simp [optSpec]

/-- `writeScopeToState`: all clauses that read scopes or the two scope indexes -/
theorem writeScopeToState_inv {st : State} (h : Inv B st) (sc : Scope) : Inv B (writeScopeToState B st sc) where
  keys := by
    obtain ⟨h1, h2, h3, h4, h5, h6, h7⟩ := h.keys
    exact ⟨nodup_kput sc h1, h2, h3, h4, h5, h6, h7⟩
  recSession := h.recSession
  recScope := by
    intro r hr
    obtain ⟨y, hy, hyr⟩ := h.recScope r hr
    exact exists_key_kput.mpr (Or.inr ⟨y, hy, hyr⟩)
  recInScope := h.recInScope
  addrScope := by
    have := idxExact_kput (key := fun s : Scope => s.id) (vals := Scope.accts B) h.keys.1 h.addrScope sc
      (scopeIndexAddrs B sc) (optAddrs B (kget (·.id) st.scopes sc.id))
      (mem_scopeIndexAddrs sc) (fun b => optAddrs_kget b)
    exact this
  specScope := by
    have := idxExact_kput (key := fun s : Scope => s.id) (vals := fun s : Scope => [s.spec]) h.keys.1 h.specScope sc
      [sc.spec] (optSpec (kget (·.id) st.scopes sc.id))
      (by intro b; simp) (fun b => optSpec_kget b)
    exact this
  ownerScopeSpec := h.ownerScopeSpec
  cspecScopeSpec := h.cspecScopeSpec
  ownerCSpec := h.ownerCSpec
  voScope := by
    intro p hp
    obtain ⟨y, hy, hyr⟩ := h.voScope p hp
    exact exists_key_kput.mpr (Or.inr ⟨y, hy, hyr⟩)
  navScope := by
    intro p hp
    obtain ⟨y, hy, hyr⟩ := h.navScope p hp
    exact exists_key_kput.mpr (Or.inr ⟨y, hy, hyr⟩)

/-- the state `setScope` hands to `writeScopeToState` satisfies `Inv` except that the value owner
and NAV entries of the scope being written may precede the scope itself -/
structure InvPending (B : Addr → Addr) (st : State) (id : UUID) : Prop where
  keys : KeysUnique st
  recSession : RecordsHaveSession st
  recScope : RecordsHaveScope st
  recInScope : RecordsInSessionScope st
  addrScope : AddrScopeExact B st
  specScope : SpecScopeExact st
  ownerScopeSpec : OwnerScopeSpecExact B st
  cspecScopeSpec : CSpecScopeSpecExact st
  ownerCSpec : OwnerCSpecExact B st
  voScope : ∀ p ∈ st.valueOwners, p.1 = id ∨ ∃ sc ∈ st.scopes, sc.id = p.1
  navScope : ∀ p ∈ st.navs, p.1 = id ∨ ∃ sc ∈ st.scopes, sc.id = p.1

theorem inv_pending {st : State} (h : Inv B st) (id : UUID) : InvPending B st id :=
  ⟨h.keys, h.recSession, h.recScope, h.recInScope, h.addrScope, h.specScope, h.ownerScopeSpec,
   h.cspecScopeSpec, h.ownerCSpec, fun p hp => Or.inr (h.voScope p hp), fun p hp => Or.inr (h.navScope p hp)⟩

theorem writeScopeToState_pending {st : State} (sc : Scope) (h : InvPending B st sc.id) :
    Inv B (writeScopeToState B st sc) where
  keys := by
    obtain ⟨h1, h2, h3, h4, h5, h6, h7⟩ := h.keys
    exact ⟨nodup_kput sc h1, h2, h3, h4, h5, h6, h7⟩
  recSession := h.recSession
  recScope := by
    intro r hr
    obtain ⟨y, hy, hyr⟩ := h.recScope r hr
    exact exists_key_kput.mpr (Or.inr ⟨y, hy, hyr⟩)
  recInScope := h.recInScope
  addrScope := by
    have := idxExact_kput (key := fun s : Scope => s.id) (vals := Scope.accts B) h.keys.1 h.addrScope sc
      (scopeIndexAddrs B sc) (optAddrs B (kget (·.id) st.scopes sc.id))
      (mem_scopeIndexAddrs sc) (fun b => optAddrs_kget b)
    exact this
  specScope := by
    have := idxExact_kput (key := fun s : Scope => s.id) (vals := fun s : Scope => [s.spec]) h.keys.1 h.specScope sc
      [sc.spec] (optSpec (kget (·.id) st.scopes sc.id))
      (by intro b; simp) (fun b => optSpec_kget b)
    exact this
  ownerScopeSpec := h.ownerScopeSpec
  cspecScopeSpec := h.cspecScopeSpec
  ownerCSpec := h.ownerCSpec
  voScope := by
    intro p hp
    rcases h.voScope p hp with e | ⟨y, hy, hyr⟩
    · exact exists_key_kput.mpr (Or.inl e)
    · exact exists_key_kput.mpr (Or.inr ⟨y, hy, hyr⟩)
  navScope := by
    intro p hp
    rcases h.navScope p hp with e | ⟨y, hy, hyr⟩
    · exact exists_key_kput.mpr (Or.inl e)
    · exact exists_key_kput.mpr (Or.inr ⟨y, hy, hyr⟩)

theorem pending_setNav {st : State} {id : UUID} (h : InvPending B st id) (d : String) :
    InvPending B (setNetAssetValue st id d) id :=
  { h with
    navScope := by
      intro p hp
      rcases mem_iset.mp hp with rfl | hp'
      · exact Or.inl rfl
      · exact h.navScope p hp' }

theorem pending_setVO {st : State} {id : UUID} (h : InvPending B st id) (a : Addr) (ha : a ≠ "") :
    InvPending B (setScopeValueOwner B st id a) id := by
  simp only [setScopeValueOwner, ha, if_false]
  split
  · exact h
  exact
  { h with
    keys := by
      obtain ⟨h1, h2, h3, h4, h5, h6, h7⟩ := h.keys
      exact ⟨h1, h2, h3, h4, h5, h6, nodup_kput (key := (·.1)) (id, B a) h7⟩
    voScope := by
      intro p hp
      rcases mem_kput.mp hp with rfl | ⟨hp', _⟩
      · exact Or.inl rfl
      · exact h.voScope p hp' }

/-- `SetScope` preserves the invariant, also when the value owner / a NAV of the written scope
was set just before -/
theorem setScope_pending {st : State} (sc : Scope) (vo : String) (h : InvPending B st sc.id) :
    Inv B (setScope B st sc vo) := by
  unfold setScope
  split
  · rename_i hvo
    exact writeScopeToState_pending sc (pending_setVO h vo hvo)
  · exact writeScopeToState_pending sc h

theorem setScope_inv {st : State} (h : Inv B st) (sc : Scope) (vo : String) : Inv B (setScope B st sc vo) :=
  setScope_pending sc vo (inv_pending h sc.id)

theorem setScopeValueOwner_frame (st : State) (id : UUID) (a : String) :
    (setScopeValueOwner B st id a).sessions = st.sessions ∧ (setScopeValueOwner B st id a).scopes = st.scopes ∧
    (setScopeValueOwner B st id a).records = st.records := by
  unfold setScopeValueOwner
  split
  · split <;> exact ⟨rfl, rfl, rfl⟩
  · split <;> exact ⟨rfl, rfl, rfl⟩

theorem setScope_frame (st : State) (sc : Scope) (vo : String) :
    (setScope B st sc vo).sessions = st.sessions ∧ (setScope B st sc vo).scopes = kput (·.id) sc st.scopes ∧
    (setScope B st sc vo).records = st.records := by
  unfold setScope
  split
  · obtain ⟨h1, h2, h3⟩ := setScopeValueOwner_frame st sc.id vo
    refine ⟨?_, ?_, ?_⟩
    · show (setScopeValueOwner B st sc.id vo).sessions = _; exact h1
    · show kput (·.id) sc (setScopeValueOwner B st sc.id vo).scopes = _; rw [h2]
    · show (setScopeValueOwner B st sc.id vo).records = _; exact h3
  · exact ⟨rfl, rfl, rfl⟩

/-- scope ids only grow under `setScope`; sessions are untouched -/
theorem setScope_sessionsHaveScope {st : State} (h : SessionsHaveScope st) (sc : Scope) (vo : String) :
    SessionsHaveScope (setScope B st sc vo) := by
  obtain ⟨h1, h2, _⟩ := setScope_frame st sc vo
  intro x hx
  rw [h1] at hx
  obtain ⟨y, hy, hyr⟩ := h x hx
  rw [h2]
  exact exists_key_kput.mpr (Or.inr ⟨y, hy, hyr⟩)

/-! ### sessions and records -/

theorem setSession_inv {st : State} (h : Inv B st) (x : Session) : Inv B (setSession st x) where
  keys := by
    obtain ⟨h1, h2, h3, h4, h5, h6, h7⟩ := h.keys
    exact ⟨h1, nodup_kput x h2, h3, h4, h5, h6, h7⟩
  recSession := by
    intro r hr
    obtain ⟨y, hy, hyr⟩ := h.recSession r hr
    exact exists_key_kput.mpr (Or.inr ⟨y, hy, hyr⟩)
  recScope := h.recScope
  recInScope := h.recInScope
  addrScope := h.addrScope
  specScope := h.specScope
  ownerScopeSpec := h.ownerScopeSpec
  cspecScopeSpec := h.cspecScopeSpec
  ownerCSpec := h.ownerCSpec
  voScope := h.voScope
  navScope := h.navScope

theorem setSession_sessionsHaveScope {st : State} (h : SessionsHaveScope st) (x : Session)
    (hx : ∃ sc ∈ st.scopes, sc.id = x.id.scope) : SessionsHaveScope (setSession st x) := by
  intro y hy
  rcases mem_kput.mp hy with rfl | ⟨hy', _⟩
  · exact hx
  · exact h y hy'

theorem sessionHasRecords_false {st : State} {id : SessionId} (hin : RecordsInSessionScope st)
    (h : sessionHasRecords st id = false) : ∀ r ∈ st.records, r.session ≠ id := by
  intro r hr e
  simp only [sessionHasRecords, List.any_eq_false, decide_eq_true_eq, not_and] at h
  exact h r hr (by rw [← hin r hr, e]) e

theorem removeSession_inv {st : State} (h : Inv B st) (id : SessionId) : Inv B (removeSession st id) := by
  unfold removeSession
  split
  · exact h
  · rename_i hc
    simp only [Bool.or_eq_true, Bool.not_eq_true', not_or, Bool.not_eq_false, Bool.not_eq_true] at hc
    have hno := sessionHasRecords_false h.recInScope hc.2
    exact
    { keys := by
        obtain ⟨h1, h2, h3, h4, h5, h6, h7⟩ := h.keys
        exact ⟨h1, nodup_kdel id h2, h3, h4, h5, h6, h7⟩
      recSession := by
        intro r hr
        obtain ⟨y, hy, hyr⟩ := h.recSession r hr
        exact ⟨y, mem_kdel.mpr ⟨hy, by rw [hyr]; exact hno r hr⟩, hyr⟩
      recScope := h.recScope
      recInScope := h.recInScope
      addrScope := h.addrScope
      specScope := h.specScope
      ownerScopeSpec := h.ownerScopeSpec
      cspecScopeSpec := h.cspecScopeSpec
      ownerCSpec := h.ownerCSpec
      voScope := h.voScope
      navScope := h.navScope }

/-- everything but the session list is the same state component -/
structure SameButSessRec (st st' : State) : Prop where
  scopes : st'.scopes = st.scopes
  scopeSpecs : st'.scopeSpecs = st.scopeSpecs
  contractSpecs : st'.contractSpecs = st.contractSpecs
  recordSpecs : st'.recordSpecs = st.recordSpecs
  idxAddrScope : st'.idxAddrScope = st.idxAddrScope
  idxSpecScope : st'.idxSpecScope = st.idxSpecScope
  idxAddrScopeSpec : st'.idxAddrScopeSpec = st.idxAddrScopeSpec
  idxCSpecScopeSpec : st'.idxCSpecScopeSpec = st.idxCSpecScopeSpec
  idxAddrCSpec : st'.idxAddrCSpec = st.idxAddrCSpec
  valueOwners : st'.valueOwners = st.valueOwners
  navs : st'.navs = st.navs
  sessSub : ∀ x ∈ st'.sessions, x ∈ st.sessions

theorem SameButSessRec.refl (st : State) : SameButSessRec st st :=
  ⟨rfl, rfl, rfl, rfl, rfl, rfl, rfl, rfl, rfl, rfl, rfl, fun _ h => h⟩

theorem SameButSessRec.trans {a b c : State} (h1 : SameButSessRec a b) (h2 : SameButSessRec b c) :
    SameButSessRec a c :=
  ⟨h2.scopes.trans h1.scopes, h2.scopeSpecs.trans h1.scopeSpecs, h2.contractSpecs.trans h1.contractSpecs,
   h2.recordSpecs.trans h1.recordSpecs, h2.idxAddrScope.trans h1.idxAddrScope,
   h2.idxSpecScope.trans h1.idxSpecScope, h2.idxAddrScopeSpec.trans h1.idxAddrScopeSpec,
   h2.idxCSpecScopeSpec.trans h1.idxCSpecScopeSpec, h2.idxAddrCSpec.trans h1.idxAddrCSpec,
   h2.valueOwners.trans h1.valueOwners, h2.navs.trans h1.navs, fun x hx => h1.sessSub x (h2.sessSub x hx)⟩

theorem removeSession_same (st : State) (id : SessionId) : SameButSessRec st (removeSession st id) := by
  unfold removeSession
  split
  · exact SameButSessRec.refl st
  · exact ⟨rfl, rfl, rfl, rfl, rfl, rfl, rfl, rfl, rfl, rfl, rfl, fun x hx => (mem_kdel.mp hx).1⟩

theorem removeSession_records (st : State) (id : SessionId) : (removeSession st id).records = st.records := by
  unfold removeSession; split <;> rfl

theorem removeSession_sessionsHaveScope {st : State} (h : SessionsHaveScope st) (id : SessionId) :
    SessionsHaveScope (removeSession st id) := by
  intro x hx
  have hs := removeSession_same st id
  obtain ⟨y, hy, hyr⟩ := h x (hs.sessSub x hx)
  exact ⟨y, by rw [hs.scopes]; exact hy, hyr⟩

theorem delRecord_inv {st : State} (h : Inv B st) (rid : RecordId) :
    Inv B { st with records := kdel (·.id) rid st.records } where
  keys := by
    obtain ⟨h1, h2, h3, h4, h5, h6, h7⟩ := h.keys
    exact ⟨h1, h2, nodup_kdel rid h3, h4, h5, h6, h7⟩
  recSession := fun r hr => h.recSession r (mem_kdel.mp hr).1
  recScope := fun r hr => h.recScope r (mem_kdel.mp hr).1
  recInScope := fun r hr => h.recInScope r (mem_kdel.mp hr).1
  addrScope := h.addrScope
  specScope := h.specScope
  ownerScopeSpec := h.ownerScopeSpec
  cspecScopeSpec := h.cspecScopeSpec
  ownerCSpec := h.ownerCSpec
  voScope := h.voScope
  navScope := h.navScope

theorem removeRecord_inv {st : State} (h : Inv B st) (rid : RecordId) : Inv B (removeRecord st rid) := by
  unfold removeRecord
  split
  · exact h
  · exact removeSession_inv (delRecord_inv h rid) _

theorem removeRecord_same (st : State) (rid : RecordId) : SameButSessRec st (removeRecord st rid) := by
  unfold removeRecord
  split
  · exact SameButSessRec.refl st
  · have h := removeSession_same { st with records := kdel (·.id) rid st.records } ‹Record›.session
    exact ⟨h.scopes, h.scopeSpecs, h.contractSpecs, h.recordSpecs, h.idxAddrScope, h.idxSpecScope,
      h.idxAddrScopeSpec, h.idxCSpecScopeSpec, h.idxAddrCSpec, h.valueOwners, h.navs, h.sessSub⟩

theorem removeRecord_records (st : State) (rid : RecordId) :
    (removeRecord st rid).records = kdel (·.id) rid st.records := by
  unfold removeRecord
  split
  · rename_i hn
    exact (kdel_eq_self (kget_none hn)).symm
  · rw [removeSession_records]

theorem removeRecord_sessionsHaveScope {st : State} (h : SessionsHaveScope st) (rid : RecordId) :
    SessionsHaveScope (removeRecord st rid) := by
  unfold removeRecord
  split
  · exact h
  · exact removeSession_sessionsHaveScope (st := { st with records := kdel (·.id) rid st.records }) h _

/-- the record walk of `RemoveScope` -/
def removeRecords (st : State) (recs : List Record) : State := recs.foldl (fun st r => removeRecord st r.id) st

theorem removeRecords_inv {st : State} (h : Inv B st) (recs : List Record) : Inv B (removeRecords st recs) := by
  unfold removeRecords
  induction recs generalizing st with
  | nil => exact h
  | cons a t ih => exact ih (removeRecord_inv h a.id)

theorem removeRecords_same (st : State) (recs : List Record) : SameButSessRec st (removeRecords st recs) := by
  unfold removeRecords
  induction recs generalizing st with
  | nil => exact SameButSessRec.refl st
  | cons a t ih => exact (removeRecord_same st a.id).trans (ih _)

theorem removeRecords_records (st : State) (recs : List Record) :
    ∀ r, r ∈ (removeRecords st recs).records ↔ r ∈ st.records ∧ ∀ q ∈ recs, r.id ≠ q.id := by
  unfold removeRecords
  induction recs generalizing st with
  | nil => simp
  | cons a t ih =>
    intro r
    simp only [List.foldl_cons, ih, removeRecord_records, mem_kdel, List.mem_cons, forall_eq_or_imp]
    tauto

theorem removeRecords_sessionsHaveScope {st : State} (h : SessionsHaveScope st) (recs : List Record) :
    SessionsHaveScope (removeRecords st recs) := by
  unfold removeRecords
  induction recs generalizing st with
  | nil => exact h
  | cons a t ih => exact ih (removeRecord_sessionsHaveScope h a.id)

theorem setRecord_inv {st : State} (h : Inv B st) (r : Record)
    (hs : ∃ x ∈ st.sessions, x.id = r.session) (hsc : ∃ sc ∈ st.scopes, sc.id = r.id.scope)
    (hin : r.session.scope = r.id.scope) : Inv B (setRecord st r) where
  keys := by
    obtain ⟨h1, h2, h3, h4, h5, h6, h7⟩ := h.keys
    exact ⟨h1, h2, nodup_kput r h3, h4, h5, h6, h7⟩
  recSession := by
    intro q hq
    rcases mem_kput.mp hq with rfl | ⟨hq', _⟩
    · exact hs
    · exact h.recSession q hq'
  recScope := by
    intro q hq
    rcases mem_kput.mp hq with rfl | ⟨hq', _⟩
    · exact hsc
    · exact h.recScope q hq'
  recInScope := by
    intro q hq
    rcases mem_kput.mp hq with rfl | ⟨hq', _⟩
    · exact hin
    · exact h.recInScope q hq'
  addrScope := h.addrScope
  specScope := h.specScope
  ownerScopeSpec := h.ownerScopeSpec
  cspecScopeSpec := h.cspecScopeSpec
  ownerCSpec := h.ownerCSpec
  voScope := h.voScope
  navScope := h.navScope

end PvProofs.MdLemmas
