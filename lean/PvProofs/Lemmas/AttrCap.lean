/-
C16 — the begin-block sweep with its per-block cap (`expireLoop`, `deleteExpiredAttributes s limit`):
the loop is a fold of `expireOne` over a PREFIX of the due entries (so everything proved of the
fold carries over), and it removes exactly `min(limit, number of expired attributes)` expired
attributes.  Nothing here depends on the order in which the due entries are visited
(`storeOrder` enters only through `mem_storeOrder`).
-/
import PvProofs.Lemmas.AttrSweep

set_option linter.unusedSimpArgs false
set_option linter.unusedVariables false

namespace PvProofs.Lemmas.AttrCap
open PvModel.Attr PvProofs.Lemmas.AttrStore PvProofs.Lemmas.AttrInv PvProofs.Lemmas.AttrSweep

/-! ### the loop is a fold over a prefix -/

theorem expireLoop_nil (limit c : Nat) (s : State) : expireLoop limit c [] s = s := by
  unfold expireLoop; rfl

theorem expireLoop_cons (limit c : Nat) (q : Nat × Key) (rest : List (Nat × Key)) (s : State) :
    expireLoop limit c (q :: rest) s =
      if limit ≠ 0 ∧ limit ≤ (if isLive s q then c + 1 else c) then expireOne s q
      else expireLoop limit (if isLive s q then c + 1 else c) rest (expireOne s q) := by
  rw [expireLoop]

theorem expireLoop_prefix (limit : Nat) : ∀ (l : List (Nat × Key)) (c : Nat) (s : State),
    ∃ k, expireLoop limit c l s = (l.take k).foldl expireOne s := by
  intro l
  induction l with
  | nil => intro c s; exact ⟨0, by rw [expireLoop_nil]; rfl⟩
  | cons q t ih =>
    intro c s
    rw [expireLoop_cons]
    by_cases hb : limit ≠ 0 ∧ limit ≤ (if isLive s q then c + 1 else c)
    · exact ⟨1, by rw [if_pos hb]; rfl⟩
    · obtain ⟨k, hk⟩ := ih (if isLive s q then c + 1 else c) (expireOne s q)
      exact ⟨k + 1, by rw [if_neg hb, hk]; rfl⟩

/-- Without a limit the loop visits every entry. -/
theorem expireLoop_zero : ∀ (l : List (Nat × Key)) (c : Nat) (s : State),
    expireLoop 0 c l s = l.foldl expireOne s := by
  intro l
  induction l with
  | nil => intro c s; rw [expireLoop_nil]; rfl
  | cons q t ih =>
    intro c s
    rw [expireLoop_cons, if_neg (by simp), ih]; rfl

/-! ### the visiting order is a rearrangement of the due entries -/

theorem mem_orderedInsert {α} (le : α → α → Bool) (a b : α) (l : List α) :
    b ∈ orderedInsert le a l ↔ (b = a ∨ b ∈ l) := by
  induction l with
  | nil => simp [orderedInsert]
  | cons x t ih =>
    unfold orderedInsert
    by_cases h : le a x = true
    · simp [h]
    · simp only [h, Bool.false_eq_true, if_false, List.mem_cons, ih]
      constructor
      · rintro (h1 | h1 | h1)
        · right; left; exact h1
        · left; exact h1
        · right; right; exact h1
      · rintro (h1 | h1 | h1)
        · right; left; exact h1
        · left; exact h1
        · right; right; exact h1

theorem mem_insertionSort {α} (le : α → α → Bool) (b : α) (l : List α) :
    b ∈ insertionSort le l ↔ b ∈ l := by
  induction l with
  | nil => simp [insertionSort]
  | cons x t ih => unfold insertionSort; rw [mem_orderedInsert, ih]; simp

theorem mem_storeOrder (l : List (Nat × Key)) (q : Nat × Key) : q ∈ storeOrder l ↔ q ∈ l := by
  unfold storeOrder
  simp only [List.mem_map, mem_insertionSort]
  constructor
  · rintro ⟨d, ⟨q', hq', rfl⟩, rfl⟩; exact hq'
  · intro h; exact ⟨decorate q, ⟨q, h, rfl⟩, rfl⟩

theorem mem_dueEntries (s : State) (q : Nat × Key) :
    q ∈ dueEntries s ↔ (q ∈ s.queue ∧ q.1 < s.now) := by
  unfold dueEntries
  rw [mem_storeOrder, List.mem_filter]
  simp

/-- What a begin-block sweep with cap `limit` at time `t` does, in the form the fold lemmas of
`AttrSweep` use: a fold of `expireOne` over some list of queue entries that are due. -/
theorem sweep_is_fold (s : State) (t limit : Nat) :
    ∃ l : List (Nat × Key), (∀ q ∈ l, q ∈ s.queue ∧ q.1 < t) ∧
      deleteExpiredAttributes { s with now := t } limit = l.foldl expireOne { s with now := t } := by
  unfold deleteExpiredAttributes
  obtain ⟨k, hk⟩ := expireLoop_prefix limit (dueEntries { s with now := t }) 0 { s with now := t }
  refine ⟨(dueEntries { s with now := t }).take k, ?_, hk⟩
  intro q hq
  exact (mem_dueEntries { s with now := t } q).mp (List.mem_of_mem_take hq)

/-! ### how many expired attributes one step removes -/

theorem filter_key_count {l : List Attribute} (hk : KeysUnique l) {a : Attribute} (ha : a ∈ l)
    (p : Attribute → Bool) :
    ((l.filter (fun r => decide (r.key ≠ a.key))).filter p).length + (if p a = true then 1 else 0) =
      (l.filter p).length := by
  induction l with
  | nil => cases ha
  | cons x t ih =>
    unfold KeysUnique at hk
    rw [List.pairwise_cons] at hk
    rcases List.mem_cons.mp ha with e | e
    · subst e
      have hall : t.filter (fun r => decide (r.key ≠ a.key)) = t := by
        rw [List.filter_eq_self]
        intro b hb
        simpa using (hk.1 b hb).symm
      simp only [List.filter_cons, ne_eq, not_true_eq_false, decide_false, Bool.false_eq_true, if_false, hall]
      by_cases hp : p a = true
      · simp [hp]
      · simp [hp]
    · have hne : x.key ≠ a.key := hk.1 a e
      have := ih hk.2 e
      simp only [ne_eq] at this
      simp only [List.filter_cons, ne_eq, hne, not_false_eq_true, decide_true, if_true]
      by_cases hp : p x = true
      · simp only [hp, if_true, List.length_cons]; omega
      · simp only [hp, Bool.false_eq_true, if_false]; exact this

theorem isLive_true {s : State} {q : Nat × Key} (h : isLive s q = true) :
    ∃ a, getAttr s q.2 = some a ∧ a.exp = some q.1 := by
  unfold isLive at h
  cases hg : getAttr s q.2 with
  | none => rw [hg] at h; cases h
  | some a => rw [hg] at h; exact ⟨a, rfl, by simpa using h⟩

theorem expireOne_live_recs {s : State} {q : Nat × Key} (h : isLive s q = true) :
    (expireOne s q).recs = s.recs.filter (fun r => decide (r.key ≠ q.2)) := by
  obtain ⟨a, hg, he⟩ := isLive_true h
  unfold expireOne
  simp [hg, he]

theorem expireOne_dead_recs {s : State} {q : Nat × Key} (h : isLive s q = false) :
    (expireOne s q).recs = s.recs := by
  unfold isLive at h
  unfold expireOne
  cases hg : getAttr s q.2 with
  | none => simp
  | some a =>
    rw [hg] at h
    have : ¬ a.exp = some q.1 := by simpa using h
    simp [this]

theorem expiredCount_live {s : State} (hi : Inv s) {q : Nat × Key} {t : Nat} (h : isLive s q = true)
    (hq : q.1 < t) : expiredCount (expireOne s q) t + 1 = expiredCount s t := by
  obtain ⟨a, hg, he⟩ := isLive_true h
  obtain ⟨ha, hka⟩ := getAttr_some hg
  unfold expiredCount
  rw [expireOne_live_recs h, ← hka]
  have := filter_key_count hi.keys ha (isExpired t)
  have hx : isExpired t a = true := by unfold isExpired; rw [he]; simpa using hq
  simpa [hx] using this

theorem expiredCount_dead {s : State} {q : Nat × Key} {t : Nat} (h : isLive s q = false) :
    expiredCount (expireOne s q) t = expiredCount s t := by
  unfold expiredCount; rw [expireOne_dead_recs h]

/-- The sweep loop removes exactly `min(limit - count, number of expired attributes)` expired
attributes (all of them without a limit), for every visiting order `l` that contains the queue
entry of every expired attribute. -/
theorem expireLoop_expiredCount (limit t : Nat) : ∀ (l : List (Nat × Key)) (c : Nat) (s : State),
    Inv s → (∀ q ∈ l, q.1 < t) →
    (∀ r ∈ s.recs, ∀ e, r.exp = some e → e < t → (e, r.key) ∈ l) →
    (limit ≠ 0 → c < limit) →
    expiredCount (expireLoop limit c l s) t = if limit = 0 then 0 else expiredCount s t - (limit - c) := by
  intro l
  induction l with
  | nil =>
    intro c s hi _ hc _
    rw [expireLoop_nil]
    have h0 : expiredCount s t = 0 := by
      unfold expiredCount
      rw [List.length_eq_zero_iff, List.filter_eq_nil_iff]
      intro r hr hx
      unfold isExpired at hx
      cases he : r.exp with
      | none => rw [he] at hx; cases hx
      | some e =>
        rw [he] at hx
        have := hc r hr e he (by simpa using hx)
        cases this
    rw [h0]; split <;> simp
  | cons q rest ih =>
    intro c s hi hlt hc hcl
    have hq : q.1 < t := hlt q List.mem_cons_self
    have hi' : Inv (expireOne s q) := expireOne_inv q hi
    have hlt' : ∀ q' ∈ rest, q'.1 < t := fun q' h => hlt q' (List.mem_cons_of_mem _ h)
    have hc' : ∀ r ∈ (expireOne s q).recs, ∀ e, r.exp = some e → e < t → (e, r.key) ∈ rest := by
      intro r hr e he het
      obtain ⟨hr1, hr2⟩ := (expireOne_recs hi q r).mp hr
      rcases List.mem_cons.mp (hc r hr1 e he het) with h1 | h1
      · exfalso
        apply hr2
        constructor
        · rw [← h1]
        · rw [he, ← h1]
      · exact h1
    rw [expireLoop_cons]
    cases hl : isLive s q with
    | true =>
      have hcnt := expiredCount_live hi hl hq
      simp only [if_true]
      by_cases hb : limit ≠ 0 ∧ limit ≤ c + 1
      · rw [if_pos hb]
        have := hcl hb.1
        rw [if_neg hb.1]
        omega
      · rw [if_neg hb]
        have hcl' : limit ≠ 0 → c + 1 < limit := by
          intro h0
          have := hcl h0
          by_cases h1 : limit ≤ c + 1
          · exact absurd ⟨h0, h1⟩ hb
          · omega
        rw [ih (c + 1) (expireOne s q) hi' hlt' hc' hcl']
        by_cases h0 : limit = 0
        · simp [h0]
        · have := hcl' h0
          simp only [h0, if_false]
          omega
    | false =>
      have hcnt := expiredCount_dead (t := t) hl
      simp only [Bool.false_eq_true, if_false]
      have hb : ¬ (limit ≠ 0 ∧ limit ≤ c) := by
        rintro ⟨h0, h1⟩
        have := hcl h0
        omega
      rw [if_neg hb, ih c (expireOne s q) hi' hlt' hc' hcl, hcnt]

/-- A sweep with cap `limit` at time `t` from a state that satisfies the store invariants leaves
`expired - limit` expired attributes (none when `limit = 0` or `expired ≤ limit`). -/
theorem sweep_expiredCount {s : State} (hi : Inv s) (t limit : Nat) :
    expiredCount (deleteExpiredAttributes { s with now := t } limit) t =
      if limit = 0 then 0 else expiredCount s t - limit := by
  have hi0 : Inv { s with now := t } := ⟨hi.keys, hi.cntGe, hi.bound, hi.queueComplete⟩
  unfold deleteExpiredAttributes
  have := expireLoop_expiredCount limit t (dueEntries { s with now := t }) 0 { s with now := t } hi0
    (fun q hq => ((mem_dueEntries _ q).mp hq).2)
    (by
      intro r hr e he het
      rw [mem_dueEntries]
      exact ⟨hi.queueComplete r hr e he, het⟩)
    (by intro h; omega)
  rw [this]
  rfl

theorem expiredGone_iff (t : Nat) (s : State) : expiredGone t s = true ↔ expiredCount s t = 0 := by
  unfold expiredGone expiredCount
  rw [List.length_eq_zero_iff, List.filter_eq_nil_iff, List.all_eq_true]
  constructor
  · intro h r hr hx
    have := h r hr
    unfold isExpired at hx
    cases he : r.exp with
    | none => rw [he] at hx; cases hx
    | some e =>
      rw [he] at hx this
      simp only [decide_eq_true_eq] at hx this
      omega
  · intro h r hr
    have := h r hr
    unfold isExpired at this
    cases he : r.exp with
    | none => rfl
    | some e =>
      rw [he] at this
      simp only [decide_eq_true_eq] at this ⊢
      omega

end PvProofs.Lemmas.AttrCap
