/-
Helper lemmas for C14: "nothing missing" for the two by-owner lookups of specifications
(`OwnerComplete`) is preserved by every operation whose specification-owner texts satisfy a
predicate `P` on which `B` is injective (one spelling per account).  Operations other than the
specification writes/removals do not touch the specifications or their owner indexes.
-/
import PvProofs.Lemmas.MdStoreMsgs

namespace PvProofs.MdLemmas
open PvModel.MdStore

variable {B : Addr → Addr}

/-- keep only the accepted branches of an unfolded handler -/
local macro "ok_branches" hr:ident : tactic =>
  `(tactic| ((repeat' split at $hr:ident) <;> first | cases $hr:ident | skip))

/-- the specifications and their two by-owner indexes are the same in both states -/
def SpecPartEq (st st' : State) : Prop :=
  st'.scopeSpecs = st.scopeSpecs ∧ st'.contractSpecs = st.contractSpecs ∧
  st'.idxAddrScopeSpec = st.idxAddrScopeSpec ∧ st'.idxAddrCSpec = st.idxAddrCSpec

theorem SpecPartEq.refl (st : State) : SpecPartEq st st := ⟨rfl, rfl, rfl, rfl⟩

theorem SpecPartEq.trans {a b c : State} (h1 : SpecPartEq a b) (h2 : SpecPartEq b c) : SpecPartEq a c :=
  ⟨h2.1.trans h1.1, h2.2.1.trans h1.2.1, h2.2.2.1.trans h1.2.2.1, h2.2.2.2.trans h1.2.2.2⟩

theorem SpecPartEq.of_same {a b : State} (h : SameButSessRec a b) : SpecPartEq a b :=
  ⟨h.scopeSpecs, h.contractSpecs, h.idxAddrScopeSpec, h.idxAddrCSpec⟩

theorem ownerComplete_of_specPartEq {P : Addr → Prop} {st st' : State} (h : SpecPartEq st st')
    (hc : OwnerComplete B P st) : OwnerComplete B P st' := by
  obtain ⟨h1, h2, h3, h4⟩ := h
  refine ⟨?_, ?_, ?_, ?_⟩
  · rw [h1]; exact hc.scopeSpecOwners
  · rw [h2]; exact hc.contractSpecOwners
  · unfold OwnerScopeSpecComplete; rw [h1, h3]; exact hc.ownerScopeSpec
  · unfold OwnerCSpecComplete; rw [h2, h4]; exact hc.ownerCSpec

/-! ### frames -/

theorem setScopeValueOwner_specPart (st : State) (id : UUID) (a : String) :
    SpecPartEq st (setScopeValueOwner B st id a) := by
  unfold setScopeValueOwner
  split
  · split <;> exact ⟨rfl, rfl, rfl, rfl⟩
  · split <;> exact ⟨rfl, rfl, rfl, rfl⟩

theorem writeScopeToState_specPart (st : State) (sc : Scope) : SpecPartEq st (writeScopeToState B st sc) :=
  ⟨rfl, rfl, rfl, rfl⟩

theorem setScope_specPart (st : State) (sc : Scope) (vo : String) : SpecPartEq st (setScope B st sc vo) := by
  unfold setScope
  split
  · exact (setScopeValueOwner_specPart st sc.id vo).trans (writeScopeToState_specPart _ sc)
  · exact writeScopeToState_specPart st sc

theorem setScopeValueOwners_specPart (st : State) (ids : List UUID) (a : Addr) :
    SpecPartEq st (setScopeValueOwners st ids a) := by
  unfold setScopeValueOwners
  induction ids generalizing st with
  | nil => exact SpecPartEq.refl st
  | cons id t ih =>
    simp only [List.foldl_cons]
    exact SpecPartEq.trans (b := { st with valueOwners := kput (·.1) (id, a) st.valueOwners }) ⟨rfl, rfl, rfl, rfl⟩ (ih _)

theorem removeScope_specPart (st : State) (id : UUID) : SpecPartEq st (removeScope B st id) := by
  unfold removeScope
  split
  · exact SpecPartEq.refl st
  · have h1 := (setScopeValueOwner_empty_same (B := B) st id).1
    have hw := removeRecords_same (setScopeValueOwner B st id "")
      ((setScopeValueOwner B st id "").records.filter (fun r => r.id.scope = id))
    exact ⟨hw.scopeSpecs.trans h1.scopeSpecs, hw.contractSpecs.trans h1.contractSpecs,
      hw.idxAddrScopeSpec.trans h1.idxAddrScopeSpec, hw.idxAddrCSpec.trans h1.idxAddrCSpec⟩

/-! ### specification writes and removals -/

theorem setScopeSpecification_ownerComplete {P : Addr → Prop}
    (hinj : ∀ a a', P a → P a' → B a = B a' → a = a') {st : State} (h : Inv B st)
    (hc : OwnerComplete B P st) (sp : ScopeSpec) (hsp : ∀ a ∈ sp.owners, P a) :
    OwnerComplete B P (setScopeSpecification B st sp) where
  scopeSpecOwners := by
    intro sp' hsp' a ha
    rcases mem_kput.mp hsp' with rfl | ⟨hin, _⟩
    · exact hsp a ha
    · exact hc.scopeSpecOwners sp' hin a ha
  contractSpecOwners := hc.contractSpecOwners
  ownerScopeSpec := by
    have hP : ∀ a, (a ∈ sp.owners ∨ a ∈ optOwnersP (kget (·.id) st.scopeSpecs sp.id)) → P a := by
      rintro a (ha | ha)
      · exact hsp a ha
      · obtain ⟨o, ho, hao⟩ := (optOwnersP_kget a).mp ha
        exact hc.scopeSpecOwners o (kget_some ho).1 a hao
    have := idxComplete_kputVia (key := fun s : ScopeSpec => s.id) (tv := fun s : ScopeSpec => s.owners) (f := B)
      h.keys.2.2.2.1 hc.ownerScopeSpec sp sp.owners (optOwnersP (kget (·.id) st.scopeSpecs sp.id))
      (fun _ => Iff.rfl) (fun b => optOwnersP_kget b)
      (fun a a' ha ha' e => hinj a a' (hP a ha) (hP a' ha') e)
    exact this
  ownerCSpec := hc.ownerCSpec

theorem removeScopeSpecification_ownerComplete {P : Addr → Prop} {st st' : State}
    (hc : OwnerComplete B P st) (id : UUID) (hr : removeScopeSpecification B st id = .ok st') :
    OwnerComplete B P st' := by
  unfold removeScopeSpecification at hr
  split at hr
  · cases hr
  · split at hr
    · cases hr
    · rename_i sp hsp
      cases hr
      have e : sp.id = id := (kget_some hsp).2
      exact
      { scopeSpecOwners := fun sp' hsp' => hc.scopeSpecOwners sp' (mem_kdel.mp hsp').1
        contractSpecOwners := hc.contractSpecOwners
        ownerScopeSpec := by
          have := idxComplete_kdelVia (key := fun s : ScopeSpec => s.id) (tv := fun s : ScopeSpec => s.owners)
            (f := B) hc.ownerScopeSpec id sp.owners
          simpa [OwnerScopeSpecComplete, indexScopeSpecification, optOwnersP, e] using this
        ownerCSpec := hc.ownerCSpec }

theorem setContractSpecification_ownerComplete {P : Addr → Prop}
    (hinj : ∀ a a', P a → P a' → B a = B a' → a = a') {st : State} (h : Inv B st)
    (hc : OwnerComplete B P st) (sp : ContractSpec) (hsp : ∀ a ∈ sp.owners, P a) :
    OwnerComplete B P (setContractSpecification B st sp) where
  scopeSpecOwners := hc.scopeSpecOwners
  contractSpecOwners := by
    intro sp' hsp' a ha
    rcases mem_kput.mp hsp' with rfl | ⟨hin, _⟩
    · exact hsp a ha
    · exact hc.contractSpecOwners sp' hin a ha
  ownerScopeSpec := hc.ownerScopeSpec
  ownerCSpec := by
    have hP : ∀ a, (a ∈ sp.owners ∨ a ∈ optOwnersC (kget (·.id) st.contractSpecs sp.id)) → P a := by
      rintro a (ha | ha)
      · exact hsp a ha
      · obtain ⟨o, ho, hao⟩ := (optOwnersC_kget a).mp ha
        exact hc.contractSpecOwners o (kget_some ho).1 a hao
    have := idxComplete_kputVia (key := fun s : ContractSpec => s.id) (tv := fun s : ContractSpec => s.owners) (f := B)
      h.keys.2.2.2.2.1 hc.ownerCSpec sp sp.owners (optOwnersC (kget (·.id) st.contractSpecs sp.id))
      (fun _ => Iff.rfl) (fun b => optOwnersC_kget b)
      (fun a a' ha ha' e => hinj a a' (hP a ha) (hP a' ha') e)
    exact this

theorem removeContractSpecification_ownerComplete {P : Addr → Prop} {st st' : State}
    (hc : OwnerComplete B P st) (id : UUID) (hr : removeContractSpecification B st id = .ok st') :
    OwnerComplete B P st' := by
  unfold removeContractSpecification at hr
  split at hr
  · cases hr
  · split at hr
    · cases hr
    · rename_i sp hsp
      cases hr
      have e : sp.id = id := (kget_some hsp).2
      exact
      { scopeSpecOwners := hc.scopeSpecOwners
        contractSpecOwners := fun sp' hsp' => hc.contractSpecOwners sp' (mem_kdel.mp hsp').1
        ownerScopeSpec := hc.ownerScopeSpec
        ownerCSpec := by
          have := idxComplete_kdelVia (key := fun s : ContractSpec => s.id) (tv := fun s : ContractSpec => s.owners)
            (f := B) hc.ownerCSpec id sp.owners
          simpa [OwnerCSpecComplete, indexContractSpecification, optOwnersC, e] using this }

/-! ### every operation -/

/-- Every operation whose specification-owner texts satisfy `P` preserves `OwnerComplete`, when `B`
is injective on `P` and `RemoveScope` does not touch the specifications. -/
theorem applyOpWith_ownerComplete {P : Addr → Prop} (hinj : ∀ a a', P a → P a' → B a = B a' → a = a')
    (rm : State → UUID → State) (hrm : ∀ st id, SpecPartEq st (rm st id))
    (H : String → NameKey) {st st' : State} (h : Inv B st) (hc : OwnerComplete B P st) (op : Op)
    (hop : ∀ a ∈ op.specOwnerTexts, P a) (hr : applyOpWith B rm H st op = .ok st') :
    OwnerComplete B P st' := by
  cases op <;> simp only [applyOpWith] at hr
  case writeScopeSpec sp =>
    simp only [writeScopeSpecification] at hr
    ok_branches hr
    exact setScopeSpecification_ownerComplete hinj h hc sp hop
  case deleteScopeSpec id =>
    simp only [deleteScopeSpecification] at hr
    split at hr
    · cases hr
    · exact removeScopeSpecification_ownerComplete hc id hr
  case writeContractSpec sp =>
    simp only [writeContractSpecification] at hr
    ok_branches hr
    exact setContractSpecification_ownerComplete hinj h hc sp hop
  case deleteContractSpec id =>
    simp only [deleteContractSpecification] at hr
    split at hr
    · cases hr
    · exact removeContractSpecification_ownerComplete
        (ownerComplete_of_specPartEq (st := st) (st' := { st with recordSpecs := st.recordSpecs.filter (fun r => r.id.cspec ≠ id) })
          ⟨rfl, rfl, rfl, rfl⟩ hc) id hr
  case addCSpecToScopeSpec c p =>
    simp only [addContractSpecToScopeSpec] at hr
    ok_branches hr
    rename_i sp hsp _
    exact setScopeSpecification_ownerComplete hinj h hc _ (hc.scopeSpecOwners sp (kget_some hsp).1)
  case delCSpecFromScopeSpec c p =>
    simp only [deleteContractSpecFromScopeSpec] at hr
    ok_branches hr
    rename_i sp hsp _
    exact setScopeSpecification_ownerComplete hinj h hc _ (hc.scopeSpecOwners sp (kget_some hsp).1)
  case writeRecordSpec =>
    simp only [writeRecordSpecification, setRecordSpecification] at hr
    ok_branches hr
    all_goals exact ownerComplete_of_specPartEq (st := st) ⟨rfl, rfl, rfl, rfl⟩ hc
  case deleteRecordSpec =>
    simp only [deleteRecordSpecification, removeRecordSpecification] at hr
    ok_branches hr
    exact ownerComplete_of_specPartEq (st := st) ⟨rfl, rfl, rfl, rfl⟩ hc
  case writeScope sc vo m =>
    simp only [writeScope] at hr
    ok_branches hr
    all_goals first
      | exact ownerComplete_of_specPartEq (st := st) (setScope_specPart st sc vo) hc
      | exact ownerComplete_of_specPartEq (st := st)
          (SpecPartEq.trans (b := setNetAssetValue st sc.id "usd") ⟨rfl, rfl, rfl, rfl⟩ (setScope_specPart _ sc vo)) hc
  case deleteScope id =>
    simp only [deleteScopeWith] at hr
    split at hr
    · cases hr
    · cases hr
      exact ownerComplete_of_specPartEq (st := st) (SpecPartEq.trans (hrm st id) ⟨rfl, rfl, rfl, rfl⟩) hc
  case addDataAccess =>
    simp only [addScopeDataAccess] at hr
    ok_branches hr
    exact ownerComplete_of_specPartEq (st := st) (setScope_specPart _ _ _) hc
  case delDataAccess =>
    simp only [deleteScopeDataAccess] at hr
    ok_branches hr
    exact ownerComplete_of_specPartEq (st := st) (setScope_specPart _ _ _) hc
  case addOwners =>
    simp only [addScopeOwner] at hr
    ok_branches hr
    exact ownerComplete_of_specPartEq (st := st) (setScope_specPart _ _ _) hc
  case delOwners =>
    simp only [deleteScopeOwner] at hr
    ok_branches hr
    exact ownerComplete_of_specPartEq (st := st) (setScope_specPart _ _ _) hc
  case updateValueOwners =>
    simp only [updateValueOwners] at hr
    ok_branches hr
    exact ownerComplete_of_specPartEq (st := st) (setScopeValueOwners_specPart _ _ _) hc
  case migrateValueOwner =>
    simp only [migrateValueOwner] at hr
    ok_branches hr
    exact ownerComplete_of_specPartEq (st := st) (setScopeValueOwners_specPart _ _ _) hc
  case writeSession x =>
    simp only [writeSession, setSession] at hr
    ok_branches hr
    all_goals exact ownerComplete_of_specPartEq (st := st) ⟨rfl, rfl, rfl, rfl⟩ hc
  case writeRecord sid n g =>
    simp only [writeRecord] at hr
    ok_branches hr
    all_goals first
      | exact ownerComplete_of_specPartEq (st := st)
          (SpecPartEq.trans (b := setRecord st _) ⟨rfl, rfl, rfl, rfl⟩ (SpecPartEq.of_same (removeSession_same _ _))) hc
      | exact ownerComplete_of_specPartEq (st := st) (st' := setRecord st _) ⟨rfl, rfl, rfl, rfl⟩ hc
  case deleteRecord =>
    simp only [deleteRecord] at hr
    ok_branches hr
    exact ownerComplete_of_specPartEq (st := st) (SpecPartEq.of_same (removeRecord_same _ _)) hc
  case addNav =>
    simp only [addNetAssetValues] at hr
    ok_branches hr
    exact ownerComplete_of_specPartEq (st := st) (st' := setNetAssetValue st _ "usd") ⟨rfl, rfl, rfl, rfl⟩ hc
  case keeperRemoveSession =>
    cases hr
    exact ownerComplete_of_specPartEq (st := st) (SpecPartEq.of_same (removeSession_same _ _)) hc

end PvProofs.MdLemmas
