/-
Helper lemmas for C17: the invariant tying a history's log (what was detected, what was executed)
to the store, preserved by every operation.
-/
import PvProofs.Lemmas.TrigBlock

namespace PvProofs.Lemmas.Trig
open PvModel.Trig

/-- History invariant: the store is well formed; everything detected so far is, in detection order,
what was executed so far followed by what is still queued; executed ids are gone; nothing was
detected twice. -/
structure HInv (s : State) (log : List Out) : Prop where
  wf : WF s
  fifo : detectedIds log = executedIds log ++ qIds s
  gone : ∀ id ∈ executedIds log, s.triggers id = none ∧ id < s.nextId
  nodup : (detectedIds log).Nodup

theorem HInv_init : HInv State.init [] :=
  ⟨WF_init, by simp [detectedIds, executedIds, qIds, qList, qFrom, State.init], by simp [executedIds],
   by simp [detectedIds]⟩

theorem executedIds_snoc (log : List Out) (o : Out) :
    executedIds (log ++ [o]) = executedIds log ++ o.executedIds := by
  simp [executedIds]

theorem detectedIds_snoc (log : List Out) (o : Out) :
    detectedIds (log ++ [o]) = detectedIds log ++ o.detectedIds := by
  simp [detectedIds]

/-- an operation that neither detects nor executes, keeps the queue, the next id, and only
removes registrations -/
theorem HInv_quiet {s s' : State} {log : List Out} (h : HInv s log) (o : Out)
    (ho1 : o.executedIds = []) (ho2 : o.detectedIds = []) (hw : WF s') (hq : qIds s' = qIds s)
    (hn : s.nextId ≤ s'.nextId) (ht : ∀ id, id < s.nextId → s.triggers id = none → s'.triggers id = none) :
    HInv s' (log ++ [o]) := by
  refine ⟨hw, ?_, ?_, ?_⟩
  · rw [detectedIds_snoc, executedIds_snoc, ho1, ho2, hq]; simpa using h.fifo
  · intro id hid
    rw [executedIds_snoc, ho1, List.append_nil] at hid
    have := h.gone id hid
    exact ⟨ht id this.2 this.1, by omega⟩
  · rw [detectedIds_snoc, ho2, List.append_nil]; exact h.nodup

theorem HInv_step {s : State} {log : List Out} (h : HInv s log) (op : Op) :
    HInv (step s op).1 (log ++ [(step s op).2]) := by
  cases op with
  | fund a amt =>
    exact HInv_quiet h _ rfl rfl (WF_bal h.wf _) rfl (Nat.le_refl _) (fun _ _ h' => h')
  | pay f t amt =>
    simp only [step]
    split
    · next s' hs =>
      obtain ⟨b, hb⟩ := bankSend_ok hs
      subst hb
      exact HInv_quiet h _ rfl rfl (WF_bal h.wf _) rfl (Nat.le_refl _) (fun _ _ h' => h')
    · exact HInv_quiet h _ rfl rfl h.wf rfl (Nat.le_refl _) (fun _ _ h' => h')
  | create m rem hh tm =>
    simp only [step]
    split
    · next s' id g hc =>
      have hw' := WF_createTrigger h.wf hc
      obtain ⟨_, _, _, _, _, owner, rest, _, hs⟩ := createTrigger_ok hc
      subst hs
      refine HInv_quiet h _ rfl rfl hw' rfl (Nat.le_succ _) ?_
      intro i hi hnone
      show (if i = s.nextId then some _ else s.triggers i) = none
      rw [if_neg (by omega)]; exact hnone
    · exact HInv_quiet h _ rfl rfl h.wf rfl (Nat.le_refl _) (fun _ _ h' => h')
  | destroy auth id =>
    simp only [step]
    split
    · next s' hd =>
      obtain ⟨hw', hf⟩ := WF_destroyTrigger h.wf hd
      refine HInv_quiet h _ rfl rfl hw' hf.qIds (by rw [hf.nextId]; exact Nat.le_refl _) ?_
      intro i _ hnone
      rcases hf.trig i with e | e
      · rw [e]; exact hnone
      · exact e
    · exact HInv_quiet h _ rfl rfl h.wf rfl (Nat.le_refl _) (fun _ _ h' => h')
  | beginBlock oog =>
    simp only [step, processTriggers]
    obtain ⟨s', xs, hp, hw', hql, hids, _, _, hnx, htr, _, _, _, _, _, _⟩ :=
      processLoop_spec oog MaximumActions 0 s h.wf
    rw [hp]
    have hq : qIds s = xs.map (·.id) ++ qIds s' := by
      unfold qIds; rw [hids]; conv_lhs => rw [hql]
      simp
    refine ⟨hw', ?_, ?_, ?_⟩
    · rw [detectedIds_snoc, executedIds_snoc]
      simp only [Out.detectedIds, Out.executedIds, List.append_nil]
      rw [h.fifo, hq, List.append_assoc]
    · intro id hid
      rw [executedIds_snoc] at hid
      simp only [Out.executedIds] at hid
      have key : s.triggers id = none ∧ id < s.nextId := by
        rcases List.mem_append.1 hid with hid | hid
        · exact h.gone id hid
        · have : id ∈ qIds s := by rw [hq]; exact List.mem_append_left _ hid
          obtain ⟨x, hx, e⟩ := List.mem_map.1 this
          have := h.wf.q x hx
          rw [e] at this; exact ⟨this.1, this.2.2⟩
      refine ⟨?_, by rw [hnx]; exact key.2⟩
      rcases htr id with e | e
      · rw [e]; exact key.1
      · exact e
    · rw [detectedIds_snoc]; simp only [Out.detectedIds, List.append_nil]; exact h.nodup
  | endBlock evs hh tm =>
    simp only [step, detectBlockEvents]
    split
    · next s' ts hd =>
      split at hd
      · next ts' hda =>
        cases hd
        obtain ⟨hnd, hreg⟩ := detectAll_spec h.wf hda
        obtain ⟨hw', hl, hnx, htr, _, _⟩ :=
          queueDetected_spec hh tm ts s h.wf hnd (fun t ht => (hreg t ht).1)
        have hq : qIds (queueDetected hh tm s ts) = qIds s ++ ts.map (·.id) := by
          unfold qIds; rw [hl]; simp [Function.comp_def]
        refine ⟨hw', ?_, ?_, ?_⟩
        · rw [detectedIds_snoc, executedIds_snoc]
          simp only [Out.detectedIds, Out.executedIds, List.append_nil]
          rw [h.fifo, hq, List.append_assoc]
        · intro id hid
          rw [executedIds_snoc] at hid
          simp only [Out.executedIds, List.append_nil] at hid
          have := h.gone id hid
          refine ⟨?_, by rw [hnx]; exact this.2⟩
          rw [htr]; split
          · rfl
          · exact this.1
        · rw [detectedIds_snoc]
          simp only [Out.detectedIds]
          refine List.nodup_append.2 ⟨h.nodup, hnd, ?_⟩
          intro a ha b hb e
          subst e
          obtain ⟨t, ht, e⟩ := List.mem_map.1 hb
          have hr := (hreg t ht).1
          rw [e] at hr
          rw [h.fifo] at ha
          rcases List.mem_append.1 ha with ha | ha
          · have := (h.gone a ha).1; rw [hr] at this; cases this
          · obtain ⟨x, hx, e'⟩ := List.mem_map.1 ha
            have := (h.wf.q x hx).1; rw [e', hr] at this; cases this
      · cases hd
    · exact HInv_quiet h _ rfl rfl h.wf rfl (Nat.le_refl _) (fun _ _ h' => h')

theorem HInv_run : ∀ (ops : List Op) (s : State) (log : List Out), HInv s log →
    HInv (run s ops).1 (log ++ (run s ops).2)
  | [], s, log, h => by simpa [run] using h
  | op :: ops, s, log, h => by
    have := HInv_run ops (step s op).1 (log ++ [(step s op).2]) (HInv_step h op)
    simpa [run, List.append_assoc] using this

theorem HInv_reach (ops : List Op) : HInv (run State.init ops).1 (run State.init ops).2 := by
  simpa using HInv_run ops State.init [] HInv_init

/-! ### life cycle: registrations only of fresh ids, queueing only of registered triggers -/

structure Mono (s s' : State) : Prop where
  next : s.nextId ≤ s'.nextId
  reg : ∀ id t, s'.triggers id = some t → s.triggers id = some t ∨ s.nextId ≤ id
  que : ∀ id, id ∈ qIds s' → id ∈ qIds s ∨ (s.triggers id).isSome = true

theorem Mono.refl (s : State) : Mono s s := ⟨Nat.le_refl _, fun _ _ h => Or.inl h, fun _ h => Or.inl h⟩

theorem Mono_of_frame {s s' : State} (hf : Frame s s') : Mono s s' := by
  refine ⟨by rw [hf.nextId]; exact Nat.le_refl _, ?_, ?_⟩
  · intro id t h
    rcases hf.trig id with e | e
    · exact Or.inl (e ▸ h)
    · rw [e] at h; cases h
  · intro id h
    left; rw [← hf.qIds]; exact h

theorem Mono_step {s : State} (hw : WF s) (op : Op) : Mono s (step s op).1 := by
  cases op with
  | fund a amt => exact Mono_of_frame (Frame_bal s _)
  | pay f t amt =>
    simp only [step]
    split
    · next s' hs => obtain ⟨b, hb⟩ := bankSend_ok hs; subst hb; exact Mono_of_frame (Frame_bal s _)
    · exact Mono.refl s
  | create m rem hh tm =>
    simp only [step]
    split
    · next s' id g hc =>
      obtain ⟨_, _, _, _, _, owner, rest, _, hs⟩ := createTrigger_ok hc
      subst hs
      refine ⟨Nat.le_succ _, ?_, fun id h => Or.inl h⟩
      intro id t h
      change (if id = s.nextId then some _ else s.triggers id) = some t at h
      split at h
      · next e => exact Or.inr (by omega)
      · exact Or.inl h
    · exact Mono.refl s
  | destroy auth id =>
    simp only [step]
    split
    · next s' hd => exact Mono_of_frame (WF_destroyTrigger hw hd).2
    · exact Mono.refl s
  | beginBlock oog =>
    simp only [step, processTriggers]
    obtain ⟨s', xs, hp, _, hql, _, _, _, hnx, htr, _⟩ := processLoop_spec oog MaximumActions 0 s hw
    rw [hp]
    refine ⟨by rw [hnx]; exact Nat.le_refl _, ?_, ?_⟩
    · intro id t h
      rcases htr id with e | e
      · exact Or.inl (e ▸ h)
      · rw [e] at h; cases h
    · intro id h
      left
      obtain ⟨x, hx, e⟩ := List.mem_map.1 h
      exact List.mem_map.2 ⟨x, by rw [hql]; exact List.mem_append_right _ hx, e⟩
  | endBlock evs hh tm =>
    simp only [step, detectBlockEvents]
    split
    · next s' ts hd =>
      split at hd
      · next ts' hda =>
        cases hd
        obtain ⟨hnd, hreg⟩ := detectAll_spec hw hda
        obtain ⟨_, hl, hnx, htr, _, _⟩ := queueDetected_spec hh tm ts s hw hnd (fun t ht => (hreg t ht).1)
        refine ⟨by rw [hnx]; exact Nat.le_refl _, ?_, ?_⟩
        · intro id t h
          rw [htr] at h
          split at h
          · cases h
          · exact Or.inl h
        · intro id h
          have : qIds (queueDetected hh tm s ts) = qIds s ++ ts.map (·.id) := by
            unfold qIds; rw [hl]; simp [Function.comp_def]
          rw [this] at h
          rcases List.mem_append.1 h with h | h
          · exact Or.inl h
          · obtain ⟨t, ht, e⟩ := List.mem_map.1 h
            right; rw [← e, (hreg t ht).1]; rfl
      · cases hd
    · exact Mono.refl s

/-- A trigger id only moves forward: unborn → waiting → queued → gone. -/
theorem place_rank_le {s s' : State} (hw : WF s) (hm : Mono s s') (id : Nat) :
    (place s id).rank ≤ (place s' id).rank := by
  have hq : ∀ i, i ∈ qIds s → s.triggers i = none ∧ 1 ≤ i ∧ i < s.nextId := by
    intro i hi
    obtain ⟨x, hx, e⟩ := List.mem_map.1 hi
    have := hw.q x hx; rwa [e] at this
  unfold place registered queued
  by_cases h1 : (s.triggers id).isSome = true
  · -- waiting
    obtain ⟨t, ht⟩ := Option.isSome_iff_exists.1 h1
    have hb := hw.trig id t ht
    simp only [h1, if_true]
    split
    · exact Nat.le_refl _
    · split
      · decide
      · split
        · decide
        · next hne => exact absurd ⟨hb.2.1, Nat.lt_of_lt_of_le hb.2.2 hm.next⟩ hne
  · simp only [h1, Bool.false_eq_true, if_false]
    have hnone : s.triggers id = none := by simpa using h1
    by_cases h2 : (qIds s).contains id = true
    · -- queued
      have hb := hq id (by simpa using h2)
      simp only [h2, if_true]
      have hnr : ¬ (s'.triggers id).isSome = true := by
        intro h
        obtain ⟨t, ht⟩ := Option.isSome_iff_exists.1 h
        rcases hm.reg id t ht with e | e
        · rw [hnone] at e; cases e
        · omega
      simp only [hnr, Bool.false_eq_true, if_false]
      split
      · exact Nat.le_refl _
      · split
        · decide
        · next hne => exact absurd ⟨hb.2.1, Nat.lt_of_lt_of_le hb.2.2 hm.next⟩ hne
    · simp only [h2, Bool.false_eq_true, if_false]
      split
      · next hg =>
        -- gone stays gone
        have hnr : ¬ (s'.triggers id).isSome = true := by
          intro h
          obtain ⟨t, ht⟩ := Option.isSome_iff_exists.1 h
          rcases hm.reg id t ht with e | e
          · rw [hnone] at e; cases e
          · omega
        have hnq : ¬ (qIds s').contains id = true := by
          intro h
          rcases hm.que id (by simpa using h) with e | e
          · exact h2 (by simpa using e)
          · exact h1 e
        simp only [hnr, hnq, Bool.false_eq_true, if_false]
        rw [if_pos ⟨hg.1, Nat.lt_of_lt_of_le hg.2 hm.next⟩]
        exact Nat.le_refl _
      · exact Nat.zero_le _

/-! ### provenance: every stored trigger was put there by a validated create message -/

theorem stored_step {s : State} (hw : WF s) (op : Op) (t : Trigger) (h : stored (step s op).1 t) :
    stored s t ∨ ∃ m rem hh tm, op = .create m rem hh tm ∧ m.validateBasic = .ok () ∧
      ∃ owner rest, m.authorities = owner :: rest ∧ t = ⟨s.nextId, owner, m.event, m.actions⟩ := by
  have frame : ∀ s' : State, Frame s s' → stored s' t → stored s t := by
    intro s' hf h
    rcases h with h | h
    · rcases hf.trig t.id with e | e
      · exact Or.inl (e ▸ h)
      · rw [e] at h; cases h
    · exact Or.inr (hf.qList ▸ h)
  cases op with
  | fund a amt => exact Or.inl (frame _ (Frame_bal s _) h)
  | pay f t' amt =>
    simp only [step] at h
    split at h
    · next s' hs => obtain ⟨b, hb⟩ := bankSend_ok hs; subst hb; exact Or.inl (frame _ (Frame_bal s _) h)
    · exact Or.inl h
  | create m rem hh tm =>
    simp only [step] at h
    split at h
    · next s' id g hc =>
      obtain ⟨hv, _, _, _, _, owner, rest, hauth, hs⟩ := createTrigger_ok hc
      subst hs
      rcases h with h | h
      · change (if t.id = s.nextId then some _ else s.triggers t.id) = some t at h
        split at h
        · right; exact ⟨m, rem, hh, tm, rfl, hv, owner, rest, hauth, (Option.some.inj h).symm⟩
        · exact Or.inl (Or.inl h)
      · exact Or.inl (Or.inr h)
    · exact Or.inl h
  | destroy auth id =>
    simp only [step] at h
    split at h
    · next s' hd => exact Or.inl (frame _ (WF_destroyTrigger hw hd).2 h)
    · exact Or.inl h
  | beginBlock oog =>
    simp only [step, processTriggers] at h
    obtain ⟨s', xs, hp, _, hql, _, _, _, _, htr, _⟩ := processLoop_spec oog MaximumActions 0 s hw
    rw [hp] at h
    left
    rcases h with h | h
    · rcases htr t.id with e | e
      · exact Or.inl (e ▸ h)
      · rw [e] at h; cases h
    · obtain ⟨q, hq, e⟩ := h
      exact Or.inr ⟨q, by rw [hql]; exact List.mem_append_right _ hq, e⟩
  | endBlock evs hh tm =>
    simp only [step, detectBlockEvents] at h
    split at h
    · next s' ts hd =>
      split at hd
      · next ts' hda =>
        cases hd
        obtain ⟨hnd, hreg⟩ := detectAll_spec hw hda
        obtain ⟨_, hl, _, htr, _, _⟩ := queueDetected_spec hh tm ts s hw hnd (fun t ht => (hreg t ht).1)
        left
        rcases h with h | h
        · rw [htr] at h
          split at h
          · cases h
          · exact Or.inl h
        · obtain ⟨q, hq, e⟩ := h
          rw [hl] at hq
          rcases List.mem_append.1 hq with hq | hq
          · exact Or.inr ⟨q, hq, e⟩
          · obtain ⟨t', ht', e'⟩ := List.mem_map.1 hq
            subst e'; subst e
            exact Or.inl (hreg t' ht').1
      · cases hd
    · exact Or.inl h

end PvProofs.Lemmas.Trig
