/-
Helper lemmas for C05: `Except` decomposition, marker lookup / `SetMarker`, the bank primitives
(`adjustCirculation`, `sendCoins`) and the per-step summary `Post`.
-/
import PvModel.MkrSupSpec
import PvProofs.Lemmas.LedgerSum

namespace PvProofs.MkrSupL
open PvModel PvModel.MkrSup PvModel.Ledger PvProofs.LedgerSum

/-! ### Except -/

theorem bind_ok {ε α β : Type} {x : Except ε α} {f : α → Except ε β} {b : β} :
    (x >>= f) = .ok b ↔ ∃ a, x = .ok a ∧ f a = .ok b := by
  cases x <;> simp [bind, Except.bind]

theorem check_ok {c : Bool} {e : Err} {u : Unit} : check c e = .ok u ↔ c = true := by
  unfold check; cases c <;> simp

theorem pure_ok {ε α : Type} {a b : α} : (pure a : Except ε α) = .ok b ↔ a = b := by
  simp [pure, Except.pure]

/-! ### status order -/

theorem status_le_refl (a : Status) : a ≤ a := Nat.le_refl _
theorem status_le_trans {a b c : Status} (h1 : a ≤ b) (h2 : b ≤ c) : a ≤ c := Nat.le_trans h1 h2
theorem status_le_iff (a b : Status) : a ≤ b ↔ a.toNat ≤ b.toNat := Iff.rfl
theorem status_lt_iff (a b : Status) : a < b ↔ a.toNat < b.toNat := Iff.rfl

/-! ### lookup and SetMarker -/

theorem find_denom {s : State} {d : Denom} {m : Marker} (h : s.find d = some m) : m.denom = d := by
  have := List.find?_some h
  simpa using this

theorem find_mem {s : State} {d : Denom} {m : Marker} (h : s.find d = some m) : m ∈ s.markers :=
  List.mem_of_find?_eq_some h

theorem find_setMarker_self (s : State) (m : Marker) : (s.setMarker m).find m.denom = some m := by
  simp [State.find, State.setMarker]

theorem find_filter_ne (l : List Marker) (x d : Denom) (h : d ≠ x) :
    (l.filter fun y => y.denom ≠ x).find? (fun m => m.denom = d) = l.find? (fun m => m.denom = d) := by
  rw [List.find?_filter]
  congr 1
  funext a
  by_cases ha : a.denom = d
  · simp [ha, h]
  · simp [ha]

theorem find_setMarker_ne (s : State) (m : Marker) {d : Denom} (h : d ≠ m.denom) :
    (s.setMarker m).find d = s.find d := by
  have hm : ¬ (m.denom = d) := fun e => h e.symm
  simp only [State.find, State.setMarker, List.find?, hm, decide_false]
  exact find_filter_ne s.markers m.denom d h

theorem find_bank (s : State) (b : Bank) (d : Denom) : ({ s with bank := b } : State).find d = s.find d := rfl

theorem wf_setMarker {s : State} (h : WF s) (m : Marker) : WF (s.setMarker m) := by
  unfold WF State.setMarker at *
  simp only [List.map_cons]
  apply List.nodup_cons.mpr
  constructor
  · intro hmem
    obtain ⟨y, hy, hyd⟩ := List.mem_map.mp hmem
    have := (List.mem_filter.mp hy).2
    simp at this
    exact this hyd
  · exact List.Nodup.sublist ((List.filter_sublist).map _) h

theorem wf_bank {s : State} (b : Bank) (h : WF s) : WF { s with bank := b } := h

theorem find_of_mem {l : List Marker} (h : (l.map (·.denom)).Nodup) {m : Marker} (hm : m ∈ l) :
    l.find? (fun x => x.denom = m.denom) = some m := by
  induction l with
  | nil => cases hm
  | cons y t ih =>
    simp only [List.map_cons] at h
    have hnd := List.nodup_cons.mp h
    rcases List.mem_cons.mp hm with rfl | hmt
    · simp [List.find?]
    · have : ¬ (y.denom = m.denom) := by
        intro e
        exact hnd.1 (e ▸ List.mem_map.mpr ⟨m, hmt, rfl⟩)
      simp [List.find?, this, ih hnd.2 hmt]

theorem wf_find_of_mem {s : State} (h : WF s) {m : Marker} (hm : m ∈ s.markers) : s.find m.denom = some m :=
  find_of_mem h hm

/-! ### coins -/

theorem amountOf_eq_zero_of_not_mem {cs : Coins} {d : Denom} (h : d ∉ Coins.denoms cs) :
    Coins.amountOf cs d = 0 := by
  induction cs with
  | nil => rfl
  | cons c t ih =>
    obtain ⟨d', x⟩ := c
    simp only [Coins.denoms, List.map_cons, List.mem_cons, not_or] at h
    have hne : ¬ (d' = d) := fun e => h.1 e.symm
    simp only [Coins.amountOf_cons, hne, if_false]
    have := ih (by simpa [Coins.denoms] using h.2)
    omega

theorem nonneg_amountOf {cs : Coins} (h : Coins.nonneg cs = true) (d : Denom) : 0 ≤ Coins.amountOf cs d := by
  by_cases hm : d ∈ Coins.denoms cs
  · unfold Coins.nonneg at h
    have := List.all_eq_true.mp h d hm
    simpa using this
  · rw [amountOf_eq_zero_of_not_mem hm]; omega

/-! ### bank primitives -/

theorem adjust_def (b : Bank) (d : Denom) (x : Int) : adjustCirculation b d x =
    if b.supply d < x then .ok (b.mintTo (acct d) [(d, x - b.supply d)])
    else if x < b.supply d then
      if b.bal (acct d) d < b.supply d - x then .error .funds
      else .ok (b.burnFrom (acct d) [(d, b.supply d - x)])
    else .ok b := rfl

theorem adjust_supply {b b' : Bank} {d : Denom} {x : Int} (h : adjustCirculation b d x = .ok b') :
    b'.supply d = x := by
  rw [adjust_def] at h
  split at h
  · cases h; simp; omega
  · split at h
    · split at h
      · cases h
      · cases h; simp; omega
    · cases h; omega

theorem adjust_supply_ne {b b' : Bank} {d d' : Denom} {x : Int} (h : adjustCirculation b d x = .ok b')
    (hd : d' ≠ d) : b'.supply d' = b.supply d' := by
  have hd2 : ¬ (d = d') := fun e => hd e.symm
  rw [adjust_def] at h
  split at h
  · cases h; simp [hd2]
  · split at h
    · split at h
      · cases h
      · cases h; simp [hd2]
    · cases h; rfl

/-- `AdjustCirculation` only ever touches the marker's own balance of its own denom. -/
theorem adjust_bal {b b' : Bank} {d : Denom} {x : Int} (h : adjustCirculation b d x = .ok b')
    (a : Addr) (d' : Denom) :
    b'.bal a d' = b.bal a d' + (if acct d = a ∧ d = d' then x - b.supply d else 0) := by
  rw [adjust_def] at h
  split at h
  · cases h
    simp only [Bank.bal_mintTo, Coins.amountOf_cons, Coins.amountOf_nil]
    by_cases h1 : acct d = a
    · by_cases h2 : d = d'
      · subst h2; simp [h1]
      · simp [h1, h2]
    · simp [h1]
  · split at h
    · split at h
      · cases h
      · cases h
        simp only [Bank.bal_burnFrom, Coins.amountOf_cons, Coins.amountOf_nil]
        by_cases h1 : acct d = a
        · by_cases h2 : d = d'
          · subst h2; simp [h1]; omega
          · simp [h1, h2]
        · simp [h1]
    · cases h
      have : x - b.supply d = 0 := by omega
      simp [this]

theorem adjust_nonneg {b b' : Bank} {d : Denom} {x : Int} (h : adjustCirculation b d x = .ok b')
    (hn : NonNeg b) : NonNeg b' := by
  intro a d'
  have hb := adjust_bal h a d'
  have h0 := hn a d'
  rw [adjust_def] at h
  split at h
  · rw [hb]; split <;> omega
  · split at h
    · split at h
      · cases h
      · rename_i hlt
        rw [hb]
        split
        · rename_i hc
          obtain ⟨rfl, rfl⟩ := hc
          omega
        · omega
    · cases h; exact h0

/-- a successful `adjustCirculation` down to `x ≤ supply` means the marker's own account held
the difference -/
theorem adjust_escrow {b b' : Bank} {d : Denom} {x : Int} (h : adjustCirculation b d x = .ok b') :
    b.supply d - x ≤ b.bal (acct d) d ∨ b.supply d ≤ x := by
  rw [adjust_def] at h
  split at h
  · right; omega
  · split at h
    · split at h
      · cases h
      · left; omega
    · right; omega

theorem send_eq {b b' : Bank} {f t : Addr} {cs : Coins} (h : sendCoins b f t cs = .ok b') :
    b' = b.move f t cs ∧ Coins.nonneg cs = true ∧
      ∀ d, Coins.amountOf cs d ≤ b.bal f d ∨ Coins.amountOf cs d = 0 := by
  unfold sendCoins at h
  simp only [bind_ok, check_ok, pure_ok] at h
  obtain ⟨_, hnn, _, hcov, rfl⟩ := h
  refine ⟨rfl, hnn, ?_⟩
  intro d
  by_cases hm : d ∈ Coins.denoms cs
  · have := List.all_eq_true.mp hcov d hm
    left; simpa using this
  · right; exact amountOf_eq_zero_of_not_mem hm

theorem send_supply {b b' : Bank} {f t : Addr} {cs : Coins} (h : sendCoins b f t cs = .ok b')
    (d : Denom) : b'.supply d = b.supply d := by
  rw [(send_eq h).1]; exact Bank.supply_move _ _ _ _ _

theorem send_bal {b b' : Bank} {f t : Addr} {cs : Coins} (h : sendCoins b f t cs = .ok b')
    (a : Addr) (d : Denom) :
    b'.bal a d = b.bal a d - (if f = a then Coins.amountOf cs d else 0)
      + (if t = a then Coins.amountOf cs d else 0) := by
  rw [(send_eq h).1]; exact Bank.bal_move _ _ _ _ _ _

theorem send_nonneg {b b' : Bank} {f t : Addr} {cs : Coins} (h : sendCoins b f t cs = .ok b')
    (hn : NonNeg b) : NonNeg b' := by
  intro a d
  rw [send_bal h a d]
  obtain ⟨_, hnn, hcov⟩ := send_eq h
  have h0 := nonneg_amountOf hnn d
  have h1 := hn a d
  have h2 := hn f d
  rcases hcov d with hc | hc
  · by_cases hf : f = a <;> by_cases ht : t = a <;> simp [hf, ht] <;> (try subst hf) <;> omega
  · rw [hc]; simp; exact h1

/-! ### the supply store agrees with the balances -/

theorem consistent_mintTo {b : Bank} (h : Consistent b) (a : Addr) (cs : Coins) :
    Consistent (b.mintTo a cs) := by
  intro d
  have := h d
  simp only [Bank.supply_mintTo]
  simp only [Bank.mintTo, Ledger.supply_credit]
  omega

theorem consistent_burnFrom {b : Bank} (h : Consistent b) (a : Addr) (cs : Coins) :
    Consistent (b.burnFrom a cs) := by
  intro d
  have := h d
  simp only [Bank.supply_burnFrom]
  simp only [Bank.burnFrom, Ledger.supply_debit]
  omega

theorem consistent_move {b : Bank} (h : Consistent b) (f t : Addr) (cs : Coins) :
    Consistent (b.move f t cs) := by
  intro d
  have := h d
  rw [Bank.supply_move]
  simp only [Bank.move, Ledger.supply_move]
  exact this

theorem adjust_cons {b b' : Bank} {d : Denom} {x : Int} (h : adjustCirculation b d x = .ok b')
    (hc : Consistent b) : Consistent b' := by
  rw [adjust_def] at h
  split at h
  · cases h; exact consistent_mintTo hc _ _
  · split at h
    · split at h
      · cases h
      · cases h; exact consistent_burnFrom hc _ _
    · cases h; exact hc

theorem send_cons {b b' : Bank} {f t : Addr} {cs : Coins} (h : sendCoins b f t cs = .ok b')
    (hc : Consistent b) : Consistent b' := by
  rw [(send_eq h).1]; exact consistent_move hc _ _ _

end PvProofs.MkrSupL
