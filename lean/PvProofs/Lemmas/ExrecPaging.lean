/-
Helper lemmas for C13: what the two paging loops compute, and that a page requested at a
`next_key` continues exactly where the previous one stopped.
-/
import PvProofs.Lemmas.ExrecBytes
import Mathlib.Tactic.SplitIfs

namespace PvProofs.Exrec
open PvModel.Exrec

variable (hit : Entry → Bool)

/-- key mode: the page is the next `limit - n` hits, the next key is the key of the hit after them -/
theorem keyLoop_eq (limit : Nat) : ∀ (L : List Entry) (n : Nat) (acc : List Entry), n ≤ limit →
    keyLoop hit limit L n acc =
      (acc ++ (L.filter hit).take (limit - n), (((L.filter hit).drop (limit - n)).head?).map (·.1))
  | [], n, acc, _ => by simp [keyLoop]
  | e :: r, n, acc, hn => by
    unfold keyLoop
    by_cases he : hit e = true
    · simp only [he, ↓reduceIte, List.filter_cons]
      by_cases hl : n = limit
      · simp [hl]
      · simp only [hl, ↓reduceIte]
        rw [keyLoop_eq limit r (n + 1) (acc ++ [e]) (by omega)]
        have : limit - n = (limit - (n + 1)) + 1 := by omega
        rw [this]
        simp
    · simp only [he, Bool.false_eq_true, ↓reduceIte, List.filter_cons]
      exact keyLoop_eq limit r n acc hn

/-- offset mode, once the page is complete and the next key is known: only counting remains -/
theorem offLoop_beyond (offset stop : Nat) : ∀ (L : List Entry) (n : Nat) (acc : List Entry) (k : Bytes),
    stop < n → offLoop hit offset stop true L n acc (some k) = (acc, some k, n + (L.filter hit).length)
  | [], n, acc, k, _ => by simp [offLoop]
  | e :: r, n, acc, k, hn => by
    unfold offLoop
    have hacc : ¬ (n ≥ offset ∧ n < stop) := by omega
    by_cases he : hit e = true
    · simp only [he, hacc, decide_false, Bool.false_eq_true, and_false, ↓reduceIte, List.filter_cons,
        List.length_cons]
      have : ¬ (n + 1 = stop + 1) := by omega
      simp only [this, ↓reduceIte]
      rw [offLoop_beyond offset stop r (n + 1) acc k (by omega)]
      simp only [Prod.mk.injEq, true_and]; omega
    · simp only [he, Bool.false_eq_true, false_and, ↓reduceIte, List.filter_cons]
      by_cases hs : n = stop + 1
      · simp only [hs, ↓reduceIte]
        rw [offLoop_beyond offset stop r (stop + 1) acc k (by omega)]
      · simp only [hs, ↓reduceIte]
        exact offLoop_beyond offset stop r n acc k hn

/-- offset mode: the page is the hits number `offset … stop-1`, the next key is the key of hit number
`stop`, the total (when counted) is the number of hits -/
theorem offLoop_eq (offset stop : Nat) (ct : Bool) (hos : offset ≤ stop) :
    ∀ (L : List Entry) (n : Nat) (acc : List Entry), n ≤ stop →
    (offLoop hit offset stop ct L n acc none).1 =
        acc ++ (((L.filter hit).drop (offset - n)).take ((stop - n) - (offset - n))) ∧
    (offLoop hit offset stop ct L n acc none).2.1 = (((L.filter hit).drop (stop - n)).head?).map (·.1) ∧
    (ct = true → (offLoop hit offset stop ct L n acc none).2.2 = n + (L.filter hit).length)
  | [], n, acc, _ => by simp [offLoop]
  | e :: r, n, acc, hn => by
    unfold offLoop
    by_cases he : hit e = true
    · simp only [he, true_and, ↓reduceIte, List.filter_cons, List.length_cons]
      by_cases hs : n = stop
      · -- this hit is number `stop`: it is the next key
        subst hs
        have hacc : ¬ (n ≥ offset ∧ n < n) := by omega
        simp only [hacc, decide_false, Bool.false_eq_true, ↓reduceIte, Nat.sub_self, List.drop_zero,
          List.head?_cons, Option.map_some]
        cases ct with
        | false => simp
        | true =>
          simp only [↓reduceIte]
          rw [offLoop_beyond hit offset n r (n + 1) acc e.1 (by omega)]
          simp only [List.take_zero, List.append_nil, forall_const, true_and, Nat.sub_self]
          constructor
          · simp
          · omega
      · have hne : ¬ (n + 1 = stop + 1) := by omega
        simp only [hne, ↓reduceIte]
        by_cases hacc : n ≥ offset ∧ n < stop
        · simp only [hacc, and_self, decide_true, ↓reduceIte]
          obtain ⟨i1, i2, i3⟩ := offLoop_eq offset stop ct hos r (n + 1) (acc ++ [e]) (by omega)
          rw [i1, i2]
          refine ⟨?_, ?_, fun h => ?_⟩
          · have h0 : offset - n = 0 := by omega
            have h0' : offset - (n + 1) = 0 := by omega
            have h1 : stop - n - 0 = (stop - (n + 1) - 0) + 1 := by omega
            rw [h0, h0', h1]; simp
          · have : stop - n = (stop - (n + 1)) + 1 := by omega
            rw [this]; simp
          · rw [i3 h]; omega
        · simp only [hacc, decide_false, Bool.false_eq_true, ↓reduceIte]
          obtain ⟨i1, i2, i3⟩ := offLoop_eq offset stop ct hos r (n + 1) acc (by omega)
          rw [i1, i2]
          have hlt : n < offset := by omega
          refine ⟨?_, ?_, fun h => ?_⟩
          · have h1 : offset - n = (offset - (n + 1)) + 1 := by omega
            have h2 : stop - n - (offset - n) = stop - (n + 1) - (offset - (n + 1)) := by omega
            rw [h2, h1]; simp
          · have : stop - n = (stop - (n + 1)) + 1 := by omega
            rw [this]; simp
          · rw [i3 h]; omega
    · simp only [he, Bool.false_eq_true, false_and, ↓reduceIte, List.filter_cons]
      have hne : ¬ (n = stop + 1) := by omega
      simp only [hne, ↓reduceIte]
      exact offLoop_eq offset stop ct hos r n acc hn

/-- the hit number `n` of a list splits it: what precedes holds the first `n` hits -/
theorem split_at_hit : ∀ (L : List Entry) (n : Nat) (h : Entry) (rest : List Entry),
    (L.filter hit).drop n = h :: rest →
    ∃ pre post, L = pre ++ h :: post ∧ pre.filter hit = (L.filter hit).take n ∧ hit h = true ∧
      post.filter hit = rest
  | [], n, h, rest, hd => by simp at hd
  | e :: r, n, h, rest, hd => by
    by_cases he : hit e = true
    · simp only [List.filter_cons, he, ↓reduceIte] at hd
      cases n with
      | zero =>
        simp only [List.drop_zero, List.cons.injEq] at hd
        obtain ⟨rfl, hr⟩ := hd
        exact ⟨[], r, rfl, by simp, he, hr⟩
      | succ n =>
        simp only [List.drop_succ_cons] at hd
        obtain ⟨pre, post, hL, hp, hh, hpost⟩ := split_at_hit r n h rest hd
        refine ⟨e :: pre, post, by rw [hL]; rfl, ?_, hh, hpost⟩
        simp [List.filter_cons, he, hp]
    · simp only [List.filter_cons, he, Bool.false_eq_true, ↓reduceIte] at hd
      obtain ⟨pre, post, hL, hp, hh, hpost⟩ := split_at_hit r n h rest hd
      refine ⟨e :: pre, post, by rw [hL]; rfl, ?_, hh, hpost⟩
      simp [List.filter_cons, he, hp]


/-! ### the iterator of a request that carries a `next_key` -/

theorem inRange_stop (b : Option Bytes) (x k : Bytes) : inRange b (some x) k = (inRange b none k && bytesLt k x) := by
  cases b <;> simp [inRange]

theorem inRange_some_none (b k : Bytes) : inRange (some b) none k = bytesLe b k := by simp [inRange]

/-- lower bound used by `getOrderIterator` for a request without a key (both directions): the key of
`after + 1`, or of `after` itself when `after = MaxUint64` -/
def lowerBound (after : UInt64) : Option Bytes :=
  if after ≠ 0 then some (u64Bz (if after ≠ 18446744073709551615 then after + 1 else after)) else none

/-- the iteration order of a request without a key: the entries from the after-order bound on,
ascending, or the same entries descending -/
def firstIter (ps : List Entry) (rev : Bool) (after : UInt64) : List Entry :=
  if rev then (iter ps (lowerBound after) none).reverse else iter ps (lowerBound after) none

theorem getOrderIterator_none (ps : List Entry) (rev : Bool) (after : UInt64) :
    getOrderIterator ps none rev after = .ok (firstIter ps rev after) := by
  unfold getOrderIterator firstIter lowerBound
  cases rev
  · simp only [Bool.false_eq_true, ↓reduceIte, true_or, true_and]
    by_cases ha : after = 0
    · simp [ha]
    · simp only [ne_eq, ha, not_false_eq_true, ↓reduceIte]
      split <;> simp_all [u64Bz]
  · simp only [↓reduceIte, reverseEnd, revIter]

theorem mem_inRange_trans {b : Option Bytes} {x y : Bytes} (hx : inRange b none x = true) (hxy : bytesLe x y = true) :
    inRange b none y = true := by
  cases b with
  | none => simp [inRange]
  | some b => rw [inRange_some_none] at hx ⊢; exact bytesLe_trans hx hxy

theorem iter_from_member {ps : List Entry} (hs : Sorted ps) {b : Option Bytes} {pre post : List Entry} {h : Entry}
    (hsplit : iter ps b none = pre ++ h :: post) : iter ps (some h.1) none = h :: post := by
  have hmem : h ∈ iter ps b none := by rw [hsplit]; simp
  have hin : inRange b none h.1 = true := by
    unfold iter at hmem; exact (List.mem_filter.mp hmem).2
  have : iter ps (some h.1) none = (iter ps b none).filter (fun e => bytesLe h.1 e.1) := by
    unfold iter
    rw [List.filter_filter]
    apply List.filter_congr
    intro x _
    rw [inRange_some_none]
    by_cases hx : bytesLe h.1 x.1 = true
    · simp [hx, mem_inRange_trans hin hx]
    · simp [hx]
  rw [this, hsplit]
  exact filter_ge_of_sorted (hsplit ▸ hs.filter _)

theorem getOrderIterator_at_key {ps : List Entry} (hs : Sorted ps) (rev : Bool) (after : UInt64)
    {pre post : List Entry} {h : Entry} (hsplit : firstIter ps rev after = pre ++ h :: post)
    (hpre : rev = true → pre ≠ []) (hk : h.1 ≠ []) :
    getOrderIterator ps (some h.1) rev after = .ok (h :: post) := by
  cases rev
  · -- forward: the entries from the key on
    unfold firstIter at hsplit
    simp only [Bool.false_eq_true, ↓reduceIte] at hsplit
    unfold getOrderIterator
    have hne : ¬ ((some h.1 = none ∨ some h.1 = some []) ∧ after ≠ 0) := by
      rintro ⟨h1 | h1, _⟩
      · cases h1
      · exact hk (Option.some.inj h1)
    simp only [Bool.false_eq_true, ↓reduceIte, hne]
    split
    · next heq => exact absurd (Option.some.inj heq) hk
    · rw [iter_from_member hs hsplit]
  · -- reverse: the entries up to the key, descending
    unfold firstIter at hsplit
    simp only [↓reduceIte] at hsplit
    have hasc : iter ps (lowerBound after) none = (post.reverse ++ [h]) ++ pre.reverse := by
      have := congrArg List.reverse hsplit
      simpa using this
    obtain ⟨x, t, hxt⟩ : ∃ x t, pre.reverse = x :: t := by
      cases hr : pre.reverse with
      | nil => exact absurd (by simpa using hr) (hpre rfl)
      | cons x t => exact ⟨x, t, rfl⟩
    have hasc1 : iter ps (lowerBound after) none = post.reverse ++ h :: (x :: t) := by
      rw [hasc, hxt]; simp
    have hend : reverseEnd ps (some h.1) = .ok (some x.1) := by
      unfold reverseEnd
      simp only
      rw [iter_from_member hs hasc1]
    unfold getOrderIterator
    simp only [↓reduceIte, hend]
    have hlb : (if after ≠ 0 then some (u64Bz (if after ≠ 18446744073709551615 then after + 1 else after))
        else none) = lowerBound after := rfl
    rw [hlb]
    have hasc2 : iter ps (lowerBound after) none = (post.reverse ++ [h]) ++ x :: t := by
      rw [hasc1]; simp
    have : iter ps (lowerBound after) (some x.1) = post.reverse ++ [h] := by
      have e : iter ps (lowerBound after) (some x.1) =
          (iter ps (lowerBound after) none).filter (fun e => bytesLt e.1 x.1) := by
        unfold iter
        rw [List.filter_filter]
        apply List.filter_congr
        intro y _
        rw [inRange_stop, Bool.and_comm]
      rw [e, hasc2]
      exact filter_lt_of_sorted (hasc2 ▸ hs.filter _)
    unfold revIter
    rw [this]
    simp


/-! ### single requests -/

/-- a request without a key (first page of key mode, every page of offset mode) -/
theorem page_without_key (ps : List Entry) (offset limit : Nat) (ct rev : Bool) (after : UInt64) (hl : 1 ≤ limit) :
    filteredPaginateAfterOrder ps { offset := offset, limit := limit, countTotal := ct, reverse := rev } after hit =
      .ok ((((firstIter ps rev after).filter hit).drop offset).take limit,
        { nextKey := ((((firstIter ps rev after).filter hit).drop (offset + limit)).head?).map (·.1),
          total := if ct then ((firstIter ps rev after).filter hit).length else 0 }) := by
  unfold filteredPaginateAfterOrder
  have hl0 : ¬ limit = 0 := by omega
  simp only [ne_eq, not_true_eq_false, and_false, ↓reduceIte, hl0, true_or, not_true_eq_false,
    getOrderIterator_none]
  obtain ⟨i1, i2, i3⟩ := offLoop_eq hit offset (offset + limit) ct (by omega) (firstIter ps rev after) 0 [] (by omega)
  generalize offLoop hit offset (offset + limit) ct (firstIter ps rev after) 0 [] none = res at i1 i2 i3
  obtain ⟨acc, nk, n⟩ := res
  simp only at i1 i2 i3
  simp only [Except.ok.injEq, Prod.mk.injEq, PageResp.mk.injEq]
  refine ⟨?_, ?_, ?_⟩
  · rw [i1]; simp
  · rw [i2]; simp
  · cases ct with
    | false => simp
    | true => simp [i3 rfl]

/-- a request at a non-empty key whose iterator is `S` -/
theorem page_at_key (ps : List Entry) (k : Bytes) (hk : k ≠ []) (limit : Nat) (rev : Bool) (after : UInt64)
    (hl : 1 ≤ limit) {S : List Entry} (hS : getOrderIterator ps (some k) rev after = .ok S) :
    filteredPaginateAfterOrder ps { key := some k, limit := limit, reverse := rev } after hit =
      .ok ((S.filter hit).take limit, { nextKey := (((S.filter hit).drop limit).head?).map (·.1), total := 0 }) := by
  unfold filteredPaginateAfterOrder
  have hl0 : ¬ limit = 0 := by omega
  have hke : ¬ (some k = none ∨ some k = some []) := by
    rintro (h | h)
    · cases h
    · exact hk (Option.some.inj h)
  simp only [gt_iff_lt, Nat.lt_irrefl, false_and, ↓reduceIte, hl0, hke, not_false_eq_true, hS]
  rw [keyLoop_eq hit limit S 0 [] (by omega)]
  simp

/-! ### following the pages -/

theorem collectByKey_suffix (ps : List Entry) (hs : Sorted ps) (limit : Nat) (hl : 1 ≤ limit) (rev : Bool)
    (after : UInt64) (hne : ∀ e ∈ ps, hit e = true → e.1 ≠ []) :
    ∀ (fuel : Nat) (pre post : List Entry) (h : Entry), firstIter ps rev after = pre ++ h :: post →
      hit h = true → (rev = true → pre ≠ []) → (h :: post).length ≤ fuel →
      collectByKey ps limit rev after hit fuel (some h.1) = .ok ((h :: post).filter hit) := by
  have hsub : ∀ e ∈ firstIter ps rev after, e ∈ ps := by
    intro e he
    unfold firstIter iter at he
    split_ifs at he
    · exact (List.mem_filter.mp (List.mem_reverse.mp he)).1
    · exact (List.mem_filter.mp he).1
  intro fuel
  induction fuel with
  | zero => intro pre post h _ _ _ hlen; simp at hlen
  | succ fuel ih =>
    intro pre post h hsplit hh hpre hlen
    have hmem : h ∈ ps := hsub h (by rw [hsplit]; simp)
    have hk : h.1 ≠ [] := hne h hmem hh
    have hS := getOrderIterator_at_key hs rev after hsplit hpre hk
    unfold collectByKey
    rw [page_at_key hit ps h.1 hk limit rev after hl hS]
    simp only
    cases hd : ((h :: post).filter hit).drop limit with
    | nil =>
      simp only [List.head?_nil, Option.map_none]
      rw [List.take_of_length_le (List.drop_eq_nil_iff.mp hd)]
    | cons h' rest =>
      simp only [List.head?_cons, Option.map_some]
      obtain ⟨pre', post', hL, hp, hh', hpost⟩ := split_at_hit hit (h :: post) limit h' rest hd
      have hmem' : h' ∈ ps := hsub h' (by rw [hsplit, hL]; simp)
      have hk' : h'.1 ≠ [] := hne h' hmem' hh'
      obtain ⟨b, r, hbr⟩ : ∃ b r, h'.1 = b :: r := by
        cases hh2 : h'.1 with
        | nil => exact absurd hh2 hk'
        | cons b r => exact ⟨b, r, rfl⟩
      have hpre' : pre' ≠ [] := by
        intro e
        subst e
        have hlen2 : ((h :: post).filter hit).length > limit := by
          have := congrArg List.length hd
          simp only [List.length_drop, List.length_cons] at this
          omega
        have := congrArg List.length hp
        simp only [List.filter_nil, List.length_nil, List.length_take] at this
        omega
      have hsplit' : firstIter ps rev after = (pre ++ pre') ++ h' :: post' := by
        rw [hsplit, hL]; simp
      have hlen' : (h' :: post').length ≤ fuel := by
        have := congrArg List.length hL
        have hp0 : pre'.length ≥ 1 := List.length_pos_iff.mpr hpre'
        simp only [List.length_cons, List.length_append] at this hlen ⊢
        omega
      have := ih (pre ++ pre') post' h' hsplit' hh' (fun _ => by simp [hpre']) hlen'
      rw [hbr] at this ⊢
      simp only
      rw [this]
      simp only [Except.ok.injEq]
      have hf : (h' :: post').filter hit = ((h :: post).filter hit).drop limit := by
        rw [hd, List.filter_cons, hh', if_pos rfl, hpost]
      rw [hf, List.take_append_drop]

theorem collectByOffset_from (ps : List Entry) (limit : Nat) (hl : 1 ≤ limit) (rev : Bool) (after : UInt64)
    (hne : ∀ e ∈ firstIter ps rev after, hit e = true → e.1 ≠ []) :
    ∀ (fuel offset : Nat), (((firstIter ps rev after).filter hit).drop offset).length < fuel →
      collectByOffset ps limit rev after hit fuel offset = .ok (((firstIter ps rev after).filter hit).drop offset) := by
  intro fuel
  induction fuel with
  | zero => intro offset h; omega
  | succ fuel ih =>
    intro offset hlen
    unfold collectByOffset
    have := page_without_key hit ps offset limit false rev after hl
    simp only [Bool.false_eq_true, ↓reduceIte] at this
    rw [this]
    simp only
    cases hd : ((firstIter ps rev after).filter hit).drop (offset + limit) with
    | nil =>
      simp only [List.head?_nil, Option.map_none]
      rw [List.take_of_length_le]
      have := List.drop_eq_nil_iff.mp hd
      simp only [List.length_drop]; omega
    | cons h' rest =>
      simp only [List.head?_cons, Option.map_some]
      have hmem : h' ∈ (firstIter ps rev after).filter hit :=
        List.mem_of_mem_drop (by rw [hd]; exact List.mem_cons_self ..)
      obtain ⟨hm1, hm2⟩ := List.mem_filter.mp hmem
      have hk' : h'.1 ≠ [] := hne h' hm1 hm2
      obtain ⟨b, r, hbr⟩ : ∃ b r, h'.1 = b :: r := by
        cases hh2 : h'.1 with
        | nil => exact absurd hh2 hk'
        | cons b r => exact ⟨b, r, rfl⟩
      rw [hbr]
      simp only
      have hlen' : (((firstIter ps rev after).filter hit).drop (offset + limit)).length < fuel := by
        have h1 := congrArg List.length hd
        simp only [List.length_drop, List.length_cons] at h1 hlen ⊢
        omega
      rw [ih (offset + limit) hlen']
      simp only [Except.ok.injEq]
      rw [← List.drop_drop, List.take_append_drop]

end PvProofs.Exrec
