/-
C10 helper lemmas, part 2: `validateAllRequiredPartiesSigned` / `validateAllRequiredSigned`
characterised against the declarative spec.
-/
import PvProofs.Lemmas.Signers

namespace PvProofs.Lemmas.Signers
open PvModel.Signers

/-- the party-level invariant on recorded signers: none, the party itself (a msg signer), or
the authz grantee found for the party -/
def SignerOk (env : Env) (mt : MsgType) (signers : List Addr) (p : PartyDetails) : Prop :=
  (p.signer = "" ∨ (p.signer = p.address ∧ Spec.signsDirectly signers p.address = true)
      ∨ findAuthzGrantee env mt p.address (accs env signers) = some p.signer)
  ∧ (Spec.signsDirectly signers p.address = true → p.signer = p.address)

theorem associateRolesWith_forall (usable : Role → PartyDetails → Bool) (P : PartyDetails → Prop)
    (hP : ∀ x, P x → P x.markAsUsed) (roles : List Role) :
    ∀ ps : List PartyDetails, (∀ x ∈ ps, P x) → ∀ x ∈ (associateRolesWith usable ps roles).1, P x := by
  induction roles with
  | nil => intro ps h; simpa [associateRolesWith] using h
  | cons role rest ih =>
    intro ps h
    simp only [associateRolesWith]
    cases hu : updateFirst (usable role) PartyDetails.markAsUsed ps with
    | some ps1 => exact ih ps1 (updateFirst_forall hu h (fun x _ hx => hP x hx))
    | none => exact ih ps h

theorem associateAuthorizationsForRoles_forall (env : Env) (mt : MsgType) (signers : List Addr)
    (P : PartyDetails → Prop)
    (hP : ∀ role x, viaAuthz env mt signers role x = true → P x → P (useViaAuthz env mt signers x))
    (missing : List Role) :
    ∀ ps : List PartyDetails, (∀ x ∈ ps, P x) →
      ∀ x ∈ (associateAuthorizationsForRoles env mt signers missing ps).1, P x := by
  induction missing with
  | nil => intro ps h; simpa [associateAuthorizationsForRoles] using h
  | cons role rest ih =>
    intro ps h
    simp only [associateAuthorizationsForRoles]
    have hc : (fun p : PartyDetails => p.isStillUsableAs role && !p.hasSigner
          && (findAuthzGrantee env mt p.address (accs env signers)).isSome)
        = viaAuthz env mt signers role := by
      funext p; simp [viaAuthz, hasGrantee]
    rw [hc]
    cases hu : updateFirst (viaAuthz env mt signers role) (useViaAuthz env mt signers) ps with
    | some ps1 => exact ih ps1 (updateFirst_forall hu h (fun x hx hpx => hP role x hx hpx))
    | none => exact ih ps h

theorem signerOk_useViaAuthz {env : Env} {mt : MsgType} {signers : List Addr} {role : Role}
    {x : PartyDetails} (hx : viaAuthz env mt signers role x = true) (h : SignerOk env mt signers x) :
    SignerOk env mt signers (useViaAuthz env mt signers x) := by
  simp only [viaAuthz, hasGrantee, Bool.and_eq_true] at hx
  obtain ⟨g, hg⟩ := Option.isSome_iff_exists.mp hx.2
  have hns : x.signer = "" := by
    have := hx.1.2; simpa [PartyDetails.hasSigner] using this
  have hnd : Spec.signsDirectly signers x.address = false := by
    by_contra hd
    have hd' : Spec.signsDirectly signers x.address = true := by simpa using hd
    have := h.2 hd'
    rw [hns] at this
    simp [Spec.signsDirectly, ← this] at hd'
  simp [SignerOk, useViaAuthz, hg, PartyDetails.setSigner, PartyDetails.markAsUsed, hnd]

/-- the result of the three passes, as one statement -/
structure Passes (env : Env) (mt : MsgType) (req avail : List Party) (roles : List Role)
    (signers : List Addr) (final : List PartyDetails) (rolesMissing : Bool) : Prop where
  gk_eq : final.map gk = (buildPartyDetails req avail).map gk
  signerOk : ∀ p ∈ final, SignerOk env mt signers p
  missing_iff : rolesMissing = false ↔ Spec.rolesCovered env mt signers avail roles = true

theorem countP_map_stage1 (env : Env) (mt : MsgType) (signers : List Addr) (hv : env.valid "" = false)
    (B : List PartyDetails) (hB : ∀ d ∈ B, Fresh d) (r : Role) :
    cnt PartyDetails.hasSigner r (B.map (stage1fn env mt signers))
      + cnt2 env mt signers r (B.map (stage1fn env mt signers))
    = B.countP (fun p => p.canBeUsedBySpec && (fun k : Addr × Role => k.2 == r && Spec.covered env mt signers k.1) (key p)) := by
  unfold cnt cnt2
  rw [countP_add_of_split _ _
    (fun p => p.canBeUsedBySpec && (p.role == r && Spec.covered env mt signers p.address))]
  · rw [List.countP_map]
    apply List.countP_congr
    intro p hp
    obtain ⟨h1, h2, _, h4, _⟩ := stage1fn_facts env mt signers hv p (hB p hp)
    simp [Function.comp, h1, h2, h4, key]
  · intro p1 hp1
    obtain ⟨p, hp, rfl⟩ := List.mem_map.mp hp1
    obtain ⟨h1, h2, h3, h4, h5, h6, _⟩ := stage1fn_facts env mt signers hv p (hB p hp)
    simp only [viaAuthz, PartyDetails.isStillUsableAs, PartyDetails.canBeUsed, PartyDetails.isUsed,
      h1, h2, h4, h5, h6, Spec.covered, ← hasGrantee_eq_signsViaAuthz]
    rcases p.canBeUsedBySpec <;> rcases (p.role == r) <;> rcases Spec.signsDirectly signers p.address <;>
      rcases p.isRequired <;> rcases hasGrantee env mt signers p.address <;> simp

theorem passes (env : Env) (mt : MsgType) (req avail : List Party) (roles : List Role)
    (signers : List Addr) (hv : env.valid "" = false) :
    let P1 := (buildPartyDetails req avail).map (stage1fn env mt signers)
    let r := associateRequiredRoles P1 roles
    let r2 := associateAuthorizationsForRoles env mt signers r.2 r.1
    Passes env mt req avail roles signers r2.1 r2.2 := by
  intro P1 r r2
  obtain ⟨bFresh, _, _, _⟩ := buildPartyDetails_spec req avail
  have hP1 : ∀ p1 ∈ P1, p1.usedBySpec = false ∧ SignerOk env mt signers p1 := by
    intro p1 hp1
    obtain ⟨p, hp, rfl⟩ := List.mem_map.mp hp1
    obtain ⟨h1, _, _, _, h5, _, h7, h8⟩ := stage1fn_facts env mt signers hv p (bFresh p hp)
    exact ⟨h5, by rw [SignerOk, h1]; exact ⟨h7, h8⟩⟩
  obtain ⟨a1, _, a3, a4⟩ := associateRolesWith_spec PartyDetails.hasSigner
    (by intro p; simp [PartyDetails.hasSigner, PartyDetails.markAsUsed]) roles P1
  obtain ⟨c1, c2⟩ := associateAuthorizationsForRoles_spec env mt signers r.2 r.1
  refine ⟨?_, ?_, ?_⟩
  · -- shape
    have e2 : r2.1.map gk = r.1.map gk := c2 gk (by
      intro x; unfold useViaAuthz
      cases findAuthzGrantee env mt x.address (accs env signers) <;>
        simp [gk, PartyDetails.setSigner, PartyDetails.markAsUsed])
    have e1 : r.1.map gk = P1.map gk := a4 gk (by intro x; simp [gk, PartyDetails.markAsUsed])
    rw [e2, e1]
    simp only [P1, List.map_map]
    apply List.map_congr_left
    intro p hp
    obtain ⟨h1, h2, _, h4, _⟩ := stage1fn_facts env mt signers hv p (bFresh p hp)
    simp [gk, h1, h2, h4]
  · -- signer invariant
    apply associateAuthorizationsForRoles_forall env mt signers _
      (fun role x hx hpx => signerOk_useViaAuthz hx hpx)
    exact associateRolesWith_forall _ (SignerOk env mt signers) (by
      intro x hx; simpa [SignerOk, PartyDetails.markAsUsed] using hx) roles P1 (fun x hx => (hP1 x hx).2)
  · -- the counting condition
    rw [c1]
    have hcnt2 : ∀ q, cnt2 env mt signers q r.1 = cnt2 env mt signers q P1 := by
      intro q
      unfold cnt2
      apply a3
      intro role x hx
      simp only [Bool.and_eq_true] at hx
      simp [viaAuthz, hx.2]
    have hsum : ∀ q, cnt PartyDetails.hasSigner q P1 + cnt2 env mt signers q P1
        = Spec.coveredWithRole env mt signers avail q := by
      intro q
      rw [countP_map_stage1 env mt signers hv _ bFresh q]
      exact count_build_eq_distinct req avail (fun k : Addr × Role => k.2 == q && Spec.covered env mt signers k.1)
    unfold Spec.rolesCovered
    rw [List.all_eq_true]
    constructor
    · intro h q _
      have h1 := h q
      have h2 := a1 q
      rw [hcnt2 q] at h1
      have := hsum q
      simp only [decide_eq_true_eq]
      show roles.count q ≤ _
      have h2' : r.2.count q = roles.count q - cnt PartyDetails.hasSigner q P1 := h2
      omega
    · intro h q
      rw [hcnt2 q]
      have h2' : r.2.count q = roles.count q - cnt PartyDetails.hasSigner q P1 := a1 q
      by_cases hq : q ∈ roles
      · have := h q hq
        simp only [decide_eq_true_eq] at this
        have := hsum q
        omega
      · have : roles.count q = 0 := List.count_eq_zero.mpr hq
        omega

/-- all required parties of the stage-1 list have signers iff the spec's `requiredCovered` -/
theorem unsigned_empty_iff (env : Env) (mt : MsgType) (signers : List Addr) (hv : env.valid "" = false)
    (B : List PartyDetails) (hB : ∀ d ∈ B, Fresh d) :
    (findUnsignedRequired (B.map (stage1fn env mt signers))).isEmpty = true ↔
      ∀ d ∈ B, d.isRequired = true → Spec.covered env mt signers d.address = true := by
  rw [List.isEmpty_iff, findUnsignedRequired, List.filter_eq_nil_iff]
  constructor
  · intro h d hd hreq
    have := h (stage1fn env mt signers d) (List.mem_map_of_mem hd)
    obtain ⟨_, _, h3, _, _, h6, _⟩ := stage1fn_facts env mt signers hv d (hB d hd)
    have hreq' : (stage1fn env mt signers d).isRequired = true := by
      simp only [PartyDetails.isRequired] at hreq ⊢; rw [h3]; exact hreq
    simp only [hreq', Bool.true_and, Bool.not_eq_true', Bool.not_eq_false] at this
    rw [h6, hreq, Bool.true_and, hasGrantee_eq_signsViaAuthz] at this
    exact this
  · intro h p1 hp1
    obtain ⟨d, hd, rfl⟩ := List.mem_map.mp hp1
    obtain ⟨_, _, h3, _, _, h6, _⟩ := stage1fn_facts env mt signers hv d (hB d hd)
    by_cases hreq : d.isRequired = true
    · have := h d hd hreq
      rw [h6, hreq, Bool.true_and, hasGrantee_eq_signsViaAuthz]
      simp only [Spec.covered] at this
      simp [this]
    · have : (stage1fn env mt signers d).isRequired = false := by
        simp only [PartyDetails.isRequired] at hreq ⊢; rw [h3]; simpa using hreq
      simp [this]

theorem requiredCovered_iff (env : Env) (mt : MsgType) (signers : List Addr) (req : List Party) :
    Spec.requiredCovered env mt signers req = true ↔
      ∀ r ∈ req, r.optional = false → Spec.covered env mt signers r.address = true := by
  unfold Spec.requiredCovered
  rw [List.all_eq_true]
  constructor
  · intro h r hr ho; have := h r hr; simpa [ho] using this
  · intro h r hr
    by_cases ho : r.optional = true
    · simp [ho]
    · simp [h r hr (by simpa using ho)]

/-- `validateAllRequiredPartiesSigned`, branch by branch, against the spec. -/
theorem validateAllRequiredPartiesSigned_char (env : Env) (mt : MsgType) (req avail : List Party)
    (roles : List Role) (signers : List Addr) (hv : env.valid "" = false) :
    (Spec.requiredCovered env mt signers req = false →
      ∃ who, validateAllRequiredPartiesSigned env mt req avail roles signers = .error (.missingSig who))
    ∧ (Spec.requiredCovered env mt signers req = true →
        Spec.rolesCovered env mt signers avail roles = false →
        ∃ short, validateAllRequiredPartiesSigned env mt req avail roles signers
          = .error (.missingRoleSigners short))
    ∧ (Spec.requiredCovered env mt signers req = true →
        Spec.rolesCovered env mt signers avail roles = true →
        ∃ ps, validateAllRequiredPartiesSigned env mt req avail roles signers = .ok ps
          ∧ ps.map gk = (buildPartyDetails req avail).map gk
          ∧ ∀ p ∈ ps, SignerOk env mt signers p) := by
  obtain ⟨bFresh, _, _, b4⟩ := buildPartyDetails_spec req avail
  have hun := unsigned_empty_iff env mt signers hv _ bFresh
  rw [b4 (fun a => Spec.covered env mt signers a = true), ← requiredCovered_iff] at hun
  have hp := passes env mt req avail roles signers hv
  simp only at hp
  unfold validateAllRequiredPartiesSigned
  simp only [stage1_eq_map]
  refine ⟨?_, ?_, ?_⟩
  · intro h
    have : (findUnsignedRequired ((buildPartyDetails req avail).map (stage1fn env mt signers))).isEmpty = false := by
      by_contra hc
      have hc' := hun.mp (by simpa using hc)
      rw [h] at hc'; exact absurd hc' (by simp)
    simp [this]
  · intro h1 h2
    have he := hun.mpr h1
    have hm : (associateAuthorizationsForRoles env mt signers
        (associateRequiredRoles ((buildPartyDetails req avail).map (stage1fn env mt signers)) roles).2
        (associateRequiredRoles ((buildPartyDetails req avail).map (stage1fn env mt signers)) roles).1).2 = true := by
      by_contra hc
      have := hp.missing_iff.mp (by simpa using hc)
      rw [h2] at this; exact absurd this (by simp)
    simp [he, hm]
  · intro h1 h2
    have he := hun.mpr h1
    have hm := hp.missing_iff.mpr h2
    simp only [he, Bool.not_true, Bool.false_eq_true, ↓reduceIte, hm]
    exact ⟨_, rfl, hp.gk_eq, hp.signerOk⟩

/-! ### provenance role -/

theorem forall_ckeys (Q : Addr × Role → Prop) (l : List PartyDetails) :
    (∀ k ∈ ckeys l, Q k) ↔ ∀ p ∈ l, p.canBeUsedBySpec = true → Q (key p) := by
  simp only [ckeys, List.mem_filterMap]
  constructor
  · intro h p hp hc; exact h (key p) ⟨p, hp, by simp [hc]⟩
  · rintro h k ⟨p, hp, hk⟩
    by_cases hc : p.canBeUsedBySpec = true
    · simp [hc] at hk; exact hk ▸ h p hp hc
    · simp [hc] at hk

theorem validateProvenanceRole_none_iff (env : Env) (l : List PartyDetails) :
    validateProvenanceRole env l = none ↔
      ∀ k ∈ ckeys l, env.valid k.1 = true → env.wasm k.1 = (k.2 == rolePROVENANCE) := by
  rw [forall_ckeys (fun k => env.valid k.1 = true → env.wasm k.1 = (k.2 == rolePROVENANCE))]
  unfold validateProvenanceRole
  rw [List.findSome?_eq_none_iff]
  apply forall_congr'; intro p
  apply forall_congr'; intro _
  simp only [PartyDetails.canBeUsed, key]
  by_cases h1 : p.canBeUsedBySpec = true <;> by_cases h2 : env.valid p.address = true <;>
    by_cases h3 : env.wasm p.address = true <;> by_cases h4 : (p.role == rolePROVENANCE) = true <;>
    simp_all

theorem provenanceRoleOk_iff (env : Env) (avail : List Party) :
    Spec.provenanceRoleOk env avail = true ↔
      ∀ k ∈ avail.map pkey, env.valid k.1 = true → env.wasm k.1 = (k.2 == rolePROVENANCE) := by
  unfold Spec.provenanceRoleOk
  rw [List.all_eq_true]
  simp only [List.mem_map, forall_exists_index, and_imp, forall_apply_eq_imp_iff₂, pkey]
  constructor
  · intro h p hp hv; have := h p hp; simpa [hv] using this
  · intro h p hp
    by_cases hv : env.valid p.address = true
    · simp [hv, h p hp hv]
    · simp [hv]

/-- on any list with the shape of the built list, `validateProvenanceRole` decides the spec's
`provenanceRoleOk` of the available parties -/
theorem validateProvenanceRole_of_shape (env : Env) (req avail : List Party) (l : List PartyDetails)
    (h : l.map gk = (buildPartyDetails req avail).map gk) :
    validateProvenanceRole env l = none ↔ Spec.provenanceRoleOk env avail = true := by
  rw [validateProvenanceRole_none_iff, provenanceRoleOk_iff, ckeys_eq_of_map_gk h]
  obtain ⟨_, _, h3, _⟩ := buildPartyDetails_spec req avail
  constructor
  · intro hh k hk; exact hh k ((h3 k).mpr hk)
  · intro hh k hk; exact hh k ((h3 k).mp hk)

/-! ### smart-contract signers -/

theorem smartContractLoop_none_iff (env : Env) (mt : MsgType) (used : List Addr) :
    ∀ (l : List Addr), ∀ (canBeWasm : Bool), (∀ s ∈ l, env.valid s = true) →
      (smartContractLoop env mt used canBeWasm l = none ↔
        (if canBeWasm then Spec.smartContractsFirst env l = true else l.all (fun s => !env.wasm s) = true)
          ∧ Spec.smartContractsAuthorized env mt used l = true) := by
  intro l
  induction l with
  | nil => intro c _; cases c <;> simp [smartContractLoop, Spec.smartContractsFirst, Spec.smartContractsAuthorized]
  | cons s rest ih =>
    intro c hvalid
    have hvs : env.valid s = true := hvalid s (by simp)
    have hvr : ∀ x ∈ rest, env.valid x = true := fun x hx => hvalid x (by simp [hx])
    have hauth : (rest.all fun granter => (findAuthzGrantee env mt granter [s]).isSome)
        = rest.all fun later => Spec.authorizes env mt later s := by
      rw [Bool.eq_iff_iff, List.all_eq_true, List.all_eq_true]
      apply forall_congr'; intro g
      apply imp_congr_right; intro hg
      rw [findAuthzGrantee_isSome_iff, authorizes_iff]
      simp [hvr g hg, hvs]
    unfold smartContractLoop
    simp only [Spec.smartContractsAuthorized, Spec.smartContractsFirst]
    rcases hw : env.wasm s
    · -- ordinary signer: no smart contract may follow
      simp only [Bool.false_and, Bool.false_eq_true, ↓reduceIte, Bool.not_false]
      rw [ih false hvr]
      cases c <;> simp [hw, List.dropWhile_cons]
    · cases c
      · simp [hw]
      · simp only [Bool.not_true, Bool.and_false, Bool.false_eq_true, ↓reduceIte]
        by_cases hu : used.contains s = true
        · simp only [hu, ↓reduceIte]
          rw [ih true hvr]
          simp [hw, List.dropWhile_cons, Spec.smartContractsFirst]
        · simp only [hu, Bool.false_eq_true, ↓reduceIte]
          by_cases he : rest.isEmpty = true
          · simp [he, hu, hw]
          · simp only [he, Bool.false_eq_true, ↓reduceIte]
            rw [hauth]
            by_cases ha : (rest.all fun later => Spec.authorizes env mt later s) = true
            · simp only [ha, ↓reduceIte]
              rw [ih true hvr]
              simp [hw, List.dropWhile_cons, Spec.smartContractsFirst, he, ha]
            · simp [ha, hu, hw, he]

theorem validateSmartContractSigners_none_iff (env : Env) (mt : MsgType) (used signers : List Addr) :
    validateSmartContractSigners env mt used signers = none ↔
      Spec.smartContractOk env mt used signers = true := by
  unfold validateSmartContractSigners Spec.smartContractOk
  by_cases hv : signers.all env.valid = true
  · have hv' : ∀ s ∈ signers, env.valid s = true := by simpa using hv
    have hany : signers.any (fun s => !env.valid s) = false := by
      rw [List.any_eq_false]; intro s hs; simp [hv' s hs]
    rw [hany]
    simp only [Bool.false_eq_true, ↓reduceIte, hv, Bool.true_and, Bool.and_eq_true]
    rw [smartContractLoop_none_iff env mt used signers true hv']
    simp
  · have hany : signers.any (fun s => !env.valid s) = true := by
      rw [List.any_eq_true]
      simp only [List.all_eq_true, not_forall] at hv
      obtain ⟨s, hs, hns⟩ := hv
      exact ⟨s, hs, by simpa using hns⟩
    simp [hany, hv]

/-! ### without parties -/

theorem associateAuthorizations_id_of_no_unsigned (env : Env) (mt : MsgType) (signers : List Addr)
    (l : List PartyDetails) (h : (findUnsignedRequired l).isEmpty = true) :
    associateAuthorizations env mt signers (fun p => p.isRequired && !p.hasSigner) l = l := by
  rw [List.isEmpty_iff, findUnsignedRequired, List.filter_eq_nil_iff] at h
  unfold associateAuthorizations
  conv_rhs => rw [← List.map_id l]
  apply List.map_congr_left
  intro p hp
  have := h p hp
  simp only [Bool.and_eq_true, Bool.not_eq_true', not_and, Bool.not_eq_false] at this
  by_cases hr : p.isRequired = true
  · simp [hr, this hr]
  · simp [hr]

def wrapAddr (a : Addr) : PartyDetails :=
  wrapRequiredParty { address := a, role := roleUNSPECIFIED, optional := false }

/-- `validateAllRequiredSigned` against the spec -/
theorem validateAllRequiredSigned_char (env : Env) (mt : MsgType) (required signers : List Addr)
    (hv : env.valid "" = false) :
    (Spec.withoutPartiesOk env mt required signers = false →
      ∃ who, validateAllRequiredSigned env mt required signers = .error (.missingSig who))
    ∧ (Spec.withoutPartiesOk env mt required signers = true →
        validateAllRequiredSigned env mt required signers
          = .ok ((required.map wrapAddr).map (stage1fn env mt signers))) := by
  have hB : ∀ d ∈ required.map wrapAddr, Fresh d := by
    intro d hd
    obtain ⟨a, _, rfl⟩ := List.mem_map.mp hd
    simp [wrapAddr, wrapRequiredParty, Fresh]
  have hun := unsigned_empty_iff env mt signers hv _ hB
  have hspec : (∀ d ∈ required.map wrapAddr, d.isRequired = true → Spec.covered env mt signers d.address = true)
      ↔ Spec.withoutPartiesOk env mt required signers = true := by
    unfold Spec.withoutPartiesOk
    rw [List.all_eq_true]
    simp [wrapAddr, wrapRequiredParty, PartyDetails.isRequired]
  rw [hspec] at hun
  have hstage : (let details := associateSigners (required.map wrapAddr) signers
      if (findUnsignedRequired details).isEmpty then details
      else associateAuthorizations env mt signers (fun p => p.isRequired && !p.hasSigner) details)
      = (required.map wrapAddr).map (stage1fn env mt signers) := by
    simp only
    split_ifs with he
    · rw [← associateAuthorizations_id_of_no_unsigned env mt signers _ he, stage1_eq_map]
    · rw [stage1_eq_map]
  unfold validateAllRequiredSigned
  have hw : (required.map fun a => wrapRequiredParty { address := a, role := roleUNSPECIFIED, optional := false })
      = required.map wrapAddr := rfl
  simp only [hw] at hstage ⊢
  rw [hstage]
  constructor
  · intro h
    have : (findUnsignedRequired ((required.map wrapAddr).map (stage1fn env mt signers))).isEmpty = false := by
      by_contra hc
      have := hun.mp (by simpa using hc)
      rw [h] at this; exact absurd this (by simp)
    simp only [this, Bool.not_false, ↓reduceIte]
    exact ⟨_, rfl⟩
  · intro h
    simp only [hun.mpr h, Bool.not_true, Bool.false_eq_true, ↓reduceIte]

/-! ### roles present (no signatures) -/

theorem validateRolesPresent_none_iff (parties : List Party) (roles : List Role) :
    validateRolesPresent parties roles = none ↔ Spec.rolesPresent parties roles = true := by
  obtain ⟨bFresh, _, _, _⟩ := buildPartyDetails_spec [] parties
  obtain ⟨a1, _, _, _⟩ := associateRolesWith_spec (fun _ => true) (by intro p; rfl) roles
    (buildPartyDetails [] parties)
  have hcnt : ∀ r, cnt (fun _ => true) r (buildPartyDetails [] parties) = Spec.withRole parties r := by
    intro r
    unfold cnt Spec.withRole
    rw [← count_build_eq_distinct [] parties (fun k => k.2 == r)]
    apply List.countP_congr
    intro p hp
    have := (bFresh p hp).2
    simp [PartyDetails.isStillUsableAs, PartyDetails.canBeUsed, PartyDetails.isUsed, this, key]
  unfold validateRolesPresent rolesPresentLoop
  have hfun : (fun (role : Role) (p : PartyDetails) => p.isStillUsableAs role)
      = fun role p => p.isStillUsableAs role && (fun _ => true) p := by
    funext role p; simp
  simp only [hfun] at a1 ⊢
  generalize associateRolesWith (fun role p => p.isStillUsableAs role && (fun _ => true) p)
    (buildPartyDetails [] parties) roles = res at a1 ⊢
  unfold Spec.rolesPresent
  rw [List.all_eq_true]
  constructor
  · intro h q _
    have hempty : res.2 = [] := by
      by_contra hne
      have : (!res.2.isEmpty) = true := by simp [List.isEmpty_iff, hne]
      simp [this] at h
    have := a1 q
    rw [hempty, hcnt] at this
    simp only [List.count_nil] at this
    simp only [decide_eq_true_eq]
    omega
  · intro h
    have hempty : res.2 = [] := by
      apply List.eq_nil_iff_forall_not_mem.mpr
      intro q hq
      have hpos : 0 < res.2.count q := List.count_pos_iff.mpr hq
      have h1 := a1 q
      rw [hcnt] at h1
      by_cases hqr : q ∈ roles
      · have := h q hqr
        simp only [decide_eq_true_eq] at this
        omega
      · have : roles.count q = 0 := List.count_eq_zero.mpr hqr
        omega
    simp [hempty]

/-! ### who the recorded signers are -/

theorem addAvailable_addr (l : List Party) : ∀ acc : List PartyDetails,
    ∀ d ∈ addAvailable acc l, d ∈ acc ∨ ∃ p ∈ l, d.address = p.address := by
  induction l with
  | nil => intro acc d hd; exact Or.inl (by simpa [addAvailable] using hd)
  | cons p rest ih =>
    intro acc d hd
    unfold addAvailable at hd
    split_ifs at hd
    · rcases ih acc d hd with h | ⟨q, hq, h⟩
      · exact Or.inl h
      · exact Or.inr ⟨q, List.mem_cons_of_mem _ hq, h⟩
    · rcases ih _ d hd with h | ⟨q, hq, h⟩
      · rcases List.mem_append.mp h with h | h
        · exact Or.inl h
        · simp at h; subst h; exact Or.inr ⟨p, by simp, by simp [wrapAvailableParty]⟩
      · exact Or.inr ⟨q, List.mem_cons_of_mem _ hq, h⟩

theorem addRequired_addr (l : List Party) : ∀ details : List PartyDetails,
    ∀ d ∈ addRequired details l, (∃ d0 ∈ details, d.address = d0.address) ∨ ∃ p ∈ l, d.address = p.address := by
  induction l with
  | nil => intro details d hd; exact Or.inl ⟨d, by simpa [addRequired] using hd, rfl⟩
  | cons r rest ih =>
    intro details d hd
    unfold addRequired at hd
    split_ifs at hd
    · rcases ih details d hd with h | ⟨q, hq, h⟩
      · exact Or.inl h
      · exact Or.inr ⟨q, List.mem_cons_of_mem _ hq, h⟩
    · cases hu : updateFirst (fun x => x.isSameAs r) PartyDetails.makeRequired details with
      | some details' =>
        rw [hu] at hd
        rcases ih details' d hd with ⟨d0, hd0, h⟩ | ⟨q, hq, h⟩
        · obtain ⟨pre, x, post, rfl, rfl, _, _⟩ := updateFirst_decomp hu
          simp only [List.mem_append, List.mem_cons] at hd0
          rcases hd0 with h0 | rfl | h0
          · exact Or.inl ⟨d0, by simp [h0], h⟩
          · exact Or.inl ⟨x, by simp, by simpa [PartyDetails.makeRequired] using h⟩
          · exact Or.inl ⟨d0, by simp [h0], h⟩
        · exact Or.inr ⟨q, List.mem_cons_of_mem _ hq, h⟩
      | none =>
        rw [hu] at hd
        rcases ih _ d hd with ⟨d0, hd0, h⟩ | ⟨q, hq, h⟩
        · rcases List.mem_append.mp hd0 with h0 | h0
          · exact Or.inl ⟨d0, h0, h⟩
          · simp at h0; subst h0; exact Or.inr ⟨r, by simp, by simpa [wrapRequiredParty] using h⟩
        · exact Or.inr ⟨q, List.mem_cons_of_mem _ hq, h⟩

theorem buildPartyDetails_addr (req avail : List Party) :
    ∀ d ∈ buildPartyDetails req avail, ∃ p ∈ req ++ avail, d.address = p.address := by
  intro d hd
  unfold buildPartyDetails at hd
  rcases addRequired_addr req _ d hd with ⟨d0, hd0, h⟩ | ⟨q, hq, h⟩
  · rcases addAvailable_addr avail [] d0 hd0 with h0 | ⟨q, hq, h1⟩
    · simp at h0
    · exact ⟨q, by simp [hq], h.trans h1⟩
  · exact ⟨q, by simp [hq], h⟩

theorem addr_of_shape {l B : List PartyDetails} (h : l.map gk = B.map gk) :
    ∀ p ∈ l, ∃ d ∈ B, p.address = d.address := by
  intro p hp
  have : gk p ∈ B.map gk := h ▸ List.mem_map_of_mem hp
  obtain ⟨d, hd, hgk⟩ := List.mem_map.mp this
  exact ⟨d, hd, by simp [gk] at hgk; exact hgk.2.1.symm⟩

/-- Every recorded signer is a signer of the message, and is a party's own address or holds
an applicable authz grant from a party. -/
theorem usedSigners_sound (env : Env) (mt : MsgType) (signers : List Addr) (parties : List Party)
    (ps : List PartyDetails) (hso : ∀ p ∈ ps, SignerOk env mt signers p)
    (haddr : ∀ p ∈ ps, ∃ q ∈ parties, p.address = q.address) :
    ∀ w ∈ getUsedSigners ps, w ∈ signers ∧
      ∃ q ∈ parties, w = q.address ∨ Spec.authorizes env mt q.address w = true := by
  intro w hw
  simp only [getUsedSigners, List.mem_map, List.mem_filter] at hw
  obtain ⟨p, ⟨hp, hhas⟩, rfl⟩ := hw
  obtain ⟨q, hq, hpq⟩ := haddr p hp
  have hne : p.signer ≠ "" := by simpa [PartyDetails.hasSigner] using hhas
  rcases (hso p hp).1 with h | ⟨h1, h2⟩ | h
  · exact absurd h hne
  · refine ⟨?_, q, hq, Or.inl (h1.trans hpq)⟩
    simp only [Spec.signsDirectly, Bool.and_eq_true] at h2
    rw [h1]; simpa using h2.2
  · obtain ⟨hva, hg, hauth⟩ := findAuthzGrantee_eq_some h
    simp only [accs, List.mem_filter] at hg
    exact ⟨hg.1, q, hq, Or.inr (by rw [← hpq]; exact (authorizes_iff env mt _ _).mpr ⟨hva, hg.2, hauth⟩)⟩

/-- An available party that signs directly is recorded as its own signer. -/
theorem usedSigners_direct (env : Env) (mt : MsgType) (signers : List Addr) (req avail : List Party)
    (ps : List PartyDetails) (hshape : ps.map gk = (buildPartyDetails req avail).map gk)
    (hso : ∀ p ∈ ps, SignerOk env mt signers p) :
    ∀ q ∈ avail, Spec.signsDirectly signers q.address = true → q.address ∈ getUsedSigners ps := by
  intro q hq hd
  obtain ⟨_, _, h3, _⟩ := buildPartyDetails_spec req avail
  have hk : pkey q ∈ ckeys ps := by
    rw [ckeys_eq_of_map_gk hshape, h3]; exact List.mem_map_of_mem hq
  simp only [ckeys, List.mem_filterMap] at hk
  obtain ⟨p, hp, hpk⟩ := hk
  by_cases hc : p.canBeUsedBySpec = true
  · simp only [hc, ↓reduceIte, Option.some.injEq, key, pkey, Prod.mk.injEq] at hpk
    have hs := (hso p hp).2 (by rw [hpk.1]; exact hd)
    simp only [getUsedSigners, List.mem_map, List.mem_filter]
    refine ⟨p, ⟨hp, ?_⟩, by rw [hs, hpk.1]⟩
    simp only [Spec.signsDirectly, Bool.and_eq_true, bne_iff_ne] at hd
    simp [PartyDetails.hasSigner, hs, hpk.1, hd.1]
  · simp [hc] at hpk

end PvProofs.Lemmas.Signers
