/-
Helper lemmas for C01: positivity is preserved by `Order.Split` / `splitPartial`, and the converses
of the per-side loops (when `validateSide` / `recordSide` succeed).
-/
import PvProofs.Lemmas.SettlePriceExact
namespace PvProofs.Settle
open PvModel PvModel.Settle PvModel.Coins

theorem orderPos_of_valid {o : Order} (h : orderValid o = true) : OrderPos o := by
  simp only [orderValid, Bool.and_eq_true, decide_eq_true_eq, List.all_eq_true] at h
  exact ⟨h.1.1.1.1.1, h.1.1.1.1.2, fun x hx => by have := h.1.1.1.2 x hx; omega⟩

theorem splitFees_bounds {f total : Int} {fees ff : Coins} (h : splitFees f total fees = .ok ff)
    (hf : 0 ≤ f) (hft : f ≤ total) (ht : 0 < total) (hfees : NonnegFees fees) :
    NonnegFees ff ∧ NonnegFees (subFees fees ff) := by
  induction fees generalizing ff with
  | nil => simp [splitFees] at h; subst h; exact ⟨by intro x hx; simp at hx, by intro x hx; simp [subFees] at hx⟩
  | cons c rest ih =>
    obtain ⟨d', x⟩ := c
    have hx : 0 ≤ x := hfees (d', x) (by simp)
    simp only [splitFees] at h
    split at h; · simp at h
    rename_i p hp
    obtain ⟨rfl, _⟩ := mul_ok hp
    split at h; · simp at h
    rename_i hrem
    simp only [ne_eq, Decidable.not_not] at hrem
    split at h; · simp at h
    rename_i r hr
    simp only [Except.ok.injEq] at h
    subst h
    obtain ⟨i1, i2⟩ := ih hr (fun y hy => hfees y (by simp [hy]))
    have hq : 0 ≤ (x * f).tdiv total := Int.tdiv_nonneg (Int.mul_nonneg hx hf) (by omega)
    have hle : (x * f).tdiv total ≤ x := by
      have h1 := tdiv_exact hrem
      by_contra hn
      have h2 : x + 1 ≤ (x * f).tdiv total := by omega
      have h3 : (x + 1) * total ≤ (x * f).tdiv total * total := Int.mul_le_mul_of_nonneg_right h2 (by omega)
      have h4 : x * f ≤ x * total := Int.mul_le_mul_of_nonneg_left hft hx
      have h5 : (x + 1) * total = x * total + total := by rw [Int.add_mul]; omega
      omega
    refine ⟨?_, ?_⟩
    · intro y hy
      simp only [List.mem_cons] at hy
      rcases hy with rfl | hy
      · exact hq
      · exact i1 y hy
    · intro y hy
      simp only [subFees, List.mem_cons] at hy
      rcases hy with rfl | hy
      · simp; omega
      · exact i2 y hy

theorem nonneg_dropZero {c : Coins} (h : NonnegFees c) : NonnegFees (dropZero c) :=
  fun x hx => h x (List.mem_filter.mp hx).1

theorem split_orderPos {o a b : Order} {f : Int} (h : o.split f = .ok (a, b)) (ho : OrderPos o) :
    OrderPos a ∧ OrderPos b := by
  have F := split_facts h
  have hA : 0 < o.assets := ho.assets
  -- prices
  have hpa : 0 < a.price := by
    by_contra hn
    have : a.price * o.assets ≤ 0 := Int.mul_nonpos_of_nonpos_of_nonneg (by omega) (by omega)
    have : 0 < o.price * f := Int.mul_pos ho.price F.pos
    have := F.price_prop
    omega
  have hpb : 0 < b.price := by
    have h1 := F.price_sum
    have h2 := F.price_prop
    by_contra hn
    have h3 : o.price ≤ a.price := by omega
    have h4 : o.price * o.assets ≤ a.price * o.assets := Int.mul_le_mul_of_nonneg_right h3 (by omega)
    have h5 : o.price * f < o.price * o.assets := Int.mul_lt_mul_of_pos_left F.lt ho.price
    omega
  -- fees
  unfold Order.split at h
  split at h; · simp at h
  split at h; · simp at h
  split at h; · simp at h
  split at h; · simp at h
  split at h; · simp at h
  split at h; · simp at h
  split at h; · simp at h
  rename_i ff hff
  obtain ⟨g1, g2⟩ := splitFees_bounds hff (by have := F.pos; omega) (by have := F.lt; omega) hA ho.fees
  simp only [Except.ok.injEq, Prod.mk.injEq] at h
  obtain ⟨rfl, rfl⟩ := h
  exact ⟨⟨F.pos, hpa, nonneg_dropZero g1⟩, ⟨by have := F.lt; simp; omega, hpb, nonneg_dropZero g2⟩⟩


theorem splitOrderFulfillments_pos {filled : Nat → Int} {i : Nat} {os os' : List Order} {left left' : Option Order}
    (h : splitOrderFulfillments filled i os left = .ok (os', left')) (hpos : ∀ o ∈ os, OrderPos o) :
    (∀ o ∈ os', OrderPos o) ∧ (∀ k o, os'[k]? = some o → o.assets = filled (i + k)) := by
  rcases splitOrderFulfillments_spec h with ⟨e1, e2, e3⟩ | ⟨init, o, f, u, e1, e2, e3, e4, e5, e6⟩
  · subst e1; exact ⟨hpos, e3⟩
  · subst e1 e2
    have ho : OrderPos o := hpos o (by simp)
    obtain ⟨pf, _⟩ := split_orderPos e5 ho
    refine ⟨?_, ?_⟩
    · intro o' ho'
      simp only [List.mem_append, List.mem_singleton] at ho'
      rcases ho' with h' | rfl
      · exact hpos o' (by simp [h'])
      · exact pf
    · intro k o' hk
      by_cases hlt : k < init.length
      · rw [List.getElem?_append_left hlt] at hk
        exact e6 k o' hk
      · rw [List.getElem?_append_right (by omega)] at hk
        have hk0 : k - init.length = 0 := by
          by_contra hne
          have : ([f] : List Order)[k - init.length]? = none := by
            rw [List.getElem?_eq_none_iff]; simp; omega
          rw [this] at hk; cases hk
        rw [hk0] at hk
        simp only [List.getElem?_cons_zero, Option.some.injEq] at hk
        subst hk
        have : k = init.length := by omega
        subst this
        exact (split_facts e5).a_assets

theorem validateSide_of {isAsk : Bool} {applied filled : Nat → Int} {i : Nat} {os : List Order}
    (h : ∀ k o, os[k]? = some o →
      (isAsk = true → o.price ≤ applied (i + k)) ∧ (isAsk = false → o.price = applied (i + k)) ∧
      o.assets = filled (i + k)) :
    validateSide isAsk applied filled i os = .ok () := by
  induction os generalizing i with
  | nil => rfl
  | cons o rest ih =>
    obtain ⟨h1, h2, h3⟩ := h 0 o (by simp)
    simp only [Nat.add_zero] at h1 h2 h3
    simp only [validateSide]
    rw [if_neg (by intro ⟨ha, hgt⟩; have := h1 ha; omega), if_neg (by
      intro ⟨hb, hne⟩
      have : isAsk = false := by simpa using hb
      exact hne (h2 this)), if_neg (by simpa using h3)]
    apply ih
    intro k o' hk
    have := h (k + 1) o' (by simpa using hk)
    rwa [show i + (k + 1) = i + 1 + k by omega] at this

theorem any_neg_false {f : Coins} (h : NonnegFees f) : f.any (fun c => decide (c.2 < 0)) = false := by
  rw [List.any_eq_false]
  intro x hx
  have := h x hx
  simp; omega

theorem recordSide_of {getter : Nat → Order → Except Err Transfer} {i : Nat} {os : List Order} {fees : List Coins}
    (hg : ∀ k o, os[k]? = some o → ∃ t, getter (i + k) o = .ok t) (hf : ∀ f ∈ fees, NonnegFees f) :
    ∃ ts, recordSide getter i os fees = .ok ts := by
  induction os generalizing i fees with
  | nil => exact ⟨[], rfl⟩
  | cons o rest ih =>
    obtain ⟨t, ht⟩ := hg 0 o (by simp)
    simp only [Nat.add_zero] at ht
    have hh : NonnegFees (fees.headD []) := by
      cases fees with
      | nil => intro x hx; simp at hx
      | cons f fs => exact hf f (by simp)
    obtain ⟨ts, hts⟩ := @ih (i + 1) fees.tail
      (fun k o' hk => by
        have := hg (k + 1) o' (by simpa using hk)
        rwa [show i + (k + 1) = i + 1 + k by omega] at this)
      (fun f hf' => hf f (List.mem_of_mem_tail hf'))
    refine ⟨t :: ts, ?_⟩
    simp only [recordSide, ht, any_neg_false hh, hts]
    simp

theorem getAssetTransfer_ok {trA : List Tr} {bids : List Order} {i : Nat} {o : Order}
    (h1 : 0 < filledA trA i) (h2 : ∀ e ∈ trA, 0 < e.amt) : ∃ t, getAssetTransfer trA bids i o = .ok t := by
  unfold getAssetTransfer
  rw [if_neg (by omega), if_neg]
  · exact ⟨_, rfl⟩
  · simp only [Bool.not_eq_true, List.any_eq_false, distsOfAsk, List.mem_map, List.mem_filter]
    rintro x ⟨e, ⟨he, _⟩, rfl⟩
    have := h2 e he
    simp; omega

theorem getPriceTransfer_ok {trP : List Tr} {asks : List Order} {j : Nat} {o : Order}
    (h1 : 0 < filledB trP j) (h2 : ∀ e ∈ trP, 0 < e.amt) : ∃ t, getPriceTransfer trP asks j o = .ok t := by
  unfold getPriceTransfer
  rw [if_neg (by omega), if_neg]
  · exact ⟨_, rfl⟩
  · simp only [Bool.not_eq_true, List.any_eq_false, distsOfBid, List.mem_map, List.mem_filter]
    rintro x ⟨e, ⟨he, _⟩, rfl⟩
    have := h2 e he
    simp; omega

theorem slot_zero_map (l : List Order) (f : Order → Int) (k : Nat) (o : Order) (h : l[k]? = some o) :
    slot 0 (l.map f) k = f o := by
  rw [slot_zero_eq]
  simp [List.getD, h]


end PvProofs.Settle
