/-
Helper lemmas for C13: the invariant of whole states is preserved by every message, hence
by every history.
-/
import PvProofs.Lemmas.ExrecPay

namespace PvProofs.Exrec
open PvModel.Exrec

/-- summary of one accepted store change that creates no order -/
structure OpOK (s s' : Store) : Prop where
  inv : IndexInv s → IndexInv s'
  noNew : NoNew s s'
  counter : s'.get keyLastOrderID = s.get keyLastOrderID
  known : ∀ m, s'.get (keyKnownMarketID m) = s.get (keyKnownMarketID m)

theorem OpOK.refl (s : Store) : OpOK s s := ⟨id, NoNew.refl s, rfl, fun _ => rfl⟩

theorem OpOK.trans {s s' s'' : Store} (h1 : OpOK s s') (h2 : OpOK s' s'') : OpOK s s'' :=
  ⟨fun h => h2.inv (h1.inv h), h1.noNew.trans h2.noNew, h2.counter.trans h1.counter,
   fun m => (h2.known m).trans (h1.known m)⟩

theorem OpOK.of_touches {s s' : Store} {hs : List Nat} (inv : IndexInv s → IndexInv s') (t : Touches s s' hs)
    (noNew : NoNew s s') (h8 : 8 ∉ hs) (h7 : 7 ∉ hs) : OpOK s s' :=
  ⟨inv, noNew, t.eq_of_head head_keyLastOrderID h8, fun m => t.eq_of_head (head_keyKnown m) h7⟩

/-- a change confined to key families other than orders, payments, counters and known markets -/
theorem OpOK.misc {s s' : Store} {hs : List Nat} (t : Touches s s' hs)
    (hd : ∀ b ∈ hs, b ∉ [2, 3, 4, 5, 9, 16, 112, 7, 8]) : OpOK s s' :=
  OpOK.of_touches (fun h => IndexInv.of_touches h t (fun b hb hm => hd b hb (by simp at hm ⊢; omega)))
    t (NoNew.of_touches t (fun h => hd 2 h (by simp))) (fun h => hd 8 h (by simp)) (fun h => hd 7 h (by simp))

theorem opOK_of_order {s s' : Store} (inv : IndexInv s → IndexInv s') (t : Touches s s' orderHeads)
    (n : NoNew s s') : OpOK s s' :=
  OpOK.of_touches inv t n (by simp [orderHeads]) (by simp [orderHeads])

theorem opOK_of_pay {s s' : Store} (h : PayInvF s.get → PayInvF s'.get ∧ Touches s s' payHeads) (hinv : IndexInv s) :
    OpOK s s' := by
  have hh := indexInvF_iff.mp hinv
  obtain ⟨hp, t⟩ := h hh.2
  exact OpOK.of_touches (fun _ => indexInvF_iff.mpr ⟨hh.1.of_touches t (by simp [payHeads]), hp⟩) t
    (NoNew.of_touches t (by simp [payHeads])) (by simp [payHeads]) (by simp [payHeads])

/-! ### commitments, flags -/

theorem touches_setCommitmentAmount (s : Store) (m : UInt32) (a : Bytes) (n : Nat) :
    Touches s (setCommitmentAmount s m a n) [99] := by
  unfold setCommitmentAmount
  split_ifs
  · exact Touches.del s _ (head_keyCommitment m a)
  · exact Touches.set s _ _ (head_keyCommitment m a)

theorem touches_releaseCommitment {s s' : Store} {m : UInt32} {a : Bytes} {n : Nat}
    (h : releaseCommitment s m a n = some s') : Touches s s' [99] := by
  unfold releaseCommitment at h
  dsimp only at h
  split_ifs at h <;> cases h <;> exact touches_setCommitmentAmount _ _ _ _

theorem touches_releaseAll (s : Store) (m : UInt32) : Touches s (releaseAllCommitmentsForMarket s m) [99] := by
  unfold releaseAllCommitmentsForMarket
  refine foldl_preserves (fun a b => Touches a b [99]) (fun a => Touches.refl a _)
    (fun a b c h1 h2 => h1.trans h2) _ ?_ _ s
  intro a e
  split
  · next addr _ =>
    cases hr : releaseCommitment a m addr 0 with
    | none => exact Touches.refl _ _
    | some a' => exact touches_releaseCommitment hr
  · exact Touches.refl _ _

theorem opOK_closeMarket (s : Store) (m : UInt32) : OpOK s (closeMarket s m) := by
  unfold closeMarket
  dsimp only
  have h1 : OpOK s (if isMarketAcceptingOrders s m = true then s.set (keyMarketNotAcceptingOrders m) .empty else s) := by
    split_ifs
    · exact OpOK.misc (Touches.set s _ _ (head_keyNotAccepting m)) (by simp)
    · exact OpOK.refl s
  refine h1.trans ?_
  generalize (if isMarketAcceptingOrders s m = true then s.set (keyMarketNotAcceptingOrders m) .empty else s) = s1
  have h2 : OpOK s1 (if isMarketAcceptingCommitments s1 m = true then s1.del (keyMarketAcceptingCommitments m) else s1) := by
    split_ifs
    · exact OpOK.misc (Touches.del s1 _ (head_keyAcceptingCommitments m)) (by simp)
    · exact OpOK.refl s1
  refine h2.trans ?_
  generalize (if isMarketAcceptingCommitments s1 m = true then s1.del (keyMarketAcceptingCommitments m) else s1) = s2
  obtain ⟨i, t, n⟩ := cancelAll_good s2 m authority
  exact (opOK_of_order i t n).trans (OpOK.misc (touches_releaseAll _ m) (by simp))

/-! ### every accepted message except order and market creation -/

theorem opOK_apply {st st' : State} {op : Op} {r : Res} (hinv : IndexInv st.kv) (h : apply st op = some (st', r))
    (hc : ∀ o, op ≠ .create o) (hm : ∀ i n, op ≠ .mkMarket i n) : OpOK st.kv st'.kv ∧ st'.accts = st.accts := by
  have wk : ∀ {x : Option Store}, withKv st x = some (st', r) → ∃ kv, x = some kv ∧ st' = { st with kv := kv } := by
    intro x hr
    unfold withKv at hr
    cases x with
    | none => cases hr
    | some kv => simp at hr; exact ⟨kv, rfl, hr.1.symm⟩
  cases op with
  | mkMarket i n => exact absurd rfl (hm i n)
  | create o => exact absurd rfl (hc o)
  | closeMarket m =>
    simp only [apply] at h
    split_ifs at h
    simp only [Option.some.injEq, Prod.mk.injEq] at h
    obtain ⟨rfl, _⟩ := h
    exact ⟨opOK_closeMarket _ _, rfl⟩
  | setAccepting m a signer =>
    obtain ⟨kv, hk, rfl⟩ := wk h
    refine ⟨?_, rfl⟩
    unfold updateAcceptingOrders at hk
    split_ifs at hk <;> cases hk
    · exact OpOK.misc (Touches.del _ _ (head_keyNotAccepting m)) (by simp)
    · exact OpOK.misc (Touches.set _ _ _ (head_keyNotAccepting m)) (by simp)
  | setAcceptingCommitments m a signer =>
    obtain ⟨kv, hk, rfl⟩ := wk h
    refine ⟨?_, rfl⟩
    unfold updateAcceptingCommitments at hk
    split_ifs at hk <;> cases hk
    · exact OpOK.misc (Touches.set _ _ _ (head_keyAcceptingCommitments m)) (by simp)
    · exact OpOK.misc (Touches.del _ _ (head_keyAcceptingCommitments m)) (by simp)
  | cancel id signer up =>
    simp only [apply] at h
    split_ifs at h
    obtain ⟨kv, hk, rfl⟩ := wk h
    exact ⟨opOK_of_order (fun hi => inv_cancelOrder hi hk) (touches_cancelOrder hk) (noNew_cancelOrder hk), rfl⟩
  | setExt m id ext signer =>
    obtain ⟨kv, hk, rfl⟩ := wk h
    exact ⟨opOK_of_order (fun hi => inv_setOrderExternalID hi hk) (touches_setOrderExternalID hk)
      (noNew_setOrderExternalID hk), rfl⟩
  | settle m a b p signer =>
    obtain ⟨kv, hk, rfl⟩ := wk h
    exact ⟨opOK_of_order (fun hi => inv_settle hi hk) (touches_settle hk) (noNew_settle hk), rfl⟩
  | fill m wb f fu ids total =>
    obtain ⟨kv, hk, rfl⟩ := wk h
    exact ⟨opOK_of_order (fun hi => inv_fillOrders hi hk) (touches_fillOrders hk) (noNew_fillOrders hk), rfl⟩
  | commit m a amt =>
    obtain ⟨kv, hk, rfl⟩ := wk h
    refine ⟨?_, rfl⟩
    unfold commitFunds at hk
    split_ifs at hk
    cases hk
    exact OpOK.misc (touches_setCommitmentAmount _ _ _ _) (by simp)
  | release m a amt signer =>
    obtain ⟨kv, hk, rfl⟩ := wk h
    refine ⟨?_, rfl⟩
    unfold marketReleaseCommitment at hk
    split_ifs at hk
    exact OpOK.misc (touches_releaseCommitment hk) (by simp)
  | pay p =>
    obtain ⟨kv, hk, rfl⟩ := wk h
    exact ⟨opOK_of_pay (fun hp => pay_createPayment hp hk) hinv, rfl⟩
  | payAccept s e t su tu =>
    obtain ⟨kv, hk, rfl⟩ := wk h
    exact ⟨opOK_of_pay (fun hp => pay_acceptPayment hp hk) hinv, rfl⟩
  | payReject t s e =>
    obtain ⟨kv, hk, rfl⟩ := wk h
    exact ⟨opOK_of_pay (fun hp => pay_rejectPayment hp hk) hinv, rfl⟩
  | payRejectAll t ss =>
    obtain ⟨kv, hk, rfl⟩ := wk h
    exact ⟨opOK_of_pay (fun hp => pay_rejectPayments hp hk) hinv, rfl⟩
  | payCancel s es =>
    obtain ⟨kv, hk, rfl⟩ := wk h
    exact ⟨opOK_of_pay (fun hp => pay_cancelPayments hp hk) hinv, rfl⟩
  | payTarget s e t =>
    obtain ⟨kv, hk, rfl⟩ := wk h
    exact ⟨opOK_of_pay (fun hp => pay_updatePaymentTarget hp hk) hinv, rfl⟩


/-! ### order creation -/

theorem getLastOrderID_of_get {s : Store} {n : UInt64} (h : s.get keyLastOrderID = some (.u64 n)) :
    getLastOrderID s = n := by
  unfold getLastOrderID; rw [h]

theorem getLastOrderID_congr {s s' : Store} (h : s'.get keyLastOrderID = s.get keyLastOrderID) :
    getLastOrderID s' = getLastOrderID s := by
  unfold getLastOrderID; rw [h]

theorem createOrder_spec {s s' : Store} {o : Order} {id : UInt64}
    (hinv : IndexInv s) (hctr : CounterInv s) (hb : (getLastOrderID s).toNat + 1 < 2 ^ 64)
    (h : createOrder s o = some (s', id)) :
    IndexInv s' ∧ CounterInv s' ∧ id = getLastOrderID s + 1 ∧ getLastOrderID s' = id ∧
      (∀ m, s'.get (keyKnownMarketID m) = s.get (keyKnownMarketID m)) := by
  unfold createOrder at h
  split_ifs at h
  simp only [nextOrderID] at h
  split at h
  · cases h
  · next s2 hset =>
    simp only [Option.some.injEq, Prod.mk.injEq] at h
    obtain ⟨rfl, rfl⟩ := h
    have hnid : (getLastOrderID s + 1).toNat = (getLastOrderID s).toNat + 1 := by
      rw [UInt64.toNat_add]
      have : (1 : UInt64).toNat = 1 := rfl
      rw [this]; omega
    have hh := indexInvF_iff.mp hinv
    have t1 : Touches s (s.set keyLastOrderID (.u64 (getLastOrderID s + 1))) [8] :=
      Touches.set s _ _ head_keyLastOrderID
    have ho1 := hh.1.of_touches t1 (by simp)
    have hp1 := hh.2.of_touches t1 (by simp)
    have hnew : (s.set keyLastOrderID (.u64 (getLastOrderID s + 1))).get (keyOrder (getLastOrderID s + 1)) = none := by
      rw [t1.eq_of_head (head_keyOrder _) (by simp)]
      cases hv : s.get (keyOrder (getLastOrderID s + 1)) with
      | none => rfl
      | some v => have := (hctr _ v hv).2; omega
    obtain ⟨hconf, hg⟩ := setOrderInStore_new (o := { o with id := getLastOrderID s + 1 }) hnew hset
    have hext : o.ext ≠ [] → (s.set keyLastOrderID (.u64 (getLastOrderID s + 1))).get
        (idxMarketExternalIDToOrder o.market o.ext) = none := by
      intro hx
      cases hv : (s.set keyLastOrderID (.u64 (getLastOrderID s + 1))).get (idxMarketExternalIDToOrder o.market o.ext) with
      | none => rfl
      | some v =>
        exfalso
        obtain ⟨id2, o2, ho2, hm⟩ := ho1.no_dangling _ v rfl hv
        have hid2 := ho1.record_id ho2
        rcases mem_orderIndexEntries.mp hm with hq | hq | hq | ⟨hx2, hq⟩ <;>
          simp [idxMarketToOrder, idxAddressToOrder, idxAssetToOrder, idxMarketExternalIDToOrder] at hq
        obtain ⟨_, rfl⟩ := hq
        have := hconf hx o2.id hv
        simp only at this
        rw [hid2] at this; subst this
        rw [hnew] at ho2; cases ho2
    have ho2 : OrderInvF s2.get := ho1.insert (o := { o with id := getLastOrderID s + 1 }) hnew hext hg
    have t2 := touches_setOrderInStore hset
    have hp2 := hp1.of_touches t2 (by simp [orderHeads])
    have hlast : getLastOrderID s2 = getLastOrderID s + 1 := by
      apply getLastOrderID_of_get
      rw [t2.eq_of_head head_keyLastOrderID (by simp [orderHeads]), get_set, if_pos rfl]
    refine ⟨indexInvF_iff.mpr ⟨ho2, hp2⟩, ?_, rfl, hlast, fun m => ?_⟩
    · intro i v hv
      rw [hlast, hnid]
      rw [hg] at hv
      split_ifs at hv with hk
      · have := keyOrder_inj.mp hk
        subst this
        simp only at hnid ⊢
        omega
      · cases hev : entryVal { o with id := getLastOrderID s + 1 } (keyOrder i) with
        | some v' => exact absurd rfl (index_ne_keyOrder (isOrderIndexKey_of_mem (entryVal_some hev)) i)
        | none =>
          rw [hev] at hv
          simp only at hv
          rw [t1.eq_of_head (head_keyOrder _) (by simp)] at hv
          have := hctr i v hv
          omega
    · rw [t2.eq_of_head (head_keyKnown m) (by simp [orderHeads]), t1.eq_of_head (head_keyKnown m) (by simp)]

/-! ### market creation -/

theorem touches_nextMarketID (s : Store) : Touches s (nextMarketID s).1 [6] :=
  Touches.set s _ _ head_keyLastMarketID

theorem get_storeMarket_known (s : Store) (m m' : UInt32) :
    (storeMarket s m).get (keyKnownMarketID m') = if m' = m then some .empty else s.get (keyKnownMarketID m') := by
  unfold storeMarket
  rw [get_set, if_neg (by simp [keyKnownMarketID, keyMarketAcceptingCommitments]), get_del,
    if_neg (by simp [keyKnownMarketID, keyMarketNotAcceptingOrders]), get_set]
  simp

theorem touches_storeMarket (s : Store) (m : UInt32) : Touches s (storeMarket s m) [7, 1] := by
  unfold storeMarket
  exact ((Touches.set s _ _ (head_keyKnown m)).mono (by simp)).trans
    (((Touches.del _ _ (head_keyNotAccepting m)).mono (by simp)).trans
      ((Touches.set _ _ _ (head_keyAcceptingCommitments m)).mono (by simp)))

theorem createMarket_spec {st st' : State} {i : UInt32} {n : String} {mid : UInt32}
    (h : createMarket st i n = some (st', mid)) :
    mid ∉ st.accts.map Prod.fst ∧ st'.accts = (mid, n) :: st.accts ∧ Touches st.kv st'.kv [6, 7, 1] ∧
      ∀ m', st'.kv.get (keyKnownMarketID m') = if m' = mid then some .empty else st.kv.get (keyKnownMarketID m') := by
  unfold createMarket at h
  by_cases hi : i = 0
  · simp only [hi, ↓reduceIte] at h
    split_ifs at h with hany
    simp only [Option.some.injEq, Prod.mk.injEq] at h
    obtain ⟨rfl, rfl⟩ := h
    refine ⟨?_, rfl, ?_, fun m' => ?_⟩
    · intro hm
      apply hany
      obtain ⟨a, ha, he⟩ := List.mem_map.mp hm
      exact List.any_eq_true.mpr ⟨a, ha, by simpa using he⟩
    · exact ((touches_nextMarketID st.kv).mono (by simp)).trans ((touches_storeMarket _ _).mono (by simp))
    · simp only
      rw [get_storeMarket_known, (touches_nextMarketID st.kv).eq_of_head (head_keyKnown m') (by simp)]
  · simp only [hi, ↓reduceIte] at h
    split_ifs at h with hany
    simp only [Option.some.injEq, Prod.mk.injEq] at h
    obtain ⟨rfl, rfl⟩ := h
    refine ⟨?_, rfl, ?_, fun m' => ?_⟩
    · intro hm
      apply hany
      obtain ⟨a, ha, he⟩ := List.mem_map.mp hm
      exact List.any_eq_true.mpr ⟨a, ha, by simpa using he⟩
    · exact (touches_storeMarket _ _).mono (by simp)
    · simp only
      rw [get_storeMarket_known]

/-! ### whole states -/

structure Inv (st : State) : Prop where
  idx : IndexInv st.kv
  ctr : CounterInv st.kv
  mkt : MarketInv st

theorem CounterInv.of_opOK {s s' : Store} (h : CounterInv s) (ok : OpOK s s') : CounterInv s' := by
  intro i v hv
  obtain ⟨v', hv'⟩ := ok.noNew i v hv
  rw [getLastOrderID_congr ok.counter]
  exact h i v' hv'

theorem isMarketKnown_congr {s s' : Store} {m : UInt32} (h : s'.get (keyKnownMarketID m) = s.get (keyKnownMarketID m)) :
    isMarketKnown s' m = isMarketKnown s m := by
  unfold isMarketKnown Store.has; rw [h]

/-- how the last-order-id counter moves: to the id handed out, which is the old value plus one;
otherwise not at all -/
def ResOK (r : Res) (old new : UInt64) : Prop :=
  match r with
  | .orderId id => id = old + 1 ∧ new = id
  | _ => new = old

/-- every accepted message preserves the invariant; the last-order-id counter moves by at most one,
and exactly to the id handed out -/
theorem apply_inv {st st' : State} {op : Op} {r : Res} (hinv : Inv st)
    (hb : (getLastOrderID st.kv).toNat + 1 < 2 ^ 64) (h : apply st op = some (st', r)) :
    Inv st' ∧ ResOK r (getLastOrderID st.kv) (getLastOrderID st'.kv) := by
  by_cases hc : ∃ o, op = .create o
  · obtain ⟨o, rfl⟩ := hc
    simp only [apply] at h
    cases hco : createOrder st.kv o with
    | none => rw [hco] at h; cases h
    | some pr =>
      obtain ⟨kv, id⟩ := pr
      rw [hco] at h
      simp only [Option.map_some, Option.some.injEq, Prod.mk.injEq] at h
      obtain ⟨rfl, rfl⟩ := h
      obtain ⟨h1, h2, h3, h4, h5⟩ := createOrder_spec hinv.idx hinv.ctr hb hco
      refine ⟨⟨h1, h2, ⟨fun m => ?_, hinv.mkt.accts_nodup⟩⟩, h3, h4⟩
      show isMarketKnown kv m = true ↔ _
      rw [isMarketKnown_congr (h5 m)]
      exact hinv.mkt.known_iff m
  · by_cases hm : ∃ i n, op = .mkMarket i n
    · obtain ⟨i, n, rfl⟩ := hm
      simp only [apply] at h
      cases hcm : createMarket st i n with
      | none => rw [hcm] at h; cases h
      | some pr =>
        obtain ⟨st2, mid⟩ := pr
        rw [hcm] at h
        simp only [Option.map_some, Option.some.injEq, Prod.mk.injEq] at h
        obtain ⟨rfl, rfl⟩ := h
        obtain ⟨hnot, haccts, ht, hk⟩ := createMarket_spec hcm
        have hcount : st2.kv.get keyLastOrderID = st.kv.get keyLastOrderID :=
          ht.eq_of_head head_keyLastOrderID (by simp)
        refine ⟨⟨IndexInv.of_touches hinv.idx ht (by simp), ?_, ⟨fun m => ?_, ?_⟩⟩, getLastOrderID_congr hcount⟩
        · intro i' v hv
          obtain ⟨v', hv'⟩ := NoNew.of_touches ht (by simp) i' v hv
          rw [getLastOrderID_congr hcount]
          exact hinv.ctr i' v' hv'
        · rw [haccts]
          simp only [List.map_cons, List.mem_cons]
          unfold isMarketKnown
          rw [has_iff, hk m]
          by_cases hmm : m = mid
          · simp [hmm]
          · simp only [hmm, ↓reduceIte, false_or]
            rw [← hinv.mkt.known_iff m]; unfold isMarketKnown; rw [has_iff]
        · rw [haccts]
          simp only [List.map_cons, List.nodup_cons]
          exact ⟨hnot, hinv.mkt.accts_nodup⟩
    · have hc' : ∀ o, op ≠ .create o := fun o e => hc ⟨o, e⟩
      have hm' : ∀ i n, op ≠ .mkMarket i n := fun i n e => hm ⟨i, n, e⟩
      obtain ⟨ok, haccts⟩ := opOK_apply hinv.idx h hc' hm'
      have hres : ResOK r (getLastOrderID st.kv) (getLastOrderID st'.kv) := by
        have hr : ∀ id, r ≠ .orderId id := by
          intro id e
          subst e
          cases op <;> simp [apply, withKv] at h <;> first | exact hc' _ rfl | skip
          all_goals (try (obtain ⟨_, _, hh⟩ := h; cases hh))
          all_goals (try (obtain ⟨_, hh⟩ := h; cases hh))
        cases r with
        | orderId id => exact absurd rfl (hr id)
        | none => exact getLastOrderID_congr ok.counter
        | marketId m => exact getLastOrderID_congr ok.counter
      refine ⟨⟨ok.inv hinv.idx, CounterInv.of_opOK hinv.ctr ok, ⟨fun m => ?_, ?_⟩⟩, hres⟩
      · rw [haccts, isMarketKnown_congr (ok.known m)]; exact hinv.mkt.known_iff m
      · rw [haccts]; exact hinv.mkt.accts_nodup

end PvProofs.Exrec
