/-
Helper lemmas for C13: byte encoders, key makers (injectivity, disjoint families), the
association-list store (`get` after `set` / `del`).
-/
import PvModel.ExrecSpec

namespace PvProofs.Exrec
open PvModel.Exrec

/-! ### encoders -/

theorem u64Bz_length (n : UInt64) : (u64Bz n).length = 8 := rfl
theorem u32Bz_length (n : UInt32) : (u32Bz n).length = 4 := rfl

theorem u64Bz_inj {a b : UInt64} (h : u64Bz a = u64Bz b) : a = b := by
  have ha := UInt64.toNat_lt a
  have hb := UInt64.toNat_lt b
  apply UInt64.toNat_inj.mp
  simp only [u64Bz, List.cons.injEq, and_true] at h
  omega

theorem u32Bz_inj {a b : UInt32} (h : u32Bz a = u32Bz b) : a = b := by
  have ha := UInt32.toNat_lt a
  have hb := UInt32.toNat_lt b
  apply UInt32.toNat_inj.mp
  simp only [u32Bz, List.cons.injEq, and_true] at h
  omega

@[simp] theorem u64Bz_eq_iff {a b : UInt64} : u64Bz a = u64Bz b ↔ a = b := ⟨u64Bz_inj, fun h => h ▸ rfl⟩
@[simp] theorem u32Bz_eq_iff {a b : UInt32} : u32Bz a = u32Bz b ↔ a = b := ⟨u32Bz_inj, fun h => h ▸ rfl⟩

theorem u64FromBz_u64Bz (n : UInt64) (r : Bytes) : u64FromBz (u64Bz n ++ r) = some n := by
  have hn := UInt64.toNat_lt n
  simp only [u64Bz, List.cons_append, List.nil_append, u64FromBz, Option.some.injEq]
  apply UInt64.toNat_inj.mp
  rw [UInt64.toNat_ofNat']
  omega

theorem u32_append_inj {m m' : UInt32} {x x' : Bytes} (h : u32Bz m ++ x = u32Bz m' ++ x') : m = m' ∧ x = x' := by
  have := List.append_inj h (by simp [u32Bz_length])
  exact ⟨u32Bz_inj this.1, this.2⟩

theorem append_u64_inj {d d' : Bytes} {i i' : UInt64} (h : d ++ u64Bz i = d' ++ u64Bz i') : d = d' ∧ i = i' := by
  have := List.append_inj' h (by simp [u64Bz_length])
  exact ⟨this.1, u64Bz_inj this.2⟩

theorem lengthPrefix_append_inj {a a' x x' : Bytes} (h : lengthPrefix a ++ x = lengthPrefix a' ++ x') :
    a = a' ∧ x = x' := by
  simp only [lengthPrefix, List.cons_append, List.cons.injEq] at h
  exact List.append_inj h.2 h.1

/-! ### key makers -/

@[simp] theorem keyOrder_inj {a b : UInt64} : keyOrder a = keyOrder b ↔ a = b := by simp [keyOrder]

@[simp] theorem idxMarketToOrder_inj {m m' : UInt32} {i i' : UInt64} :
    idxMarketToOrder m i = idxMarketToOrder m' i' ↔ m = m' ∧ i = i' := by
  constructor
  · intro h
    simp only [idxMarketToOrder, List.cons.injEq, true_and] at h
    have := u32_append_inj h
    exact ⟨this.1, u64Bz_inj this.2⟩
  · rintro ⟨rfl, rfl⟩; rfl

@[simp] theorem idxAddressToOrder_inj {a a' : Bytes} {i i' : UInt64} :
    idxAddressToOrder a i = idxAddressToOrder a' i' ↔ a = a' ∧ i = i' := by
  constructor
  · intro h
    simp only [idxAddressToOrder, List.cons.injEq, true_and] at h
    have := lengthPrefix_append_inj h
    exact ⟨this.1, u64Bz_inj this.2⟩
  · rintro ⟨rfl, rfl⟩; rfl

/-- the asset index KEY is injective (the last 8 bytes are the id) — it is the PREFIX relation
that is not (see `byAsset_not_exact`) -/
@[simp] theorem idxAssetToOrder_inj {d d' : Bytes} {i i' : UInt64} :
    idxAssetToOrder d i = idxAssetToOrder d' i' ↔ d = d' ∧ i = i' := by
  constructor
  · intro h
    simp only [idxAssetToOrder, List.cons.injEq, true_and] at h
    exact append_u64_inj h
  · rintro ⟨rfl, rfl⟩; rfl

@[simp] theorem idxMarketExternalIDToOrder_inj {m m' : UInt32} {e e' : Bytes} :
    idxMarketExternalIDToOrder m e = idxMarketExternalIDToOrder m' e' ↔ m = m' ∧ e = e' := by
  constructor
  · intro h
    simp only [idxMarketExternalIDToOrder, List.cons.injEq, true_and] at h
    exact u32_append_inj h
  · rintro ⟨rfl, rfl⟩; rfl

@[simp] theorem keyPayment_inj {s s' e e' : Bytes} : keyPayment s e = keyPayment s' e' ↔ s = s' ∧ e = e' := by
  constructor
  · intro h
    simp only [keyPayment, List.cons.injEq, true_and] at h
    exact lengthPrefix_append_inj h
  · rintro ⟨rfl, rfl⟩; rfl

@[simp] theorem idxTargetToPayment_inj {t t' s s' e e' : Bytes} :
    idxTargetToPayment t s e = idxTargetToPayment t' s' e' ↔ t = t' ∧ s = s' ∧ e = e' := by
  constructor
  · intro h
    simp only [idxTargetToPayment, List.cons.injEq, true_and] at h
    have h1 := lengthPrefix_append_inj h
    have h2 := lengthPrefix_append_inj h1.2
    exact ⟨h1.1, h2.1, h2.2⟩
  · rintro ⟨rfl, rfl, rfl⟩; rfl

@[simp] theorem keyCommitment_inj {m m' : UInt32} {a a' : Bytes} :
    keyCommitment m a = keyCommitment m' a' ↔ m = m' ∧ a = a' := by
  constructor
  · intro h
    simp only [keyCommitment, List.cons.injEq, true_and] at h
    have h1 := u32_append_inj h
    have h2 := lengthPrefix_append_inj (x := []) (x' := []) (by simpa using h1.2)
    exact ⟨h1.1, h2.1⟩
  · rintro ⟨rfl, rfl⟩; rfl

@[simp] theorem keyKnownMarketID_inj {m m' : UInt32} : keyKnownMarketID m = keyKnownMarketID m' ↔ m = m' := by
  simp [keyKnownMarketID]

/-- first byte of every key family -/
@[simp] theorem head_keyOrder (i : UInt64) : (keyOrder i).head? = some 2 := rfl
@[simp] theorem head_idxMarketToOrder (m : UInt32) (i : UInt64) : (idxMarketToOrder m i).head? = some 3 := rfl
@[simp] theorem head_idxAddressToOrder (a : Bytes) (i : UInt64) : (idxAddressToOrder a i).head? = some 4 := rfl
@[simp] theorem head_idxAssetToOrder (d : Bytes) (i : UInt64) : (idxAssetToOrder d i).head? = some 5 := rfl
@[simp] theorem head_idxExt (m : UInt32) (e : Bytes) : (idxMarketExternalIDToOrder m e).head? = some 9 := rfl
@[simp] theorem head_keyPayment (s e : Bytes) : (keyPayment s e).head? = some 112 := rfl
@[simp] theorem head_idxTarget (t s e : Bytes) : (idxTargetToPayment t s e).head? = some 16 := rfl
@[simp] theorem head_keyCommitment (m : UInt32) (a : Bytes) : (keyCommitment m a).head? = some 99 := rfl
@[simp] theorem head_keyKnown (m : UInt32) : (keyKnownMarketID m).head? = some 7 := rfl
@[simp] theorem head_keyNotAccepting (m : UInt32) : (keyMarketNotAcceptingOrders m).head? = some 1 := rfl
@[simp] theorem head_keyAcceptingCommitments (m : UInt32) : (keyMarketAcceptingCommitments m).head? = some 1 := rfl
@[simp] theorem head_keyLastOrderID : keyLastOrderID.head? = some 8 := rfl
@[simp] theorem head_keyLastMarketID : keyLastMarketID.head? = some 6 := rfl

theorem ne_of_head_ne {a b : Bytes} (h : a.head? ≠ b.head?) : a ≠ b := fun e => h (e ▸ rfl)

/-! ### the store -/

@[simp] theorem get_nil (k : Bytes) : Store.get [] k = none := rfl

theorem get_cons (k' : Bytes) (v : Val) (r : Store) (k : Bytes) :
    Store.get ((k', v) :: r) k = if k' = k then some v else Store.get r k := rfl

theorem get_del (s : Store) (k k' : Bytes) : (s.del k).get k' = if k' = k then none else s.get k' := by
  induction s with
  | nil => simp [Store.del]
  | cons e r ih =>
    obtain ⟨ke, ve⟩ := e
    simp only [Store.del, List.filter_cons] at ih ⊢
    by_cases hke : ke = k
    · subst hke
      simp only [ne_eq, not_true_eq_false, decide_false, Bool.false_eq_true, ↓reduceIte, get_cons]
      rw [ih]
      by_cases h : k' = ke
      · simp [h]
      · have : ¬ ke = k' := fun e => h e.symm
        simp [h, this]
    · simp only [ne_eq, hke, not_false_eq_true, decide_true, ↓reduceIte, get_cons]
      rw [ih]
      by_cases h : k' = k
      · subst h; simp [hke]
      · simp [h]

theorem get_set (s : Store) (k : Bytes) (v : Val) (k' : Bytes) :
    (s.set k v).get k' = if k' = k then some v else s.get k' := by
  simp only [Store.set, get_cons, get_del]
  by_cases h : k' = k
  · subst h; simp
  · have : ¬ k = k' := fun e => h e.symm
    simp [h, this]

theorem has_iff (s : Store) (k : Bytes) : s.has k = true ↔ ∃ v, s.get k = some v := by
  simp [Store.has, Option.isSome_iff_exists]

theorem has_false_iff (s : Store) (k : Bytes) : s.has k = false ↔ s.get k = none := by
  simp [Store.has]

end PvProofs.Exrec
