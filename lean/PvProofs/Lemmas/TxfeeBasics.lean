/-
Helper lemmas for C08 (coins predicates, bank send, the distribution loop, the fee meter).
-/
import PvModel.TxfeeSpec
import Mathlib.Tactic.SplitIfs

namespace PvProofs.TxfeeL
open PvModel PvModel.Txfee

/-! ### Coins predicates as statements about `amountOf` -/

theorem amountOf_eq_zero_of_not_mem {cs : Coins} {d : Denom} (h : d ∉ Coins.denoms cs) :
    Coins.amountOf cs d = 0 := by
  induction cs with
  | nil => rfl
  | cons hd tl ih =>
    obtain ⟨d', x⟩ := hd
    simp only [Coins.denoms, List.map_cons, List.mem_cons, not_or] at h
    have : ¬ d' = d := fun e => h.1 e.symm
    simp [this, ih (by simpa [Coins.denoms] using h.2)]

theorem isZero_iff {cs : Coins} : cs.isZero = true ↔ ∀ d, Coins.amountOf cs d = 0 := by
  unfold Coins.isZero
  simp only [List.all_eq_true, decide_eq_true_eq]
  constructor
  · intro h d
    by_cases hm : d ∈ Coins.denoms cs
    · exact h d hm
    · exact amountOf_eq_zero_of_not_mem hm
  · intro h d _; exact h d

theorem nonneg_iff {cs : Coins} : cs.nonneg = true ↔ ∀ d, 0 ≤ Coins.amountOf cs d := by
  unfold Coins.nonneg
  simp only [List.all_eq_true, decide_eq_true_eq]
  constructor
  · intro h d
    by_cases hm : d ∈ Coins.denoms cs
    · exact h d hm
    · rw [amountOf_eq_zero_of_not_mem hm]; exact Int.le_refl 0
  · intro h d _; exact h d

/-- `a.covers b` with `a` non-negative: per-denom `b ≤ a` for EVERY denom. -/
theorem covers_all {a b : Coins} (ha : ∀ d, 0 ≤ Coins.amountOf a d) (h : a.covers b = true) (d : Denom) :
    Coins.amountOf b d ≤ Coins.amountOf a d := by
  unfold Coins.covers at h
  simp only [List.all_eq_true, decide_eq_true_eq] at h
  by_cases hm : d ∈ Coins.denoms b
  · exact h d hm
  · rw [amountOf_eq_zero_of_not_mem hm]; exact ha d

theorem covers_of_all {a b : Coins} (h : ∀ d, Coins.amountOf b d ≤ Coins.amountOf a d) : a.covers b = true := by
  unfold Coins.covers
  simp only [List.all_eq_true, decide_eq_true_eq]
  intro d _; exact h d

/-! ### bank send -/

theorem sendCoins_bal {l l' : Ledger} {s t : Addr} {cs : Coins} (h : sendCoins l s t cs = some l') (a : Addr) (d : Denom) :
    l'.bal a d = l.bal a d - (if s = a then Coins.amountOf cs d else 0) + (if t = a then Coins.amountOf cs d else 0) := by
  unfold sendCoins at h
  split at h
  · cases h; exact Ledger.bal_move l s t a cs d
  · cases h

theorem sendCoins_supply {l l' : Ledger} {s t : Addr} {cs : Coins} (h : sendCoins l s t cs = some l') (d : Denom) :
    l'.supply d = l.supply d := by
  unfold sendCoins at h
  split at h
  · cases h; exact Ledger.supply_move l s t cs d
  · cases h

/-- a successful send was covered by the sender's balance -/
theorem sendCoins_covered {l l' : Ledger} {s t : Addr} {cs : Coins} (h : sendCoins l s t cs = some l')
    (d : Denom) (hd : d ∈ Coins.denoms cs) : Coins.amountOf cs d ≤ l.bal s d := by
  unfold sendCoins at h
  split at h
  · rename_i hc
    simp only [List.all_eq_true, decide_eq_true_eq] at hc
    exact hc d hd
  · cases h

/-! ### sums over distributions -/

/-- Σ of all coins of a distribution, in denom `d` -/
def distTotal (d : Denom) : List (Addr × Coins) → Int
  | [] => 0
  | (_, cs) :: rest => Coins.amountOf cs d + distTotal d rest

/-- Σ of the coins under key `k` -/
def distKey (k : Addr) (d : Denom) : List (Addr × Coins) → Int
  | [] => 0
  | (k', cs) :: rest => (if k' = k then Coins.amountOf cs d else 0) + distKey k d rest

/-- Σ of the coins under non-empty keys -/
def distNonEmpty (d : Denom) : List (Addr × Coins) → Int
  | [] => 0
  | (k', cs) :: rest => (if k' = "" then 0 else Coins.amountOf cs d) + distNonEmpty d rest

/-- what account `a` receives from a distribution paid out with `""` ↦ collector -/
def distTo (coll a : Addr) (d : Denom) : List (Addr × Coins) → Int
  | [] => 0
  | (k, cs) :: rest => (if (if k = "" then coll else k) = a then Coins.amountOf cs d else 0) + distTo coll a d rest

theorem distTotal_insertDist (k : Addr) (cs : Coins) (d : Denom) (l : List (Addr × Coins)) :
    distTotal d (insertDist k cs l) = distTotal d l + Coins.amountOf cs d := by
  induction l with
  | nil => simp [insertDist, distTotal]
  | cons hd tl ih =>
    obtain ⟨k', cs'⟩ := hd
    unfold insertDist
    split_ifs <;> simp [distTotal, ih] <;> omega

theorem distKey_insertDist (k a : Addr) (cs : Coins) (d : Denom) (l : List (Addr × Coins)) :
    distKey a d (insertDist k cs l) = distKey a d l + (if k = a then Coins.amountOf cs d else 0) := by
  induction l with
  | nil => simp [insertDist, distKey]
  | cons hd tl ih =>
    obtain ⟨k', cs'⟩ := hd
    unfold insertDist
    split_ifs with h1 h2 h3 <;> simp_all [distKey] <;> omega

theorem distNonEmpty_insertDist (k : Addr) (cs : Coins) (d : Denom) (l : List (Addr × Coins)) :
    distNonEmpty d (insertDist k cs l) = distNonEmpty d l + (if k = "" then 0 else Coins.amountOf cs d) := by
  induction l with
  | nil => simp [insertDist, distNonEmpty]
  | cons hd tl ih =>
    obtain ⟨k', cs'⟩ := hd
    unfold insertDist
    split_ifs with h1 h2 h3 <;> simp_all [distNonEmpty] <;> omega

/-- paying out: `""` goes to the collector, every other key to itself -/
theorem distTo_eq (coll a : Addr) (d : Denom) (hc : coll ≠ "") (l : List (Addr × Coins)) :
    distTo coll a d l = (if a = "" then 0 else distKey a d l) + (if a = coll then distKey "" d l else 0) := by
  induction l with
  | nil => simp [distTo, distKey]
  | cons hd tl ih =>
    obtain ⟨k, cs⟩ := hd
    simp only [distTo, distKey, ih]
    by_cases hk : k = ""
    · subst hk
      by_cases hac : a = coll
      · subst hac; simp [hc]; omega
      · have : ¬ coll = a := fun e => hac e.symm
        by_cases ha : a = ""
        · subst ha; simp [hc]
        · have : ¬ "" = a := fun e => ha e.symm
          simp_all
    · by_cases hka : k = a
      · subst hka; simp [hk]; omega
      · by_cases ha : a = "" <;> simp [hk, hka, ha]

theorem distTotal_split (d : Denom) (l : List (Addr × Coins)) :
    distTotal d l = distKey "" d l + distNonEmpty d l := by
  induction l with
  | nil => rfl
  | cons hd tl ih =>
    obtain ⟨k, cs⟩ := hd
    simp only [distTotal, distKey, distNonEmpty, ih]
    by_cases hk : k = "" <;> simp [hk] <;> omega

/-! ### the loop of DeductFeesDistributions -/

theorem payOut_spec {coll src : Addr} :
    ∀ (fees : List (Addr × Coins)) (l : Ledger) (sent : Coins) (l' : Ledger) (sent' : Coins),
      payOut coll src fees l sent = some (l', sent') →
      (∀ d, Coins.amountOf sent' d = Coins.amountOf sent d + distTotal d fees) ∧
      (∀ a d, l'.bal a d = l.bal a d - (if src = a then distTotal d fees else 0) + distTo coll a d fees) ∧
      (∀ d, l'.supply d = l.supply d) := by
  intro fees
  induction fees with
  | nil =>
    intro l sent l' sent' h
    simp only [payOut, Option.some.injEq, Prod.mk.injEq] at h
    obtain ⟨rfl, rfl⟩ := h
    simp [distTotal, distTo]
  | cons hd tl ih =>
    intro l sent l' sent' h
    obtain ⟨k, cs⟩ := hd
    simp only [payOut] at h
    split at h
    · cases h
    · rename_i l1 hs
      obtain ⟨h1, h2, h3⟩ := ih l1 (sent ++ cs) l' sent' h
      refine ⟨?_, ?_, ?_⟩
      · intro d; rw [h1 d]; simp [distTotal]; omega
      · intro a d
        rw [h2 a d, sendCoins_bal hs a d]
        simp only [distTotal, distTo]
        split_ifs <;> omega
      · intro d; rw [h3 d, sendCoins_supply hs d]

/-- `DeductFeesDistributions`: exact balance effect, conservation, and the distributions never
exceed what was to be collected. -/
theorem deduct_spec {coll src : Addr} {l l' : Ledger} {rem : Coins} {fees : List (Addr × Coins)}
    (h : deductFeesDistributions coll l src rem fees = .ok l') :
    (∀ a d, l'.bal a d = l.bal a d - (if src = a then Coins.amountOf rem d else 0) + distTo coll a d fees
        + (if coll = a then Coins.amountOf rem d - distTotal d fees else 0)) ∧
    (∀ d, distTotal d fees ≤ Coins.amountOf rem d) ∧
    (∀ d, l'.supply d = l.supply d) := by
  unfold deductFeesDistributions at h
  split at h
  · cases h
  · rename_i l1 sent hp
    obtain ⟨h1, h2, h3⟩ := payOut_spec fees l [] l1 sent hp
    have hsent : ∀ d, Coins.amountOf sent d = distTotal d fees := by intro d; simpa using h1 d
    dsimp only at h
    split at h
    · cases h
    · rename_i hnn
      have hnn' : ∀ d, 0 ≤ Coins.amountOf (Coins.sub rem sent) d := nonneg_iff.mp (by simpa using hnn)
      have hle : ∀ d, distTotal d fees ≤ Coins.amountOf rem d := by
        intro d; have := hnn' d; simp [hsent] at this; omega
      split at h
      · rename_i hz
        have hz' := isZero_iff.mp hz
        cases h
        refine ⟨?_, hle, h3⟩
        intro a d
        have := hz' d; simp [hsent] at this
        rw [h2 a d]; split_ifs <;> omega
      · split at h
        · cases h
        · rename_i l2 hs
          cases h
          refine ⟨?_, hle, ?_⟩
          · intro a d
            rw [sendCoins_bal hs a d, h2 a d]
            simp only [Coins.amountOf_sub, hsent]
            split_ifs <;> omega
          · intro d; rw [sendCoins_supply hs d, h3 d]

/-! ### the fee meter -/

theorem sumUsed_append (xs ys : List (String × Addr × Coins)) (d : Denom) :
    Coins.amountOf (sumUsed (xs ++ ys)) d = Coins.amountOf (sumUsed xs) d + Coins.amountOf (sumUsed ys) d := by
  induction xs with
  | nil => simp [sumUsed]
  | cons hd tl ih =>
    obtain ⟨t, r, cs⟩ := hd
    simp [sumUsed, ih]; omega

theorem distTotal_distOf (d : Denom) (used : List (String × Addr × Coins)) :
    distTotal d (distOf used) = Coins.amountOf (sumUsed used) d := by
  induction used with
  | nil => rfl
  | cons hd tl ih =>
    obtain ⟨t, r, cs⟩ := hd
    simp [distOf, sumUsed, distTotal_insertDist, ih]; omega

/-- Σ of meter entries recorded for recipient key `a` -/
def usedKey (a : Addr) (d : Denom) : List (String × Addr × Coins) → Int
  | [] => 0
  | (_, r, cs) :: rest => (if r = a then Coins.amountOf cs d else 0) + usedKey a d rest

def usedNonEmpty (d : Denom) : List (String × Addr × Coins) → Int
  | [] => 0
  | (_, r, cs) :: rest => (if r = "" then 0 else Coins.amountOf cs d) + usedNonEmpty d rest

theorem usedKey_append (a : Addr) (d : Denom) (xs ys : List (String × Addr × Coins)) :
    usedKey a d (xs ++ ys) = usedKey a d xs + usedKey a d ys := by
  induction xs with
  | nil => simp [usedKey]
  | cons hd tl ih => obtain ⟨t, r, cs⟩ := hd; simp [usedKey, ih]; omega

theorem usedNonEmpty_append (d : Denom) (xs ys : List (String × Addr × Coins)) :
    usedNonEmpty d (xs ++ ys) = usedNonEmpty d xs + usedNonEmpty d ys := by
  induction xs with
  | nil => simp [usedNonEmpty]
  | cons hd tl ih => obtain ⟨t, r, cs⟩ := hd; simp [usedNonEmpty, ih]; omega

theorem distKey_distOf (a : Addr) (d : Denom) (used : List (String × Addr × Coins)) :
    distKey a d (distOf used) = usedKey a d used := by
  induction used with
  | nil => rfl
  | cons hd tl ih =>
    obtain ⟨t, r, cs⟩ := hd
    simp [distOf, usedKey, distKey_insertDist, ih]; omega

theorem distNonEmpty_distOf (d : Denom) (used : List (String × Addr × Coins)) :
    distNonEmpty d (distOf used) = usedNonEmpty d used := by
  induction used with
  | nil => rfl
  | cons hd tl ih =>
    obtain ⟨t, r, cs⟩ := hd
    simp [distOf, usedNonEmpty, distNonEmpty_insertDist, ih]; omega

end PvProofs.TxfeeL
