/-
Helper lemmas for C01: `IndexedAddrAmts` and transfers as balance deltas over the shared `Ledger`.
-/
import PvProofs.Lemmas.SettleTrace

namespace PvProofs.Settle
open PvModel PvModel.Settle PvModel.Coins PvModel.Ledger

/-! ### Indexed (IndexedAddrAmts) -/

@[simp] theorem credits_nil : Indexed.credits [] = [] := rfl
@[simp] theorem debits_nil : Indexed.debits [] = [] := rfl
@[simp] theorem total_nil : Indexed.total [] = [] := rfl

@[simp] theorem credits_cons (a : Addr) (cs : Coins) (rest : Indexed) :
    Indexed.credits ((a, cs) :: rest) = Ledger.entries a cs ++ Indexed.credits rest := by
  simp [Indexed.credits]

@[simp] theorem debits_cons (a : Addr) (cs : Coins) (rest : Indexed) :
    Indexed.debits ((a, cs) :: rest) = Ledger.entries a (Coins.neg cs) ++ Indexed.debits rest := by
  simp [Indexed.debits]

@[simp] theorem total_cons (a : Addr) (cs : Coins) (rest : Indexed) :
    Indexed.total ((a, cs) :: rest) = cs ++ Indexed.total rest := by
  simp [Indexed.total]

theorem bal_debits (idx : Indexed) (x : Addr) (d : Denom) :
    bal idx.debits x d = - bal idx.credits x d := by
  induction idx with
  | nil => simp
  | cons p rest ih =>
    obtain ⟨a, cs⟩ := p
    simp only [debits_cons, credits_cons, bal_append, bal_entries, amountOf_neg, ih]
    split <;> omega

theorem supply_credits (idx : Indexed) (d : Denom) : supply idx.credits d = amountOf idx.total d := by
  induction idx with
  | nil => simp
  | cons p rest ih =>
    obtain ⟨a, cs⟩ := p
    simp [ih]

theorem supply_debits (idx : Indexed) (d : Denom) : supply idx.debits d = - amountOf idx.total d := by
  induction idx with
  | nil => simp
  | cons p rest ih =>
    obtain ⟨a, cs⟩ := p
    simp [ih]; omega

theorem amountFor_eq_bal (idx : Indexed) (x : Addr) (d : Denom) :
    idx.amountFor x d = bal idx.credits x d := by
  induction idx with
  | nil => simp [Indexed.amountFor]
  | cons p rest ih =>
    obtain ⟨a, cs⟩ := p
    simp only [Indexed.amountFor, List.map_cons, List.sum_cons, credits_cons, bal_append, bal_entries] at *
    rw [ih]

theorem bal_credits_insert (idx : Indexed) (a : Addr) (cs : Coins) (x : Addr) (d : Denom) :
    bal (Indexed.insert idx a cs).credits x d = bal idx.credits x d + (if a = x then amountOf cs d else 0) := by
  induction idx with
  | nil => simp [Indexed.insert]
  | cons p rest ih =>
    obtain ⟨a', cs'⟩ := p
    simp only [Indexed.insert]
    by_cases h : a' = a
    · subst h
      simp only [if_true, credits_cons, bal_append, bal_entries, amountOf_append]
      split <;> omega
    · simp only [h, if_false, credits_cons, bal_append, ih]
      omega

theorem total_insert (idx : Indexed) (a : Addr) (cs : Coins) (d : Denom) :
    amountOf (Indexed.insert idx a cs).total d = amountOf idx.total d + amountOf cs d := by
  induction idx with
  | nil => simp [Indexed.insert]
  | cons p rest ih =>
    obtain ⟨a', cs'⟩ := p
    simp only [Indexed.insert]
    by_cases h : a' = a
    · subst h
      simp only [if_true, total_cons, amountOf_append]
      omega
    · simp only [h, if_false, total_cons, amountOf_append, ih]
      omega

theorem bal_credits_add (idx : Indexed) (a : Addr) (cs : Coins) (x : Addr) (d : Denom) :
    bal (Indexed.add idx a cs).credits x d = bal idx.credits x d + (if a = x then amountOf cs d else 0) := by
  unfold Indexed.add
  by_cases hz : allZero cs = true
  · simp only [hz, if_true, amountOf_allZero hz, ite_self, Int.add_zero]
  · simp only [hz, Bool.false_eq_true, if_false, bal_credits_insert]

theorem total_add (idx : Indexed) (a : Addr) (cs : Coins) (d : Denom) :
    amountOf (Indexed.add idx a cs).total d = amountOf idx.total d + amountOf cs d := by
  unfold Indexed.add
  by_cases hz : allZero cs = true
  · simp only [hz, if_true, amountOf_allZero hz, Int.add_zero]
  · simp only [hz, Bool.false_eq_true, if_false, total_insert]

theorem bal_credits_foldl_add (denom : Denom) (ds : List (Addr × Int)) (acc : Indexed) (x : Addr) (d : Denom) :
    bal (ds.foldl (fun idx p => idx.add p.1 [(denom, p.2)]) acc).credits x d =
      bal acc.credits x d + (ds.map fun p => if p.1 = x ∧ denom = d then p.2 else 0).sum := by
  induction ds generalizing acc with
  | nil => simp
  | cons p rest ih =>
    simp only [List.foldl_cons, ih, bal_credits_add, amountOf_cons, amountOf_nil, List.map_cons, List.sum_cons]
    by_cases h1 : p.1 = x <;> by_cases h2 : denom = d <;> simp [h1, h2] <;> omega

theorem total_foldl_add (denom : Denom) (ds : List (Addr × Int)) (acc : Indexed) (d : Denom) :
    amountOf (ds.foldl (fun idx p => idx.add p.1 [(denom, p.2)]) acc).total d =
      amountOf acc.total d + (ds.map fun p => if denom = d then p.2 else 0).sum := by
  induction ds generalizing acc with
  | nil => simp
  | cons p rest ih =>
    simp only [List.foldl_cons, ih, total_add, amountOf_cons, amountOf_nil, List.map_cons, List.sum_cons]
    omega

theorem bal_credits_indexDists (denom : Denom) (ds : List (Addr × Int)) (x : Addr) (d : Denom) :
    bal (indexDists denom ds).credits x d = (ds.map fun p => if p.1 = x ∧ denom = d then p.2 else 0).sum := by
  simp [indexDists, bal_credits_foldl_add]

theorem total_indexDists (denom : Denom) (ds : List (Addr × Int)) (d : Denom) :
    amountOf (indexDists denom ds).total d = (ds.map fun p => if denom = d then p.2 else 0).sum := by
  simp [indexDists, total_foldl_add]

/-! ### the two kinds of transfer -/

@[simp] theorem sum_map_zero {α : Type} (l : List α) : (l.map fun _ => (0 : Int)).sum = 0 := by
  induction l with
  | nil => rfl
  | cons a t ih => simp [ih]

theorem sum_map_ite_const (l : List Int) (c : Prop) [Decidable c] :
    (l.map fun x => if c then x else 0).sum = if c then l.sum else 0 := by
  by_cases h : c
  · simp [h]
  · simp [h]

/-- balance deltas of the asset transfer of ask `i` -/
theorem bal_assetTransfer {trA : List Tr} {bids : List Order} {i : Nat} {o : Order} {t : Transfer}
    (h : getAssetTransfer trA bids i o = .ok t) (x : Addr) (d : Denom) :
    bal t.ledger x d =
      - (if o.owner = x ∧ o.assetsDenom = d then filledA trA i else 0)
      + sumTr (fun e => if (bids.getD e.bid default).owner = x ∧ o.assetsDenom = d then e.amt else 0)
          (trA.filter (·.ask = i)) := by
  unfold getAssetTransfer at h
  split at h; · simp at h
  split at h; · simp at h
  simp only [Except.ok.injEq] at h
  subst h
  simp only [Transfer.ledger, bal_append, bal_debits, credits_cons, credits_nil, List.append_nil, bal_entries,
    amountOf_cons, amountOf_nil, bal_credits_indexDists, distsOfAsk, List.map_map, sumTr]
  congr 1
  by_cases h1 : o.owner = x <;> by_cases h2 : o.assetsDenom = d <;> simp [h1, h2]

/-- balance deltas of the price transfer of bid `j` -/
theorem bal_priceTransfer {trP : List Tr} {asks : List Order} {j : Nat} {o : Order} {t : Transfer}
    (h : getPriceTransfer trP asks j o = .ok t) (x : Addr) (d : Denom) :
    bal t.ledger x d =
      - (if o.owner = x ∧ o.priceDenom = d then filledB trP j else 0)
      + sumTr (fun e => if (asks.getD e.ask default).owner = x ∧ o.priceDenom = d then e.amt else 0)
          (trP.filter (·.bid = j)) := by
  unfold getPriceTransfer at h
  split at h; · simp at h
  split at h; · simp at h
  simp only [Except.ok.injEq] at h
  subst h
  simp only [Transfer.ledger, bal_append, bal_debits, credits_cons, credits_nil, List.append_nil, bal_entries,
    amountOf_cons, amountOf_nil, bal_credits_indexDists, distsOfBid, List.map_map, sumTr]
  congr 1
  by_cases h1 : o.owner = x <;> by_cases h2 : o.priceDenom = d <;> simp [h1, h2]

/-- the asset transfer of an ask is balanced: what the seller puts in is what the buyers get -/
theorem assetTransfer_balanced {trA : List Tr} {bids : List Order} {i : Nat} {o : Order} {t : Transfer}
    (h : getAssetTransfer trA bids i o = .ok t) (d : Denom) :
    amountOf t.inputs.total d = amountOf t.outputs.total d := by
  unfold getAssetTransfer at h
  split at h; · simp at h
  split at h; · simp at h
  simp only [Except.ok.injEq] at h
  subst h
  simp only [total_cons, total_nil, List.append_nil, amountOf_cons, amountOf_nil, total_indexDists, distsOfAsk,
    List.map_map, filledA]
  by_cases h2 : o.assetsDenom = d
  · simp [h2, Function.comp_def]
  · simp [h2, Function.comp_def]

theorem priceTransfer_balanced {trP : List Tr} {asks : List Order} {j : Nat} {o : Order} {t : Transfer}
    (h : getPriceTransfer trP asks j o = .ok t) (d : Denom) :
    amountOf t.inputs.total d = amountOf t.outputs.total d := by
  unfold getPriceTransfer at h
  split at h; · simp at h
  split at h; · simp at h
  simp only [Except.ok.injEq] at h
  subst h
  simp only [total_cons, total_nil, List.append_nil, amountOf_cons, amountOf_nil, total_indexDists, distsOfBid,
    List.map_map, filledB]
  by_cases h2 : o.priceDenom = d
  · simp [h2, Function.comp_def]
  · simp [h2, Function.comp_def]

end PvProofs.Settle
