/-
Helper lemmas for C09: consent through an authz grant costs one of the grant's uses.

`findAuthzGrantee` (signers.go:217) accepts a grant at most once per message (the authz cache)
and every acceptance of a count authorization writes the decremented grant back (or deletes it).
`Reach a a'` abstracts the validation of one message as a sequence of such acceptances; along
it the uses left of every grant never grow (`NoMore`) and every cached acceptance has cost the
grant one use (`UsedR`).
-/
import PvProofs.Lemmas.VownerEffects

namespace PvProofs.VownerL
open PvModel PvModel.Ledger PvModel.Vowner

/-! ### uses left of the grant in force for a key (`some 0` = unlimited, `none` = no grant) -/

def uses (gs : List Grant) (ge gr : Addr) (mt : MsgType) : Option Nat :=
  (lookupGrant gs ge gr mt).map (·.count)

/-- what one acceptance does to the uses left -/
def acc : Option Nat → Option Nat
  | none => none
  | some 0 => some 0
  | some 1 => none
  | some (n + 2) => some (n + 1)

/-- the uses left now (`c`) are not more than before (`p`); an unlimited grant stays as it is or
goes away, a limited one never becomes unlimited -/
def NoMore : Option Nat → Option Nat → Prop
  | none, c => c = none
  | some _, none => True
  | some 0, some m => m = 0
  | some (n + 1), some m => m ≠ 0 ∧ m ≤ n + 1

/-- the grant that was in force (`p`) has been used: it is unlimited, or gone, or has fewer uses -/
def UsedR : Option Nat → Option Nat → Prop
  | none, _ => False
  | some 0, _ => True
  | some (_ + 1), none => True
  | some (n + 1), some m => m ≠ 0 ∧ m ≤ n

theorem noMore_refl (p : Option Nat) : NoMore p p := by
  match p with
  | none => rfl
  | some 0 => rfl
  | some (n + 1) => exact ⟨by omega, by omega⟩

theorem noMore_acc {p u : Option Nat} (h : NoMore p u) : NoMore p (acc u) := by
  match p, u, h with
  | none, _, h => subst h; rfl
  | some _, none, _ => trivial
  | some 0, some m, h => subst h; rfl
  | some (n + 1), some 0, h => exact absurd rfl h.1
  | some (n + 1), some 1, _ => trivial
  | some (n + 1), some (m + 2), h => exact ⟨by omega, by have := h.2; omega⟩

theorem usedR_acc_of_noMore {p u : Option Nat} (h : NoMore p u) (hu : u ≠ none) : UsedR p (acc u) := by
  match p, u, h with
  | none, _, h => exact absurd h hu
  | some _, none, _ => exact absurd rfl hu
  | some 0, some m, _ => trivial
  | some (n + 1), some 0, h => exact absurd rfl h.1
  | some (n + 1), some 1, _ => trivial
  | some (n + 1), some (m + 2), h => exact ⟨by omega, by have := h.2; omega⟩

theorem usedR_acc {p u : Option Nat} (h : UsedR p u) : UsedR p (acc u) := by
  match p, u, h with
  | some 0, _, _ => trivial
  | some (n + 1), none, _ => trivial
  | some (n + 1), some 0, h => exact absurd rfl h.1
  | some (n + 1), some 1, _ => trivial
  | some (n + 1), some (m + 2), h => exact ⟨by omega, by have := h.2; omega⟩

/-! ### lookups in the grant list after an acceptance -/

theorem lookupGrant_dropGrant_same (gs : List Grant) (ge gr : Addr) (mt : MsgType) :
    lookupGrant (dropGrant gs ge gr mt) ge gr mt = none := by
  unfold lookupGrant dropGrant
  rw [List.find?_eq_none]
  intro x hx
  have := (List.mem_filter.mp hx).2
  simpa using this

theorem lookupGrant_dropGrant_other (gs : List Grant) {ge gr : Addr} {mt : MsgType} {ge' gr' : Addr} {mt' : MsgType}
    (hne : ¬ (ge' = ge ∧ gr' = gr ∧ mt' = mt)) :
    lookupGrant (dropGrant gs ge gr mt) ge' gr' mt' = lookupGrant gs ge' gr' mt' := by
  unfold lookupGrant dropGrant
  induction gs with
  | nil => rfl
  | cons x t ih =>
    by_cases hx : grantKeyIs ge gr mt x = true
    · have hx' : grantKeyIs ge' gr' mt' x = false := by
        cases hk : grantKeyIs ge' gr' mt' x with
        | false => rfl
        | true =>
          obtain ⟨h1, h2, h3⟩ := grantKeyIs_iff.mp hx
          obtain ⟨k1, k2, k3⟩ := grantKeyIs_iff.mp hk
          exact absurd ⟨k1.symm.trans h1, k2.symm.trans h2, k3.symm.trans h3⟩ hne
      simp only [List.filter_cons, hx, Bool.not_true, Bool.false_eq_true, if_false, List.find?_cons, hx']
      exact ih
    · have hx0 : grantKeyIs ge gr mt x = false := by simpa using hx
      simp only [List.filter_cons, hx0, Bool.not_false, if_true, List.find?_cons]
      cases grantKeyIs ge' gr' mt' x with
      | true => rfl
      | false => exact ih

theorem lookupGrant_append_single (gs : List Grant) (x : Grant) (ge gr : Addr) (mt : MsgType) :
    lookupGrant (gs ++ [x]) ge gr mt =
      (lookupGrant gs ge gr mt).or (if grantKeyIs ge gr mt x = true then some x else none) := by
  unfold lookupGrant
  rw [List.find?_append]
  congr 1
  simp only [List.find?_cons, List.find?_nil]
  cases grantKeyIs ge gr mt x <;> rfl

theorem uses_accept_same {b : Auth} {ge gr : Addr} {mt : MsgType} {g : Grant}
    (hl : lookupGrant b.grants ge gr mt = some g) :
    uses (acceptGrant b g).grants ge gr mt = acc (uses b.grants ge gr mt) := by
  obtain ⟨_, h1, h2, h3⟩ := lookupGrant_some hl
  have hu : uses b.grants ge gr mt = some g.count := by simp [uses, hl]
  rw [hu]
  unfold uses acceptGrant
  rw [h1, h2, h3]
  match hc : g.count with
  | 0 => simp [hl, acc, hc]
  | 1 => simp [lookupGrant_dropGrant_same, acc]
  | n + 2 =>
    simp only [lookupGrant_append_single, lookupGrant_dropGrant_same, Option.none_or]
    have : grantKeyIs ge gr mt { granter := gr, grantee := ge, mt := mt, count := n + 1 } = true := by
      rw [grantKeyIs_iff]; exact ⟨rfl, rfl, rfl⟩
    simp [this, acc]

theorem uses_accept_other {b : Auth} {ge gr : Addr} {mt : MsgType} {g : Grant}
    (hl : lookupGrant b.grants ge gr mt = some g) {ge' gr' : Addr} {mt' : MsgType}
    (hne : ¬ (ge' = ge ∧ gr' = gr ∧ mt' = mt)) :
    uses (acceptGrant b g).grants ge' gr' mt' = uses b.grants ge' gr' mt' := by
  obtain ⟨_, h1, h2, h3⟩ := lookupGrant_some hl
  unfold uses acceptGrant
  rw [h1, h2, h3]
  match hc : g.count with
  | 0 => rfl
  | 1 => simp only [lookupGrant_dropGrant_other _ hne]
  | n + 2 =>
    simp only [lookupGrant_append_single, lookupGrant_dropGrant_other _ hne]
    have : grantKeyIs ge' gr' mt' { granter := gr, grantee := ge, mt := mt, count := n + 1 } = false := by
      cases hk : grantKeyIs ge' gr' mt' { granter := gr, grantee := ge, mt := mt, count := n + 1 } with
      | false => rfl
      | true =>
        obtain ⟨k1, k2, k3⟩ := grantKeyIs_iff.mp hk
        exact absurd ⟨k1.symm, k2.symm, k3.symm⟩ hne
    simp [this]

/-! ### one message's validation as a sequence of acceptances -/

/-- `b` is reached from `a` by accepting grants found in the running grant list -/
inductive Reach : Auth → Auth → Prop
  | refl (a : Auth) : Reach a a
  | accept {a b : Auth} {ge gr : Addr} {mt : MsgType} {g : Grant} :
      Reach a b → lookupGrant b.grants ge gr mt = some g → Reach a (acceptGrant b g)

theorem Reach.trans {a b c : Auth} (h1 : Reach a b) (h2 : Reach b c) : Reach a c := by
  induction h2 with
  | refl => exact h1
  | accept _ hl ih => exact Reach.accept ih hl

theorem acceptGrant_cache (b : Auth) (g : Grant) :
    (acceptGrant b g).cache = (g.grantee, g.granter, g.mt) :: b.cache := rfl

theorem Reach.cache_sub {a b : Auth} (h : Reach a b) : ∀ k ∈ a.cache, k ∈ b.cache := by
  induction h with
  | refl => intro k hk; exact hk
  | accept _ _ ih => intro k hk; rw [acceptGrant_cache]; exact List.mem_cons_of_mem _ (ih k hk)

/-- along a validation: no grant gains uses, and every cached acceptance cost a use -/
def AuthUse (pre : List Grant) (a : Auth) : Prop :=
  (∀ ge gr mt, NoMore (uses pre ge gr mt) (uses a.grants ge gr mt)) ∧
  (∀ k ∈ a.cache, UsedR (uses pre k.1 k.2.1 k.2.2) (uses a.grants k.1 k.2.1 k.2.2))

theorem authUse_init (pre : List Grant) : AuthUse pre { grants := pre } :=
  ⟨fun _ _ _ => noMore_refl _, fun k hk => by simp at hk⟩

theorem authUse_accept {pre : List Grant} {b : Auth} {ge gr : Addr} {mt : MsgType} {g : Grant}
    (hu : AuthUse pre b) (hl : lookupGrant b.grants ge gr mt = some g) : AuthUse pre (acceptGrant b g) := by
  obtain ⟨_, h1, h2, h3⟩ := lookupGrant_some hl
  have hsome : uses b.grants ge gr mt ≠ none := by simp [uses, hl]
  refine ⟨fun ge' gr' mt' => ?_, fun k hk => ?_⟩
  · by_cases hk : ge' = ge ∧ gr' = gr ∧ mt' = mt
    · obtain ⟨rfl, rfl, rfl⟩ := hk
      rw [uses_accept_same hl]; exact noMore_acc (hu.1 _ _ _)
    · rw [uses_accept_other hl hk]; exact hu.1 _ _ _
  · by_cases hkey : k.1 = ge ∧ k.2.1 = gr ∧ k.2.2 = mt
    · obtain ⟨e1, e2, e3⟩ := hkey
      rw [e1, e2, e3, uses_accept_same hl]
      exact usedR_acc_of_noMore (hu.1 _ _ _) hsome
    · rw [uses_accept_other hl hkey]
      rw [acceptGrant_cache] at hk
      rcases List.mem_cons.mp hk with hk | hk
      · exfalso; apply hkey; rw [hk]; exact ⟨h1, h2, h3⟩
      · exact hu.2 k hk

theorem Reach.authUse {pre : List Grant} {a b : Auth} (h : Reach a b) (hu : AuthUse pre a) : AuthUse pre b := by
  induction h with
  | refl => exact hu
  | accept _ hl ih => exact authUse_accept ih hl

/-! ### every validation function only accepts grants -/

theorem findGrantee_reach {granter : Addr} {mt : MsgType} {ges : List Addr}
    {a a' : Auth} {r : Option Addr} (h : findGrantee a granter mt ges = (a', r)) :
    Reach a a' ∧ ∀ ge, r = some ge → ge ∈ ges ∧ (ge, granter, mt) ∈ a'.cache := by
  induction ges with
  | nil => simp [findGrantee] at h; obtain ⟨rfl, rfl⟩ := h; exact ⟨Reach.refl _, fun _ hc => by simp at hc⟩
  | cons ge rest ih =>
    unfold findGrantee at h
    by_cases hc : a.cache.contains (ge, granter, mt) = true
    · rw [if_pos hc] at h
      simp at h; obtain ⟨rfl, rfl⟩ := h
      refine ⟨Reach.refl _, fun x hx => ?_⟩
      simp at hx; subst hx
      exact ⟨by simp, by simpa using hc⟩
    · rw [if_neg hc] at h
      cases hl : lookupGrant a.grants ge granter mt with
      | some g =>
        rw [hl] at h
        simp at h; obtain ⟨rfl, rfl⟩ := h
        obtain ⟨_, h1, h2, h3⟩ := lookupGrant_some hl
        refine ⟨Reach.accept (Reach.refl _) hl, fun x hx => ?_⟩
        simp at hx; subst hx
        refine ⟨by simp, ?_⟩
        rw [acceptGrant_cache, h1, h2, h3]; simp
      | none =>
        rw [hl] at h
        obtain ⟨h1, h2⟩ := ih h
        exact ⟨h1, fun x hx => by obtain ⟨m, k⟩ := h2 x hx; exact ⟨List.mem_cons_of_mem _ m, k⟩⟩

theorem findAuthzGrantee_reach {granter : Addr} {mt : MsgType} {ges : List Addr}
    {a a' : Auth} {r : Option Addr} (h : findAuthzGrantee a granter ges mt = (a', r)) :
    Reach a a' ∧ ∀ ge, r = some ge → ge ∈ ges ∧ (ge, granter, mt) ∈ a'.cache := by
  unfold findAuthzGrantee at h
  split at h
  · simp at h; obtain ⟨rfl, rfl⟩ := h; exact ⟨Reach.refl _, fun _ hc => by simp at hc⟩
  · exact findGrantee_reach h

theorem validateAllRequiredSigned_reach {signers : List Addr} {mt : MsgType}
    {req : List Addr} {a a' : Auth} {used used' : List Addr}
    (h : validateAllRequiredSigned a signers mt req used = .ok (a', used')) : Reach a a' := by
  induction req generalizing a used with
  | nil => simp [validateAllRequiredSigned] at h; rw [← h.1]; exact Reach.refl _
  | cons p rest ih =>
    unfold validateAllRequiredSigned at h
    split at h
    · exact ih h
    · split at h
      · rename_i a1 g hf
        exact (findAuthzGrantee_reach hf).1.trans (ih h)
      · simp at h

theorem associateRequired_reach {signers : List Addr} {mt : MsgType}
    {ds ds' : List PartyDetails} {a a' : Auth}
    (h : associateRequired signers mt a ds = .ok (a', ds')) : Reach a a' := by
  induction ds generalizing a a' ds' with
  | nil => simp [associateRequired] at h; rw [← h.1]; exact Reach.refl _
  | cons p rest ih =>
    unfold associateRequired at h
    split at h
    · cases hr : associateRequired signers mt a rest with
      | error e => rw [hr] at h; simp at h
      | ok r =>
        obtain ⟨a1, r1⟩ := r
        rw [hr] at h; simp at h
        rw [← h.1]; exact ih hr
    · split at h
      · rename_i a1 g hf
        have hw1 := (findAuthzGrantee_reach hf).1
        cases hr : associateRequired signers mt a1 rest with
        | error e => rw [hr] at h; simp at h
        | ok r =>
          obtain ⟨a2, r2⟩ := r
          rw [hr] at h; simp at h
          rw [← h.1]; exact hw1.trans (ih hr)
      · simp at h

theorem associateRole_reach {signers : List Addr} {mt : MsgType}
    {ds ds' : List PartyDetails} {a a' : Auth}
    (h : associateRole signers mt a ds = .ok (a', ds')) : Reach a a' := by
  induction ds generalizing a a' ds' with
  | nil => simp [associateRole] at h
  | cons p rest ih =>
    unfold associateRole at h
    split at h
    · cases hr : associateRole signers mt a rest with
      | error e => rw [hr] at h; simp at h
      | ok r =>
        obtain ⟨a1, r1⟩ := r
        rw [hr] at h; simp at h
        rw [← h.1]; exact ih hr
    · split at h
      · rename_i a1 g hf
        simp at h
        rw [← h.1]; exact (findAuthzGrantee_reach hf).1
      · rename_i a1 hf
        have hw1 := (findAuthzGrantee_reach hf).1
        cases hr : associateRole signers mt a1 rest with
        | error e => rw [hr] at h; simp at h
        | ok r =>
          obtain ⟨a2, r2⟩ := r
          rw [hr] at h; simp at h
          rw [← h.1]; exact hw1.trans (ih hr)

theorem validateAllRequiredPartiesSigned_reach {signers : List Addr} {mt : MsgType}
    {parties : List Party} {a a' : Auth} {used : List Addr}
    (h : validateAllRequiredPartiesSigned a signers mt parties = .ok (a', used)) : Reach a a' := by
  unfold validateAllRequiredPartiesSigned at h
  cases hr : associateRequired signers mt a (associateSigners signers parties) with
  | error e => rw [hr] at h; simp at h
  | ok r =>
    obtain ⟨a1, ds⟩ := r
    rw [hr] at h; simp only at h
    have hw1 := associateRequired_reach hr
    split at h
    · simp at h; rw [← h.1]; exact hw1
    · cases hl : associateRole signers mt a1 ds with
      | error e => rw [hl] at h; simp at h
      | ok r2 =>
        obtain ⟨a2, ds2⟩ := r2
        rw [hl] at h; simp at h
        rw [← h.1]; exact hw1.trans (associateRole_reach hl)

/-- what the value-owner loop leaves behind for an existing owner that is not the proposed one:
it signs, or is a marker, or its grant to one of the signers was accepted in this message -/
def VoUse (s : State) (a' : Auth) (sa : List Addr) (mt : MsgType) (ex : Addr) : Prop :=
  ex ∈ sa ∨ isMarker s ex = true ∨ ∃ ge ∈ sa, (ge, ex, mt) ∈ a'.cache

theorem VoUse.mono {s : State} {a a' : Auth} {sa : List Addr} {mt : MsgType} {ex : Addr}
    (hr : Reach a a') (h : VoUse s a sa mt ex) : VoUse s a' sa mt ex := by
  rcases h with h | h | ⟨ge, hge, hc⟩
  · exact Or.inl h
  · exact Or.inr (Or.inl h)
  · exact Or.inr (Or.inr ⟨ge, hge, hr.cache_sub _ hc⟩)

theorem vosLoop_reach {s : State} {sa : List Addr} {proposed : Addr} {mt : MsgType}
    {exs : List Addr} {a a' : Auth} {used used' : List Addr}
    (h : vosLoop s sa proposed mt a exs used = .ok (a', used')) :
    Reach a a' ∧ ∀ ex ∈ exs, ex ≠ "" → ex ≠ proposed → VoUse s a' sa mt ex := by
  induction exs generalizing a used with
  | nil =>
    simp [vosLoop] at h; rw [← h.1]
    exact ⟨Reach.refl _, fun _ hx => by simp at hx⟩
  | cons e rest ih =>
    unfold vosLoop at h
    by_cases h1 : e = ""
    · rw [if_pos h1] at h
      obtain ⟨hw', hr⟩ := ih h
      refine ⟨hw', fun ex hex hne hnp => ?_⟩
      rcases List.mem_cons.mp hex with rfl | hx
      · exact absurd h1 hne
      · exact hr ex hx hne hnp
    · rw [if_neg h1] at h
      by_cases h2 : e = proposed
      · rw [if_pos h2] at h
        obtain ⟨hw', hr⟩ := ih h
        refine ⟨hw', fun ex hex hne hnp => ?_⟩
        rcases List.mem_cons.mp hex with rfl | hx
        · exact absurd h2 hnp
        · exact hr ex hx hne hnp
      · rw [if_neg h2] at h
        by_cases h3 : sa.contains e = true
        · rw [if_pos h3] at h
          obtain ⟨hw', hr⟩ := ih h
          refine ⟨hw', fun ex hex hne hnp => ?_⟩
          rcases List.mem_cons.mp hex with rfl | hx
          · exact Or.inl (by simpa using h3)
          · exact hr ex hx hne hnp
        · rw [if_neg h3] at h
          by_cases h4 : isMarker s e = true
          · rw [if_pos h4] at h
            obtain ⟨hw', hr⟩ := ih h
            refine ⟨hw', fun ex hex hne hnp => ?_⟩
            rcases List.mem_cons.mp hex with rfl | hx
            · exact Or.inr (Or.inl h4)
            · exact hr ex hx hne hnp
          · rw [if_neg h4] at h
            split at h
            · rename_i a1 g hf
              obtain ⟨hw1, hg⟩ := findAuthzGrantee_reach hf
              obtain ⟨hw', hr⟩ := ih h
              refine ⟨hw1.trans hw', fun ex hex hne hnp => ?_⟩
              rcases List.mem_cons.mp hex with rfl | hx
              · obtain ⟨m, k⟩ := hg g rfl
                exact Or.inr (Or.inr ⟨g, m, hw'.cache_sub _ k⟩)
              · exact hr ex hx hne hnp
            · simp at h

theorem validateScopeValueOwnersSigners_reach {s : State} {a a' : Auth}
    {exs : List Addr} {proposed : Addr} {signers agents used : List Addr} {mt : MsgType}
    (h : validateScopeValueOwnersSigners s a exs proposed signers mt = .ok (a', agents, used)) :
    Reach a a' ∧
    (exs = [proposed] ∨
      ∀ ex ∈ exs, ex ≠ "" → ex ≠ proposed → VoUse s a' (effectiveSigners s signers) mt ex) := by
  unfold validateScopeValueOwnersSigners at h
  by_cases h1 : exs = [proposed]
  · rw [if_pos h1] at h
    simp at h
    obtain ⟨rfl, _, _⟩ := h
    exact ⟨Reach.refl _, Or.inl h1⟩
  · rw [if_neg h1] at h
    simp only at h
    cases hl : vosLoop s (effectiveSigners s signers) proposed mt a exs [] with
    | error e => rw [hl] at h; simp at h
    | ok r =>
      obtain ⟨a1, u1⟩ := r
      rw [hl] at h
      simp at h
      obtain ⟨rfl, _, _⟩ := h
      obtain ⟨hw', hr⟩ := vosLoop_reach hl
      exact ⟨hw', Or.inr hr⟩

theorem allGranted_reach {c : Addr} {mt : MsgType} {gs : List Addr} {a a' : Auth}
    (h : allGranted c mt a gs = some a') : Reach a a' := by
  induction gs generalizing a with
  | nil => simp [allGranted] at h; rw [← h]; exact Reach.refl _
  | cons g rest ih =>
    unfold allGranted at h
    split at h
    · rename_i a1 x hf
      exact (findAuthzGrantee_reach hf).1.trans (ih h)
    · simp at h

theorem validateSmartContractSigners_reach {s : State} {used : List Addr} {mt : MsgType}
    {signers : List Addr} {a a' : Auth} {cbw : Bool}
    (h : validateSmartContractSigners s used mt a cbw signers = .ok a') : Reach a a' := by
  induction signers generalizing a cbw with
  | nil => simp [validateSmartContractSigners] at h; rw [← h]; exact Reach.refl _
  | cons sg rest ih =>
    unfold validateSmartContractSigners at h
    simp only at h
    split at h
    · simp at h
    · split at h
      · exact ih h
      · split at h
        · exact ih h
        · split at h
          · simp at h
          · split at h
            · simp at h
            · rename_i a1 hg
              exact (allGranted_reach hg).trans (ih h)

theorem writeParties_reach {s : State} {existing : Option Scope} {owners : List Party} {rollup : Bool}
    {signers : List Addr} {evs vo : Addr} {a : Auth} {used : List Addr}
    (h : writeParties s existing owners rollup signers evs vo = .ok (a, used)) :
    Reach { grants := s.grants } a := by
  cases existing with
  | none =>
    simp only [writeParties] at h
    split at h
    · simp at h; rw [← h.1]; exact Reach.refl _
    · split at h
      · simp at h
      · simp at h; rw [← h.1]; exact Reach.refl _
  | some e =>
    simp only [writeParties] at h
    split at h
    · simp at h; rw [← h.1]; exact Reach.refl _
    · split at h
      · simp at h
      · split at h
        · split at h
          · exact validateAllRequiredSigned_reach h
          · simp at h; rw [← h.1]; exact Reach.refl _
        · exact validateAllRequiredPartiesSigned_reach h

theorem deleteParties_reach {s : State} {e : Scope} {signers : List Addr} {a : Auth} {used : List Addr}
    (h : deleteParties s e signers = .ok (a, used)) : Reach { grants := s.grants } a := by
  unfold deleteParties at h
  split at h
  · exact validateAllRequiredSigned_reach h
  · exact validateAllRequiredPartiesSigned_reach h

/-! ### per message: the old holder of a token that moved signed, is a marker, or one of its
grants to a signer has been used -/

/-- the final form: with respect to the grants before (`pre`) and after (`cur`) the message -/
def VoUsed (s : State) (pre cur : List Grant) (sa : List Addr) (mt : MsgType) (ex : Addr) : Prop :=
  ex ∈ sa ∨ isMarker s ex = true ∨ ∃ ge ∈ sa, UsedR (uses pre ge ex mt) (uses cur ge ex mt)

theorem voUsed_of_voUse {s : State} {a : Auth} {sa : List Addr} {mt : MsgType} {ex : Addr}
    (hu : AuthUse s.grants a) (h : VoUse s a sa mt ex) : VoUsed s s.grants a.grants sa mt ex := by
  rcases h with h | h | ⟨ge, hge, hc⟩
  · exact Or.inl h
  · exact Or.inr (Or.inl h)
  · exact Or.inr (Or.inr ⟨ge, hge, hu.2 _ hc⟩)

theorem validateWriteScope_use {s : State} {id : ScopeId} {owners : List Party} {rollup : Bool} {vo : Addr}
    {signers : List Addr} {a : Auth} {agents : List Addr} (hinv : Inv s)
    (h : validateWriteScope s id owners rollup vo signers = .ok (a, agents)) :
    vo ≠ "" → ∀ x, HolderIs s.ledger id (some x) → x ≠ vo →
      VoUsed s s.grants a.grants (effectiveSigners s signers) .write x := by
  have hsd := validateWriteScope_scopeDenom h
  unfold validateWriteScope at h
  split at h
  · simp at h
  · cases hev : writeExistingVO s id (findScope s id) vo with
    | error e => rw [hev] at h; simp at h
    | ok existingVO =>
      rw [hev] at h; simp only at h
      cases hp : writeParties s (findScope s id) owners rollup signers (existingVO.getD "") vo with
      | error e => rw [hp] at h; simp at h
      | ok r =>
        obtain ⟨a1, used1⟩ := r
        rw [hp] at h; simp only at h
        cases hv : validateScopeValueOwnersSigners s a1 existingVO.toList vo signers .write with
        | error e => rw [hv] at h; simp at h
        | ok r2 =>
          obtain ⟨a2, ag2, used2⟩ := r2
          rw [hv] at h; simp only at h
          cases hc : validateSmartContractSigners s (used2 ++ used1) .write a2 true signers with
          | error e => rw [hc] at h; simp at h
          | ok a3 =>
            rw [hc] at h; simp at h
            obtain ⟨rfl, rfl⟩ := h
            have hr1 := writeParties_reach hp
            obtain ⟨hr2, hcase⟩ := validateScopeValueOwnersSigners_reach hv
            have hr3 := validateSmartContractSigners_reach hc
            have hu : AuthUse s.grants a3 := ((hr1.trans hr2).trans hr3).authUse (authUse_init _)
            intro hvo x ho hne
            obtain ⟨o0, ho0, hne0, hsc0⟩ := hinv id hsd
            have := holderIs_unique ho ho0; subst this
            unfold writeExistingVO at hev
            rw [findScope_isSome] at hev
            have hs : hasScope s id = true := hsc0 rfl
            simp [hs, hvo, denomOwner_of_holderIs ho] at hev
            subst hev
            have hx0 : x ≠ "" := fun e => hne0 (by rw [e])
            rcases hcase with h1 | h2
            · simp at h1; exact absurd h1 hne
            · exact voUsed_of_voUse hu ((h2 x (by simp) hx0 hne).mono hr3)

theorem write_use {s s' : State} {id : ScopeId} {owners : List Party} {rollup : Bool} {vo : Addr}
    {signers : List Addr} (hinv : Inv s) (h : writeScope s id owners rollup vo signers = .ok s')
    {d : ScopeId} {x : Addr} (hb : HolderIs s.ledger d (some x)) (ha : ¬ HolderIs s'.ledger d (some x)) :
    VoUsed s s.grants s'.grants (effectiveSigners s signers) .write x := by
  have hstep := write_step hinv h
  have heff := write_effect hinv h
  unfold writeScope at h
  cases hv : validateWriteScope s id owners rollup vo signers with
  | error e => rw [hv] at h; simp at h
  | ok r =>
    obtain ⟨a, agents⟩ := r
    rw [hv] at h; simp only at h
    have huse := validateWriteScope_use hinv hv
    by_cases hvo : vo = ""
    · exfalso; apply ha; rw [hstep.2.2 hvo]; exact hb
    · have hd : d = id := by
        apply Classical.byContradiction
        intro hd
        exact ha (heff.2.2 d hd _ hb)
      subst hd
      have hxv : x ≠ vo := by
        intro e; subst e
        exact ha (heff.2.1 hvo)
      have hg : s'.grants = a.grants := by
        unfold setScope at h
        rw [if_pos hvo] at h
        cases hsv : setScopeValueOwner { s with grants := a.grants } agents d vo with
        | error e => rw [hsv] at h; simp at h
        | ok s2 =>
          rw [hsv] at h; simp at h; subst h
          have hfr := (setScopeValueOwner_spec (s := { s with grants := a.grants }) hinv.allHeld (validateWriteScope_scopeDenom hv) hsv).1
          simp only [putScope]; exact hfr.grants
      rw [hg]
      exact huse hvo x hb hxv

theorem validateDeleteScope_use {s : State} {id : ScopeId} {signers : List Addr} {a : Auth} {agents : List Addr}
    (hinv : Inv s) (h : validateDeleteScope s id signers = .ok (a, agents)) :
    ∀ x, HolderIs s.ledger id (some x) → VoUsed s s.grants a.grants (effectiveSigners s signers) .delete x := by
  have hsd := validateDeleteScope_scopeDenom h
  unfold validateDeleteScope at h
  split at h
  · simp at h
  · cases hf : findScope s id with
    | none => rw [hf] at h; simp at h
    | some e =>
      rw [hf] at h; simp only at h
      cases hp : deleteParties s e signers with
      | error er => rw [hp] at h; simp at h
      | ok r =>
        obtain ⟨a1, used1⟩ := r
        rw [hp] at h; simp only at h
        obtain ⟨o0, ho0, hne0, _⟩ := hinv id hsd
        rw [denomOwner_of_holderIs ho0] at h; simp only at h
        cases hv : validateScopeValueOwnersSigners s a1 o0.toList "" signers .delete with
        | error er => rw [hv] at h; simp at h
        | ok r2 =>
          obtain ⟨a2, ag2, used2⟩ := r2
          rw [hv] at h; simp only at h
          cases hc : validateSmartContractSigners s (used2 ++ used1) .delete a2 true signers with
          | error er => rw [hc] at h; simp at h
          | ok a3 =>
            rw [hc] at h; simp at h
            obtain ⟨rfl, rfl⟩ := h
            have hr1 := deleteParties_reach hp
            obtain ⟨hr2, hcase⟩ := validateScopeValueOwnersSigners_reach hv
            have hr3 := validateSmartContractSigners_reach hc
            have hu : AuthUse s.grants a3 := ((hr1.trans hr2).trans hr3).authUse (authUse_init _)
            intro x ho
            have := holderIs_unique ho ho0; subst this
            have hx0 : x ≠ "" := fun e => hne0 (by rw [e])
            rcases hcase with h1 | h2
            · simp at h1; exact absurd h1 hx0
            · exact voUsed_of_voUse hu ((h2 x (by simp) hx0 hx0).mono hr3)

theorem delete_use {s s' : State} {id : ScopeId} {signers : List Addr}
    (hinv : Inv s) (h : deleteScope s id signers = .ok s')
    {d : ScopeId} {x : Addr} (hb : HolderIs s.ledger d (some x)) (ha : ¬ HolderIs s'.ledger d (some x)) :
    VoUsed s s.grants s'.grants (effectiveSigners s signers) .delete x := by
  unfold deleteScope at h
  cases hv : validateDeleteScope s id signers with
  | error e => rw [hv] at h; simp at h
  | ok r =>
    obtain ⟨a, agents⟩ := r
    rw [hv] at h; simp only at h
    have huse := validateDeleteScope_use hinv hv
    unfold removeScope at h
    split at h
    · simp at h; subst h; exact absurd hb ha
    · cases hsv : setScopeValueOwner { s with grants := a.grants } agents id "" with
      | error e => rw [hsv] at h; simp at h
      | ok s2 =>
        rw [hsv] at h; simp at h; subst h
        obtain ⟨hfr, hother, _⟩ := setScopeValueOwner_spec (s := { s with grants := a.grants }) hinv.allHeld (validateDeleteScope_scopeDenom hv) hsv
        have hd : d = id := by
          apply Classical.byContradiction
          intro hd
          exact ha (hother d hd _ hb)
        subst hd
        have hg : (dropScope s2 d).grants = a.grants := by simp only [dropScope]; exact hfr.grants
        rw [hg]
        exact huse x hb

theorem validateUpdateValueOwners_use {s : State} {links : List Link} {proposed : Addr} {signers : List Addr}
    {mt : MsgType} {a : Auth} {agents : List Addr}
    (h : validateUpdateValueOwners s links proposed signers mt = .ok (a, agents)) :
    ∀ ex ∈ accAddrs links, ex ≠ "" → ex ≠ proposed →
      VoUsed s s.grants a.grants (effectiveSigners s signers) mt ex := by
  unfold validateUpdateValueOwners at h
  split at h
  · simp at h
  · cases hv : validateForScopes [] links with
    | error e => rw [hv] at h; simp at h
    | ok u =>
      rw [hv] at h; simp only at h
      split at h
      · simp at h
      · rename_i hsame
        cases hs : validateScopeValueOwnersSigners s { grants := s.grants } (accAddrs links) proposed signers mt with
        | error e => rw [hs] at h; simp at h
        | ok r =>
          obtain ⟨a1, ag1, u1⟩ := r
          rw [hs] at h; simp at h
          obtain ⟨rfl, rfl⟩ := h
          obtain ⟨hr, hcase⟩ := validateScopeValueOwnersSigners_reach hs
          have hu : AuthUse s.grants a1 := hr.authUse (authUse_init _)
          rcases hcase with h1 | h2
          · exfalso
            have : proposed ∈ accAddrs links := by rw [h1]; simp
            obtain ⟨l, hl, he⟩ := mem_accAddrs.mp this
            apply hsame
            simp only [List.any_eq_true, decide_eq_true_eq]
            exact ⟨l, hl, he⟩
          · intro ex hex h0 hp
            exact voUsed_of_voUse hu (h2 ex hex h0 hp)

/-- shared by UpdateValueOwners and MigrateValueOwner -/
theorem moveValueOwners_use {s s' : State} {links : List Link} {vo : Addr} {signers : List Addr}
    {mt : MsgType} {a : Auth} {agents : List Addr} (hinv : Inv s)
    (hv : validateUpdateValueOwners s links vo signers mt = .ok (a, agents))
    (h : setScopeValueOwners { s with grants := a.grants } agents links vo = .ok s')
    {d : ScopeId} {x : Addr} (hdd : isScopeDenom d = true)
    (hb : HolderIs s.ledger d (some x)) (ha : ¬ HolderIs s'.ledger d (some x)) :
    VoUsed s s.grants s'.grants (effectiveSigners s signers) mt x := by
  have huse := validateUpdateValueOwners_use hv
  obtain ⟨hfr, hmoves⟩ := setScopeValueOwners_spec h
  have hg : s'.grants = a.grants := hfr.grants
  rw [hg]
  rcases hmoves d (some x) hb with h1 | ⟨f, hf, hfne, he, _, _, _⟩
  · exact absurd h1 ha
  · injection he with he; subst he
    have hx0 : x ≠ "" := by
      obtain ⟨o1, ho1, hn1, _⟩ := hinv d hdd
      have := holderIs_unique hb ho1; subst this
      intro e; exact hn1 (by rw [e])
    exact huse x hf hx0 hfne

/-- from the abstract "uses" to the grants as the dump shows them: the grant that was in force
is unlimited, or `usedUp` (gone or with fewer uses) afterwards -/
theorem usedR_elim {pre cur : List Grant} {ge gr : Addr} {mt : MsgType}
    (h : UsedR (uses pre ge gr mt) (uses cur ge gr mt)) :
    ∃ g, lookupGrant pre ge gr mt = some g ∧ (g.count = 0 ∨ usedUp cur g = true) := by
  unfold uses at h
  cases hl : lookupGrant pre ge gr mt with
  | none => rw [hl] at h; exact absurd h (by simp [UsedR])
  | some g =>
    obtain ⟨_, h1, h2, h3⟩ := lookupGrant_some hl
    refine ⟨g, rfl, ?_⟩
    rw [hl] at h
    simp only [Option.map_some] at h
    match hc : g.count with
    | 0 => exact Or.inl rfl
    | n + 1 =>
      right
      rw [hc] at h
      unfold usedUp
      rw [h1, h2, h3]
      cases hl2 : lookupGrant cur ge gr mt with
      | none => rfl
      | some g' =>
        rw [hl2] at h
        simp only [Option.map_some, UsedR] at h
        simp only [bne_iff_ne, ne_eq, Bool.and_eq_true, decide_eq_true_eq]
        exact ⟨h.1, by omega⟩

end PvProofs.VownerL
