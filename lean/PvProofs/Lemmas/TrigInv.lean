/-
Helper lemmas for C17: the well-formedness invariant of the trigger store and its preservation
by every keeper / message-server function of `PvModel.Trig`.
-/
import PvProofs.Lemmas.TrigQueue
import Mathlib.Data.List.Nodup
import Mathlib.Data.List.Perm.Basic

namespace PvProofs.Lemmas.Trig
open PvModel.Trig

/-- Store invariant: the queue window is exactly the stored items, every listener key belongs to a
registered trigger and vice versa, a trigger is never both registered and queued nor queued twice,
and a gas limit is stored exactly for the registered and the queued triggers. -/
structure WF (s : State) : Prop where
  next : 1 ≤ s.nextId
  qlen : (qList s).length = s.qLen
  qstray : ∀ i, s.qItems i ≠ none → s.qStart ≤ i ∧ i < s.qStart + s.qLen
  trig : ∀ id t, s.triggers id = some t → t.id = id ∧ 1 ≤ id ∧ id < s.nextId
  lis : ∀ l, l ∈ s.listeners ↔ ∃ t, s.triggers l.id = some t ∧ l = listenerOf t
  lisNodup : (s.listeners.map (·.id)).Nodup
  q : ∀ x ∈ qList s, s.triggers x.trigger.id = none ∧ 1 ≤ x.trigger.id ∧ x.trigger.id < s.nextId
  qNodup : (qIds s).Nodup
  gas : ∀ id, (s.gasLimits id).isSome ↔ ((s.triggers id).isSome ∨ id ∈ qIds s)
  gasCap : ∀ id g, s.gasLimits id = some g → g ≤ MaximumTriggerGas

theorem WF_init : WF State.init := by
  refine ⟨by decide, rfl, ?_, ?_, ?_, ?_, ?_, ?_, ?_, ?_⟩ <;> simp [State.init, qList, qIds, qFrom]

/-- What an action handler / a block function may change outside the registry. -/
structure Frame (s s' : State) : Prop where
  nextId : s'.nextId = s.nextId
  qItems : s'.qItems = s.qItems
  qStart : s'.qStart = s.qStart
  qLen : s'.qLen = s.qLen
  trig : ∀ id, s'.triggers id = s.triggers id ∨ s'.triggers id = none
  gas : ∀ id, s.triggers id = none → s'.gasLimits id = s.gasLimits id

theorem Frame.refl (s : State) : Frame s s := ⟨rfl, rfl, rfl, rfl, fun _ => Or.inl rfl, fun _ _ => rfl⟩

theorem Frame.trans {a b c : State} (h1 : Frame a b) (h2 : Frame b c) : Frame a c :=
  ⟨h2.nextId.trans h1.nextId, h2.qItems.trans h1.qItems, h2.qStart.trans h1.qStart,
   h2.qLen.trans h1.qLen, fun id => by
     rcases h2.trig id with h | h
     · rcases h1.trig id with h' | h'
       · exact Or.inl (h.trans h')
       · exact Or.inr (h.trans h')
     · exact Or.inr h,
   fun id hn => by
     have hb : b.triggers id = none := by
       rcases h1.trig id with h | h
       · exact h.trans hn
       · exact h
     exact (h2.gas id hb).trans (h1.gas id hn)⟩

theorem Frame.qList {s s' : State} (h : Frame s s') : qList s' = qList s := by
  unfold PvModel.Trig.qList; rw [h.qItems, h.qStart, h.qLen]

theorem Frame.qIds {s s' : State} (h : Frame s s') : qIds s' = qIds s := by
  unfold PvModel.Trig.qIds; rw [h.qList]

/-! ### listener key list -/

theorem mem_insertListener (l x : Listener) : ∀ ls : List Listener,
    x ∈ insertListener l ls ↔ x = l ∨ x ∈ ls
  | [] => by simp [insertListener]
  | y :: ys => by
    unfold insertListener
    split
    · next h => subst h; simp
    · split
      · simp
      · simp only [List.mem_cons, mem_insertListener l x ys]
        constructor
        · rintro (h | h | h) <;> simp [h]
        · rintro (h | h | h) <;> simp [h]

theorem insertListener_perm (l : Listener) : ∀ ls : List Listener, l ∉ ls →
    (insertListener l ls).Perm (l :: ls)
  | [], _ => by simp [insertListener]
  | y :: ys, h => by
    have hy : l ≠ y := fun e => h (by simp [e])
    have hys : l ∉ ys := fun e => h (by simp [e])
    unfold insertListener
    rw [if_neg hy]
    split
    · exact List.Perm.refl _
    · exact ((insertListener_perm l ys hys).cons y).trans (List.Perm.swap l y ys)

theorem gasLimitFor_le (rem : Nat) : gasLimitFor rem ≤ MaximumTriggerGas := by
  unfold gasLimitFor
  simp only
  split <;> omega

/-! ### only the balances change -/

theorem WF_bal {s : State} (h : WF s) (b : Addr → Nat) : WF { s with bal := b } :=
  ⟨h.next, h.qlen, h.qstray, h.trig, h.lis, h.lisNodup, h.q, h.qNodup, h.gas, h.gasCap⟩

theorem Frame_bal (s : State) (b : Addr → Nat) : Frame s { s with bal := b } :=
  ⟨rfl, rfl, rfl, rfl, fun _ => Or.inl rfl, fun _ _ => rfl⟩

theorem bankSend_ok {s s' : State} {f t : Addr} {a : Nat} (h : bankSend s f t a = .ok s') :
    ∃ b, s' = { s with bal := b } := by
  unfold bankSend at h
  split at h; · cases h
  split at h; · cases h
  split at h; · cases h
  exact ⟨_, (Except.ok.inj h).symm⟩

/-! ### registering a fresh trigger -/

theorem WF_register {s : State} (h : WF s) (t : Trigger) (ht : t.id = s.nextId) (g : Nat)
    (hg : g ≤ MaximumTriggerGas) :
    WF (setGasLimit (setEventListener (setTrigger { s with nextId := s.nextId + 1 } t) t) t.id g) := by
  have fresh : ∀ l ∈ s.listeners, l.id ≠ t.id := by
    intro l hl e
    obtain ⟨t', ht', _⟩ := (h.lis l).1 hl
    have := (h.trig _ _ ht').2.2
    omega
  refine ⟨?_, h.qlen, h.qstray, ?_, ?_, ?_, ?_, h.qNodup, ?_, ?_⟩
  · show 1 ≤ s.nextId + 1; omega
  · intro id t' h'
    simp only [setGasLimit, setEventListener, setTrigger] at h'
    split at h'
    · next e => cases h'; subst e; exact ⟨rfl, by have := h.next; omega, by show t.id < s.nextId + 1; omega⟩
    · have := h.trig id t' h'; exact ⟨this.1, this.2.1, by show id < s.nextId + 1; omega⟩
  · intro l
    simp only [setGasLimit, setEventListener, setTrigger, mem_insertListener]
    constructor
    · rintro (e | hl)
      · subst e; exact ⟨t, by simp [listenerOf], rfl⟩
      · obtain ⟨t', ht', e⟩ := (h.lis l).1 hl
        exact ⟨t', by rw [if_neg (fresh l hl)]; exact ht', e⟩
    · rintro ⟨t', ht', e⟩
      split at ht'
      · cases ht'; exact Or.inl e
      · exact Or.inr ((h.lis l).2 ⟨t', ht', e⟩)
  · show ((insertListener (listenerOf t) s.listeners).map (·.id)).Nodup
    have hnot : listenerOf t ∉ s.listeners := fun hl => fresh _ hl rfl
    refine ((insertListener_perm _ _ hnot).map _).nodup_iff.2 ?_
    simp only [List.map_cons, List.nodup_cons]
    refine ⟨?_, h.lisNodup⟩
    intro hm
    obtain ⟨l, hl, e⟩ := List.mem_map.1 hm
    exact fresh l hl e
  · intro x hx
    have := h.q x hx
    refine ⟨?_, this.2.1, by show x.trigger.id < s.nextId + 1; omega⟩
    show (if x.trigger.id = t.id then some t else s.triggers x.trigger.id) = none
    rw [if_neg (by omega)]; exact this.1
  · intro id
    show (if id = t.id then some g else s.gasLimits id).isSome ↔
      ((if id = t.id then some t else s.triggers id).isSome ∨ id ∈ qIds s)
    split
    · simp
    · exact h.gas id
  · intro id g' h'
    simp only [setGasLimit] at h'
    split at h'
    · cases h'; exact hg
    · exact h.gasCap id g' h'

/-- `createTrigger` succeeded: what it returned and what it stored. -/
theorem createTrigger_ok {s s' : State} {m : CreateMsg} {rem h tm id g : Nat}
    (hc : createTrigger s m rem h tm = .ok (s', id, g)) :
    m.validateBasic = .ok () ∧ id = s.nextId ∧ g = gasLimitFor rem ∧ SetGasLimitCost ≤ rem ∧
    g ≤ rem - SetGasLimitCost ∧
    ∃ owner rest, m.authorities = owner :: rest ∧
      s' = setGasLimit (setEventListener (setTrigger { s with nextId := s.nextId + 1 }
        ⟨s.nextId, owner, m.event, m.actions⟩) ⟨s.nextId, owner, m.event, m.actions⟩) s.nextId g := by
  unfold createTrigger at hc
  split at hc; · cases hc
  next hv =>
  split at hc; · cases hc
  next s2 id2 hh =>
  cases hc
  unfold createTriggerHandler at hh
  split at hh; · cases hh
  split at hh; · cases hh
  next owner rest hauth =>
  simp only [newTriggerWithID] at hh
  split at hh
  · next s3 hr =>
    cases hh
    unfold registerTrigger at hr
    simp only at hr
    split at hr; · cases hr
    split at hr; · cases hr
    next h1 h2 =>
    cases hr
    exact ⟨hv, rfl, rfl, by omega, by omega, owner, rest, hauth, rfl⟩
  · cases hh

theorem WF_createTrigger {s s' : State} {m : CreateMsg} {rem h tm id g : Nat} (hw : WF s)
    (hc : createTrigger s m rem h tm = .ok (s', id, g)) : WF s' := by
  obtain ⟨_, _, hg, _, _, owner, rest, _, hs⟩ := createTrigger_ok hc
  subst hs
  exact WF_register hw ⟨s.nextId, owner, m.event, m.actions⟩ rfl g (hg ▸ gasLimitFor_le rem)

/-! ### destroying a registered trigger -/

theorem WF_destroy {s : State} (h : WF s) (t : Trigger) (ht : s.triggers t.id = some t) :
    WF (removeGasLimit (unregisterTrigger s t) t.id) := by
  have notq : t.id ∉ qIds s := by
    intro hm
    obtain ⟨x, hx, e⟩ := List.mem_map.1 hm
    have := (h.q x hx).1
    rw [e, ht] at this; cases this
  refine ⟨h.next, h.qlen, h.qstray, ?_, ?_, ?_, ?_, h.qNodup, ?_, ?_⟩
  · intro id t' h'
    simp only [removeGasLimit, unregisterTrigger, removeEventListener, removeTrigger] at h'
    split at h'
    · cases h'
    · exact h.trig id t' h'
  · intro l
    simp only [removeGasLimit, unregisterTrigger, removeEventListener, removeTrigger, List.mem_filter,
      bne_iff_ne, ne_eq]
    constructor
    · rintro ⟨hl, hne⟩
      obtain ⟨t', ht', e⟩ := (h.lis l).1 hl
      refine ⟨t', ?_, e⟩
      split
      · next e' => rw [e', ht] at ht'; cases ht'; exact absurd e hne
      · exact ht'
    · rintro ⟨t', ht', e⟩
      split at ht'
      · cases ht'
      · next hne =>
        refine ⟨(h.lis l).2 ⟨t', ht', e⟩, ?_⟩
        intro e'; apply hne; rw [e']; rfl
  · exact h.lisNodup.sublist ((List.filter_sublist (l := s.listeners)).map _)
  · intro x hx
    have := h.q x hx
    refine ⟨?_, this.2⟩
    show (if x.trigger.id = t.id then none else s.triggers x.trigger.id) = none
    split
    · rfl
    · exact this.1
  · intro id
    show (if id = t.id then none else s.gasLimits id).isSome ↔
      ((if id = t.id then none else s.triggers id).isSome ∨ id ∈ qIds s)
    split
    · next e => subst e; simp [notq]
    · exact h.gas id
  · intro id g h'
    simp only [removeGasLimit] at h'
    split at h'
    · cases h'
    · exact h.gasCap id g h'

theorem Frame_destroy (s : State) (t : Trigger) (ht : s.triggers t.id = some t) :
    Frame s (removeGasLimit (unregisterTrigger s t) t.id) :=
  ⟨rfl, rfl, rfl, rfl, fun id => by
    show (if id = t.id then none else s.triggers id) = s.triggers id ∨ _
    split
    · exact Or.inr (by simp [removeGasLimit, unregisterTrigger, removeEventListener, removeTrigger, *])
    · exact Or.inl rfl,
   fun id hn => by
    show (if id = t.id then none else s.gasLimits id) = s.gasLimits id
    split
    · next e => subst e; rw [ht] at hn; cases hn
    · rfl⟩

theorem destroyTriggerHandler_ok {s s' : State} {auth : Addr} {id : Nat}
    (h : destroyTriggerHandler s auth id = .ok s') :
    ∃ t, s.triggers id = some t ∧ t.owner = auth ∧ s' = removeGasLimit (unregisterTrigger s t) t.id := by
  unfold destroyTriggerHandler getTrigger at h
  split at h; · cases h
  next t ht =>
  split at h; · cases h
  next ho =>
  cases h
  exact ⟨t, ht, by simpa using ho, rfl⟩

theorem destroyTrigger_ok {s s' : State} {auth : Addr} {id : Nat}
    (h : destroyTrigger s auth id = .ok s') :
    validAddr auth = true ∧ id ≠ 0 ∧
    ∃ t, s.triggers id = some t ∧ t.owner = auth ∧ s' = removeGasLimit (unregisterTrigger s t) t.id := by
  unfold destroyTrigger at h
  split at h; · cases h
  next hv =>
  simp only [Bool.or_eq_true, Bool.not_eq_eq_eq_not, Bool.not_true, decide_eq_true_eq, not_or,
    Bool.not_eq_false] at hv
  exact ⟨hv.1, hv.2, destroyTriggerHandler_ok h⟩

theorem WF_destroyTrigger {s s' : State} {auth : Addr} {id : Nat} (hw : WF s)
    (h : destroyTrigger s auth id = .ok s') : WF s' ∧ Frame s s' := by
  obtain ⟨_, _, t, ht, _, hs⟩ := destroyTrigger_ok h
  have hid := (hw.trig id t ht).1
  subst hs
  exact ⟨WF_destroy hw t (hid ▸ ht), Frame_destroy s t (hid ▸ ht)⟩

/-! ### actions -/

theorem WF_handleMsg {s s' : State} {a : Action} (hw : WF s) (h : handleMsg s a = .ok s') :
    WF s' ∧ Frame s s' := by
  cases a with
  | send f t amt =>
    obtain ⟨b, hb⟩ := bankSend_ok (show bankSend s f t amt = .ok s' from h)
    subst hb; exact ⟨WF_bal hw b, Frame_bal s b⟩
  | kill auth id => exact WF_destroyTrigger hw (show destroyTrigger s auth id = .ok s' from h)
  | boom => cases h

theorem WF_handleMsgs (oog : Nat → Bool) : ∀ (acts : List Action) (s c : State) (i : Nat),
    WF s → (handleMsgs oog s acts i).2 = some c → WF c ∧ Frame s c
  | [], s, c, i, hw, h => by
    simp only [handleMsgs] at h; cases h; exact ⟨hw, Frame.refl s⟩
  | a :: rest, s, c, i, hw, h => by
    simp only [handleMsgs] at h
    split at h; · cases h
    split at h
    · next s' hs =>
      obtain ⟨hw', hf'⟩ := WF_handleMsg hw hs
      obtain ⟨hw'', hf''⟩ := WF_handleMsgs oog rest s' c (i + 1) hw' h
      exact ⟨hw'', hf'.trans hf''⟩
    · cases h
    · cases h

theorem WF_runActions {s : State} (hw : WF s) (acts : List Action) (oog : Nat → Bool) :
    WF (runActions s acts oog).2.2 ∧ Frame s (runActions s acts oog).2.2 := by
  unfold runActions
  split
  · next os c hc =>
    have : (handleMsgs oog s acts 0).2 = some c := by rw [hc]
    exact WF_handleMsgs oog acts s c 0 hw this
  · exact ⟨hw, Frame.refl s⟩

/-! ### the dispatcher: one dequeue -/

theorem qIds_cons_of_qList {s s1 : State} {item : QItem} (h : qList s = item :: qList s1) :
    qIds s = item.trigger.id :: qIds s1 := by
  unfold qIds; rw [h]; rfl

/-- `Dequeue` + `RemoveGasLimit` of the head. -/
theorem WF_dequeue {s : State} (h : WF s) (item : QItem) (hq : s.qItems s.qStart = some item)
    (hn : s.qLen ≠ 0) :
    let s1 := removeGasLimit (dequeue s) item.trigger.id
    WF s1 ∧ qList s = item :: qList s1 ∧ s1.nextId = s.nextId ∧ s1.triggers = s.triggers ∧
      s1.bal = s.bal := by
  intro s1
  have hl : qList s = item :: qList s1 := qList_dequeue s item hq hn
  have hids : qIds s = item.trigger.id :: qIds s1 := qIds_cons_of_qList hl
  have hnd := h.qNodup
  rw [hids, List.nodup_cons] at hnd
  have hitem := h.q item (by rw [hl]; exact List.mem_cons_self)
  refine ⟨⟨h.next, ?_, ?_, h.trig, h.lis, h.lisNodup, ?_, hnd.2, ?_, ?_⟩, hl, rfl, rfl, rfl⟩
  · have := h.qlen; rw [hl] at this
    show (qList s1).length = s.qLen - 1
    simp only [List.length_cons] at this; omega
  · intro i hi
    have hi' : i ≠ s.qStart ∧ s.qItems i ≠ none := by
      change (if i = s.qStart then none else s.qItems i) ≠ none at hi
      split at hi
      · exact absurd rfl hi
      · exact ⟨by assumption, hi⟩
    have := h.qstray i hi'.2
    show s.qStart + 1 ≤ i ∧ i < s.qStart + 1 + (s.qLen - 1)
    omega
  · intro x hx
    exact h.q x (by rw [hl]; exact List.mem_cons_of_mem _ hx)
  · intro id
    show (if id = item.trigger.id then none else s.gasLimits id).isSome ↔
      ((s.triggers id).isSome ∨ id ∈ qIds s1)
    split
    · next e => subst e; simp [hitem.1, hnd.1]
    · next e => rw [h.gas id, hids]; simp [e]
  · intro id g h'
    change (if id = item.trigger.id then none else s.gasLimits id) = some g at h'
    split at h'
    · cases h'
    · exact h.gasCap id g h'

/-! ### the detector: unregister + queue one trigger -/

theorem WF_queueDetected_step {s : State} (h : WF s) (t : Trigger) (ht : s.triggers t.id = some t)
    (height time : Nat) :
    let s' := queueTrigger (unregisterTrigger s t) t height time
    WF s' ∧ qList s' = qList s ++ [⟨t, time, height⟩] ∧ s'.nextId = s.nextId ∧
      (∀ id, s'.triggers id = if id = t.id then none else s.triggers id) ∧ s'.bal = s.bal ∧
      s'.gasLimits = s.gasLimits := by
  intro s'
  have hl : qList s' = qList s ++ [⟨t, time, height⟩] :=
    qList_enqueue (unregisterTrigger s t) ⟨t, time, height⟩ h.qlen
  have hids : qIds s' = qIds s ++ [t.id] := by unfold qIds; rw [hl]; simp
  have notq : t.id ∉ qIds s := by
    intro hm
    obtain ⟨x, hx, e⟩ := List.mem_map.1 hm
    have := (h.q x hx).1
    rw [e, ht] at this; cases this
  have hb := h.trig _ _ ht
  refine ⟨⟨h.next, ?_, ?_, ?_, ?_, ?_, ?_, ?_, ?_, h.gasCap⟩, hl, rfl, fun _ => rfl, rfl, rfl⟩
  · rw [hl]; show _ = s.qLen + 1; simp [h.qlen]
  · intro i hi
    change (if i = s.qStart + s.qLen then some _ else s.qItems i) ≠ none at hi
    show s.qStart ≤ i ∧ i < s.qStart + (s.qLen + 1)
    split at hi
    · omega
    · have := h.qstray i hi; omega
  · intro id t' h'
    change (if id = t.id then none else s.triggers id) = some t' at h'
    split at h'
    · cases h'
    · exact h.trig id t' h'
  · intro l
    show l ∈ s.listeners.filter (fun l => l != listenerOf t) ↔
      ∃ t', (if l.id = t.id then none else s.triggers l.id) = some t' ∧ l = listenerOf t'
    simp only [List.mem_filter, bne_iff_ne, ne_eq]
    constructor
    · rintro ⟨hl', hne⟩
      obtain ⟨t', ht', e⟩ := (h.lis l).1 hl'
      refine ⟨t', ?_, e⟩
      split
      · next e' => rw [e', ht] at ht'; cases ht'; exact absurd e hne
      · exact ht'
    · rintro ⟨t', ht', e⟩
      split at ht'
      · cases ht'
      · next hne =>
        refine ⟨(h.lis l).2 ⟨t', ht', e⟩, ?_⟩
        intro e'; apply hne; rw [e']; rfl
  · exact h.lisNodup.sublist ((List.filter_sublist (l := s.listeners)).map _)
  · intro x hx
    rw [hl, List.mem_append, List.mem_singleton] at hx
    show (if x.trigger.id = t.id then none else s.triggers x.trigger.id) = none ∧ _
    rcases hx with hx | hx
    · have := h.q x hx
      refine ⟨?_, this.2⟩
      split
      · rfl
      · exact this.1
    · subst hx; simp only [if_true, true_and]; exact ⟨hb.2.1, hb.2.2⟩
  · rw [hids]
    exact List.nodup_append.2 ⟨h.qNodup, by simp, by
      intro a ha b hb' e; simp at hb'; subst hb'; subst e; exact notq ha⟩
  · intro id
    show (s.gasLimits id).isSome ↔ ((if id = t.id then none else s.triggers id).isSome ∨ id ∈ qIds s')
    rw [h.gas id, hids]
    by_cases e : id = t.id
    · subst e; simp [ht]
    · simp [e]

end PvProofs.Lemmas.Trig
