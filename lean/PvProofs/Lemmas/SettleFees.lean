/-
Helper lemmas for C01, fee exactness at the keeper level: what `calculateSellerSettlementRatioFee`
returns is the ceiling of the ratio applied to the price, what `CalculateExchangeSplit` returns per
denom is the ceiling share — as declarative predicates (`IsRatioFeeOf`, `IsExchangeShare`), derived
from the C19 lemmas.
-/
import PvProofs.Lemmas.SettleKeeperL
import Mathlib.Tactic.Linarith

namespace PvProofs.Settle
open PvModel PvModel.Settle PvModel.Coins PvModel.Ledger PvModel.Fees PvProofs

/-- `fee` is what the market's seller ratio charges on the price coin `c`: nothing when the market has no
ratio; otherwise the ratio is for `c`'s denom and the fee is one coin in the ratio's fee denom, the
ceiling `⌈c·fee/price⌉` (for a valid ratio and a non-negative price). -/
def IsRatioFeeOf (s : KState) (c : Denom × Int) (fee : Coins) : Prop :=
  match s.ratio with
  | none => fee = []
  | some r => r.priceDenom = c.1 ∧ ∃ amt, fee = [(r.feeDenom, amt)] ∧
      (0 ≤ c.2 → 0 < r.priceAmt → 0 ≤ r.feeAmt → IsCeilDiv (c.2 * r.feeAmt) r.priceAmt amt)

theorem ratioFeeOf_spec {s : KState} {c : Denom × Int} {fee : Coins} (h : s.ratioFeeOf c = .ok fee) :
    IsRatioFeeOf s c fee := by
  unfold KState.ratioFeeOf KState.lookup at h
  unfold IsRatioFeeOf
  cases hr : s.ratio with
  | none => rw [hr] at h; simpa using h.symm
  | some r =>
    rw [hr] at h
    simp only at h
    by_cases hd : r.priceDenom = c.1
    · simp only [hd, if_true] at h
      split at h; · simp at h
      rename_i f hf
      simp only [Except.ok.injEq] at h
      subst h
      refine ⟨hd, f.2, ?_, fun h1 h2 h3 => (ratioFee_is_ceil (fd := f.1) (amt := f.2) hf h1 h2 h3).2.2⟩
      have : f.1 = r.feeDenom := by
        unfold ratioFee at hf
        split at hf; · simp at hf
        split at hf
        · simp at hf
        · simp at hf
        · simp only [Except.ok.injEq] at hf; rw [← hf]
      rw [← this]
    · simp [hd] at h

theorem mapM_forall₂ {α β ε : Type} (f : α → Except ε β) (l : List α) (r : List β) (h : l.mapM f = .ok r) :
    List.Forall₂ (fun a b => f a = .ok b) l r := by
  induction l generalizing r with
  | nil => simp [pure, Except.pure] at h; subst h; exact .nil
  | cons a t ih =>
    simp only [List.mapM_cons, bind, Except.bind, pure, Except.pure] at h
    split at h; · simp at h
    rename_i b hb
    split at h; · simp at h
    rename_i rs hrs
    simp only [Except.ok.injEq] at h; subst h
    exact .cons hb (ih rs hrs)

theorem forall₂_imp {α β : Type} {R S : α → β → Prop} {l : List α} {r : List β} (H : ∀ a b, R a b → S a b)
    (h : List.Forall₂ R l r) : List.Forall₂ S l r := by
  induction h with
  | nil => exact .nil
  | cons hab _ ih => exact .cons (H _ _ hab) ih

/-- `x` is the exchange's share of the collected fees `total` of a denom whose split is `split` bips:
nothing of nothing / with a zero split, otherwise exactly `⌈total·split/10000⌉`, between 0 and the
total. -/
def IsExchangeShare (total : Int) (split : Nat) (x : Int) : Prop :=
  ((total = 0 ∨ split = 0) → x = 0) ∧
  (0 < total → 0 < split → IsCeilDiv (total * split) 10000 x ∧ 0 ≤ x ∧ (split ≤ 10000 → x ≤ total))

/-- Whatever `CalculateExchangeSplit` returns for a denom is the ceiling share (no bound on the size
of the amount is needed: the statement is about the value returned). -/
theorem exchangeShare_spec {amt : Int} {split : Nat} {r : Option Int}
    (h : exchangeSplitCoin amt split = .ok r) : IsExchangeShare amt split (r.getD 0) := by
  constructor
  · intro h0
    rw [PvProofs.C19.exchangeSplit_skips h0] at h
    simp only [Except.ok.injEq] at h
    subst h; rfl
  · intro ha hs0
    have h1 : ¬ amt = 0 := by omega
    have h2 : ¬ split = 0 := by omega
    obtain ⟨e1, e2⟩ := tdiv_tmod_nonneg (by omega : 0 ≤ amt) (by decide : (0 : Int) < 10000)
    have hr : r = some (amt / 10000 * split + quoIntRoundUp (amt % 10000 * split) 10000) := by
      unfold exchangeSplitCoin mul256 add256 at h
      simp only [h1, h2, if_false, e1, e2, bind, Except.bind, pure, Except.pure] at h
      split at h; · simp at h
      rename_i a ha'
      split at ha'
      · simp only [Except.ok.injEq] at ha'; subst ha'
        split at h; · simp at h
        rename_i b hb'
        split at hb'
        · simp only [Except.ok.injEq] at hb'; subst hb'
          split at h; · simp at h
          rename_i c hc'
          split at hc'
          · simp only [Except.ok.injEq] at hc' h; subst hc'; exact h.symm
          · simp at hc'
        · simp at hb'
      · simp at ha'
    subst hr
    simp only [Option.getD_some]
    have hs0' : (0 : Int) < split := by exact_mod_cast hs0
    obtain ⟨f1, f2, f3⟩ := ediv_facts amt (by decide : (0 : Int) < 10000)
    have hq : 0 ≤ amt / 10000 := Int.ediv_nonneg (by omega) (by decide)
    have hb : 0 ≤ amt % 10000 * (split : Int) := Int.mul_nonneg f2 (by omega)
    have hc := quoIntRoundUp_isCeil hb (by decide : (0 : Int) < 10000)
    have hc0 := isCeilDiv_nonneg (by decide) hb hc
    unfold IsCeilDiv at hc
    have hwb : 0 ≤ amt / 10000 * (split : Int) := Int.mul_nonneg hq (by omega)
    have hexp : amt * (split : Int) = 10000 * (amt / 10000 * split) + amt % 10000 * split := by
      have : amt * (split : Int) = (10000 * (amt / 10000) + amt % 10000) * split := by rw [f1]
      rw [this, Int.add_mul, Int.mul_assoc]
    refine ⟨?_, by omega, ?_⟩
    · unfold IsCeilDiv
      rw [hexp]
      constructor <;> nlinarith [hc.1, hc.2]
    · intro hs
      have hsl : (split : Int) ≤ 10000 := by exact_mod_cast hs
      have h3 : amt % 10000 * (split : Int) ≤ amt % 10000 * 10000 := by nlinarith
      have h4 : amt / 10000 * (split : Int) ≤ amt / 10000 * 10000 := by nlinarith
      have hcle : quoIntRoundUp (amt % 10000 * (split : Int)) 10000 ≤ amt % 10000 := by
        have : 10000 * (quoIntRoundUp (amt % 10000 * (split : Int)) 10000 - 1) < amt % 10000 * 10000 := by
          linarith [hc.1]
        omega
      omega

/-- the canonical sum of coins that all have the same denom is one coin (or none, when they cancel) -/
theorem foldl_insertCanon_single (pd : Denom) (l : Coins) (hl : ∀ c ∈ l, c.1 = pd) (acc : Int) :
    l.foldl (fun acc (c : Denom × Int) => insertCanon c.1 c.2 acc) [(pd, acc)] = [(pd, (l.map (·.2)).sum + acc)] := by
  induction l generalizing acc with
  | nil => simp
  | cons c t ih =>
    have hc := hl c (by simp)
    obtain ⟨d, x⟩ := c
    simp only at hc
    subst hc
    simp only [List.foldl_cons, insertCanon, if_true, List.map_cons, List.sum_cons]
    rw [ih (fun c hc => hl c (by simp [hc]))]
    congr 2; omega

theorem canon_single (pd : Denom) (l : Coins) (hl : ∀ c ∈ l, c.1 = pd) (hne : l ≠ [])
    (hs : (l.map (·.2)).sum ≠ 0) : canon l = [(pd, (l.map (·.2)).sum)] := by
  cases l with
  | nil => exact absurd rfl hne
  | cons c t =>
    have hc := hl c (by simp)
    obtain ⟨d, x⟩ := c
    simp only at hc
    subst hc
    unfold canon
    simp only [List.foldl_cons, insertCanon]
    have := foldl_insertCanon_single d t (fun c hc => hl c (by simp [hc])) x
    simp only [List.map_cons, List.sum_cons] at hs
    have e : (fun acc (x : Denom × Int) => match x with | (d, x) => insertCanon d x acc)
        = (fun acc (c : Denom × Int) => insertCanon c.1 c.2 acc) := by
      funext acc x; rfl
    rw [e, this]
    simp only [List.map_cons, List.sum_cons]
    have h' : (t.map (·.2)).sum + x ≠ 0 := by omega
    simp only [List.filter_cons, List.filter_nil]
    rw [if_pos (by simpa using h')]
    congr 2; omega

end PvProofs.Settle
