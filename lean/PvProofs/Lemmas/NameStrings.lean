/-
Helper lemmas for C15: `splitDot`/`joinDot` round trips, `trimSpace`, `toLower`, and
idempotence of `normalizeName` / `Keeper.Normalize`.
-/
import PvModel.NameSpec
import Mathlib.Data.List.DropRight

namespace PvModel.Name

/-! ### bytes -/

theorem u8_forall {P : UInt8 → Prop} (h : ∀ n : Fin 256, P (UInt8.ofNat n.val)) : ∀ c, P c := by
  intro c
  have := h ⟨c.toNat, c.toNat_lt⟩
  simpa using this

set_option maxRecDepth 4000 in
theorem isSpace_toLower : ∀ c, isSpace (toLower c) = isSpace c := u8_forall (by decide)

set_option maxRecDepth 4000 in
theorem toLower_toLower : ∀ c, toLower (toLower c) = toLower c := u8_forall (by decide)

set_option maxRecDepth 4000 in
theorem toLower_eq_dot : ∀ c, toLower c = dot ↔ c = dot := u8_forall (by decide)

set_option maxRecDepth 4000 in
theorem isUpper_toLower : ∀ c, isUpper (toLower c) = false := u8_forall (by decide)

theorem toLower_of_not_upper {c : UInt8} (h : isUpper c = false) : toLower c = c := by
  simp [toLower, h]

theorem dot_not_space : isSpace dot = false := by decide
theorem dot_not_upper : isUpper dot = false := by decide

/-! ### splitDot / joinDot -/

theorem splitDot_ne_nil (s : Bytes) : splitDot s ≠ [] := by
  induction s with
  | nil => simp [splitDot]
  | cons c cs ih =>
    simp only [splitDot]
    split
    · simp
    · split <;> simp

theorem splitDot_cons_dot (cs : Bytes) : splitDot (dot :: cs) = [] :: splitDot cs := by
  simp [splitDot]

theorem splitDot_cons_ne {c : UInt8} (h : c ≠ dot) {cs s : Bytes} {ss : List Bytes}
    (hs : splitDot cs = s :: ss) : splitDot (c :: cs) = (c :: s) :: ss := by
  simp [splitDot, h, hs]

theorem splitDot_append_dotfree (x : Bytes) (hx : dot ∉ x) (t s : Bytes) (ss : List Bytes)
    (ht : splitDot t = s :: ss) : splitDot (x ++ t) = (x ++ s) :: ss := by
  induction x with
  | nil => simpa using ht
  | cons c x ih =>
    have hc : c ≠ dot := fun e => hx (by simp [e])
    have hx' : dot ∉ x := fun h => hx (List.mem_cons_of_mem _ h)
    exact splitDot_cons_ne hc (ih hx')

theorem splitDot_dotfree_eq {s : Bytes} (h : dot ∉ s) : splitDot s = [s] := by
  have := splitDot_append_dotfree s h [] [] [] (by simp [splitDot])
  simpa using this

theorem joinDot_cons_cons (c : UInt8) (s : Bytes) (ss : List Bytes) :
    joinDot ((c :: s) :: ss) = c :: joinDot (s :: ss) := by
  cases ss <;> simp [joinDot]

theorem joinDot_cons_of_ne_nil (s : Bytes) {ss : List Bytes} (h : ss ≠ []) :
    joinDot (s :: ss) = s ++ dot :: joinDot ss := by
  cases ss with
  | nil => exact absurd rfl h
  | cons a b => simp [joinDot]

theorem joinDot_splitDot (s : Bytes) : joinDot (splitDot s) = s := by
  induction s with
  | nil => simp [splitDot, joinDot]
  | cons c cs ih =>
    by_cases hc : c = dot
    · subst hc
      rw [splitDot_cons_dot, joinDot_cons_of_ne_nil _ (splitDot_ne_nil cs), ih]; rfl
    · obtain ⟨s, ss, hs⟩ : ∃ s ss, splitDot cs = s :: ss := by
        cases h : splitDot cs with
        | nil => exact absurd h (splitDot_ne_nil cs)
        | cons a b => exact ⟨a, b, rfl⟩
      rw [splitDot_cons_ne hc hs, joinDot_cons_cons, ← hs, ih]

theorem splitDot_joinDot (xs : List Bytes) (hne : xs ≠ []) (hfree : ∀ x ∈ xs, dot ∉ x) :
    splitDot (joinDot xs) = xs := by
  induction xs with
  | nil => exact absurd rfl hne
  | cons x rest ih =>
    have hx : dot ∉ x := hfree x (by simp)
    cases rest with
    | nil => simpa [joinDot] using splitDot_dotfree_eq hx
    | cons y ys =>
      have ih' := ih (by simp) (fun z hz => hfree z (List.mem_cons_of_mem _ hz))
      rw [joinDot_cons_of_ne_nil _ (by simp)]
      have := splitDot_append_dotfree x hx (dot :: joinDot (y :: ys)) [] (y :: ys)
        (by rw [splitDot_cons_dot, ih'])
      simpa using this

theorem splitDot_dotfree (s : Bytes) : ∀ x ∈ splitDot s, dot ∉ x := by
  induction s with
  | nil => simp [splitDot]
  | cons c cs ih =>
    by_cases hc : c = dot
    · subst hc
      rw [splitDot_cons_dot]
      intro x hx
      rcases List.mem_cons.mp hx with rfl | h
      · simp
      · exact ih x h
    · obtain ⟨s, ss, hs⟩ : ∃ s ss, splitDot cs = s :: ss := by
        cases h : splitDot cs with
        | nil => exact absurd h (splitDot_ne_nil cs)
        | cons a b => exact ⟨a, b, rfl⟩
      rw [splitDot_cons_ne hc hs]
      intro x hx
      rcases List.mem_cons.mp hx with rfl | h
      · intro hmem
        rcases List.mem_cons.mp hmem with e | h'
        · exact hc e.symm
        · exact ih s (by rw [hs]; simp) h'
      · exact ih x (by rw [hs]; exact List.mem_cons_of_mem _ h)

/-- every byte of a segment is a byte of the string -/
theorem mem_of_mem_splitDot (s : Bytes) : ∀ x ∈ splitDot s, ∀ c ∈ x, c ∈ s := by
  intro x hx c hc
  have : c ∈ joinDot (splitDot s) := by
    generalize splitDot s = xs at hx
    induction xs with
    | nil => cases hx
    | cons y ys ih =>
      cases ys with
      | nil =>
        rcases List.mem_cons.mp hx with rfl | h
        · simpa [joinDot] using hc
        · cases h
      | cons z zs =>
        rw [joinDot_cons_of_ne_nil _ (by simp)]
        rcases List.mem_cons.mp hx with rfl | h
        · exact List.mem_append_left _ hc
        · exact List.mem_append_right _ (List.mem_cons_of_mem _ (ih h))
  rwa [joinDot_splitDot] at this

/-! ### trimSpace -/

theorem trimSpace_eq (s : Bytes) : trimSpace s = (s.dropWhile isSpace).rdropWhile isSpace := rfl

theorem trimSpace_sublist (s : Bytes) : (trimSpace s).Sublist s := by
  rw [trimSpace_eq]
  exact (List.rdropWhile_prefix isSpace _).sublist.trans (List.dropWhile_sublist _)

theorem head_not_space_of_dropWhile (s : Bytes) (h : 0 < (s.dropWhile isSpace).length) :
    ¬ isSpace ((s.dropWhile isSpace)[0]) := by
  have := List.dropWhile_idempotent isSpace s
  exact (List.dropWhile_eq_self_iff.mp this) h

theorem trimSpace_head (s : Bytes) (h : 0 < (trimSpace s).length) : ¬ isSpace ((trimSpace s)[0]) := by
  have hp : trimSpace s <+: s.dropWhile isSpace := List.rdropWhile_prefix isSpace _
  have hlen : 0 < (s.dropWhile isSpace).length := Nat.lt_of_lt_of_le h hp.length_le
  have : (trimSpace s)[0] = (s.dropWhile isSpace)[0] := by
    obtain ⟨t, ht⟩ := hp
    simp only [← ht]
    rw [List.getElem_append_left h]
  rw [this]
  exact head_not_space_of_dropWhile s hlen

theorem trimSpace_idem (s : Bytes) : trimSpace (trimSpace s) = trimSpace s := by
  have h1 : (trimSpace s).dropWhile isSpace = trimSpace s :=
    List.dropWhile_eq_self_iff.mpr (fun hl => trimSpace_head s hl)
  rw [trimSpace_eq (trimSpace s), h1, trimSpace_eq, List.rdropWhile_idempotent]

theorem dropWhile_map_toLower (s : Bytes) :
    (s.map toLower).dropWhile isSpace = (s.dropWhile isSpace).map toLower := by
  induction s with
  | nil => rfl
  | cons c cs ih =>
    simp only [List.map_cons, List.dropWhile_cons, isSpace_toLower]
    split
    · exact ih
    · simp

theorem trimSpace_map_toLower (s : Bytes) : trimSpace (s.map toLower) = (trimSpace s).map toLower := by
  simp only [trimSpace, dropWhile_map_toLower, ← List.map_reverse]

/-- `f` = what `NormalizeName` does to one segment -/
def normSeg (seg : Bytes) : Bytes := (trimSpace seg).map toLower

theorem normSeg_idem (seg : Bytes) : normSeg (normSeg seg) = normSeg seg := by
  simp only [normSeg, trimSpace_map_toLower, trimSpace_idem, List.map_map]
  congr 1
  funext c
  exact toLower_toLower c

theorem trimSpace_normSeg (seg : Bytes) : trimSpace (normSeg seg) = normSeg seg := by
  simp only [normSeg, trimSpace_map_toLower, trimSpace_idem]

theorem normSeg_dotfree {seg : Bytes} (h : dot ∉ seg) : dot ∉ normSeg seg := by
  intro hm
  obtain ⟨c, hc, hcd⟩ := List.mem_map.mp hm
  rw [toLower_eq_dot] at hcd
  subst hcd
  exact h ((trimSpace_sublist seg).subset hc)

theorem normalizeName_eq (name : Bytes) : normalizeName name = joinDot ((splitDot name).map normSeg) := rfl

theorem splitDot_normalizeName (name : Bytes) :
    splitDot (normalizeName name) = (splitDot name).map normSeg := by
  rw [normalizeName_eq]
  apply splitDot_joinDot
  · simpa using splitDot_ne_nil name
  · intro x hx
    obtain ⟨seg, hseg, rfl⟩ := List.mem_map.mp hx
    exact normSeg_dotfree (splitDot_dotfree name seg hseg)

/-- `NormalizeName` is idempotent. -/
theorem normalizeName_idem (name : Bytes) : normalizeName (normalizeName name) = normalizeName name := by
  rw [normalizeName_eq (normalizeName name), splitDot_normalizeName, List.map_map, normalizeName_eq]
  congr 1
  apply List.map_congr_left
  intro seg _
  exact normSeg_idem seg


/-! ### the key pre-image under normalisation -/

theorem all_space_of_trimSpace_nil {s : Bytes} (h : trimSpace s = []) : ∀ c ∈ s, isSpace c = true := by
  rw [trimSpace_eq, List.rdropWhile_eq_nil_iff] at h
  intro c hc
  rw [← List.takeWhile_append_dropWhile (p := isSpace) (l := s)] at hc
  rcases List.mem_append.mp hc with h1 | h2
  · exact List.mem_takeWhile_imp h1
  · exact h c h2

/-- the "name is blank" test of `getNamePrefixByType` is subsumed by the empty-segment test -/
theorem preimage_eq (name : Bytes) :
    preimage name =
      if ((splitDot name).map trimSpace).any (·.isEmpty) then .error .nameInvalid
      else .ok ((splitDot name).map trimSpace).reverse.flatten := by
  unfold preimage
  by_cases h : trimSpace name = []
  · have hall := all_space_of_trimSpace_nil h
    have hfree : dot ∉ name := fun hm => by
      have := hall dot hm; rw [dot_not_space] at this; cases this
    simp [h, splitDot_dotfree_eq hfree]
  · simp [h]

theorem preimage_normalizeName {name p : Bytes} (h : preimage name = .ok p) :
    preimage (normalizeName name) = .ok (p.map toLower) := by
  rw [preimage_eq] at h ⊢
  have hseg : (splitDot (normalizeName name)).map trimSpace
      = ((splitDot name).map trimSpace).map (List.map toLower) := by
    rw [splitDot_normalizeName, List.map_map, List.map_map]
    apply List.map_congr_left
    intro seg _
    simp only [Function.comp, trimSpace_normSeg]; rfl
  rw [hseg]
  split at h
  · cases h
  · rename_i hany
    cases h
    have : (((splitDot name).map trimSpace).map (List.map toLower)).any (·.isEmpty)
        = ((splitDot name).map trimSpace).any (·.isEmpty) := by
      rw [List.any_map]
      congr 1
      funext x
      simp
    rw [this, if_neg hany, ← List.map_reverse, List.map_flatten]

/-- no upper-case ASCII letter occurs -/
def NoUpper (s : Bytes) : Prop := ∀ c ∈ s, isUpper c = false

theorem mem_joinDot {c : UInt8} : ∀ {xs : List Bytes}, c ∈ joinDot xs → c = dot ∨ ∃ x ∈ xs, c ∈ x
  | [], h => by simp [joinDot] at h
  | [x], h => Or.inr ⟨x, by simp, by simpa [joinDot] using h⟩
  | x :: y :: ys, h => by
    rw [joinDot_cons_of_ne_nil _ (by simp)] at h
    rcases List.mem_append.mp h with h1 | h2
    · exact Or.inr ⟨x, by simp, h1⟩
    · rcases List.mem_cons.mp h2 with e | h3
      · exact Or.inl e
      · rcases mem_joinDot h3 with e | ⟨z, hz, hc⟩
        · exact Or.inl e
        · exact Or.inr ⟨z, List.mem_cons_of_mem _ hz, hc⟩

theorem noUpper_normalizeName (name : Bytes) : NoUpper (normalizeName name) := by
  intro c hc
  rcases mem_joinDot hc with e | ⟨x, hx, hcx⟩
  · subst e; exact dot_not_upper
  · obtain ⟨seg, _, rfl⟩ := List.mem_map.mp hx
    obtain ⟨d, _, rfl⟩ := List.mem_map.mp hcx
    exact isUpper_toLower d

theorem preimage_noUpper {name p : Bytes} (hn : NoUpper name) (h : preimage name = .ok p) : NoUpper p := by
  rw [preimage_eq] at h
  split at h
  · cases h
  · cases h
    intro c hc
    obtain ⟨x, hx, hcx⟩ := List.mem_flatten.mp hc
    rw [List.mem_reverse] at hx
    obtain ⟨seg, hseg, rfl⟩ := List.mem_map.mp hx
    exact hn c (mem_of_mem_splitDot name seg hseg c ((trimSpace_sublist seg).subset hcx))

theorem map_toLower_of_noUpper {p : Bytes} (h : NoUpper p) : p.map toLower = p := by
  induction p with
  | nil => rfl
  | cons c cs ih =>
    rw [List.map_cons, toLower_of_not_upper (h c (by simp)), ih (fun d hd => h d (List.mem_cons_of_mem _ hd))]

variable {κ : Type} (cfg : Cfg κ)

theorem normalize_eq_normalizeName {name n : Bytes} (h : normalize cfg name = .ok n) :
    n = normalizeName name := by
  unfold normalize at h
  simp only at h
  split at h
  · cases h
  · split at h
    · cases h
    · split at h
      · cases h
      · cases h; rfl

/-- `Keeper.Normalize` accepts its own output unchanged. -/
theorem normalize_idem {name n : Bytes} (h : normalize cfg name = .ok n) : normalize cfg n = .ok n := by
  have hn := normalize_eq_normalizeName cfg h
  subst hn
  unfold normalize at h ⊢
  simp only [normalizeName_idem] at h ⊢
  exact h

theorem noUpper_of_normalize {name n : Bytes} (h : normalize cfg name = .ok n) : NoUpper n := by
  rw [normalize_eq_normalizeName cfg h]; exact noUpper_normalizeName name

/-! ### collision freedom on a finite list of names -/

theorem mem_preimagesOf {names : List Bytes} {p : Bytes} :
    p ∈ preimagesOf names ↔ ∃ n ∈ names, preimage n = .ok p := by
  unfold preimagesOf
  rw [List.mem_filterMap]
  constructor
  · rintro ⟨n, hn, h⟩
    refine ⟨n, hn, ?_⟩
    split at h
    · rename_i q hq; cases h; exact hq
    · cases h
  · rintro ⟨n, hn, h⟩
    exact ⟨n, hn, by rw [h]⟩

/-- the form in which the hypothesis is used -/
theorem NoHashCollision.eq {names : List Bytes} (h : NoHashCollision cfg names) {n1 n2 p1 p2 : Bytes}
    (m1 : n1 ∈ names) (m2 : n2 ∈ names) (h1 : preimage n1 = .ok p1) (h2 : preimage n2 = .ok p2)
    (he : cfg.H p1 = cfg.H p2) : p1 = p2 :=
  h p1 (mem_preimagesOf.mpr ⟨n1, m1, h1⟩) p2 (mem_preimagesOf.mpr ⟨n2, m2, h2⟩) he

theorem NoHashCollision.mono {names names' : List Bytes} (h : NoHashCollision cfg names)
    (hsub : ∀ n ∈ names', n ∈ names) : NoHashCollision cfg names' := by
  intro p hp q hq he
  obtain ⟨n1, m1, h1⟩ := mem_preimagesOf.mp hp
  obtain ⟨n2, m2, h2⟩ := mem_preimagesOf.mp hq
  exact h.eq cfg (hsub _ m1) (hsub _ m2) h1 h2 he

/-- an injective hash (the idealisation the earlier statements assumed) has no collision on any list -/
theorem noHashCollision_of_injective (hH : Function.Injective cfg.H) (names : List Bytes) :
    NoHashCollision cfg names := fun _ _ _ _ he => hH he

/-- If a (raw) name resolves to the key of a stored lower-case name and the hash does not collide
on the pre-images of these two names, normalising the raw name does not change its key. -/
theorem key_normalizeName_of_resolves {names : List Bytes} (hH : NoHashCollision cfg names)
    {name stored : Bytes} (mn : name ∈ names) (ms : stored ∈ names) {k : κ}
    (hk : getNameKeyPrefix cfg name = .ok k) (hs : getNameKeyPrefix cfg stored = .ok k)
    (hlow : NoUpper stored) : getNameKeyPrefix cfg (normalizeName name) = .ok k := by
  unfold getNameKeyPrefix at hk hs ⊢
  cases hp : preimage name with
  | error e => rw [hp] at hk; cases hk
  | ok p =>
    cases hq : preimage stored with
    | error e => rw [hq] at hs; cases hs
    | ok q =>
      rw [hp] at hk; rw [hq] at hs
      simp only [Except.map] at hk hs
      have hk1 : cfg.H p = k := by injection hk
      have hs1 : cfg.H q = k := by injection hs
      have hpq : p = q := hH.eq cfg mn ms hp hq (hk1.trans hs1.symm)
      subst hpq
      subst hk1
      rw [preimage_normalizeName hp, map_toLower_of_noUpper (preimage_noUpper hlow hq)]
      rfl

end PvModel.Name
