/-
Helper lemmas for C13: the store as a LIST (what the driver's checkers iterate over when they judge
the implementation's dump): membership vs lookup under `KeysNodup`, the order / payment records of
a store, strictly sorted lists with the same members are equal.
-/
import PvProofs.Lemmas.ExrecAux

namespace PvProofs.Exrec
open PvModel.Exrec

/-! ### membership vs lookup -/

theorem mem_of_get : ∀ {s : Store} {k : Bytes} {v : Val}, s.get k = some v → (k, v) ∈ s
  | [], _, _, h => by simp at h
  | (k0, v0) :: r, k, v, h => by
    rw [get_cons] at h
    by_cases hk : k0 = k
    · rw [if_pos hk] at h; cases h; subst hk; exact List.mem_cons_self ..
    · rw [if_neg hk] at h; exact List.mem_cons_of_mem _ (mem_of_get h)

theorem get_of_mem : ∀ {s : Store}, KeysNodup s → ∀ {k : Bytes} {v : Val}, (k, v) ∈ s → s.get k = some v
  | [], _, _, _, h => by cases h
  | (k0, v0) :: r, hnd, k, v, h => by
    unfold KeysNodup at hnd
    rw [List.map_cons, List.nodup_cons] at hnd
    rw [get_cons]
    rcases List.mem_cons.mp h with h | h
    · cases h; rw [if_pos rfl]
    · have hk : k0 ≠ k := fun e => hnd.1 (e ▸ List.mem_map.mpr ⟨(k, v), h, rfl⟩)
      rw [if_neg hk]
      exact get_of_mem hnd.2 h

theorem mem_iff_get {s : Store} (hnd : KeysNodup s) {k : Bytes} {v : Val} : (k, v) ∈ s ↔ s.get k = some v :=
  ⟨get_of_mem hnd, mem_of_get⟩

theorem keys_pairwise {s : Store} (hnd : KeysNodup s) :
    s.Pairwise (fun a b => a ∈ s ∧ b ∈ s ∧ a.1 ≠ b.1) := by
  have : s.Pairwise (fun a b => a.1 ≠ b.1) := by
    unfold KeysNodup List.Nodup at hnd
    rwa [List.pairwise_map] at hnd
  exact (List.Pairwise.and_mem.mp this).imp (fun h => h)

/-! ### `KeysNodup` under the store primitives -/

theorem KeysNodup.del {s : Store} (h : KeysNodup s) (k : Bytes) : KeysNodup (s.del k) := by
  unfold KeysNodup Store.del at *
  exact h.sublist (List.Sublist.map _ List.filter_sublist)

theorem KeysNodup.set {s : Store} (h : KeysNodup s) (k : Bytes) (v : Val) : KeysNodup (s.set k v) := by
  have hd := KeysNodup.del h k
  unfold KeysNodup Store.set at *
  rw [List.map_cons, List.nodup_cons]
  refine ⟨fun hm => ?_, hd⟩
  obtain ⟨e, he, hk⟩ := List.mem_map.mp hm
  have := (List.mem_filter.mp he).2
  simp only [ne_eq, decide_eq_true_eq] at this
  exact this hk

/-! ### the records of a store -/

/-- the raw entry behind an element of `orderRecords` -/
theorem orderRecords_entry {s : Store} (hinv : IndexInv s) (hnd : KeysNodup s) {e : Entry} (he : e ∈ s) {o : Order}
    (hf : (match e.1, e.2 with
      | 2 :: r, .order o => (u64FromBz r).map fun id => { o with id := id }
      | _, _ => none) = some o) : e = (keyOrder o.id, .order o) := by
  obtain ⟨k, v⟩ := e
  simp only at hf
  split at hf
  · next _ _ r o' =>
    obtain ⟨id, o2, hr, hv2, hid⟩ := hinv.order_key r _ (get_of_mem hnd he)
    cases hv2
    subst hr
    have := u64FromBz_u64Bz id []
    simp only [List.append_nil] at this
    rw [this] at hf
    simp only [Option.map_some, Option.some.injEq] at hf
    subst hf
    subst hid
    rfl
  · cases hf

/-- **the order records of a store are its live order entries** -/
theorem mem_orderRecords_iff {s : Store} (hinv : IndexInv s) (hnd : KeysNodup s) (o : Order) :
    o ∈ orderRecords s ↔ s.get (keyOrder o.id) = some (.order o) := by
  unfold orderRecords
  rw [List.mem_filterMap]
  constructor
  · rintro ⟨e, he, hf⟩
    have := orderRecords_entry hinv hnd he hf
    subst this
    exact get_of_mem hnd he
  · intro h
    refine ⟨(keyOrder o.id, .order o), mem_of_get h, ?_⟩
    have := u64FromBz_u64Bz o.id []
    simp only [List.append_nil] at this
    simp [keyOrder, this]

theorem orderRecords_ids_pairwise {s : Store} (hinv : IndexInv s) (hnd : KeysNodup s) :
    (orderRecords s).Pairwise (fun a b => a.id ≠ b.id) := by
  unfold orderRecords
  refine List.Pairwise.filterMap _ ?_ (keys_pairwise hnd)
  intro a a' ⟨ha, ha', hne⟩ o ho o' ho' hid
  have h1 := orderRecords_entry hinv hnd ha ho
  have h2 := orderRecords_entry hinv hnd ha' ho'
  apply hne
  rw [h1, h2, hid]

/-- the raw entry behind an element of `paymentRecords` -/
theorem paymentRecords_entry {s : Store} (hinv : IndexInv s) (hnd : KeysNodup s) {e : Entry} (he : e ∈ s) {p : Payment}
    (hf : (match e.1, e.2 with | 112 :: _, .payment p => some p | _, _ => none) = some p) :
    e = (keyPayment p.source p.ext, .payment p) := by
  obtain ⟨k, v⟩ := e
  simp only at hf
  split at hf
  · next _ _ r p' =>
    cases hf
    obtain ⟨p2, hv2, hk2⟩ := hinv.pay_key r _ (get_of_mem hnd he)
    cases hv2
    rw [hk2]
  · cases hf

/-- **the payment records of a store are its live payment entries** -/
theorem mem_paymentRecords_iff {s : Store} (hinv : IndexInv s) (hnd : KeysNodup s) (p : Payment) :
    p ∈ paymentRecords s ↔ s.get (keyPayment p.source p.ext) = some (.payment p) := by
  unfold paymentRecords
  rw [List.mem_filterMap]
  constructor
  · rintro ⟨e, he, hf⟩
    have := paymentRecords_entry hinv hnd he hf
    subst this
    exact get_of_mem hnd he
  · intro h
    exact ⟨(keyPayment p.source p.ext, .payment p), mem_of_get h, by simp [keyPayment]⟩

theorem paymentRecords_keys_pairwise {s : Store} (hinv : IndexInv s) (hnd : KeysNodup s) :
    (paymentRecords s).Pairwise (fun a b => paymentSortKey a ≠ paymentSortKey b) := by
  unfold paymentRecords
  refine List.Pairwise.filterMap _ ?_ (keys_pairwise hnd)
  intro a a' ⟨ha, ha', hne⟩ p hp p' hp' hk
  have h1 := paymentRecords_entry hinv hnd ha hp
  have h2 := paymentRecords_entry hinv hnd ha' hp'
  apply hne
  rw [h1, h2]
  show keyPayment p.source p.ext = keyPayment p'.source p'.ext
  unfold paymentSortKey at hk
  simp only [keyPayment, hk]

/-! ### strictly sorted lists with the same members are equal -/

theorem eq_of_pairwise_of_mem_iff {α : Type} (lt : α → α → Prop) (hasym : ∀ a b, lt a b → lt b a → False)
    (hirr : ∀ a, ¬ lt a a) :
    ∀ (l1 l2 : List α), l1.Pairwise lt → l2.Pairwise lt → (∀ a, a ∈ l1 ↔ a ∈ l2) → l1 = l2
  | [], [], _, _, _ => rfl
  | [], b :: _, _, _, h => absurd ((h b).mpr (List.mem_cons_self ..)) (by simp)
  | a :: _, [], _, _, h => absurd ((h a).mp (List.mem_cons_self ..)) (by simp)
  | a :: r1, b :: r2, h1, h2, h => by
    obtain ⟨ha, hr1⟩ := List.pairwise_cons.mp h1
    obtain ⟨hb, hr2⟩ := List.pairwise_cons.mp h2
    have hab : a = b := by
      rcases List.mem_cons.mp ((h a).mp (List.mem_cons_self ..)) with e | hm
      · exact e
      · rcases List.mem_cons.mp ((h b).mpr (List.mem_cons_self ..)) with e | hm2
        · exact e.symm
        · exact absurd (ha b hm2) (fun x => hasym a b x (hb a hm))
    subst hab
    congr 1
    refine eq_of_pairwise_of_mem_iff lt hasym hirr r1 r2 hr1 hr2 (fun x => ?_)
    constructor
    · intro hx
      rcases List.mem_cons.mp ((h x).mp (List.mem_cons_of_mem _ hx)) with e | hm
      · subst e; exact absurd (ha x hx) (hirr x)
      · exact hm
    · intro hx
      rcases List.mem_cons.mp ((h x).mpr (List.mem_cons_of_mem _ hx)) with e | hm
      · subst e; exact absurd (hb x hx) (hirr x)
      · exact hm

end PvProofs.Exrec
