/-
C08 helper lemmas: a transaction body as a tree of (nested) messages vs. the router's flattened order.
-/
import PvProofs.Lemmas.TxfeeMeter

namespace PvProofs.TxfeeL
open PvModel PvModel.Txfee

theorem stepsIncurred_append (cfg : Cfg) (xs ys : List Step) :
    stepsIncurred cfg (xs ++ ys) = stepsIncurred cfg xs ++ stepsIncurred cfg ys := by
  induction xs with
  | nil => rfl
  | cons x t ih => simp only [List.cons_append, stepsIncurred, ih, List.append_assoc]

theorem topIncurred_cons (cfg : Cfg) (m : RMsg) (ms : List RMsg) :
    topIncurred cfg (m :: ms) = incurredOf cfg m ++ topIncurred cfg ms := by
  simp [topIncurred]

theorem topIncurred_append (cfg : Cfg) (xs ys : List RMsg) :
    topIncurred cfg (xs ++ ys) = topIncurred cfg xs ++ topIncurred cfg ys := by
  simp [topIncurred]

/-- Any additive measure of incurred fees (total per denom, what a recipient is owed, what all
recipients are owed) sees the same thing in the router's flattened order and in the tree. -/
theorem forest_sum (F : List Incurred → Int) (happ : ∀ xs ys, F (xs ++ ys) = F xs + F ys)
    (cfg : Cfg) (f : Forest) :
    F (stepsIncurred cfg f.flatten) = F (forestIncurred cfg f) := by
  unfold forestIncurred
  induction f with
  | nil =>
    simp only [Forest.flatten, Forest.allMsgs, Forest.handlerSteps, stepsIncurred, topIncurred,
      List.flatMap_nil, List.append_nil]
  | node pre m h ch sib ih1 ih2 =>
    simp only [Forest.flatten, Forest.allMsgs, Forest.handlerSteps, stepsIncurred_append, stepsIncurred,
      stepIncurred, topIncurred_cons, topIncurred_append, happ] at ih1 ih2 ⊢
    omega

theorem routed_append (xs ys : List Step) : routed (xs ++ ys) = routed xs ++ routed ys := by
  induction xs with
  | nil => rfl
  | cons x t ih => cases x <;> simp [routed, ih]

theorem routed_noRoute {xs : List Step} (h : noRoute xs = true) : routed xs = [] := by
  induction xs with
  | nil => rfl
  | cons x t ih => cases x <;> simp_all [routed, noRoute]

theorem sum_roots_nested (F : List Incurred → Int) (hnil : F [] = 0) (happ : ∀ xs ys, F (xs ++ ys) = F xs + F ys)
    (cfg : Cfg) (f : Forest) :
    F (topIncurred cfg f.allMsgs) = F (topIncurred cfg f.roots) + F (topIncurred cfg f.nested) := by
  induction f with
  | nil => simp [Forest.allMsgs, Forest.roots, Forest.nested, topIncurred, hnil]
  | node pre m h ch sib ih1 ih2 =>
    simp only [Forest.allMsgs, Forest.roots, Forest.nested, topIncurred_cons, topIncurred_append, happ] at ih1 ih2 ⊢
    omega

theorem totalIncurred_nonneg_of_pos {is : List Incurred} (h : ∀ i ∈ is, 0 < i.amt) (d : Denom) :
    0 ≤ totalIncurred d is := by
  induction is with
  | nil => simp [totalIncurred]
  | cons x t ih =>
    have := h x (by simp)
    have := ih (fun i hi => h i (by simp [hi]))
    simp only [totalIncurred]; split_ifs <;> omega

theorem stepIncurred_total_nonneg (cfg : Cfg) (st : Step) (hwf : StepsWf [st]) (d : Denom) :
    0 ≤ totalIncurred d (stepIncurred cfg st) := by
  cases st with
  | route m => exact totalIncurred_nonneg_of_pos (incurredOf_pos cfg m) d
  | effect f => simp [stepIncurred, totalIncurred]
  | consume typ fee =>
    simp only [StepsWf] at hwf
    simp only [stepIncurred]
    split_ifs
    · simp [totalIncurred]
    · rw [coinsIncurred_total]; exact hwf.1 d

theorem stepsIncurred_total_nonneg (cfg : Cfg) (steps : List Step) (hwf : StepsWf steps) (d : Denom) :
    0 ≤ totalIncurred d (stepsIncurred cfg steps) := by
  induction steps with
  | nil => simp [stepsIncurred, totalIncurred]
  | cons x t ih =>
    simp only [stepsIncurred, totalIncurred_append]
    have h1 : StepsWf [x] ∧ StepsWf t := by cases x <;> simp_all [StepsWf]
    have := stepIncurred_total_nonneg cfg x h1.1 d
    have := ih h1.2
    omega

/-- The fees of any one routed message are part of (at most) the total incurred. -/
theorem routed_message_fee_le_total (cfg : Cfg) (steps : List Step) (hwf : StepsWf steps) (m : RMsg)
    (hm : m ∈ routed steps) (d : Denom) :
    totalIncurred d (incurredOf cfg m) ≤ totalIncurred d (stepsIncurred cfg steps) := by
  induction steps with
  | nil => simp [routed] at hm
  | cons x t ih =>
    have h1 : StepsWf [x] ∧ StepsWf t := by cases x <;> simp_all [StepsWf]
    have hx := stepIncurred_total_nonneg cfg x h1.1 d
    have ht := stepsIncurred_total_nonneg cfg t h1.2 d
    simp only [stepsIncurred, totalIncurred_append]
    cases x with
    | route m' =>
      simp only [routed, List.mem_cons] at hm
      rcases hm with rfl | hm
      · simp only [stepIncurred]; omega
      · have := ih h1.2 hm; omega
    | effect f => simp only [routed] at hm; have := ih h1.2 hm; omega
    | consume typ fee => simp only [routed] at hm; have := ih h1.2 hm; omega

theorem flatten_routed (f : Forest) (hwf : f.wf = true) : routed f.flatten = f.allMsgs := by
  induction f with
  | nil => rfl
  | node pre m h ch sib ih1 ih2 =>
    simp only [Forest.wf, Bool.and_eq_true] at hwf
    obtain ⟨⟨⟨h1, h2⟩, h3⟩, h4⟩ := hwf
    simp only [Forest.flatten, Forest.allMsgs, routed_append, routed, routed_noRoute h1, routed_noRoute h2,
      ih1 h3, ih2 h4, List.nil_append]

end PvProofs.TxfeeL
