/-
Helper lemmas for C13: what each store-level function of the model does to the lookup
function, and that it preserves the invariant.
-/
import PvProofs.Lemmas.ExrecInv
import Mathlib.Tactic.SplitIfs

namespace PvProofs.Exrec
open PvModel.Exrec

theorem get_deleteAndDeIndexOrder (s : Store) (o : Order) (k : Bytes) :
    (deleteAndDeIndexOrder s o).get k =
      if k = keyOrder o.id ∨ k ∈ (orderIndexEntries o).map (·.1) then none else s.get k := by
  unfold deleteAndDeIndexOrder createConstantIndexEntries createMarketExternalIDToOrderEntry orderIndexEntries
  by_cases h : o.ext = []
  · simp only [h, List.foldl_cons, List.foldl_nil, ↓reduceIte, get_del, List.append_nil, List.map_cons, List.map_nil,
      List.mem_cons, List.not_mem_nil, or_false]
    split_ifs <;> simp_all
  · simp only [h, List.foldl_cons, List.foldl_nil, ↓reduceIte, get_del, List.map_cons, List.map_nil, List.cons_append,
      List.nil_append, List.mem_cons, List.not_mem_nil, or_false]
    split_ifs <;> simp_all


theorem entryVal_eq (o : Order) (k : Bytes) : entryVal o k =
    if k = idxMarketToOrder o.market o.id then some (.tbyte o.tb)
    else if k = idxAddressToOrder o.owner o.id then some (.tbyte o.tb)
    else if k = idxAssetToOrder o.assetDenom o.id then some (.tbyte o.tb)
    else if o.ext ≠ [] ∧ k = idxMarketExternalIDToOrder o.market o.ext then some (.u64 o.id) else none := by
  unfold entryVal orderIndexEntries
  by_cases h : o.ext = []
  · simp only [h, ↓reduceIte, List.append_nil, List.find?_cons, List.find?_nil]
    split_ifs <;> simp_all [eq_comm]
  · simp only [h, ↓reduceIte, List.cons_append, List.nil_append, List.find?_cons, List.find?_nil]
    split_ifs <;> simp_all [eq_comm]

/-- `setOrderInStore` for an id that has no record yet -/
theorem setOrderInStore_new {s s' : Store} {o : Order} (hnew : s.get (keyOrder o.id) = none)
    (h : setOrderInStore s o = some s') :
    (o.ext ≠ [] → ∀ other, s.get (idxMarketExternalIDToOrder o.market o.ext) = some (.u64 other) → other = o.id) ∧
    ∀ k, s'.get k = if k = keyOrder o.id then some (.order o) else
      match entryVal o k with | some v => some v | none => s.get k := by
  unfold setOrderInStore createMarketExternalIDToOrderEntry createConstantIndexEntries at h
  have hhas : s.has (keyOrder o.id) = false := (has_false_iff _ _).mpr hnew
  by_cases hx : o.ext = []
  · simp only [hx, ↓reduceIte, Bool.false_eq_true, hhas, List.foldl_cons, List.foldl_nil, Option.some.injEq] at h
    subst h
    refine ⟨fun hh => absurd hx hh, fun k => ?_⟩
    simp only [get_set, entryVal_eq, hx, ne_eq, not_true_eq_false, false_and, ↓reduceIte]
    split_ifs <;> simp_all [keyOrder, idxMarketToOrder, idxAddressToOrder, idxAssetToOrder]
  · simp only [hx, ↓reduceIte, hhas, Bool.false_eq_true, List.foldl_cons, List.foldl_nil] at h
    split_ifs at h with hc
    · simp only [Option.some.injEq] at h
      subst h
      refine ⟨fun _ other ho => ?_, fun k => ?_⟩
      · rw [ho] at hc; simpa using hc
      · simp only [get_set, entryVal_eq, hx, ne_eq, not_false_eq_true, true_and]
        split_ifs <;> simp_all [keyOrder, idxMarketToOrder, idxAddressToOrder, idxAssetToOrder, idxMarketExternalIDToOrder]

/-- `setOrderInStore` for an id that already has a record: only the record and the external-id
entry are written -/
theorem setOrderInStore_update {s s' : Store} {o : Order} {v : Val} (hold : s.get (keyOrder o.id) = some v)
    (h : setOrderInStore s o = some s') :
    (o.ext ≠ [] → ∀ other, s.get (idxMarketExternalIDToOrder o.market o.ext) = some (.u64 other) → other = o.id) ∧
    ∀ k, s'.get k = if o.ext ≠ [] ∧ k = idxMarketExternalIDToOrder o.market o.ext then some (.u64 o.id)
      else if k = keyOrder o.id then some (.order o) else s.get k := by
  unfold setOrderInStore createMarketExternalIDToOrderEntry at h
  have hhas : s.has (keyOrder o.id) = true := (has_iff _ _).mpr ⟨v, hold⟩
  by_cases hx : o.ext = []
  · simp only [hx, ↓reduceIte, Bool.false_eq_true, hhas, Option.some.injEq] at h
    subst h
    refine ⟨fun hh => absurd hx hh, fun k => ?_⟩
    simp [get_set, hx]
  · simp only [hx, ↓reduceIte, hhas] at h
    split_ifs at h with hc
    · simp only [Option.some.injEq] at h
      subst h
      refine ⟨fun _ other ho => ?_, fun k => ?_⟩
      · rw [ho] at hc; simpa using hc
      · simp only [get_set, hx, ne_eq, not_false_eq_true, true_and]


/-! ### which key families a change touches -/

/-- every key whose lookup differs between `s` and `s'` starts with one of the bytes `hs` -/
def Touches (s s' : Store) (hs : List Nat) : Prop :=
  ∀ k, s'.get k ≠ s.get k → ∃ b ∈ hs, k.head? = some b

theorem Touches.refl (s : Store) (hs : List Nat) : Touches s s hs := fun _ h => absurd rfl h

theorem Touches.trans {s s' s'' : Store} {hs : List Nat} (h1 : Touches s s' hs) (h2 : Touches s' s'' hs) :
    Touches s s'' hs := by
  intro k hk
  by_cases h : s'.get k = s.get k
  · exact h2 k (by rw [h]; exact hk)
  · exact h1 k h

theorem Touches.mono {s s' : Store} {hs hs' : List Nat} (h : Touches s s' hs) (hsub : ∀ b ∈ hs, b ∈ hs') :
    Touches s s' hs' := fun k hk => let ⟨b, hb, e⟩ := h k hk; ⟨b, hsub b hb, e⟩

theorem Touches.set (s : Store) (k : Bytes) (v : Val) {b : Nat} (hb : k.head? = some b) : Touches s (s.set k v) [b] := by
  intro k' hk'
  rw [get_set] at hk'
  by_cases h : k' = k
  · subst h; exact ⟨b, by simp, hb⟩
  · simp [h] at hk'

theorem Touches.del (s : Store) (k : Bytes) {b : Nat} (hb : k.head? = some b) : Touches s (s.del k) [b] := by
  intro k' hk'
  rw [get_del] at hk'
  by_cases h : k' = k
  · subst h; exact ⟨b, by simp, hb⟩
  · simp [h] at hk'

theorem Touches.eq_of_head {s s' : Store} {hs : List Nat} (h : Touches s s' hs) {k : Bytes} {b : Nat}
    (hk : k.head? = some b) (hb : b ∉ hs) : s'.get k = s.get k := by
  by_cases he : s'.get k = s.get k
  · exact he
  · obtain ⟨b', hb', e⟩ := h k he
    rw [hk] at e; cases e; exact absurd hb' hb

theorem orderHead_iff {k : Bytes} : orderHead k = true ↔ ∃ b ∈ [2, 3, 4, 5, 9], k.head? = some b := by
  cases k with
  | nil => simp [orderHead]
  | cons b r => simp [orderHead]; omega

theorem payHead_iff {k : Bytes} : payHead k = true ↔ ∃ b ∈ [16, 112], k.head? = some b := by
  cases k with
  | nil => simp [payHead]
  | cons b r => simp [payHead]

theorem OrderInvF.of_touches {s s' : Store} {hs : List Nat} (h : OrderInvF s.get) (ht : Touches s s' hs)
    (hd : ∀ b ∈ hs, b ∉ [2, 3, 4, 5, 9]) : OrderInvF s'.get := by
  refine h.frame fun k hk => ?_
  obtain ⟨b, hb, e⟩ := orderHead_iff.mp hk
  exact ht.eq_of_head e (fun hm => hd b hm hb)

theorem PayInvF.of_touches {s s' : Store} {hs : List Nat} (h : PayInvF s.get) (ht : Touches s s' hs)
    (hd : ∀ b ∈ hs, b ∉ [16, 112]) : PayInvF s'.get := by
  refine h.frame fun k hk => ?_
  obtain ⟨b, hb, e⟩ := payHead_iff.mp hk
  exact ht.eq_of_head e (fun hm => hd b hm hb)

theorem IndexInv.of_touches {s s' : Store} {hs : List Nat} (h : IndexInv s) (ht : Touches s s' hs)
    (hd : ∀ b ∈ hs, b ∉ [2, 3, 4, 5, 9, 16, 112]) : IndexInv s' := by
  have := indexInvF_iff.mp h
  exact indexInvF_iff.mpr ⟨this.1.of_touches ht (fun b hb hm => hd b hb (by simp at hm ⊢; omega)),
    this.2.of_touches ht (fun b hb hm => hd b hb (by simp at hm ⊢; omega))⟩

def orderHeads : List Nat := [2, 3, 4, 5, 9]
def payHeads : List Nat := [16, 112]

theorem head_of_entry_mem {o : Order} {k : Bytes} (h : k ∈ (orderIndexEntries o).map (·.1)) :
    ∃ b ∈ orderHeads, k.head? = some b := by
  obtain ⟨e, he, rfl⟩ := List.mem_map.mp h
  rcases mem_orderIndexEntries.mp he with rfl | rfl | rfl | ⟨_, rfl⟩ <;> simp [orderHeads]

theorem touches_deleteAndDeIndexOrder (s : Store) (o : Order) : Touches s (deleteAndDeIndexOrder s o) orderHeads := by
  intro k hk
  rw [get_deleteAndDeIndexOrder] at hk
  split_ifs at hk with h
  · rcases h with rfl | h
    · exact ⟨2, by simp [orderHeads], rfl⟩
    · exact head_of_entry_mem h
  · exact absurd rfl hk

/-! ### reading an order -/

theorem getOrderFromStore_eq {s : Store} (h : OrderInvF s.get) {id : UInt64} {o : Order}
    (ho : getOrderFromStore s id = some o) : s.get (keyOrder id) = some (.order o) ∧ o.id = id := by
  unfold getOrderFromStore at ho
  split at ho
  · next o' hv =>
    have := h.record_id hv
    cases ho
    subst this
    exact ⟨hv, rfl⟩
  · cases ho

theorem getOrderFromStore_of_get {s : Store} {id : UInt64} {o : Order} (hv : s.get (keyOrder id) = some (.order o))
    (hid : o.id = id) : getOrderFromStore s id = some o := by
  unfold getOrderFromStore; rw [hv]; subst hid; rfl

/-- what a change leaves alone outside the families it touches -/
structure Step (s s' : Store) (hs : List Nat) : Prop where
  inv : IndexInv s → IndexInv s'
  touches : Touches s s' hs
  /-- no order record appears (records are only rewritten or removed) -/
  no_new_order : ∀ id v, s'.get (keyOrder id) = some v → ∃ v', s.get (keyOrder id) = some v'

theorem Step.refl (s : Store) (hs : List Nat) : Step s s hs := ⟨id, Touches.refl s hs, fun _ v h => ⟨v, h⟩⟩

theorem Step.trans {s s' s'' : Store} {hs : List Nat} (h1 : Step s s' hs) (h2 : Step s' s'' hs) : Step s s'' hs :=
  ⟨fun h => h2.inv (h1.inv h), h1.touches.trans h2.touches, fun id v h =>
    let ⟨v', h'⟩ := h2.no_new_order id v h; h1.no_new_order id v' h'⟩

theorem Step.mono {s s' : Store} {hs hs' : List Nat} (h : Step s s' hs) (hsub : ∀ b ∈ hs, b ∈ hs') : Step s s' hs' :=
  ⟨h.inv, h.touches.mono hsub, h.no_new_order⟩

/-- a change that touches none of the order / payment families -/
theorem Step.of_touches {s s' : Store} {hs : List Nat} (ht : Touches s s' hs)
    (hd : ∀ b ∈ hs, b ∉ [2, 3, 4, 5, 9, 16, 112]) : Step s s' hs :=
  ⟨fun h => IndexInv.of_touches h ht hd, ht, fun id v h => ⟨v, by
    rw [← ht.eq_of_head (head_keyOrder id) (fun hm => hd 2 hm (by simp))]; exact h⟩⟩

theorem step_delete {s : Store} {o : Order} (ho : IndexInv s → s.get (keyOrder o.id) = some (.order o)) :
    Step s (deleteAndDeIndexOrder s o) (orderHeads ++ payHeads) := by
  refine ⟨fun h => ?_, (touches_deleteAndDeIndexOrder s o).mono (fun b hb => List.mem_append_left _ hb), fun id v hv => ?_⟩
  · have hh := indexInvF_iff.mp h
    exact indexInvF_iff.mpr ⟨hh.1.delete (ho h) (get_deleteAndDeIndexOrder s o),
      hh.2.of_touches (touches_deleteAndDeIndexOrder s o) (by simp [orderHeads])⟩
  · rw [get_deleteAndDeIndexOrder] at hv
    split_ifs at hv
    exact ⟨v, hv⟩

end PvProofs.Exrec
