/-
C16 — exactness of the lookup counters (counter = number of records) on histories that never
store over an existing record.
-/
import PvProofs.Lemmas.AttrStep

set_option linter.unusedSimpArgs false
set_option linter.unusedVariables false

namespace PvProofs.Lemmas.AttrExact
open PvModel.Attr PvProofs.Lemmas.AttrStore PvProofs.Lemmas.AttrInv PvProofs.Lemmas.AttrSweep
  PvProofs.Lemmas.AttrStep

def CntEq (s : State) : Prop := ∀ n a, count s n a = getCnt s n a

def ind (b : Prop) [Decidable b] : Nat := if b then 1 else 0

theorem filter_key_ne_self {l : List Attribute} {k : Key} (h : ∀ r ∈ l, r.key ≠ k) :
    l.filter (fun r => decide (r.key ≠ k)) = l := by
  apply List.filter_eq_self.mpr
  intro r hr
  simpa using h r hr

/-- With distinct keys, deleting the key of a stored record removes exactly that record. -/
theorem length_filter_erase_key {l : List Attribute} (hk : KeysUnique l) {r : Attribute} (hr : r ∈ l)
    (p : Attribute → Bool) :
    ((l.filter (fun x => decide (x.key ≠ r.key))).filter p).length + (if p r then 1 else 0) = (l.filter p).length := by
  induction l with
  | nil => cases hr
  | cons x t ih =>
    unfold KeysUnique at hk
    rw [List.pairwise_cons] at hk
    by_cases hx : x = r
    · subst hx
      have hne : ∀ b ∈ t, b.key ≠ x.key := fun b hb e => hk.1 b hb e.symm
      have : (x :: t).filter (fun y => decide (y.key ≠ x.key)) = t := by
        rw [List.filter_cons]
        simp only [ne_eq, not_true_eq_false, decide_false, Bool.false_eq_true, if_false]
        exact filter_key_ne_self hne
      rw [this]
      by_cases hp : p x <;> simp [List.filter_cons, hp]
    · have hrt : r ∈ t := by
        rcases List.mem_cons.mp hr with h | h
        · exact absurd h.symm hx
        · exact h
      have hkx : x.key ≠ r.key := hk.1 r hrt
      have := ih hk.2 hrt
      by_cases hp : p x <;> simp [List.filter_cons, hkx, hp] at this ⊢ <;> omega

theorem count_delRec_exact {s : State} (hk : KeysUnique s.recs) {r : Attribute} (hr : r ∈ s.recs) (n x : String) :
    count (delRec s r.key) n x + (if (r.name, r.addr) = (n, x) then 1 else 0) = count s n x := by
  unfold count
  simp only [delRec_recs]
  have := length_filter_erase_key hk hr (fun y => decide (y.name = n) && decide (y.addr = x))
  by_cases h1 : r.name = n <;> by_cases h2 : r.addr = x <;> simp [h1, h2] at this ⊢ <;> omega

theorem count_delRec_absent {s : State} {k : Key} (h : ∀ r ∈ s.recs, r.key ≠ k) (n x : String) :
    count (delRec s k) n x = count s n x := by
  unfold count; simp only [delRec_recs]; rw [filter_key_ne_self h]

theorem put_cntEq {s : State} {a : Attribute} (hf : ∀ r ∈ s.recs, r.key ≠ a.key) (h : CntEq s) : CntEq (put s a) := by
  intro n x
  rw [getCnt_put]
  have h1 : count (put s a) n x = count (setRec s a) n x := count_congr (by simp [put]) n x
  rw [h1, count_setRec_eq, count_delRec_absent hf, h n x]

theorem deleteOne_cntEq {s : State} {a : Attribute} (hk : KeysUnique s.recs) (ha : a ∈ s.recs) (h : CntEq s) :
    CntEq (deleteOne s a) := by
  intro n x
  rw [getCnt_deleteOne]
  have h1 : count (deleteOne s a) n x = count (delRec s a.key) n x := count_congr (by simp) n x
  rw [h1]
  have h2 := count_delRec_exact hk ha n x
  by_cases hm : (a.name, a.addr) = (n, x)
  · obtain ⟨e1, e2⟩ := Prod.mk.inj hm
    subst e1; subst e2
    have := h a.name a.addr
    simp at h2 ⊢; omega
  · have := h n x
    simp [hm] at h2 ⊢; omega

theorem foldl_deleteOne_cntEq (l : List Attribute) :
    ∀ s : State, (∀ a ∈ l, a ∈ s.recs) → KeysUnique l → Inv s → CntEq s → CntEq (l.foldl deleteOne s) := by
  induction l with
  | nil => intro s _ _ _ h; exact h
  | cons a t ih =>
    intro s hm hk hi h
    simp only [List.foldl_cons]
    unfold KeysUnique at hk
    rw [List.pairwise_cons] at hk
    apply ih
    · intro b hb
      rw [deleteOne_recs]
      refine List.mem_filter.mpr ⟨hm b (List.mem_cons_of_mem _ hb), ?_⟩
      simp only [decide_eq_true_eq]
      exact fun e => hk.1 b hb e.symm
    · exact hk.2
    · exact deleteOne_inv (hm a List.mem_cons_self) hi
    · exact deleteOne_cntEq hi.keys (hm a List.mem_cons_self) h

theorem reexp_cntEq {s : State} {cur : Attribute} (e : Option Nat) (hk : KeysUnique s.recs) (hc : cur ∈ s.recs)
    (h : CntEq s) : CntEq (reexp s cur e) := by
  have hkey : ({ cur with exp := e } : Attribute).key = cur.key := rfl
  intro n x
  have h1 : count (reexp s cur e) n x = count (setRec s { cur with exp := e }) n x :=
    count_congr (by simp [reexp]) n x
  have h2 : getCnt (reexp s cur e) n x = getCnt s n x := getCnt_congr (by simp [reexp]) n x
  rw [h1, h2, count_setRec_eq, hkey]
  have h3 := count_delRec_exact hk hc n x
  have := h n x
  have e1 : ({ cur with exp := e } : Attribute).name = cur.name := rfl
  have e2 : ({ cur with exp := e } : Attribute).addr = cur.addr := rfl
  rw [e1, e2]
  omega

theorem purgeOne_cntEq {n x : String} {s : State} {k : Key} (hu : KeysUnique s.recs)
    (hk : ∃ r ∈ s.recs, r.key = k ∧ r.name = n ∧ r.addr = x) (h : CntEq s) : CntEq (purgeOne n x s k) := by
  obtain ⟨r, hr, rfl, rfl, rfl⟩ := hk
  intro n' x'
  unfold purgeOne
  rw [getCnt_dec]
  have h2 : ∀ n x, getCnt (delRec s r.key) n x = getCnt s n x := fun n x => getCnt_congr rfl n x
  have h1 : count (decAttrNameAddressLookup (delRec s r.key) r.name r.addr) n' x' = count (delRec s r.key) n' x' :=
    count_congr (by simp) n' x'
  rw [h1]
  have h3 := count_delRec_exact hu hr n' x'
  by_cases hm : (r.name, r.addr) = (n', x')
  · obtain ⟨e1, e2⟩ := Prod.mk.inj hm
    subst e1; subst e2
    have := h r.name r.addr
    simp [h2] at h3 ⊢; omega
  · have := h n' x'
    simp [hm, h2] at h3 ⊢; omega

theorem foldl_purgeOne_cntEq (n x : String) (ks : List Key) :
    ∀ s : State, (∀ k ∈ ks, ∃ r ∈ s.recs, r.key = k ∧ r.name = n ∧ r.addr = x) → ks.Nodup →
      KeysUnique s.recs → CntEq s → CntEq (ks.foldl (purgeOne n x) s) := by
  induction ks with
  | nil => intro s _ _ _ h; exact h
  | cons k t ih =>
    intro s hm hnd hu h
    simp only [List.foldl_cons]
    rw [List.nodup_cons] at hnd
    apply ih
    · intro k' hk'
      obtain ⟨r, hr, e1, e2, e3⟩ := hm k' (List.mem_cons_of_mem _ hk')
      refine ⟨r, ?_, e1, e2, e3⟩
      rw [purgeOne_recs]
      refine List.mem_filter.mpr ⟨hr, ?_⟩
      simp only [decide_eq_true_eq]
      intro e; rw [e1] at e; rw [e] at hk'; exact hnd.1 hk'
    · exact hnd.2
    · rw [purgeOne_recs]; exact hu.filter _
    · exact purgeOne_cntEq hu (hm k List.mem_cons_self) h

theorem purgeAcct_cntEq (n : String) {s : State} (x : String) (hk : KeysUnique s.recs) (h : CntEq s) :
    CntEq (purgeAcct n s x) := by
  unfold purgeAcct
  apply foldl_purgeOne_cntEq
  · intro k hk'
    unfold getAddrAttributesKeysByName at hk'
    simp only [List.mem_map, List.mem_filter, Bool.and_eq_true, decide_eq_true_eq] at hk'
    obtain ⟨r, ⟨hr, hx, hn⟩, rfl⟩ := hk'
    exact ⟨r, hr, rfl, hn, hx⟩
  · unfold getAddrAttributesKeysByName
    exact keys_nodup_of_unique (hk.filter _)
  · exact hk
  · exact h

theorem foldl_purgeAcct_cntEq (n : String) (xs : List String) :
    ∀ s : State, Inv3 s → CntEq s → CntEq (xs.foldl (purgeAcct n) s) := by
  induction xs with
  | nil => intro s _ h; exact h
  | cons x t ih =>
    intro s hi h
    simp only [List.foldl_cons]
    exact ih _ (purgeAcct_inv3 n x hi) (purgeAcct_cntEq n x hi.keys h)

theorem expireOnePreFix_cntEq {s : State} (q : Nat × Key) (hk : KeysUnique s.recs) (h : CntEq s) :
    CntEq (expireOnePreFix s q) := by
  cases hg : getAttr s q.2 with
  | none =>
    intro n x
    obtain ⟨e1, e2⟩ := expireOnePreFix_none hg
    rw [count_congr e2, getCnt_congr e1]
    exact h n x
  | some a =>
    obtain ⟨ha, hka⟩ := getAttr_some hg
    intro n x
    have hd := deleteOne_cntEq hk ha h n x
    rw [getCnt_deleteOne] at hd
    have hc : count (deleteOne s a) n x = count (delRec s a.key) n x := count_congr (by simp) n x
    rw [hc] at hd
    rw [count_congr (expireOnePreFix_some_recs hg), getCnt_congr (expireOnePreFix_some_cnt hg), ← hka, getCnt_dec]
    have h2 : ∀ n x, getCnt (delRec s a.key) n x = getCnt s n x := fun n x => getCnt_congr rfl n x
    simp only [h2]
    exact hd

theorem expireOne_cntEq {s : State} (q : Nat × Key) (hk : KeysUnique s.recs) (h : CntEq s) :
    CntEq (expireOne s q) := by
  rcases expireOne_cases s q with ⟨a, _, _, he⟩ | ⟨_, he⟩
  · rw [he]; exact expireOnePreFix_cntEq q hk h
  · rw [he]; exact h

theorem foldl_expireOne_cntEq (l : List (Nat × Key)) :
    ∀ s : State, Inv s → CntEq s → CntEq (l.foldl expireOne s) := by
  induction l with
  | nil => intro s _ h; exact h
  | cons q t ih =>
    intro s hi h
    simp only [List.foldl_cons]
    exact ih _ (expireOne_inv q hi) (expireOne_cntEq q hi.keys h)

/-- Counter exactness is kept by every message that does not store over an existing record. -/
theorem step_cntEq {s s' : State} {op : Op} (hi : Inv s) (hc : CntEq s) (hb : noOverwrite s op = true)
    (h : step s op = .ok s') : CntEq s' := by
  cases op with
  | add sg a =>
    obtain ⟨_, _, rfl⟩ := add_ok h
    apply put_cntEq _ hc
    intro r hr hk
    simp only [noOverwrite, Bool.not_eq_true'] at hb
    have : hasKey s a.key = true := (hasKey_iff s a.key).mpr ⟨r, hr, hk⟩
    rw [hb] at this; cases this
  | update sg addr name ov ot nv nt =>
    obtain ⟨_, cur, hcur, hck, _, rfl⟩ := update_ok h
    apply put_cntEq _ (deleteOne_cntEq hi.keys hcur hc)
    intro r hr hk
    rw [deleteOne_recs] at hr
    obtain ⟨hr1, hr2⟩ := List.mem_filter.mp hr
    simp only [decide_eq_true_eq] at hr2
    simp only [noOverwrite, Bool.or_eq_true, Bool.not_eq_true', decide_eq_true_eq] at hb
    rcases hb with hb | hb
    · have : hasKey s (addr, name, nv) = true := (hasKey_iff s _).mpr ⟨r, hr1, hk⟩
      rw [hb] at this; cases this
    · subst hb
      apply hr2
      rw [hk, hck]; rfl
  | updateExp sg addr name v e =>
    obtain ⟨_, cur, hcur, _, rfl⟩ := updateExp_ok h
    exact reexp_cntEq e hi.keys hcur hc
  | delete sg addr name =>
    obtain ⟨_, _, rfl⟩ := delete_ok h
    exact foldl_deleteOne_cntEq _ s (fun a ha => (toDelete_mem ha).1) (hi.keys.filter _) hi hc
  | deleteDistinct sg addr name v =>
    obtain ⟨_, _, rfl⟩ := deleteDistinct_ok h
    exact foldl_deleteOne_cntEq _ s (fun a ha => (toDelete_mem ha).1) (hi.keys.filter _) hi hc
  | bind name owner =>
    obtain ⟨_, rfl⟩ := bind_ok h
    exact hc
  | transfer au name owner =>
    obtain ⟨_, rfl⟩ := transfer_ok h
    exact hc
  | deleteName sg name =>
    obtain ⟨_, rfl⟩ := deleteName_ok h
    have h3 : Inv3 (unbind s name) := ⟨hi.keys, hi.cntGe, hi.queueComplete⟩
    exact foldl_purgeAcct_cntEq name _ _ h3 hc
  | beginBlock t =>
    obtain ⟨l, _, rfl⟩ := begin_fold h
    exact foldl_expireOne_cntEq _ _ ⟨hi.keys, hi.cntGe, hi.bound, hi.queueComplete⟩ hc

theorem run_cntEq (ops : List Op) :
    ∀ s : State, Inv s → CntEq s → noOverwriteRun s ops = true → CntEq (run s ops) := by
  induction ops with
  | nil => intro s _ h _; exact h
  | cons op t ih =>
    intro s hi hc hb
    simp only [noOverwriteRun, Bool.and_eq_true] at hb
    apply ih _ (apply_inv op hi) _ hb.2
    unfold apply
    cases h : step s op with
    | ok s' => exact step_cntEq hi hc hb.1 h
    | error e => exact hc

end PvProofs.Lemmas.AttrExact
