/-
Helper lemmas for C13: the entries of a store, prefix scans (`prefixStore`) — membership and
strict sortedness.
-/
import PvProofs.Lemmas.ExrecStore
import PvProofs.Lemmas.ExrecBytes
import Mathlib.Tactic.SplitIfs

namespace PvProofs.Exrec
open PvModel.Exrec

theorem entries_cons (k : Bytes) (v : Val) (r : Store) :
    Store.entries ((k, v) :: r) = (k, v) :: (Store.entries r).filter (fun e => decide (e.1 ≠ k)) := rfl

theorem mem_entries_iff : ∀ (s : Store) (k : Bytes) (v : Val), (k, v) ∈ s.entries ↔ s.get k = some v
  | [], k, v => by simp [Store.entries]
  | (k0, v0) :: r, k, v => by
    rw [entries_cons, get_cons, List.mem_cons, List.mem_filter, mem_entries_iff r k v]
    by_cases h : k0 = k
    · subst h; simp [eq_comm]
    · have h' : ¬ k = k0 := fun e => h e.symm
      simp [h, h']

theorem entries_keys_pairwise : ∀ (s : Store), s.entries.Pairwise (fun a b => a.1 ≠ b.1)
  | [] => by simp [Store.entries]
  | (k0, v0) :: r => by
    rw [entries_cons, List.pairwise_cons]
    refine ⟨fun b hb => ?_, (entries_keys_pairwise r).filter _⟩
    have := (List.mem_filter.mp hb).2
    simp only [ne_eq, decide_eq_true_eq] at this
    exact fun e => this e.symm

/-- restricting a store to the keys satisfying `p` restricts its lookup function -/
theorem get_filter_key (p : Bytes → Bool) : ∀ (s : Store) (k : Bytes),
    Store.get (s.filter (fun e => p e.1)) k = if p k then s.get k else none
  | [], k => by simp
  | (k0, v0) :: r, k => by
    rw [List.filter_cons]
    by_cases hp : p k0 = true
    · simp only [hp, ↓reduceIte, get_cons]
      rw [get_filter_key p r k]
      by_cases h : k0 = k
      · subst h; simp [hp]
      · simp [h]
    · simp only [hp, Bool.false_eq_true, ↓reduceIte, get_cons]
      rw [get_filter_key p r k]
      by_cases h : k0 = k
      · subst h; simp [hp]
      · simp [h]

theorem mem_entries_filter (p : Bytes → Bool) (s : Store) (k : Bytes) (v : Val) :
    (k, v) ∈ Store.entries (s.filter (fun e => p e.1)) ↔ p k = true ∧ s.get k = some v := by
  rw [mem_entries_iff, get_filter_key]
  by_cases hp : p k = true <;> simp [hp]

/-! ### insertion sort -/

theorem mem_insertEntry (e x : Entry) : ∀ (l : List Entry), x ∈ insertEntry e l ↔ x = e ∨ x ∈ l
  | [] => by simp [insertEntry]
  | y :: r => by
    unfold insertEntry
    split_ifs
    · simp
    · rw [List.mem_cons, mem_insertEntry e x r, List.mem_cons]
      constructor
      · rintro (h | h | h)
        · exact Or.inr (Or.inl h)
        · exact Or.inl h
        · exact Or.inr (Or.inr h)
      · rintro (h | h | h)
        · exact Or.inr (Or.inl h)
        · exact Or.inl h
        · exact Or.inr (Or.inr h)

theorem mem_sortEntries (x : Entry) : ∀ (l : List Entry), x ∈ sortEntries l ↔ x ∈ l
  | [] => by simp [sortEntries]
  | y :: r => by
    show x ∈ insertEntry y (sortEntries r) ↔ _
    rw [mem_insertEntry, mem_sortEntries x r, List.mem_cons]

theorem sorted_insertEntry (e : Entry) : ∀ (l : List Entry), Sorted l → (∀ x ∈ l, x.1 ≠ e.1) →
    Sorted (insertEntry e l)
  | [], _, _ => by simp [insertEntry, Sorted]
  | y :: r, hs, hne => by
    unfold insertEntry
    have hy := List.pairwise_cons.mp hs
    split_ifs with h
    · -- e ≤ y and e ≠ y: e < y < rest
      have hlt : bytesLt e.1 y.1 = true := by
        rcases bytesLe_iff.mp h with h | h
        · exact absurd h.symm (hne y (List.mem_cons_self ..))
        · exact h
      refine List.pairwise_cons.mpr ⟨fun b hb => ?_, hs⟩
      rcases List.mem_cons.mp hb with rfl | hb
      · exact hlt
      · exact bytesLt_trans hlt (hy.1 b hb)
    · have hlt : bytesLt y.1 e.1 = true := by
        rcases bytesLt_trichotomy y.1 e.1 with h' | h' | h'
        · exact h'
        · exact absurd h' (hne y (List.mem_cons_self ..))
        · exact absurd (bytesLe_of_lt h') h
      refine List.pairwise_cons.mpr ⟨fun b hb => ?_, sorted_insertEntry e r hy.2
        (fun x hx => hne x (List.mem_cons_of_mem _ hx))⟩
      rcases (mem_insertEntry e b r).mp hb with rfl | hb
      · exact hlt
      · exact hy.1 b hb

theorem sorted_sortEntries : ∀ (l : List Entry), l.Pairwise (fun a b => a.1 ≠ b.1) → Sorted (sortEntries l)
  | [], _ => by simp [sortEntries, Sorted]
  | y :: r, h => by
    have hy := List.pairwise_cons.mp h
    show Sorted (insertEntry y (sortEntries r))
    exact sorted_insertEntry y _ (sorted_sortEntries r hy.2)
      (fun x hx => fun e => hy.1 x ((mem_sortEntries x r).mp hx) e.symm)

/-! ### prefix scans -/

theorem isPrefixOf_iff {pre k : Bytes} : pre.isPrefixOf k = true ↔ ∃ t, k = pre ++ t := by
  rw [List.isPrefixOf_iff_prefix]
  constructor
  · rintro ⟨t, rfl⟩; exact ⟨t, rfl⟩
  · rintro ⟨t, rfl⟩; exact ⟨t, rfl⟩

/-- an entry is returned by the scan of prefix `pre` iff the store holds it under `pre ++ key` -/
theorem mem_prefixStore (s : Store) (pre : Bytes) (e : Entry) :
    e ∈ prefixStore s pre ↔ s.get (pre ++ e.1) = some e.2 := by
  unfold prefixStore
  rw [mem_sortEntries, List.mem_map]
  constructor
  · rintro ⟨⟨k, v⟩, hm, rfl⟩
    obtain ⟨hm2, hm1⟩ := (mem_entries_filter (fun k => pre.isPrefixOf k) s k v).mp hm
    obtain ⟨t, rfl⟩ := isPrefixOf_iff.mp hm2
    simp only [List.drop_left']
    exact hm1
  · intro h
    refine ⟨(pre ++ e.1, e.2), (mem_entries_filter (fun k => pre.isPrefixOf k) s _ _).mpr
      ⟨isPrefixOf_iff.mpr ⟨_, rfl⟩, h⟩, ?_⟩
    simp

/-- a prefix scan is strictly sorted by key: each stored entry once, in byte order -/
theorem sorted_prefixStore (s : Store) (pre : Bytes) : Sorted (prefixStore s pre) := by
  unfold prefixStore
  apply sorted_sortEntries
  rw [List.pairwise_map]
  refine (entries_keys_pairwise _).imp_of_mem ?_
  intro a b ha hb hne
  obtain ⟨ta, hta⟩ := isPrefixOf_iff.mp ((mem_entries_filter (fun k => pre.isPrefixOf k) s a.1 a.2).mp ha).1
  obtain ⟨tb, htb⟩ := isPrefixOf_iff.mp ((mem_entries_filter (fun k => pre.isPrefixOf k) s b.1 b.2).mp hb).1
  simp only [hta, htb, List.drop_left', ne_eq]
  intro e
  exact hne (by rw [hta, htb, e])

theorem parseIndexKeySuffixOrderID_u64Bz (id : UInt64) : parseIndexKeySuffixOrderID (u64Bz id) = some id := by
  unfold parseIndexKeySuffixOrderID
  have : (u64Bz id).length = 8 := rfl
  simp only [this, Nat.lt_irrefl, ↓reduceIte, Nat.sub_self, List.drop_zero]
  have := u64FromBz_u64Bz id []
  simpa using this

theorem parseIndexKeySuffixOrderID_append (d : Bytes) (id : UInt64) :
    parseIndexKeySuffixOrderID (d ++ u64Bz id) = some id := by
  unfold parseIndexKeySuffixOrderID
  have hl : (d ++ u64Bz id).length = d.length + 8 := by simp [u64Bz_length]
  have h1 : ¬ (d ++ u64Bz id).length < 8 := by omega
  rw [if_neg h1, hl, Nat.add_sub_cancel, List.drop_left' rfl]
  have := u64FromBz_u64Bz id []
  simpa using this

/-- the id is read from the LAST 8 bytes: a longer key with the same tail gives the same id -/
theorem parse_suffix_eq {pre k : Bytes} {a b : UInt64} (hk : parseIndexKeySuffixOrderID k = some a)
    (hpk : parseIndexKeySuffixOrderID (pre ++ k) = some b) : a = b := by
  unfold parseIndexKeySuffixOrderID at hk hpk
  by_cases h1 : k.length < 8
  · rw [if_pos h1] at hk; cases hk
  · rw [if_neg h1] at hk
    have h2 : ¬ (pre ++ k).length < 8 := by rw [List.length_append]; omega
    rw [if_neg h2] at hpk
    have : (pre ++ k).drop ((pre ++ k).length - 8) = k.drop (k.length - 8) := by
      rw [List.length_append, List.drop_append]
      have h3 : pre.length + k.length - 8 - pre.length = k.length - 8 := by omega
      have h4 : pre.drop (pre.length + k.length - 8) = [] := List.drop_eq_nil_iff.mpr (by omega)
      rw [h3, h4, List.nil_append]
    rw [this, hk] at hpk
    exact Option.some.inj hpk

end PvProofs.Exrec
