/-
C05 helper lemmas: `BeginBlocker`, the per-operation dispatcher and the combined invariant.
-/
import PvProofs.Lemmas.MkrSupOps

namespace PvProofs.MkrSupL
open PvModel PvModel.MkrSup PvModel.Ledger PvProofs.LedgerSum

/-! ### BeginBlocker -/

theorem bbAdjust_supply_ne {ms : List Marker} : ∀ {b b' : Bank}, beginBlockAdjust b ms = .ok b' →
    ∀ d, (∀ m ∈ ms, m.denom ≠ d) → b'.supply d = b.supply d := by
  induction ms with
  | nil => intro b b' h d _; simp [beginBlockAdjust] at h; rw [h]
  | cons m rest ih =>
    intro b b' h d hd
    have hm : m.denom ≠ d := hd m (by simp)
    have hrest : ∀ x ∈ rest, x.denom ≠ d := fun x hx => hd x (by simp [hx])
    unfold beginBlockAdjust at h
    split at h
    · split at h
      · rename_i b1 hb1
        rw [ih h d hrest]
        exact adjust_supply_ne hb1 (fun e => hm e.symm)
      · cases h
    · exact ih h d hrest

theorem bbAdjust_nonneg {ms : List Marker} : ∀ {b b' : Bank}, beginBlockAdjust b ms = .ok b' →
    NonNeg b → NonNeg b' := by
  induction ms with
  | nil => intro b b' h hn; simp [beginBlockAdjust] at h; rw [← h]; exact hn
  | cons m rest ih =>
    intro b b' h hn
    unfold beginBlockAdjust at h
    split at h
    · split at h
      · rename_i b1 hb1
        exact ih h (adjust_nonneg hb1 hn)
      · cases h
    · exact ih h hn

theorem bbAdjust_cons {ms : List Marker} : ∀ {b b' : Bank}, beginBlockAdjust b ms = .ok b' →
    Consistent b → Consistent b' := by
  induction ms with
  | nil => intro b b' h hn; simp [beginBlockAdjust] at h; rw [← h]; exact hn
  | cons m rest ih =>
    intro b b' h hn
    unfold beginBlockAdjust at h
    split at h
    · split at h
      · rename_i b1 hb1
        exact ih h (adjust_cons hb1 hn)
      · cases h
    · exact ih h hn

/-- after the correction every active fixed-supply marker of the list matches the bank -/
theorem bbAdjust_fix {ms : List Marker} : ∀ {b b' : Bank}, (ms.map (·.denom)).Nodup →
    beginBlockAdjust b ms = .ok b' →
    ∀ m ∈ ms, m.status = .active → m.fixed = true → m.supply = b'.supply m.denom := by
  induction ms with
  | nil => intro _ _ _ _ m hm; cases hm
  | cons x rest ih =>
    intro b b' hnd h m hm ha hf
    simp only [List.map_cons] at hnd
    have hnd' := List.nodup_cons.mp hnd
    have hx_rest : ∀ y ∈ rest, y.denom ≠ x.denom := by
      intro y hy e
      exact hnd'.1 (e ▸ List.mem_map.mpr ⟨y, hy, rfl⟩)
    unfold beginBlockAdjust at h
    rcases List.mem_cons.mp hm with rfl | hmr
    · split at h
      · split at h
        · rename_i b1 hb1
          rw [bbAdjust_supply_ne h m.denom hx_rest]
          exact (adjust_supply hb1).symm
        · cases h
      · rename_i hcond
        rw [bbAdjust_supply_ne h m.denom hx_rest]
        by_cases heq : m.supply = b.supply m.denom
        · exact heq
        · exact absurd ⟨ha, hf, heq⟩ hcond
    · split at h
      · split at h
        · exact ih hnd'.2 h m hmr ha hf
        · cases h
      · exact ih hnd'.2 h m hmr ha hf

/-- when every active fixed-supply marker already matches, the correction does nothing -/
theorem bbAdjust_noop {ms : List Marker} : ∀ {b : Bank},
    (∀ m ∈ ms, m.status = .active → m.fixed = true → m.supply = b.supply m.denom) →
    beginBlockAdjust b ms = .ok b := by
  induction ms with
  | nil => intro b _; rfl
  | cons x rest ih =>
    intro b hall
    unfold beginBlockAdjust
    have hx := hall x (by simp)
    have : ¬ (x.status = .active ∧ x.fixed = true ∧ x.supply ≠ b.supply x.denom) := by
      intro ⟨h1, h2, h3⟩
      exact h3 (hx h1 h2)
    rw [if_neg this]
    exact ih (fun m hm => hall m (by simp [hm]))

theorem beginBlock_ok {s s' : State} (h : beginBlock s = .ok s') :
    ∃ b, beginBlockAdjust s.bank s.markers = .ok b ∧
      s' = { s with bank := b, markers := s.markers.filter fun m => m.status ≠ .destroyed } := by
  simp only [beginBlock, bind_ok, pure_ok] at h
  obtain ⟨b, hb, rfl⟩ := h
  exact ⟨b, hb, rfl⟩

theorem wf_filter {s : State} (h : WF s) (p : Marker → Bool) (b : Bank) :
    WF { s with bank := b, markers := s.markers.filter p } := by
  unfold WF at *
  exact List.Nodup.sublist ((List.filter_sublist).map _) h

/-- lookup after the removal of destroyed markers -/
theorem find_beginBlock {s s' : State} (hwf : WF s) (h : beginBlock s = .ok s') (d : Denom) :
    s'.find d = match s.find d with
      | some m => if m.status = .destroyed then none else some m
      | none => none := by
  obtain ⟨b, _, rfl⟩ := beginBlock_ok h
  have hwf' := wf_filter hwf (fun m => m.status ≠ .destroyed) b
  cases hf : s.find d with
  | none =>
    simp only
    cases hf' : State.find { s with bank := b, markers := s.markers.filter fun m => m.status ≠ .destroyed } d with
    | none => rfl
    | some m' =>
      have hmem := find_mem hf'
      have hmem' : m' ∈ s.markers := (List.mem_filter.mp hmem).1
      have := wf_find_of_mem hwf hmem'
      rw [find_denom hf', hf] at this
      cases this
  | some m =>
    simp only
    have hd := find_denom hf
    have hmem := find_mem hf
    by_cases hdes : m.status = .destroyed
    · rw [if_pos hdes]
      cases hf' : State.find { s with bank := b, markers := s.markers.filter fun m => m.status ≠ .destroyed } d with
      | none => rfl
      | some m' =>
        have hmem' := find_mem hf'
        have hm's : m' ∈ s.markers := (List.mem_filter.mp hmem').1
        have hnd : m'.status ≠ .destroyed := by simpa using (List.mem_filter.mp hmem').2
        have := wf_find_of_mem hwf hm's
        rw [find_denom hf', hf] at this
        cases this
        exact absurd hdes hnd
    · rw [if_neg hdes]
      have hmem' : m ∈ s.markers.filter (fun m => m.status ≠ .destroyed) :=
        List.mem_filter.mpr ⟨hmem, by simpa using hdes⟩
      have := wf_find_of_mem hwf' hmem'
      rw [hd] at this
      exact this

/-- `BeginBlocker` (when it does not panic) establishes the supply equality for every marker. -/
theorem beginBlock_supplyInv {s s' : State} (hwf : WF s) (h : beginBlock s = .ok s') : SupplyInv s' := by
  intro d m hm ha hf
  have hfind := find_beginBlock hwf h d
  obtain ⟨b, hb, rfl⟩ := beginBlock_ok h
  rw [hm] at hfind
  cases hs : s.find d with
  | none => rw [hs] at hfind; cases hfind
  | some m0 =>
    rw [hs] at hfind
    simp only at hfind
    split at hfind
    · cases hfind
    · cases hfind
      have := bbAdjust_fix hwf hb m (find_mem hs) ha hf
      rw [find_denom hs] at this
      exact this

/-- With the supply equality already in place `BeginBlocker` never touches the bank. -/
theorem beginBlock_bank_unchanged {s s' : State} (hwf : WF s) (hinv : SupplyInv s)
    (h : beginBlock s = .ok s') : s'.bank = s.bank := by
  obtain ⟨b, hb, rfl⟩ := beginBlock_ok h
  have hno : beginBlockAdjust s.bank s.markers = .ok s.bank := by
    apply bbAdjust_noop
    intro m hm ha hf
    exact hinv m.denom m (wf_find_of_mem hwf hm) ha hf
  rw [hno] at hb
  cases hb
  rfl

/-! ### dispatcher -/

/-- the denom an operation works on -/
def opDenom : Op → Denom
  | .add r => r.denom
  | .addfa r => r.denom
  | .finalize _ d | .activate _ d | .cancel _ d | .delete _ d => d
  | .mint _ d _ | .burn _ d _ => d
  | .withdraw _ _ d _ => d
  | .transfer _ _ _ d _ => d
  | .addaccess _ d _ _ | .delaccess _ d _ => d
  | .govinc _ d _ _ | .govdec _ d _ => d
  | .govstatus _ d _ => d
  | .govwithdraw _ d _ _ | .govsetadmin _ d _ _ | .govrmadmin _ d _ => d
  | .send _ _ d _ | .fmint _ d _ | .govburn _ d _ => d
  | .params .. | .beginblock => ""

/-- every successful operation other than `BeginBlocker` satisfies `Post` at its denom, provided
the environment hypothesis holds for it -/
theorem exec_post {s s' : State} {op : Op} (h : exec s op = .ok s') (hbb : op ≠ .beginblock)
    (henv : EnvOK s op) : Post s s' (opDenom op) := by
  cases op with
  | add r => exact addMarker_post h
  | addfa r => exact addFinalizeActivate_post h
  | finalize c d => exact finalizeMarker_post h
  | activate c d => exact activateMarker_post h
  | mint c d n => exact mintCoin_post h
  | burn c d n => exact burnCoin_post h
  | withdraw c t d cs => exact withdrawCoins_post h
  | transfer a f t d n => exact transferCoin_post h
  | cancel c d => exact cancelMarker_post h
  | delete c d => exact deleteMarker_post h
  | addaccess c d a ps => exact addAccess_post h
  | delaccess c d a => exact removeAccess_post h
  | govinc au d n t => exact govSupplyIncrease_post h
  | govdec au d n => exact govSupplyDecrease_post h
  | govstatus au d st => exact govChangeStatus_post h
  | govwithdraw au d t cs => exact govWithdrawEscrow_post h
  | govsetadmin au d a ps => exact govSetAdministrator_post h
  | govrmadmin au d a => exact govRemoveAdministrator_post h
  | params au mx mts eg => exact updateParams_post _ h
  | send f t d n => exact bankSend_post h
  | beginblock => exact absurd rfl hbb
  | fmint t d n => exact foreignMint_post henv h
  | govburn f d n => exact govDepositBurn_post henv h

/-- environment operations keep the marker records and non-negative balances even when the
hypothesis is violated -/
theorem env_basic {s s' : State} {op : Op} (h : exec s op = .ok s')
    (hop : (∃ t d n, op = .fmint t d n) ∨ (∃ f d n, op = .govburn f d n)) :
    s'.markers = s.markers ∧ (NonNeg s.bank → NonNeg s'.bank) ∧
      (Consistent s.bank → Consistent s'.bank) := by
  rcases hop with ⟨t, d, n, rfl⟩ | ⟨f, d, n, rfl⟩
  · simp only [exec, foreignMint, bind_ok, check_ok, pure_ok] at h
    obtain ⟨_, hn, rfl⟩ := h
    have hn' : 0 ≤ n := by simpa using hn
    refine ⟨rfl, ?_, fun hc => consistent_mintTo hc _ _⟩
    intro hnn a d'
    have := hnn a d'
    simp only [Bank.bal_mintTo, Coins.amountOf_cons, Coins.amountOf_nil]
    split
    · split <;> omega
    · omega
  · simp only [exec, govDepositBurn, bind_ok, check_ok, pure_ok] at h
    obtain ⟨_, _, _, hfunds, _, _, rfl⟩ := h
    have hfunds' : n ≤ s.bank.bal f d := by simpa using hfunds
    refine ⟨rfl, ?_, fun hc => consistent_burnFrom hc _ _⟩
    intro hnn a d'
    have := hnn a d'
    simp only [Bank.bal_burnFrom, Coins.amountOf_cons, Coins.amountOf_nil]
    by_cases h1 : f = a
    · by_cases h2 : d = d'
      · subst h1; subst h2; simp; omega
      · simp [h2]; exact this
    · simp [h1]; exact this

/-! ### auth-account bookkeeping does not touch marker records or the bank -/

theorem refresh_find (op : Op) (s s' : State) (d : Denom) : (refreshPlain op s s').find d = s'.find d := rfl
theorem refresh_bank (op : Op) (s s' : State) : (refreshPlain op s s').bank = s'.bank := rfl
theorem refresh_markers (op : Op) (s s' : State) : (refreshPlain op s s').markers = s'.markers := rfl

theorem Post.refresh {s s' : State} {d : Denom} (hp : Post s s' d) (op : Op) (s0 : State) :
    Post s (refreshPlain op s0 s') d :=
  ⟨hp.find_ne, hp.supply_ne, hp.wf, hp.nonneg, hp.cons, hp.mono, hp.inv, hp.destroyed⟩

theorem supplyInv_refresh {s' : State} (h : SupplyInv s') (op : Op) (s0 : State) :
    SupplyInv (refreshPlain op s0 s') := h

/-- SupplyInv transfers along a `Post` step -/
theorem supplyInv_of_post {s s' : State} {d : Denom} (hp : Post s s' d) (hi : SupplyInv s) : SupplyInv s' := by
  intro d'
  by_cases hd : d' = d
  · subst hd; exact hp.inv (hi d')
  · intro m hm ha hf
    rw [hp.find_ne d' hd] at hm
    rw [hp.supply_ne d' hd]
    exact hi d' m hm ha hf

end PvProofs.MkrSupL
