/-
Helper lemmas for C20: the entries of the exchange store under one market id stay a map
(one flat option per denom, one ratio per denom pair) under every authority message, and what
a history leaves under the id.
-/
import PvModel.AdmitSpec

namespace PvProofs.AdmitL
open PvModel PvModel.Admit

/-! ### flat options stay keyed by denom -/

theorem delFlat_keys_nodup {opts : List Coin} (h : (opts.map (·.1)).Nodup) (d : Denom) :
    ((delFlat opts d).map (·.1)).Nodup :=
  h.sublist (List.filter_sublist.map _)

theorem delFlat_not_mem (opts : List Coin) (d : Denom) : d ∉ (delFlat opts d).map (·.1) := by
  intro hm
  obtain ⟨o, ho, hd⟩ := List.mem_map.1 hm
  unfold delFlat at ho
  have := (List.mem_filter.1 ho).2
  simp only [ne_eq, decide_not, Bool.not_eq_eq_eq_not, Bool.not_true, decide_eq_false_iff_not] at this
  exact this hd

theorem setFlat_keys_nodup {opts : List Coin} (h : (opts.map (·.1)).Nodup) (c : Coin) :
    ((setFlat opts c).map (·.1)).Nodup := by
  unfold setFlat
  rw [List.map_append, List.nodup_append]
  refine ⟨delFlat_keys_nodup h c.1, by simp, ?_⟩
  intro a ha b hb
  simp only [List.map_cons, List.map_nil, List.mem_singleton] at hb
  subst hb
  intro he
  subst he
  exact delFlat_not_mem opts c.1 ha

theorem updateFlatFees_keys_nodup {opts : List Coin} (h : (opts.map (·.1)).Nodup)
    (rem add : List Coin) : ((updateFlatFees opts rem add).map (·.1)).Nodup := by
  unfold updateFlatFees
  have h1 : ((rem.foldl (fun o c => delFlat o c.1) opts).map (·.1)).Nodup := by
    induction rem generalizing opts with
    | nil => exact h
    | cons c rest ih => exact ih (delFlat_keys_nodup h c.1)
  generalize rem.foldl (fun o c => delFlat o c.1) opts = l at h1
  induction add generalizing l with
  | nil => exact h1
  | cons c rest ih => exact ih _ (setFlat_keys_nodup h1 c)

/-! ### ratios stay keyed by (price denom, fee denom) -/

def rkey (r : Ratio) : Denom × Denom := (r.pd, r.fd)

theorem delRatio_keys_nodup {rs : List Ratio} (h : (rs.map rkey).Nodup) (pd fd : Denom) :
    ((delRatio rs pd fd).map rkey).Nodup :=
  h.sublist (List.filter_sublist.map _)

theorem delRatio_not_mem (rs : List Ratio) (pd fd : Denom) :
    (pd, fd) ∉ (delRatio rs pd fd).map rkey := by
  intro hm
  obtain ⟨r, hr, hk⟩ := List.mem_map.1 hm
  unfold delRatio at hr
  have := (List.mem_filter.1 hr).2
  simp only [decide_not, Bool.not_eq_eq_eq_not, Bool.not_true, decide_eq_false_iff_not] at this
  unfold rkey at hk
  simp only [Prod.mk.injEq] at hk
  exact this hk

theorem setRatio_keys_nodup {rs : List Ratio} (h : (rs.map rkey).Nodup) (r : Ratio) :
    ((setRatio rs r).map rkey).Nodup := by
  unfold setRatio
  rw [List.map_append, List.nodup_append]
  refine ⟨delRatio_keys_nodup h r.pd r.fd, by simp, ?_⟩
  intro a ha b hb
  simp only [List.map_cons, List.map_nil, List.mem_singleton] at hb
  subst hb
  intro he
  subst he
  exact delRatio_not_mem rs r.pd r.fd ha

theorem updateFeeRatios_keys_nodup {rs : List Ratio} (h : (rs.map rkey).Nodup)
    (rem add : List Ratio) : ((updateFeeRatios rs rem add).map rkey).Nodup := by
  unfold updateFeeRatios
  have h1 : ((rem.foldl (fun o r => delRatio o r.pd r.fd) rs).map rkey).Nodup := by
    induction rem generalizing rs with
    | nil => exact h
    | cons c rest ih => exact ih (delRatio_keys_nodup h c.pd c.fd)
  generalize rem.foldl (fun o r => delRatio o r.pd r.fd) rs = l at h1
  induction add generalizing l with
  | nil => exact h1
  | cons c rest ih => exact ih _ (setRatio_keys_nodup h1 c)

/-! ### the whole record -/

/-- The entries under a market id form a map: one flat option per denom in each of the five
kinds, one ratio per (price denom, fee denom) in each of the two kinds. -/
structure KeysNodup (m : Market) : Prop where
  flats : ∀ k, ((m.flatOf k).map (·.1)).Nodup
  seller : (m.sellerRatios.map rkey).Nodup
  buyer : (m.buyerRatios.map rkey).Nodup

theorem flatOf_setFlatOf (m : Market) (k k' : FlatKind) (l : List Coin) :
    (m.setFlatOf k l).flatOf k' = if k = k' then l else m.flatOf k' := by
  cases k <;> cases k' <;> rfl

theorem applyTo_keys_nodup {m : Market} (h : KeysNodup m) (st : Step) : KeysNodup (st.applyTo m) := by
  cases st with
  | acceptingOrders b => exact ⟨h.flats, h.seller, h.buyer⟩
  | userSettle b => exact ⟨h.flats, h.seller, h.buyer⟩
  | acceptingCommitments b => exact ⟨h.flats, h.seller, h.buyer⟩
  | close => exact ⟨h.flats, h.seller, h.buyer⟩
  | flatFees k rem add =>
    refine ⟨?_, ?_, ?_⟩
    · intro k'
      simp only [Step.applyTo, flatOf_setFlatOf]
      by_cases hk : k = k'
      · simp only [hk, if_true]
        exact updateFlatFees_keys_nodup (h.flats k') rem add
      · simp only [hk, if_false]
        exact h.flats k'
    · cases k <;> exact h.seller
    · cases k <;> exact h.buyer
  | ratios seller rem add =>
    cases seller with
    | true => exact ⟨h.flats, updateFeeRatios_keys_nodup h.seller rem add, h.buyer⟩
    | false => exact ⟨h.flats, h.seller, updateFeeRatios_keys_nodup h.buyer rem add⟩
  | reqAttrs k rem add =>
    simp only [Step.applyTo]
    split
    · cases k <;> exact ⟨h.flats, h.seller, h.buyer⟩
    · exact h

theorem foldl_applyTo_keys_nodup {m : Market} (h : KeysNodup m) (steps : List Step) :
    KeysNodup (steps.foldl Step.applyTo m) := by
  induction steps generalizing m with
  | nil => exact h
  | cons st rest ih => exact ih (applyTo_keys_nodup h st)

theorem asRequested_keys_nodup {m : Market} (h : KeysNodup m) : KeysNodup m.asRequested :=
  ⟨fun k => by
    cases k
    · exact h.flats .ask
    · exact h.flats .bid
    · exact h.flats .commit
    · exact h.flats .seller
    · exact h.flats .buyer, h.seller, h.buyer⟩

/-! ### what a history leaves under the id -/

theorem foldl_admin_known (steps : List Step) (s : MStore) :
    (steps.foldl MStore.admin s).known = s.known := by
  induction steps generalizing s with
  | nil => rfl
  | cons st rest ih => rw [List.foldl_cons, ih]; rfl

theorem foldl_admin_m (steps : List Step) (s : MStore) :
    (steps.foldl MStore.admin s).m = steps.foldl Step.applyTo s.m := by
  induction steps generalizing s with
  | nil => rfl
  | cons st rest ih => rw [List.foldl_cons, List.foldl_cons, ih]; rfl

end PvProofs.AdmitL
