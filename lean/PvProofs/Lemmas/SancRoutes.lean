/-
Helper lemmas for C06: the routes that move funds on an account's behalf (marker transfers with
an authz grant / forced / of the administrator's own coins, withdrawals from a marker's or the
market's account, exchange payments and order settlements).  Each of them leaves the sanction
store, the proposals and the configuration alone (`SameGov`) and never lowers a balance of an
account that is sanctioned when it starts (`Route`), because every debit it makes goes through
`sendCoins` or is preceded by the same test.
-/
import PvProofs.Lemmas.SancGov

namespace PvProofs.Sanc
open PvModel PvModel.Sanc PvModel.Sanc.Spec

theorem amountOf_nonneg_of_allPos {amt : Coins} (h : allPos amt = true) (d : Denom) :
    0 ≤ Coins.amountOf amt d := by
  induction amt with
  | nil => simp
  | cons x rest ih =>
    obtain ⟨d', v⟩ := x
    simp only [allPos, List.all_cons, Bool.and_eq_true, decide_eq_true_eq] at h
    have := ih (by simpa [allPos] using h.2)
    simp only [Coins.amountOf_cons]
    split_ifs <;> omega

theorem bal_move_mono {l : Ledger} {f t a : Addr} {amt : Coins} (hne : a ≠ f)
    (hnn : ∀ d, 0 ≤ Coins.amountOf amt d) (d : Denom) : l.bal a d ≤ (l.move f t amt).bal a d := by
  rw [Ledger.bal_move]
  have := hnn d
  have hf : ¬ f = a := fun h => hne h.symm
  simp only [hf, if_false]
  split_ifs <;> omega

/-- the operation touched nothing governance looks at -/
structure SameGov (s s' : State) : Prop where
  cfg : s'.cfg = s.cfg
  st : s'.st = s.st
  props : s'.props = s.props
  nextId : s'.nextId = s.nextId
  cancelled : s'.cancelled = s.cancelled

theorem SameGov.refl (s : State) : SameGov s s := ⟨rfl, rfl, rfl, rfl, rfl⟩

theorem SameGov.trans {s s1 s2 : State} (h1 : SameGov s s1) (h2 : SameGov s1 s2) : SameGov s s2 :=
  ⟨h2.cfg.trans h1.cfg, h2.st.trans h1.st, h2.props.trans h1.props, h2.nextId.trans h1.nextId,
    h2.cancelled.trans h1.cancelled⟩

theorem inv_of_sameGov {s s' : State} (h : Inv s) (g : SameGov s s') : Inv s' := by
  obtain ⟨h1, h2, h3, h4, h5, h6, h7⟩ := h
  refine ⟨?_, ?_, ?_, ?_, ?_, ?_, ?_⟩
  · rw [g.cfg, g.st]; exact h1
  · rw [g.props, g.nextId]; exact h2
  · rw [g.props]; exact h3
  · rw [g.props]; exact h4
  · rw [g.st, g.props, g.cancelled]; exact h5
  · rw [g.cancelled, g.nextId, g.props]; exact h6
  · rw [g.props]; exact h7

/-- nothing governance looks at changed, and no balance of an account sanctioned at the start
went down -/
def Route (s s' : State) : Prop :=
  SameGov s s' ∧ ∀ a d, isSanctionedAddr s.cfg s.st a = true → s.ledger.bal a d ≤ s'.ledger.bal a d

theorem Route.refl (s : State) : Route s s := ⟨SameGov.refl s, fun _ _ _ => Int.le_refl _⟩

theorem Route.trans {s s1 s2 : State} (h1 : Route s s1) (h2 : Route s1 s2) : Route s s2 := by
  refine ⟨h1.1.trans h2.1, fun a d ha => Int.le_trans (h1.2 a d ha) (h2.2 a d ?_)⟩
  rw [h1.1.cfg, h1.1.st]; exact ha

theorem route_grants (s : State) (g : List Grant) : Route s { s with grants := g } :=
  ⟨⟨rfl, rfl, rfl, rfl, rfl⟩, fun _ _ _ => Int.le_refl _⟩

theorem sendCoins_route {s s' : State} {f t : Addr} {amt : Coins} (hnn : ∀ d, 0 ≤ Coins.amountOf amt d)
    (hs : sendCoins s f t amt = .ok s') : Route s s' := by
  obtain ⟨rfl, hf⟩ := sendCoins_ok hs
  refine ⟨⟨rfl, rfl, rfl, rfl, rfl⟩, fun a d ha => ?_⟩
  have hne : a ≠ f := by rintro rfl; rw [ha] at hf; cases hf
  exact bal_move_mono hne hnn d

theorem oneCoin_nonneg {d : Denom} {x : Int} (hx : 0 ≤ x) (d' : Denom) : 0 ≤ Coins.amountOf (oneCoin d x) d' := by
  unfold oneCoin
  split_ifs
  · simp
  · simp only [Coins.amountOf_cons, Coins.amountOf_nil]
    split_ifs <;> omega

theorem validAmt_nonneg {amt : Coins} (hv : validAmt amt = true) (d : Denom) : 0 ≤ Coins.amountOf amt d := by
  apply amountOf_nonneg_of_allPos
  cases h1 : allPos amt
  · simp [validAmt, h1] at hv
  · rfl

theorem coinsValid_nonneg {amt : Coins} (hv : coinsValid amt = true) (d : Denom) : 0 ≤ Coins.amountOf amt d := by
  apply amountOf_nonneg_of_allPos
  unfold coinsValid at hv
  simp only [Bool.and_eq_true] at hv
  exact hv.1

theorem grantTransfer_route {s s' : State} {a b : Addr} {lim : Coins} (hs : grantTransfer s a b lim = .ok s') :
    Route s s' := by
  unfold grantTransfer at hs
  split_ifs at hs
  simp only [Except.ok.injEq] at hs
  subst hs
  exact route_grants s _

theorem authzHandler_route {s s' : State} {admin frm : Addr} {d : Denom} {x : Int}
    (hs : authzHandler s admin frm d x = .ok s') : Route s s' := by
  unfold authzHandler at hs
  cases hg : findGrant s.grants admin frm with
  | none => simp [hg] at hs
  | some g =>
    simp only [hg] at hs
    split_ifs at hs <;> simp only [Except.ok.injEq] at hs <;> subst hs <;> exact route_grants s _

theorem transferAuth_route {s s' : State} {m : Marker} {admin frm : Addr} {d : Denom} {x : Int}
    (hs : transferAuth s m admin frm d x = .ok s') : Route s s' := by
  unfold transferAuth at hs
  split_ifs at hs
  · simp only [Except.ok.injEq] at hs; subst hs; exact Route.refl s
  · exact authzHandler_route hs
  · simp only [Except.ok.injEq] at hs; subst hs; exact Route.refl s

/-- a marker transfer that succeeded took the coins of an account that was not sanctioned —
whoever the administrator is, whatever lets it move them (its own coins, an authz grant, a forced
transfer) and wherever they go (also to the administrator itself) -/
theorem transferCoin_ok {s s' : State} {admin frm to : Addr} {d : Denom} {x : Int} (hx : 0 ≤ x)
    (hs : transferCoin s admin frm to d x = .ok s') :
    Route s s' ∧ isSanctionedAddr s.cfg s.st frm = false := by
  unfold transferCoin at hs
  cases hm : getMarkerByDenom s.cfg d with
  | none => simp [hm] at hs
  | some m =>
    simp only [hm] at hs
    cases hmid : transferAuth s m admin frm d x with
    | error e => simp only [hmid] at hs; split_ifs at hs
    | ok s1 =>
      simp only [hmid] at hs
      have r1 := transferAuth_route hmid
      split_ifs at hs with h1 h2 h3
      have r2 := sendCoins_route (oneCoin_nonneg hx) hs
      refine ⟨r1.trans r2, ?_⟩
      have := (sendCoins_ok hs).2
      rw [r1.1.cfg, r1.1.st] at this
      exact this

theorem withdrawCoins_ok {s s' : State} {caller rcp : Addr} {d : Denom} {amt : Coins}
    (hnn : ∀ d, 0 ≤ Coins.amountOf amt d) (hs : withdrawCoins s caller rcp d amt = .ok s') :
    Route s s' ∧ ∃ m, getMarkerByDenom s.cfg d = some m ∧ isSanctionedAddr s.cfg s.st m.addr = false := by
  unfold withdrawCoins at hs
  cases hm : getMarkerByDenom s.cfg d with
  | none => simp [hm] at hs
  | some m =>
    simp only [hm] at hs
    split_ifs at hs
    exact ⟨sendCoins_route hnn hs, m, rfl, (sendCoins_ok hs).2⟩

theorem withdrawMarketFunds_ok {s s' : State} {admin to : Addr} {amt : Coins}
    (hnn : ∀ d, 0 ≤ Coins.amountOf amt d) (hs : withdrawMarketFunds s admin to amt = .ok s') :
    Route s s' ∧ isSanctionedAddr s.cfg s.st s.cfg.market = false := by
  unfold withdrawMarketFunds at hs
  split_ifs at hs
  exact ⟨sendCoins_route hnn hs, (sendCoins_ok hs).2⟩

theorem sendIfAny_ok {s s' : State} {f t : Addr} {amt : Coins} (hnn : ∀ d, 0 ≤ Coins.amountOf amt d)
    (hs : sendIfAny s f t amt = .ok s') :
    Route s s' ∧ (amt.isEmpty = false → isSanctionedAddr s.cfg s.st f = false) := by
  unfold sendIfAny at hs
  split_ifs at hs with k1
  · simp only [Except.ok.injEq] at hs; subst hs
    exact ⟨Route.refl s, fun h => by rw [k1] at h; cases h⟩
  · exact ⟨sendCoins_route hnn hs, fun _ => (sendCoins_ok hs).2⟩

theorem acceptPayment_ok {s s' : State} {src tgt : Addr} {sAmt tAmt : Coins}
    (hs1 : ∀ d, 0 ≤ Coins.amountOf sAmt d) (ht1 : ∀ d, 0 ≤ Coins.amountOf tAmt d)
    (hs : acceptPayment s src tgt sAmt tAmt = .ok s') :
    Route s s' ∧ (sAmt.isEmpty = false → isSanctionedAddr s.cfg s.st src = false) ∧
      (tAmt.isEmpty = false → isSanctionedAddr s.cfg s.st tgt = false) := by
  unfold acceptPayment at hs
  split_ifs at hs with h0
  cases hmid : sendIfAny s src tgt sAmt with
  | error e => simp [hmid] at hs
  | ok s1 =>
    simp only [hmid] at hs
    obtain ⟨r1, q1⟩ := sendIfAny_ok hs1 hmid
    obtain ⟨r2, q2⟩ := sendIfAny_ok ht1 hs
    refine ⟨r1.trans r2, q1, fun h => ?_⟩
    have := q2 h
    rw [r1.1.cfg, r1.1.st] at this
    exact this

theorem settleOrders_ok {s s' : State} {seller buyer : Addr} {assets price : Coins}
    (ha : ∀ d, 0 ≤ Coins.amountOf assets d) (hp : ∀ d, 0 ≤ Coins.amountOf price d)
    (hs : settleOrders s seller buyer assets price = .ok s') :
    Route s s' ∧ isSanctionedAddr s.cfg s.st seller = false ∧ isSanctionedAddr s.cfg s.st buyer = false := by
  unfold settleOrders at hs
  split_ifs at hs with h1 h2 h3 h4
  simp only [Except.ok.injEq] at hs
  subst hs
  have hsb : isSanctionedAddr s.cfg s.st seller = false ∧ isSanctionedAddr s.cfg s.st buyer = false := by
    cases hx : isSanctionedAddr s.cfg s.st seller <;> cases hy : isSanctionedAddr s.cfg s.st buyer <;> simp_all
  refine ⟨⟨⟨rfl, rfl, rfl, rfl, rfl⟩, fun a d hsa => ?_⟩, hsb⟩
  have n1 : a ≠ seller := by rintro rfl; rw [hsa] at hsb; cases hsb.1
  have n2 : a ≠ buyer := by rintro rfl; rw [hsa] at hsb; cases hsb.2
  exact Int.le_trans (bal_move_mono n1 ha d) (bal_move_mono n2 hp d)

/-- the operations of a history that are such routes -/
def isRoute : Op → Bool
  | .grant .. | .mxfer .. | .mwd .. | .mktwd .. | .pay .. | .settle .. => true
  | _ => false

theorem applyOp_route {s s' : State} {op : Op} (hr : isRoute op = true) (hs : applyOp s op = .ok s') :
    Route s s' := by
  cases op with
  | grant a b lim => exact grantTransfer_route hs
  | mxfer admin frm to d x =>
    simp only [applyOp] at hs
    split_ifs at hs with h
    have hx : 0 ≤ x := by
      have : ¬ x < 0 := fun hx => h (Or.inr (Or.inr (Or.inr hx)))
      omega
    exact (transferCoin_ok hx hs).1
  | mwd admin to d amt =>
    simp only [applyOp] at hs
    split_ifs at hs with h
    have hv : validAmt amt = true := by
      cases h1 : validAmt amt
      · exact absurd (Or.inr (Or.inr (by simp [h1]))) h
      · rfl
    exact (withdrawCoins_ok (validAmt_nonneg hv) hs).1
  | mktwd admin to amt =>
    simp only [applyOp] at hs
    split_ifs at hs with h
    have hv : validAmt amt = true := by
      cases h1 : validAmt amt
      · exact absurd (Or.inr (Or.inr (by simp [h1]))) h
      · rfl
    exact (withdrawMarketFunds_ok (validAmt_nonneg hv) hs).1
  | pay src tgt sAmt tAmt =>
    simp only [applyOp] at hs
    split_ifs at hs with h
    have hv : coinsValid sAmt = true ∧ coinsValid tAmt = true := by
      cases h1 : coinsValid sAmt <;> cases h2 : coinsValid tAmt <;>
        first | exact ⟨rfl, rfl⟩ | exact absurd (Or.inr (Or.inr (Or.inl (by simp [h1, h2])))) h
    exact (acceptPayment_ok (coinsValid_nonneg hv.1) (coinsValid_nonneg hv.2) hs).1
  | settle seller buyer assets price =>
    simp only [applyOp] at hs
    split_ifs at hs with h
    have hv : validAmt assets = true ∧ validAmt price = true := by
      cases h1 : validAmt assets <;> cases h2 : validAmt price <;>
        first | exact ⟨rfl, rfl⟩ | exact absurd (Or.inr (Or.inr (Or.inr (Or.inl (by simp [h1, h2]))))) h
    exact (settleOrders_ok (validAmt_nonneg hv.1) (validAmt_nonneg hv.2) hs).1
  | submit _ _ _ _ => cases hr
  | deposit _ _ _ => cases hr
  | vote _ _ => cases hr
  | cancel _ _ => cases hr
  | block _ => cases hr
  | params _ _ => cases hr
  | send _ _ _ => cases hr
  | msend _ _ _ => cases hr
  | delegate _ _ => cases hr
  | tomod _ _ => cases hr
  | msg _ => cases hr
  | fund _ _ => cases hr

end PvProofs.Sanc
