/-
C10 helper lemmas, part 3: plumbing for the callers' case split (`PvProofs/C10Callers.lean`):
how the endpoint models finish (`dropDetails`, `thenSmartContract`, `orElse`) against the
theorems of `PvProofs/C10.lean`.
-/
import PvProofs.C10

namespace PvProofs.Lemmas.SignersCallers
open PvModel.Signers PvProofs.Lemmas.Signers PvProofs.C10

/-! ### plumbing -/

theorem orElse_ok_iff (e : Option Err) (k : Except Err Unit) :
    orElse e k = .ok () ↔ e = none ∧ k = .ok () := by
  cases e <;> simp [orElse]

theorem accepts_unit_iff (r : Except Err Unit) : Accepts r ↔ r = .ok () := by
  constructor
  · rintro ⟨u, h⟩; exact h
  · intro h; exact ⟨(), h⟩

theorem dropDetails_ok_iff (r : Except Err (List PartyDetails)) : dropDetails r = .ok () ↔ Accepts r := by
  cases r <;> simp [dropDetails, Accepts]

theorem mem_getPartyAddresses (ps : List Party) (a : Addr) :
    a ∈ getPartyAddresses ps ↔ a ∈ Spec.addresses ps := by
  have gen : ∀ (l : List Party) (acc : List Addr),
      a ∈ l.foldl (fun rv p => if rv.contains p.address then rv else rv ++ [p.address]) acc ↔
        a ∈ acc ∨ a ∈ l.map (·.address) := by
    intro l
    induction l with
    | nil => intro acc; simp
    | cons p rest ih =>
      intro acc
      simp only [List.foldl_cons, List.map_cons, List.mem_cons]
      split_ifs with hc
      · rw [ih acc]
        have : p.address ∈ acc := by simpa using hc
        constructor
        · rintro (h | h); exact Or.inl h; exact Or.inr (Or.inr h)
        · rintro (h | rfl | h); exact Or.inl h; exact Or.inl this; exact Or.inr h
      · rw [ih]
        simp only [List.mem_append, List.mem_cons, List.not_mem_nil, or_false]
        tauto
  simpa [getPartyAddresses, Spec.addresses] using gen ps []

theorem withoutPartiesOk_congr (env : Env) (mt : MsgType) (signers : List Addr) {l1 l2 : List Addr}
    (h : ∀ a, a ∈ l1 ↔ a ∈ l2) :
    Spec.withoutPartiesOk env mt l1 signers = Spec.withoutPartiesOk env mt l2 signers := by
  rw [Bool.eq_iff_iff]
  simp only [Spec.withoutPartiesOk, List.all_eq_true]
  constructor
  · intro hh a ha; exact hh a ((h a).mpr ha)
  · intro hh a ha; exact hh a ((h a).mp ha)

theorem withoutPartiesOk_getPartyAddresses (env : Env) (mt : MsgType) (signers : List Addr) (ps : List Party) :
    Spec.withoutPartiesOk env mt (getPartyAddresses ps) signers
      = Spec.withoutPartiesOk env mt (Spec.addresses ps) signers :=
  withoutPartiesOk_congr env mt signers (mem_getPartyAddresses ps)

theorem validateProvenanceRole_fresh_iff (env : Env) (parties : List Party) :
    validateProvenanceRole env (buildPartyDetails [] parties) = none ↔
      Spec.provenanceRoleOk env parties = true :=
  validateProvenanceRole_of_shape env [] parties _ rfl

theorem validatePartiesArePresent_none_iff (required available : List Party) :
    validatePartiesArePresent required available = none ↔
      ∀ p ∈ required, ∃ o ∈ available, p.address = o.address ∧ p.role = o.role := by
  unfold validatePartiesArePresent findMissingParties
  simp only [List.isEmpty_iff]
  split_ifs with h
  · simp only [true_iff]
    rw [List.filter_eq_nil_iff] at h
    intro p hp
    have := h p hp
    simpa using this
  · simp only [reduceCtorEq, false_iff]
    intro hall
    apply h
    rw [List.filter_eq_nil_iff]
    intro p hp
    simpa using hall p hp

theorem validateOptionalParties_none_iff (optAllowed : Bool) (parties : List Party) :
    validateOptionalParties optAllowed parties = none ↔
      (optAllowed = false → ∀ p ∈ parties, p.optional = false) := by
  unfold validateOptionalParties
  cases optAllowed <;> simp

/-- the four ways the endpoints finish, against the spec -/
theorem with_only_when (env : Env) (hv : env.valid "" = false) (mt : MsgType) (req avail : List Party)
    (roles : List Role) (signers : List Addr)
    (h : dropDetails (validateSignersWithParties env mt req avail roles signers) = .ok ()) :
    Spec.requiredCovered env mt signers req = true ∧ Spec.rolesCovered env mt signers avail roles = true
      ∧ Spec.provenanceRoleOk env avail = true := by
  have := ((validateSignersWithParties_accepts_iff env hv mt req avail roles signers).mp
    ((dropDetails_ok_iff _).mp h)).1
  simpa [Spec.withPartiesOk, and_assoc] using this

theorem with_iff (env : Env) (hv : env.valid "" = false) (mt : MsgType) (req avail : List Party)
    (roles : List Role) (signers : List Addr) (hnc : NoContracts env signers) :
    dropDetails (validateSignersWithParties env mt req avail roles signers) = .ok () ↔
      Spec.requiredCovered env mt signers req = true ∧ Spec.rolesCovered env mt signers avail roles = true
        ∧ Spec.provenanceRoleOk env avail = true := by
  rw [dropDetails_ok_iff, validateSignersWithParties_accepts_iff_spec env hv mt req avail roles signers hnc]
  simp [Spec.withPartiesOk, and_assoc]

theorem without_only_when (env : Env) (hv : env.valid "" = false) (mt : MsgType) (required signers : List Addr)
    (h : dropDetails (validateSignersWithoutParties env mt required signers) = .ok ()) :
    Spec.withoutPartiesOk env mt required signers = true :=
  ((validateSignersWithoutParties_accepts_iff env hv mt required signers).mp ((dropDetails_ok_iff _).mp h)).1

theorem without_iff (env : Env) (hv : env.valid "" = false) (mt : MsgType) (required signers : List Addr)
    (hnc : NoContracts env signers) :
    dropDetails (validateSignersWithoutParties env mt required signers) = .ok () ↔
      Spec.withoutPartiesOk env mt required signers = true := by
  rw [dropDetails_ok_iff, validateSignersWithoutParties_accepts_iff_spec env hv mt required signers hnc]
  simp [Spec.withoutPartiesOk, Spec.covered]

theorem thenSC_parties_only_when (env : Env) (hv : env.valid "" = false) (mt : MsgType) (req avail : List Party)
    (roles : List Role) (signers : List Addr)
    (h : thenSmartContract env mt signers (validateAllRequiredPartiesSigned env mt req avail roles signers) = .ok ()) :
    Spec.requiredCovered env mt signers req = true ∧ Spec.rolesCovered env mt signers avail roles = true := by
  apply (validateAllRequiredPartiesSigned_accepts_iff env hv mt req avail roles signers).mp
  cases hr : validateAllRequiredPartiesSigned env mt req avail roles signers with
  | error e => rw [hr] at h; simp [thenSmartContract] at h
  | ok ps => exact ⟨ps, rfl⟩

theorem thenSC_of_noContracts (env : Env) (mt : MsgType) (signers : List Addr) (hnc : NoContracts env signers)
    (r : Except Err (List PartyDetails)) :
    thenSmartContract env mt signers r = .ok () ↔ Accepts r := by
  cases r with
  | error e => simp [thenSmartContract, Accepts]
  | ok ps =>
    have := (smart_contract_rule env mt (getUsedSigners ps) signers).mpr
      (smartContractOk_of_noContracts env mt _ signers hnc)
    simp [thenSmartContract, this, Accepts]

theorem thenSC_addrs_only_when (env : Env) (hv : env.valid "" = false) (mt : MsgType)
    (required signers : List Addr)
    (h : thenSmartContract env mt signers (validateAllRequiredSigned env mt required signers) = .ok ()) :
    Spec.withoutPartiesOk env mt required signers = true := by
  obtain ⟨c1, _⟩ := validateAllRequiredSigned_char env mt required signers hv
  by_contra hn
  obtain ⟨who, hw⟩ := c1 (by simpa using hn)
  rw [hw] at h
  simp [thenSmartContract] at h

theorem accepts_allRequiredSigned_iff (env : Env) (hv : env.valid "" = false) (mt : MsgType)
    (required signers : List Addr) :
    Accepts (validateAllRequiredSigned env mt required signers) ↔
      Spec.withoutPartiesOk env mt required signers = true := by
  obtain ⟨c1, c2⟩ := validateAllRequiredSigned_char env mt required signers hv
  constructor
  · rintro ⟨ps, h⟩
    by_contra hn
    obtain ⟨who, hw⟩ := c1 (by simpa using hn)
    rw [hw] at h; cases h
  · intro h; exact ⟨_, c2 h⟩

theorem requiredCovered_append (env : Env) (mt : MsgType) (signers : List Addr) (a b : List Party) :
    Spec.requiredCovered env mt signers (a ++ b)
      = (Spec.requiredCovered env mt signers a && Spec.requiredCovered env mt signers b) := by
  simp [Spec.requiredCovered, List.all_append]

theorem writeRecord_addrs_congr (env : Env) (signers : List Addr) (session old : List Party) :
    Spec.withoutPartiesOk env "WriteRecord" (getPartyAddresses session ++ getPartyAddresses old) signers
      = Spec.withoutPartiesOk env "WriteRecord" (Spec.addresses session ++ Spec.addresses old) signers := by
  apply withoutPartiesOk_congr
  intro a
  simp [mem_getPartyAddresses]


end PvProofs.Lemmas.SignersCallers
