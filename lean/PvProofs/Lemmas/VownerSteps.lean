/-
Helper lemmas for C09: what a successful bank send / `SetScopeValueOwner(s)` establishes,
and what the signer validation establishes about consent (through the authz cache).
-/
import PvProofs.Lemmas.VownerLedger

namespace PvProofs.VownerL
open PvModel PvModel.Ledger PvModel.Vowner

/-- every SCOPE denom is well-formed; ordinary coins are unconstrained -/
def AllHeld (l : Ledger) : Prop := ∀ d, isScopeDenom d = true → ∃ o, HolderIs l d o

/-- everything but the ledger is unchanged -/
structure Frame (s s' : State) : Prop where
  scopes : s'.scopes = s.scopes
  grants : s'.grants = s.grants
  markers : s'.markers = s.markers
  wasm : s'.wasm = s.wasm
  blocked : s'.blocked = s.blocked

theorem Frame.refl (s : State) : Frame s s := ⟨rfl, rfl, rfl, rfl, rfl⟩
theorem Frame.trans {a b c : State} (h1 : Frame a b) (h2 : Frame b c) : Frame a c :=
  ⟨h2.scopes.trans h1.scopes, h2.grants.trans h1.grants, h2.markers.trans h1.markers,
   h2.wasm.trans h1.wasm, h2.blocked.trans h1.blocked⟩

def optAddr (a : Addr) : Option Addr := if a = "" then none else some a

theorem withdrawOk_congr {s s' : State} (h : s'.markers = s.markers) (ag : List Addr) (a : Addr) :
    withdrawOk s' ag a = withdrawOk s ag a := by
  simp [withdrawOk, findMarker, h]

theorem depositOk_congr {s s' : State} (h : s'.markers = s.markers) (ag : List Addr) (a b : Addr) :
    depositOk s' ag a b = depositOk s ag a b := by
  simp [depositOk, findMarker, h]

/-! ### bank send -/

theorem sendCoins_ok {s s' : State} {ag : List Addr} {a b : Addr} {ids : List ScopeId}
    (h : sendCoins s ag a b ids = .ok s') :
    hasFunds s.ledger a ids = true ∧ withdrawOk s ag a = true ∧ depositOk s ag a b = true ∧
    s' = { s with ledger := s.ledger.move a b (ones ids) } := by
  unfold sendCoins at h
  by_cases h1 : hasFunds s.ledger a ids = true <;> by_cases h0 : spendable s a ids = true <;>
    by_cases h2 : withdrawOk s ag a = true <;>
    by_cases h3 : depositOk s ag a b = true <;> simp [h1, h0, h2, h3] at h
  exact ⟨h1, h2, h3, h.symm⟩

/-- a successful send takes only coins that are not on hold -/
theorem sendCoins_spendable {s s' : State} {ag : List Addr} {a b : Addr} {ids : List ScopeId}
    (h : sendCoins s ag a b ids = .ok s') : spendable s a ids = true := by
  unfold sendCoins at h
  by_cases h1 : hasFunds s.ledger a ids = true <;> by_cases h0 : spendable s a ids = true <;> simp [h1, h0] at h
  exact h0

theorem sendCoins_frame {s s' : State} {ag : List Addr} {a b : Addr} {ids : List ScopeId}
    (h : sendCoins s ag a b ids = .ok s') : Frame s s' := by
  obtain ⟨_, _, _, rfl⟩ := sendCoins_ok h
  exact ⟨rfl, rfl, rfl, rfl, rfl⟩

theorem amountOf_one (id d : Denom) : Coins.amountOf (ones [id]) d = if id = d then 1 else 0 := by
  simp [ones]

theorem holderIs_credit_other {l : Ledger} {a : Addr} {id d : Denom} {o : Option Addr} (hd : d ≠ id)
    (h : HolderIs l d o) : HolderIs (l.credit a (ones [id])) d o := by
  have hne : ¬ id = d := fun e => hd e.symm
  refine ⟨?_, fun c => ?_⟩
  · rw [supply_credit, amountOf_one]; simp [hne, h.1]
  · rw [bal_credit, amountOf_one]; simp [hne, h.2 c]

theorem holderIs_debit_other {l : Ledger} {a : Addr} {id d : Denom} {o : Option Addr} (hd : d ≠ id)
    (h : HolderIs l d o) : HolderIs (l.debit a (ones [id])) d o := by
  have hne : ¬ id = d := fun e => hd e.symm
  refine ⟨?_, fun c => ?_⟩
  · rw [supply_debit, amountOf_one]; simp [hne, h.1]
  · rw [bal_debit, amountOf_one]; simp [hne, h.2 c]

theorem holderIs_mint {l : Ledger} {a : Addr} {id : Denom} (h : HolderIs l id none) :
    HolderIs (l.credit a (ones [id])) id (some a) := by
  refine ⟨?_, fun c => ?_⟩
  · rw [supply_credit, amountOf_one]; have := h.1; simp at this; simp [this]
  · rw [bal_credit, amountOf_one]; have := h.2 c; simp at this
    by_cases hc : a = c <;> simp [hc, this]

theorem holderIs_burn {l : Ledger} {a : Addr} {id : Denom} (h : HolderIs l id (some a)) :
    HolderIs (l.debit a (ones [id])) id none := by
  refine ⟨?_, fun c => ?_⟩
  · rw [supply_debit, amountOf_one]; have := h.1; simp at this; simp [this]
  · rw [bal_debit, amountOf_one]; have := h.2 c
    by_cases hc : a = c <;> simp [hc] at this ⊢ <;> omega

theorem nodup_single (id : ScopeId) : [id].Nodup := by simp

/-- a successful send of the tokens `ids` from `a` to `b`, denom by denom -/
theorem sendCoins_holder {s s' : State} {ag : List Addr} {a b : Addr} {ids : List ScopeId}
    (hn : ids.Nodup) (h : sendCoins s ag a b ids = .ok s') {d : Denom} {o : Option Addr}
    (ho : HolderIs s.ledger d o) :
    (d ∈ ids → o = some a) ∧ HolderIs s'.ledger d (if d ∈ ids then some b else o) := by
  obtain ⟨hf, _, _, rfl⟩ := sendCoins_ok h
  exact holderIs_move hn hf ho

/-! ### `SetScopeValueOwner` -/

theorem setScopeValueOwner_spec {s s' : State} {ag : List Addr} {id : ScopeId} {new : Addr}
    (hall : AllHeld s.ledger) (hsd : isScopeDenom id = true) (h : setScopeValueOwner s ag id new = .ok s') :
    Frame s s' ∧
    (∀ d, d ≠ id → ∀ o, HolderIs s.ledger d o → HolderIs s'.ledger d o) ∧
    (∀ o, HolderIs s.ledger id o → o ≠ some "" →
        HolderIs s'.ledger id (optAddr new) ∧
        (o ≠ optAddr new →
           withdrawOk s ag (o.getD modAddr) = true ∧
           depositOk s ag (o.getD modAddr) (if new = "" then modAddr else new) = true ∧
           (new ≠ "" → s.blocked.contains new = false))) := by
  obtain ⟨o0, ho0⟩ := hall id hsd
  have hdo := denomOwner_of_holderIs ho0
  unfold setScopeValueOwner at h
  by_cases hb : new ≠ "" ∧ s.blocked.contains new = true
  · rw [if_pos hb] at h; simp at h
  · rw [if_neg hb] at h
    have hblk : new ≠ "" → s.blocked.contains new = false := by
      intro hn
      cases hc : s.blocked.contains new
      · rfl
      · exact absurd ⟨hn, hc⟩ hb
    simp only [hdo] at h
    by_cases heq : o0.getD "" = new
    · -- no change
      rw [if_pos heq] at h
      simp at h; subst h
      refine ⟨Frame.refl _, fun _ _ _ ho => ho, fun o ho hne => ?_⟩
      have := holderIs_unique ho ho0; subst this
      have hopt : optAddr new = o := by
        cases o with
        | none => simp at heq; simp [optAddr, ← heq]
        | some x =>
          simp at heq; subst heq
          have : x ≠ "" := fun e => hne (by rw [e])
          simp [optAddr, this]
      rw [hopt]
      exact ⟨ho, fun hc => absurd rfl hc⟩
    · rw [if_neg heq] at h
      cases o0 with
      | none =>
        -- mint, then send from the module account
        simp only at h
        cases hs : sendCoins (mintCoin s id) ag modAddr (if new = "" then modAddr else new) [id] with
        | error e => rw [hs] at h; simp at h
        | ok s2 =>
          rw [hs] at h
          obtain ⟨hf, hw, hdp, hs2⟩ := sendCoins_ok hs
          have hw' : withdrawOk s ag modAddr = true := by rw [← hw]; exact (withdrawOk_congr rfl _ _).symm
          have hdp' : depositOk s ag modAddr (if new = "" then modAddr else new) = true := by
            rw [← hdp]; exact (depositOk_congr rfl _ _ _).symm
          have hmint : HolderIs (mintCoin s id).ledger id (some modAddr) := holderIs_mint ho0
          have h2 := (sendCoins_holder (nodup_single id) hs hmint).2
          simp only [List.mem_singleton, if_true] at h2
          have hfr2 : Frame s s2 := by subst hs2; exact ⟨rfl, rfl, rfl, rfl, rfl⟩
          have hother : ∀ d, d ≠ id → ∀ o, HolderIs s.ledger d o → HolderIs s2.ledger d o := by
            intro d hd o ho
            have := (sendCoins_holder (nodup_single id) hs (holderIs_credit_other (a := modAddr) hd ho)).2
            simpa [hd] using this
          by_cases hn : new = ""
          · -- and burn
            simp only [hn, if_true] at h h2
            unfold burnCoin at h
            by_cases hbal : bal s2.ledger modAddr id < 1
            · simp [hbal] at h
            · simp [hbal] at h; subst h
              refine ⟨⟨hfr2.scopes, hfr2.grants, hfr2.markers, hfr2.wasm, hfr2.blocked⟩, ?_, ?_⟩
              · intro d hd o ho
                exact holderIs_debit_other hd (hother d hd o ho)
              · intro o ho _
                have := holderIs_unique ho ho0; subst this
                refine ⟨by simpa [optAddr, hn] using holderIs_burn h2, fun _ => ?_⟩
                simp only [hn, if_true] at hdp'
                exact ⟨hw', by simpa [hn] using hdp', fun hc => absurd hn hc⟩
          · simp only [hn, if_false] at h h2
            simp at h; subst h
            refine ⟨hfr2, hother, ?_⟩
            intro o ho _
            have := holderIs_unique ho ho0; subst this
            refine ⟨by simpa [optAddr, hn] using h2, fun _ => ⟨hw', hdp', hblk⟩⟩
      | some x =>
        simp only at h
        cases hs : sendCoins s ag x (if new = "" then modAddr else new) [id] with
        | error e => rw [hs] at h; simp at h
        | ok s2 =>
          rw [hs] at h
          obtain ⟨hf, hw, hdp, hs2⟩ := sendCoins_ok hs
          have h2 := (sendCoins_holder (nodup_single id) hs ho0).2
          simp only [List.mem_singleton, if_true] at h2
          have hfr2 : Frame s s2 := sendCoins_frame hs
          have hother : ∀ d, d ≠ id → ∀ o, HolderIs s.ledger d o → HolderIs s2.ledger d o := by
            intro d hd o ho
            have := (sendCoins_holder (nodup_single id) hs ho).2
            simpa [hd] using this
          by_cases hn : new = ""
          · simp only [hn, if_true] at h h2
            unfold burnCoin at h
            by_cases hbal : bal s2.ledger modAddr id < 1
            · simp [hbal] at h
            · simp [hbal] at h; subst h
              refine ⟨⟨hfr2.scopes, hfr2.grants, hfr2.markers, hfr2.wasm, hfr2.blocked⟩, ?_, ?_⟩
              · intro d hd o ho
                exact holderIs_debit_other hd (hother d hd o ho)
              · intro o ho _
                have := holderIs_unique ho ho0; subst this
                refine ⟨by simpa [optAddr, hn] using holderIs_burn h2, fun _ => ?_⟩
                exact ⟨hw, by simpa [hn] using hdp, fun hc => absurd hn hc⟩
          · simp only [hn, if_false] at h h2
            simp at h; subst h
            refine ⟨hfr2, hother, ?_⟩
            intro o ho _
            have := holderIs_unique ho ho0; subst this
            refine ⟨by simpa [optAddr, hn] using h2, fun _ => ⟨hw, by simpa [hn] using hdp, hblk⟩⟩

/-! ### `ValidateBasic`: metadata messages only name scope ids -/

theorem validateWriteScope_scopeDenom {s : State} {id : ScopeId} {owners : List Party} {rollup : Bool} {vo : Addr}
    {signers : List Addr} {r : Auth × List Addr}
    (h : validateWriteScope s id owners rollup vo signers = .ok r) : isScopeDenom id = true := by
  unfold validateWriteScope at h
  split at h
  · simp at h
  · rename_i hvalid
    cases hc : isScopeDenom id with
    | true => rfl
    | false => simp [hc] at hvalid

theorem validateDeleteScope_scopeDenom {s : State} {id : ScopeId} {signers : List Addr} {r : Auth × List Addr}
    (h : validateDeleteScope s id signers = .ok r) : isScopeDenom id = true := by
  unfold validateDeleteScope at h
  split at h
  · simp at h
  · rename_i hvalid
    cases hc : isScopeDenom id with
    | true => rfl
    | false => simp [hc] at hvalid

/-! ### authz -/

/-- a grant from `granter` to `grantee` for message type `mt` is in force -/
def KeyIn (gs : List Grant) (grantee granter : Addr) (mt : MsgType) : Prop :=
  ∃ g ∈ gs, g.grantee = grantee ∧ g.granter = granter ∧ g.mt = mt

/-- every grant and every cached acceptance seen while validating one message goes back to a
grant in force when the message arrived (`pre`) -/
def AuthWf (pre : List Grant) (a : Auth) : Prop :=
  (∀ g ∈ a.grants, KeyIn pre g.grantee g.granter g.mt) ∧
  (∀ k ∈ a.cache, KeyIn pre k.1 k.2.1 k.2.2)

theorem authWf_init (pre : List Grant) : AuthWf pre { grants := pre } :=
  ⟨fun g hg => ⟨g, hg, rfl, rfl, rfl⟩, fun k hk => by simp at hk⟩

theorem grantKeyIs_iff {ge gr : Addr} {mt : MsgType} {g : Grant} :
    grantKeyIs ge gr mt g = true ↔ g.grantee = ge ∧ g.granter = gr ∧ g.mt = mt := by
  simp [grantKeyIs, and_assoc]

theorem lookupGrant_some {gs : List Grant} {ge gr : Addr} {mt : MsgType} {g : Grant}
    (h : lookupGrant gs ge gr mt = some g) : g ∈ gs ∧ g.grantee = ge ∧ g.granter = gr ∧ g.mt = mt := by
  unfold lookupGrant at h
  exact ⟨List.mem_of_find?_eq_some h, grantKeyIs_iff.mp (List.find?_some h)⟩

theorem acceptGrant_wf {pre : List Grant} {a : Auth} {g : Grant} (hw : AuthWf pre a) (hg : g ∈ a.grants) :
    AuthWf pre (acceptGrant a g) := by
  have hk := hw.1 g hg
  refine ⟨?_, ?_⟩
  · intro g' hg'
    unfold acceptGrant at hg'
    simp only at hg'
    split at hg'
    · exact hw.1 g' hg'
    · exact hw.1 g' (List.mem_filter.mp hg').1
    · rcases List.mem_append.mp hg' with h1 | h1
      · exact hw.1 g' (List.mem_filter.mp h1).1
      · simp at h1; subst h1; exact hk
  · intro k hk'
    unfold acceptGrant at hk'
    simp only [List.mem_cons] at hk'
    rcases hk' with h1 | h1
    · subst h1; exact hk
    · exact hw.2 k h1

theorem findGrantee_spec {pre : List Grant} {granter : Addr} {mt : MsgType} {ges : List Addr}
    {a a' : Auth} {r : Option Addr} (hw : AuthWf pre a) (h : findGrantee a granter mt ges = (a', r)) :
    AuthWf pre a' ∧ ∀ ge, r = some ge → ge ∈ ges ∧ KeyIn pre ge granter mt := by
  induction ges with
  | nil => simp [findGrantee] at h; obtain ⟨rfl, rfl⟩ := h; exact ⟨hw, fun _ hc => by simp at hc⟩
  | cons ge rest ih =>
    unfold findGrantee at h
    by_cases hc : a.cache.contains (ge, granter, mt) = true
    · rw [if_pos hc] at h
      simp at h; obtain ⟨rfl, rfl⟩ := h
      refine ⟨hw, fun x hx => ?_⟩
      simp at hx; subst hx
      have := hw.2 (ge, granter, mt) (by simpa using hc)
      exact ⟨by simp, this⟩
    · rw [if_neg hc] at h
      cases hl : lookupGrant a.grants ge granter mt with
      | some g =>
        rw [hl] at h
        simp at h; obtain ⟨rfl, rfl⟩ := h
        obtain ⟨hm, h1, h2, h3⟩ := lookupGrant_some hl
        refine ⟨acceptGrant_wf hw hm, fun x hx => ?_⟩
        simp at hx; subst hx
        refine ⟨by simp, ?_⟩
        have := hw.1 g hm
        rwa [h1, h2, h3] at this
      | none =>
        rw [hl] at h
        obtain ⟨h1, h2⟩ := ih h
        exact ⟨h1, fun x hx => by obtain ⟨m, k⟩ := h2 x hx; exact ⟨List.mem_cons_of_mem _ m, k⟩⟩

theorem findAuthzGrantee_spec {pre : List Grant} {granter : Addr} {mt : MsgType} {ges : List Addr}
    {a a' : Auth} {r : Option Addr} (hw : AuthWf pre a) (h : findAuthzGrantee a granter ges mt = (a', r)) :
    AuthWf pre a' ∧ ∀ ge, r = some ge → ge ∈ ges ∧ KeyIn pre ge granter mt := by
  unfold findAuthzGrantee at h
  split at h
  · simp at h; obtain ⟨rfl, rfl⟩ := h; exact ⟨hw, fun _ hc => by simp at hc⟩
  · exact findGrantee_spec hw h

theorem validateAllRequiredSigned_wf {pre : List Grant} {signers : List Addr} {mt : MsgType}
    {req : List Addr} {a a' : Auth} {used used' : List Addr} (hw : AuthWf pre a)
    (h : validateAllRequiredSigned a signers mt req used = .ok (a', used')) : AuthWf pre a' := by
  induction req generalizing a used with
  | nil => simp [validateAllRequiredSigned] at h; rw [← h.1]; exact hw
  | cons p rest ih =>
    unfold validateAllRequiredSigned at h
    split at h
    · exact ih hw h
    · split at h
      · rename_i a1 g hf
        exact ih (findAuthzGrantee_spec hw hf).1 h
      · simp at h

/-- what `validateAllRequiredSigned` establishes: every required address signed or granted a signer -/
theorem validateAllRequiredSigned_consent {pre : List Grant} {signers : List Addr} {mt : MsgType}
    {req : List Addr} {a a' : Auth} {used used' : List Addr} (hw : AuthWf pre a)
    (h : validateAllRequiredSigned a signers mt req used = .ok (a', used')) :
    ∀ p ∈ req, p ∈ signers ∨ ∃ ge ∈ signers, KeyIn pre ge p mt := by
  induction req generalizing a used with
  | nil => intro p hp; simp at hp
  | cons q rest ih =>
    unfold validateAllRequiredSigned at h
    intro p hp
    split at h
    · rename_i hc
      rcases List.mem_cons.mp hp with rfl | hp'
      · exact Or.inl (by simpa using hc)
      · exact ih hw h p hp'
    · split at h
      · rename_i a1 g hf
        obtain ⟨hw1, hr⟩ := findAuthzGrantee_spec hw hf
        rcases List.mem_cons.mp hp with rfl | hp'
        · obtain ⟨m, k⟩ := hr g rfl
          exact Or.inr ⟨g, m, k⟩
        · exact ih hw1 h p hp'
      · simp at h

theorem associateRequired_wf {pre : List Grant} {signers : List Addr} {mt : MsgType}
    {ds ds' : List PartyDetails} {a a' : Auth} (hw : AuthWf pre a)
    (h : associateRequired signers mt a ds = .ok (a', ds')) : AuthWf pre a' := by
  induction ds generalizing a a' ds' with
  | nil => simp [associateRequired] at h; rw [← h.1]; exact hw
  | cons p rest ih =>
    unfold associateRequired at h
    split at h
    · cases hr : associateRequired signers mt a rest with
      | error e => rw [hr] at h; simp at h
      | ok r =>
        obtain ⟨a1, r1⟩ := r
        rw [hr] at h; simp at h
        rw [← h.1]; exact ih hw hr
    · split at h
      · rename_i a1 g hf
        have hw1 := (findAuthzGrantee_spec hw hf).1
        cases hr : associateRequired signers mt a1 rest with
        | error e => rw [hr] at h; simp at h
        | ok r =>
          obtain ⟨a2, r2⟩ := r
          rw [hr] at h; simp at h
          rw [← h.1]; exact ih hw1 hr
      · simp at h

theorem associateRole_wf {pre : List Grant} {signers : List Addr} {mt : MsgType}
    {ds ds' : List PartyDetails} {a a' : Auth} (hw : AuthWf pre a)
    (h : associateRole signers mt a ds = .ok (a', ds')) : AuthWf pre a' := by
  induction ds generalizing a a' ds' with
  | nil => simp [associateRole] at h
  | cons p rest ih =>
    unfold associateRole at h
    split at h
    · cases hr : associateRole signers mt a rest with
      | error e => rw [hr] at h; simp at h
      | ok r =>
        obtain ⟨a1, r1⟩ := r
        rw [hr] at h; simp at h
        rw [← h.1]; exact ih hw hr
    · split at h
      · rename_i a1 g hf
        simp at h
        rw [← h.1]; exact (findAuthzGrantee_spec hw hf).1
      · rename_i a1 hf
        have hw1 := (findAuthzGrantee_spec hw hf).1
        cases hr : associateRole signers mt a1 rest with
        | error e => rw [hr] at h; simp at h
        | ok r =>
          obtain ⟨a2, r2⟩ := r
          rw [hr] at h; simp at h
          rw [← h.1]; exact ih hw1 hr

/-- the party validation of roll-up scopes only ever consumes grants that were in force -/
theorem validateAllRequiredPartiesSigned_wf {pre : List Grant} {signers : List Addr} {mt : MsgType}
    {parties : List Party} {a a' : Auth} {used : List Addr} (hw : AuthWf pre a)
    (h : validateAllRequiredPartiesSigned a signers mt parties = .ok (a', used)) : AuthWf pre a' := by
  unfold validateAllRequiredPartiesSigned at h
  cases hr : associateRequired signers mt a (associateSigners signers parties) with
  | error e => rw [hr] at h; simp at h
  | ok r =>
    obtain ⟨a1, ds⟩ := r
    rw [hr] at h; simp only at h
    have hw1 := associateRequired_wf hw hr
    split at h
    · simp at h; rw [← h.1]; exact hw1
    · cases hl : associateRole signers mt a1 ds with
      | error e => rw [hl] at h; simp at h
      | ok r2 =>
        obtain ⟨a2, ds2⟩ := r2
        rw [hl] at h; simp at h
        rw [← h.1]; exact associateRole_wf hw1 hl

theorem effectiveSigners_sub (s : State) (signers : List Addr) : ∀ x ∈ effectiveSigners s signers, x ∈ signers := by
  intro x hx
  cases signers with
  | nil => simp [effectiveSigners] at hx
  | cons s0 rest =>
    simp only [effectiveSigners] at hx
    split at hx
    · simp at hx; simp [hx]
    · exact hx

theorem effectiveSigners_ne_nil {s : State} {signers : List Addr} (h : signers ≠ []) :
    effectiveSigners s signers ≠ [] := by
  cases signers with
  | nil => exact absurd rfl h
  | cons s0 rest => simp only [effectiveSigners]; split <;> simp

/-- what the value-owner loop establishes for every existing owner that is not the proposed one -/
def VoConsent (s : State) (pre : List Grant) (sa : List Addr) (mt : MsgType) (ex : Addr) : Prop :=
  ex ∈ sa ∨ isMarker s ex = true ∨ ∃ ge ∈ sa, KeyIn pre ge ex mt

theorem vosLoop_spec {s : State} {pre : List Grant} {sa : List Addr} {proposed : Addr} {mt : MsgType}
    {exs : List Addr} {a a' : Auth} {used used' : List Addr} (hw : AuthWf pre a)
    (h : vosLoop s sa proposed mt a exs used = .ok (a', used')) :
    AuthWf pre a' ∧ ∀ ex ∈ exs, ex ≠ "" → ex ≠ proposed → VoConsent s pre sa mt ex := by
  induction exs generalizing a used with
  | nil =>
    simp [vosLoop] at h; rw [← h.1]
    exact ⟨hw, fun _ hx => by simp at hx⟩
  | cons e rest ih =>
    unfold vosLoop at h
    by_cases h1 : e = ""
    · rw [if_pos h1] at h
      obtain ⟨hw', hr⟩ := ih hw h
      refine ⟨hw', fun ex hex hne hnp => ?_⟩
      rcases List.mem_cons.mp hex with rfl | hx
      · exact absurd h1 hne
      · exact hr ex hx hne hnp
    · rw [if_neg h1] at h
      by_cases h2 : e = proposed
      · rw [if_pos h2] at h
        obtain ⟨hw', hr⟩ := ih hw h
        refine ⟨hw', fun ex hex hne hnp => ?_⟩
        rcases List.mem_cons.mp hex with rfl | hx
        · exact absurd h2 hnp
        · exact hr ex hx hne hnp
      · rw [if_neg h2] at h
        by_cases h3 : sa.contains e = true
        · rw [if_pos h3] at h
          obtain ⟨hw', hr⟩ := ih hw h
          refine ⟨hw', fun ex hex hne hnp => ?_⟩
          rcases List.mem_cons.mp hex with rfl | hx
          · exact Or.inl (by simpa using h3)
          · exact hr ex hx hne hnp
        · rw [if_neg h3] at h
          by_cases h4 : isMarker s e = true
          · rw [if_pos h4] at h
            obtain ⟨hw', hr⟩ := ih hw h
            refine ⟨hw', fun ex hex hne hnp => ?_⟩
            rcases List.mem_cons.mp hex with rfl | hx
            · exact Or.inr (Or.inl h4)
            · exact hr ex hx hne hnp
          · rw [if_neg h4] at h
            split at h
            · rename_i a1 g hf
              obtain ⟨hw1, hg⟩ := findAuthzGrantee_spec hw hf
              obtain ⟨hw', hr⟩ := ih hw1 h
              refine ⟨hw', fun ex hex hne hnp => ?_⟩
              rcases List.mem_cons.mp hex with rfl | hx
              · obtain ⟨m, k⟩ := hg g rfl
                exact Or.inr (Or.inr ⟨g, m, k⟩)
              · exact hr ex hx hne hnp
            · simp at h

/-- `ValidateScopeValueOwnersSigners`: either nothing is to be sent (the one existing owner is
the proposed one, no transfer agents), or the transfer agents are the effective signers and
every other existing owner consents -/
theorem validateScopeValueOwnersSigners_spec {s : State} {pre : List Grant} {a a' : Auth}
    {exs : List Addr} {proposed : Addr} {signers agents used : List Addr} {mt : MsgType}
    (hw : AuthWf pre a)
    (h : validateScopeValueOwnersSigners s a exs proposed signers mt = .ok (a', agents, used)) :
    AuthWf pre a' ∧
    ((exs = [proposed] ∧ agents = []) ∨
     (agents = effectiveSigners s signers ∧
      ∀ ex ∈ exs, ex ≠ "" → ex ≠ proposed → VoConsent s pre (effectiveSigners s signers) mt ex)) := by
  unfold validateScopeValueOwnersSigners at h
  by_cases h1 : exs = [proposed]
  · rw [if_pos h1] at h
    simp at h
    obtain ⟨rfl, rfl, _⟩ := h
    exact ⟨hw, Or.inl ⟨h1, rfl⟩⟩
  · rw [if_neg h1] at h
    simp only at h
    cases hl : vosLoop s (effectiveSigners s signers) proposed mt a exs [] with
    | error e => rw [hl] at h; simp at h
    | ok r =>
      obtain ⟨a1, u1⟩ := r
      rw [hl] at h
      simp at h
      obtain ⟨rfl, rfl, _⟩ := h
      obtain ⟨hw', hr⟩ := vosLoop_spec hw hl
      exact ⟨hw', Or.inr ⟨rfl, hr⟩⟩

theorem allGranted_wf {pre : List Grant} {c : Addr} {mt : MsgType} {gs : List Addr} {a a' : Auth}
    (hw : AuthWf pre a) (h : allGranted c mt a gs = some a') : AuthWf pre a' := by
  induction gs generalizing a with
  | nil => simp [allGranted] at h; rw [← h]; exact hw
  | cons g rest ih =>
    unfold allGranted at h
    split at h
    · rename_i a1 x hf
      exact ih (findAuthzGrantee_spec hw hf).1 h
    · simp at h

theorem validateSmartContractSigners_wf {s : State} {pre : List Grant} {used : List Addr} {mt : MsgType}
    {signers : List Addr} {a a' : Auth} {cbw : Bool} (hw : AuthWf pre a)
    (h : validateSmartContractSigners s used mt a cbw signers = .ok a') : AuthWf pre a' := by
  induction signers generalizing a cbw with
  | nil => simp [validateSmartContractSigners] at h; rw [← h]; exact hw
  | cons sg rest ih =>
    unfold validateSmartContractSigners at h
    simp only at h
    split at h
    · simp at h
    · split at h
      · exact ih hw h
      · split at h
        · exact ih hw h
        · split at h
          · simp at h
          · split at h
            · simp at h
            · rename_i a1 hg
              exact ih (allGranted_wf hw hg) h

end PvProofs.VownerL
