/-
Helper lemmas for C09: the scope token on the shared ledger.
`HolderIs l d o` — the denom `d` is either absent everywhere with supply 0 (`o = none`) or
held by exactly one account with balance and supply 1 (`o = some h`).
-/
import PvModel.VownerSpec

namespace PvProofs.VownerL
open PvModel PvModel.Ledger PvModel.Vowner

def HolderIs (l : Ledger) (d : Denom) (o : Option Addr) : Prop :=
  supply l d = (if o.isSome then 1 else 0) ∧ ∀ a, bal l a d = if o = some a then 1 else 0

theorem holderIs_nil (d : Denom) : HolderIs [] d none := by
  simp [HolderIs]

theorem holderIs_unique {l : Ledger} {d : Denom} {o o' : Option Addr}
    (h : HolderIs l d o) (h' : HolderIs l d o') : o = o' := by
  cases o with
  | none =>
    cases o' with
    | none => rfl
    | some b => have h1 := h.2 b; have h2 := h'.2 b; simp at h1 h2; omega
  | some a =>
    have h1 := h.2 a; have h2 := h'.2 a
    simp at h1
    by_cases hc : o' = some a
    · exact hc.symm
    · simp [hc] at h2; omega

theorem bal_ne_zero_mem {l : Ledger} {a : Addr} {d : Denom} (h : bal l a d ≠ 0) :
    a ∈ l.map (·.addr) := by
  induction l with
  | nil => simp at h
  | cons e t ih =>
    simp only [bal] at h
    by_cases hc : e.addr = a ∧ e.denom = d
    · simp [hc.1]
    · simp only [hc, if_false, Int.zero_add] at h
      simp [ih h]

/-- `DenomOwner` never fails on a well-formed ledger and returns the holder. -/
theorem denomOwner_of_holderIs {l : Ledger} {d : Denom} {o : Option Addr} (h : HolderIs l d o) :
    denomOwner l d = .ok o := by
  unfold denomOwner
  cases o with
  | none =>
    have : (l.map (·.addr)).filter (fun a => bal l a d ≠ 0) = [] := by
      apply List.filter_eq_nil_iff.mpr
      intro a _
      have := h.2 a
      simp at this
      simp [this]
    rw [this]
  | some x =>
    have hx : bal l x d = 1 := by have := h.2 x; simpa using this
    have hx0 : bal l x d ≠ 0 := by rw [hx]; decide
    have hmem : x ∈ (l.map (·.addr)).filter (fun a => bal l a d ≠ 0) := by
      apply List.mem_filter.mpr
      refine ⟨bal_ne_zero_mem hx0, ?_⟩
      simp [hx]
    have hall : ∀ a ∈ (l.map (·.addr)).filter (fun a => bal l a d ≠ 0), a = x := by
      intro a ha
      have ha2 := (List.mem_filter.mp ha).2
      have hb := h.2 a
      by_cases hc : x = a
      · exact hc.symm
      · simp [hc] at hb; simp [hb] at ha2
    generalize (l.map (·.addr)).filter (fun a => bal l a d ≠ 0) = L at hmem hall ⊢
    cases L with
    | nil => simp at hmem
    | cons a rest =>
      have ha : a = x := hall a (by simp)
      have hr : rest.all (· == a) = true := by
        apply List.all_eq_true.mpr
        intro b hb
        have : b = x := hall b (by simp [hb])
        simp [this, ha]
      show (if rest.all (· == a) = true then _ else _) = _
      rw [if_pos hr, ha]

/-! ### `dedup` -/

theorem mem_dedup {x : String} {xs : List String} : x ∈ dedup xs ↔ x ∈ xs := by
  induction xs with
  | nil => simp [dedup]
  | cons y t ih =>
    simp only [dedup, List.mem_cons, List.mem_filter]
    constructor
    · rintro (h | ⟨h, _⟩)
      · exact Or.inl h
      · exact Or.inr (ih.mp h)
    · rintro (h | h)
      · exact Or.inl h
      · by_cases hc : x = y
        · exact Or.inl hc
        · exact Or.inr ⟨ih.mpr h, by simpa using hc⟩

theorem nodup_dedup (xs : List String) : (dedup xs).Nodup := by
  induction xs with
  | nil => simp [dedup]
  | cons y t ih =>
    simp only [dedup, List.nodup_cons, List.mem_filter]
    refine ⟨?_, ?_⟩
    · rintro ⟨_, h⟩; simp at h
    · exact ih.sublist List.filter_sublist

theorem nodupB_iff {xs : List String} : nodupB xs = true ↔ xs.Nodup := by
  induction xs with
  | nil => simp [nodupB]
  | cons y t ih => simp [nodupB, ih, List.nodup_cons]

/-- a `Nodup` list filtered to one of its members is that member alone -/
theorem filterMap_single {β} {xs : List String} (hn : xs.Nodup) {x : String} (hx : x ∈ xs)
    (f : String → Option β) (v : β) (hfx : f x = some v) (hf : ∀ y, y ≠ x → f y = none) :
    xs.filterMap f = [v] := by
  induction xs with
  | nil => simp at hx
  | cons y t ih =>
    have hn' := List.nodup_cons.mp hn
    by_cases hc : y = x
    · subst hc
      have : t.filterMap f = [] := by
        apply List.filterMap_eq_nil_iff.mpr
        intro z hz
        apply hf
        rintro rfl
        exact hn'.1 hz
      simp [hfx, this]
    · have hxt : x ∈ t := by
        rcases List.mem_cons.mp hx with h | h
        · exact absurd h.symm hc
        · exact h
      simp [hf y hc, ih hn'.2 hxt]

def holderList : Option Addr → List (Addr × Int)
  | none => []
  | some x => [(x, 1)]

/-- what the dump shows of a well-formed denom -/
theorem holdersOf_of_holderIs {l : Ledger} {d : Denom} {o : Option Addr} (h : HolderIs l d o) :
    holdersOf l d = holderList o := by
  unfold holdersOf holderList
  cases o with
  | none =>
    apply List.filterMap_eq_nil_iff.mpr
    intro a _
    have := h.2 a
    simp at this
    simp [this]
  | some x =>
    have hx : bal l x d = 1 := by have := h.2 x; simpa using this
    apply filterMap_single (nodup_dedup _) (x := x)
    · exact mem_dedup.mpr (bal_ne_zero_mem (by rw [hx]; decide))
    · simp [hx]
    · intro y hy
      have := h.2 y
      have hne : ¬ (x = y) := fun e => hy e.symm
      simp [hne] at this
      simp [this]

/-! ### sending one unit of each of several denoms -/

theorem amountOf_ones {ids : List ScopeId} (hn : ids.Nodup) (d : Denom) :
    Coins.amountOf (ones ids) d = if d ∈ ids then 1 else 0 := by
  induction ids with
  | nil => simp [ones]
  | cons x t ih =>
    have hn' := List.nodup_cons.mp hn
    have := ih hn'.2
    simp only [ones, List.map_cons, Coins.amountOf_cons, List.mem_cons] at *
    rw [this]
    by_cases hx : x = d
    · subst hx
      simp [hn'.1]
    · have : ¬ d = x := fun e => hx e.symm
      simp [hx, this]

theorem hasFunds_iff {l : Ledger} {a : Addr} {ids : List ScopeId} :
    hasFunds l a ids = true ↔ ∀ d ∈ ids, 1 ≤ bal l a d := by
  simp [hasFunds, List.all_eq_true]

/-- a funded holder `a` moving the tokens `ids` to `b` -/
theorem holderIs_move {l : Ledger} {a b : Addr} {ids : List ScopeId} (hn : ids.Nodup)
    (hf : hasFunds l a ids = true) {d : Denom} {o : Option Addr} (h : HolderIs l d o) :
    (d ∈ ids → o = some a) ∧ HolderIs (l.move a b (ones ids)) d (if d ∈ ids then some b else o) := by
  have hfd := hasFunds_iff.mp hf
  have hsrc : d ∈ ids → o = some a := by
    intro hd
    have h1 := hfd d hd
    have h2 := h.2 a
    by_cases hc : o = some a
    · exact hc
    · simp [hc] at h2; omega
  refine ⟨hsrc, ?_⟩
  by_cases hd : d ∈ ids
  · have ho := hsrc hd
    subst ho
    simp only [hd, if_true]
    refine ⟨?_, ?_⟩
    · rw [supply_move]; simpa using h.1
    · intro c
      rw [bal_move, amountOf_ones hn]
      have hc := h.2 c
      simp only [hd, if_true]
      rw [hc]
      by_cases h1 : a = c <;> by_cases h2 : b = c <;> simp [h1, h2] <;> (try subst h1) <;> (try subst h2) <;> simp_all
  · simp only [hd, if_false]
    refine ⟨?_, ?_⟩
    · rw [supply_move]; exact h.1
    · intro c
      rw [bal_move, amountOf_ones hn]
      simp [hd, h.2 c]

end PvProofs.VownerL
