/-
Helper lemmas for C07: the accept and decline loops over the snapshot of records.
-/
import PvProofs.Lemmas.QuarOps

namespace PvProofs.QuarL
open PvModel PvModel.Quar

/-! ### AcceptFrom / DeclineFrom on one record -/

/-- `AcceptFrom(froms)` changes the record and leaves no unaccepted sender -/
def releases (froms : List Addr) (r : Record) : Bool :=
  !(r.unacc.filter fun a => froms.contains a).isEmpty && (r.unacc.filter fun a => !froms.contains a).isEmpty

theorem perm_rotate (left acc now : List Addr) : (left ++ (acc ++ now)).Perm ((now ++ left) ++ acc) := by
  have h1 : (left ++ (acc ++ now)).Perm ((acc ++ now) ++ left) := List.perm_append_comm
  have h2 : ((acc ++ now) ++ left) = acc ++ (now ++ left) := List.append_assoc _ _ _
  have h3 : (acc ++ (now ++ left)).Perm ((now ++ left) ++ acc) := List.perm_append_comm
  exact h1.trans (h2 ▸ h3)

theorem acceptFrom_some {r r' : Record} {froms : List Addr} (h : r.acceptFrom froms = some r') :
    keyOf r' = keyOf r ∧ r'.coins = r.coins ∧ r'.unacc = r.unacc.filter (fun a => !froms.contains a) ∧
      (r.unacc.filter fun a => froms.contains a).isEmpty = false ∧
      r'.acc = r.acc ++ r.unacc.filter (fun a => froms.contains a) := by
  unfold Record.acceptFrom Record.findAddresses at h
  simp only at h
  cases hn : (r.unacc.filter fun a => froms.contains a).isEmpty
  · rw [hn] at h
    simp only [Bool.false_eq_true, if_false, Option.some.injEq] at h
    subst h
    refine ⟨?_, rfl, rfl, rfl, rfl⟩
    apply createRecordSuffix_perm
    simp only [Record.getAllFromAddrs]
    refine (perm_rotate _ _ _).trans ?_
    exact List.Perm.append_right _ (List.filter_append_perm _ _)
  · rw [hn] at h
    simp at h

theorem acceptFrom_none {r : Record} {froms : List Addr} (h : r.acceptFrom froms = none) :
    (r.unacc.filter fun a => froms.contains a).isEmpty = true := by
  unfold Record.acceptFrom Record.findAddresses at h
  simp only at h
  cases hn : (r.unacc.filter fun a => froms.contains a).isEmpty
  · rw [hn] at h
    simp at h
  · rfl

theorem declineFrom_some {r r' : Record} {froms : List Addr} (h : r.declineFrom froms = some r') :
    keyOf r' = keyOf r ∧ r'.coins = r.coins ∧ (r.isFullyAccepted = false → r'.isFullyAccepted = false) := by
  unfold Record.declineFrom Record.findAddresses at h
  simp only at h
  cases hn : (r.acc.filter fun a => froms.contains a).isEmpty
  · rw [hn] at h
    simp only [Bool.false_eq_true, if_false, Option.some.injEq] at h
    subst h
    refine ⟨?_, rfl, ?_⟩
    · apply createRecordSuffix_perm
      simp only [Record.getAllFromAddrs]
      -- (unacc ++ back) ++ left ~ unacc ++ acc
      rw [List.append_assoc]
      exact List.Perm.append_left _ (List.filter_append_perm _ _)
    · intro hfa
      simp only [Record.isFullyAccepted] at hfa ⊢
      cases hu : r.unacc with
      | nil => simp [hu] at hfa
      | cons a t => simp
  · rw [hn] at h
    simp only [if_true] at h
    cases hd : r.declined
    · rw [hd] at h
      simp only [Bool.false_eq_true, if_false, Option.some.injEq] at h
      subst h
      exact ⟨rfl, rfl, fun h => h⟩
    · rw [hd] at h
      simp at h

/-! ### the snapshot `GetQuarantineRecords` returns -/

structure Snapshot (s : State) (to : Addr) (rs : List Record) : Prop where
  nodup : (rs.map keyOf).Nodup
  stored : ∀ r ∈ rs, kvGet s.recs (to, keyOf r) = some r

theorem Snapshot.tail {s : State} {to : Addr} {r : Record} {rs : List Record} (h : Snapshot s to (r :: rs)) :
    Snapshot s to rs :=
  ⟨(List.nodup_cons.mp h.nodup).2, fun x hx => h.stored x (List.mem_cons_of_mem _ hx)⟩

/-- writing the head record (under its own key) keeps the rest of the snapshot valid -/
theorem Snapshot.after_set {s s1 : State} {to : Addr} {r r' : Record} {rs : List Record}
    (h : Snapshot s to (r :: rs)) (hk : keyOf r' = keyOf r) (hrecs : s1.recs = s.recs) :
    Snapshot (setQuarantineRecord s1 to r') to rs := by
  refine ⟨(List.nodup_cons.mp h.nodup).2, fun x hx => ?_⟩
  have hne : keyOf x ≠ keyOf r := by
    intro e
    have := (List.nodup_cons.mp h.nodup).1
    exact this (e ▸ List.mem_map.mpr ⟨x, hx, rfl⟩)
  rw [setQR_get_ne, hrecs]
  · exact h.stored x (List.mem_cons_of_mem _ hx)
  · rw [hk]
    intro e
    injection e with _ e2
    exact hne e2

theorem filterMap_keys_sublist (s : State) (to : Addr)
    (hk : ∀ sfx r, kvGet s.recs (to, sfx) = some r → keyOf r = sfx) :
    ∀ sfxs : List Suffix, ((sfxs.filterMap fun sfx => kvGet s.recs (to, sfx)).map keyOf).Sublist sfxs := by
  intro sfxs
  induction sfxs with
  | nil => simp
  | cons x t ih =>
    cases hg : kvGet s.recs (to, x) with
    | none =>
      simp only [List.filterMap_cons, hg]
      exact List.Sublist.cons _ ih
    | some r =>
      simp only [List.filterMap_cons, hg, List.map_cons, hk x r hg]
      exact List.Sublist.cons_cons _ ih

theorem inv_key_of_get {s : State} (inv : StoreInv s) {to : Addr} {sfx : Suffix} {r : Record}
    (h : kvGet s.recs (to, sfx) = some r) : keyOf r = sfx :=
  (inv.key _ (mem_of_kvGet h)).symm

theorem getQuarantineRecords_snapshot {s : State} (inv : StoreInv s) (to : Addr) (froms : List Addr) :
    Snapshot s to (getQuarantineRecords s to froms) := by
  unfold getQuarantineRecords
  have hnd : (getQuarantineRecordSuffixes s.index to froms).Nodup := nodup_simplify _ _
  refine ⟨(filterMap_keys_sublist s to (fun _ _ => inv_key_of_get inv) _).nodup hnd, ?_⟩
  intro r hr
  obtain ⟨sfx, _, hg⟩ := List.mem_filterMap.mp hr
  rw [inv_key_of_get inv hg]
  exact hg

/-! ### the accept loop -/

/-- total of the coins of the snapshot records that an accept of `froms` releases -/
def relSum (froms : List Addr) (rs : List Record) (d : Denom) : Int :=
  match rs with
  | [] => 0
  | r :: rest => (if releases froms r then Coins.amountOf r.coins d else 0) + relSum froms rest d

structure Accepted (s s' : State) (to : Addr) (froms : List Addr) (rs : List Record) (rel rel' : Coins) : Prop where
  inv : StoreInv s'
  rest : SameRest s s'
  qin : s'.qin = s.qin
  rel : ∀ d, Coins.amountOf rel' d = Coins.amountOf rel d + relSum froms rs d
  qout : ∀ d, Coins.amountOf s'.qout d = Coins.amountOf s.qout d + relSum froms rs d
  bal : ∀ a d, Ledger.bal s'.bank a d = Ledger.bal s.bank a d
      + (if to = a then relSum froms rs d else 0) - (if s.holder = a then relSum froms rs d else 0)
  supply : ∀ d, Ledger.supply s'.bank d = Ledger.supply s.bank d
  out : ∀ d, outstanding s' d = outstanding s d - relSum froms rs d
  other : ∀ k, k ∉ rs.map (fun r => (to, keyOf r)) → kvGet s'.recs k = kvGet s.recs k
  each : ∀ r ∈ rs, if releases froms r then kvGet s'.recs (to, keyOf r) = none
      else ∃ r', kvGet s'.recs (to, keyOf r) = some r' ∧ r'.coins = r.coins ∧
        r'.unacc = r.unacc.filter (fun a => !froms.contains a) ∧
        r'.acc = r.acc ++ r.unacc.filter (fun a => froms.contains a)
  outFor : ∀ t d, outstandingFor s' t d = outstandingFor s t d - (if to = t then relSum froms rs d else 0)

theorem filter_not_of_filter_empty {l froms : List Addr}
    (h : (l.filter fun a => froms.contains a).isEmpty = true) : l.filter (fun a => !froms.contains a) = l := by
  rw [List.filter_eq_self]
  intro a ha
  have : l.filter (fun a => froms.contains a) = [] := List.isEmpty_iff.mp h
  have hna := List.filter_eq_nil_iff.mp this a ha
  simpa using hna

theorem coinsAt_of_get {s : State} {to : Addr} {sfx : Suffix} {r : Record} (h : kvGet s.recs (to, sfx) = some r) :
    coinsAt s to sfx = r.coins := by
  unfold coinsAt; rw [h]

theorem acceptLoop_ok (to : Addr) (froms : List Addr) :
    ∀ (rs : List Record) (s s' : State) (rel rel' : Coins), StoreInv s → Snapshot s to rs →
      acceptLoop s to froms rs rel = .ok (s', rel') → Accepted s s' to froms rs rel rel' := by
  intro rs
  induction rs with
  | nil =>
    intro s s' rel rel' inv _ h
    simp only [acceptLoop, Except.ok.injEq, Prod.mk.injEq] at h
    obtain ⟨rfl, rfl⟩ := h
    exact ⟨inv, SameRest.refl _, rfl, by simp [relSum], by simp [relSum], by simp [relSum], fun _ => rfl,
      by simp [relSum], fun _ _ => rfl, by simp, by simp [relSum]⟩
  | cons r rest ih =>
    intro s s' rel rel' inv snap h
    have hstored := snap.stored r (List.mem_cons_self ..)
    have hnd := List.nodup_cons.mp snap.nodup
    have hkey_notin : ((to, keyOf r) : Addr × Suffix) ∉ rest.map (fun r => (to, keyOf r)) := by
      intro hm
      obtain ⟨x, hx, he⟩ := List.mem_map.mp hm
      injection he with _ he
      exact hnd.1 (he ▸ List.mem_map.mpr ⟨x, hx, rfl⟩)
    unfold acceptLoop at h
    cases haf : r.acceptFrom froms with
    | none =>
      -- nothing of this record is named: skipped
      simp only [haf] at h
      have A := ih s s' rel rel' inv snap.tail h
      have hemp := acceptFrom_none haf
      have hrel : releases froms r = false := by unfold releases; rw [hemp]; rfl
      refine ⟨A.inv, A.rest, A.qin, ?_, ?_, ?_, A.supply, ?_, ?_, ?_, ?_⟩
      rotate_right 1
      · intro t d; rw [A.outFor]; simp [relSum, hrel]
      · intro d; rw [A.rel]; simp [relSum, hrel]
      · intro d; rw [A.qout]; simp [relSum, hrel]
      · intro a d; rw [A.bal]; simp [relSum, hrel]
      · intro d; rw [A.out]; simp [relSum, hrel]
      · intro k hk
        simp only [List.map_cons, List.mem_cons, not_or] at hk
        exact A.other k hk.2
      · intro x hx
        rcases List.mem_cons.mp hx with rfl | hx
        · rw [hrel]
          simp only [Bool.false_eq_true, if_false]
          exact ⟨x, by rw [A.other _ hkey_notin]; exact hstored, rfl, (filter_not_of_filter_empty hemp).symm,
            by rw [List.isEmpty_iff.mp hemp, List.append_nil]⟩
        · exact A.each x hx
    | some r1 =>
      simp only [haf] at h
      obtain ⟨hk1, hc1, hu1, hnow, hacc1⟩ := acceptFrom_some haf
      cases hfa : r1.isFullyAccepted
      · -- partially accepted: the record is rewritten with the same coins
        simp only [hfa, Bool.false_eq_true, if_false] at h
        generalize hr2 : ({ r1 with declined := isAutoDecline s to r1.unacc } : Record) = r2 at h
        have hk2 : keyOf r2 = keyOf r := by rw [← hr2]; exact hk1
        have hc2 : r2.coins = r.coins := by rw [← hr2]; exact hc1
        have hu2 : r2.unacc = r.unacc.filter (fun a => !froms.contains a) := by rw [← hr2]; exact hu1
        have hfa2 : r2.isFullyAccepted = false := by rw [← hr2]; exact hfa
        have ha2 : r2.acc = r.acc ++ r.unacc.filter (fun a => froms.contains a) := by rw [← hr2]; exact hacc1
        have hnn : ∀ d, 0 ≤ Coins.amountOf r.coins d := inv.nonneg _ (mem_of_kvGet hstored)
        have inv1 := inv_setQR inv to r2 (by rw [hc2]; exact hnn)
        have snap1 : Snapshot (setQuarantineRecord s to r2) to rest := snap.after_set hk2 rfl
        have A := ih _ s' rel rel' inv1 snap1 h
        have hrel : releases froms r = false := by
          have : (r.unacc.filter fun a => !froms.contains a).isEmpty = false := by
            rw [← hu1]; simpa [Record.isFullyAccepted] using hfa
          unfold releases; rw [this]; exact Bool.and_false _
        have hout1 : ∀ d, outstanding (setQuarantineRecord s to r2) d = outstanding s d := by
          intro d
          rw [outstanding_setQR, hk2, coinsAt_of_get hstored, hfa2, hc2]
          simp
        have hself : kvGet (setQuarantineRecord s to r2).recs (to, keyOf r) = some r2 := by
          have := setQR_get_self s to r2 inv.nodup
          rw [hk2, hfa2] at this
          simpa using this
        have houtFor1 : ∀ t d, outstandingFor (setQuarantineRecord s to r2) t d = outstandingFor s t d := by
          intro t d
          rw [outstandingFor_setQR, hk2, coinsAt_of_get hstored, hfa2, hc2]
          simp
        refine ⟨A.inv, (setQR_sameRest s to r2).trans A.rest, by rw [A.qin]; simp, ?_, ?_, ?_, ?_, ?_, ?_, ?_, ?_⟩
        rotate_right 1
        · intro t d; rw [A.outFor, houtFor1]; simp [relSum, hrel]
        · intro d; rw [A.rel]; simp [relSum, hrel]
        · intro d; rw [A.qout]; simp [relSum, hrel]
        · intro a d; rw [A.bal]; simp [relSum, hrel]
        · intro d; rw [A.supply]; simp
        · intro d; rw [A.out, hout1]; simp [relSum, hrel]
        · intro k hk
          simp only [List.map_cons, List.mem_cons, not_or] at hk
          rw [A.other k hk.2]
          apply setQR_get_ne
          rw [hk2]; exact hk.1
        · intro x hx
          rcases List.mem_cons.mp hx with rfl | hx
          · rw [hrel]
            simp only [Bool.false_eq_true, if_false]
            exact ⟨r2, by rw [A.other _ hkey_notin]; exact hself, hc2, hu2, ha2⟩
          · exact A.each x hx
      · -- fully accepted: paid and deleted
        simp only [hfa, if_true] at h
        cases hbt : bankTransfers s true [⟨s.holder, to, r1.coins⟩] with
        | error e => simp [hbt] at h
        | ok s1 =>
          simp only [hbt] at h
          obtain ⟨hs1, _, _⟩ := bankTransfers_bypass_ok hbt
          subst hs1
          have inv1 : StoreInv { s with bank := Ledger.move s.bank s.holder to r1.coins, qout := Coins.add s.qout r1.coins } :=
            inv_with_bank_qout inv _ _
          have hnn : ∀ d, 0 ≤ Coins.amountOf r.coins d := inv.nonneg _ (mem_of_kvGet hstored)
          have inv2 := inv_setQR inv1 to r1 (by rw [hc1]; exact hnn)
          have snap2 : Snapshot (setQuarantineRecord { s with bank := Ledger.move s.bank s.holder to r1.coins, qout := Coins.add s.qout r1.coins } to r1) to rest :=
            snap.after_set hk1 rfl
          have A := ih _ s' _ rel' inv2 snap2 h
          have hrel : releases froms r = true := by
            have : (r.unacc.filter fun a => !froms.contains a).isEmpty = true := by
              rw [← hu1]; simpa [Record.isFullyAccepted] using hfa
            unfold releases; rw [this, hnow]; rfl
          have hout1 : ∀ d, outstanding (setQuarantineRecord { s with bank := Ledger.move s.bank s.holder to r1.coins, qout := Coins.add s.qout r1.coins } to r1) d
              = outstanding s d - Coins.amountOf r.coins d := by
            intro d
            rw [outstanding_setQR, hk1, hfa]
            have : coinsAt { s with bank := Ledger.move s.bank s.holder to r1.coins, qout := Coins.add s.qout r1.coins } to (keyOf r) = r.coins :=
              coinsAt_of_get hstored
            rw [this]
            show outstanding s d - _ + (if true = true then 0 else _) = _
            simp
          have hself : kvGet (setQuarantineRecord { s with bank := Ledger.move s.bank s.holder to r1.coins, qout := Coins.add s.qout r1.coins } to r1).recs (to, keyOf r) = none := by
            have := setQR_get_self { s with bank := Ledger.move s.bank s.holder to r1.coins, qout := Coins.add s.qout r1.coins } to r1 inv1.nodup
            rw [hk1, hfa] at this
            simpa using this
          have hrest0 : SameRest s { s with bank := Ledger.move s.bank s.holder to r1.coins, qout := Coins.add s.qout r1.coins } :=
            ⟨rfl, rfl, rfl, rfl, rfl⟩
          have houtFor1 : ∀ t d, outstandingFor (setQuarantineRecord { s with bank := Ledger.move s.bank s.holder to r1.coins, qout := Coins.add s.qout r1.coins } to r1) t d
              = outstandingFor s t d - (if to = t then Coins.amountOf r.coins d else 0) := by
            intro t d
            rw [outstandingFor_setQR, hk1, hfa]
            have : coinsAt { s with bank := Ledger.move s.bank s.holder to r1.coins, qout := Coins.add s.qout r1.coins } to (keyOf r) = r.coins :=
              coinsAt_of_get hstored
            rw [this]
            show outstandingFor s t d + (if to = t then (if true = true then 0 else _) - _ else 0) = _
            split <;> simp <;> omega
          refine ⟨A.inv, (hrest0.trans (setQR_sameRest _ to r1)).trans A.rest, by rw [A.qin]; simp, ?_, ?_, ?_, ?_, ?_, ?_, ?_, ?_⟩
          rotate_right 1
          · intro t d; rw [A.outFor, houtFor1]; simp only [relSum, hrel, if_true]; split <;> omega
          · intro d; rw [A.rel]; simp [relSum, hrel, hc1]; omega
          · intro d; rw [A.qout]; simp [relSum, hrel, hc1]; omega
          · intro a d
            rw [A.bal]
            simp only [setQR_bank, setQR_holder, relSum, hrel, if_true, Ledger.bal_move, hc1]
            by_cases h1 : to = a <;> by_cases h2 : s.holder = a <;> simp [h1, h2] <;> omega
          · intro d; rw [A.supply]; simp [Ledger.supply_move]
          · intro d; rw [A.out, hout1]; simp [relSum, hrel]; omega
          · intro k hk
            simp only [List.map_cons, List.mem_cons, not_or] at hk
            rw [A.other k hk.2]
            apply setQR_get_ne
            rw [hk1]; exact hk.1
          · intro x hx
            rcases List.mem_cons.mp hx with rfl | hx
            · rw [hrel]
              simp only [if_true]
              rw [A.other _ hkey_notin]; exact hself
            · exact A.each x hx

/-! ### the decline loop -/

structure Declined (s s' : State) : Prop where
  inv : StoreInv s'
  rest : SameRest s s'
  bank : s'.bank = s.bank
  qin : s'.qin = s.qin
  qout : s'.qout = s.qout
  coins : ∀ k, (kvGet s'.recs k).map (·.coins) = (kvGet s.recs k).map (·.coins)
  out : ∀ d, outstanding s' d = outstanding s d
  outFor : ∀ t d, outstandingFor s' t d = outstandingFor s t d

theorem declineLoop_ok (to : Addr) (froms : List Addr) :
    ∀ (rs : List Record) (s : State), StoreInv s → Snapshot s to rs → Declined s (declineLoop s to froms rs) := by
  intro rs
  induction rs with
  | nil =>
    intro s inv _
    exact ⟨inv, SameRest.refl _, rfl, rfl, rfl, fun _ => rfl, fun _ => rfl, fun _ _ => rfl⟩
  | cons r rest ih =>
    intro s inv snap
    have hstored := snap.stored r (List.mem_cons_self ..)
    unfold declineLoop
    cases hdf : r.declineFrom froms with
    | none => exact ih s inv snap.tail
    | some r1 =>
      simp only
      obtain ⟨hk1, hc1, hfa1⟩ := declineFrom_some hdf
      have hnfa : r.isFullyAccepted = false := inv.nfa _ (mem_of_kvGet hstored)
      have hfa := hfa1 hnfa
      have hnn : ∀ d, 0 ≤ Coins.amountOf r.coins d := inv.nonneg _ (mem_of_kvGet hstored)
      have inv1 := inv_setQR inv to r1 (by rw [hc1]; exact hnn)
      have snap1 : Snapshot (setQuarantineRecord s to r1) to rest := snap.after_set hk1 rfl
      have A := ih _ inv1 snap1
      have hself : kvGet (setQuarantineRecord s to r1).recs (to, keyOf r) = some r1 := by
        have := setQR_get_self s to r1 inv.nodup
        rw [hk1, hfa] at this
        simpa using this
      refine ⟨A.inv, (setQR_sameRest s to r1).trans A.rest, by rw [A.bank]; simp, by rw [A.qin]; simp,
        by rw [A.qout]; simp, ?_, ?_, ?_⟩
      rotate_right 1
      · intro t d
        rw [A.outFor, outstandingFor_setQR, hk1, coinsAt_of_get hstored, hfa, hc1]
        simp
      · intro k
        rw [A.coins k]
        by_cases hk : k = (to, keyOf r)
        · subst hk
          rw [hself, hstored]
          simp [hc1]
        · rw [setQR_get_ne]
          rw [hk1]; exact hk
      · intro d
        rw [A.out, outstanding_setQR, hk1, coinsAt_of_get hstored, hfa, hc1]
        simp

theorem declineQuarantinedFunds_ok {s : State} (inv : StoreInv s) (to : Addr) (froms : List Addr) :
    Declined s (declineQuarantinedFunds s to froms) :=
  declineLoop_ok to froms _ s inv (getQuarantineRecords_snapshot inv to froms)

/-! ### opt-in / auto-responses: the record store is untouched -/

structure OnlySettings (s s' : State) : Prop where
  holder : s'.holder = s.holder
  restricted : s'.restricted = s.restricted
  xfer : s'.xfer = s.xfer
  recs : s'.recs = s.recs
  index : s'.index = s.index
  bank : s'.bank = s.bank
  qin : s'.qin = s.qin
  qout : s'.qout = s.qout

theorem OnlySettings.refl (s : State) : OnlySettings s s := ⟨rfl, rfl, rfl, rfl, rfl, rfl, rfl, rfl⟩
theorem OnlySettings.trans {a b c : State} (h1 : OnlySettings a b) (h2 : OnlySettings b c) : OnlySettings a c :=
  ⟨h2.holder.trans h1.holder, h2.restricted.trans h1.restricted, h2.xfer.trans h1.xfer, h2.recs.trans h1.recs,
   h2.index.trans h1.index, h2.bank.trans h1.bank, h2.qin.trans h1.qin, h2.qout.trans h1.qout⟩

theorem OnlySettings.inv {s s' : State} (h : OnlySettings s s') (inv : StoreInv s) : StoreInv s' := by
  refine ⟨?_, ?_, ?_, ?_, ?_⟩
  · unfold KeyOK; rw [h.recs]; exact inv.key
  · unfold KeysNodup; rw [h.recs]; exact inv.nodup
  · unfold NoneFullyAccepted; rw [h.recs]; exact inv.nfa
  · unfold IndexOK; rw [h.recs, h.index]; exact inv.idx
  · unfold RecsNonneg; rw [h.recs]; exact inv.nonneg

theorem OnlySettings.outstanding {s s' : State} (h : OnlySettings s s') (d : Denom) :
    outstanding s' d = outstanding s d := by
  unfold Quar.outstanding; rw [h.recs]

theorem OnlySettings.outstandingFor {s s' : State} (h : OnlySettings s s') (t : Addr) (d : Denom) :
    outstandingFor s' t d = outstandingFor s t d := by
  unfold Quar.outstandingFor; rw [h.recs]

theorem setAutoResponse_only (s : State) (to f : Addr) (r : AutoResp) : OnlySettings s (setAutoResponse s to f r) := by
  unfold setAutoResponse; split <;> exact ⟨rfl, rfl, rfl, rfl, rfl, rfl, rfl, rfl⟩

theorem setAutoResponses_only (to : Addr) (ups : List (Addr × AutoResp)) :
    ∀ s : State, OnlySettings s (setAutoResponses s to ups) := by
  induction ups with
  | nil => intro s; exact OnlySettings.refl s
  | cons u rest ih =>
    intro s
    obtain ⟨f, r⟩ := u
    exact (setAutoResponse_only s to f r).trans (ih _)

theorem setOptIn_only (s : State) (a : Addr) : OnlySettings s (setOptIn s a) := ⟨rfl, rfl, rfl, rfl, rfl, rfl, rfl, rfl⟩
theorem setOptOut_only (s : State) (a : Addr) : OnlySettings s (setOptOut s a) := ⟨rfl, rfl, rfl, rfl, rfl, rfl, rfl, rfl⟩

end PvProofs.QuarL
