/-
Helper lemmas for C06: the invariant along whole histories (`run_inv`), the configuration and
the ghost set of cancelled proposals along a history.
-/
import PvProofs.Lemmas.SancRoutes

namespace PvProofs.Sanc
open PvModel PvModel.Sanc PvModel.Sanc.Spec

theorem foldR_inv {α : Type} {f : State → α → R State}
    (hf : ∀ s x s', Inv s → f s x = .ok s' → Inv s' ∧ s'.cfg = s.cfg ∧ s'.cancelled = s.cancelled)
    (xs : List α) {s s' : State} (h : Inv s) (hs : foldR f s xs = .ok s') :
    Inv s' ∧ s'.cfg = s.cfg ∧ s'.cancelled = s.cancelled := by
  induction xs generalizing s with
  | nil => simp only [foldR, Except.ok.injEq] at hs; subst hs; exact ⟨h, rfl, rfl⟩
  | cons x rest ih =>
    simp only [foldR] at hs
    cases hx : f s x with
    | error e => simp [hx] at hs
    | ok s1 =>
      simp only [hx] at hs
      obtain ⟨k1, k2, k3⟩ := hf s x s1 h hx
      obtain ⟨j1, j2, j3⟩ := ih k1 hs
      exact ⟨j1, j2.trans k2, j3.trans k3⟩

theorem endBlocker_inv {s s' : State} (h : Inv s) (hs : endBlocker s = .ok s') :
    Inv s' ∧ s'.cfg = s.cfg ∧ s'.cancelled = s.cancelled := by
  unfold endBlocker at hs
  cases h1 : foldR expireOne s (inactiveIds s) with
  | error e => simp [h1] at hs
  | ok s1 =>
    simp only [h1] at hs
    obtain ⟨k1, k2, k3⟩ := foldR_inv (fun s x s' => expireOne_inv) _ h h1
    obtain ⟨j1, j2, j3⟩ := foldR_inv (fun s x s' => tallyOne_inv) _ k1 hs
    exact ⟨j1, j2.trans k2, j3.trans k3⟩

def isCancel : Op → Bool
  | .cancel _ _ => true
  | _ => false

theorem allPos_of_coinsValid {cs : Coins} (h : coinsValid cs = true) : allPos cs = true := by
  unfold coinsValid at h
  simp only [Bool.and_eq_true] at h
  exact h.1

theorem applyOp_inv {s s' : State} {op : Op} (h : Inv s) (hs : applyOp s op = .ok s') :
    Inv s' ∧ s'.cfg = s.cfg ∧ (isCancel op = false → s'.cancelled = s.cancelled) := by
  cases op with
  | submit who msgs initial exp =>
    obtain ⟨k1, k2, k3⟩ := submitProposal_inv h hs
    exact ⟨k1, k2, fun _ => k3⟩
  | deposit who id amt =>
    simp only [applyOp] at hs
    split_ifs at hs with hv
    have hpos : allPos amt = true := by
      cases h1 : allPos amt
      · simp [validAmt, h1] at hv
      · rfl
    obtain ⟨k1, k2, k3⟩ := addDeposit_inv h hpos hs
    exact ⟨k1, k2, fun _ => k3⟩
  | vote id v =>
    obtain ⟨k1, k2, k3⟩ := addVote_inv h hs
    exact ⟨k1, k2, fun _ => k3⟩
  | cancel who id =>
    obtain ⟨k1, k2⟩ := cancelProposal_inv h hs
    exact ⟨k1, k2, fun hc => by simp [isCancel] at hc⟩
  | block dt =>
    simp only [applyOp] at hs
    cases he : endBlocker s with
    | error e => simp [he] at hs
    | ok s1 =>
      simp only [he, Except.ok.injEq] at hs
      subst hs
      obtain ⟨k1, k2, k3⟩ := endBlocker_inv h he
      exact ⟨⟨k1.1, k1.2, k1.3, k1.4, k1.5, k1.6, k1.7⟩, k2, fun _ => k3⟩
  | params sanc unsanc =>
    simp only [applyOp, updateParams] at hs
    split_ifs at hs with hv
    simp only [Except.ok.injEq] at hs
    subst hs
    have hv : coinsValid sanc = true ∧ coinsValid unsanc = true := by
      cases h1 : coinsValid sanc <;> cases h2 : coinsValid unsanc <;> simp_all
    refine ⟨⟨?_, h.2, h.3, h.4, h.5, h.6, h.7⟩, rfl, fun _ => rfl⟩
    exact { h.store with sancPos := allPos_of_coinsValid hv.1, unsancPos := allPos_of_coinsValid hv.2 }
  | send f t amt =>
    simp only [applyOp] at hs
    split_ifs at hs
    obtain ⟨rfl, _⟩ := sendCoins_ok hs
    exact ⟨inv_ledger _ h, rfl, fun _ => rfl⟩
  | msend f ts amt =>
    simp only [applyOp, inputOutputCoins] at hs
    split_ifs at hs
    simp only [Except.ok.injEq] at hs
    subst hs
    exact ⟨inv_ledger _ h, rfl, fun _ => rfl⟩
  | delegate who amt =>
    simp only [applyOp, delegateCoins] at hs
    split_ifs at hs
    simp only [Except.ok.injEq] at hs
    subst hs
    exact ⟨inv_ledger _ h, rfl, fun _ => rfl⟩
  | tomod who amt =>
    simp only [applyOp] at hs
    split_ifs at hs
    obtain ⟨rfl, _⟩ := sendCoins_ok hs
    exact ⟨inv_ledger _ h, rfl, fun _ => rfl⟩
  | msg m =>
    simp only [applyOp] at hs
    cases hm : msgSanction s.cfg s.st m with
    | error e => simp [hm] at hs
    | ok st =>
      simp only [hm, Except.ok.injEq] at hs
      subst hs
      obtain ⟨k1, k2⟩ := msgSanction_ok h.store hm
      exact ⟨⟨k1, h.2, h.3, h.4, fun e he => h.live e (k2 e he).1, h.6, h.7⟩, rfl, fun _ => rfl⟩
  | fund who amt =>
    simp only [applyOp] at hs
    split_ifs at hs
    simp only [Except.ok.injEq] at hs
    subst hs
    exact ⟨inv_ledger _ h, rfl, fun _ => rfl⟩
  | grant a b lim =>
    have r := (applyOp_route (op := .grant a b lim) rfl hs).1
    exact ⟨inv_of_sameGov h r, r.cfg, fun _ => r.cancelled⟩
  | mxfer admin frm to d x =>
    have r := (applyOp_route (op := .mxfer admin frm to d x) rfl hs).1
    exact ⟨inv_of_sameGov h r, r.cfg, fun _ => r.cancelled⟩
  | mwd admin to d amt =>
    have r := (applyOp_route (op := .mwd admin to d amt) rfl hs).1
    exact ⟨inv_of_sameGov h r, r.cfg, fun _ => r.cancelled⟩
  | mktwd admin to amt =>
    have r := (applyOp_route (op := .mktwd admin to amt) rfl hs).1
    exact ⟨inv_of_sameGov h r, r.cfg, fun _ => r.cancelled⟩
  | pay src tgt sa ta =>
    have r := (applyOp_route (op := .pay src tgt sa ta) rfl hs).1
    exact ⟨inv_of_sameGov h r, r.cfg, fun _ => r.cancelled⟩
  | settle sl by' as pr =>
    have r := (applyOp_route (op := .settle sl by' as pr) rfl hs).1
    exact ⟨inv_of_sameGov h r, r.cfg, fun _ => r.cancelled⟩

theorem step_inv {s : State} (op : Op) (h : Inv s) :
    Inv (step s op) ∧ (step s op).cfg = s.cfg ∧ (isCancel op = false → (step s op).cancelled = s.cancelled) := by
  unfold step
  cases hs : applyOp s op with
  | error e => exact ⟨h, rfl, fun _ => rfl⟩
  | ok s' => exact applyOp_inv h hs

theorem run_inv {s : State} (ops : List Op) (h : Inv s) :
    Inv (run s ops) ∧ (run s ops).cfg = s.cfg ∧
      ((∀ op ∈ ops, isCancel op = false) → (run s ops).cancelled = s.cancelled) := by
  induction ops generalizing s with
  | nil => exact ⟨h, rfl, fun _ => rfl⟩
  | cons op rest ih =>
    obtain ⟨k1, k2, k3⟩ := step_inv op h
    obtain ⟨j1, j2, j3⟩ := ih k1
    refine ⟨j1, j2.trans k2, fun hall => ?_⟩
    have h1 := k3 (hall op List.mem_cons_self)
    have h2 := j3 (fun o ho => hall o (List.mem_cons_of_mem _ ho))
    exact h2.trans h1

end PvProofs.Sanc
