/-
Helper lemmas for C13: how the invariant `IndexInvF` behaves under the elementary changes of
the lookup function that the handlers make (insert an order with its index entries, rewrite
an order's value, change its external id, delete it; set / delete a payment).
-/
import PvProofs.Lemmas.ExrecStore

namespace PvProofs.Exrec
open PvModel.Exrec

/-! ### index entries -/

theorem mem_orderIndexEntries {o : Order} {e : Entry} : e ∈ orderIndexEntries o ↔
    e = (idxMarketToOrder o.market o.id, .tbyte o.tb) ∨ e = (idxAddressToOrder o.owner o.id, .tbyte o.tb) ∨
    e = (idxAssetToOrder o.assetDenom o.id, .tbyte o.tb) ∨
    (o.ext ≠ [] ∧ e = (idxMarketExternalIDToOrder o.market o.ext, .u64 o.id)) := by
  unfold orderIndexEntries
  by_cases h : o.ext = [] <;> simp [h]

theorem mem_paymentIndexEntries {p : Payment} {e : Entry} : e ∈ paymentIndexEntries p ↔
    p.target ≠ [] ∧ e = (idxTargetToPayment p.target p.source p.ext, .empty) := by
  unfold paymentIndexEntries
  by_cases h : p.target = [] <;> simp [h]

def orderHead : Bytes → Bool
  | b :: _ => b = 2 || b = 3 || b = 4 || b = 5 || b = 9
  | [] => false

def payHead : Bytes → Bool
  | b :: _ => b = 16 || b = 112
  | [] => false

theorem isOrderIndexKey_of_mem {o : Order} {e : Entry} (h : e ∈ orderIndexEntries o) :
    isOrderIndexKey e.1 = true := by
  rcases mem_orderIndexEntries.mp h with rfl | rfl | rfl | ⟨_, rfl⟩ <;> rfl

theorem orderHead_of_index {k : Bytes} (h : isOrderIndexKey k = true) : orderHead k = true := by
  cases k with
  | nil => simp [isOrderIndexKey] at h
  | cons b r => simp only [isOrderIndexKey, Bool.or_eq_true, decide_eq_true_eq] at h; simp only [orderHead, Bool.or_eq_true, decide_eq_true_eq]; omega

theorem index_ne_keyOrder {k : Bytes} (h : isOrderIndexKey k = true) (i : UInt64) : k ≠ keyOrder i := by
  intro e; subst e; simp [isOrderIndexKey, keyOrder] at h

/-- within one order, an index key determines the entry -/
theorem entry_eq_of_key_eq {o : Order} {e e' : Entry} (h : e ∈ orderIndexEntries o) (h' : e' ∈ orderIndexEntries o)
    (hk : e.1 = e'.1) : e = e' := by
  rcases mem_orderIndexEntries.mp h with rfl | rfl | rfl | ⟨_, rfl⟩ <;>
  rcases mem_orderIndexEntries.mp h' with rfl | rfl | rfl | ⟨_, rfl⟩ <;>
  first | rfl | (exfalso; revert hk; simp [idxMarketToOrder, idxAddressToOrder, idxAssetToOrder, idxMarketExternalIDToOrder])

/-! ### the two halves of the invariant -/

structure OrderInvF (g : KV) : Prop where
  order_key : ∀ r v, g (2 :: r) = some v → ∃ id o, r = u64Bz id ∧ v = .order o ∧ o.id = id
  indexed : ∀ id o, g (keyOrder id) = some (.order o) → ∀ e ∈ orderIndexEntries o, g e.1 = some e.2
  no_dangling : ∀ k v, isOrderIndexKey k = true → g k = some v →
    ∃ id o, g (keyOrder id) = some (.order o) ∧ (k, v) ∈ orderIndexEntries o

structure PayInvF (g : KV) : Prop where
  pay_key : ∀ r v, g (112 :: r) = some v → ∃ p, v = .payment p ∧ 112 :: r = keyPayment p.source p.ext
  pay_indexed : ∀ p, g (keyPayment p.source p.ext) = some (.payment p) →
    ∀ e ∈ paymentIndexEntries p, g e.1 = some e.2
  pay_no_dangling : ∀ r v, g (16 :: r) = some v →
    ∃ p, g (keyPayment p.source p.ext) = some (.payment p) ∧ (16 :: r, v) ∈ paymentIndexEntries p

theorem indexInvF_iff {g : KV} : IndexInvF g ↔ OrderInvF g ∧ PayInvF g :=
  ⟨fun h => ⟨⟨h.order_key, h.indexed, h.no_dangling⟩, ⟨h.pay_key, h.pay_indexed, h.pay_no_dangling⟩⟩,
   fun h => ⟨h.1.order_key, h.1.indexed, h.1.no_dangling, h.2.pay_key, h.2.pay_indexed, h.2.pay_no_dangling⟩⟩

theorem OrderInvF.frame {g g' : KV} (h : OrderInvF g) (hg : ∀ k, orderHead k = true → g' k = g k) : OrderInvF g' := by
  refine ⟨?_, ?_, ?_⟩
  · intro r v hv
    rw [hg _ rfl] at hv
    exact h.order_key r v hv
  · intro id o ho e he
    rw [hg _ rfl] at ho
    rw [hg _ (orderHead_of_index (isOrderIndexKey_of_mem he))]
    exact h.indexed id o ho e he
  · intro k v hk hv
    rw [hg _ (orderHead_of_index hk)] at hv
    obtain ⟨id, o, ho, hm⟩ := h.no_dangling k v hk hv
    exact ⟨id, o, by rw [hg _ rfl]; exact ho, hm⟩

theorem PayInvF.frame {g g' : KV} (h : PayInvF g) (hg : ∀ k, payHead k = true → g' k = g k) : PayInvF g' := by
  refine ⟨?_, ?_, ?_⟩
  · intro r v hv
    rw [hg _ rfl] at hv
    exact h.pay_key r v hv
  · intro p hp e he
    rw [hg _ rfl] at hp
    obtain ⟨_, rfl⟩ := mem_paymentIndexEntries.mp he
    rw [hg _ rfl]
    exact h.pay_indexed p hp _ he
  · intro r v hv
    rw [hg _ rfl] at hv
    obtain ⟨p, hp, hm⟩ := h.pay_no_dangling r v hv
    exact ⟨p, by rw [hg _ rfl]; exact hp, hm⟩

/-- the id stored in a live order record is the id of its key -/
theorem OrderInvF.record_id {g : KV} (h : OrderInvF g) {i : UInt64} {o : Order}
    (ho : g (keyOrder i) = some (.order o)) : o.id = i := by
  obtain ⟨id, o', hr, hv, hid⟩ := h.order_key (u64Bz i) _ ho
  cases hv
  rw [hid]; exact (u64Bz_inj hr).symm

/-- index entries of two live orders with equal keys belong to the same order -/
theorem OrderInvF.live_disjoint {g : KV} (h : OrderInvF g) {i i' : UInt64} {o o' : Order}
    (ho : g (keyOrder i) = some (.order o)) (ho' : g (keyOrder i') = some (.order o'))
    {e e' : Entry} (he : e ∈ orderIndexEntries o) (he' : e' ∈ orderIndexEntries o') (hk : e.1 = e'.1) : i = i' := by
  have hid := h.record_id ho
  have hid' := h.record_id ho'
  have hv := h.indexed i o ho e he
  have hv' := h.indexed i' o' ho' e' he'
  rw [hk] at hv
  rw [hv] at hv'
  rcases mem_orderIndexEntries.mp he with rfl | rfl | rfl | ⟨_, rfl⟩ <;>
  rcases mem_orderIndexEntries.mp he' with rfl | rfl | rfl | ⟨_, rfl⟩ <;>
  simp_all [idxMarketToOrder, idxAddressToOrder, idxAssetToOrder, idxMarketExternalIDToOrder] <;>
  first
  | (have := u32_append_inj hk; have := u64Bz_inj this.2; simp_all)
  | (have := lengthPrefix_append_inj hk; have := u64Bz_inj this.2; simp_all)
  | (have := append_u64_inj hk; simp_all)


/-! ### order changes -/

/-- delete a live order with all its index entries (`deleteAndDeIndexOrder`) -/
theorem OrderInvF.delete {g g' : KV} (h : OrderInvF g) {o : Order} (ho : g (keyOrder o.id) = some (.order o))
    (hg : ∀ k, g' k = if k = keyOrder o.id ∨ k ∈ (orderIndexEntries o).map (·.1) then none else g k) :
    OrderInvF g' := by
  have sub : ∀ k v, g' k = some v → g k = some v := by
    intro k v hv; rw [hg] at hv; split at hv
    · cases hv
    · exact hv
  refine ⟨fun r v hv => h.order_key r v (sub _ _ hv), ?_, ?_⟩
  · intro id o' ho' e he
    have ho'g := sub _ _ ho'
    have hne : id ≠ o.id := by
      intro e; subst e; rw [hg] at ho'; simp at ho'
    rw [hg]
    have : ¬ (e.1 = keyOrder o.id ∨ e.1 ∈ (orderIndexEntries o).map (·.1)) := by
      rintro (hk | hk)
      · exact index_ne_keyOrder (isOrderIndexKey_of_mem he) _ hk
      · obtain ⟨e2, he2, hk2⟩ := List.mem_map.mp hk
        exact hne (h.live_disjoint ho'g ho he he2 hk2.symm)
    rw [if_neg this]
    exact h.indexed id o' ho'g e he
  · intro k v hk hv
    have hvg := sub _ _ hv
    obtain ⟨id, o', ho', hm⟩ := h.no_dangling k v hk hvg
    refine ⟨id, o', ?_, hm⟩
    rw [hg]
    have : ¬ (keyOrder id = keyOrder o.id ∨ keyOrder id ∈ (orderIndexEntries o).map (·.1)) := by
      rintro (hk2 | hk2)
      · have hid : id = o.id := keyOrder_inj.mp hk2
        subst hid
        rw [ho] at ho'; cases ho'
        rw [hg] at hv
        have : k ∈ (orderIndexEntries o).map (·.1) := List.mem_map.mpr ⟨(k, v), hm, rfl⟩
        simp [this] at hv
      · obtain ⟨e2, he2, hk3⟩ := List.mem_map.mp hk2
        exact index_ne_keyOrder (isOrderIndexKey_of_mem he2) _ hk3
    rw [if_neg this]; exact ho'

/-- `List.lookup`-free "value of key k among the index entries of o" -/
def entryVal (o : Order) (k : Bytes) : Option Val := ((orderIndexEntries o).find? (fun e => e.1 = k)).map (·.2)

theorem entryVal_of_mem {o : Order} {e : Entry} (he : e ∈ orderIndexEntries o) : entryVal o e.1 = some e.2 := by
  unfold entryVal
  cases hf : (orderIndexEntries o).find? (fun x => decide (x.1 = e.1)) with
  | none =>
    have := List.find?_eq_none.mp hf e he
    simp at this
  | some e2 =>
    have h2 := List.mem_of_find?_eq_some hf
    have hk := List.find?_some hf
    simp only [decide_eq_true_eq] at hk
    rw [entry_eq_of_key_eq h2 he hk]; rfl

theorem entryVal_some {o : Order} {k : Bytes} {v : Val} (h : entryVal o k = some v) : (k, v) ∈ orderIndexEntries o := by
  unfold entryVal at h
  cases hf : (orderIndexEntries o).find? (fun x => decide (x.1 = k)) with
  | none => rw [hf] at h; cases h
  | some e2 =>
    rw [hf] at h
    have h2 := List.mem_of_find?_eq_some hf
    have hk := List.find?_some hf
    simp only [decide_eq_true_eq] at hk
    simp only [Option.map_some, Option.some.injEq] at h
    rw [← hk, ← h]; exact h2

theorem entryVal_none {o : Order} {k : Bytes} (h : entryVal o k = none) : k ∉ (orderIndexEntries o).map (·.1) := by
  intro hk
  obtain ⟨e, he, rfl⟩ := List.mem_map.mp hk
  rw [entryVal_of_mem he] at h; cases h

/-- insert a new order record with all its index entries (`setOrderInStore`, create path) -/
theorem OrderInvF.insert {g g' : KV} (h : OrderInvF g) {o : Order} (hnew : g (keyOrder o.id) = none)
    (hext : o.ext ≠ [] → g (idxMarketExternalIDToOrder o.market o.ext) = none)
    (hg : ∀ k, g' k = if k = keyOrder o.id then some (.order o) else
      match entryVal o k with | some v => some v | none => g k) :
    OrderInvF g' := by
  have old_rec : ∀ id o', id ≠ o.id → (g' (keyOrder id) = some (.order o') ↔ g (keyOrder id) = some (.order o')) := by
    intro id o' hne
    rw [hg, if_neg (by simpa using hne)]
    cases hv : entryVal o (keyOrder id) with
    | none => rfl
    | some v => exact absurd rfl (index_ne_keyOrder (isOrderIndexKey_of_mem (entryVal_some hv)) id)
  -- the new index keys are free in g
  have free : ∀ e ∈ orderIndexEntries o, g e.1 = none := by
    intro e he
    cases hv : g e.1 with
    | none => rfl
    | some v =>
      exfalso
      obtain ⟨id, o', ho', hm⟩ := h.no_dangling e.1 v (isOrderIndexKey_of_mem he) hv
      have hid' := h.record_id ho'
      rcases mem_orderIndexEntries.mp he with rfl | rfl | rfl | ⟨hx, rfl⟩
      · rcases mem_orderIndexEntries.mp hm with hh | hh | hh | ⟨_, hh⟩ <;>
          simp [idxMarketToOrder, idxAddressToOrder, idxAssetToOrder, idxMarketExternalIDToOrder] at hh
        have := u32_append_inj hh.1; have := u64Bz_inj this.2
        rw [hid'] at this; subst this; rw [hnew] at ho'; cases ho'
      · rcases mem_orderIndexEntries.mp hm with hh | hh | hh | ⟨_, hh⟩ <;>
          simp [idxMarketToOrder, idxAddressToOrder, idxAssetToOrder, idxMarketExternalIDToOrder] at hh
        have := lengthPrefix_append_inj hh.1; have := u64Bz_inj this.2
        rw [hid'] at this; subst this; rw [hnew] at ho'; cases ho'
      · rcases mem_orderIndexEntries.mp hm with hh | hh | hh | ⟨_, hh⟩ <;>
          simp [idxMarketToOrder, idxAddressToOrder, idxAssetToOrder, idxMarketExternalIDToOrder] at hh
        have := append_u64_inj hh.1
        rw [hid'] at this; have := this.2; subst this; rw [hnew] at ho'; cases ho'
      · rw [hext hx] at hv; cases hv
  refine ⟨?_, ?_, ?_⟩
  · intro r v hv
    rw [hg] at hv
    split at hv
    · next hk =>
      cases hv
      simp only [keyOrder, List.cons.injEq, true_and] at hk
      exact ⟨o.id, o, hk, rfl, rfl⟩
    · cases hev : entryVal o (2 :: r) with
      | some v' => exact absurd (isOrderIndexKey_of_mem (entryVal_some hev)) (by simp [isOrderIndexKey])
      | none => rw [hev] at hv; exact h.order_key r v hv
  · intro id o' ho' e he
    by_cases hid : id = o.id
    · subst hid
      rw [hg, if_pos rfl] at ho'; cases ho'
      rw [hg, if_neg (index_ne_keyOrder (isOrderIndexKey_of_mem he) _), entryVal_of_mem he]
    · have ho'g := (old_rec id o' hid).mp ho'
      rw [hg, if_neg (index_ne_keyOrder (isOrderIndexKey_of_mem he) _)]
      cases hev : entryVal o e.1 with
      | none => exact h.indexed id o' ho'g e he
      | some v' =>
        exfalso
        have := free _ (entryVal_some hev)
        rw [h.indexed id o' ho'g e he] at this; cases this
  · intro k v hk hv
    rw [hg, if_neg (index_ne_keyOrder hk _)] at hv
    cases hev : entryVal o k with
    | some v' =>
      rw [hev] at hv; cases hv
      exact ⟨o.id, o, by rw [hg, if_pos rfl], entryVal_some hev⟩
    | none =>
      rw [hev] at hv
      obtain ⟨id, o', ho', hm⟩ := h.no_dangling k v hk hv
      have hne : id ≠ o.id := by intro e; subst e; rw [hnew] at ho'; cases ho'
      exact ⟨id, o', (old_rec id o' hne).mpr ho', hm⟩

/-- rewrite the value of a live order without touching what is indexed (partial fill) -/
theorem OrderInvF.update {g g' : KV} (h : OrderInvF g) {o o' : Order} (ho : g (keyOrder o.id) = some (.order o))
    (hid : o'.id = o.id) (hent : orderIndexEntries o' = orderIndexEntries o)
    (hg : ∀ k, g' k = if k = keyOrder o.id then some (.order o') else g k) : OrderInvF g' := by
  refine ⟨?_, ?_, ?_⟩
  · intro r v hv
    rw [hg] at hv
    split at hv
    · next hk =>
      cases hv
      simp only [keyOrder, List.cons.injEq, true_and] at hk
      exact ⟨o.id, o', hk, rfl, hid⟩
    · exact h.order_key r v hv
  · intro id o2 ho2 e he
    rw [hg, if_neg (index_ne_keyOrder (isOrderIndexKey_of_mem he) _)]
    rw [hg] at ho2
    split at ho2
    · next hk =>
      cases ho2
      rw [hent] at he
      exact h.indexed o.id o ho e he
    · exact h.indexed id o2 ho2 e he
  · intro k v hk hv
    rw [hg, if_neg (index_ne_keyOrder hk _)] at hv
    obtain ⟨id, o2, ho2, hm⟩ := h.no_dangling k v hk hv
    by_cases hi : id = o.id
    · subst hi
      rw [ho] at ho2; cases ho2
      exact ⟨o.id, o', by rw [hg, if_pos rfl], by rw [hent]; exact hm⟩
    · exact ⟨id, o2, by rw [hg, if_neg (by simpa using hi)]; exact ho2, hm⟩


/-- change the external id of a live order (`SetOrderExternalID`) -/
theorem OrderInvF.reext {g g' : KV} (h : OrderInvF g) {o : Order} {x : Bytes}
    (ho : g (keyOrder o.id) = some (.order o)) (hx : x ≠ o.ext)
    (hfree : x ≠ [] → g (idxMarketExternalIDToOrder o.market x) = none)
    (hg : ∀ k, g' k = if k = keyOrder o.id then some (.order { o with ext := x })
      else if o.ext ≠ [] ∧ k = idxMarketExternalIDToOrder o.market o.ext then none
      else if x ≠ [] ∧ k = idxMarketExternalIDToOrder o.market x then some (.u64 o.id) else g k) :
    OrderInvF g' := by
  have hkey_ne : idxMarketExternalIDToOrder o.market x ≠ idxMarketExternalIDToOrder o.market o.ext := by
    simp [hx]
  refine ⟨?_, ?_, ?_⟩
  · intro r v hv
    rw [hg] at hv
    split at hv
    · next hk =>
      cases hv
      simp only [keyOrder, List.cons.injEq, true_and] at hk
      exact ⟨o.id, _, hk, rfl, rfl⟩
    · rw [if_neg (by simp [idxMarketExternalIDToOrder]), if_neg (by simp [idxMarketExternalIDToOrder])] at hv
      exact h.order_key r v hv
  · intro id o2 ho2 e he
    rw [hg] at ho2
    by_cases hid : id = o.id
    · subst hid
      rw [if_pos rfl] at ho2; cases ho2
      rw [hg, if_neg (index_ne_keyOrder (isOrderIndexKey_of_mem he) _)]
      rcases mem_orderIndexEntries.mp he with rfl | rfl | rfl | ⟨hx', rfl⟩
      · rw [if_neg (by simp [idxMarketToOrder, idxMarketExternalIDToOrder]), if_neg (by simp [idxMarketToOrder, idxMarketExternalIDToOrder])]
        exact h.indexed o.id o ho _ (mem_orderIndexEntries.mpr (Or.inl rfl))
      · rw [if_neg (by simp [idxAddressToOrder, idxMarketExternalIDToOrder]), if_neg (by simp [idxAddressToOrder, idxMarketExternalIDToOrder])]
        exact h.indexed o.id o ho _ (mem_orderIndexEntries.mpr (Or.inr (Or.inl rfl)))
      · rw [if_neg (by simp [idxAssetToOrder, idxMarketExternalIDToOrder]), if_neg (by simp [idxAssetToOrder, idxMarketExternalIDToOrder])]
        exact h.indexed o.id o ho _ (mem_orderIndexEntries.mpr (Or.inr (Or.inr (Or.inl rfl))))
      · simp only at hx'
        rw [if_neg (fun hh => hkey_ne hh.2), if_pos ⟨hx', rfl⟩]
    · rw [if_neg (by simpa using hid), if_neg (by simp [keyOrder, idxMarketExternalIDToOrder]),
        if_neg (by simp [keyOrder, idxMarketExternalIDToOrder])] at ho2
      rw [hg, if_neg (index_ne_keyOrder (isOrderIndexKey_of_mem he) _)]
      have hv := h.indexed id o2 ho2 e he
      split
      · next hk =>
        exfalso
        exact hid (h.live_disjoint ho2 ho he (mem_orderIndexEntries.mpr (Or.inr (Or.inr (Or.inr ⟨hk.1, rfl⟩)))) hk.2)
      · split
        · next hk => rw [hk.2, hfree hk.1] at hv; cases hv
        · exact hv
  · intro k v hk hv
    rw [hg, if_neg (index_ne_keyOrder hk _)] at hv
    split at hv
    · cases hv
    · next hnold =>
      split at hv
      · next hk2 =>
        cases hv
        exact ⟨o.id, _, by rw [hg, if_pos rfl], mem_orderIndexEntries.mpr (Or.inr (Or.inr (Or.inr ⟨hk2.1, by rw [hk2.2]⟩)))⟩
      · obtain ⟨id, o2, ho2, hm⟩ := h.no_dangling k v hk hv
        by_cases hid : id = o.id
        · subst hid
          rw [ho] at ho2; cases ho2
          refine ⟨o.id, _, by rw [hg, if_pos rfl], ?_⟩
          rcases mem_orderIndexEntries.mp hm with hh | hh | hh | ⟨hx', hh⟩
          · exact mem_orderIndexEntries.mpr (Or.inl hh)
          · exact mem_orderIndexEntries.mpr (Or.inr (Or.inl hh))
          · exact mem_orderIndexEntries.mpr (Or.inr (Or.inr (Or.inl hh)))
          · exfalso; cases hh; exact hnold ⟨hx', rfl⟩
        · refine ⟨id, o2, ?_, hm⟩
          rw [hg, if_neg (by simpa using hid), if_neg (by simp [keyOrder, idxMarketExternalIDToOrder]),
            if_neg (by simp [keyOrder, idxMarketExternalIDToOrder])]
          exact ho2

/-! ### payment changes -/

theorem PayInvF.record_key {g : KV} (h : PayInvF g) {s e : Bytes} {p : Payment}
    (hp : g (keyPayment s e) = some (.payment p)) : p.source = s ∧ p.ext = e := by
  obtain ⟨p', hv, hk⟩ := h.pay_key _ _ hp
  cases hv
  have := keyPayment_inj.mp hk
  exact ⟨this.1.symm, this.2.symm⟩

/-- write payment `p` (new, same target, or new target) — `setPaymentInStore` -/
theorem PayInvF.setPayment {g g' : KV} (h : PayInvF g) {p : Payment} (old : Option Payment)
    (hold : g (keyPayment p.source p.ext) = old.map Val.payment)
    (hg : ∀ k, g' k = if k = keyPayment p.source p.ext then some (.payment p)
      else if k ∈ (paymentIndexEntries p).map (·.1) then some .empty
      else if (∃ q, old = some q ∧ k ∈ (paymentIndexEntries q).map (·.1)) then none else g k) :
    PayInvF g' := by
  have oldkey : ∀ q, old = some q → q.source = p.source ∧ q.ext = p.ext := by
    intro q hq; subst hq; exact h.record_key hold
  refine ⟨?_, ?_, ?_⟩
  · intro r v hv
    rw [hg] at hv
    split at hv
    · next hk => cases hv; exact ⟨p, rfl, hk⟩
    · rw [if_neg, if_neg] at hv
      · exact h.pay_key r v hv
      · rintro ⟨q, _, hq⟩
        obtain ⟨e, he, hk⟩ := List.mem_map.mp hq
        obtain ⟨_, rfl⟩ := mem_paymentIndexEntries.mp he
        simp [idxTargetToPayment] at hk
      · intro hq
        obtain ⟨e, he, hk⟩ := List.mem_map.mp hq
        obtain ⟨_, rfl⟩ := mem_paymentIndexEntries.mp he
        simp [idxTargetToPayment] at hk
  · intro q hq e he
    obtain ⟨hqt, rfl⟩ := mem_paymentIndexEntries.mp he
    rw [hg] at hq
    rw [hg, if_neg (by simp [idxTargetToPayment, keyPayment])]
    split at hq
    · next hk =>
      cases hq
      rw [if_pos (List.mem_map.mpr ⟨_, he, rfl⟩)]
    · next hk =>
      rw [if_neg, if_neg] at hq
      · have hv := h.pay_indexed q hq _ he
        split
        · rfl
        · rw [if_neg]
          · exact hv
          · rintro ⟨q2, hq2, hmem⟩
            obtain ⟨e2, he2, hk2⟩ := List.mem_map.mp hmem
            obtain ⟨_, rfl⟩ := mem_paymentIndexEntries.mp he2
            have := idxTargetToPayment_inj.mp hk2
            have ok := oldkey q2 hq2
            exact hk (by rw [← this.2.1, ← this.2.2, ok.1, ok.2])
      · rintro ⟨q2, _, hmem⟩
        obtain ⟨e2, he2, hk2⟩ := List.mem_map.mp hmem
        obtain ⟨_, rfl⟩ := mem_paymentIndexEntries.mp he2
        simp [idxTargetToPayment, keyPayment] at hk2
      · intro hmem
        obtain ⟨e2, he2, hk2⟩ := List.mem_map.mp hmem
        obtain ⟨_, rfl⟩ := mem_paymentIndexEntries.mp he2
        simp [idxTargetToPayment, keyPayment] at hk2
  · intro r v hv
    rw [hg, if_neg (by simp [keyPayment])] at hv
    split at hv
    · next hk =>
      cases hv
      obtain ⟨e, he, hk2⟩ := List.mem_map.mp hk
      obtain ⟨ht, rfl⟩ := mem_paymentIndexEntries.mp he
      exact ⟨p, by rw [hg, if_pos rfl], by rw [← hk2]; exact he⟩
    · next hnp =>
      split at hv
      · cases hv
      · next hnold =>
        obtain ⟨q, hq, hm⟩ := h.pay_no_dangling r v hv
        refine ⟨q, ?_, hm⟩
        by_cases hk : keyPayment q.source q.ext = keyPayment p.source p.ext
        · exfalso
          rw [hk, hold] at hq
          cases old with
          | none => cases hq
          | some q2 =>
            simp only [Option.map_some, Option.some.injEq, Val.payment.injEq] at hq
            subst hq
            exact hnold ⟨q2, rfl, List.mem_map.mpr ⟨_, hm, rfl⟩⟩
        · rw [hg, if_neg hk, if_neg, if_neg]
          · exact hq
          · rintro ⟨q2, _, hmem⟩
            obtain ⟨e2, he2, hk2⟩ := List.mem_map.mp hmem
            obtain ⟨_, rfl⟩ := mem_paymentIndexEntries.mp he2
            simp [idxTargetToPayment, keyPayment] at hk2
          · intro hmem
            obtain ⟨e2, he2, hk2⟩ := List.mem_map.mp hmem
            obtain ⟨_, rfl⟩ := mem_paymentIndexEntries.mp he2
            simp [idxTargetToPayment, keyPayment] at hk2

/-- delete payment `p` and its target entry; `p` need not be stored any more (then nothing changes) -/
theorem PayInvF.deletePayment {g g' : KV} (h : PayInvF g) {p : Payment}
    (hp : g (keyPayment p.source p.ext) = some (.payment p) ∨ g (keyPayment p.source p.ext) = none)
    (hg : ∀ k, g' k = if k = keyPayment p.source p.ext ∨ k ∈ (paymentIndexEntries p).map (·.1) then none else g k) :
    PayInvF g' := by
  have sub : ∀ k v, g' k = some v → g k = some v := by
    intro k v hv; rw [hg] at hv; split at hv
    · cases hv
    · exact hv
  refine ⟨fun r v hv => h.pay_key r v (sub _ _ hv), ?_, ?_⟩
  · intro q hq e he
    have hqg := sub _ _ hq
    obtain ⟨_, rfl⟩ := mem_paymentIndexEntries.mp he
    have hne : keyPayment q.source q.ext ≠ keyPayment p.source p.ext := by
      intro hk; rw [hg, hk] at hq; simp at hq
    rw [hg, if_neg]
    · exact h.pay_indexed q hqg _ he
    · rintro (hk | hk)
      · simp [idxTargetToPayment, keyPayment] at hk
      · obtain ⟨e2, he2, hk2⟩ := List.mem_map.mp hk
        obtain ⟨_, rfl⟩ := mem_paymentIndexEntries.mp he2
        have := idxTargetToPayment_inj.mp hk2
        exact hne (by rw [this.2.1, this.2.2])
  · intro r v hv
    have hvg := sub _ _ hv
    obtain ⟨q, hq, hm⟩ := h.pay_no_dangling r v hvg
    refine ⟨q, ?_, hm⟩
    rw [hg, if_neg]
    · exact hq
    · rintro (hk | hk)
      · rw [hk] at hq
        rcases hp with hp | hp
        · rw [hp] at hq; cases hq
          rw [hg] at hv
          simp [List.mem_map.mpr ⟨_, hm, rfl⟩] at hv
        · rw [hp] at hq; cases hq
      · obtain ⟨e2, he2, hk2⟩ := List.mem_map.mp hk
        obtain ⟨_, rfl⟩ := mem_paymentIndexEntries.mp he2
        simp [idxTargetToPayment, keyPayment] at hk2

end PvProofs.Exrec
