/-
Helper lemmas for C15: the association-list store of `PvModel.Name.KV`.
-/
import PvModel.NameSpec

namespace PvModel.Name.KV
variable {κ ν : Type} [DecidableEq κ]

def Keys (m : List (κ × ν)) : List κ := m.map (·.1)

@[simp] theorem get_nil (k : κ) : get ([] : List (κ × ν)) k = none := rfl

theorem get_cons (k' : κ) (v : ν) (m : List (κ × ν)) (k : κ) :
    get ((k', v) :: m) k = if k' = k then some v else get m k := rfl

theorem get_del_self (m : List (κ × ν)) (k : κ) : get (del m k) k = none := by
  induction m with
  | nil => rfl
  | cons e m ih =>
    obtain ⟨k', v⟩ := e
    by_cases h : k' = k
    · simp [del, List.filter, h] at ih ⊢; exact ih
    · simp [del, List.filter, h, get_cons] at ih ⊢; exact ih

theorem get_del_ne (m : List (κ × ν)) {k k' : κ} (h : k' ≠ k) : get (del m k) k' = get m k' := by
  induction m with
  | nil => rfl
  | cons e m ih =>
    obtain ⟨k₀, v⟩ := e
    by_cases h0 : k₀ = k
    · subst h0
      have : ¬ k₀ = k' := fun e => h e.symm
      simp [del, List.filter, get_cons, this] at ih ⊢; exact ih
    · simp [del, List.filter, h0, get_cons] at ih ⊢
      rw [ih]

theorem get_set_self (m : List (κ × ν)) (k : κ) (v : ν) : get (set m k v) k = some v := by
  simp [set, get_cons]

theorem get_set_ne (m : List (κ × ν)) {k k' : κ} (v : ν) (h : k' ≠ k) :
    get (set m k v) k' = get m k' := by
  have : ¬ k = k' := fun e => h e.symm
  simp [set, get_cons, this, get_del_ne m h]

theorem get_eq_none_iff (m : List (κ × ν)) (k : κ) : get m k = none ↔ k ∉ Keys m := by
  induction m with
  | nil => simp [Keys]
  | cons e m ih =>
    obtain ⟨k', v⟩ := e
    by_cases h : k' = k
    · simp [get_cons, h, Keys]
    · have h' : ¬ k = k' := fun e => h e.symm
      simp [get_cons, h, Keys, h'] at ih ⊢; exact ih

theorem has_eq_false_iff (m : List (κ × ν)) (k : κ) : has m k = false ↔ get m k = none := by
  simp [has]

theorem mem_iff_get {m : List (κ × ν)} (hn : (Keys m).Nodup) (k : κ) (v : ν) :
    (k, v) ∈ m ↔ get m k = some v := by
  induction m with
  | nil => simp
  | cons e m ih =>
    obtain ⟨k', v'⟩ := e
    have hn' : (Keys m).Nodup := (List.nodup_cons.mp hn).2
    have hk' : k' ∉ Keys m := (List.nodup_cons.mp hn).1
    by_cases h : k' = k
    · subst h
      simp only [List.mem_cons, Prod.mk.injEq, true_and, get_cons, if_true, Option.some.injEq]
      constructor
      · rintro (h | h)
        · exact h.symm
        · exact absurd (List.mem_map.mpr ⟨(k', v), h, rfl⟩) hk'
      · intro h; exact Or.inl h.symm
    · have h' : ¬ k = k' := fun e => h e.symm
      simp [get_cons, h, h', ih hn']

theorem keys_del_sublist (m : List (κ × ν)) (k : κ) : (Keys (del m k)).Sublist (Keys m) := by
  unfold Keys del
  exact (List.filter_sublist).map _

theorem keys_del_nodup {m : List (κ × ν)} (hn : (Keys m).Nodup) (k : κ) : (Keys (del m k)).Nodup :=
  hn.sublist (keys_del_sublist m k)

theorem not_mem_keys_del (m : List (κ × ν)) (k : κ) : k ∉ Keys (del m k) :=
  (get_eq_none_iff _ _).mp (get_del_self m k)

theorem keys_set_nodup {m : List (κ × ν)} (hn : (Keys m).Nodup) (k : κ) (v : ν) :
    (Keys (set m k v)).Nodup := by
  unfold set
  exact List.nodup_cons.mpr ⟨not_mem_keys_del m k, keys_del_nodup hn k⟩

end PvModel.Name.KV
