/-
Helper lemmas for C02 (coins in merge-normal form, hold ledger, release loop).
-/
import PvModel.Exhold
import Mathlib.Tactic.SplitIfs

namespace PvProofs.Exhold
open PvModel PvModel.Exhold

/-- every entry is non-negative -/
def EntriesNonneg (cs : Coins) : Prop := ∀ c ∈ cs, 0 ≤ c.2

theorem amountOf_nonneg {cs : Coins} (h : EntriesNonneg cs) (d : Denom) : 0 ≤ Coins.amountOf cs d := by
  induction cs with
  | nil => simp
  | cons c t ih =>
    obtain ⟨d', x⟩ := c
    have hx : 0 ≤ x := h (d', x) (by simp)
    have := ih (fun c hc => h c (by simp [hc]))
    simp only [Coins.amountOf_cons]
    split <;> omega

theorem entry_le_amountOf {cs : Coins} (h : EntriesNonneg cs) {c : Coin} (hc : c ∈ cs) :
    c.2 ≤ Coins.amountOf cs c.1 := by
  induction cs with
  | nil => simp at hc
  | cons c' t ih =>
    obtain ⟨d', x⟩ := c'
    have hx : 0 ≤ x := h (d', x) (by simp)
    have ht : EntriesNonneg t := fun c hc => h c (by simp [hc])
    simp only [Coins.amountOf_cons]
    rcases List.mem_cons.mp hc with rfl | hc'
    · have := amountOf_nonneg ht d'
      simp; omega
    · have := ih ht hc'
      split <;> omega

theorem amountOf_addCoin (c : Coin) (l : Coins) (d : Denom) :
    Coins.amountOf (addCoin c l) d = (if c.1 = d then c.2 else 0) + Coins.amountOf l d := by
  obtain ⟨cd, cx⟩ := c
  induction l with
  | nil => simp [addCoin]
  | cons h t ih =>
    obtain ⟨d', x⟩ := h
    simp only [addCoin]
    split
    · rename_i heq
      subst heq
      simp only [Coins.amountOf_cons]
      split <;> omega
    · simp only [Coins.amountOf_cons, ih]
      omega

theorem denoms_addCoin_mem (c : Coin) (l : Coins) (d : Denom) :
    d ∈ Coins.denoms (addCoin c l) ↔ d = c.1 ∨ d ∈ Coins.denoms l := by
  induction l with
  | nil => simp [addCoin, Coins.denoms]
  | cons h t ih =>
    obtain ⟨d', x⟩ := h
    simp only [addCoin]
    split
    · rename_i heq
      simp [Coins.denoms, ← heq]
    · simp only [Coins.denoms, List.map_cons, List.mem_cons] at ih ⊢
      rw [ih]
      constructor
      · rintro (h | h | h) <;> simp [h]
      · rintro (h | h | h) <;> simp [h]

theorem nodup_addCoin (c : Coin) (l : Coins) (h : nodupDenoms l = true) : nodupDenoms (addCoin c l) = true := by
  induction l with
  | nil => simp [addCoin, nodupDenoms, Coins.denoms]
  | cons hd t ih =>
    obtain ⟨d', x⟩ := hd
    simp only [nodupDenoms, Bool.and_eq_true, Bool.not_eq_true', List.contains_eq_mem,
      decide_eq_false_iff_not] at h
    simp only [addCoin]
    split
    · simp only [nodupDenoms, Bool.and_eq_true, Bool.not_eq_true', List.contains_eq_mem,
        decide_eq_false_iff_not]
      exact h
    · rename_i hne
      simp only [nodupDenoms, Bool.and_eq_true, Bool.not_eq_true', List.contains_eq_mem,
        decide_eq_false_iff_not]
      refine ⟨?_, ih h.2⟩
      rw [denoms_addCoin_mem]
      rintro (h' | h')
      · exact hne h'
      · exact h.1 h'

theorem entriesNonneg_addCoin {c : Coin} {l : Coins} (hc : 0 ≤ c.2) (hl : EntriesNonneg l) :
    EntriesNonneg (addCoin c l) := by
  induction l with
  | nil => intro x hx; simp [addCoin] at hx; subst hx; exact hc
  | cons hd t ih =>
    obtain ⟨d', x⟩ := hd
    have hx : 0 ≤ x := hl (d', x) (by simp)
    have ht : EntriesNonneg t := fun c hc => hl c (by simp [hc])
    simp only [addCoin]
    split
    · intro y hy
      rcases List.mem_cons.mp hy with rfl | hy'
      · simp; omega
      · exact ht y hy'
    · intro y hy
      rcases List.mem_cons.mp hy with rfl | hy'
      · exact hx
      · exact ih ht y hy'

/-- in a list without duplicate denoms an entry is the whole amount of its denom -/
theorem amountOf_of_mem_nodup {l : Coins} (h : nodupDenoms l = true) {c : Coin} (hc : c ∈ l) :
    Coins.amountOf l c.1 = c.2 := by
  induction l with
  | nil => simp at hc
  | cons hd t ih =>
    obtain ⟨d', x⟩ := hd
    simp only [nodupDenoms, Bool.and_eq_true, Bool.not_eq_true', List.contains_eq_mem,
      decide_eq_false_iff_not] at h
    have hnot : ∀ {e : Denom}, e ∉ Coins.denoms t → Coins.amountOf t e = 0 := by
      intro e he
      clear ih hc h
      induction t with
      | nil => simp
      | cons h2 t2 ih2 =>
        obtain ⟨d2, x2⟩ := h2
        simp only [Coins.denoms, List.map_cons, List.mem_cons, not_or] at he
        simp only [Coins.amountOf_cons]
        rw [ih2 (by simpa [Coins.denoms] using he.2)]
        have : d2 ≠ e := fun h => he.1 h.symm
        simp [this]
    simp only [Coins.amountOf_cons]
    rcases List.mem_cons.mp hc with rfl | hc'
    · simp [hnot h.1]
    · have hd : d' ≠ c.1 := by
        intro heq
        apply h.1
        rw [heq]
        exact List.mem_map_of_mem (f := (·.1)) hc'
      simp [hd, ih h.2 hc']

theorem amountOf_eq_zero_of_not_mem {l : Coins} {e : Denom} (he : e ∉ Coins.denoms l) :
    Coins.amountOf l e = 0 := by
  induction l with
  | nil => simp
  | cons h2 t2 ih2 =>
    obtain ⟨d2, x2⟩ := h2
    simp only [Coins.denoms, List.map_cons, List.mem_cons, not_or] at he
    simp only [Coins.amountOf_cons]
    rw [ih2 (by simpa [Coins.denoms] using he.2)]
    have : d2 ≠ e := fun h => he.1 h.symm
    simp [this]

/-- per-coin bound ⇒ per-denom bound, when denoms are not repeated -/
theorem amountOf_le_of_nodup {l : Coins} (h : nodupDenoms l = true) (B : Denom → Int)
    (hb : ∀ c ∈ l, c.2 ≤ B c.1) (d : Denom) (hd : 0 ≤ B d) : Coins.amountOf l d ≤ B d := by
  by_cases hm : d ∈ Coins.denoms l
  · simp only [Coins.denoms, List.mem_map] at hm
    obtain ⟨c, hc, rfl⟩ := hm
    rw [amountOf_of_mem_nodup h hc]
    exact hb c hc
  · rw [amountOf_eq_zero_of_not_mem hm]; exact hd

theorem allZero_amountOf {l : Coins} (h : allZero l = true) (d : Denom) : Coins.amountOf l d = 0 := by
  induction l with
  | nil => simp
  | cons hd t ih =>
    obtain ⟨d', x⟩ := hd
    simp only [allZero, List.all_cons, Bool.and_eq_true, decide_eq_true_eq] at h
    simp only [Coins.amountOf_cons]
    have := ih (by simpa [allZero] using h.2)
    rw [this, h.1]; simp

theorem anyNegative_false {l : Coins} (h : anyNegative l = false) : EntriesNonneg l := by
  intro c hc
  simp only [anyNegative, List.any_eq_false, decide_eq_true_eq] at h
  have := h c hc
  omega

/-! ### `norm` -/

theorem amountOf_foldl_addCoin (cs acc : Coins) (d : Denom) :
    Coins.amountOf (cs.foldl (fun acc c => addCoin c acc) acc) d = Coins.amountOf acc d + Coins.amountOf cs d := by
  induction cs generalizing acc with
  | nil => simp
  | cons c t ih =>
    obtain ⟨d', x⟩ := c
    simp only [List.foldl_cons, ih, amountOf_addCoin, Coins.amountOf_cons]
    omega

theorem nodup_foldl_addCoin (cs acc : Coins) (h : nodupDenoms acc = true) :
    nodupDenoms (cs.foldl (fun acc c => addCoin c acc) acc) = true := by
  induction cs generalizing acc with
  | nil => simpa
  | cons c t ih => exact ih _ (nodup_addCoin c acc h)

theorem amountOf_filter_ne_zero (l : Coins) (d : Denom) :
    Coins.amountOf (l.filter fun c => c.2 ≠ 0) d = Coins.amountOf l d := by
  induction l with
  | nil => simp
  | cons c t ih =>
    obtain ⟨d', x⟩ := c
    rw [List.filter_cons]
    split
    · simp only [Coins.amountOf_cons, ih]
    · rename_i h
      have hx : x = 0 := by simpa using h
      simp only [Coins.amountOf_cons, ih, hx]
      simp

theorem nodup_filter (l : Coins) (p : Coin → Bool) (h : nodupDenoms l = true) : nodupDenoms (l.filter p) = true := by
  induction l with
  | nil => simp [nodupDenoms]
  | cons c t ih =>
    obtain ⟨d', x⟩ := c
    simp only [nodupDenoms, Bool.and_eq_true, Bool.not_eq_true', List.contains_eq_mem,
      decide_eq_false_iff_not] at h
    simp only [List.filter_cons]
    split
    · simp only [nodupDenoms, Bool.and_eq_true, Bool.not_eq_true', List.contains_eq_mem,
        decide_eq_false_iff_not]
      refine ⟨?_, ih h.2⟩
      intro hm
      apply h.1
      simp only [Coins.denoms, List.mem_map] at hm ⊢
      obtain ⟨c, hc, hc1⟩ := hm
      exact ⟨c, (List.mem_filter.mp hc).1, hc1⟩
    · exact ih h.2

@[simp] theorem amountOf_norm (cs : Coins) (d : Denom) : Coins.amountOf (norm cs) d = Coins.amountOf cs d := by
  unfold norm
  rw [amountOf_filter_ne_zero, amountOf_foldl_addCoin]
  simp

theorem nodup_norm (cs : Coins) : nodupDenoms (norm cs) = true :=
  nodup_filter _ _ (nodup_foldl_addCoin cs [] (by simp [nodupDenoms]))

/-- an entry of a normal form is the total of its denom in the original list -/
theorem entry_norm {cs : Coins} {c : Coin} (hc : c ∈ norm cs) : c.2 = Coins.amountOf cs c.1 := by
  rw [← amountOf_norm cs c.1, amountOf_of_mem_nodup (nodup_norm cs) hc]

theorem entriesNonneg_norm {cs : Coins} (h : EntriesNonneg cs) : EntriesNonneg (norm cs) := by
  intro c hc
  rw [entry_norm hc]
  exact amountOf_nonneg h c.1

theorem entriesNonneg_append {a b : Coins} (ha : EntriesNonneg a) (hb : EntriesNonneg b) : EntriesNonneg (a ++ b) := by
  intro c hc
  rcases List.mem_append.mp hc with h | h
  · exact ha c h
  · exact hb c h

/-- `isValidCoins` gives the two facts the hold keeper needs -/
theorem isValidCoins_nodup {cs : Coins} (h : isValidCoins cs = true) : nodupDenoms cs = true := by
  simp only [isValidCoins, Bool.and_eq_true] at h
  exact h.1.2

theorem isValidCoins_nonneg {cs : Coins} (h : isValidCoins cs = true) : EntriesNonneg cs := by
  simp only [isValidCoins, Bool.and_eq_true, List.all_eq_true, decide_eq_true_eq] at h
  intro c hc
  have := h.1.1 c hc
  omega

/-! ### hold ledger -/

theorem bal_hold_entries (h : Ledger) (a b : Addr) (funds : Coins) (e : Denom) :
    Ledger.bal (h ++ Ledger.entries a funds) b e = Ledger.bal h b e + (if a = b then Coins.amountOf funds e else 0) := by
  simp

/-- what a completed release loop did -/
theorem releaseLoop_ok (h : Ledger) (a : Addr) (funds : Coins) (hok : (releaseLoop h a funds).2 = true)
    (b : Addr) (e : Denom) :
    Ledger.bal (releaseLoop h a funds).1 b e = Ledger.bal h b e - (if a = b then Coins.amountOf funds e else 0) := by
  induction funds generalizing h with
  | nil => simp [releaseLoop]
  | cons c t ih =>
    obtain ⟨d, x⟩ := c
    simp only [releaseLoop] at hok ⊢
    split at hok
    · rename_i hx
      simp only [hx, ↓reduceIte]
      rw [ih h hok]
      simp only [Coins.amountOf_cons]
      by_cases hab : a = b <;> by_cases hde : d = e <;> simp [hab, hde, hx]
    · rename_i hx
      simp only [hx, ↓reduceIte]
      split at hok
      · simp at hok
      · rename_i hneg
        simp only [hneg, ↓reduceIte]
        rw [ih _ hok]
        simp only [Ledger.bal_append, Ledger.bal, Coins.amountOf_cons]
        by_cases hab : a = b <;> by_cases hde : d = e <;> simp [hab, hde] <;> omega

/-- the release loop cannot fail when the hold covers the (non-negative) funds -/
theorem releaseLoop_never_fails (h : Ledger) (a : Addr) (funds : Coins) (hn : EntriesNonneg funds)
    (hc : ∀ e, Coins.amountOf funds e ≤ Ledger.bal h a e) : (releaseLoop h a funds).2 = true := by
  induction funds generalizing h with
  | nil => simp [releaseLoop]
  | cons c t ih =>
    obtain ⟨d, x⟩ := c
    have hx : 0 ≤ x := hn (d, x) (by simp)
    have ht : EntriesNonneg t := fun c hc => hn c (by simp [hc])
    simp only [releaseLoop]
    split
    · apply ih h ht
      intro e
      have := hc e
      simp only [Coins.amountOf_cons] at this
      split at this <;> omega
    · have hd := hc d
      simp only [Coins.amountOf_cons, ↓reduceIte] at hd
      have hnn := amountOf_nonneg ht d
      have : ¬ (Ledger.bal h a d - x < 0) := by omega
      simp only [this, ↓reduceIte]
      apply ih _ ht
      intro e
      have he := hc e
      simp only [Coins.amountOf_cons] at he
      simp only [Ledger.bal_append, Ledger.bal]
      by_cases hde : d = e <;> simp [hde] at he ⊢ <;> omega

end PvProofs.Exhold
