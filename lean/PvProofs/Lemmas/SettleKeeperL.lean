/-
Helper lemmas for C01, keeper level: the order store invariant through `close`, `getOrders`,
canonical coins, and the ledger effect of `FillBids` / `FillAsks`.
-/
import PvProofs.Lemmas.SettleComplete
import PvModel.SettleAppSpec

namespace PvProofs.Settle
open PvModel PvModel.Settle PvModel.Coins PvModel.Ledger

theorem getOrders_mem {s : KState} {want : Bool} {ids : List Nat} {other : Addr} {os : List Order}
    (h : s.getOrders want ids other = .ok os) :
    ∀ o ∈ os, o ∈ s.orders ∧ o.isAsk = want ∧ o.owner ≠ other := by
  unfold KState.getOrders at h
  induction ids generalizing os with
  | nil =>
    simp only [List.mapM_nil, pure, Except.pure, Except.ok.injEq] at h
    subst h; intro o ho; simp at ho
  | cons id rest ih =>
    simp only [List.mapM_cons, bind, Except.bind, pure, Except.pure] at h
    split at h; · simp at h
    rename_i o ho
    split at h; · simp at h
    rename_i os' hos'
    simp only [Except.ok.injEq] at h; subst h
    intro o' ho'
    simp only [List.mem_cons] at ho'
    rcases ho' with rfl | ho'
    · split at ho; · simp at ho
      rename_i o'' hfind
      split at ho; · simp at ho
      rename_i hc
      simp only [Except.ok.injEq] at ho; subst ho
      simp only [ne_eq, not_or, Decidable.not_not] at hc
      exact ⟨List.mem_of_find?_eq_some hfind, hc.1, hc.2⟩
    · exact ih hos' o' ho'


theorem amountOf_insertCanon (d : Denom) (x : Int) (l : Coins) (d' : Denom) :
    amountOf (insertCanon d x l) d' = (if d = d' then x else 0) + amountOf l d' := by
  induction l with
  | nil => simp [insertCanon]
  | cons h t ih =>
    obtain ⟨d0, y⟩ := h
    simp only [insertCanon]
    by_cases h1 : d = d0
    · subst h1
      simp only [if_true, amountOf_cons]
      split <;> omega
    · simp only [h1, if_false]
      by_cases h2 : d < d0
      · simp only [h2, if_true, amountOf_cons]
      · simp only [h2, if_false, amountOf_cons, ih]
        omega

theorem amountOf_foldl_insertCanon (a acc : Coins) (d' : Denom) :
    amountOf (a.foldl (fun acc (p : Denom × Int) => insertCanon p.1 p.2 acc) acc) d' = amountOf acc d' + amountOf a d' := by
  induction a generalizing acc with
  | nil => simp
  | cons h t ih =>
    obtain ⟨d0, y⟩ := h
    simp only [List.foldl_cons, ih, amountOf_insertCanon, amountOf_cons]
    omega

/-- canonicalising (sort, merge, drop zeros) does not change any denom's amount -/
theorem amountOf_canon (a : Coins) (d : Denom) : amountOf (canon a) d = amountOf a d := by
  unfold canon
  have h := amountOf_dropZero (a.foldl (fun acc (p : Denom × Int) => insertCanon p.1 p.2 acc) []) d
  unfold dropZero at h
  rw [amountOf_foldl_insertCanon] at h
  simpa using h



theorem bal_credits_foldl_orders (f : Order → Addr) (g : Order → Coins) (os : List Order) (acc : Indexed)
    (x : Addr) (d : Denom) :
    bal (os.foldl (fun idx o => idx.add (f o) (g o)) acc).credits x d =
      bal acc.credits x d + (os.map fun o => if f o = x then amountOf (g o) d else 0).sum := by
  induction os generalizing acc with
  | nil => simp
  | cons o rest ih => simp only [List.foldl_cons, ih, bal_credits_add, List.map_cons, List.sum_cons]; omega

theorem total_foldl_orders (f : Order → Addr) (g : Order → Coins) (os : List Order) (acc : Indexed) (d : Denom) :
    amountOf (os.foldl (fun idx o => idx.add (f o) (g o)) acc).total d =
      amountOf acc.total d + (os.map fun o => amountOf (g o) d).sum := by
  induction os generalizing acc with
  | nil => simp
  | cons o rest ih => simp only [List.foldl_cons, ih, total_add, List.map_cons, List.sum_cons]; omega

theorem amountOf_flatten (cs : List Coins) (d : Denom) : amountOf cs.flatten d = (cs.map fun c => amountOf c d).sum := by
  induction cs with
  | nil => simp
  | cons c rest ih => simp [ih]

theorem amountOf_sumCoins (cs : List Coins) (d : Denom) : amountOf (sumCoins cs) d = (cs.map fun c => amountOf c d).sum := by
  unfold sumCoins; rw [amountOf_canon, amountOf_flatten]

theorem sum_map_sub {α : Type} (l : List α) (f g : α → Int) :
    (l.map fun a => f a - g a).sum = (l.map f).sum - (l.map g).sum := by
  induction l with
  | nil => simp
  | cons a t ih => simp only [List.map_cons, List.sum_cons, ih]; omega

theorem sum_map_add {α : Type} (l : List α) (f g : α → Int) :
    (l.map fun a => f a + g a).sum = (l.map f).sum + (l.map g).sum := by
  induction l with
  | nil => simp
  | cons a t ih => simp only [List.map_cons, List.sum_cons, ih]; omega



/-- ledger entries of `closeSettlement`, unfolded -/
theorem closeSettlement_unfold {m c : Addr} {split : Denom → Nat} {st : Settlement} {L : Ledger}
    (h : closeSettlement m c split st = .ok L) :
    ∃ ex, exchangeSplit split st.feeInputs.total = .ok ex ∧
      L = st.transfers.flatMap Transfer.ledger ++ (st.feeInputs.debits ++ Ledger.entries m st.feeInputs.total
          ++ Ledger.entries m (Coins.neg ex) ++ Ledger.entries c ex) := by
  unfold closeSettlement collectFees at h
  split at h; · simp at h
  rename_i fl hfl
  split at hfl; · simp at hfl
  rename_i ex hex
  simp only [Except.ok.injEq] at hfl h
  subst hfl h
  exact ⟨ex, hex, rfl⟩

theorem bal_credits_foldl_gen {α : Type} (f : α → Addr) (g : α → Coins) (os : List α) (acc : Indexed)
    (x : Addr) (d : Denom) :
    bal (os.foldl (fun idx o => idx.add (f o) (g o)) acc).credits x d =
      bal acc.credits x d + (os.map fun o => if f o = x then amountOf (g o) d else 0).sum := by
  induction os generalizing acc with
  | nil => simp
  | cons o rest ih => simp only [List.foldl_cons, ih, bal_credits_add, List.map_cons, List.sum_cons]; omega

theorem total_foldl_gen {α : Type} (f : α → Addr) (g : α → Coins) (os : List α) (acc : Indexed) (d : Denom) :
    amountOf (os.foldl (fun idx o => idx.add (f o) (g o)) acc).total d =
      amountOf acc.total d + (os.map fun o => amountOf (g o) d).sum := by
  induction os generalizing acc with
  | nil => simp
  | cons o rest ih => simp only [List.foldl_cons, ih, total_add, List.map_cons, List.sum_cons]; omega

theorem mapM_ok_length {α β ε : Type} (f : α → Except ε β) (l : List α) (r : List β) (h : l.mapM f = .ok r) :
    r.length = l.length := by
  induction l generalizing r with
  | nil => simp [pure, Except.pure] at h; subst h; rfl
  | cons a t ih =>
    simp only [List.mapM_cons, bind, Except.bind, pure, Except.pure] at h
    split at h; · simp at h
    split at h; · simp at h
    rename_i rs hrs
    simp only [Except.ok.injEq] at h; subst h
    simp [ih rs hrs]

theorem map_fst_zip_fun {α β γ : Type} (F : α → γ) (l : List α) (r : List β) (h : r.length = l.length) :
    (l.zip r).map (fun p => F p.1) = l.map F := by
  induction l generalizing r with
  | nil => simp
  | cons a t ih =>
    cases r with
    | nil => simp at h
    | cons b rs => simp only [List.length_cons, Nat.add_right_cancel_iff] at h; simp [ih rs h]

/-- when every send went through, the cache is the old ledger plus the entries of all sends, in order -/
theorem runSends_ok (locked : Addr → Coins) (L : Ledger) (ts : List Transfer)
    (h : (runSends locked L ts).2 = true) : (runSends locked L ts).1 = L ++ ts.flatMap Transfer.ledger := by
  induction ts generalizing L with
  | nil => simp [runSends]
  | cons t rest ih =>
    unfold runSends at h ⊢
    split
    · rename_i hc
      simp only [hc, if_true] at h
      rw [ih _ h]
      simp [List.append_assoc]
    · rename_i hc
      simp [hc] at h

/-- the sends of `closeSettlement`, flattened, are its ledger entries -/
theorem closeSends_ledger {m c : Addr} {split : Denom → Nat} {st : Settlement} {ex : Coins}
    (hex : exchangeSplit split st.feeInputs.total = .ok ex) :
    closeSettlement m c split st = .ok ((closeSends m c st ex).flatMap Transfer.ledger) := by
  unfold closeSettlement collectFees closeSends
  rw [hex]
  simp [Transfer.ledger, Indexed.debits, Indexed.credits, List.append_assoc]

/-- an accepted `close`: the cache that is committed is the old state with the order records rewritten and
the ledger entries of `closeSettlement` (all of them: every send went through) appended -/
theorem close_unfold {s s' : KState} {m c : Addr} {st : Settlement} (h : s.close m c st = .ok s') :
    ∃ L, closeSettlement m c s.splitOf st = .ok L ∧
      s' = { s with
        orders := (match st.partialLeft with
          | some left => (s.orders.filter (fun o => !(st.fullyFilled.map (·.order.id)).contains o.id)).map
              (fun o => if o.id = left.id then left else o)
          | none => s.orders.filter (fun o => !(st.fullyFilled.map (·.order.id)).contains o.id)),
        ledger := s.ledger ++ L } := by
  unfold KState.close at h
  split at h
  · rename_i cache hc
    simp only [Except.ok.injEq] at h
    subst h
    unfold KState.closeCached at hc
    split at hc
    · simp at hc
    · rename_i ex hex
      by_cases hr : (runSends (lockedOf (s.keptOrders st)) s.ledger (closeSends m c st ex)).2 = true
      · simp only [hr, if_true, Prod.mk.injEq, and_true] at hc
        refine ⟨_, closeSends_ledger hex, ?_⟩
        rw [← hc, runSends_ok _ _ _ hr]
        rfl
      · simp [hr] at hc
  · simp at h

theorem close_orders {s s' : KState} {m c : Addr} {st : Settlement} (h : s.close m c st = .ok s') :
    s'.nextId = s.nextId ∧
    s'.orders = (match st.partialLeft with
      | some left => (s.orders.filter (fun o => !(st.fullyFilled.map (·.order.id)).contains o.id)).map
          (fun o => if o.id = left.id then left else o)
      | none => s.orders.filter (fun o => !(st.fullyFilled.map (·.order.id)).contains o.id)) := by
  obtain ⟨L, _, rfl⟩ := close_unfold h
  exact ⟨rfl, rfl⟩

theorem storeInv_close {s s' : KState} {m c : Addr} {st : Settlement} (hI : StoreInv s)
    (hleft : ∀ l, st.partialLeft = some l → OrderPos l) (h : s.close m c st = .ok s') : StoreInv s' := by
  obtain ⟨hn, ho⟩ := close_orders h
  have hsub : ∀ o ∈ s.orders.filter (fun o => !(st.fullyFilled.map (·.order.id)).contains o.id), o ∈ s.orders :=
    fun o ho => (List.mem_filter.mp ho).1
  have hnd : ((s.orders.filter (fun o => !(st.fullyFilled.map (·.order.id)).contains o.id)).map (·.id)).Nodup :=
    hI.nodup.sublist ((List.filter_sublist).map _)
  cases hl : st.partialLeft with
  | none =>
    rw [hl] at ho
    simp only at ho
    refine ⟨?_, ?_, ?_⟩
    · intro o h'; rw [ho] at h'; exact hI.pos o (hsub o h')
    · rw [ho]; exact hnd
    · intro o h'; rw [ho] at h'; rw [hn]; exact hI.below o (hsub o h')
  | some left =>
    rw [hl] at ho
    simp only at ho
    have hids : ∀ l : List Order, (l.map (fun o => if o.id = left.id then left else o)).map (·.id) = l.map (·.id) := by
      intro l
      rw [List.map_map]
      apply List.map_congr_left
      intro o _
      simp only [Function.comp]
      split
      · rename_i h; exact h.symm
      · rfl
    refine ⟨?_, ?_, ?_⟩
    · intro o h'
      rw [ho] at h'
      obtain ⟨o', ho', rfl⟩ := List.mem_map.mp h'
      split
      · exact hleft left hl
      · exact hI.pos o' (hsub o' ho')
    · rw [ho, hids]; exact hnd
    · intro o h'
      rw [ho] at h'
      obtain ⟨o', ho', rfl⟩ := List.mem_map.mp h'
      rw [hn]
      split
      · rename_i h; rw [← h]; exact hI.below o' (hsub o' ho')
      · exact hI.below o' (hsub o' ho')




theorem getOrders_ids {s : KState} {want : Bool} {ids : List Nat} {other : Addr} {os : List Order}
    (h : s.getOrders want ids other = .ok os) : os.map (·.id) = ids := by
  unfold KState.getOrders at h
  induction ids generalizing os with
  | nil =>
    simp only [List.mapM_nil, pure, Except.pure, Except.ok.injEq] at h
    subst h; rfl
  | cons id rest ih =>
    simp only [List.mapM_cons, bind, Except.bind, pure, Except.pure] at h
    split at h; · simp at h
    rename_i o ho
    split at h; · simp at h
    rename_i os' hos'
    simp only [Except.ok.injEq] at h; subst h
    simp only [List.map_cons, ih hos', List.cons.injEq, and_true]
    split at ho; · simp at ho
    rename_i o'' hfind
    split at ho; · simp at ho
    simp only [Except.ok.injEq] at ho; subst ho
    simpa using List.find?_some hfind


end PvProofs.Settle
