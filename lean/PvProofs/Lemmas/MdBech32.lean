/-
Lemmas for the bech32 text form of metadata addresses (C14): bit regrouping 8<->5, BCH checksum
(`bech32Polymod`) linearity, charset / separator / case normalisation.  Core Lean only.
-/
import PvModel.MdAddrSpec

namespace PvProofs.Bech32Lemmas
open PvModel.MdAddr

/-! ### bits and groups -/

theorem natBits_length (w n : Nat) : (natBits w n).length = w := by
  induction w with
  | zero => rfl
  | succ w ih => simp [natBits, ih]

theorem bitsNat_natBits (w n : Nat) : bitsNat (natBits w n) = n % 2 ^ w := by
  induction w with
  | zero => simp [natBits, bitsNat, Nat.mod_one]
  | succ w ih =>
    simp only [natBits, bitsNat, natBits_length, ih]
    rw [Nat.mod_pow_succ]
    have h2 : n / 2 ^ w % 2 < 2 := Nat.mod_lt _ (by decide)
    by_cases h : n / 2 ^ w % 2 = 1
    · simp [h]; omega
    · have h0 : n / 2 ^ w % 2 = 0 := by omega
      simp [h0]

theorem bitsNat_lt (bs : List Bool) : bitsNat bs < 2 ^ bs.length := by
  induction bs with
  | nil => simp [bitsNat]
  | cons b bs ih =>
    simp only [bitsNat, List.length_cons, Nat.pow_succ]
    cases b <;> simp <;> omega

theorem natBits5_bitsNat (g : List Bool) (h : g.length = 5) : natBits 5 (bitsNat g) = g := by
  match g, h with
  | [a, b, c, d, e], _ =>
    cases a <;> cases b <;> cases c <;> cases d <;> cases e <;> decide

theorem bitsNat_replicate_false (k : Nat) : bitsNat (List.replicate k false) = 0 := by
  induction k with
  | zero => rfl
  | succ k ih => simp [List.replicate_succ, bitsNat, ih]

/-! chunks -/
theorem chunkN_flatten_append (w : Nat) (cs : List (List Bool)) (r : List Bool)
    (h : ∀ c ∈ cs, c.length = w) : chunkN w cs.length (cs.flatten ++ r) = cs := by
  induction cs with
  | nil => rfl
  | cons c cs ih =>
    have hc : c.length = w := h c (by simp)
    simp only [List.length_cons, chunkN, List.flatten_cons, List.append_assoc]
    rw [List.take_left' hc, List.drop_left' hc, ih (fun c hc => h c (by simp [hc]))]

theorem flatten_chunkN (w n : Nat) (bs : List Bool) :
    (chunkN w n bs).flatten = bs.take (w * n) := by
  induction n generalizing bs with
  | zero => simp [chunkN]
  | succ n ih =>
    simp only [chunkN, List.flatten_cons, ih]
    rw [Nat.mul_succ, Nat.add_comm, List.take_add]

theorem chunkN_length_of_mem (w n : Nat) (bs : List Bool) (h : w * n ≤ bs.length) :
    ∀ c ∈ chunkN w n bs, c.length = w := by
  induction n generalizing bs with
  | zero => simp [chunkN]
  | succ n ih =>
    intro c hc
    simp only [chunkN, List.mem_cons] at hc
    rw [Nat.mul_succ] at h
    rcases hc with rfl | hc
    · simp; omega
    · exact ih (bs.drop w) (by simp; omega) c hc

theorem flatMap_map_id {α β : Type} (cs : List (List α)) (f : List α → β) (g : β → List α)
    (h : ∀ c ∈ cs, g (f c) = c) : (cs.map f).flatMap g = cs.flatten := by
  induction cs with
  | nil => rfl
  | cons c cs ih =>
    simp only [List.map_cons, List.flatMap_cons, List.flatten_cons]
    rw [h c (by simp), ih (fun c hc => h c (by simp [hc]))]

theorem natBits5_ofNat_bitsNat (g : List Bool) (h : g.length = 5) :
    natBits 5 (UInt8.ofNat (bitsNat g)).toNat = g := by
  have hl := bitsNat_lt g
  rw [h] at hl
  rw [UInt8.toNat_ofNat', Nat.mod_eq_of_lt (by omega)]
  exact natBits5_bitsNat g h

theorem ofNat_bitsNat_lt32 (g : List Bool) (h : g.length = 5) : (UInt8.ofNat (bitsNat g)).toNat < 32 := by
  have hl := bitsNat_lt g
  rw [h] at hl
  rw [UInt8.toNat_ofNat', Nat.mod_eq_of_lt (by omega)]
  exact hl

/-- 8→5 with padding: the output's bits are the input bits followed by at most 4 zero bits -/
theorem regroup5_spec (bits : List Bool) :
    ∃ out k, regroup bits 5 true = some out ∧ k ≤ 4 ∧
      out.flatMap (fun b => natBits 5 b.toNat) = bits ++ List.replicate k false ∧
      ∀ o ∈ out, o.toNat < 32 := by
  have hq : 5 * (bits.length / 5) ≤ bits.length := Nat.mul_div_le _ _
  have hlen := chunkN_length_of_mem 5 (bits.length / 5) bits hq
  have hflat : ((chunkN 5 (bits.length / 5) bits).map fun g => UInt8.ofNat (bitsNat g)).flatMap
      (fun b => natBits 5 b.toNat) = bits.take (5 * (bits.length / 5)) := by
    rw [flatMap_map_id _ (fun g => UInt8.ofNat (bitsNat g)) (fun b => natBits 5 b.toNat)
      (fun c hc => natBits5_ofNat_bitsNat c (hlen c hc)), flatten_chunkN]
  have hlt : ∀ o ∈ (chunkN 5 (bits.length / 5) bits).map (fun g => UInt8.ofNat (bitsNat g)), o.toNat < 32 := by
    intro o ho
    rcases List.mem_map.1 ho with ⟨g, hg, rfl⟩
    exact ofNat_bitsNat_lt32 g (hlen g hg)
  by_cases hr : (bits.drop (5 * (bits.length / 5))).isEmpty = true
  · refine ⟨(chunkN 5 (bits.length / 5) bits).map (fun g => UInt8.ofNat (bitsNat g)), 0, ?_, by omega, ?_, hlt⟩
    · simp only [regroup, hr, if_true]
    · rw [hflat]
      have : bits.drop (5 * (bits.length / 5)) = [] := by simpa using hr
      have h2 := List.take_append_drop (5 * (bits.length / 5)) bits
      rw [this] at h2
      simpa using h2
  · have hrl : (bits.drop (5 * (bits.length / 5))).length = bits.length % 5 := by
      rw [List.length_drop]; omega
    have hne : bits.length % 5 ≠ 0 := by
      intro h0
      apply hr
      rw [List.isEmpty_iff, List.drop_eq_nil_iff]; omega
    have hm : bits.length % 5 < 5 := Nat.mod_lt _ (by decide)
    have hlast : (bits.drop (5 * (bits.length / 5)) ++
        List.replicate (5 - (bits.drop (5 * (bits.length / 5))).length) false).length = 5 := by
      rw [List.length_append, List.length_replicate, hrl]; omega
    refine ⟨(chunkN 5 (bits.length / 5) bits).map (fun g => UInt8.ofNat (bitsNat g)) ++
      [UInt8.ofNat (bitsNat (bits.drop (5 * (bits.length / 5)) ++
        List.replicate (5 - (bits.drop (5 * (bits.length / 5))).length) false))],
      5 - bits.length % 5, ?_, by omega, ?_, ?_⟩
    · simp only [regroup, hr, if_true]; rfl
    · rw [List.flatMap_append, hflat]
      simp only [List.flatMap_cons, List.flatMap_nil, List.append_nil]
      rw [natBits5_ofNat_bitsNat _ hlast, hrl, ← List.append_assoc, List.take_append_drop]
    · intro o ho
      rcases List.mem_append.1 ho with ho | ho
      · exact hlt o ho
      · rw [List.mem_singleton] at ho
        subst ho
        exact ofNat_bitsNat_lt32 _ hlast

theorem length_bits8 (data : Bytes) : (data.flatMap fun b => natBits 8 b.toNat).length = 8 * data.length := by
  induction data with
  | nil => rfl
  | cons b bs ih => simp only [List.flatMap_cons, List.length_append, natBits_length, ih, List.length_cons]; omega

/-- 5→8 without padding gives the bytes back when at most 4 zero bits follow -/
theorem regroup8_spec (data : Bytes) (k : Nat) (hk : k ≤ 4) :
    regroup ((data.flatMap fun b => natBits 8 b.toNat) ++ List.replicate k false) 8 false = some data := by
  have hl := length_bits8 data
  have hq : ((data.flatMap fun b => natBits 8 b.toNat) ++ List.replicate k false).length / 8 = data.length := by
    rw [List.length_append, hl, List.length_replicate]; omega
  have hch : chunkN 8 data.length ((data.flatMap fun b => natBits 8 b.toNat) ++ List.replicate k false)
      = data.map fun b => natBits 8 b.toNat := by
    have := chunkN_flatten_append 8 (data.map fun b => natBits 8 b.toNat) (List.replicate k false)
      (by intro c hc; rcases List.mem_map.1 hc with ⟨b, _, rfl⟩; exact natBits_length _ _)
    rw [List.length_map, ← List.flatMap_def] at this
    exact this
  have hout : ((data.map fun b => natBits 8 b.toNat).map fun g => UInt8.ofNat (bitsNat g)) = data := by
    rw [List.map_map]
    conv => rhs; rw [← List.map_id data]
    apply List.map_congr_left
    intro b _
    simp only [Function.comp, bitsNat_natBits, id]
    have : b.toNat < 256 := b.toNat_lt
    rw [Nat.mod_eq_of_lt (by omega), UInt8.ofNat_toNat]
  have hrest : ((data.flatMap fun b => natBits 8 b.toNat) ++ List.replicate k false).drop (8 * data.length)
      = List.replicate k false := List.drop_left' hl
  unfold regroup
  simp only [hq, hch, hout, hrest]
  by_cases h0 : k = 0
  · subst h0; simp
  · have : (List.replicate k false).isEmpty = false := by
      cases k with
      | zero => exact absurd rfl h0
      | succ k => rfl
    simp only [this, bitsNat_replicate_false, List.length_replicate]
    have : ¬ k > 4 := by omega
    simp [this]

/-- `ConvertBits(·,5,8,false) ∘ ConvertBits(·,8,5,true)` is the identity, and the intermediate
values are 5-bit. -/
theorem convertBits_roundtrip (data : Bytes) :
    ∃ c, convertBits data 8 5 true = some c ∧ (∀ o ∈ c, o.toNat < 32) ∧
      5 * c.length ≤ 8 * data.length + 4 ∧ convertBits c 5 8 false = some data := by
  obtain ⟨out, k, h1, hk, h2, h3⟩ := regroup5_spec (data.flatMap fun b => natBits 8 b.toNat)
  refine ⟨out, h1, h3, ?_, ?_⟩
  · have hl := congrArg List.length h2
    rw [List.length_append, length_bits8, List.length_replicate] at hl
    have : (out.flatMap fun b => natBits 5 b.toNat).length = 5 * out.length := by
      clear h1 h2 h3 hl
      induction out with
      | nil => rfl
      | cons b bs ih => simp only [List.flatMap_cons, List.length_append, natBits_length, ih, List.length_cons]; omega
    omega
  · unfold convertBits
    rw [h2]
    exact regroup8_spec data k hk

/-! ### checksum -/

theorem shl_xor_eq_add (a c : Nat) (h : c < 32) : a <<< 5 ^^^ c = a * 32 + c := by
  have h1 : a <<< 5 ^^^ c = a <<< 5 ||| c := by
    apply Nat.eq_of_testBit_eq
    intro i
    simp only [Nat.testBit_xor, Nat.testBit_or, Nat.testBit_shiftLeft]
    by_cases hi : i ≥ 5
    · have : c.testBit i = false := Nat.testBit_lt_two_pow (Nat.lt_of_lt_of_le h (by
        calc 32 = 2^5 := rfl
          _ ≤ 2^i := Nat.pow_le_pow_right (by decide) hi))
      simp [this]
    · simp [hi]
  rw [h1, ← Nat.shiftLeft_add_eq_or_of_lt (i := 5) (by simpa using h), Nat.shiftLeft_eq]

theorem polymodG_lt (b : Nat) : polymodG b < 2 ^ 30 := by
  unfold polymodG
  refine Nat.xor_lt_two_pow (Nat.xor_lt_two_pow (Nat.xor_lt_two_pow (Nat.xor_lt_two_pow ?_ ?_) ?_) ?_) ?_ <;>
    split <;> decide

theorem polymodStep_lt (chk v : Nat) (hv : v < 32) : polymodStep chk v < 2 ^ 30 := by
  unfold polymodStep
  refine Nat.xor_lt_two_pow (Nat.xor_lt_two_pow ?_ (by omega)) (polymodG_lt _)
  have : chk &&& 0x1ffffff < 2 ^ 25 := Nat.and_lt_two_pow _ (by decide)
  rw [Nat.shiftLeft_eq]
  omega

/-- low-part linearity of one round -/
theorem polymodStep_xor (s d v : Nat) (hd : d < 2 ^ 25) :
    polymodStep (s ^^^ d) v = polymodStep s 0 ^^^ ((d <<< 5) ^^^ v) := by
  unfold polymodStep
  have h1 : d >>> 25 = 0 := by rw [Nat.shiftRight_eq_div_pow]; exact Nat.div_eq_of_lt hd
  have h2 : d &&& 0x1ffffff = d := by
    have := Nat.and_two_pow_sub_one_eq_mod d 25
    simp only [show (2:Nat) ^ 25 - 1 = 0x1ffffff from rfl] at this
    rw [this, Nat.mod_eq_of_lt hd]
  rw [Nat.shiftRight_xor_distrib, h1, Nat.xor_zero, Nat.and_xor_distrib_right, h2,
    Nat.shiftLeft_xor_distrib, Nat.xor_zero]
  ac_rfl

def pack (D : Nat) (cs : List Nat) : Nat := cs.foldl (fun D c => D <<< 5 ^^^ c) D

theorem foldl_polymod_xor (cs : List Nat) : ∀ (s D : Nat), (∀ c ∈ cs, c < 32) → cs.length ≤ 6 →
    D < 2 ^ (30 - 5 * cs.length) →
    cs.foldl polymodStep (s ^^^ D) = (List.replicate cs.length 0).foldl polymodStep s ^^^ pack D cs := by
  induction cs with
  | nil => intro s D _ _ _; rfl
  | cons c cs ih =>
    intro s D hc hl hD
    simp only [List.length_cons] at hl hD
    have hc32 : c < 32 := hc c (by simp)
    have hD25 : D < 2 ^ 25 := Nat.lt_of_lt_of_le hD (Nat.pow_le_pow_right (by decide) (by omega))
    simp only [List.foldl_cons, List.length_cons, List.replicate_succ, pack]
    rw [polymodStep_xor s D c hD25]
    apply ih (polymodStep s 0) (D <<< 5 ^^^ c) (fun c hc' => hc c (by simp [hc'])) (by omega)
    have e : 30 - 5 * cs.length = (30 - 5 * (cs.length + 1)) + 5 := by omega
    rw [e]
    refine Nat.xor_lt_two_pow ?_ ?_
    · rw [Nat.shiftLeft_eq, Nat.pow_add]; exact Nat.mul_lt_mul_of_pos_right hD (by decide)
    · exact Nat.lt_of_lt_of_le hc32 (by
        calc 32 = 2 ^ 5 := rfl
          _ ≤ 2 ^ (30 - 5 * (cs.length + 1) + 5) := Nat.pow_le_pow_right (by decide) (by omega))

theorem pack_digits (Q : Nat) (hQ : Q < 2 ^ 30) :
    pack 0 [(Q >>> 25) &&& 31, (Q >>> 20) &&& 31, (Q >>> 15) &&& 31, (Q >>> 10) &&& 31, (Q >>> 5) &&& 31, Q &&& 31] = Q := by
  have hm : ∀ x : Nat, x &&& 31 = x % 32 := fun x => Nat.and_two_pow_sub_one_eq_mod x 5
  simp only [pack, List.foldl_cons, List.foldl_nil, hm]
  rw [shl_xor_eq_add _ _ (Nat.mod_lt _ (by decide)), shl_xor_eq_add _ _ (Nat.mod_lt _ (by decide)),
    shl_xor_eq_add _ _ (Nat.mod_lt _ (by decide)), shl_xor_eq_add _ _ (Nat.mod_lt _ (by decide)),
    shl_xor_eq_add _ _ (Nat.mod_lt _ (by decide)), shl_xor_eq_add _ _ (Nat.mod_lt _ (by decide))]
  simp only [Nat.shiftRight_eq_div_pow]
  omega

theorem checksum_lt32 (hrp : List Char) (values : List Nat) : ∀ c ∈ bech32Checksum hrp values, c < 32 := by
  intro c hc
  simp only [bech32Checksum, List.mem_cons, List.not_mem_nil, or_false] at hc
  rcases hc with rfl | rfl | rfl | rfl | rfl | rfl <;> exact Nat.and_lt_two_pow _ (show 31 < 2 ^ 5 by decide)

/-- `VerifyChecksum(hrp, values, writeBech32Checksum(hrp, values))` -/
theorem polymod_checksum (hrp : List Char) (values : List Nat) :
    bech32Polymod hrp values (bech32Checksum hrp values) = 1 := by
  have hlt : bech32Polymod hrp values [0, 0, 0, 0, 0, 0] < 2 ^ 30 := by
    unfold bech32Polymod
    rw [show ([0, 0, 0, 0, 0, 0] : List Nat) = [0, 0, 0, 0, 0] ++ [0] from rfl, ← List.append_assoc,
      List.foldl_append]
    exact polymodStep_lt _ 0 (by decide)
  have hQ : bech32Polymod hrp values [0, 0, 0, 0, 0, 0] ^^^ 1 < 2 ^ 30 := Nat.xor_lt_two_pow hlt (by decide)
  have key := foldl_polymod_xor (bech32Checksum hrp values) ((hrpExpand hrp ++ values).foldl polymodStep 1) 0
    (checksum_lt32 hrp values) (by simp [bech32Checksum]) (by simp [bech32Checksum])
  rw [Nat.xor_zero] at key
  unfold bech32Polymod
  rw [List.foldl_append, key]
  have hz : (List.replicate (bech32Checksum hrp values).length 0).foldl polymodStep
      ((hrpExpand hrp ++ values).foldl polymodStep 1) = bech32Polymod hrp values [0, 0, 0, 0, 0, 0] := by
    unfold bech32Polymod
    rw [List.foldl_append (l' := [0, 0, 0, 0, 0, 0])]
    rfl
  rw [hz]
  have hp : pack 0 (bech32Checksum hrp values) = bech32Polymod hrp values [0, 0, 0, 0, 0, 0] ^^^ 1 :=
    pack_digits _ hQ
  rw [hp, ← Nat.xor_assoc, Nat.xor_self, Nat.zero_xor]

/-! ### characters -/

theorem charset_facts : ∀ v < 32, charsetIndex? (charsetChar v) = some v ∧ charsetChar v ≠ '1' ∧
    33 ≤ (charsetChar v).toNat ∧ (charsetChar v).toNat ≤ 126 ∧ isUpperAscii (charsetChar v) = false := by
  decide

theorem charsetDecode_map (vs : List Nat) (h : ∀ v ∈ vs, v < 32) :
    charsetDecode (vs.map charsetChar) = some vs := by
  induction vs with
  | nil => rfl
  | cons v vs ih =>
    simp only [List.map_cons, charsetDecode, (charset_facts v (h v (by simp))).1,
      ih (fun v hv => h v (by simp [hv]))]

theorem splitLast_none (c : Char) (b : List Char) (h : c ∉ b) : splitLast c b = none := by
  induction b with
  | nil => rfl
  | cons x xs ih =>
    simp only [List.mem_cons, not_or] at h
    simp only [splitLast, ih h.2]
    rw [if_neg (fun e => h.1 e.symm)]

theorem splitLast_append (c : Char) (a b : List Char) (h : c ∉ b) :
    splitLast c (a ++ c :: b) = some (a, b) := by
  induction a with
  | nil => simp [splitLast, splitLast_none c b h]
  | cons x xs ih => simp [splitLast, ih]

theorem lowerChar_of_not_upper (c : Char) (h : isUpperAscii c = false) : lowerChar c = c := by
  unfold isUpperAscii at h
  unfold lowerChar
  rw [if_neg (by simpa using h)]

theorem normalize_id (cs : List Char)
    (h : ∀ c ∈ cs, 33 ≤ c.toNat ∧ c.toNat ≤ 126 ∧ isUpperAscii c = false) :
    bech32Normalize cs = some cs := by
  have h1 : cs.any (fun c => decide (c.toNat < 33) || decide (c.toNat > 126)) = false := by
    rw [List.any_eq_false]
    intro c hc
    have := h c hc
    simp; omega
  have h2 : cs.any isUpperAscii = false := by
    rw [List.any_eq_false]
    intro c hc
    simp [(h c hc).2.2]
  unfold bech32Normalize
  simp [h1, h2]
end PvProofs.Bech32Lemmas
