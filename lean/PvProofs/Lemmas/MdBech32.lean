/-
Lemmas for the bech32 text form of metadata addresses (C14): bit regrouping 8<->5, BCH checksum
(`bech32Polymod`) linearity, charset / separator / case normalisation.  Core Lean only.
-/
import PvModel.MdAddrSpec

namespace PvProofs.Bech32Lemmas
open PvModel.MdAddr

/-! ### bits and groups -/

theorem natBits_length (w n : Nat) : (natBits w n).length = w := by
  induction w with
  | zero => rfl
  | succ w ih => simp [natBits, ih]

theorem bitsNat_natBits (w n : Nat) : bitsNat (natBits w n) = n % 2 ^ w := by
  induction w with
  | zero => simp [natBits, bitsNat, Nat.mod_one]
  | succ w ih =>
    simp only [natBits, bitsNat, natBits_length, ih]
    rw [Nat.mod_pow_succ]
    have h2 : n / 2 ^ w % 2 < 2 := Nat.mod_lt _ (by decide)
    by_cases h : n / 2 ^ w % 2 = 1
    · simp [h]; omega
    · have h0 : n / 2 ^ w % 2 = 0 := by omega
      simp [h0]

theorem bitsNat_lt (bs : List Bool) : bitsNat bs < 2 ^ bs.length := by
  induction bs with
  | nil => simp [bitsNat]
  | cons b bs ih =>
    simp only [bitsNat, List.length_cons, Nat.pow_succ]
    cases b <;> simp <;> omega

theorem natBits5_bitsNat (g : List Bool) (h : g.length = 5) : natBits 5 (bitsNat g) = g := by
  match g, h with
  | [a, b, c, d, e], _ =>
    cases a <;> cases b <;> cases c <;> cases d <;> cases e <;> decide

theorem bitsNat_replicate_false (k : Nat) : bitsNat (List.replicate k false) = 0 := by
  induction k with
  | zero => rfl
  | succ k ih => simp [List.replicate_succ, bitsNat, ih]

/-! chunks -/
theorem chunkN_flatten_append (w : Nat) (cs : List (List Bool)) (r : List Bool)
    (h : ∀ c ∈ cs, c.length = w) : chunkN w cs.length (cs.flatten ++ r) = cs := by
  induction cs with
  | nil => rfl
  | cons c cs ih =>
    have hc : c.length = w := h c (by simp)
    simp only [List.length_cons, chunkN, List.flatten_cons, List.append_assoc]
    rw [List.take_left' hc, List.drop_left' hc, ih (fun c hc => h c (by simp [hc]))]

theorem flatten_chunkN (w n : Nat) (bs : List Bool) :
    (chunkN w n bs).flatten = bs.take (w * n) := by
  induction n generalizing bs with
  | zero => simp [chunkN]
  | succ n ih =>
    simp only [chunkN, List.flatten_cons, ih]
    rw [Nat.mul_succ, Nat.add_comm, List.take_add]

theorem chunkN_length_of_mem (w n : Nat) (bs : List Bool) (h : w * n ≤ bs.length) :
    ∀ c ∈ chunkN w n bs, c.length = w := by
  induction n generalizing bs with
  | zero => simp [chunkN]
  | succ n ih =>
    intro c hc
    simp only [chunkN, List.mem_cons] at hc
    rw [Nat.mul_succ] at h
    rcases hc with rfl | hc
    · simp; omega
    · exact ih (bs.drop w) (by simp; omega) c hc

theorem flatMap_map_id {α β : Type} (cs : List (List α)) (f : List α → β) (g : β → List α)
    (h : ∀ c ∈ cs, g (f c) = c) : (cs.map f).flatMap g = cs.flatten := by
  induction cs with
  | nil => rfl
  | cons c cs ih =>
    simp only [List.map_cons, List.flatMap_cons, List.flatten_cons]
    rw [h c (by simp), ih (fun c hc => h c (by simp [hc]))]

theorem natBits5_ofNat_bitsNat (g : List Bool) (h : g.length = 5) :
    natBits 5 (UInt8.ofNat (bitsNat g)).toNat = g := by
  have hl := bitsNat_lt g
  rw [h] at hl
  rw [UInt8.toNat_ofNat', Nat.mod_eq_of_lt (by omega)]
  exact natBits5_bitsNat g h

theorem ofNat_bitsNat_lt32 (g : List Bool) (h : g.length = 5) : (UInt8.ofNat (bitsNat g)).toNat < 32 := by
  have hl := bitsNat_lt g
  rw [h] at hl
  rw [UInt8.toNat_ofNat', Nat.mod_eq_of_lt (by omega)]
  exact hl

/-- 8→5 with padding: the output's bits are the input bits followed by at most 4 zero bits -/
theorem regroup5_spec (bits : List Bool) :
    ∃ out k, regroup bits 5 true = some out ∧ k ≤ 4 ∧
      out.flatMap (fun b => natBits 5 b.toNat) = bits ++ List.replicate k false ∧
      ∀ o ∈ out, o.toNat < 32 := by
  have hq : 5 * (bits.length / 5) ≤ bits.length := Nat.mul_div_le _ _
  have hlen := chunkN_length_of_mem 5 (bits.length / 5) bits hq
  have hflat : ((chunkN 5 (bits.length / 5) bits).map fun g => UInt8.ofNat (bitsNat g)).flatMap
      (fun b => natBits 5 b.toNat) = bits.take (5 * (bits.length / 5)) := by
    rw [flatMap_map_id _ (fun g => UInt8.ofNat (bitsNat g)) (fun b => natBits 5 b.toNat)
      (fun c hc => natBits5_ofNat_bitsNat c (hlen c hc)), flatten_chunkN]
  have hlt : ∀ o ∈ (chunkN 5 (bits.length / 5) bits).map (fun g => UInt8.ofNat (bitsNat g)), o.toNat < 32 := by
    intro o ho
    rcases List.mem_map.1 ho with ⟨g, hg, rfl⟩
    exact ofNat_bitsNat_lt32 g (hlen g hg)
  by_cases hr : (bits.drop (5 * (bits.length / 5))).isEmpty = true
  · refine ⟨(chunkN 5 (bits.length / 5) bits).map (fun g => UInt8.ofNat (bitsNat g)), 0, ?_, by omega, ?_, hlt⟩
    · simp only [regroup, hr, if_true]
    · rw [hflat]
      have : bits.drop (5 * (bits.length / 5)) = [] := by simpa using hr
      have h2 := List.take_append_drop (5 * (bits.length / 5)) bits
      rw [this] at h2
      simpa using h2
  · have hrl : (bits.drop (5 * (bits.length / 5))).length = bits.length % 5 := by
      rw [List.length_drop]; omega
    have hne : bits.length % 5 ≠ 0 := by
      intro h0
      apply hr
      rw [List.isEmpty_iff, List.drop_eq_nil_iff]; omega
    have hm : bits.length % 5 < 5 := Nat.mod_lt _ (by decide)
    have hlast : (bits.drop (5 * (bits.length / 5)) ++
        List.replicate (5 - (bits.drop (5 * (bits.length / 5))).length) false).length = 5 := by
      rw [List.length_append, List.length_replicate, hrl]; omega
    refine ⟨(chunkN 5 (bits.length / 5) bits).map (fun g => UInt8.ofNat (bitsNat g)) ++
      [UInt8.ofNat (bitsNat (bits.drop (5 * (bits.length / 5)) ++
        List.replicate (5 - (bits.drop (5 * (bits.length / 5))).length) false))],
      5 - bits.length % 5, ?_, by omega, ?_, ?_⟩
    · simp only [regroup, hr, if_true]; rfl
    · rw [List.flatMap_append, hflat]
      simp only [List.flatMap_cons, List.flatMap_nil, List.append_nil]
      rw [natBits5_ofNat_bitsNat _ hlast, hrl, ← List.append_assoc, List.take_append_drop]
    · intro o ho
      rcases List.mem_append.1 ho with ho | ho
      · exact hlt o ho
      · rw [List.mem_singleton] at ho
        subst ho
        exact ofNat_bitsNat_lt32 _ hlast

theorem length_bits8 (data : Bytes) : (data.flatMap fun b => natBits 8 b.toNat).length = 8 * data.length := by
  induction data with
  | nil => rfl
  | cons b bs ih => simp only [List.flatMap_cons, List.length_append, natBits_length, ih, List.length_cons]; omega

/-- 5→8 without padding gives the bytes back when at most 4 zero bits follow -/
theorem regroup8_spec (data : Bytes) (k : Nat) (hk : k ≤ 4) :
    regroup ((data.flatMap fun b => natBits 8 b.toNat) ++ List.replicate k false) 8 false = some data := by
  have hl := length_bits8 data
  have hq : ((data.flatMap fun b => natBits 8 b.toNat) ++ List.replicate k false).length / 8 = data.length := by
    rw [List.length_append, hl, List.length_replicate]; omega
  have hch : chunkN 8 data.length ((data.flatMap fun b => natBits 8 b.toNat) ++ List.replicate k false)
      = data.map fun b => natBits 8 b.toNat := by
    have := chunkN_flatten_append 8 (data.map fun b => natBits 8 b.toNat) (List.replicate k false)
      (by intro c hc; rcases List.mem_map.1 hc with ⟨b, _, rfl⟩; exact natBits_length _ _)
    rw [List.length_map, ← List.flatMap_def] at this
    exact this
  have hout : ((data.map fun b => natBits 8 b.toNat).map fun g => UInt8.ofNat (bitsNat g)) = data := by
    rw [List.map_map]
    conv => rhs; rw [← List.map_id data]
    apply List.map_congr_left
    intro b _
    simp only [Function.comp, bitsNat_natBits, id]
    have : b.toNat < 256 := b.toNat_lt
    rw [Nat.mod_eq_of_lt (by omega), UInt8.ofNat_toNat]
  have hrest : ((data.flatMap fun b => natBits 8 b.toNat) ++ List.replicate k false).drop (8 * data.length)
      = List.replicate k false := List.drop_left' hl
  unfold regroup
  simp only [hq, hch, hout, hrest]
  by_cases h0 : k = 0
  · subst h0; simp
  · have : (List.replicate k false).isEmpty = false := by
      cases k with
      | zero => exact absurd rfl h0
      | succ k => rfl
    simp only [this, bitsNat_replicate_false, List.length_replicate]
    have : ¬ k > 4 := by omega
    simp [this]

/-- `ConvertBits(·,5,8,false) ∘ ConvertBits(·,8,5,true)` is the identity, and the intermediate
values are 5-bit. -/
theorem convertBits_roundtrip (data : Bytes) :
    ∃ c, convertBits data 8 5 true = some c ∧ (∀ o ∈ c, o.toNat < 32) ∧
      5 * c.length ≤ 8 * data.length + 4 ∧ convertBits c 5 8 false = some data := by
  obtain ⟨out, k, h1, hk, h2, h3⟩ := regroup5_spec (data.flatMap fun b => natBits 8 b.toNat)
  refine ⟨out, h1, h3, ?_, ?_⟩
  · have hl := congrArg List.length h2
    rw [List.length_append, length_bits8, List.length_replicate] at hl
    have : (out.flatMap fun b => natBits 5 b.toNat).length = 5 * out.length := by
      clear h1 h2 h3 hl
      induction out with
      | nil => rfl
      | cons b bs ih => simp only [List.flatMap_cons, List.length_append, natBits_length, ih, List.length_cons]; omega
    omega
  · unfold convertBits
    rw [h2]
    exact regroup8_spec data k hk

/-! ### checksum -/

theorem shl_xor_eq_add (a c : Nat) (h : c < 32) : a <<< 5 ^^^ c = a * 32 + c := by
  have h1 : a <<< 5 ^^^ c = a <<< 5 ||| c := by
    apply Nat.eq_of_testBit_eq
    intro i
    simp only [Nat.testBit_xor, Nat.testBit_or, Nat.testBit_shiftLeft]
    by_cases hi : i ≥ 5
    · have : c.testBit i = false := Nat.testBit_lt_two_pow (Nat.lt_of_lt_of_le h (by
        calc 32 = 2^5 := rfl
          _ ≤ 2^i := Nat.pow_le_pow_right (by decide) hi))
      simp [this]
    · simp [hi]
  rw [h1, ← Nat.shiftLeft_add_eq_or_of_lt (i := 5) (by simpa using h), Nat.shiftLeft_eq]

theorem polymodG_lt (b : Nat) : polymodG b < 2 ^ 30 := by
  unfold polymodG
  refine Nat.xor_lt_two_pow (Nat.xor_lt_two_pow (Nat.xor_lt_two_pow (Nat.xor_lt_two_pow ?_ ?_) ?_) ?_) ?_ <;>
    split <;> decide

theorem polymodStep_lt (chk v : Nat) (hv : v < 32) : polymodStep chk v < 2 ^ 30 := by
  unfold polymodStep
  refine Nat.xor_lt_two_pow (Nat.xor_lt_two_pow ?_ (by omega)) (polymodG_lt _)
  have : chk &&& 0x1ffffff < 2 ^ 25 := Nat.and_lt_two_pow _ (by decide)
  rw [Nat.shiftLeft_eq]
  omega

/-- low-part linearity of one round -/
theorem polymodStep_xor (s d v : Nat) (hd : d < 2 ^ 25) :
    polymodStep (s ^^^ d) v = polymodStep s 0 ^^^ ((d <<< 5) ^^^ v) := by
  unfold polymodStep
  have h1 : d >>> 25 = 0 := by rw [Nat.shiftRight_eq_div_pow]; exact Nat.div_eq_of_lt hd
  have h2 : d &&& 0x1ffffff = d := by
    have := Nat.and_two_pow_sub_one_eq_mod d 25
    simp only [show (2:Nat) ^ 25 - 1 = 0x1ffffff from rfl] at this
    rw [this, Nat.mod_eq_of_lt hd]
  rw [Nat.shiftRight_xor_distrib, h1, Nat.xor_zero, Nat.and_xor_distrib_right, h2,
    Nat.shiftLeft_xor_distrib, Nat.xor_zero]
  ac_rfl

def pack (D : Nat) (cs : List Nat) : Nat := cs.foldl (fun D c => D <<< 5 ^^^ c) D

theorem foldl_polymod_xor (cs : List Nat) : ∀ (s D : Nat), (∀ c ∈ cs, c < 32) → cs.length ≤ 6 →
    D < 2 ^ (30 - 5 * cs.length) →
    cs.foldl polymodStep (s ^^^ D) = (List.replicate cs.length 0).foldl polymodStep s ^^^ pack D cs := by
  induction cs with
  | nil => intro s D _ _ _; rfl
  | cons c cs ih =>
    intro s D hc hl hD
    simp only [List.length_cons] at hl hD
    have hc32 : c < 32 := hc c (by simp)
    have hD25 : D < 2 ^ 25 := Nat.lt_of_lt_of_le hD (Nat.pow_le_pow_right (by decide) (by omega))
    simp only [List.foldl_cons, List.length_cons, List.replicate_succ, pack]
    rw [polymodStep_xor s D c hD25]
    apply ih (polymodStep s 0) (D <<< 5 ^^^ c) (fun c hc' => hc c (by simp [hc'])) (by omega)
    have e : 30 - 5 * cs.length = (30 - 5 * (cs.length + 1)) + 5 := by omega
    rw [e]
    refine Nat.xor_lt_two_pow ?_ ?_
    · rw [Nat.shiftLeft_eq, Nat.pow_add]; exact Nat.mul_lt_mul_of_pos_right hD (by decide)
    · exact Nat.lt_of_lt_of_le hc32 (by
        calc 32 = 2 ^ 5 := rfl
          _ ≤ 2 ^ (30 - 5 * (cs.length + 1) + 5) := Nat.pow_le_pow_right (by decide) (by omega))

theorem pack_digits (Q : Nat) (hQ : Q < 2 ^ 30) :
    pack 0 [(Q >>> 25) &&& 31, (Q >>> 20) &&& 31, (Q >>> 15) &&& 31, (Q >>> 10) &&& 31, (Q >>> 5) &&& 31, Q &&& 31] = Q := by
  have hm : ∀ x : Nat, x &&& 31 = x % 32 := fun x => Nat.and_two_pow_sub_one_eq_mod x 5
  simp only [pack, List.foldl_cons, List.foldl_nil, hm]
  rw [shl_xor_eq_add _ _ (Nat.mod_lt _ (by decide)), shl_xor_eq_add _ _ (Nat.mod_lt _ (by decide)),
    shl_xor_eq_add _ _ (Nat.mod_lt _ (by decide)), shl_xor_eq_add _ _ (Nat.mod_lt _ (by decide)),
    shl_xor_eq_add _ _ (Nat.mod_lt _ (by decide)), shl_xor_eq_add _ _ (Nat.mod_lt _ (by decide))]
  simp only [Nat.shiftRight_eq_div_pow]
  omega

theorem checksum_lt32 (hrp : List Char) (values : List Nat) : ∀ c ∈ bech32Checksum hrp values, c < 32 := by
  intro c hc
  simp only [bech32Checksum, List.mem_cons, List.not_mem_nil, or_false] at hc
  rcases hc with rfl | rfl | rfl | rfl | rfl | rfl <;> exact Nat.and_lt_two_pow _ (show 31 < 2 ^ 5 by decide)

/-- `VerifyChecksum(hrp, values, writeBech32Checksum(hrp, values))` -/
theorem polymod_checksum (hrp : List Char) (values : List Nat) :
    bech32Polymod hrp values (bech32Checksum hrp values) = 1 := by
  have hlt : bech32Polymod hrp values [0, 0, 0, 0, 0, 0] < 2 ^ 30 := by
    unfold bech32Polymod
    rw [show ([0, 0, 0, 0, 0, 0] : List Nat) = [0, 0, 0, 0, 0] ++ [0] from rfl, ← List.append_assoc,
      List.foldl_append]
    exact polymodStep_lt _ 0 (by decide)
  have hQ : bech32Polymod hrp values [0, 0, 0, 0, 0, 0] ^^^ 1 < 2 ^ 30 := Nat.xor_lt_two_pow hlt (by decide)
  have key := foldl_polymod_xor (bech32Checksum hrp values) ((hrpExpand hrp ++ values).foldl polymodStep 1) 0
    (checksum_lt32 hrp values) (by simp [bech32Checksum]) (by simp [bech32Checksum])
  rw [Nat.xor_zero] at key
  unfold bech32Polymod
  rw [List.foldl_append, key]
  have hz : (List.replicate (bech32Checksum hrp values).length 0).foldl polymodStep
      ((hrpExpand hrp ++ values).foldl polymodStep 1) = bech32Polymod hrp values [0, 0, 0, 0, 0, 0] := by
    unfold bech32Polymod
    rw [List.foldl_append (l' := [0, 0, 0, 0, 0, 0])]
    rfl
  rw [hz]
  have hp : pack 0 (bech32Checksum hrp values) = bech32Polymod hrp values [0, 0, 0, 0, 0, 0] ^^^ 1 :=
    pack_digits _ hQ
  rw [hp, ← Nat.xor_assoc, Nat.xor_self, Nat.zero_xor]

/-! ### characters -/

theorem charset_facts : ∀ v < 32, charsetIndex? (charsetChar v) = some v ∧ charsetChar v ≠ '1' ∧
    33 ≤ (charsetChar v).toNat ∧ (charsetChar v).toNat ≤ 126 ∧ isUpperAscii (charsetChar v) = false := by
  decide

theorem charsetDecode_map (vs : List Nat) (h : ∀ v ∈ vs, v < 32) :
    charsetDecode (vs.map charsetChar) = some vs := by
  induction vs with
  | nil => rfl
  | cons v vs ih =>
    simp only [List.map_cons, charsetDecode, (charset_facts v (h v (by simp))).1,
      ih (fun v hv => h v (by simp [hv]))]

theorem splitLast_none (c : Char) (b : List Char) (h : c ∉ b) : splitLast c b = none := by
  induction b with
  | nil => rfl
  | cons x xs ih =>
    simp only [List.mem_cons, not_or] at h
    simp only [splitLast, ih h.2]
    rw [if_neg (fun e => h.1 e.symm)]

theorem splitLast_append (c : Char) (a b : List Char) (h : c ∉ b) :
    splitLast c (a ++ c :: b) = some (a, b) := by
  induction a with
  | nil => simp [splitLast, splitLast_none c b h]
  | cons x xs ih => simp [splitLast, ih]

theorem lowerChar_of_not_upper (c : Char) (h : isUpperAscii c = false) : lowerChar c = c := by
  unfold isUpperAscii at h
  unfold lowerChar
  rw [if_neg (by simpa using h)]

theorem normalize_id (cs : List Char)
    (h : ∀ c ∈ cs, 33 ≤ c.toNat ∧ c.toNat ≤ 126 ∧ isUpperAscii c = false) :
    bech32Normalize cs = some cs := by
  have h1 : cs.any (fun c => decide (c.toNat < 33) || decide (c.toNat > 126)) = false := by
    rw [List.any_eq_false]
    intro c hc
    have := h c hc
    simp; omega
  have h2 : cs.any isUpperAscii = false := by
    rw [List.any_eq_false]
    intro c hc
    simp [(h c hc).2.2]
  unfold bech32Normalize
  simp [h1, h2]
/-! ### the other direction: encode undoes decode -/

theorem natBits8_bitsNat (g : List Bool) (h : g.length = 8) : natBits 8 (bitsNat g) = g := by
  match g, h with
  | [a, b, c, d, e, f, x, y], _ =>
    cases a <;> cases b <;> cases c <;> cases d <;> cases e <;> cases f <;> cases x <;> cases y <;> decide

theorem natBits8_ofNat_bitsNat (g : List Bool) (h : g.length = 8) :
    natBits 8 (UInt8.ofNat (bitsNat g)).toNat = g := by
  have hl := bitsNat_lt g
  rw [h] at hl
  rw [UInt8.toNat_ofNat', Nat.mod_eq_of_lt (by omega)]
  exact natBits8_bitsNat g h

theorem bitsNat_eq_zero (bs : List Bool) (h : bitsNat bs = 0) : bs = List.replicate bs.length false := by
  induction bs with
  | nil => rfl
  | cons b bs ih =>
    simp only [bitsNat] at h
    have hp : 0 < 2 ^ bs.length := Nat.pow_pos (by decide)
    cases b with
    | true => simp at h <;> omega
    | false =>
      simp at h
      rw [List.length_cons, List.replicate_succ, ← ih h]

theorem length_bits5 (data : Bytes) : (data.flatMap fun b => natBits 5 b.toNat).length = 5 * data.length := by
  induction data with
  | nil => rfl
  | cons b bs ih => simp only [List.flatMap_cons, List.length_append, natBits_length, ih, List.length_cons]; omega

theorem flatMap_natBits5_inj (xs ys : Bytes) (hx : ∀ o ∈ xs, o.toNat < 32) (hy : ∀ o ∈ ys, o.toNat < 32)
    (h : (xs.flatMap fun b => natBits 5 b.toNat) = ys.flatMap fun b => natBits 5 b.toNat) : xs = ys := by
  induction xs generalizing ys with
  | nil =>
    cases ys with
    | nil => rfl
    | cons y ys =>
      have := congrArg List.length h
      rw [length_bits5, length_bits5] at this
      simp at this
  | cons x xs ih =>
    cases ys with
    | nil =>
      have := congrArg List.length h
      rw [length_bits5, length_bits5] at this
      simp at this
    | cons y ys =>
      simp only [List.flatMap_cons] at h
      have ⟨h1, h2⟩ := List.append_inj h (by simp [natBits_length])
      have hxy : x = y := by
        have := congrArg bitsNat h1
        rw [bitsNat_natBits, bitsNat_natBits] at this
        have a := hx x (by simp)
        have b := hy y (by simp)
        apply UInt8.toNat_inj.1
        omega
      rw [hxy, ih ys (fun o ho => hx o (by simp [ho])) (fun o ho => hy o (by simp [ho])) h2]

/-- 8→5 with padding undoes 5→8 without padding -/
theorem convertBits_5_8_5 (data bz : Bytes) (hd : ∀ o ∈ data, o.toNat < 32)
    (h : convertBits data 5 8 false = some bz) : convertBits bz 8 5 true = some data := by
  unfold convertBits at h ⊢
  generalize hb : (data.flatMap fun b => natBits 5 b.toNat) = bits5 at h
  have hq : 8 * (bits5.length / 8) ≤ bits5.length := Nat.mul_div_le _ _
  have hlen := chunkN_length_of_mem 8 (bits5.length / 8) bits5 hq
  have hbz : bz = (chunkN 8 (bits5.length / 8) bits5).map (fun g => UInt8.ofNat (bitsNat g)) ∧
      (bits5.drop (8 * (bits5.length / 8))).length ≤ 4 ∧ bitsNat (bits5.drop (8 * (bits5.length / 8))) = 0 := by
    unfold regroup at h
    by_cases hr : (bits5.drop (8 * (bits5.length / 8))).isEmpty = true
    · simp only [hr, if_true] at h
      have : bits5.drop (8 * (bits5.length / 8)) = [] := by simpa using hr
      rw [this]
      exact ⟨(Option.some.inj h).symm, by simp, rfl⟩
    · simp only [hr] at h
      by_cases hc : ((bits5.drop (8 * (bits5.length / 8))).length > 4 ||
          bitsNat (bits5.drop (8 * (bits5.length / 8))) ≠ 0) = true
      · rw [if_pos hc] at h; simp at h
      · simp only [Bool.false_eq_true, if_false, hc] at h
        simp only [Bool.or_eq_true, decide_eq_true_eq, not_or, Nat.not_lt, ne_eq, Decidable.not_not] at hc
        exact ⟨(Option.some.inj h).symm, hc.1, hc.2⟩
  obtain ⟨hbz, hr4, hr0⟩ := hbz
  have hbits8 : (bz.flatMap fun b => natBits 8 b.toNat) = bits5.take (8 * (bits5.length / 8)) := by
    rw [hbz, flatMap_map_id _ (fun g => UInt8.ofNat (bitsNat g)) (fun b => natBits 8 b.toNat)
      (fun c hc => natBits8_ofNat_bitsNat c (hlen c hc)), flatten_chunkN]
  have hsplit : bits5 = (bz.flatMap fun b => natBits 8 b.toNat) ++
      List.replicate (bits5.drop (8 * (bits5.length / 8))).length false := by
    rw [hbits8, ← bitsNat_eq_zero _ hr0, List.take_append_drop]
  obtain ⟨out, k, h1, hk, h2, h3⟩ := regroup5_spec (bz.flatMap fun b => natBits 8 b.toNat)
  rw [h1]
  congr 1
  apply flatMap_natBits5_inj out data h3 hd
  rw [h2, hb, hsplit]
  have e1 := congrArg List.length h2
  have e2 := congrArg List.length hb
  have e3 := congrArg List.length hsplit
  rw [length_bits5, List.length_append, List.length_replicate] at e1
  rw [length_bits5] at e2
  rw [List.length_append, List.length_replicate] at e3
  have : k = (bits5.drop (8 * (bits5.length / 8))).length := by omega
  rw [this]
theorem charsetIndex_some (c : Char) (v : Nat) (h : charsetIndex? c = some v) : v < 32 ∧ charsetChar v = c := by
  unfold charsetIndex? at h
  simp only at h
  split at h
  · rename_i hlt
    cases h
    refine ⟨hlt, ?_⟩
    have hl : bech32Charset.findIdx (· = c) < bech32Charset.length := hlt
    have := List.findIdx_getElem (w := hl)
    simp only [decide_eq_true_eq] at this
    unfold charsetChar
    rw [List.getD_eq_getElem?_getD, List.getElem?_eq_getElem hl]
    exact this
  · cases h

theorem charsetDecode_some (cs : List Char) : ∀ vs, charsetDecode cs = some vs →
    cs = vs.map charsetChar ∧ ∀ v ∈ vs, v < 32 := by
  induction cs with
  | nil => intro vs h; cases h; exact ⟨rfl, by simp⟩
  | cons c cs ih =>
    intro vs h
    unfold charsetDecode at h
    split at h
    · rename_i v vs' h1 h2
      cases h
      have ⟨a, b⟩ := charsetIndex_some c v h1
      have ⟨e, f⟩ := ih vs' h2
      refine ⟨by rw [List.map_cons, b, ← e], ?_⟩
      intro x hx
      rcases List.mem_cons.1 hx with rfl | hx
      · exact a
      · exact f x hx
    · cases h

theorem splitLast_some (c : Char) (cs : List Char) : ∀ a b, splitLast c cs = some (a, b) → cs = a ++ c :: b := by
  induction cs with
  | nil => intro a b h; cases h
  | cons x xs ih =>
    intro a b h
    cases hs : splitLast c xs with
    | some p =>
      obtain ⟨a', b'⟩ := p
      simp only [splitLast, hs] at h
      have h' := Prod.mk.inj (Option.some.inj h)
      rw [← h'.1, ← h'.2, List.cons_append, ← ih a' b' hs]
    | none =>
      simp only [splitLast, hs] at h
      split at h
      · rename_i hx
        cases h
        rw [hx]; rfl
      · cases h

theorem lower_not_upper : ∀ n ≤ 126, isUpperAscii (lowerChar (Char.ofNat n)) = false := by decide

theorem normalize_some (cs cs' : List Char) (h : bech32Normalize cs = some cs') :
    cs' = cs.map lowerChar ∧ ∀ c ∈ cs', isUpperAscii c = false := by
  unfold bech32Normalize at h
  split at h
  · cases h
  · rename_i hr
    have hrange : ∀ c ∈ cs, c.toNat ≤ 126 := by
      intro c hc
      have := (by simpa using hr : ∀ x ∈ cs, 33 ≤ x.toNat ∧ x.toNat ≤ 126) c hc
      omega
    split at h
    · cases h
    · split at h
      · cases h
        refine ⟨rfl, ?_⟩
        intro c hc
        rcases List.mem_map.1 hc with ⟨d, hd, rfl⟩
        have := lower_not_upper d.toNat (hrange d hd)
        rwa [Char.ofNat_toNat] at this
      · rename_i hu
        cases h
        have hno : ∀ c ∈ cs, isUpperAscii c = false := by
          intro c hc
          exact (by simpa using hu : ∀ x ∈ cs, isUpperAscii x = false) c hc
        refine ⟨?_, hno⟩
        conv => lhs; rw [← List.map_id cs]
        exact List.map_congr_left fun c hc => (lowerChar_of_not_upper c (hno c hc)).symm

/-- a verifying checksum is the written one -/
theorem checksum_unique (hrp : List Char) (values cks : List Nat) (hl : cks.length = 6)
    (hc : ∀ c ∈ cks, c < 32) (h : bech32Polymod hrp values cks = 1) : cks = bech32Checksum hrp values := by
  have hlt : bech32Polymod hrp values [0, 0, 0, 0, 0, 0] < 2 ^ 30 := by
    unfold bech32Polymod
    rw [show ([0, 0, 0, 0, 0, 0] : List Nat) = [0, 0, 0, 0, 0] ++ [0] from rfl, ← List.append_assoc,
      List.foldl_append]
    exact polymodStep_lt _ 0 (by decide)
  have key := foldl_polymod_xor cks ((hrpExpand hrp ++ values).foldl polymodStep 1) 0 hc (by omega)
    (by rw [hl]; decide)
  rw [Nat.xor_zero] at key
  unfold bech32Polymod at h
  rw [List.foldl_append, key, hl] at h
  have hz : (List.replicate 6 0).foldl polymodStep
      ((hrpExpand hrp ++ values).foldl polymodStep 1) = bech32Polymod hrp values [0, 0, 0, 0, 0, 0] := by
    unfold bech32Polymod
    rw [List.foldl_append (l' := [0, 0, 0, 0, 0, 0])]
    rfl
  rw [hz] at h
  -- pack 0 cks = P ^^^ 1
  have hp : pack 0 cks = bech32Polymod hrp values [0, 0, 0, 0, 0, 0] ^^^ 1 := by
    have := congrArg (bech32Polymod hrp values [0, 0, 0, 0, 0, 0] ^^^ ·) h
    simp only [← Nat.xor_assoc, Nat.xor_self, Nat.zero_xor] at this
    exact this
  unfold bech32Checksum
  simp only
  rw [← hp]
  match cks, hl with
  | [c1, c2, c3, c4, c5, c6], _ =>
    have b1 := hc c1 (by simp)
    have b2 := hc c2 (by simp)
    have b3 := hc c3 (by simp)
    have b4 := hc c4 (by simp)
    have b5 := hc c5 (by simp)
    have b6 := hc c6 (by simp)
    have hm : ∀ x : Nat, x &&& 31 = x % 32 := fun x => Nat.and_two_pow_sub_one_eq_mod x 5
    simp only [pack, List.foldl_cons, List.foldl_nil, hm]
    rw [shl_xor_eq_add _ _ b1, shl_xor_eq_add _ _ b2, shl_xor_eq_add _ _ b3, shl_xor_eq_add _ _ b4,
      shl_xor_eq_add _ _ b5, shl_xor_eq_add _ _ b6]
    simp only [Nat.shiftRight_eq_div_pow]
    generalize hN : ((((((0 * 32 + c1) * 32 + c2) * 32 + c3) * 32 + c4) * 32 + c5) * 32 + c6) = N
    have e1 : c1 = N / 2 ^ 25 % 32 := by omega
    have e2 : c2 = N / 2 ^ 20 % 32 := by omega
    have e3 : c3 = N / 2 ^ 15 % 32 := by omega
    have e4 : c4 = N / 2 ^ 10 % 32 := by omega
    have e5 : c5 = N / 2 ^ 5 % 32 := by omega
    have e6 : c6 = N % 32 := by omega
    rw [← e1, ← e2, ← e3, ← e4, ← e5, ← e6]

/-- `Encode` undoes `Decode`: an accepted text is the encoding of what it decodes to, in lower case -/
theorem bech32Encode_of_decode (cs : List Char) (limit : Nat) (hrp : List Char) (data : Bytes)
    (h : bech32Decode cs limit = some (hrp, data)) :
    (∀ o ∈ data, o.toNat < 32) ∧ bech32Encode hrp data = some (cs.map lowerChar) := by
  unfold bech32Decode at h
  split at h
  · cases h
  split at h
  · cases h
  split at h
  · cases h
  rename_i cs' hn
  obtain ⟨hcs', hnoup⟩ := normalize_some cs cs' hn
  split at h
  · cases h
  rename_i hrp' rest hs
  have hsplit := splitLast_some '1' cs' hrp' rest hs
  split at h
  · cases h
  rename_i hcond
  split at h
  · cases h
  rename_i dec hdec
  obtain ⟨hrest, hdec32⟩ := charsetDecode_some rest dec hdec
  simp only at h
  split at h
  · rename_i hpoly
    have h' := Prod.mk.inj (Option.some.inj h)
    have hrl : ¬ rest.length < 6 := by
      intro hlt; apply hcond; simp [hlt]
    have hdl : 6 ≤ dec.length := by
      have := congrArg List.length hrest
      rw [List.length_map] at this
      omega
    have hv32 : ∀ v ∈ dec.take (dec.length - 6), v < 32 := fun v hv => hdec32 v (List.mem_of_mem_take hv)
    have hck := checksum_unique hrp' (dec.take (dec.length - 6)) (dec.drop (dec.length - 6))
      (by rw [List.length_drop]; omega) (fun v hv => hdec32 v (List.mem_of_mem_drop hv)) hpoly
    have hdata : data.map (·.toNat) = dec.take (dec.length - 6) := by
      rw [← h'.2, List.map_map]
      conv => rhs; rw [← List.map_id (dec.take (dec.length - 6))]
      apply List.map_congr_left
      intro v hv
      have := hv32 v hv
      simp only [Function.comp, UInt8.toNat_ofNat', id]
      omega
    have hd32 : ∀ o ∈ data, o.toNat < 32 := by
      intro o ho
      have : o.toNat ∈ data.map (·.toNat) := List.mem_map.2 ⟨o, ho, rfl⟩
      rw [hdata] at this
      exact hv32 _ this
    refine ⟨hd32, ?_⟩
    have hany : data.any (fun b => decide (b.toNat ≥ 32)) = false := by
      rw [List.any_eq_false]; intro o ho; have := hd32 o ho; simp; omega
    have hlow : hrp.map lowerChar = hrp := by
      conv => rhs; rw [← List.map_id hrp]
      apply List.map_congr_left
      intro c hc
      apply lowerChar_of_not_upper
      apply hnoup
      rw [hsplit, h'.1]
      exact List.mem_append_left _ hc
    simp only [bech32Encode, hany, hlow, hdata]
    rw [← h'.1, ← hck, List.take_append_drop, ← hrest, ← hsplit, hcs']
    rfl
  · cases h

/-- cosmos-sdk level: `ConvertAndEncode` undoes `DecodeAndConvert` up to case -/
theorem convertAndEncode_of_decodeAndConvert (s hrp : String) (bz : Bytes)
    (h : decodeAndConvert s = some (hrp, bz)) :
    convertAndEncode hrp bz = some (String.ofList (s.toList.map lowerChar)) := by
  unfold decodeAndConvert at h
  split at h
  · cases h
  rename_i hrp' data hd
  obtain ⟨h32, henc⟩ := bech32Encode_of_decode _ _ _ _ hd
  cases hc : convertBits data 5 8 false with
  | none => rw [hc] at h; cases h
  | some bz' =>
    rw [hc] at h
    have h' := Prod.mk.inj (Option.some.inj h)
    have hback := convertBits_5_8_5 data bz' h32 hc
    rw [← h'.1, ← h'.2]
    simp only [convertAndEncode, hback, String.toList_ofList, henc, Option.map_some]
end PvProofs.Bech32Lemmas
