/-
Helper lemmas for C07: what each keeper function of the model does to the store
(records, suffix index), to the record total and to the invariants.
-/
import PvProofs.Lemmas.QuarKV

namespace PvProofs.QuarL
open PvModel PvModel.Quar

/-- the key `SetQuarantineRecord` writes a record under -/
abbrev keyOf (r : Record) : Suffix := createRecordSuffix r.getAllFromAddrs

/-- Store invariants of the quarantine module. -/
structure StoreInv (s : State) : Prop where
  key : KeyOK s
  nodup : KeysNodup s
  nfa : NoneFullyAccepted s
  idx : IndexOK s
  nonneg : RecsNonneg s

/-- everything except the record store / index / ghosts is the same -/
structure SameRest (s s' : State) : Prop where
  holder : s'.holder = s.holder
  restricted : s'.restricted = s.restricted
  xfer : s'.xfer = s.xfer
  optin : s'.optin = s.optin
  auto : s'.auto = s.auto

theorem SameRest.refl (s : State) : SameRest s s := ⟨rfl, rfl, rfl, rfl, rfl⟩
theorem SameRest.trans {a b c : State} (h1 : SameRest a b) (h2 : SameRest b c) : SameRest a c :=
  ⟨h2.holder.trans h1.holder, h2.restricted.trans h1.restricted, h2.xfer.trans h1.xfer,
   h2.optin.trans h1.optin, h2.auto.trans h1.auto⟩

/-! ### the responses only depend on `optin` / `auto` -/

theorem getAutoResponse_congr {s s' : State} (h : s'.auto = s.auto) (to f : Addr) :
    getAutoResponse s' to f = getAutoResponse s to f := by
  unfold getAutoResponse; rw [h]

theorem isAutoAccept_congr {s s' : State} (h : s'.auto = s.auto) (to : Addr) (fs : List Addr) :
    isAutoAccept s' to fs = isAutoAccept s to fs := by
  unfold isAutoAccept; simp only [getAutoResponse_congr h]

theorem isAutoDecline_congr {s s' : State} (h : s'.auto = s.auto) (to : Addr) (fs : List Addr) :
    isAutoDecline s' to fs = isAutoDecline s to fs := by
  unfold isAutoDecline; simp only [getAutoResponse_congr h]

theorem isQuarantinedAddr_congr {s s' : State} (h : s'.optin = s.optin) (a : Addr) :
    isQuarantinedAddr s' a = isQuarantinedAddr s a := by
  unfold isQuarantinedAddr; rw [h]

theorem quarantines_congr {s s' : State} (h : SameRest s s') (f t : Addr) :
    quarantines s' f t = quarantines s f t := by
  unfold quarantines
  rw [isQuarantinedAddr_congr h.optin, getAutoResponse_congr h.auto, h.holder]

/-! ### suffix index -/

theorem getIdx_setIdx_ne (idx : Index) {to f t g : Addr} (v : List Suffix) (h : (t, g) ≠ (to, f)) :
    getIdx (setIdx idx to f v) t g = getIdx idx t g := by
  unfold getIdx setIdx
  split
  · rw [kvGet_kvDel_ne _ h]
  · rw [kvGet_kvSet_ne _ _ h]

theorem mem_getIdx_setIdx_self (idx : Index) (to f : Addr) {v : List Suffix} {x : Suffix} (h : x ∈ v) :
    x ∈ getIdx (setIdx idx to f v) to f := by
  unfold getIdx setIdx
  have : v.isEmpty = false := by
    cases v with
    | nil => simp at h
    | cons a b => rfl
  simp [this, kvGet_kvSet_self, h]

theorem not_mem_singleton_of_length {x : Suffix} {f : Addr} (h : x.length ≠ 1) : x ≠ [f] := by
  intro e; subst e; simp at h

theorem mem_addIdx_of_mem {x : Suffix} {t g : Addr} (to : Addr) (K : Suffix) (fs : List Addr) :
    ∀ (idx : Index), x ∈ getIdx idx t g → x.length ≠ 1 → x ∈ getIdx (addIdx idx to K fs) t g := by
  induction fs with
  | nil => intro idx h _; exact h
  | cons f fs ih =>
    intro idx h hl
    unfold addIdx
    apply ih _ _ hl
    by_cases hk : (t, g) = (to, f)
    · obtain ⟨rfl, rfl⟩ := Prod.mk.inj hk
      apply mem_getIdx_setIdx_self
      rw [mem_simplify]
      exact ⟨List.mem_append_left _ h, by simp [not_mem_singleton_of_length hl]⟩
    · rw [getIdx_setIdx_ne _ _ hk]; exact h

theorem mem_addIdx_self {to f : Addr} {K : Suffix} (hl : K.length ≠ 1) (fs : List Addr) :
    ∀ (idx : Index), f ∈ fs → K ∈ getIdx (addIdx idx to K fs) to f := by
  induction fs with
  | nil => intro idx h; simp at h
  | cons g fs ih =>
    intro idx h
    unfold addIdx
    rcases List.mem_cons.mp h with h | h
    · subst h
      apply mem_addIdx_of_mem _ _ _ _ _ hl
      apply mem_getIdx_setIdx_self
      rw [mem_simplify]
      exact ⟨by simp, by simp [not_mem_singleton_of_length hl]⟩
    · exact ih _ h

theorem mem_delIdx_of_mem {x : Suffix} {t g : Addr} (to : Addr) (K : Suffix) (fs : List Addr) :
    ∀ (idx : Index), x ∈ getIdx idx t g → x.length ≠ 1 → (t = to → x ≠ K) →
      x ∈ getIdx (delIdx idx to K fs) t g := by
  induction fs with
  | nil => intro idx h _ _; exact h
  | cons f fs ih =>
    intro idx h hl hK
    unfold delIdx
    apply ih _ _ hl hK
    by_cases hk : (t, g) = (to, f)
    · obtain ⟨rfl, rfl⟩ := Prod.mk.inj hk
      apply mem_getIdx_setIdx_self
      rw [mem_simplify]
      exact ⟨h, by simp [not_mem_singleton_of_length hl, hK rfl]⟩
    · rw [getIdx_setIdx_ne _ _ hk]; exact h

/-! ### SetQuarantineRecord -/

theorem setQR_sameRest (s : State) (to : Addr) (r : Record) : SameRest s (setQuarantineRecord s to r) := by
  unfold setQuarantineRecord
  split <;> exact ⟨rfl, rfl, rfl, rfl, rfl⟩

@[simp] theorem setQR_bank (s : State) (to : Addr) (r : Record) : (setQuarantineRecord s to r).bank = s.bank := by
  unfold setQuarantineRecord; split <;> rfl
@[simp] theorem setQR_qin (s : State) (to : Addr) (r : Record) : (setQuarantineRecord s to r).qin = s.qin := by
  unfold setQuarantineRecord; split <;> rfl
@[simp] theorem setQR_qout (s : State) (to : Addr) (r : Record) : (setQuarantineRecord s to r).qout = s.qout := by
  unfold setQuarantineRecord; split <;> rfl
@[simp] theorem setQR_holder (s : State) (to : Addr) (r : Record) : (setQuarantineRecord s to r).holder = s.holder :=
  (setQR_sameRest s to r).holder

theorem setQR_recs (s : State) (to : Addr) (r : Record) :
    (setQuarantineRecord s to r).recs =
      if r.isFullyAccepted then kvDel s.recs (to, keyOf r) else kvSet s.recs (to, keyOf r) r := by
  unfold setQuarantineRecord; split <;> rfl

theorem setQR_index (s : State) (to : Addr) (r : Record) :
    (setQuarantineRecord s to r).index =
      if r.getAllFromAddrs.length > 1 then
        (if r.isFullyAccepted then delIdx s.index to (keyOf r) r.getAllFromAddrs
         else addIdx s.index to (keyOf r) r.getAllFromAddrs)
      else s.index := by
  unfold setQuarantineRecord
  by_cases h1 : r.isFullyAccepted = true <;> by_cases h2 : r.getAllFromAddrs.length > 1 <;> simp [h1, h2]

theorem setQR_get_ne (s : State) (to : Addr) (r : Record) {k : Addr × Suffix} (h : k ≠ (to, keyOf r)) :
    kvGet (setQuarantineRecord s to r).recs k = kvGet s.recs k := by
  rw [setQR_recs]; split
  · exact kvGet_kvDel_ne _ h
  · exact kvGet_kvSet_ne _ _ h

theorem setQR_get_self (s : State) (to : Addr) (r : Record) (hn : KeysNodup s) :
    kvGet (setQuarantineRecord s to r).recs (to, keyOf r) = if r.isFullyAccepted then none else some r := by
  rw [setQR_recs]; split
  · exact kvGet_kvDel_self _ hn
  · exact kvGet_kvSet_self _ _ _

theorem outstanding_setQR (s : State) (to : Addr) (r : Record) (d : Denom) :
    outstanding (setQuarantineRecord s to r) d =
      outstanding s d - Coins.amountOf (coinsAt s to (keyOf r)) d
        + (if r.isFullyAccepted then 0 else Coins.amountOf r.coins d) := by
  unfold outstanding
  rw [setQR_recs, coinsAt_eq]
  split
  · rw [sumRecs_kvDel]; omega
  · rw [sumRecs_kvSet]

theorem outstandingFor_setQR (s : State) (to : Addr) (r : Record) (t : Addr) (d : Denom) :
    outstandingFor (setQuarantineRecord s to r) t d =
      outstandingFor s t d + (if to = t then
        (if r.isFullyAccepted then 0 else Coins.amountOf r.coins d) - Coins.amountOf (coinsAt s to (keyOf r)) d else 0) := by
  unfold outstandingFor
  rw [setQR_recs, coinsAt_eq]
  split
  · rw [sumRecsFor_kvDel]; simp only; split <;> omega
  · rw [sumRecsFor_kvSet]

theorem keyOf_length_gt {r : Record} (h : 1 < r.getAllFromAddrs.length) : (keyOf r).length ≠ 1 := by
  simp only [keyOf, createRecordSuffix_length]; omega

theorem inv_setQR {s : State} (inv : StoreInv s) (to : Addr) (r : Record)
    (hr : ∀ d, 0 ≤ Coins.amountOf r.coins d) : StoreInv (setQuarantineRecord s to r) := by
  have hrecs := setQR_recs s to r
  refine ⟨?_, ?_, ?_, ?_, ?_⟩
  · -- KeyOK
    intro e he
    rw [hrecs] at he
    split at he
    · exact inv.key e (mem_kvDel he)
    · rcases mem_kvSet he with h | h
      · subst h; rfl
      · exact inv.key e h
  · -- KeysNodup
    unfold KeysNodup
    rw [hrecs]; split
    · exact nodup_kvDel _ inv.nodup
    · exact nodup_kvSet _ _ inv.nodup
  · -- NoneFullyAccepted
    intro e he
    rw [hrecs] at he
    split at he
    · exact inv.nfa e (mem_kvDel he)
    · rename_i hfa
      rcases mem_kvSet he with h | h
      · subst h; simpa using hfa
      · exact inv.nfa e h
  · -- IndexOK
    intro e he hlen f hf
    rw [hrecs] at he
    rw [setQR_index]
    cases hfa : r.isFullyAccepted
    · simp only [hfa, Bool.false_eq_true, if_false] at he ⊢
      rcases mem_kvSet he with h | h
      · subst h
        simp only at hlen hf ⊢
        rw [if_pos hlen]
        exact mem_addIdx_self (keyOf_length_gt hlen) _ _ hf
      · have hold := inv.idx e h hlen f hf
        have hkl : e.1.2.length ≠ 1 := by rw [inv.key e h]; exact keyOf_length_gt hlen
        split
        · exact mem_addIdx_of_mem _ _ _ _ hold hkl
        · exact hold
    · simp only [hfa, if_true] at he ⊢
      have hne := key_ne_of_mem_kvDel inv.nodup he
      have hmem := mem_kvDel he
      have hold := inv.idx e hmem hlen f hf
      have hkl : e.1.2.length ≠ 1 := by rw [inv.key e hmem]; exact keyOf_length_gt hlen
      split
      · apply mem_delIdx_of_mem _ _ _ _ hold hkl
        intro ht hk
        apply hne
        exact Prod.ext ht hk
      · exact hold
  · -- RecsNonneg
    intro e he
    rw [hrecs] at he
    split at he
    · exact inv.nonneg e (mem_kvDel he)
    · rcases mem_kvSet he with h | h
      · subst h; exact hr
      · exact inv.nonneg e h

/-! ### AddQuarantinedCoins -/

/-- what a successful `AddQuarantinedCoins` does -/
structure AddQ (s s' : State) (c : Coins) (to : Addr) (froms : List Addr) : Prop where
  inv : StoreInv s'
  rest : SameRest s s'
  bank : s'.bank = s.bank
  qin : s'.qin = Coins.add s.qin c
  qout : s'.qout = s.qout
  out : ∀ d, outstanding s' d = outstanding s d + Coins.amountOf c d
  at_key : ∀ d, Coins.amountOf (coinsAt s' to (createRecordSuffix froms)) d
      = Coins.amountOf (coinsAt s to (createRecordSuffix froms)) d + Coins.amountOf c d
  other : ∀ k, k ≠ (to, createRecordSuffix froms) → kvGet s'.recs k = kvGet s.recs k
  outFor : ∀ t d, outstandingFor s' t d = outstandingFor s t d + (if to = t then Coins.amountOf c d else 0)
  /-- the record written: the existing one topped up, or a new one split by the auto-accept settings -/
  written : kvGet s'.recs (to, createRecordSuffix froms)
      = some { toppedUpOrNew s c to froms with declined := isAutoDecline s to froms }

theorem inv_with_qin {s : State} (inv : StoreInv s) (q : Coins) : StoreInv { s with qin := q } :=
  ⟨inv.key, inv.nodup, inv.nfa, inv.idx, inv.nonneg⟩

theorem inv_with_bank_qout {s : State} (inv : StoreInv s) (b : Ledger) (q : Coins) : StoreInv { s with bank := b, qout := q } :=
  ⟨inv.key, inv.nodup, inv.nfa, inv.idx, inv.nonneg⟩

theorem partition_perm (p : Addr → Bool) (l : List Addr) :
    (l.filter (fun f => !p f) ++ l.filter p).Perm l := by
  have h := List.filter_append_perm (fun f => !p f) l
  simpa using h

theorem coinsAt_nonneg {s : State} (inv : StoreInv s) (to : Addr) (sfx : Suffix) (d : Denom) :
    0 ≤ Coins.amountOf (coinsAt s to sfx) d := by
  unfold coinsAt
  cases hg : kvGet s.recs (to, sfx) with
  | none => simp
  | some r => exact inv.nonneg _ (mem_of_kvGet hg) d

theorem addQuarantinedCoins_ok {s s' : State} {c : Coins} {to : Addr} {froms : List Addr}
    (inv : StoreInv s) (hc : ∀ d, 0 ≤ Coins.amountOf c d)
    (h : addQuarantinedCoins s c to froms = .ok s') : AddQ s s' c to froms := by
  unfold addQuarantinedCoins at h
  generalize hqr : toppedUpOrNew s c to froms = qr at h
  have hkey : keyOf qr = createRecordSuffix froms ∧
      ∀ d, Coins.amountOf qr.coins d = Coins.amountOf (coinsAt s to (createRecordSuffix froms)) d + Coins.amountOf c d := by
    unfold toppedUpOrNew getQuarantineRecord at hqr
    unfold coinsAt
    cases hget : kvGet s.recs (to, createRecordSuffix froms) with
    | some r =>
      rw [hget] at hqr
      subst hqr
      have := inv.key _ (mem_of_kvGet hget)
      simp only at this
      exact ⟨this.symm, fun d => by simp [Record.addCoins]⟩
    | none =>
      rw [hget] at hqr
      subst hqr
      refine ⟨createRecordSuffix_perm ?_, fun d => by simp⟩
      exact partition_perm _ _
  by_cases hfa : qr.isFullyAccepted = true
  · simp [hfa] at h
  · simp only [hfa] at h
    simp only [Bool.false_eq_true, if_false, Except.ok.injEq] at h
    generalize hqr' : ({ qr with declined := isAutoDecline s to froms } : Record) = qr' at h
    have hk' : keyOf qr' = createRecordSuffix froms := by rw [← hqr']; exact hkey.1
    have hfa' : qr'.isFullyAccepted = false := by rw [← hqr']; simpa [Record.isFullyAccepted] using hfa
    have hc' : qr'.coins = qr.coins := by rw [← hqr']
    have inv1 : StoreInv { s with qin := Coins.add s.qin c } := inv_with_qin inv _
    subst h
    have hnn : ∀ d, 0 ≤ Coins.amountOf qr'.coins d := by
      intro d
      rw [hc', hkey.2 d]
      have := coinsAt_nonneg inv to (createRecordSuffix froms) d
      have := hc d
      omega
    refine ⟨inv_setQR inv1 _ _ hnn, (show SameRest s { s with qin := Coins.add s.qin c } from ⟨rfl, rfl, rfl, rfl, rfl⟩).trans (setQR_sameRest _ _ _), by simp, by simp, by simp, ?_, ?_, ?_, ?_, ?_⟩
    · intro d
      rw [outstanding_setQR, hk', hfa']
      have := hkey.2 d
      simp only [Bool.false_eq_true, if_false]
      rw [hc']
      show outstanding s d - Coins.amountOf (coinsAt s to (createRecordSuffix froms)) d + Coins.amountOf qr.coins d = _
      omega
    · intro d
      have hg := setQR_get_self { s with qin := Coins.add s.qin c } to qr' inv1.nodup
      rw [hk', hfa'] at hg
      simp only [Bool.false_eq_true, if_false] at hg
      have : coinsAt (setQuarantineRecord { s with qin := Coins.add s.qin c } to qr') to (createRecordSuffix froms) = qr.coins := by
        unfold coinsAt; rw [hg]; exact hc'
      rw [this]
      exact hkey.2 d
    · intro k hk
      rw [← hk'] at hk
      exact setQR_get_ne _ _ _ hk
    · intro t d
      rw [outstandingFor_setQR, hk', hfa']
      have := hkey.2 d
      simp only [Bool.false_eq_true, if_false]
      rw [hc']
      show outstandingFor s t d + (if to = t then Coins.amountOf qr.coins d - Coins.amountOf (coinsAt s to (createRecordSuffix froms)) d else 0) = _
      split <;> omega
    · have hg := setQR_get_self { s with qin := Coins.add s.qin c } to qr' inv1.nodup
      rw [hk', hfa'] at hg
      simp only [Bool.false_eq_true, if_false] at hg
      rw [hqr, hqr']
      exact hg

/-! ### the send restriction -/

theorem isAutoAccept_singleton (s : State) (to f : Addr) :
    isAutoAccept s to [f] = decide (getAutoResponse s to f = .accept) := by
  simp [isAutoAccept]

/-- the Go condition for redirecting to the holder is the documented one -/
theorem restriction_passes_iff (s : State) (f t : Addr) :
    ((f = t ∨ f = s.holder) ∨ (!isQuarantinedAddr s t || isAutoAccept s t [f]) = true) ↔ quarantines s f t = false := by
  unfold quarantines
  rw [isAutoAccept_singleton]
  by_cases h1 : f = s.holder
  · simp [h1]
  · by_cases h2 : f = t
    · subst h2
      simp [getAutoResponse]
    · cases h3 : isQuarantinedAddr s t <;> by_cases h4 : getAutoResponse s t f = .accept <;> simp [h1, h2, h4]

/-- what a successful call of the quarantine send restriction does (no context bypass) -/
theorem sendRestrictionFn_ok {s s' : State} {f t dest : Addr} {amt : Coins} (inv : StoreInv s)
    (hc : ∀ d, 0 ≤ Coins.amountOf amt d)
    (h : sendRestrictionFn s false f t amt = .ok (s', dest)) :
    (quarantines s f t = false ∧ s' = s ∧ dest = t) ∨
    (quarantines s f t = true ∧ dest = s.holder ∧ AddQ s s' amt t [f]) := by
  unfold sendRestrictionFn at h
  simp only [Bool.false_eq_true, if_false] at h
  by_cases h1 : f = t ∨ f = s.holder
  · simp only [h1, if_true, Except.ok.injEq, Prod.mk.injEq] at h
    exact Or.inl ⟨(restriction_passes_iff s f t).mp (Or.inl h1), h.1.symm, h.2.symm⟩
  · simp only [h1, if_false] at h
    by_cases h2 : (!isQuarantinedAddr s t || isAutoAccept s t [f]) = true
    · simp only [h2, if_true, Except.ok.injEq, Prod.mk.injEq] at h
      exact Or.inl ⟨(restriction_passes_iff s f t).mp (Or.inr h2), h.1.symm, h.2.symm⟩
    · simp only [h2] at h
      have hq : quarantines s f t = true := by
        cases hq : quarantines s f t
        · exact absurd ((restriction_passes_iff s f t).mpr hq) (by simp [h1, h2])
        · rfl
      cases hadd : addQuarantinedCoins s amt t [f] with
      | error e => simp [hadd] at h
      | ok s1 =>
        simp only [hadd, Bool.false_eq_true, if_false, Except.ok.injEq, Prod.mk.injEq] at h
        obtain ⟨rfl, rfl⟩ := h
        exact Or.inr ⟨hq, rfl, addQuarantinedCoins_ok inv hc hadd⟩

theorem restrictionChain_ok {s s' : State} {b : Bool} {f t dest : Addr} {amt : Coins}
    (h : restrictionChain s b f t amt = .ok (s', dest)) :
    markerAllows s f amt = true ∧ sendRestrictionFn s b f t amt = .ok (s', dest) := by
  unfold restrictionChain at h
  cases hm : markerAllows s f amt
  · simp [hm] at h
  · simpa [hm] using h

/-! ### ledger sums -/

/-- what `a` pays in denom `d` as a sender of the transfers -/
def debitSum (xs : List Xfer) (a : Addr) (d : Denom) : Int :=
  match xs with
  | [] => 0
  | x :: rest => (if x.from_ = a then Coins.amountOf x.amt d else 0) + debitSum rest a d

/-- what `a` receives in denom `d` from the credited outputs -/
def creditSum (outs : List (Addr × Coins)) (a : Addr) (d : Denom) : Int :=
  match outs with
  | [] => 0
  | o :: rest => (if o.1 = a then Coins.amountOf o.2 d else 0) + creditSum rest a d

def totalSum (xs : List Xfer) (d : Denom) : Int :=
  match xs with
  | [] => 0
  | x :: rest => Coins.amountOf x.amt d + totalSum rest d

theorem bal_creditAll (outs : List (Addr × Coins)) :
    ∀ (b : Ledger) (a : Addr) (d : Denom), Ledger.bal (creditAll b outs) a d = Ledger.bal b a d + creditSum outs a d := by
  induction outs with
  | nil => intro b a d; simp [creditAll, creditSum]
  | cons o rest ih =>
    intro b a d
    obtain ⟨x, c⟩ := o
    simp only [creditAll, creditSum, addCoins, ih, Ledger.bal_credit]
    omega

theorem supply_creditAll (outs : List (Addr × Coins)) :
    ∀ (b : Ledger) (d : Denom), Ledger.supply (creditAll b outs) d = Ledger.supply b d + (outs.map fun o => Coins.amountOf o.2 d).sum := by
  induction outs with
  | nil => intro b d; simp [creditAll]
  | cons o rest ih =>
    intro b d
    obtain ⟨x, c⟩ := o
    simp only [creditAll, addCoins, ih, Ledger.supply_credit, List.map_cons, List.sum_cons]
    omega

theorem debitAll_ok (xs : List Xfer) :
    ∀ (b b' : Ledger), debitAll b xs = .ok b' →
      (∀ a d, Ledger.bal b' a d = Ledger.bal b a d - debitSum xs a d) ∧
      (∀ d, Ledger.supply b' d = Ledger.supply b d - totalSum xs d) := by
  induction xs with
  | nil =>
    intro b b' h
    simp only [debitAll, Except.ok.injEq] at h
    subst h
    simp [debitSum, totalSum]
  | cons x rest ih =>
    intro b b' h
    unfold debitAll at h
    cases hs : subUnlockedCoins b x.from_ x.amt with
    | error e => simp [hs] at h
    | ok b1 =>
      simp only [hs] at h
      have hb1 : b1 = Ledger.debit b x.from_ x.amt := by
        unfold subUnlockedCoins at hs
        split at hs
        · injection hs with hs; exact hs.symm
        · cases hs
      obtain ⟨h1, h2⟩ := ih b1 b' h
      subst hb1
      constructor
      · intro a d
        rw [h1, Ledger.bal_debit]
        simp only [debitSum]
        omega
      · intro d
        rw [h2, Ledger.supply_debit]
        simp only [totalSum]
        omega

/-- `subUnlockedCoins` succeeded, so the sender had the coins -/
theorem subUnlockedCoins_ok_le {b b' : Ledger} {a : Addr} {amt : Coins} (h : subUnlockedCoins b a amt = .ok b') :
    ∀ d ∈ Coins.denoms amt, Coins.amountOf amt d ≤ Ledger.bal b a d := by
  unfold subUnlockedCoins at h
  split at h
  · rename_i hall
    intro d hd
    have := List.all_eq_true.mp hall d hd
    simpa using this
  · cases h

/-! ### the restriction fold (no bypass) -/

/-- the outputs the spec expects: each transfer goes to `destOf` evaluated before the message -/
def specOuts (s : State) (xs : List Xfer) : List (Addr × Coins) := xs.map fun x => (destOf s x, x.amt)

structure Applied (s s' : State) (xs : List Xfer) (outs : List (Addr × Coins)) : Prop where
  inv : StoreInv s'
  rest : SameRest s s'
  bank : s'.bank = s.bank
  qout : s'.qout = s.qout
  outs : outs = specOuts s xs
  out : ∀ d, outstanding s' d = outstanding s d + expQuarantined s xs d
  qin : ∀ d, Coins.amountOf s'.qin d = Coins.amountOf s.qin d + expQuarantined s xs d
  single : ∀ to f d, Coins.amountOf (coinsAt s' to [f]) d = Coins.amountOf (coinsAt s to [f]) d + expRecord s xs to f d
  multi : ∀ k : Addr × Suffix, k.2.length ≠ 1 → kvGet s'.recs k = kvGet s.recs k
  outFor : ∀ t d, outstandingFor s' t d = outstandingFor s t d + expQuarantinedFor s xs t d

theorem expQuarantinedFor_congr {s s' : State} (h : SameRest s s') (xs : List Xfer) (t : Addr) (d : Denom) :
    expQuarantinedFor s' xs t d = expQuarantinedFor s xs t d := by
  induction xs with
  | nil => rfl
  | cons x rest ih => simp only [expQuarantinedFor, quarantines_congr h, ih]

theorem expQuarantined_congr {s s' : State} (h : SameRest s s') (xs : List Xfer) (d : Denom) :
    expQuarantined s' xs d = expQuarantined s xs d := by
  induction xs with
  | nil => rfl
  | cons x rest ih => simp only [expQuarantined, quarantines_congr h, ih]

theorem expRecord_congr {s s' : State} (h : SameRest s s') (xs : List Xfer) (to f : Addr) (d : Denom) :
    expRecord s' xs to f d = expRecord s xs to f d := by
  induction xs with
  | nil => rfl
  | cons x rest ih => simp only [expRecord, quarantines_congr h, ih]

theorem specOuts_congr {s s' : State} (h : SameRest s s') (xs : List Xfer) : specOuts s' xs = specOuts s xs := by
  unfold specOuts destOf
  simp only [quarantines_congr h, h.holder]

theorem applyRestrictions_ok (xs : List Xfer) :
    ∀ (s s' : State) (outs : List (Addr × Coins)), StoreInv s → (∀ x ∈ xs, ∀ d, 0 ≤ Coins.amountOf x.amt d) →
      applyRestrictions s false xs = .ok (s', outs) → Applied s s' xs outs := by
  induction xs with
  | nil =>
    intro s s' outs inv _ h
    simp only [applyRestrictions, Except.ok.injEq, Prod.mk.injEq] at h
    obtain ⟨rfl, rfl⟩ := h
    exact ⟨inv, SameRest.refl _, rfl, rfl, rfl, fun d => by simp [expQuarantined], fun d => by simp [expQuarantined],
      fun to f d => by simp [expRecord], fun k _ => rfl, fun t d => by simp [expQuarantinedFor]⟩
  | cons x rest ih =>
    intro s s' outs inv hn h
    have hn' : ∀ y ∈ rest, ∀ d, 0 ≤ Coins.amountOf y.amt d := fun y hy => hn y (List.mem_cons_of_mem _ hy)
    unfold applyRestrictions at h
    cases hr : restrictionChain s false x.from_ x.to x.amt with
    | error e => simp [hr] at h
    | ok p =>
      obtain ⟨s1, dest⟩ := p
      simp only [hr] at h
      cases hrest : applyRestrictions s1 false rest with
      | error e => simp [hrest] at h
      | ok q =>
        obtain ⟨s2, outs2⟩ := q
        simp only [hrest, Except.ok.injEq, Prod.mk.injEq] at h
        obtain ⟨rfl, rfl⟩ := h
        obtain ⟨_, hsr⟩ := restrictionChain_ok hr
        rcases sendRestrictionFn_ok inv (hn x (List.mem_cons_self ..)) hsr with ⟨hq, rfl, rfl⟩ | ⟨hq, rfl, hadd⟩
        · -- delivered directly
          have A := ih s1 s2 outs2 inv hn' hrest
          refine ⟨A.inv, A.rest, A.bank, A.qout, ?_, ?_, ?_, ?_, A.multi, ?_⟩
          · rw [A.outs]; simp [specOuts, destOf, hq]
          · intro d; rw [A.out]; simp [expQuarantined, hq]
          · intro d; rw [A.qin]; simp [expQuarantined, hq]
          · intro to f d; rw [A.single]; simp [expRecord, hq]
          · intro t d; rw [A.outFor]; simp [expQuarantinedFor, hq]
        · -- quarantined
          have A := ih s1 s2 outs2 hadd.inv hn' hrest
          have hsame := hadd.rest
          refine ⟨A.inv, hsame.trans A.rest, A.bank.trans hadd.bank, A.qout.trans hadd.qout, ?_, ?_, ?_, ?_, ?_, ?_⟩
          · rw [A.outs, specOuts_congr hsame]; simp [specOuts, destOf, hq]
          · intro d
            rw [A.out, hadd.out, expQuarantined_congr hsame]
            simp only [expQuarantined, hq, if_true]; omega
          · intro d
            rw [A.qin, hadd.qin, expQuarantined_congr hsame]
            simp only [expQuarantined, hq, if_true, Coins.amountOf_add]; omega
          · intro to f d
            rw [A.single, expRecord_congr hsame]
            simp only [expRecord, hq, true_and]
            by_cases hk : x.to = to ∧ x.from_ = f
            · obtain ⟨rfl, rfl⟩ := hk
              have := hadd.at_key d
              simp only [createRecordSuffix_singleton] at this
              rw [this]; simp; omega
            · have hne : ((to, [f]) : Addr × Suffix) ≠ (x.to, createRecordSuffix [x.from_]) := by
                simp only [createRecordSuffix_singleton]
                intro e
                injection e with e1 e2
                injection e2 with e2 _
                exact hk ⟨e1.symm, e2.symm⟩
              have := hadd.other _ hne
              have hc : coinsAt s1 to [f] = coinsAt s to [f] := by unfold coinsAt; rw [this]
              rw [hc, if_neg hk]; omega
          · intro k hk
            rw [A.multi k hk]
            apply hadd.other
            intro e
            rw [e] at hk
            simp at hk
          · intro t d
            rw [A.outFor, hadd.outFor, expQuarantinedFor_congr hsame]
            simp only [expQuarantinedFor, hq, true_and]
            split <;> omega

/-! ### bankTransfers -/

theorem expDelta_eq (s : State) (xs : List Xfer) (a : Addr) (d : Denom) :
    expDelta s xs a d = creditSum (specOuts s xs) a d - debitSum xs a d := by
  induction xs with
  | nil => simp [expDelta, specOuts, creditSum, debitSum]
  | cons x rest ih =>
    simp only [expDelta, specOuts, List.map_cons, creditSum, debitSum] at *
    rw [ih]; omega

theorem expDelta_congr {s s' : State} (h : SameRest s s') (xs : List Xfer) (a : Addr) (d : Denom) :
    expDelta s' xs a d = expDelta s xs a d := by
  rw [expDelta_eq, expDelta_eq, specOuts_congr h]

theorem specOuts_total (s : State) (xs : List Xfer) (d : Denom) :
    ((specOuts s xs).map fun o => Coins.amountOf o.2 d).sum = totalSum xs d := by
  induction xs with
  | nil => simp [specOuts, totalSum]
  | cons x rest ih =>
    simp only [specOuts, List.map_cons, List.sum_cons, totalSum] at *
    rw [ih]

/-- what a successful `SendCoins` / `InputOutputCoinsProv` (no context bypass) does -/
structure Transferred (s s' : State) (xs : List Xfer) : Prop where
  inv : StoreInv s'
  rest : SameRest s s'
  qout : s'.qout = s.qout
  bal : ∀ a d, Ledger.bal s'.bank a d = Ledger.bal s.bank a d + expDelta s xs a d
  supply : ∀ d, Ledger.supply s'.bank d = Ledger.supply s.bank d
  out : ∀ d, outstanding s' d = outstanding s d + expQuarantined s xs d
  qin : ∀ d, Coins.amountOf s'.qin d = Coins.amountOf s.qin d + expQuarantined s xs d
  single : ∀ to f d, Coins.amountOf (coinsAt s' to [f]) d = Coins.amountOf (coinsAt s to [f]) d + expRecord s xs to f d
  multi : ∀ k : Addr × Suffix, k.2.length ≠ 1 → kvGet s'.recs k = kvGet s.recs k
  outFor : ∀ t d, outstandingFor s' t d = outstandingFor s t d + expQuarantinedFor s xs t d

theorem inv_with_bank {s : State} (inv : StoreInv s) (b : Ledger) : StoreInv { s with bank := b } :=
  ⟨inv.key, inv.nodup, inv.nfa, inv.idx, inv.nonneg⟩

theorem bankTransfers_ok {s s' : State} {xs : List Xfer} (inv : StoreInv s)
    (hn : ∀ x ∈ xs, ∀ d, 0 ≤ Coins.amountOf x.amt d)
    (h : bankTransfers s false xs = .ok s') : Transferred s s' xs := by
  unfold bankTransfers at h
  cases hd : debitAll s.bank xs with
  | error e => simp [hd] at h
  | ok b1 =>
    simp only [hd] at h
    cases ha : applyRestrictions { s with bank := b1 } false xs with
    | error e => simp [ha] at h
    | ok p =>
      obtain ⟨s2, outs⟩ := p
      simp only [ha, Except.ok.injEq] at h
      subst h
      have A := applyRestrictions_ok xs _ _ _ (inv_with_bank inv b1) hn ha
      have hs : SameRest s { s with bank := b1 } := ⟨rfl, rfl, rfl, rfl, rfl⟩
      obtain ⟨hb, hsup⟩ := debitAll_ok xs _ _ hd
      refine ⟨⟨A.inv.key, A.inv.nodup, A.inv.nfa, A.inv.idx, A.inv.nonneg⟩, ?_, A.qout, ?_, ?_, ?_, ?_, ?_, A.multi, ?_⟩
      · exact ⟨A.rest.holder, A.rest.restricted, A.rest.xfer, A.rest.optin, A.rest.auto⟩
      · intro a d
        show Ledger.bal (creditAll s2.bank outs) a d = _
        rw [bal_creditAll, A.bank, A.outs, specOuts_congr hs]
        show Ledger.bal b1 a d + _ = _
        rw [hb, expDelta_eq]; omega
      · intro d
        show Ledger.supply (creditAll s2.bank outs) d = _
        rw [supply_creditAll, A.bank, A.outs, specOuts_total]
        show Ledger.supply b1 d + _ = _
        rw [hsup]; omega
      · intro d
        have := A.out d
        rw [expQuarantined_congr hs] at this
        exact this
      · intro d
        have := A.qin d
        rw [expQuarantined_congr hs] at this
        exact this
      · intro to f d
        have := A.single to f d
        rw [expRecord_congr hs] at this
        exact this
      · intro t d
        have := A.outFor t d
        rw [expQuarantinedFor_congr hs] at this
        exact this

/-- a single transfer with the quarantine bypass (the release of accepted funds, `qadd`) -/
theorem bankTransfers_bypass_ok {s s' : State} {f t : Addr} {c : Coins}
    (h : bankTransfers s true [⟨f, t, c⟩] = .ok s') :
    s' = { s with bank := Ledger.move s.bank f t c } ∧ markerAllows s f c = true ∧
      ∀ d ∈ Coins.denoms c, Coins.amountOf c d ≤ Ledger.bal s.bank f d := by
  unfold bankTransfers at h
  simp only [debitAll] at h
  cases hs : subUnlockedCoins s.bank f c with
  | error e => simp [hs] at h
  | ok b1 =>
    have hle := subUnlockedCoins_ok_le hs
    have hb1 : b1 = Ledger.debit s.bank f c := by
      unfold subUnlockedCoins at hs
      split at hs
      · injection hs with hs; exact hs.symm
      · cases hs
    simp only [hs, applyRestrictions, restrictionChain, sendRestrictionFn] at h
    cases hm : markerAllows { s with bank := b1 } f c
    · simp [hm] at h
    · simp only [hm, Bool.not_true, Bool.false_eq_true, if_false, if_true, Except.ok.injEq] at h
      subst h hb1
      exact ⟨rfl, hm, hle⟩

end PvProofs.QuarL
