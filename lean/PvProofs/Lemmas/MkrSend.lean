/-
Helper lemmas for C04: each small function of the model agrees with the declarative
question of the specification it implements; `Coins.Find` (binary search) is a lookup on
denom-ascending coins; `forCoins` is "first failing denom".
-/
import PvModel.MkrSendSpec
import Mathlib.Tactic.SplitIfs

namespace PvProofs.MkrSendLemmas
open PvModel PvModel.MkrSend

/-! ### access checks -/

theorem hasAccess_eq (m : Marker) (a : Addr) (r : Access) :
    m.hasAccess a r = Spec.hasAccess m a r := by
  unfold Marker.hasAccess Spec.hasAccess Grant.hasAccess
  by_cases ha : a = ""
  · subst ha
    simp only [ne_eq, not_true_eq_false, decide_false, Bool.false_and]
    rw [List.any_eq_false]
    intro g _
    by_cases hg : g.addr = "" <;> simp [hg]
  · simp only [ne_eq, ha, not_false_eq_true, decide_true, Bool.true_and]
    congr 1
    funext g
    by_cases hg : g.addr = a
    · subst hg; simp [ha]
    · simp [hg]

theorem hasAccess_iff (m : Marker) (a : Addr) (r : Access) :
    m.hasAccess a r = true ↔ a ≠ "" ∧ ∃ g ∈ m.access, g.addr = a ∧ r ∈ g.perms := by
  rw [hasAccess_eq]; simp [Spec.hasAccess, List.any_eq_true]

theorem atLeastOne_eq (m : Marker) (l : List Addr) (r : Access) :
    atLeastOneAddrHasAccess m l r = l.any fun a => Spec.hasAccess m a r := by
  unfold atLeastOneAddrHasAccess
  congr 1; funext a; exact hasAccess_eq m a r

theorem validateAtLeastOne_eq (m : Marker) (l : List Addr) (r : Access) :
    validateAtLeastOneAddrHasAccess m l r = l.any fun a => Spec.hasAccess m a r := by
  unfold validateAtLeastOneAddrHasAccess
  split
  · simp [hasAccess_eq]
  · exact atLeastOne_eq m l r

/-! ### required attributes -/

theorem beq_dec (a b : Name) : (a == b) = Decidable.decide (a = b) := by
  by_cases h : a = b <;> simp [h]

theorem matchAttribute_eq (req attr : Name) : matchAttribute req attr = Spec.satisfies req attr := by
  unfold matchAttribute Spec.satisfies
  match req with
  | [] => simp
  | [c] => simp [List.isPrefixOf, beq_dec]
  | c1 :: c2 :: rest =>
    by_cases h1 : c1 = '*'
    · by_cases h2 : c2 = '.'
      · subst h1 h2; simp [List.isPrefixOf]
      · have : ¬ ('*' = c1 ∧ '.' = c2) := fun h => h2 h.2.symm
        simp [List.isPrefixOf, h2, beq_dec, this]
    · have : ¬ ('*' = c1 ∧ '.' = c2) := fun h => h1 h.1.symm
      simp [List.isPrefixOf, h1, beq_dec, this]

theorem findMissing_length_ne_zero (cfg : Cfg) (m : Marker) (a : Addr) :
    ((findMissingAttributes m.reqAttrs (cfg.attrs a)).length ≠ 0) ↔
      Spec.hasRequiredAttributes cfg m a = false := by
  unfold findMissingAttributes Spec.hasRequiredAttributes
  rw [ne_eq, List.length_eq_zero_iff, List.filter_eq_nil_iff]
  simp only [matchAttribute_eq]
  constructor
  · intro h
    cases hall : (m.reqAttrs.all fun req => (cfg.attrs a).any fun attr => Spec.satisfies req attr)
    · rfl
    · exfalso; apply h
      intro req hreq
      rw [List.all_eq_true] at hall
      simp [hall req hreq]
  · intro h hall
    have : (m.reqAttrs.all fun req => (cfg.attrs a).any fun attr => Spec.satisfies req attr) = true := by
      rw [List.all_eq_true]
      intro req hreq
      have := hall req hreq
      simpa using this
    rw [this] at h; cases h

/-! ### sdk.Coins.Find -/

theorem lookup_none_of_ne {l : Coins} {d : Denom} (h : ∀ x ∈ l, x.1 ≠ d) : l.lookup d = none := by
  induction l with
  | nil => rfl
  | cons x t ih =>
    obtain ⟨d', a⟩ := x
    have hne : d' ≠ d := h (d', a) (by simp)
    have hne' : (d == d') = false := by simp [Ne.symm hne]
    simp only [List.lookup_cons, hne']
    exact ih fun y hy => h y (by simp [hy])

/-- On denom-ascending coins the binary search of `sdk.Coins.Find` is a plain lookup. -/
theorem find_eq_lookup : ∀ (n : Nat) (cs : Coins), cs.length = n → Spec.DenomsAscending cs →
    ∀ d, find cs d = cs.lookup d := by
  intro n
  induction n using Nat.strongRecOn with
  | ind n ih =>
    intro cs hlen hasc d
    match cs, hlen, hasc with
    | [], _, _ => simp [find]
    | [(d', a)], _, _ =>
      by_cases h : d' = d
      · subst h; simp [find, List.lookup]
      · have : (d == d') = false := by simp [Ne.symm h]
        simp [find, List.lookup, h, this]
    | c0 :: c1 :: rest, hlen, hasc =>
      rw [find]
      generalize hl : c0 :: c1 :: rest = l at *
      have hlen2 : 2 ≤ l.length := by rw [← hl]; simp
      have hmid : l.length / 2 < l.length := by omega
      simp only [List.getElem?_eq_getElem hmid]
      rcases hx : l[l.length / 2] with ⟨d', a⟩
      -- decomposition around the middle element
      have hdec : l = l.take (l.length / 2) ++ (d', a) :: l.drop (l.length / 2 + 1) := by
        rw [← hx, ← List.drop_eq_getElem_cons hmid, List.take_append_drop]
      have hasc' := hasc
      unfold Spec.DenomsAscending at hasc'
      rw [hdec, List.pairwise_append, List.pairwise_cons] at hasc'
      obtain ⟨hT, ⟨hmidD, hD⟩, hTD⟩ := hasc'
      have hTmid : ∀ x ∈ l.take (l.length / 2), x.1 < d' := fun x hx' => hTD x hx' (d', a) (by simp)
      have hlook : l.lookup d =
          ((l.take (l.length / 2)).lookup d).or (((d', a) :: l.drop (l.length / 2 + 1)).lookup d) := by
        conv => lhs; rw [hdec]
        exact List.lookup_append
      rw [hlook]
      simp only []
      split_ifs with h1 h2
      · -- d < d'
        have hlt : (l.take (l.length / 2)).length < n := by
          rw [List.length_take]; omega
        rw [ih _ hlt _ rfl hT d]
        have : ((d', a) :: l.drop (l.length / 2 + 1)).lookup d = none := by
          apply lookup_none_of_ne
          intro y hy
          rcases List.mem_cons.mp hy with rfl | hy
          · exact fun h => String.lt_irrefl _ (h ▸ h1)
          · intro h
            have := hmidD y hy
            rw [h] at this
            exact String.lt_asymm h1 this
        rw [this, Option.or_none]
      · -- d = d'
        subst h2
        have : (l.take (l.length / 2)).lookup d = none := by
          apply lookup_none_of_ne
          intro x hx' h
          have := hTmid x hx'
          rw [h] at this
          exact String.lt_irrefl _ this
        simp [this, List.lookup]
      · -- d' < d
        have hlt : (l.drop (l.length / 2 + 1)).length < n := by
          rw [List.length_drop]; omega
        rw [ih _ hlt _ rfl hD d]
        have : (l.take (l.length / 2)).lookup d = none := by
          apply lookup_none_of_ne
          intro x hx' h
          have := hTmid x hx'
          rw [h] at this
          exact h1 this
        have hne : (d == d') = false := by simp [h2]
        simp [this, List.lookup_cons, hne]

theorem amountOf_eq_lookup (cs : Coins) (h : Spec.DenomsAscending cs) (d : Denom) :
    Coins.amountOf cs d = (cs.lookup d).getD 0 := by
  induction cs with
  | nil => rfl
  | cons x t ih =>
    obtain ⟨d', a⟩ := x
    unfold Spec.DenomsAscending at h
    rw [List.pairwise_cons] at h
    by_cases hd : d' = d
    · subst hd
      have : t.lookup d' = none := lookup_none_of_ne fun y hy hEq => by
        have := h.1 y hy
        simp only at this
        rw [hEq] at this
        exact String.lt_irrefl _ this
      have h0 : Coins.amountOf t d' = 0 := by rw [ih h.2, this]; rfl
      simp [List.lookup, h0]
    · have hne : (d == d') = false := by simp [Ne.symm hd]
      simp [List.lookup_cons, hne, hd, ih h.2]

/-- The own-denom test of the sender block, on valid coins: "the Amount has the denom". -/
theorem find_nonzero_iff (cs : Coins) (h : Spec.DenomsAscending cs) (d : Denom) :
    (∃ a, find cs d = some a ∧ a ≠ 0) ↔ Coins.amountOf cs d ≠ 0 := by
  rw [find_eq_lookup _ cs rfl h d, amountOf_eq_lookup cs h d]
  cases cs.lookup d <;> simp

theorem amountOf_ne_zero_iff (cs : Coins) (h : Spec.DenomsAscending cs) (d : Denom) :
    Coins.amountOf cs d ≠ 0 ↔ ∃ c ∈ cs, c.1 = d ∧ c.2 ≠ 0 := by
  induction cs with
  | nil => simp
  | cons x t ih =>
    obtain ⟨d', a⟩ := x
    have h' := h
    unfold Spec.DenomsAscending at h'
    rw [List.pairwise_cons] at h'
    by_cases hd : d' = d
    · subst hd
      have hnone : t.lookup d' = none := lookup_none_of_ne fun y hy hEq => by
        have := h'.1 y hy
        simp only at this
        rw [hEq] at this
        exact String.lt_irrefl _ this
      have h0 : Coins.amountOf t d' = 0 := by rw [amountOf_eq_lookup t h'.2, hnone]; rfl
      have hno : ¬ ∃ c ∈ t, c.1 = d' ∧ c.2 ≠ 0 := by
        rw [← ih h'.2]; simp [h0]
      simp only [Coins.amountOf_cons, if_true, h0, Int.add_zero, List.mem_cons, exists_eq_or_imp, true_and]
      constructor
      · intro ha; exact Or.inl ha
      · rintro (ha | hc)
        · exact ha
        · exact absurd hc hno
    · simp only [Coins.amountOf_cons, hd, if_false, Int.zero_add, List.mem_cons, exists_eq_or_imp, false_and,
        false_or]
      exact ih h'.2

/-! ### the denom loop -/

theorem forCoins_allow_iff (f : Denom → Decision) (cs : Coins) :
    forCoins f cs = allow ↔ ∀ c ∈ cs, f c.1 = allow := by
  induction cs with
  | nil => simp [forCoins]
  | cons c t ih =>
    obtain ⟨d, a⟩ := c
    simp only [forCoins, List.mem_cons, forall_eq_or_imp]
    cases hf : f d with
    | ok u => cases u; simpa [allow] using ih
    | error e => simp [allow]

theorem forCoins_append (f : Denom → Decision) (a b : Coins) :
    forCoins f (a ++ b) = (match forCoins f a with | .ok _ => forCoins f b | .error e => .error e) := by
  induction a with
  | nil => simp [forCoins, allow]
  | cons c t ih =>
    obtain ⟨d, x⟩ := c
    simp only [List.cons_append, forCoins]
    cases f d with
    | ok u => simpa using ih
    | error e => rfl

theorem forCoins_flow (cfg : Cfg) (f : Denom → Decision) (cs : Coins)
    (h : ∀ c ∈ cs, Spec.decisionFlow (f c.1) = Spec.validateSendDenom cfg c.1) :
    Spec.decisionFlow (forCoins f cs) = Spec.denomLoop cfg cs := by
  induction cs with
  | nil => rfl
  | cons c t ih =>
    obtain ⟨d, a⟩ := c
    have hd := h (d, a) (by simp)
    simp only at hd
    simp only [forCoins, Spec.denomLoop]
    rw [← hd]
    cases hf : f d with
    | ok u => simpa [Spec.decisionFlow] using ih fun c hc => h c (by simp [hc])
    | error e => simp [Spec.decisionFlow]

end PvProofs.MkrSendLemmas
