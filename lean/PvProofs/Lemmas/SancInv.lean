/-
Helper lemmas for C06: the invariant `Inv` of the sanction + gov model and its preservation
by every operation of a history (`run_inv`).
-/
import PvProofs.Lemmas.SancStore

namespace PvProofs.Sanc
open PvModel PvModel.Sanc PvModel.Sanc.Spec

/-! ### proposal list -/

theorem getProp_some {ps : List Proposal} {id : Nat} {p : Proposal} (h : getProp ps id = some p) :
    p ∈ ps ∧ p.id = id := by
  unfold getProp at h
  exact ⟨List.mem_of_find?_eq_some h, by simpa using List.find?_some h⟩

theorem getProp_none {ps : List Proposal} {id : Nat} (h : getProp ps id = none) : ∀ p ∈ ps, p.id ≠ id := by
  unfold getProp at h
  intro p hp
  simpa using List.find?_eq_none.1 h p hp

theorem mem_delProp {ps : List Proposal} {id : Nat} {q : Proposal} :
    q ∈ delProp ps id ↔ q ∈ ps ∧ q.id ≠ id := by
  simp [delProp]

theorem getProp_delProp (ps : List Proposal) (id : Nat) : getProp (delProp ps id) id = none := by
  unfold getProp
  apply List.find?_eq_none.2
  intro x hx
  simpa using (mem_delProp.1 hx).2

theorem mem_setProp {ps : List Proposal} {p q : Proposal} (h : q ∈ setProp ps p) :
    q = p ∨ (q ∈ ps ∧ q.id ≠ p.id) := by
  unfold setProp at h
  obtain ⟨x, hx, rfl⟩ := List.mem_map.1 h
  by_cases hid : x.id = p.id
  · simp [hid]
  · simp [hid, hx]

theorem mem_setProp_of_ne {ps : List Proposal} {p q : Proposal} (hq : q ∈ ps) (hne : q.id ≠ p.id) :
    q ∈ setProp ps p := by
  unfold setProp
  exact List.mem_map.2 ⟨q, hq, by simp [hne]⟩

theorem mem_setProp_self {ps : List Proposal} {p p0 : Proposal} (hp0 : p0 ∈ ps) (hid : p0.id = p.id) :
    p ∈ setProp ps p := by
  unfold setProp
  exact List.mem_map.2 ⟨p0, hp0, by simp [hid]⟩

theorem map_id_setProp {ps : List Proposal} {p : Proposal} :
    (setProp ps p).map (·.id) = ps.map (·.id) := by
  unfold setProp
  rw [List.map_map]
  apply List.map_congr_left
  intro x _
  by_cases h : x.id = p.id <;> simp [h]

theorem nodup_delProp {ps : List Proposal} (h : (ps.map (·.id)).Nodup) (id : Nat) :
    ((delProp ps id).map (·.id)).Nodup := by
  unfold delProp
  exact List.Nodup.sublist (List.Sublist.map _ List.filter_sublist) h

theorem eq_of_mem_of_id {ps : List Proposal} (h : (ps.map (·.id)).Nodup) {p q : Proposal}
    (hp : p ∈ ps) (hq : q ∈ ps) (hid : p.id = q.id) : p = q := by
  induction ps with
  | nil => cases hp
  | cons x r ih =>
    simp only [List.map_cons, List.nodup_cons, List.mem_map, not_exists, not_and] at h
    rcases List.mem_cons.1 hp with hp' | hp' <;> rcases List.mem_cons.1 hq with hq' | hq'
    · rw [hp', hq']
    · subst hp'; exact absurd hid.symm (h.1 q hq')
    · subst hq'; exact absurd hid (h.1 p hp')
    · exact ih h.2 hp' hq' 

/-! ### liveness of temporary entries -/

/-- the proposal of a temporary entry is still in its deposit or voting period and names the
address — or it was cancelled (the code calls no hook on cancellation). -/
def LiveIn (ps : List Proposal) (cancelled : List Nat) (e : TempEntry) : Prop :=
  (∃ p ∈ ps, p.id = e.id ∧ p.active = true ∧ e.addr ∈ p.allAddrs) ∨ e.id ∈ cancelled

theorem live_setProp_ne {ps : List Proposal} {c : List Nat} {e : TempEntry} {p2 : Proposal}
    (h : LiveIn ps c e) (hne : e.id ≠ p2.id) : LiveIn (setProp ps p2) c e := by
  rcases h with ⟨q, hq, hid, ha, hm⟩ | h
  · exact Or.inl ⟨q, mem_setProp_of_ne hq (hid ▸ hne), hid, ha, hm⟩
  · exact Or.inr h

theorem live_setProp_same {ps : List Proposal} {c : List Nat} {e : TempEntry} {p p2 : Proposal}
    (h : LiveIn ps c e) (hnd : (ps.map (·.id)).Nodup) (hp : p ∈ ps) (hid : p2.id = p.id)
    (haddr : p2.allAddrs = p.allAddrs) (hact : p.active = true → p2.active = true) :
    LiveIn (setProp ps p2) c e := by
  by_cases hne : e.id = p2.id
  · rcases h with ⟨q, hq, hqid, ha, hm⟩ | h
    · have : q = p := eq_of_mem_of_id hnd hq hp (by omega)
      subst this
      exact Or.inl ⟨p2, mem_setProp_self hq hid.symm, by omega, hact ha, haddr ▸ hm⟩
    · exact Or.inr h
  · exact live_setProp_ne h hne

theorem live_new {ps : List Proposal} {c : List Nat} {e : TempEntry} {p p2 : Proposal}
    (hp : p ∈ ps) (hid : p2.id = p.id) (hact : p2.active = true) (he : e.id = p2.id)
    (hm : e.addr ∈ p2.allAddrs) : LiveIn (setProp ps p2) c e :=
  Or.inl ⟨p2, mem_setProp_self hp hid.symm, he.symm, hact, hm⟩

theorem live_delProp {ps : List Proposal} {c : List Nat} {e : TempEntry} {id : Nat}
    (h : LiveIn ps c e) (hne : e.id ≠ id) : LiveIn (delProp ps id) c e := by
  rcases h with ⟨q, hq, hid, ha, hm⟩ | h
  · exact Or.inl ⟨q, mem_delProp.2 ⟨hq, hid ▸ hne⟩, hid, ha, hm⟩
  · exact Or.inr h

theorem live_delProp_cancel {ps : List Proposal} {c : List Nat} {e : TempEntry} {id : Nat}
    (h : LiveIn ps c e) : LiveIn (delProp ps id) (id :: c) e := by
  by_cases hne : e.id = id
  · exact Or.inr (hne ▸ List.mem_cons_self)
  · rcases live_delProp h hne with h | h
    · exact Or.inl h
    · exact Or.inr (List.mem_cons_of_mem _ h)

theorem live_append {ps : List Proposal} {c : List Nat} {e : TempEntry} (p0 : Proposal)
    (h : LiveIn ps c e) : LiveIn (ps ++ [p0]) c e := by
  rcases h with ⟨q, hq, hid, ha, hm⟩ | h
  · exact Or.inl ⟨q, List.mem_append_left _ hq, hid, ha, hm⟩
  · exact Or.inr h

/-! ### hooks -/

theorem hookMsgs_ok {c : Cfg} {total : Coins} {id : Nat} {msgs : List PMsg} {st st' : Store}
    (h : StoreOK c st) (hne : ∀ m ∈ msgs, ∀ a ∈ m.addrs, a ≠ "")
    (hs : hookMsgs c total id st msgs = .ok st') :
    StoreOK c st' ∧ st'.perm = st.perm ∧
      ∀ e ∈ st'.temp, e ∈ st.temp ∨ (e.id = id ∧ e.addr ∈ msgs.flatMap (·.addrs)) := by
  induction msgs generalizing st with
  | nil =>
    simp only [hookMsgs, Except.ok.injEq] at hs
    subst hs
    exact ⟨h, rfl, fun e he => Or.inl he⟩
  | cons m rest ih =>
    simp only [hookMsgs] at hs
    cases hm : hookMsg c total id st m with
    | error e => simp [hm] at hs
    | ok st1 =>
      simp only [hm] at hs
      have h1 : StoreOK c st1 ∧ st1.perm = st.perm ∧
          ∀ e ∈ st1.temp, e ∈ st.temp ∨ (e.id = id ∧ e.addr ∈ m.addrs) := by
        have key : st1 = st ∨ addTempEntries c m.isSanction id st m.addrs = .ok st1 := by
          unfold hookMsg at hm
          cases ha : addTempEntries c m.isSanction id st m.addrs <;> rw [ha] at hm <;>
            split_ifs at hm <;> simp_all
        rcases key with rfl | ha
        · exact ⟨h, rfl, fun e he => Or.inl he⟩
        · obtain ⟨k1, k2, _, _, k5, _, _⟩ := addTempEntries_ok h (hne m List.mem_cons_self) ha
          exact ⟨k1, k2, fun e he => (k5 e he).imp (fun x => x) (fun x => ⟨x.1, x.2.1⟩)⟩
      obtain ⟨k1, k2, k3⟩ := ih h1.1 (fun m' hm' => hne m' (List.mem_cons_of_mem _ hm')) hs
      refine ⟨k1, k2.trans h1.2.1, ?_⟩
      intro e he
      rcases k3 e he with he | ⟨hid, hmem⟩
      · rcases h1.2.2 e he with he | ⟨hid, hmem⟩
        · exact Or.inl he
        · exact Or.inr ⟨hid, by simp only [List.flatMap_cons, List.mem_append]; exact Or.inl hmem⟩
      · exact Or.inr ⟨hid, by simp only [List.flatMap_cons, List.mem_append]; exact Or.inr hmem⟩

/-- What `proposalGovHook` does to the store. -/
theorem hook_ok {c : Cfg} {st st' : Store} {prop : Option Proposal} {id : Nat}
    (h : StoreOK c st) (hne : ∀ p, prop = some p → ∀ m ∈ p.msgs, ∀ a ∈ m.addrs, a ≠ "")
    (hs : proposalGovHook c st prop id = .ok st') :
    StoreOK c st' ∧ st'.perm = st.perm ∧
      (∀ e ∈ st'.temp, e ∈ st.temp ∨
        (e.id = id ∧ ∃ p, prop = some p ∧ p.active = true ∧ e.addr ∈ p.allAddrs)) ∧
      ((∀ p, prop = some p → p.status = .rejected ∨ p.status = .failed) → ∀ e ∈ st'.temp, e.id ≠ id) := by
  unfold proposalGovHook at hs
  cases prop with
  | none =>
    simp only [Except.ok.injEq] at hs
    subst hs
    refine ⟨storeOK_deleteGovProp h id, rfl, fun e he => Or.inl ((mem_deleteGovProp h.mirror).1 he).1,
      fun _ e he => ((mem_deleteGovProp h.mirror).1 he).2⟩
  | some p =>
    simp only at hs
    cases hst : p.status <;> simp only [hst] at hs
    case passed =>
      simp only [Except.ok.injEq] at hs
      subst hs
      exact ⟨h, rfl, fun e he => Or.inl he, fun hh => by simpa [hst] using hh p rfl⟩
    case rejected =>
      simp only [Except.ok.injEq] at hs
      subst hs
      exact ⟨storeOK_deleteGovProp h id, rfl, fun e he => Or.inl ((mem_deleteGovProp h.mirror).1 he).1,
        fun _ e he => ((mem_deleteGovProp h.mirror).1 he).2⟩
    case failed =>
      simp only [Except.ok.injEq] at hs
      subst hs
      exact ⟨storeOK_deleteGovProp h id, rfl, fun e he => Or.inl ((mem_deleteGovProp h.mirror).1 he).1,
        fun _ e he => ((mem_deleteGovProp h.mirror).1 he).2⟩
    case deposit =>
      obtain ⟨k1, k2, k3⟩ := hookMsgs_ok h (hne p rfl) hs
      refine ⟨k1, k2, ?_, fun hh => by simpa [hst] using hh p rfl⟩
      intro e he
      exact (k3 e he).imp (fun x => x) fun x => ⟨x.1, p, rfl, by simp [Proposal.active, hst], x.2⟩
    case voting =>
      obtain ⟨k1, k2, k3⟩ := hookMsgs_ok h (hne p rfl) hs
      refine ⟨k1, k2, ?_, fun hh => by simpa [hst] using hh p rfl⟩
      intro e he
      exact (k3 e he).imp (fun x => x) fun x => ⟨x.1, p, rfl, by simp [Proposal.active, hst], x.2⟩

/-! ### execution of a passed proposal -/

theorem msgSanction_ok {c : Cfg} {st st' : Store} {m : PMsg} (h : StoreOK c st)
    (hs : msgSanction c st m = .ok st') :
    StoreOK c st' ∧ ∀ e ∈ st'.temp, e ∈ st.temp ∧ ¬(e.addr ≠ "" ∧ e.addr ∈ m.addrs) := by
  unfold msgSanction at hs
  split_ifs at hs with h1 h2 h3
  · exact ⟨storeOK_sanctionAddresses h hs, fun e he => temp_sanctionAddresses hs he⟩
  · simp only [Except.ok.injEq] at hs
    subst hs
    exact ⟨storeOK_unsanctionAddresses _ h, fun e he => temp_unsanctionAddresses he⟩

theorem execMsgs_ok {c : Cfg} {msgs : List PMsg} {st st' : Store} (h : StoreOK c st)
    (hs : execMsgs c st msgs = .ok st') :
    StoreOK c st' ∧ ∀ e ∈ st'.temp, e ∈ st.temp ∧ ¬(e.addr ≠ "" ∧ e.addr ∈ msgs.flatMap (·.addrs)) := by
  induction msgs generalizing st with
  | nil =>
    simp only [execMsgs, Except.ok.injEq] at hs
    subst hs
    exact ⟨h, fun e he => ⟨he, by simp⟩⟩
  | cons m rest ih =>
    simp only [execMsgs] at hs
    cases hm : msgSanction c st m with
    | error e => simp [hm] at hs
    | ok st1 =>
      simp only [hm] at hs
      obtain ⟨k1, k2⟩ := msgSanction_ok h hm
      obtain ⟨j1, j2⟩ := ih k1 hs
      refine ⟨j1, fun e he => ?_⟩
      obtain ⟨he1, hx1⟩ := j2 e he
      obtain ⟨he0, hx0⟩ := k2 e he1
      refine ⟨he0, ?_⟩
      rintro ⟨hne, hmem⟩
      simp only [List.flatMap_cons, List.mem_append] at hmem
      rcases hmem with hmem | hmem
      · exact hx0 ⟨hne, hmem⟩
      · exact hx1 ⟨hne, hmem⟩

end PvProofs.Sanc
