/-
Helper lemmas for C13: every handler keeps the store a MAP (`KeysNodup`: no key twice in the list) —
they only use `Store.set` / `Store.del`; the last-order-id counter grows by at most one per message.
-/
import PvProofs.Lemmas.ExrecDump

namespace PvProofs.Exrec
open PvModel.Exrec

theorem kn_set {s : Store} (h : KeysNodup s) (k : Bytes) (v : Val) : KeysNodup (s.set k v) := KeysNodup.set h k v
theorem kn_del {s : Store} (h : KeysNodup s) (k : Bytes) : KeysNodup (s.del k) := KeysNodup.del h k

theorem kn_ite {c : Prop} [Decidable c] {a b : Store} (ha : KeysNodup a) (hb : KeysNodup b) :
    KeysNodup (if c then a else b) := by
  split_ifs <;> assumption

theorem keysNodup_foldl {α : Type} (f : Store → α → Store) (hf : ∀ s a, KeysNodup s → KeysNodup (f s a)) :
    ∀ (l : List α) (s : Store), KeysNodup s → KeysNodup (l.foldl f s)
  | [], _, h => h
  | a :: r, s, h => keysNodup_foldl f hf r (f s a) (hf s a h)

theorem kn_setOrderInStore {s s' : Store} {o : Order} (h : KeysNodup s) (hs : setOrderInStore s o = some s') :
    KeysNodup s' := by
  unfold setOrderInStore at hs
  simp only at hs
  split_ifs at hs with hc hu
  · cases hs
    split
    · exact kn_set (kn_set h _ _) _ _
    · exact kn_set h _ _
  · cases hs
    have h2 : KeysNodup ((createConstantIndexEntries o).foldl (fun acc e => acc.set e.1 e.2)
        (s.set (keyOrder o.id) (.order o))) :=
      keysNodup_foldl _ (fun s a hs => kn_set hs _ _) _ _ (kn_set h _ _)
    split
    · exact kn_set h2 _ _
    · exact h2

theorem kn_deleteAndDeIndexOrder {s : Store} (h : KeysNodup s) (o : Order) : KeysNodup (deleteAndDeIndexOrder s o) := by
  unfold deleteAndDeIndexOrder
  have h2 : KeysNodup ((createConstantIndexEntries o).foldl (fun acc e => acc.del e.1) (s.del (keyOrder o.id))) :=
    keysNodup_foldl _ (fun s a hs => kn_del hs _) _ _ (kn_del h _)
  simp only
  split
  · exact kn_del h2 _
  · exact h2

theorem kn_createOrder {s s' : Store} {o : Order} {id : UInt64} (h : KeysNodup s) (hs : createOrder s o = some (s', id)) :
    KeysNodup s' := by
  unfold createOrder at hs
  split_ifs at hs
  simp only [nextOrderID] at hs
  split at hs
  · cases hs
  · next s2 hset =>
    simp only [Option.some.injEq, Prod.mk.injEq] at hs
    obtain ⟨rfl, _⟩ := hs
    exact kn_setOrderInStore (kn_set h _ _) hset

theorem kn_cancelOrder {s s' : Store} {id : UInt64} {signer : Bytes} {up : Bool} (h : KeysNodup s)
    (hs : cancelOrder s id signer up = some s') : KeysNodup s' := by
  unfold cancelOrder at hs
  split at hs
  · cases hs
  · split_ifs at hs
    cases hs
    exact kn_deleteAndDeIndexOrder h _

theorem kn_setOrderExternalID {s s' : Store} {m : UInt32} {id : UInt64} {x signer : Bytes} (h : KeysNodup s)
    (hs : setOrderExternalID s m id x signer = some s') : KeysNodup s' := by
  unfold setOrderExternalID at hs
  split_ifs at hs
  split at hs
  · cases hs
  · split_ifs at hs
    · exact kn_setOrderInStore (kn_del h _) hs
    · exact kn_setOrderInStore h hs

theorem kn_cancelAll {s : Store} (h : KeysNodup s) (m : UInt32) (signer : Bytes) :
    KeysNodup (cancelAllOrdersForMarket s m signer) := by
  unfold cancelAllOrdersForMarket
  refine keysNodup_foldl _ (fun acc e hacc => ?_) _ _ h
  cases hc : cancelOrder acc e.1 signer false with
  | none => exact hacc
  | some s' => exact kn_cancelOrder hacc hc

theorem kn_settle {s s' : Store} {m : UInt32} {a b : UInt64} {ep : Bool} {signer : Bytes} (h : KeysNodup s)
    (hs : settle s m a b ep signer = some s') : KeysNodup s' := by
  unfold settle at hs
  split_ifs at hs
  split at hs
  · split_ifs at hs
    split at hs
    · cases hs
    · cases hs
      exact kn_deleteAndDeIndexOrder (kn_deleteAndDeIndexOrder h _) _
    · unfold settlePartial at hs
      split at hs
      · cases hs
      · next s1 hset =>
        cases hs
        exact kn_deleteAndDeIndexOrder (kn_setOrderInStore h hset) _
  · cases hs

theorem kn_setCommitmentAmount {s : Store} (h : KeysNodup s) (m : UInt32) (a : Bytes) (n : Nat) :
    KeysNodup (setCommitmentAmount s m a n) := by
  unfold setCommitmentAmount
  split_ifs
  · exact kn_del h _
  · exact kn_set h _ _

theorem kn_releaseCommitment {s s' : Store} {m : UInt32} {a : Bytes} {n : Nat} (h : KeysNodup s)
    (hs : releaseCommitment s m a n = some s') : KeysNodup s' := by
  unfold releaseCommitment at hs
  simp only at hs
  split_ifs at hs <;> cases hs <;> exact kn_setCommitmentAmount h _ _ _

theorem kn_releaseAll {s : Store} (h : KeysNodup s) (m : UInt32) : KeysNodup (releaseAllCommitmentsForMarket s m) := by
  unfold releaseAllCommitmentsForMarket
  refine keysNodup_foldl _ (fun acc e hacc => ?_) _ _ h
  split
  · next a _ =>
    cases hc : releaseCommitment acc m a 0 with
    | none => exact hacc
    | some s' => exact kn_releaseCommitment hacc hc
  · exact hacc

theorem kn_closeMarket {s : Store} (h : KeysNodup s) (m : UInt32) : KeysNodup (closeMarket s m) := by
  unfold closeMarket
  simp only
  refine kn_releaseAll (kn_cancelAll ?_ _ _) _
  have h1 : KeysNodup (if isMarketAcceptingOrders s m = true then s.set (keyMarketNotAcceptingOrders m) .empty else s) :=
    kn_ite (kn_set h _ _) h
  exact kn_ite (kn_del h1 _) h1

theorem kn_setPaymentInStore {s : Store} (h : KeysNodup s) (p : Payment) : KeysNodup (setPaymentInStore s p) := by
  unfold setPaymentInStore
  simp only
  have h1 := kn_set h (keyPayment p.source p.ext) (.payment p)
  split
  · refine kn_set ?_ _ _
    split
    · exact kn_del h1 _
    · exact h1
  · split
    · exact kn_del h1 _
    · exact h1

theorem kn_deletePaymentFromStore {s : Store} (h : KeysNodup s) (p : Payment) : KeysNodup (deletePaymentFromStore s p) := by
  unfold deletePaymentFromStore
  simp only
  split_ifs
  · exact kn_del (kn_del h _) _
  · exact kn_del h _

theorem kn_apply {st st' : State} {op : Op} {r : Res} (h : KeysNodup st.kv) (hs : apply st op = some (st', r)) :
    KeysNodup st'.kv := by
  cases op with
  | mkMarket id name =>
    simp only [apply, Option.map_eq_some_iff] at hs
    obtain ⟨⟨st2, m⟩, hc, he⟩ := hs
    simp only [Prod.mk.injEq] at he
    obtain ⟨rfl, _⟩ := he
    unfold createMarket at hc
    simp only at hc
    split_ifs at hc <;>
      (simp only [Option.some.injEq, Prod.mk.injEq] at hc
       obtain ⟨rfl, _⟩ := hc
       simp only
       unfold storeMarket
       refine kn_set (kn_del (kn_set ?_ _ _) _) _ _
       first | (unfold nextMarketID; exact kn_set h _ _) | exact h)
  | closeMarket m =>
    simp only [apply] at hs
    split_ifs at hs
    cases hs
    exact kn_closeMarket h m
  | setAccepting m a signer =>
    simp only [apply, withKv, Option.map_eq_some_iff] at hs
    obtain ⟨kv, hc, he⟩ := hs
    simp only [Prod.mk.injEq] at he
    obtain ⟨rfl, _⟩ := he
    unfold updateAcceptingOrders at hc
    split_ifs at hc <;> cases hc
    · exact kn_del h _
    · exact kn_set h _ _
  | setAcceptingCommitments m a signer =>
    simp only [apply, withKv, Option.map_eq_some_iff] at hs
    obtain ⟨kv, hc, he⟩ := hs
    simp only [Prod.mk.injEq] at he
    obtain ⟨rfl, _⟩ := he
    unfold updateAcceptingCommitments at hc
    split_ifs at hc <;> cases hc
    · exact kn_set h _ _
    · exact kn_del h _
  | create o =>
    simp only [apply, Option.map_eq_some_iff] at hs
    obtain ⟨⟨kv, id⟩, hc, he⟩ := hs
    simp only [Prod.mk.injEq] at he
    obtain ⟨rfl, _⟩ := he
    exact kn_createOrder h hc
  | cancel id signer up =>
    simp only [apply] at hs
    split_ifs at hs
    simp only [withKv, Option.map_eq_some_iff] at hs
    obtain ⟨kv, hc, he⟩ := hs
    simp only [Prod.mk.injEq] at he
    obtain ⟨rfl, _⟩ := he
    exact kn_cancelOrder h hc
  | setExt m id x signer =>
    simp only [apply, withKv, Option.map_eq_some_iff] at hs
    obtain ⟨kv, hc, he⟩ := hs
    simp only [Prod.mk.injEq] at he
    obtain ⟨rfl, _⟩ := he
    exact kn_setOrderExternalID h hc
  | settle m a b p signer =>
    simp only [apply, withKv, Option.map_eq_some_iff] at hs
    obtain ⟨kv, hc, he⟩ := hs
    simp only [Prod.mk.injEq] at he
    obtain ⟨rfl, _⟩ := he
    exact kn_settle h hc
  | fill m wb f fu ids total =>
    simp only [apply, withKv, Option.map_eq_some_iff] at hs
    obtain ⟨kv, hc, he⟩ := hs
    simp only [Prod.mk.injEq] at he
    obtain ⟨rfl, _⟩ := he
    obtain ⟨_, _, os, _, _, rfl⟩ := fillOrders_eq hc
    exact keysNodup_foldl _ (fun a o ha => kn_deleteAndDeIndexOrder ha o) _ _ h
  | commit m a amt =>
    simp only [apply, withKv, Option.map_eq_some_iff] at hs
    obtain ⟨kv, hc, he⟩ := hs
    simp only [Prod.mk.injEq] at he
    obtain ⟨rfl, _⟩ := he
    unfold commitFunds at hc
    split_ifs at hc
    cases hc
    exact kn_setCommitmentAmount h _ _ _
  | release m a amt signer =>
    simp only [apply, withKv, Option.map_eq_some_iff] at hs
    obtain ⟨kv, hc, he⟩ := hs
    simp only [Prod.mk.injEq] at he
    obtain ⟨rfl, _⟩ := he
    unfold marketReleaseCommitment at hc
    split_ifs at hc
    exact kn_releaseCommitment h hc
  | pay p =>
    simp only [apply, withKv, Option.map_eq_some_iff] at hs
    obtain ⟨kv, hc, he⟩ := hs
    simp only [Prod.mk.injEq] at he
    obtain ⟨rfl, _⟩ := he
    unfold createPayment at hc
    split_ifs at hc
    cases hc
    exact kn_setPaymentInStore h p
  | payAccept s e t su tu =>
    simp only [apply, withKv, Option.map_eq_some_iff] at hs
    obtain ⟨kv, hc, he⟩ := hs
    simp only [Prod.mk.injEq] at he
    obtain ⟨rfl, _⟩ := he
    unfold acceptPayment at hc
    split_ifs at hc
    split at hc
    · cases hc
    · split_ifs at hc
      cases hc
      exact kn_deletePaymentFromStore h _
  | payReject t s e =>
    simp only [apply, withKv, Option.map_eq_some_iff] at hs
    obtain ⟨kv, hc, he⟩ := hs
    simp only [Prod.mk.injEq] at he
    obtain ⟨rfl, _⟩ := he
    unfold rejectPayment at hc
    split_ifs at hc
    split at hc
    · cases hc
    · split_ifs at hc
      cases hc
      exact kn_deletePaymentFromStore h _
  | payRejectAll t ss =>
    simp only [apply, withKv, Option.map_eq_some_iff] at hs
    obtain ⟨kv, hc, he⟩ := hs
    simp only [Prod.mk.injEq] at he
    obtain ⟨rfl, _⟩ := he
    unfold rejectPayments at hc
    dsimp only at hc
    split_ifs at hc
    cases hc
    exact keysNodup_foldl _ (fun s a hs => kn_deletePaymentFromStore hs a) _ _ h
  | payCancel s es =>
    simp only [apply, withKv, Option.map_eq_some_iff] at hs
    obtain ⟨kv, hc, he⟩ := hs
    simp only [Prod.mk.injEq] at he
    obtain ⟨rfl, _⟩ := he
    unfold cancelPayments at hc
    split_ifs at hc
    split at hc
    · cases hc
    · cases hc
      exact keysNodup_foldl _ (fun s a hs => kn_deletePaymentFromStore hs a) _ _ h
  | payTarget s e t =>
    simp only [apply, withKv, Option.map_eq_some_iff] at hs
    obtain ⟨kv, hc, he⟩ := hs
    simp only [Prod.mk.injEq] at he
    obtain ⟨rfl, _⟩ := he
    unfold updatePaymentTarget at hc
    split_ifs at hc
    split at hc
    · cases hc
    · split_ifs at hc
      cases hc
      exact kn_setPaymentInStore h _

theorem kn_step {st : State} (h : KeysNodup st.kv) (op : Op) : KeysNodup (step st op).kv := by
  unfold step
  cases hs : apply st op with
  | none => exact h
  | some pr => obtain ⟨st', r⟩ := pr; exact kn_apply h hs

theorem kn_run : ∀ (ops : List Op) (st : State), KeysNodup st.kv → KeysNodup (run st ops).kv
  | [], _, h => h
  | op :: ops, st, h => kn_run ops (step st op) (kn_step h op)

theorem kn_init : KeysNodup init.kv := by
  unfold KeysNodup init
  decide

/-- the counter grows by at most one per message -/
theorem lastOrderID_run_le : ∀ (ops : List Op) (st : State), Inv st →
    (getLastOrderID st.kv).toNat + ops.length < 2 ^ 64 →
    (getLastOrderID (run st ops).kv).toNat ≤ (getLastOrderID st.kv).toNat + ops.length
  | [], _, _, _ => Nat.le_refl _
  | op :: ops, st, h, hb => by
    simp only [List.length_cons] at hb ⊢
    obtain ⟨h1, h2, _⟩ := inv_step (op := op) h (by omega)
    have := lastOrderID_run_le ops (step st op) h1 (by omega)
    show (getLastOrderID (run (step st op) ops).kv).toNat ≤ _
    omega

end PvProofs.Exrec
