/-
Helper lemmas for the metadata store model (C14): keyed lists (`kget`/`kput`/`kdel`/`khas`),
index sets (`iset`/`idel`/`reindex`) and the generic "index lists exactly what the entities
name" preservation lemmas.
-/
import PvModel.MdStoreSpec
import Mathlib.Tactic.Tauto

namespace PvProofs.MdLemmas
open PvModel.MdStore

section KMap
variable {α κ : Type} [DecidableEq κ] {key : α → κ}

@[simp] theorem mem_kput {x y : α} {l : List α} :
    y ∈ kput key x l ↔ y = x ∨ (y ∈ l ∧ key y ≠ key x) := by
  simp [kput]

@[simp] theorem mem_kdel {k : κ} {y : α} {l : List α} :
    y ∈ kdel key k l ↔ y ∈ l ∧ key y ≠ k := by
  simp [kdel]

theorem khas_iff {l : List α} {k : κ} : khas key l k = true ↔ ∃ x ∈ l, key x = k := by
  simp [khas]

theorem khas_false_iff {l : List α} {k : κ} : khas key l k = false ↔ ∀ x ∈ l, key x ≠ k := by
  simp [khas]

theorem kget_some {l : List α} {k : κ} {x : α} (h : kget key l k = some x) : x ∈ l ∧ key x = k := by
  unfold kget at h
  exact ⟨List.mem_of_find?_eq_some h, by simpa using List.find?_some h⟩

theorem kget_none {l : List α} {k : κ} (h : kget key l k = none) : ∀ x ∈ l, key x ≠ k := by
  unfold kget at h
  intro x hx
  have := List.find?_eq_none.mp h x hx
  simpa using this

theorem kget_isSome_iff {l : List α} {k : κ} : (kget key l k).isSome ↔ ∃ x ∈ l, key x = k := by
  cases h : kget key l k with
  | none => simp; exact fun x hx => kget_none h x hx
  | some x => simp; exact ⟨x, kget_some h⟩

/-- with unique keys, a member is what `kget` returns for its key -/
theorem kget_of_mem {l : List α} (hn : (l.map key).Nodup) {x : α} (hx : x ∈ l) :
    kget key l (key x) = some x := by
  induction l with
  | nil => cases hx
  | cons a t ih =>
    simp only [List.map_cons, List.nodup_cons, List.mem_map, not_exists, not_and] at hn
    simp only [kget, List.find?_cons]
    rcases List.mem_cons.mp hx with rfl | hxt
    · simp
    · have : key a ≠ key x := fun e => hn.1 x hxt e.symm
      simp only [this, decide_false]
      exact ih hn.2 hxt

theorem kget_unique {l : List α} (hn : (l.map key).Nodup) {x y : α} (hx : x ∈ l) (hy : y ∈ l)
    (h : key x = key y) : x = y := by
  have h1 := kget_of_mem hn hx
  have h2 := kget_of_mem hn hy
  rw [h, h2] at h1
  exact (Option.some.inj h1).symm

theorem nodup_kdel {l : List α} (k : κ) (hn : (l.map key).Nodup) : ((kdel key k l).map key).Nodup := by
  unfold kdel
  exact hn.sublist (List.Sublist.map key List.filter_sublist)

theorem nodup_filter {l : List α} (p : α → Bool) (hn : (l.map key).Nodup) : ((l.filter p).map key).Nodup :=
  hn.sublist (List.Sublist.map key List.filter_sublist)

theorem nodup_kput {l : List α} (x : α) (hn : (l.map key).Nodup) : ((kput key x l).map key).Nodup := by
  unfold kput
  simp only [List.map_cons, List.nodup_cons, List.mem_map, List.mem_filter, not_exists, not_and]
  refine ⟨?_, nodup_filter _ hn⟩
  intro y hy
  simpa using hy.2

theorem kdel_eq_self {l : List α} {k : κ} (h : ∀ x ∈ l, key x ≠ k) : kdel key k l = l := by
  unfold kdel
  exact List.filter_eq_self.mpr (by simpa using h)

/-- a key is present after `kput` iff it is the written key or was present -/
theorem exists_key_kput {l : List α} {x : α} {k : κ} :
    (∃ y ∈ kput key x l, key y = k) ↔ k = key x ∨ ∃ y ∈ l, key y = k := by
  constructor
  · rintro ⟨y, hy, hk⟩
    rcases mem_kput.mp hy with rfl | ⟨hyl, _⟩
    · exact Or.inl hk.symm
    · exact Or.inr ⟨y, hyl, hk⟩
  · rintro (rfl | ⟨y, hy, hk⟩)
    · exact ⟨x, mem_kput.mpr (Or.inl rfl), rfl⟩
    · by_cases e : key y = key x
      · exact ⟨x, mem_kput.mpr (Or.inl rfl), by rw [← e, hk]⟩
      · exact ⟨y, mem_kput.mpr (Or.inr ⟨hy, e⟩), hk⟩

theorem exists_key_kdel {l : List α} {k k' : κ} :
    (∃ y ∈ kdel key k' l, key y = k) ↔ k ≠ k' ∧ ∃ y ∈ l, key y = k := by
  constructor
  · rintro ⟨y, hy, hk⟩
    obtain ⟨hyl, hne⟩ := mem_kdel.mp hy
    exact ⟨by rw [← hk]; exact hne, y, hyl, hk⟩
  · rintro ⟨hne, y, hy, hk⟩
    exact ⟨y, mem_kdel.mpr ⟨hy, by rw [hk]; exact hne⟩, hk⟩

end KMap

section ISet
variable {β : Type} [DecidableEq β]

@[simp] theorem mem_iset {p q : β} {l : List β} : q ∈ iset p l ↔ q = p ∨ q ∈ l := by
  unfold iset
  split
  · constructor
    · exact Or.inr
    · rintro (rfl | h)
      · assumption
      · exact h
  · simp

@[simp] theorem mem_idel {p q : β} {l : List β} : q ∈ idel p l ↔ q ∈ l ∧ q ≠ p := by
  simp [idel]

@[simp] theorem mem_isetAll {ps : List β} {q : β} {l : List β} : q ∈ isetAll ps l ↔ q ∈ ps ∨ q ∈ l := by
  unfold isetAll
  induction ps generalizing l with
  | nil => simp
  | cons a t ih => simp only [List.foldl_cons, ih, mem_iset, List.mem_cons]; tauto

@[simp] theorem mem_idelAll {ps : List β} {q : β} {l : List β} : q ∈ idelAll ps l ↔ q ∈ l ∧ q ∉ ps := by
  unfold idelAll
  induction ps generalizing l with
  | nil => simp
  | cons a t ih => simp only [List.foldl_cons, ih, mem_idel, List.mem_cons]; tauto

@[simp] theorem mem_findMissing {req chk : List β} {q : β} : q ∈ findMissing req chk ↔ q ∈ req ∧ q ∉ chk := by
  simp [findMissing]

@[simp] theorem mem_dedup {l : List β} {q : β} : q ∈ dedup l ↔ q ∈ l := by
  induction l with
  | nil => simp [dedup]
  | cons a t ih =>
    simp only [dedup, List.mem_cons, List.mem_filter, ih, decide_eq_true_eq]
    by_cases h : q = a <;> simp [h]

end ISet

section Reindex
variable {β κ : Type} [DecidableEq β] [DecidableEq κ]

theorem mem_reindex {k k' : κ} {b : β} {nv ov : List β} {idx : List (β × κ)} :
    (b, k') ∈ reindex k nv ov idx ↔
      ((b, k') ∈ idx ∨ (k' = k ∧ b ∈ nv ∧ b ∉ ov)) ∧ ¬ (k' = k ∧ b ∈ ov ∧ b ∉ nv) := by
  simp only [reindex, mem_idelAll, mem_isetAll, List.mem_map, mem_findMissing, Prod.mk.injEq]
  constructor
  · rintro ⟨h1 | h1, h2⟩
    · obtain ⟨a, ⟨ha1, ha2⟩, rfl, rfl⟩ := h1
      refine ⟨Or.inr ⟨rfl, ha1, ha2⟩, ?_⟩
      rintro ⟨_, h3, h4⟩
      exact h4 ha1
    · refine ⟨Or.inl h1, ?_⟩
      rintro ⟨rfl, h3, h4⟩
      exact h2 ⟨b, ⟨h3, h4⟩, rfl, rfl⟩
  · rintro ⟨h1 | ⟨rfl, h1, h1'⟩, h2⟩
    · refine ⟨Or.inr h1, ?_⟩
      rintro ⟨a, ⟨ha1, ha2⟩, rfl, rfl⟩
      exact h2 ⟨rfl, ha1, ha2⟩
    · refine ⟨Or.inl ⟨b, ⟨h1, h1'⟩, rfl, rfl⟩, ?_⟩
      rintro ⟨a, ⟨ha1, ha2⟩, hab, _⟩
      subst hab
      exact ha2 h1

/-- entries of other entities are untouched by a `reindex` -/
theorem mem_reindex_of_ne {k k' : κ} {b : β} {nv ov : List β} {idx : List (β × κ)} (h : k' ≠ k) :
    (b, k') ∈ reindex k nv ov idx ↔ (b, k') ∈ idx := by
  rw [mem_reindex]; simp [h]

end Reindex


section IdxExact
variable {α β κ : Type} [DecidableEq β] [DecidableEq κ] {key : α → κ} {vals : α → List β}

theorem idxExact_iff {ents : List α} {idx : List (β × κ)} :
    IdxExact ents key vals idx ↔ ∀ b k, (b, k) ∈ idx ↔ ∃ e ∈ ents, key e = k ∧ b ∈ vals e := by
  constructor
  · rintro ⟨h1, h2⟩ b k
    constructor
    · intro h; exact h1 (b, k) h
    · rintro ⟨e, he, rfl, hb⟩; exact h2 e he b hb
  · intro h
    refine ⟨fun p hp => (h p.1 p.2).mp hp, fun e he b hb => (h b (key e)).mpr ⟨e, he, rfl, hb⟩⟩

/-- Writing entity `e` (new or replacing the one with its key) and re-indexing with the new and
the old values keeps the index exact. `nv`/`ov` may be any lists with the right members (the Go
code de-duplicates, reorders). -/
theorem idxExact_kput {ents : List α} {idx : List (β × κ)} (hn : (ents.map key).Nodup)
    (h : IdxExact ents key vals idx) (e : α) (nv ov : List β)
    (hnv : ∀ b, b ∈ nv ↔ b ∈ vals e)
    (hov : ∀ b, b ∈ ov ↔ ∃ o, kget key ents (key e) = some o ∧ b ∈ vals o) :
    IdxExact (kput key e ents) key vals (reindex (key e) nv ov idx) := by
  rw [idxExact_iff] at h ⊢
  intro b k
  by_cases hk : k = key e
  · subst hk
    rw [mem_reindex, h]
    constructor
    · rintro ⟨h1, h2⟩
      refine ⟨e, mem_kput.mpr (Or.inl rfl), rfl, ?_⟩
      rw [← hnv]
      rcases h1 with ⟨o, ho, hko, hb⟩ | ⟨_, hb, _⟩
      · by_cases hbn : b ∈ nv
        · exact hbn
        · exfalso
          refine h2 ⟨rfl, (hov b).mpr ⟨o, ?_, hb⟩, hbn⟩
          rw [← hko]; exact kget_of_mem hn ho
      · exact hb
    · rintro ⟨e', he', hke', hb⟩
      rcases mem_kput.mp he' with rfl | ⟨_, hne⟩
      · have hbn : b ∈ nv := (hnv b).mpr hb
        refine ⟨?_, fun ⟨_, _, h3⟩ => h3 hbn⟩
        by_cases hbo : b ∈ ov
        · obtain ⟨o, ho, hbo'⟩ := (hov b).mp hbo
          exact Or.inl ⟨o, (kget_some ho).1, (kget_some ho).2, hbo'⟩
        · exact Or.inr ⟨rfl, hbn, hbo⟩
      · exact absurd hke' hne
  · rw [mem_reindex_of_ne hk, h]
    constructor
    · rintro ⟨e', he', hke', hb⟩
      exact ⟨e', mem_kput.mpr (Or.inr ⟨he', by rw [hke']; exact hk⟩), hke', hb⟩
    · rintro ⟨e', he', hke', hb⟩
      rcases mem_kput.mp he' with rfl | ⟨hel, _⟩
      · exact absurd hke'.symm hk
      · exact ⟨e', hel, hke', hb⟩

/-- Deleting the entity with key `k` and removing the index entries of its values keeps the
index exact. -/
theorem idxExact_kdel {ents : List α} {idx : List (β × κ)} (hn : (ents.map key).Nodup)
    (h : IdxExact ents key vals idx) (k : κ) (o : α) (ho : kget key ents k = some o) (ov : List β)
    (hov : ∀ b, b ∈ ov ↔ b ∈ vals o) :
    IdxExact (kdel key k ents) key vals (reindex k [] ov idx) := by
  rw [idxExact_iff] at h ⊢
  intro b k'
  by_cases hk : k' = k
  · subst hk
    rw [mem_reindex, h]
    constructor
    · rintro ⟨h1, h2⟩
      exfalso
      rcases h1 with ⟨e, he, hke, hb⟩ | ⟨_, hb, _⟩
      · have : e = o := by
          have := kget_of_mem hn he
          rw [hke, ho] at this
          exact (Option.some.inj this).symm
        subst this
        exact h2 ⟨rfl, (hov b).mpr hb, by simp⟩
      · simp at hb
    · rintro ⟨e, he, hke, _⟩
      exact absurd hke (mem_kdel.mp he).2
  · rw [mem_reindex_of_ne hk, h]
    constructor
    · rintro ⟨e, he, hke, hb⟩
      exact ⟨e, mem_kdel.mpr ⟨he, by rw [hke]; exact hk⟩, hke, hb⟩
    · rintro ⟨e, he, hke, hb⟩
      exact ⟨e, (mem_kdel.mp he).1, hke, hb⟩

/-- after the entity with key `k` is deleted no index entry mentions `k` -/
theorem idx_no_entry_after_del {ents : List α} {idx : List (β × κ)} {k : κ}
    (h : IdxExact (kdel key k ents) key vals idx) : ∀ p ∈ idx, p.2 ≠ k := by
  intro p hp hk
  obtain ⟨e, he, hke, _⟩ := h.1 p hp
  exact (mem_kdel.mp he).2 (hke.trans hk)

end IdxExact

end PvProofs.MdLemmas
