/-
Helper lemmas for C20: the association-list lookups of the market store, and the ratio fee
as a ceiling.
-/
import PvModel.AdmitSpec
import PvProofs.C19

namespace PvProofs.AdmitL
open PvModel PvModel.Admit PvModel.Fees PvProofs

/-! ### flat options: lookup = membership when denoms are unique -/

theorem getFlatFee_mem {opts : List Coin} {d : Denom} {a : Int} (h : getFlatFee opts d = some a) :
    (d, a) ∈ opts := by
  induction opts with
  | nil => simp [getFlatFee] at h
  | cons o rest ih =>
    obtain ⟨d', a'⟩ := o
    unfold getFlatFee at h
    by_cases hd : d' = d
    · simp only [hd, if_true, Option.some.injEq] at h
      subst hd; subst h; exact List.mem_cons_self
    · simp only [hd, if_false] at h
      exact List.mem_cons_of_mem _ (ih h)

theorem getFlatFee_of_mem {opts : List Coin} (hn : (opts.map (·.1)).Nodup) {d : Denom} {a : Int}
    (h : (d, a) ∈ opts) : getFlatFee opts d = some a := by
  induction opts with
  | nil => simp at h
  | cons o rest ih =>
    obtain ⟨d', a'⟩ := o
    simp only [List.map_cons, List.nodup_cons] at hn
    obtain ⟨hnot, hnd⟩ := hn
    unfold getFlatFee
    rcases List.mem_cons.1 h with h | h
    · simp only [Prod.mk.injEq] at h
      obtain ⟨rfl, rfl⟩ := h
      simp
    · have hne : d' ≠ d := by
        rintro rfl
        exact hnot (List.mem_map.2 ⟨(d', a), h, rfl⟩)
      simp only [hne, if_false]
      exact ih hnd h

theorem getFlatFee_some_iff {opts : List Coin} (hn : (opts.map (·.1)).Nodup) (d : Denom) (a : Int) :
    getFlatFee opts d = some a ↔ (d, a) ∈ opts :=
  ⟨getFlatFee_mem, getFlatFee_of_mem hn⟩

theorem getFlatFee_none_iff (opts : List Coin) (d : Denom) :
    getFlatFee opts d = none ↔ ∀ o ∈ opts, o.1 ≠ d := by
  induction opts with
  | nil => simp [getFlatFee]
  | cons o rest ih =>
    obtain ⟨d', a'⟩ := o
    unfold getFlatFee
    by_cases hd : d' = d
    · simp [hd]
    · simp [hd, ih]

theorem hasFlatFee_eq (opts : List Coin) : hasFlatFee opts = true ↔ opts ≠ [] := by
  cases opts <;> simp [hasFlatFee]

theorem hasFeeRatio_eq (rs : List Ratio) : hasFeeRatio rs = true ↔ rs ≠ [] := by
  cases rs <;> simp [hasFeeRatio]

/-! ### ratios: lookup = membership when (price denom, fee denom) keys are unique -/

theorem getFeeRatio_mem {rs : List Ratio} {pd fd : Denom} {r : Ratio}
    (h : getFeeRatio rs pd fd = some r) : r ∈ rs ∧ r.pd = pd ∧ r.fd = fd := by
  induction rs with
  | nil => simp [getFeeRatio] at h
  | cons x rest ih =>
    unfold getFeeRatio at h
    by_cases hk : x.pd = pd ∧ x.fd = fd
    · simp only [hk, and_self, if_true, Option.some.injEq] at h
      subst h
      exact ⟨List.mem_cons_self, hk.1, hk.2⟩
    · simp only [hk, if_false] at h
      obtain ⟨h1, h2, h3⟩ := ih h
      exact ⟨List.mem_cons_of_mem _ h1, h2, h3⟩

theorem getFeeRatio_of_mem {rs : List Ratio} (hn : (rs.map fun r => (r.pd, r.fd)).Nodup)
    {r : Ratio} (h : r ∈ rs) : getFeeRatio rs r.pd r.fd = some r := by
  induction rs with
  | nil => simp at h
  | cons x rest ih =>
    simp only [List.map_cons, List.nodup_cons] at hn
    obtain ⟨hnot, hnd⟩ := hn
    unfold getFeeRatio
    rcases List.mem_cons.1 h with h | h
    · subst h; simp
    · have hne : ¬ (x.pd = r.pd ∧ x.fd = r.fd) := by
        rintro ⟨h1, h2⟩
        apply hnot
        exact List.mem_map.2 ⟨r, h, by simp [h1, h2]⟩
      simp only [hne, if_false]
      exact ih hnd h

theorem getFeeRatio_none_iff (rs : List Ratio) (pd fd : Denom) :
    getFeeRatio rs pd fd = none ↔ ∀ r ∈ rs, ¬ (r.pd = pd ∧ r.fd = fd) := by
  induction rs with
  | nil => simp [getFeeRatio]
  | cons x rest ih =>
    unfold getFeeRatio
    by_cases hk : x.pd = pd ∧ x.fd = fd
    · simp [hk]
    · simp only [hk, if_false, ih, List.mem_cons, forall_eq_or_imp, not_false_eq_true, true_and]

/-! ### the ratio fee is the ceiling -/

/-- Under the guards the chain enforces, `ApplyToLoosely` returns `⌈price·fee/ratioPrice⌉`. -/
theorem applyToLoosely_eq_spec {r : Ratio} {price : Coin} (hd : r.pd = price.1)
    (hp : 0 ≤ price.2) (hpa : 0 < r.pa) (hfa : 0 ≤ r.fa)
    (hfit : fits256 (ceilDiv (price.2 * r.fa) r.pa) = true) :
    applyToLoosely r price = .ok (ratioFeeSpec r price.2) := by
  obtain ⟨a, rd, hok, hceil, _, _⟩ := C19.applyLoosely_is_ceil hp hfa hpa hfit
  unfold applyToLoosely
  simp only [hd, ne_eq, not_true_eq_false, if_false, hok]
  have : a = ratioFeeSpec r price.2 :=
    isCeilDiv_unique hpa hceil (ceilDiv_isCeil _ hpa)
  rw [this]

/-- … and is refused exactly when the fee itself needs more than 256 bits (since the repair of
`applyLooselyTo`; before it the product was the limit). -/
theorem applyToLoosely_overflow {r : Ratio} {price : Coin} (hd : r.pd = price.1)
    (hp : 0 ≤ price.2) (hpa : 0 < r.pa) (hfa : 0 ≤ r.fa)
    (hfit : fits256 (ceilDiv (price.2 * r.fa) r.pa) = false) :
    ∃ e, applyToLoosely r price = .error e := by
  obtain ⟨e, he⟩ := (C19.applyLoosely_fails_iff hp hfa hpa).mpr hfit
  refine ⟨e, ?_⟩
  unfold applyToLoosely
  simp [hd, he]

theorem ratioFeeSpec_nonneg {r : Ratio} {p : Int} (hp : 0 ≤ p) (hpa : 0 < r.pa) (hfa : 0 ≤ r.fa) :
    0 ≤ ratioFeeSpec r p :=
  isCeilDiv_nonneg hpa (Int.mul_nonneg hp hfa) (ceilDiv_isCeil _ hpa)

end PvProofs.AdmitL
