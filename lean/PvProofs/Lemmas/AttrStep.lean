/-
C16 — inversion of every message of the model (`step s op = .ok s'` gives the checks that
passed and the exact successor state) and preservation of the store invariants by `step`.
-/
import PvProofs.Lemmas.AttrCap

set_option linter.unusedSimpArgs false
set_option linter.unusedVariables false

namespace PvProofs.Lemmas.AttrStep
open PvModel.Attr PvProofs.Lemmas.AttrStore PvProofs.Lemmas.AttrInv PvProofs.Lemmas.AttrSweep
  PvProofs.Lemmas.AttrCap

/-! ### inversions -/

theorem setAttribute_ok {s s' : State} {a : Attribute} {o : String} (h : setAttribute s a o = .ok s') :
    validateExpirationDate s a = true ∧ resolvesTo s a.name o = true ∧ s' = put s a := by
  unfold setAttribute at h
  split at h; · cases h
  split at h; · cases h
  split at h; · cases h
  split at h; · cases h
  rename_i h1 _ _ h4
  injection h with h
  simp at h1 h4
  exact ⟨h1, h4, h.symm⟩

theorem add_ok {s s' : State} {sg : String} {a : Attribute} (h : step s (.add sg a) = .ok s') :
    validateExpirationDate s a = true ∧ resolvesTo s a.name sg = true ∧ s' = put s a := by
  simp only [step] at h
  split at h; · cases h
  exact setAttribute_ok h

/-- The replacement of `UpdateAttribute`: the stored attribute goes, the new one is put. -/
theorem update_ok {s s' : State} {sg addr name ov nv : String} {ot nt : AType}
    (h : step s (.update sg addr name ov ot nv nt) = .ok s') :
    resolvesTo s name sg = true ∧ ∃ cur, cur ∈ s.recs ∧ cur.key = (addr, name, ov) ∧ cur.ty = ot ∧
      s' = put (deleteOne s cur) ⟨addr, name, nv, nt, none⟩ := by
  simp only [step] at h
  unfold updateAttribute at h
  split at h; · cases h
  split at h; · cases h
  split at h; · cases h
  split at h; · cases h
  split at h; · cases h
  rename_i _ _ _ _ h5
  simp at h5
  split at h
  · cases h
  · rename_i cur hcur
    split at h
    · rename_i hty
      injection h with h
      obtain ⟨hm, hk⟩ := getAttr_some hcur
      refine ⟨h5, cur, hm, hk, hty, ?_⟩
      have hk' : cur.key = (addr, name, ov) := hk
      have ha : cur.addr = addr := by
        have := (key_eq_iff cur ⟨addr, name, ov, ot, none⟩).mp hk'
        exact this.1
      rw [← h]
      unfold put deleteOne
      simp only [Attribute.key] at hk' ⊢
      rw [hk', ha]
    · cases h

/-- `UpdateAttributeExpiration`: same attribute, new expiration. -/
def reexp (s : State) (cur : Attribute) (e : Option Nat) : State :=
  addAttributeExpireLookup (setRec (deleteAttributeExpireLookup s cur) { cur with exp := e }) { cur with exp := e }

theorem updateExp_ok {s s' : State} {sg addr name v : String} {e : Option Nat}
    (h : step s (.updateExp sg addr name v e) = .ok s') :
    resolvesTo s name sg = true ∧ ∃ cur, cur ∈ s.recs ∧ cur.key = (addr, name, v) ∧ s' = reexp s cur e := by
  simp only [step] at h
  unfold updateAttributeExpiration at h
  split at h; · cases h
  split at h; · cases h
  split at h; · cases h
  rename_i _ _ h3
  simp at h3
  split at h
  · cases h
  · rename_i cur hcur
    injection h with h
    obtain ⟨hm, hk⟩ := getAttr_some hcur
    exact ⟨h3, cur, hm, hk, h.symm⟩

theorem deleteAttribute_ok {s s' : State} {addr name o : String} {value : Option String}
    (h : deleteAttribute s addr name value o = .ok s') :
    (resolvesTo s name o = true ∨ nameExists s name = false) ∧ toDelete s addr name value ≠ [] ∧
      s' = (toDelete s addr name value).foldl deleteOne s := by
  unfold deleteAttribute at h
  split at h; · cases h
  split at h; · cases h
  split at h; · cases h
  rename_i _ h2 h3
  injection h with h
  refine ⟨?_, ?_, h.symm⟩
  · simp at h2
    by_cases hr : resolvesTo s name o = true
    · exact Or.inl hr
    · right
      have := h2 (by simpa using hr)
      simpa using this
  · intro he
    apply h3
    simp [he]

theorem delete_ok {s s' : State} {sg addr name : String} (h : step s (.delete sg addr name) = .ok s') :
    (resolvesTo s name sg = true ∨ nameExists s name = false) ∧ toDelete s addr name none ≠ [] ∧
      s' = (toDelete s addr name none).foldl deleteOne s := by
  simp only [step] at h
  split at h; · cases h
  exact deleteAttribute_ok h

theorem deleteDistinct_ok {s s' : State} {sg addr name v : String}
    (h : step s (.deleteDistinct sg addr name v) = .ok s') :
    (resolvesTo s name sg = true ∨ nameExists s name = false) ∧ toDelete s addr name (some v) ≠ [] ∧
      s' = (toDelete s addr name (some v)).foldl deleteOne s := by
  simp only [step] at h
  split at h; · cases h
  exact deleteAttribute_ok h

theorem bind_ok {s s' : State} {name owner : String} (h : step s (.bind name owner) = .ok s') :
    nameExists s name = false ∧ s' = { s with names := kvSet s.names name owner } := by
  simp only [step] at h
  unfold bindName at h
  split at h; · cases h
  rename_i h1
  injection h with h
  exact ⟨by simpa using h1, h.symm⟩

theorem transfer_ok {s s' : State} {au name owner : String} (h : step s (.transfer au name owner) = .ok s') :
    (∃ cur, getRecordByName s name = some cur ∧ (au = govAddr ∨ au = cur)) ∧
      s' = { s with names := kvSet s.names name owner } := by
  simp only [step] at h
  unfold modifyName at h
  split at h
  · cases h
  · rename_i cur hcur
    split at h; · cases h
    rename_i h1
    injection h with h
    refine ⟨⟨cur, hcur, ?_⟩, h.symm⟩
    by_cases h2 : au = govAddr
    · exact Or.inl h2
    · right
      by_cases h3 : au = cur
      · exact h3
      · exact absurd ⟨h2, h3⟩ h1

/-- State after `DeleteRecord`, before the purge. -/
def unbind (s : State) (name : String) : State := { s with names := kvErase s.names name }

theorem deleteName_ok {s s' : State} {sg name : String} (h : step s (.deleteName sg name) = .ok s') :
    resolvesTo s name sg = true ∧
      s' = (accountsByAttribute s name).foldl (purgeAcct name) (unbind s name) := by
  simp only [step] at h
  unfold deleteName at h
  split at h; · cases h
  split at h; · cases h
  rename_i _ h2
  simp at h2
  unfold purgeAttribute at h
  split at h; · cases h
  split at h; · cases h
  injection h with h
  exact ⟨h2, h.symm⟩

theorem begin_ok {s s' : State} {t : Nat} (h : step s (.beginBlock t) = .ok s') :
    s' = deleteExpiredAttributes { s with now := t } maxExpiredAttributionCount := by
  simp only [step] at h
  injection h with h
  exact h.symm

/-- The capped sweep is a fold of `expireOne` over some list of due queue entries (a prefix of
the due entries in store order). -/
theorem begin_fold {s s' : State} {t : Nat} (h : step s (.beginBlock t) = .ok s') :
    ∃ l : List (Nat × Key), (∀ q ∈ l, q ∈ s.queue ∧ q.1 < t) ∧
      s' = l.foldl expireOne { s with now := t } := by
  obtain ⟨l, hl, e⟩ := sweep_is_fold s t maxExpiredAttributionCount
  exact ⟨l, hl, by rw [begin_ok h, e]⟩

/-! ### invariants across a message -/

theorem count_setRec_eq (s : State) (a : Attribute) (n x : String) :
    count (setRec s a) n x = count (delRec s a.key) n x + (if (a.name, a.addr) = (n, x) then 1 else 0) := by
  unfold count; simp only [setRec_recs, delRec_recs]
  by_cases h1 : a.name = n
  · by_cases h2 : a.addr = x
    · simp [List.filter_cons, h1, h2]
    · simp [List.filter_cons, h1, h2]
  · simp [List.filter_cons, h1]

theorem reexp_recs (s : State) (cur : Attribute) (e : Option Nat) :
    (reexp s cur e).recs = { cur with exp := e } :: s.recs.filter (fun r => decide (r.key ≠ cur.key)) := by
  simp [reexp, Attribute.key]

theorem reexp_names (s : State) (cur : Attribute) (e : Option Nat) : (reexp s cur e).names = s.names := by
  simp [reexp]

theorem reexp_inv {s : State} {cur : Attribute} (e : Option Nat) (hc : cur ∈ s.recs) (hi : Inv s) :
    Inv (reexp s cur e) := by
  have hkey : ({ cur with exp := e } : Attribute).key = cur.key := rfl
  refine ⟨?_, ?_, ?_, ?_⟩
  · rw [reexp_recs]
    have := hi.keys.set { cur with exp := e }
    rw [hkey] at this
    exact this
  · intro n x
    have h1 : count (reexp s cur e) n x = count (setRec s { cur with exp := e }) n x :=
      count_congr (by simp [reexp]) n x
    have h2 : getCnt (reexp s cur e) n x = getCnt s n x := getCnt_congr (by simp [reexp]) n x
    rw [h1, h2, count_setRec_eq, hkey]
    have h3 := hi.cntGe n x
    by_cases hk : (cur.name, cur.addr) = (n, x)
    · obtain ⟨e1, e2⟩ := Prod.mk.inj hk
      subst e1; subst e2
      have := count_delRec_lt s cur hc
      simp; omega
    · have := count_delRec_le s cur.key n x
      simp [hk]; omega
  · intro r hr
    rw [nameExists_congr (reexp_names s cur e)]
    rw [reexp_recs] at hr
    rcases List.mem_cons.mp hr with h | h
    · subst h; exact hi.bound cur hc
    · exact hi.bound r (List.mem_filter.mp h).1
  · intro r hr e' he'
    unfold reexp
    rw [mem_addExp]
    rw [reexp_recs] at hr
    rcases List.mem_cons.mp hr with h | h
    · subst h; right; exact ⟨e', he', rfl⟩
    · left
      obtain ⟨h1, h2⟩ := List.mem_filter.mp h
      simp only [decide_eq_true_eq] at h2
      simp only [setRec_queue]
      rw [mem_delExp]
      refine ⟨hi.queueComplete r h1 e' he', ?_⟩
      intro _ _ heq
      exact h2 (Prod.mk.inj heq).2

theorem toDelete_mem {s : State} {addr name : String} {value : Option String} {a : Attribute}
    (h : a ∈ toDelete s addr name value) :
    a ∈ s.recs ∧ a.addr = addr ∧ a.name = name ∧ (∀ v, value = some v → a.value = v) := by
  unfold toDelete at h
  obtain ⟨h1, h2⟩ := List.mem_filter.mp h
  simp only [Bool.and_eq_true, decide_eq_true_eq] at h2
  refine ⟨h1, h2.1.1, h2.1.2, ?_⟩
  intro v hv
  subst hv
  simpa using h2.2

theorem names_only_inv {s : State} (names : List (String × String)) (hi : Inv s)
    (hb : ∀ r ∈ s.recs, nameExists { s with names := names } r.name = true) :
    Inv { s with names := names } :=
  ⟨hi.keys, hi.cntGe, hb, hi.queueComplete⟩

theorem nameExists_kvSet (s : State) (name owner n : String) :
    nameExists { s with names := kvSet s.names name owner } n = (decide (name = n) || nameExists s n) := by
  unfold nameExists getRecordByName
  simp only [kvGet_set]
  by_cases h : name = n <;> simp [h]

theorem step_inv {s s' : State} {op : Op} (hi : Inv s) (h : step s op = .ok s') : Inv s' := by
  cases op with
  | add sg a =>
    obtain ⟨_, hr, rfl⟩ := add_ok h
    exact put_inv a hi (nameExists_of_resolvesTo hr)
  | update sg addr name ov ot nv nt =>
    obtain ⟨hr, cur, hc, _, _, rfl⟩ := update_ok h
    apply put_inv _ (deleteOne_inv hc hi)
    rw [nameExists_congr (deleteOne_names s cur)]
    exact nameExists_of_resolvesTo hr
  | updateExp sg addr name v e =>
    obtain ⟨_, cur, hc, _, rfl⟩ := updateExp_ok h
    exact reexp_inv e hc hi
  | delete sg addr name =>
    obtain ⟨_, _, rfl⟩ := delete_ok h
    exact foldl_deleteOne_inv _ s (fun a ha => (toDelete_mem ha).1) (hi.keys.filter _) hi
  | deleteDistinct sg addr name v =>
    obtain ⟨_, _, rfl⟩ := deleteDistinct_ok h
    exact foldl_deleteOne_inv _ s (fun a ha => (toDelete_mem ha).1) (hi.keys.filter _) hi
  | bind name owner =>
    obtain ⟨_, rfl⟩ := bind_ok h
    apply names_only_inv _ hi
    intro r hr
    rw [nameExists_kvSet, hi.bound r hr]; simp
  | transfer au name owner =>
    obtain ⟨_, rfl⟩ := transfer_ok h
    apply names_only_inv _ hi
    intro r hr
    rw [nameExists_kvSet, hi.bound r hr]; simp
  | deleteName sg name =>
    obtain ⟨_, rfl⟩ := deleteName_ok h
    have h3 : Inv3 (unbind s name) := ⟨hi.keys, hi.cntGe, hi.queueComplete⟩
    have h3' := foldl_purgeAcct_inv3 name (accountsByAttribute s name) _ h3
    refine ⟨h3'.keys, h3'.cntGe, ?_, h3'.queueComplete⟩
    intro r hr
    have hc : CntGe (unbind s name) := hi.cntGe
    have := purge_complete (s := unbind s name) name hc r hr
    obtain ⟨hr1, hr2⟩ := this
    have hb := hi.bound r hr1
    unfold nameExists getRecordByName at hb ⊢
    rw [foldl_purgeAcct_names]
    show (kvGet (kvErase s.names name) r.name).isSome = true
    rw [kvGet_erase]
    simp [Ne.symm hr2, hb]
  | beginBlock t =>
    obtain ⟨l, _, rfl⟩ := begin_fold h
    exact foldl_expireOne_inv _ _ ⟨hi.keys, hi.cntGe, hi.bound, hi.queueComplete⟩

/-- Initial states: an empty attribute store (any names, accounts, block time). -/
def Init (s : State) : Prop := s.recs = [] ∧ s.cnt = [] ∧ s.queue = []

instance (s : State) : Decidable (Init s) := by unfold Init; exact inferInstance

theorem init_inv {s : State} (h : Init s) : Inv s := by
  obtain ⟨h1, h2, h3⟩ := h
  refine ⟨?_, ?_, ?_, ?_⟩
  · rw [h1]; exact List.Pairwise.nil
  · intro n a; unfold count; rw [h1]; simp
  · intro r hr; rw [h1] at hr; cases hr
  · intro r hr; rw [h1] at hr; cases hr

theorem apply_inv {s : State} (op : Op) (hi : Inv s) : Inv (apply s op) := by
  unfold apply
  cases h : step s op with
  | ok s' => exact step_inv hi h
  | error e => exact hi

theorem run_inv (ops : List Op) : ∀ s : State, Inv s → Inv (run s ops) := by
  induction ops with
  | nil => intro s h; exact h
  | cons op t ih => intro s h; exact ih _ (apply_inv op h)

end PvProofs.Lemmas.AttrStep
