/-
C16 — the proposed repair of the sweep (`expireOneFixed`): invariants and the exact set of
records it removes.
-/
import PvProofs.Lemmas.AttrStale

set_option linter.unusedSimpArgs false
set_option linter.unusedVariables false

namespace PvProofs.Lemmas.AttrFixed
open PvModel.Attr PvProofs.Lemmas.AttrStore PvProofs.Lemmas.AttrInv PvProofs.Lemmas.AttrStep

/-- Either the repaired step behaves as the original one (the entry is the attribute's current
expiration) or it only drops the queue entry. -/
theorem expireOneFixed_cases (s : State) (q : Nat × Key) :
    (∃ a, getAttr s q.2 = some a ∧ a.exp = some q.1 ∧ expireOneFixed s q = expireOne s q) ∨
    ((∀ a, getAttr s q.2 = some a → a.exp ≠ some q.1) ∧
      expireOneFixed s q = { s with queue := s.queue.filter (fun q' => decide (q' ≠ q)) }) := by
  unfold expireOneFixed expireOne
  cases h : getAttr s q.2 with
  | none => right; exact ⟨fun a ha => (by cases ha), rfl⟩
  | some a =>
    by_cases he : a.exp = some q.1
    · left; exact ⟨a, rfl, he, by simp [he]⟩
    · right
      refine ⟨fun a' ha' => (by cases ha'; exact he), by simp [he]⟩

theorem expireOneFixed_inv {s : State} (q : Nat × Key) (hi : Inv s) : Inv (expireOneFixed s q) := by
  rcases expireOneFixed_cases s q with ⟨a, _, _, he⟩ | ⟨hne, he⟩
  · rw [he]; exact expireOne_inv q hi
  · rw [he]
    refine ⟨hi.keys, hi.cntGe, hi.bound, ?_⟩
    intro r hr e hx
    have hq := hi.queueComplete r hr e hx
    refine List.mem_filter.mpr ⟨hq, ?_⟩
    simp only [decide_eq_true_eq]
    intro heq
    have hk : r.key = q.2 := by rw [← heq]
    have he1 : e = q.1 := by rw [← heq]
    cases hg : getAttr s q.2 with
    | none => exact getAttr_none hg r hr hk
    | some a =>
      obtain ⟨ha, hka⟩ := getAttr_some hg
      have : a = r := hi.keys.eq_of_key ha hr (by rw [hka, hk])
      subst this
      exact hne a hg (by rw [hx, he1])

theorem expireOneFixed_recs {s : State} (hi : Inv s) (q : Nat × Key) (r : Attribute) :
    r ∈ (expireOneFixed s q).recs ↔ (r ∈ s.recs ∧ ¬ (r.key = q.2 ∧ r.exp = some q.1)) := by
  rcases expireOneFixed_cases s q with ⟨a, hg, hx, he⟩ | ⟨hne, he⟩
  · rw [he, expireOne_recs]
    obtain ⟨ha, hka⟩ := getAttr_some hg
    constructor
    · rintro ⟨h1, h2⟩; exact ⟨h1, fun h => h2 h.1⟩
    · rintro ⟨h1, h2⟩
      refine ⟨h1, fun hk => h2 ⟨hk, ?_⟩⟩
      have : a = r := hi.keys.eq_of_key ha h1 (by rw [hka, hk])
      rw [← this]; exact hx
  · rw [he]
    constructor
    · intro h1
      refine ⟨h1, ?_⟩
      rintro ⟨hk, hx⟩
      cases hg : getAttr s q.2 with
      | none => exact getAttr_none hg r h1 hk
      | some a =>
        obtain ⟨ha, hka⟩ := getAttr_some hg
        have : a = r := hi.keys.eq_of_key ha h1 (by rw [hka, hk])
        subst this
        exact hne a hg hx
    · intro h; exact h.1

theorem expireOneFixed_names (s : State) (q : Nat × Key) : (expireOneFixed s q).names = s.names := by
  rcases expireOneFixed_cases s q with ⟨a, _, _, he⟩ | ⟨_, he⟩
  · rw [he, expireOne_names]
  · rw [he]

theorem foldl_expireOneFixed_inv (l : List (Nat × Key)) :
    ∀ s : State, Inv s → Inv (l.foldl expireOneFixed s) := by
  induction l with
  | nil => intro s h; exact h
  | cons q t ih => intro s h; simp only [List.foldl_cons]; exact ih _ (expireOneFixed_inv q h)

theorem foldl_expireOneFixed_recs (l : List (Nat × Key)) :
    ∀ (s : State), Inv s → ∀ r : Attribute,
      (r ∈ (l.foldl expireOneFixed s).recs ↔ (r ∈ s.recs ∧ ∀ q ∈ l, ¬ (r.key = q.2 ∧ r.exp = some q.1))) := by
  induction l with
  | nil => intro s _ r; simp
  | cons q t ih =>
    intro s hi r
    simp only [List.foldl_cons]
    rw [ih _ (expireOneFixed_inv q hi), expireOneFixed_recs hi]
    simp only [List.mem_cons, forall_eq_or_imp]
    constructor
    · rintro ⟨⟨h1, h2⟩, h3⟩; exact ⟨h1, h2, h3⟩
    · rintro ⟨h1, h2, h3⟩; exact ⟨⟨h1, h2⟩, h3⟩

theorem stepFixed_begin {s s' : State} {t : Nat} (h : stepFixed s (.beginBlock t) = .ok s') :
    s' = (s.queue.filter (fun q => decide (q.1 < t))).foldl expireOneFixed { s with now := t } := by
  simp only [stepFixed, deleteExpiredAttributesFixed] at h
  injection h with h
  exact h.symm

theorem stepFixed_other {s : State} {op : Op} (hns : ∀ t, op ≠ .beginBlock t) : stepFixed s op = step s op := by
  cases op with
  | beginBlock t => exact absurd rfl (hns t)
  | _ => rfl

theorem stepFixed_inv {s s' : State} {op : Op} (hi : Inv s) (h : stepFixed s op = .ok s') : Inv s' := by
  by_cases hs : ∃ t, op = .beginBlock t
  · obtain ⟨t, rfl⟩ := hs
    rw [stepFixed_begin h]
    exact foldl_expireOneFixed_inv _ _ ⟨hi.keys, hi.cntGe, hi.bound, hi.queueComplete⟩
  · rw [stepFixed_other (fun t e => hs ⟨t, e⟩)] at h
    exact step_inv hi h

theorem applyFixed_inv {s : State} (op : Op) (hi : Inv s) : Inv (applyFixed s op) := by
  unfold applyFixed
  cases h : stepFixed s op with
  | ok s' => exact stepFixed_inv hi h
  | error e => exact hi

theorem runFixed_inv (ops : List Op) : ∀ s : State, Inv s → Inv (runFixed s ops) := by
  induction ops with
  | nil => intro s h; exact h
  | cons op t ih => intro s h; exact ih _ (applyFixed_inv op h)

end PvProofs.Lemmas.AttrFixed
