/-
Helper lemmas for C15: what each message handler does when it succeeds, and that every message
preserves the store invariant.
-/
import PvProofs.Lemmas.NameInv

namespace PvModel.Name
open KV

variable {κ : Type} [DecidableEq κ] (cfg : Cfg κ)

theorem bindName_ok {st st' : State κ} {pn rn : Bytes} {pa ra : Addr} {r : Bool}
    (h : bindName cfg st pn pa rn ra r = .ok st') :
    ∃ par name k, getRecordByName cfg st pn = some par ∧
      (par.restricted = true → par.addr = cfg.canon pa) ∧
      normalize cfg (rn ++ dot :: pn) = .ok name ∧ getNameKeyPrefix cfg name = .ok k ∧
      get st.recs k = none ∧ cfg.addrOk ra = true ∧
      st' = { recs := set st.recs k ⟨name, cfg.canon ra, r⟩,
              idx := set st.idx (cfg.canon ra, k) ⟨name, cfg.canon ra, r⟩ } := by
  unfold bindName at h
  split at h
  · cases h
  · split at h
    · cases h
    · rename_i par hpar
      split at h
      · cases h
      · rename_i hres
        split at h
        · cases h
        · rename_i name hname
          split at h
          · cases h
          · split at h
            · cases h
            · rename_i hra
              split at h
              · cases h
              · rename_i st2 hset
                cases h
                obtain ⟨n2, k, hn2, hk, hfree, rfl⟩ := setNameRecord_ok cfg hset
                have hidem := normalize_idem cfg hname
                rw [hidem] at hn2
                cases hn2
                refine ⟨par, name, k, hpar, ?_, hname, hk, hfree, by simpa using hra, rfl⟩
                intro hr
                simp only [hr, Bool.true_and, Bool.or_eq_true, Bool.not_eq_true', not_or,
                  Bool.not_eq_false] at hres
                have := hres.2
                simp only [resolvesTo, hpar, decide_eq_true_eq] at this
                exact this

theorem deleteName_ok {st st' : State κ} {rn : Bytes} {ra : Addr}
    (h : deleteName cfg st rn ra = .ok st') :
    ∃ name k rec, normalize cfg rn = .ok name ∧ getNameKeyPrefix cfg name = .ok k ∧
      get st.recs k = some rec ∧ rec.addr = cfg.canon ra ∧
      st' = { recs := del st.recs k, idx := del st.idx (rec.addr, k) } := by
  unfold deleteName at h
  split at h
  · cases h
  · split at h
    · cases h
    · rename_i name hname
      split at h
      · cases h
      · split at h
        · cases h
        · split at h
          · cases h
          · rename_i hres
            split at h
            · cases h
            · rename_i st2 hdel
              split at h
              · cases h
              · split at h
                · cases h
                · cases h
                  obtain ⟨k, rec, hk, hg, rfl⟩ := deleteRecord_ok cfg hdel
                  refine ⟨name, k, rec, hname, hk, hg, ?_, rfl⟩
                  simp only [resolvesTo, getRecordByName_eq cfg hk, hg, Bool.not_eq_true',
                    decide_eq_false_iff_not, not_not] at hres
                  exact hres

theorem modifyName_ok {st st' : State κ} {a addr : Addr} {name : Bytes} {r : Bool}
    (h : modifyName cfg st a name addr r = .ok st') :
    ∃ existing n k, getRecordByName cfg st name = some existing ∧
      (a = cfg.authority ∨ a = existing.addr) ∧
      normalize cfg name = .ok n ∧ getNameKeyPrefix cfg n = .ok k ∧
      cfg.addrOk addr = true ∧
      st' = { recs := set st.recs k ⟨n, cfg.canon addr, r⟩,
              idx := set (idxWithoutOld st k (cfg.canon addr)) (cfg.canon addr, k) ⟨n, cfg.canon addr, r⟩ } := by
  unfold modifyName at h
  split at h
  · cases h
  · rename_i existing hex
    split at h
    · cases h
    · rename_i hauth
      split at h
      · cases h
      · rename_i haddr
        split at h
        · cases h
        · rename_i st2 hup
          cases h
          obtain ⟨n, k, hn, hk, rfl⟩ := updateNameRecord_ok cfg hup
          refine ⟨existing, n, k, hex, ?_, hn, hk, by simpa using haddr, rfl⟩
          by_cases h1 : a = cfg.authority
          · exact Or.inl h1
          · by_cases h2 : a = existing.addr
            · exact Or.inr h2
            · exact absurd ⟨h1, h2⟩ hauth

/-- the root-creation loop never touches an existing record, and every record it adds is bound to
the given owner with the given restriction under a name `Normalize` accepted. -/
theorem createRootLoop_effect (addr : Addr) (restricted : Bool) (segs : List Bytes) :
    ∀ (n : Bytes) (st st' : State κ), createRootLoop cfg addr restricted segs n st = .ok st' →
      (∀ k e, get st.recs k = some e → get st'.recs k = some e) ∧
      (∀ k r, get st'.recs k = some r → get st.recs k = some r ∨
        (get st.recs k = none ∧ r.addr = addr ∧ r.restricted = restricted ∧
          normalize cfg r.name = .ok r.name)) := by
  induction segs with
  | nil =>
    intro n st st' h
    simp [createRootLoop] at h
    subst h
    exact ⟨fun _ _ h => h, fun _ _ h => Or.inl h⟩
  | cons seg rest ih =>
    intro n st st' h
    simp only [createRootLoop] at h
    split at h
    · split at h
      · cases h
      · rename_i st1 h1
        obtain ⟨nn, k1, hnn, hk1, hfree, rfl⟩ := setNameRecord_ok cfg h1
        obtain ⟨ihA, ihB⟩ := ih _ _ _ h
        constructor
        · intro k e hg
          apply ihA
          by_cases hk : k = k1
          · subst hk; rw [hfree] at hg; cases hg
          · simpa [get_set_ne _ _ hk] using hg
        · intro k r hg
          rcases ihB k r hg with h2 | ⟨h2, ha, hr, hn⟩
          · by_cases hk : k = k1
            · subst hk
              simp only [get_set_self, Option.some.injEq] at h2
              subst h2
              exact Or.inr ⟨hfree, rfl, rfl, normalize_idem cfg hnn⟩
            · rw [get_set_ne _ _ hk] at h2; exact Or.inl h2
          · by_cases hk : k = k1
            · subst hk; simp [get_set_self] at h2
            · rw [get_set_ne _ _ hk] at h2; exact Or.inr ⟨h2, ha, hr, hn⟩
    · exact ih _ _ _ h

theorem createRootNameMsg_ok {st st' : State κ} {a owner : Addr} {name : Bytes} {r : Bool}
    (h : createRootNameMsg cfg st a name owner r = .ok st') :
    a = cfg.authority ∧ cfg.addrOk owner = true ∧
      createRootLoop cfg (cfg.canon owner) r (splitDot name).reverse [] st = .ok st' := by
  unfold createRootNameMsg at h
  split at h
  · cases h
  · rename_i hauth
    unfold createRootName at h
    split at h
    · cases h
    · split at h
      · cases h
      · rename_i hown
        exact ⟨(not_not.mp hauth).symm, by simpa using hown, h⟩

theorem step_ok_cases {st st' : State κ} {op : Op} (h : step cfg st op = .ok st') :
    match op with
    | .root a n o r => createRootNameMsg cfg st a n o r = .ok st'
    | .bind pn pa rn ra r => bindName cfg st pn pa rn ra r = .ok st'
    | .modify a n ad r => modifyName cfg st a n ad r = .ok st'
    | .delete n a => deleteName cfg st n a = .ok st' := by
  unfold step at h
  split at h
  · cases h
  · cases op <;> exact h

/-- every message preserves the store invariant -/
theorem inv_step {st st' : State κ} (hI : Inv cfg st) {op : Op} (h : step cfg st op = .ok st') :
    Inv cfg st' := by
  have hc := step_ok_cases cfg h
  cases op with
  | root a n o r =>
    obtain ⟨-, -, hl⟩ := createRootNameMsg_ok cfg hc
    exact inv_createRootLoop cfg _ _ _ _ _ _ hI hl
  | bind pn pa rn ra r =>
    obtain ⟨par, name, k, -, -, hn, hk, hfree, -, rfl⟩ := bindName_ok cfg hc
    refine inv_set cfg hI hk (normalize_idem cfg hn) st.idx hI.idxNodup (fun _ _ _ => rfl) ?_
    intro a _
    cases hg : get st.idx (a, k) with
    | none => rfl
    | some r' => have := ((hI.idxExact a k r').mp hg).1; rw [hfree] at this; cases this
  | modify a n ad r =>
    simp only at hc
    unfold modifyName at hc
    split at hc
    · cases hc
    · split at hc
      · cases hc
      · split at hc
        · cases hc
        · split at hc
          · cases hc
          · rename_i st2 hup
            cases hc
            exact inv_updateNameRecord cfg hI hup
  | delete n a =>
    obtain ⟨name, k, rec, -, -, hg, -, rfl⟩ := deleteName_ok cfg hc
    exact inv_del cfg hI hg

theorem inv_apply {st : State κ} (hI : Inv cfg st) (op : Op) : Inv cfg (apply cfg st op) := by
  unfold apply
  split
  · rename_i st' h; exact inv_step cfg hI h
  · exact hI

theorem inv_run (ops : List Op) : ∀ {st : State κ}, Inv cfg st → Inv cfg (run cfg st ops) := by
  induction ops with
  | nil => intro st hI; exact hI
  | cons op ops ih => intro st hI; exact ih (inv_apply cfg hI op)

end PvModel.Name
