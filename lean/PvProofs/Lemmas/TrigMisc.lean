/-
Helper lemmas for C17: caps of the dispatcher on arbitrary stores, signer coverage of
`ValidateBasic`, panic-freedom of the detector, queue positions.
-/
import PvProofs.Lemmas.TrigHist

namespace PvProofs.Lemmas.Trig
open PvModel.Trig

/-- The caps hold for every store, well formed or not. -/
theorem processLoop_caps (cost : Nat → Nat → Nat) : ∀ (n gc : Nat) (s s' : State) (xs : List Exec),
    processLoop cost n gc s = some (s', xs) →
    xs.length ≤ n ∧ (xs ≠ [] → gc + (xs.map (·.gas)).sum ≤ MaximumQueueGas)
  | 0, gc, s, s', xs, h => by simp only [processLoop] at h; cases h; simp
  | n + 1, gc, s, s', xs, h => by
    unfold processLoop at h
    split at h; · cases h; simp
    split at h; · cases h
    dsimp only at h
    split at h; · cases h
    next g hg =>
    split at h; · cases h; simp
    next hcap =>
    split at h
    · next s2 rest hp =>
      obtain ⟨h1, h2⟩ := processLoop_caps cost n (gc + g) _ s2 rest hp
      cases h
      refine ⟨by simp; omega, fun _ => ?_⟩
      simp only [List.map_cons, List.sum_cons]
      by_cases hre : rest = []
      · subst hre; simp; omega
      · have := h2 hre; omega
    · cases h

theorem validateActions_ok (auth : List Addr) : ∀ acts : List Action,
    validateActions auth acts = .ok () → ∀ a ∈ acts, hasSigners auth a = true ∧ a.validateBasic = true
  | [], _ => by simp
  | a :: rest, h => by
    unfold validateActions at h
    split at h; · cases h
    next h1 =>
    split at h; · cases h
    next h2 =>
    intro x hx
    rcases List.mem_cons.1 hx with e | hx
    · subst e; exact ⟨by simpa using h2, by simpa using h1⟩
    · exact validateActions_ok auth rest h x hx

theorem validateBasic_ok {m : CreateMsg} (h : m.validateBasic = .ok ()) :
    m.actions ≠ [] ∧ m.event.validate = true ∧ (∀ a ∈ m.authorities, validAddr a = true) ∧
    ∀ a ∈ m.actions, hasSigners m.authorities a = true := by
  unfold CreateMsg.validateBasic at h
  split at h; · cases h
  next h1 =>
  split at h; · cases h
  next h2 =>
  split at h; · cases h
  next h3 =>
  refine ⟨by intro e; simp [e] at h1, by simpa using h2, by simpa using h3, fun a ha => (validateActions_ok _ _ h a ha).1⟩

/-! ### the detector does not panic when no trigger sits in a foreign bucket -/

theorem matchUntil_isSome {s : State} (m term : Trigger → Option Bool) : ∀ ls : List Listener,
    (∀ l ∈ ls, ∃ t, s.triggers l.id = some t ∧ (m t).isSome = true ∧ (term t).isSome = true) →
    (matchUntil s m term ls).isSome = true
  | [], _ => rfl
  | l :: ls, h => by
    obtain ⟨t, ht, hm, htm⟩ := h l List.mem_cons_self
    obtain ⟨hit, hhit⟩ := Option.isSome_iff_exists.1 hm
    obtain ⟨stop, hstop⟩ := Option.isSome_iff_exists.1 htm
    have ih := matchUntil_isSome m term ls (fun l' hl' => h l' (List.mem_cons_of_mem _ hl'))
    obtain ⟨rest, hrest⟩ := Option.isSome_iff_exists.1 ih
    simp only [matchUntil, getTrigger, ht, hhit, hstop, hrest]
    cases stop <;> simp

theorem txBucket_isSome {s : State} (ev : AbciEvent) : ∀ (ls : List Listener) (seen : List Nat),
    (∀ l ∈ ls, ∃ t, s.triggers l.id = some t ∧ ∃ n a, t.event = .tx n a) →
    (txBucket s ev seen ls).isSome = true
  | [], _, _ => rfl
  | l :: ls, seen, h => by
    obtain ⟨t, ht, n, a, he⟩ := h l List.mem_cons_self
    have ih := fun seen => txBucket_isSome ev ls seen (fun l' hl' => h l' (List.mem_cons_of_mem _ hl'))
    simp only [txBucket, getTrigger, ht]
    split
    · exact ih seen
    · rw [he]
      obtain ⟨r, hr⟩ := Option.isSome_iff_exists.1 (ih (t.id :: seen))
      simp only [hr]; rfl

theorem bucket_mem {s : State} (hw : WF s) {name : String} {l : Listener} (hl : l ∈ bucket s name) :
    ∃ t, s.triggers l.id = some t ∧ norm t.event.pfx = norm name := by
  unfold bucket at hl
  obtain ⟨h1, h2⟩ := List.mem_filter.1 hl
  obtain ⟨t, ht, e⟩ := (hw.lis l).1 h1
  refine ⟨t, ht, ?_⟩
  have : l.pfx = norm name := by simpa using h2
  rw [e] at this; exact this

theorem detectTx_isSome {s : State} (hw : WF s) : ∀ (evs : List AbciEvent) (seen : List Nat),
    (∀ id t, s.triggers id = some t → ∀ ev ∈ evs, norm t.event.pfx = norm ev.type → ∃ n a, t.event = .tx n a) →
    (detectTransactionEvents s seen evs).isSome = true
  | [], _, _ => rfl
  | ev :: evs, seen, h => by
    have h1 : (txBucket s ev seen (bucket s ev.type)).isSome = true := by
      refine txBucket_isSome ev _ seen (fun l hl => ?_)
      obtain ⟨t, ht, e⟩ := bucket_mem hw hl
      exact ⟨t, ht, h _ t ht ev List.mem_cons_self e⟩
    obtain ⟨⟨ts, seen'⟩, hts⟩ := Option.isSome_iff_exists.1 h1
    have h2 := detectTx_isSome hw evs seen' (fun id t ht ev' hev' => h id t ht ev' (List.mem_cons_of_mem _ hev'))
    obtain ⟨rest, hrest⟩ := Option.isSome_iff_exists.1 h2
    simp only [detectTransactionEvents, hts, hrest]; rfl

theorem detectAll_isSome {s : State} (hw : WF s) (evs : List AbciEvent) (h tm : Nat)
    (hc : CleanBuckets s evs) : (detectAll s evs h tm).isSome = true := by
  have h1 := detectTx_isSome hw evs [] (fun id t ht => (hc id t ht).2.2)
  have h2 : (detectBlockHeightEvents s h).isSome = true := by
    refine matchUntil_isSome _ _ _ (fun l hl => ?_)
    obtain ⟨t, ht, e⟩ := bucket_mem hw hl
    obtain ⟨x, hx⟩ := (hc _ t ht).1 e
    exact ⟨t, ht, by simp [heightMatch, hx], by simp [heightTerm, hx]⟩
  have h3 : (detectTimeEvents s tm).isSome = true := by
    refine matchUntil_isSome _ _ _ (fun l hl => ?_)
    obtain ⟨t, ht, e⟩ := bucket_mem hw hl
    obtain ⟨x, hx⟩ := (hc _ t ht).2.1 e
    exact ⟨t, ht, by simp [timeMatch, hx], by simp [timeTerm, hx]⟩
  obtain ⟨a, ha⟩ := Option.isSome_iff_exists.1 h1
  obtain ⟨b, hb⟩ := Option.isSome_iff_exists.1 h2
  obtain ⟨c, hc'⟩ := Option.isSome_iff_exists.1 h3
  simp [detectAll, ha, hb, hc']

/-! ### queue positions -/

/-- operations other than `beginBlock` leave the existing queue in place (they may append) -/
theorem qIds_step_append {s : State} (hw : WF s) (op : Op) (hop : ∀ oog, op ≠ .beginBlock oog) :
    ∃ extra, qIds (step s op).1 = qIds s ++ extra := by
  cases op with
  | fund a amt => exact ⟨[], by simp [step, qIds, qList]⟩
  | pay f t amt =>
    simp only [step]
    split
    · next s' hs => obtain ⟨b, hb⟩ := bankSend_ok hs; subst hb; exact ⟨[], by simp [qIds, qList]⟩
    · exact ⟨[], by simp⟩
  | create m rem hh tm =>
    simp only [step]
    split
    · next s' id g hc =>
      obtain ⟨_, _, _, _, _, owner, rest, _, hs⟩ := createTrigger_ok hc
      subst hs; exact ⟨[], by simp [qIds, qList, setGasLimit, setEventListener, setTrigger]⟩
    · exact ⟨[], by simp⟩
  | destroy auth id =>
    simp only [step]
    split
    · next s' hd => exact ⟨[], by rw [(WF_destroyTrigger hw hd).2.qIds]; simp⟩
    · exact ⟨[], by simp⟩
  | beginBlock oog => exact absurd rfl (hop oog)
  | endBlock evs hh tm =>
    simp only [step, detectBlockEvents]
    split
    · next s' ts hd =>
      split at hd
      · next ts' hda =>
        cases hd
        obtain ⟨hnd, hreg⟩ := detectAll_spec hw hda
        obtain ⟨_, hl, _⟩ := queueDetected_spec hh tm ts s hw hnd (fun t ht => (hreg t ht).1)
        exact ⟨ts.map (·.id), by unfold qIds; rw [hl]; simp [Function.comp_def]⟩
      · cases hd
    · exact ⟨[], by simp⟩

def beginCount : List Op → Nat
  | [] => 0
  | .beginBlock _ :: ops => beginCount ops + 1
  | _ :: ops => beginCount ops

theorem executedIds_cons (o : Out) (log : List Out) :
    executedIds (o :: log) = o.executedIds ++ executedIds log := by
  simp [executedIds]

/-- every operation keeps the store well formed -/
theorem WF_step {s : State} (hw : WF s) (op : Op) : WF (step s op).1 :=
  (HInv_step (s := s) (log := [.detected ((qList s).map (·.trigger))])
    ⟨hw, by simp [detectedIds, executedIds, Out.detectedIds, Out.executedIds, qIds, Function.comp_def],
     by simp [executedIds, Out.executedIds], by
      simpa [detectedIds, Out.detectedIds, qIds, Function.comp_def] using hw.qNodup⟩ op).wf

/-- A trigger at position `pre.length` of the queue has run after `pre.length + 1` BeginBlocks,
whatever else happens in between. -/
theorem drains : ∀ (ops : List Op) (s : State) (pre post : List Nat) (id : Nat), WF s →
    qIds s = pre ++ id :: post → pre.length < beginCount ops → id ∈ executedIds (run s ops).2
  | [], s, pre, post, id, _, _, hc => by simp [beginCount] at hc
  | op :: ops, s, pre, post, id, hw, hq, hc => by
    simp only [run, executedIds_cons, List.mem_append]
    have hw' : WF (step s op).1 := WF_step hw op
    by_cases hb : ∃ oog, op = .beginBlock oog
    · obtain ⟨oog, e⟩ := hb
      subst e
      simp only [step, processTriggers] at hw' ⊢
      obtain ⟨s', xs, hp, _, hql, hids, _, hlen, _, _, _, _, _, _, _, hlive⟩ :=
        processLoop_spec oog MaximumActions 0 s hw
      rw [hp] at hw' ⊢
      simp only [Out.executedIds]
      have hqs : qIds s = xs.map (·.id) ++ qIds s' := by
        unfold qIds; rw [hids]; conv_lhs => rw [hql]
        simp
      have hne : xs ≠ [] := by
        refine hlive ?_ (by decide) rfl
        have : (qList s).length ≠ 0 := by
          have : (qIds s).length ≠ 0 := by rw [hq]; simp
          simpa [qIds] using this
        rw [hw.qlen] at this; exact this
      have hxl : 0 < xs.length := List.length_pos_iff.2 hne
      have happ : xs.map (·.id) ++ qIds s' = pre ++ id :: post := by rw [← hqs, hq]
      simp only [beginCount] at hc
      rcases List.append_eq_append_iff.1 happ with ⟨a', h1, h2⟩ | ⟨c', h1, h2⟩
      · right
        have : pre.length = xs.length + a'.length := by rw [h1]; simp
        exact drains ops s' a' post id hw' h2 (by omega)
      · cases c' with
        | nil =>
          right
          simp only [List.append_nil, List.nil_append] at h1 h2
          have : pre.length = xs.length := by rw [← h1]; simp
          exact drains ops s' [] post id hw' (by simpa using h2.symm) (by simp; omega)
        | cons c cs =>
          left
          simp only [List.cons_append, List.cons.injEq] at h2
          rw [h1, h2.1]; simp
    · have hop : ∀ oog, op ≠ .beginBlock oog := fun oog e => hb ⟨oog, e⟩
      obtain ⟨extra, he⟩ := qIds_step_append hw op hop
      right
      refine drains ops (step s op).1 pre (post ++ extra) id hw' (by rw [he, hq]; simp) ?_
      cases op <;> first | exact absurd rfl (hop _) | simpa [beginCount] using hc

end PvProofs.Lemmas.Trig
