/-
Helper lemmas for C06 about the ledger: every debit goes through the sanction restriction,
so no operation lowers a balance of an account that is sanctioned when the operation starts.
-/
import PvProofs.Lemmas.SancRun

namespace PvProofs.Sanc
open PvModel PvModel.Sanc PvModel.Sanc.Spec

/-- assumptions on the configuration: the gov module account (which holds the deposits) is
unsanctionable (app/app.go:676-680 lists every module account) and the cancel ratio is ≤ 1
(`Params.ValidateBasic` of x/gov). -/
structure CfgOK (c : Cfg) : Prop where
  govProt : c.govAcct ∈ c.unsanctionable
  ratioLe : c.cancelNum ≤ c.cancelDen
  denPos : 0 < c.cancelDen

theorem amountOf_pos_head {d : Denom} {v : Int} {rest : Coins} (h : allPos ((d, v) :: rest) = true) :
    0 < Coins.amountOf ((d, v) :: rest) d := by
  have h' := h
  simp only [allPos, List.all_cons, Bool.and_eq_true, decide_eq_true_eq] at h
  have := amountOf_nonneg_of_allPos (amt := rest) (by simpa [allPos] using h.2) d
  simp only [Coins.amountOf_cons, if_true]
  omega

theorem amountOf_onlyBond {c : Cfg} {amt : Coins} (h : onlyBond c amt = true) {d : Denom} (hd : d ≠ c.bond) :
    Coins.amountOf amt d = 0 := by
  induction amt with
  | nil => simp
  | cons x rest ih =>
    obtain ⟨d', v⟩ := x
    simp only [onlyBond, List.all_cons, Bool.and_eq_true, decide_eq_true_eq] at h
    have := ih (by simpa [onlyBond] using h.2)
    simp only [Coins.amountOf_cons]
    have hne : ¬ d' = d := fun he => hd (he ▸ h.1)
    simp [hne, this]

theorem amountOf_nonneg_of_entries {cs : Coins} (h : EntriesNonneg cs) (d : Denom) :
    0 ≤ Coins.amountOf cs d := by
  induction cs with
  | nil => simp
  | cons x rest ih =>
    obtain ⟨d', v⟩ := x
    have hv : 0 ≤ v := h (d', v) List.mem_cons_self
    have := ih (fun c hc => h c (List.mem_cons_of_mem _ hc))
    simp only [Coins.amountOf_cons]
    split_ifs <;> omega

/-- with a zero total deposit no non-zero immediate minimum is reached -/
theorem not_reaches_zero {m : Coins} (h : allPos m = true) : reachesMin [] m = false := by
  unfold reachesMin
  cases m with
  | nil => simp [Coins.isZero, Coins.denoms]
  | cons x rest =>
    obtain ⟨d, v⟩ := x
    have hp := amountOf_pos_head h
    have : Coins.covers [] ((d, v) :: rest) = false := by
      have hd : decide (Coins.amountOf ((d, v) :: rest) d ≤ Coins.amountOf [] d) = false := by
        apply decide_eq_false
        rw [Coins.amountOf_nil]
        omega
      simp only [Coins.covers, Coins.denoms, List.map_cons, List.all_cons, hd, Bool.false_and]
    simp [this]

theorem hookMsgs_zero {c : Cfg} {id : Nat} {st : Store} (msgs : List PMsg)
    (h1 : allPos st.sancMin = true) (h2 : allPos st.unsancMin = true) :
    hookMsgs c [] id st msgs = .ok st := by
  induction msgs with
  | nil => rfl
  | cons m rest ih =>
    have : hookMsg c [] id st m = .ok st := by
      unfold hookMsg immediateMin
      cases m.isSanction
      · simp [not_reaches_zero h2]
      · simp [not_reaches_zero h1]
    simp only [hookMsgs, this]
    exact ih

/-! ### ledger monotonicity of the primitives -/

theorem sendCoins_bal {s s' : State} {f t a : Addr} {amt : Coins} (hs : sendCoins s f t amt = .ok s')
    (hne : a ≠ f) (hnn : ∀ d, 0 ≤ Coins.amountOf amt d) (d : Denom) :
    s.ledger.bal a d ≤ s'.ledger.bal a d := by
  obtain ⟨rfl, _⟩ := sendCoins_ok hs
  exact bal_move_mono hne hnn d

theorem refundAll_bal {ds : List (Addr × Coins)} {s s' : State} {a : Addr} (hs : refundAll s ds = .ok s')
    (hne : a ≠ s.cfg.govAcct) (hnn : ∀ x ∈ ds, EntriesNonneg x.2) (d : Denom) :
    s.ledger.bal a d ≤ s'.ledger.bal a d := by
  induction ds generalizing s with
  | nil => simp only [refundAll, Except.ok.injEq] at hs; subst hs; exact Int.le_refl _
  | cons x rest ih =>
    obtain ⟨w, v⟩ := x
    simp only [refundAll] at hs
    cases h1 : sendCoins s s.cfg.govAcct w v with
    | error e => simp [h1] at hs
    | ok s1 =>
      simp only [h1] at hs
      have hv : EntriesNonneg v := hnn (w, v) List.mem_cons_self
      have k1 := sendCoins_bal h1 hne (amountOf_nonneg_of_entries hv) d
      obtain ⟨hs1, _⟩ := sendCoins_ok h1
      have k2 := ih hs (by rw [hs1]; exact hne) (fun x hx => hnn x (List.mem_cons_of_mem _ hx))
      exact Int.le_trans k1 k2

theorem burnFromGov_bal {s : State} {a : Addr} (x : Coins) (hne : a ≠ s.cfg.govAcct) (d : Denom) :
    (burnFromGov s x).ledger.bal a d = s.ledger.bal a d := by
  unfold burnFromGov
  simp only [Ledger.bal_debit]
  have : ¬ s.cfg.govAcct = a := fun h => hne h.symm
  simp [this]

theorem settle_bal {s s' : State} {burn : Bool} {ds : List (Addr × Coins)} {a : Addr}
    (hs : settle s burn ds = .ok s') (hne : a ≠ s.cfg.govAcct) (hnn : ∀ x ∈ ds, EntriesNonneg x.2) (d : Denom) :
    s.ledger.bal a d ≤ s'.ledger.bal a d := by
  unfold settle at hs
  split_ifs at hs
  · simp only [Except.ok.injEq] at hs
    subst hs
    rw [burnFromGov_bal _ hne]
    exact Int.le_refl _
  · exact refundAll_bal hs hne hnn d

theorem remaining_nonneg {a : Int} {n m : Nat} (ha : 0 ≤ a) (hnm : n ≤ m) (hm : 0 < m) :
    0 ≤ a - a * (n : Int) / (m : Int) := by
  have h1 : a * (n : Int) ≤ a * (m : Int) := Int.mul_le_mul_of_nonneg_left (by exact_mod_cast hnm) ha
  have hm' : (0 : Int) < (m : Int) := by exact_mod_cast hm
  have h2 : a * (n : Int) / (m : Int) ≤ a * (m : Int) / (m : Int) := Int.ediv_le_ediv hm' h1
  have h3 : a * (m : Int) / (m : Int) = a := Int.mul_ediv_cancel a (Int.ne_of_gt hm')
  omega

theorem remainingPart_nonneg {c : Cfg} (hc : CfgOK c) {v : Coins} (hv : EntriesNonneg v) :
    EntriesNonneg (remainingPart c v) := by
  intro x hx
  simp only [remainingPart, List.mem_map] at hx
  obtain ⟨y, hy, rfl⟩ := hx
  exact remaining_nonneg (hv y hy) hc.ratioLe hc.denPos

theorem chargeDeposits_bal {ds : List (Addr × Coins)} {s s' : State} {ch ch' : Coins} {a : Addr}
    (hs : chargeDeposits s ch ds = .ok (s', ch')) (hc : CfgOK s.cfg)
    (hne : a ≠ s.cfg.govAcct) (hnn : ∀ x ∈ ds, EntriesNonneg x.2) (d : Denom) :
    s.ledger.bal a d ≤ s'.ledger.bal a d := by
  induction ds generalizing s ch with
  | nil =>
    simp only [chargeDeposits, Except.ok.injEq, Prod.mk.injEq] at hs
    rw [← hs.1]; exact Int.le_refl _
  | cons x rest ih =>
    obtain ⟨w, v⟩ := x
    simp only [chargeDeposits] at hs
    have hv : EntriesNonneg v := hnn (w, v) List.mem_cons_self
    split_ifs at hs with h0
    · exact ih hs hc hne (fun x hx => hnn x (List.mem_cons_of_mem _ hx))
    · cases h1 : sendCoins s s.cfg.govAcct w (remainingPart s.cfg v) with
      | error e => simp [h1] at hs
      | ok s1 =>
        simp only [h1] at hs
        have k1 := sendCoins_bal h1 hne (amountOf_nonneg_of_entries (remainingPart_nonneg hc hv)) d
        obtain ⟨hs1, _⟩ := sendCoins_ok h1
        have k2 := ih hs (by rw [hs1]; exact hc) (by rw [hs1]; exact hne)
          (fun x hx => hnn x (List.mem_cons_of_mem _ hx))
        exact Int.le_trans k1 k2

theorem foldl_move_mono {tos : List Addr} {l : Ledger} {f a : Addr} {amt : Coins} (hne : a ≠ f)
    (hnn : ∀ d, 0 ≤ Coins.amountOf amt d) (d : Denom) :
    l.bal a d ≤ (tos.foldl (fun l to => l.move f to amt) l).bal a d := by
  induction tos generalizing l with
  | nil => exact Int.le_refl _
  | cons t rest ih =>
    simp only [List.foldl_cons]
    exact Int.le_trans (bal_move_mono hne hnn d) ih

theorem sanctioned_ne_gov {c : Cfg} {st : Store} {a : Addr} (hc : CfgOK c)
    (ha : isSanctionedAddr c st a = true) : a ≠ c.govAcct := by
  rintro rfl
  unfold isSanctionedAddr at ha
  simp [hc.govProt] at ha

/-! ### the gov functions -/

theorem expireOne_bal {s s' : State} {id : Nat} {a : Addr} (h : Inv s) (hs : expireOne s id = .ok s')
    (hne : a ≠ s.cfg.govAcct) (d : Denom) : s.ledger.bal a d ≤ s'.ledger.bal a d := by
  unfold expireOne at hs
  cases hg : getProp s.props id with
  | none => simp only [hg, Except.ok.injEq] at hs; subst hs; exact Int.le_refl _
  | some p =>
    simp only [hg] at hs
    obtain ⟨hp, _⟩ := getProp_some hg
    cases hse : settle { s with props := delProp s.props id } s.cfg.burnPrevote p.deposits with
    | error e => simp [hse] at hs
    | ok s2 =>
      simp only [hse] at hs
      have k := settle_bal hse (a := a) hne (h.depositsNonneg p hp) d
      obtain ⟨l, rfl⟩ := settle_ok hse
      simp only [getProp_delProp] at hs
      have hh : proposalGovHook s.cfg s.st none id = .ok (deleteGovPropTempEntries s.st id) := rfl
      simp only [hh, Except.ok.injEq] at hs
      subst hs
      exact k

theorem tallyOne_bal {s s' : State} {id : Nat} {a : Addr} (h : Inv s) (hs : tallyOne s id = .ok s')
    (hne : a ≠ s.cfg.govAcct) (d : Denom) : s.ledger.bal a d ≤ s'.ledger.bal a d := by
  unfold tallyOne at hs
  cases hg : getProp s.props id with
  | none => simp only [hg, Except.ok.injEq] at hs; subst hs; exact Int.le_refl _
  | some p =>
    simp only [hg] at hs
    obtain ⟨hp, _⟩ := getProp_some hg
    cases hse : settleTally s p with
    | error e => simp [hse] at hs
    | ok s1 =>
      simp only [hse] at hs
      have k : s.ledger.bal a d ≤ s1.ledger.bal a d := by
        unfold settleTally at hse
        split_ifs at hse
        · simp only [Except.ok.injEq] at hse; subst hse; exact Int.le_refl _
        · exact settle_bal hse hne (h.depositsNonneg p hp) d
      have hl : s'.ledger = s1.ledger := by
        cases hh : proposalGovHook s1.cfg (tallyOutcome s1.cfg s1.st p (tally s.cfg p.vote).1).2
            (some (tallyOutcome s1.cfg s1.st p (tally s.cfg p.vote).1).1) id with
        | ok st => simp only [hh, Except.ok.injEq] at hs; subst hs; rfl
        | error e =>
          have := hook_error hh
          subst this
          simp [hh] at hs
      rw [hl]; exact k

theorem foldR_bal {α : Type} {f : State → α → R State} {a : Addr}
    (hf : ∀ s x s', Inv s → f s x = .ok s' → Inv s' ∧ s'.cfg = s.cfg ∧ s'.cancelled = s.cancelled)
    (hb : ∀ s x s', Inv s → f s x = .ok s' → a ≠ s.cfg.govAcct → ∀ d, s.ledger.bal a d ≤ s'.ledger.bal a d)
    (xs : List α) {s s' : State} (h : Inv s) (hs : foldR f s xs = .ok s') (hne : a ≠ s.cfg.govAcct)
    (d : Denom) : s.ledger.bal a d ≤ s'.ledger.bal a d := by
  induction xs generalizing s with
  | nil => simp only [foldR, Except.ok.injEq] at hs; subst hs; exact Int.le_refl _
  | cons x rest ih =>
    simp only [foldR] at hs
    cases hx : f s x with
    | error e => simp [hx] at hs
    | ok s1 =>
      simp only [hx] at hs
      obtain ⟨k1, k2, _⟩ := hf s x s1 h hx
      exact Int.le_trans (hb s x s1 h hx hne d) (ih k1 hs (by rw [k2]; exact hne))

theorem endBlocker_bal {s s' : State} {a : Addr} (h : Inv s) (hs : endBlocker s = .ok s')
    (hne : a ≠ s.cfg.govAcct) (d : Denom) : s.ledger.bal a d ≤ s'.ledger.bal a d := by
  unfold endBlocker at hs
  cases h1 : foldR expireOne s (inactiveIds s) with
  | error e => simp [h1] at hs
  | ok s1 =>
    simp only [h1] at hs
    obtain ⟨k1, k2, _⟩ := foldR_inv (fun s x s' => expireOne_inv) _ h h1
    have b1 := foldR_bal (a := a) (fun s x s' => expireOne_inv) (fun s x s' hi hx hn => expireOne_bal hi hx hn)
      _ h h1 hne d
    have b2 := foldR_bal (a := a) (fun s x s' => tallyOne_inv) (fun s x s' hi hx hn => tallyOne_bal hi hx hn)
      _ k1 hs (by rw [k2]; exact hne) d
    exact Int.le_trans b1 b2

theorem addDeposit_bal {s s' : State} {id : Nat} {who a : Addr} {amt : Coins}
    (hpos : allPos amt = true) (hs : addDeposit s id who amt = .ok s') (ha : isSanctionedAddr s.cfg s.st a = true) (d : Denom) :
    s.ledger.bal a d ≤ s'.ledger.bal a d := by
  unfold addDeposit at hs
  cases hg : getProp s.props id with
  | none => simp [hg] at hs
  | some p =>
    simp only [hg] at hs
    split_ifs at hs with h1 h2 h3
    cases hsend : sendCoins s who s.cfg.govAcct amt with
    | error e => simp [hsend] at hs
    | ok s1 =>
      simp only [hsend] at hs
      obtain ⟨_, hwho⟩ := sendCoins_ok hsend
      have hne : a ≠ who := by rintro rfl; rw [ha] at hwho; cases hwho
      have hnn : ∀ d, 0 ≤ Coins.amountOf amt d := amountOf_nonneg_of_allPos hpos
      have k := sendCoins_bal hsend hne hnn d
      have hl : s'.ledger = s1.ledger := by
        cases hh : proposalGovHook s1.cfg s1.st
            (some (depositedProp s.cfg s.now p who amt)) id with
        | ok st => simp only [hh, Except.ok.injEq] at hs; subst hs; rfl
        | error e => simp [hh] at hs
      rw [hl]; exact k

theorem submitProposal_bal {s s' : State} {who a : Addr} {msgs : List PMsg} {initial : Coins} {exp : Bool}
    (h : Inv s) (hs : submitProposal s who msgs initial exp = .ok s')
    (ha : isSanctionedAddr s.cfg s.st a = true) (d : Denom) :
    s.ledger.bal a d ≤ s'.ledger.bal a d := by
  unfold submitProposal at hs
  split_ifs at hs with h1 h2 h3
  cases hv : validateMsgs msgs with
  | error e => simp [hv] at hs
  | ok u =>
    cases u
    simp only [hv] at hs
    have hh : proposalGovHook s.cfg s.st (some (newProposal s who msgs exp)) s.nextId = .ok s.st :=
      hookMsgs_zero msgs h.store.sancPos h.store.unsancPos
    simp only [hh] at hs
    have hpos : allPos initial = true := by
      have : coinsValid initial = true := by simpa using h1
      simp only [coinsValid, Bool.and_eq_true] at this
      exact this.1
    exact addDeposit_bal hpos hs ha d

theorem cancelProposal_bal {s s' : State} {who a : Addr} {id : Nat} (h : Inv s) (hc : CfgOK s.cfg)
    (hs : cancelProposal s who id = .ok s') (hne : a ≠ s.cfg.govAcct) (d : Denom) :
    s.ledger.bal a d ≤ s'.ledger.bal a d := by
  unfold cancelProposal at hs
  cases hg : getProp s.props id with
  | none => simp [hg] at hs
  | some p =>
    simp only [hg] at hs
    obtain ⟨hp, _⟩ := getProp_some hg
    split_ifs at hs with h1 h2 h3
    cases hch : chargeDeposits s [] p.deposits with
    | error e => simp [hch] at hs
    | ok r =>
      obtain ⟨s1, ch⟩ := r
      simp only [hch, Except.ok.injEq] at hs
      have k := chargeDeposits_bal hch hc hne (h.depositsNonneg p hp) d
      obtain ⟨l, hl⟩ := chargeDeposits_ok hch
      subst hl
      rw [← hs]
      split_ifs
      · exact k
      · show _ ≤ (burnFromGov _ ch).ledger.bal a d
        rw [burnFromGov_bal _ (by exact hne)]
        exact k

/-- No operation lowers a balance of an account that is sanctioned when the operation starts. -/
theorem applyOp_bal {s s' : State} {op : Op} {a : Addr} (h : Inv s) (hc : CfgOK s.cfg)
    (hs : applyOp s op = .ok s') (ha : isSanctionedAddr s.cfg s.st a = true) (d : Denom) :
    s.ledger.bal a d ≤ s'.ledger.bal a d := by
  have hgov := sanctioned_ne_gov hc ha
  cases op with
  | submit who msgs initial exp => exact submitProposal_bal h hs ha d
  | deposit who id amt =>
    simp only [applyOp] at hs
    split_ifs at hs with hv
    have hpos : allPos amt = true := by
      cases h1 : allPos amt
      · simp [validAmt, h1] at hv
      · rfl
    exact addDeposit_bal hpos hs ha d
  | vote id v =>
    simp only [applyOp, addVote] at hs
    cases hg : getProp s.props id with
    | none => simp [hg] at hs
    | some p =>
      simp only [hg] at hs
      split_ifs at hs
      simp only [Except.ok.injEq] at hs
      subst hs
      exact Int.le_refl _
  | cancel who id => exact cancelProposal_bal h hc hs hgov d
  | block dt =>
    simp only [applyOp] at hs
    cases he : endBlocker s with
    | error e => simp [he] at hs
    | ok s1 =>
      simp only [he, Except.ok.injEq] at hs
      subst hs
      exact endBlocker_bal h he hgov d
  | params sanc unsanc =>
    simp only [applyOp, updateParams] at hs
    split_ifs at hs
    simp only [Except.ok.injEq] at hs
    subst hs
    exact Int.le_refl _
  | send f t amt =>
    simp only [applyOp] at hs
    split_ifs at hs with hv
    obtain ⟨_, hf⟩ := sendCoins_ok hs
    have hne : a ≠ f := by rintro rfl; rw [ha] at hf; cases hf
    have hv' : allPos amt = true := by
      cases h1 : allPos amt
      · simp [validAmt, h1] at hv
      · rfl
    exact sendCoins_bal hs hne (amountOf_nonneg_of_allPos hv') d
  | msend f ts amt =>
    simp only [applyOp, inputOutputCoins] at hs
    split_ifs at hs with hv h1 h2 h3
    simp only [Except.ok.injEq] at hs
    subst hs
    have hne : a ≠ f := by rintro rfl; exact h3 ha
    have hv' : allPos amt = true := by
      cases h1 : allPos amt
      · simp [validAmt, h1] at hv
      · rfl
    exact foldl_move_mono hne (amountOf_nonneg_of_allPos hv') d
  | delegate who amt =>
    simp only [applyOp, delegateCoins] at hs
    split_ifs at hs with hv h1 h2
    simp only [Except.ok.injEq] at hs
    subst hs
    have hne : a ≠ who := by rintro rfl; exact h2 ha
    have hv' : allPos amt = true := by
      cases h1 : allPos amt
      · simp [validAmt, h1] at hv
      · rfl
    exact bal_move_mono hne (amountOf_nonneg_of_allPos hv') d
  | tomod who amt =>
    simp only [applyOp] at hs
    split_ifs at hs with hv
    obtain ⟨_, hf⟩ := sendCoins_ok hs
    have hne : a ≠ who := by rintro rfl; rw [ha] at hf; cases hf
    have hv' : allPos amt = true := by
      cases h1 : allPos amt
      · simp [validAmt, h1] at hv
      · rfl
    exact sendCoins_bal hs hne (amountOf_nonneg_of_allPos hv') d
  | msg m =>
    simp only [applyOp] at hs
    cases hm : msgSanction s.cfg s.st m with
    | error e => simp [hm] at hs
    | ok st =>
      simp only [hm, Except.ok.injEq] at hs
      subst hs
      exact Int.le_refl _
  | fund who amt =>
    simp only [applyOp] at hs
    split_ifs at hs with hv
    simp only [Except.ok.injEq] at hs
    subst hs
    have hv' : allPos amt = true := by
      cases h1 : allPos amt
      · simp [validAmt, h1] at hv
      · rfl
    simp only [Ledger.bal_credit]
    have := amountOf_nonneg_of_allPos hv' d
    split_ifs <;> omega
  | grant a' b lim => exact (applyOp_route (op := .grant a' b lim) rfl hs).2 a d ha
  | mxfer admin frm to d' x => exact (applyOp_route (op := .mxfer admin frm to d' x) rfl hs).2 a d ha
  | mwd admin to d' amt => exact (applyOp_route (op := .mwd admin to d' amt) rfl hs).2 a d ha
  | mktwd admin to amt => exact (applyOp_route (op := .mktwd admin to amt) rfl hs).2 a d ha
  | pay src tgt sa ta => exact (applyOp_route (op := .pay src tgt sa ta) rfl hs).2 a d ha
  | settle sl by' as pr => exact (applyOp_route (op := .settle sl by' as pr) rfl hs).2 a d ha

theorem run_balance_mono (a : Addr) (d : Denom) (more : List Op) (s : State) (hi : Inv s) (hc : CfgOK s.cfg)
    (hs : ∀ k, k < more.length → isSanctionedAddr s.cfg (run s (more.take k)).st a = true) :
    s.ledger.bal a d ≤ (run s more).ledger.bal a d := by
  induction more generalizing s with
  | nil => exact Int.le_refl _
  | cons op rest ih =>
    have h0 : isSanctionedAddr s.cfg s.st a = true := hs 0 (by simp)
    obtain ⟨k1, k2, _⟩ := step_inv op hi
    have b1 : s.ledger.bal a d ≤ (step s op).ledger.bal a d := by
      unfold step
      cases hop : applyOp s op with
      | error e => exact Int.le_refl _
      | ok s' => exact applyOp_bal hi hc hop h0 d
    have b2 := ih (step s op) k1 (by rw [k2]; exact hc) (by
      intro k hk
      have := hs (k + 1) (by simp; omega)
      rw [k2]
      simpa [run] using this)
    exact Int.le_trans b1 b2


end PvProofs.Sanc
