/-
Helper lemmas for the second C03 invariant — what `HoldAccountBalancesInvariant`
(x/hold/keeper/invariants.go) checks: funds on hold are *otherwise unlocked*, i.e. for every
account and denom with a hold, `hold + unvested ≤ balance`.  Needs the delegation tracking of
vesting accounts (`DelegatedVesting` / `DelegatedFree`).
-/
import PvProofs.Lemmas.Lock

namespace PvProofs.Lemmas.Lock
open PvModel PvModel.Lock

/-- held funds are otherwise unlocked -/
def HeldUnlocked (s : State) : Prop :=
  ∀ a d, 0 < s.hold a d → s.hold a d + unvested s a d ≤ s.bal a d

def DfNonneg (s : State) : Prop := ∀ a d, 0 ≤ s.dfOf a d

/-- block time only moves forward and vesting schedules only release -/
def SchedMono (s : State) : Prop :=
  ∀ a sc, (s.kindOf a).vesting? = some sc → ∀ t t' d, t ≤ t' → sc.vesting t' d ≤ sc.vesting t d

theorem unvested_congr {s s' : State} {a : Addr} {d : Denom} (hk : s'.kindOf a = s.kindOf a)
    (ht : s'.time = s.time) (hdv : s'.dvOf a d = s.dvOf a d) : unvested s' a d = unvested s a d := by
  unfold unvested; rw [hk, ht, hdv]

theorem BankFrame.unvested {s s' : State} (h : BankFrame s s') (hdv : s'.dv = s.dv) (a : Addr) (d : Denom) :
    Lock.unvested s' a d = Lock.unvested s a d :=
  unvested_congr (h.kindOf a) h.time (by unfold State.dvOf; rw [hdv])

theorem SchedMono.of_frame {s s' : State} (h : ∀ a, s'.kindOf a = s.kindOf a) (hm : SchedMono s) : SchedMono s' := by
  intro a sc hsc; rw [h a] at hsc; exact hm a sc hsc

/-! ### debits and credits -/

theorem Debited.heldUnlocked {L : Denom → Int} {a : Addr} {s s' : State} (h : Debited L a s s')
    (hL : ∀ d, 0 < s.hold a d → s.hold a d + unvested s a d ≤ L d) (hinv : HeldUnlocked s) :
    HeldUnlocked s' := by
  intro a' d' hpos
  rw [h.frame.hold] at hpos ⊢
  rw [h.frame.unvested h.dv]
  by_cases ha : a' = a
  · subst ha
    rcases h.own d' with he | hl
    · rw [he]; exact hinv _ _ hpos
    · exact Int.le_trans (hL d' hpos) hl
  · rw [h.other a' d' ha]; exact hinv _ _ hpos

theorem Credited.heldUnlocked {s s' : State} (h : Credited s s') (hinv : HeldUnlocked s) : HeldUnlocked s' := by
  intro a d hpos
  rw [h.frame.hold] at hpos ⊢
  rw [h.frame.unvested h.dv]
  exact Int.le_trans (hinv a d hpos) (h.ge a d)

theorem Credited.dfNonneg {s s' : State} (h : Credited s s') (hinv : DfNonneg s) : DfNonneg s' := by
  intro a d; unfold State.dfOf; rw [h.df]; exact hinv a d

theorem Debited.dfNonneg {L : Denom → Int} {a : Addr} {s s' : State} (h : Debited L a s s')
    (hinv : DfNonneg s) : DfNonneg s' := by
  intro a' d; unfold State.dfOf; rw [h.df]; exact hinv a' d

/-- in a plain context the locked amount covers hold + unvested -/
theorem hold_unvested_le_locked (s : State) (c : Ctx) (a : Addr) (d : Denom)
    (hh : c.holdBypass = false) (hv : c.vestBypass = false) :
    s.hold a d + unvested s a d ≤ lockedCoins s c a d := by
  unfold lockedCoins unvestedGetter holdGetter
  have h1 := le_pos (unvested s a d)
  have h2 := le_pos (s.hold a d)
  simp [hh, hv]; omega

/-! ### exact balance after the delegation debit loop -/

theorem delegateLoop_bal (L : Denom → Int) (a : Addr) :
    ∀ (amt : Coins) (s s' : State), delegateLoop s L a amt = .ok s' →
      ∀ d, s'.bal a d = s.bal a d - Coins.amountOf amt d
  | [], s, s', h, d => by simp [delegateLoop] at h; subst h; simp
  | (d₀, x) :: rest, s, s', h, d => by
    simp only [delegateLoop] at h
    split_ifs at h
    rw [delegateLoop_bal L a rest _ _ h d, debit1_bal, Coins.amountOf_cons]
    by_cases hd : d₀ = d <;> simp [hd] <;> omega

/-! ### delegation tracking -/

theorem trackDelegation1_fields (s : State) (a : Addr) (d : Denom) (x : Int) :
    (trackDelegation1 s a d x).ledger = s.ledger ∧ (trackDelegation1 s a d x).holds = s.holds ∧
    (trackDelegation1 s a d x).kinds = s.kinds ∧ (trackDelegation1 s a d x).time = s.time := by
  simp [trackDelegation1]

theorem trackDelegation1_dv (s : State) (a : Addr) (d : Denom) (x : Int) (a' : Addr) (d' : Denom) :
    (trackDelegation1 s a d x).dvOf a' d' = s.dvOf a' d' +
      (if a = a' ∧ d = d' then min (max (vestingCoins s a d - s.dvOf a d) 0) x else 0) := by
  simp only [trackDelegation1, State.dvOf, Ledger.bal_credit, Coins.amountOf_cons, Coins.amountOf_nil]
  by_cases h1 : a = a' <;> by_cases h2 : d = d' <;> simp [h1, h2]

theorem trackDelegation1_df (s : State) (a : Addr) (d : Denom) (x : Int) (a' : Addr) (d' : Denom) :
    (trackDelegation1 s a d x).dfOf a' d' = s.dfOf a' d' +
      (if a = a' ∧ d = d' then x - min (max (vestingCoins s a d - s.dvOf a d) 0) x else 0) := by
  simp only [trackDelegation1, State.dfOf, Ledger.bal_credit, Coins.amountOf_cons, Coins.amountOf_nil]
  by_cases h1 : a = a' <;> by_cases h2 : d = d' <;> simp [h1, h2]

theorem vestingCoins_of_kind {s : State} {a : Addr} {sc : Sched} (h : (s.kindOf a).vesting? = some sc) (d : Denom) :
    vestingCoins s a d = sc.vesting s.time d := by
  unfold vestingCoins; rw [h]

theorem unvested_of_kind {s : State} {a : Addr} {sc : Sched} (h : (s.kindOf a).vesting? = some sc) (d : Denom) :
    unvested s a d = sc.vesting s.time d - min (sc.vesting s.time d) (s.dvOf a d) := by
  unfold unvested; rw [h]

theorem unvested_of_not_vesting {s : State} {a : Addr} (h : (s.kindOf a).vesting? = none) (d : Denom) :
    unvested s a d = 0 := by
  unfold unvested; rw [h]

/-- after tracking a delegation of `amt` (non-negative amounts): other accounts are untouched;
the delegator's unvested amount shrinks to `max (unvested − delegated) 0`; DelegatedFree grows. -/
theorem trackDelegation_spec (a : Addr) : ∀ (amt : Coins) (s : State), (∀ p ∈ amt, 0 ≤ p.2) →
    (∀ a' d', a' ≠ a → (trackDelegation s a amt).dvOf a' d' = s.dvOf a' d') ∧
    (∀ d', unvested (trackDelegation s a amt) a d' ≤ max (unvested s a d' - Coins.amountOf amt d') 0) ∧
    (DfNonneg s → DfNonneg (trackDelegation s a amt))
  | [], s, _ => by
    refine ⟨fun _ _ _ => rfl, fun d' => ?_, fun h => h⟩
    have := unvested_nonneg s a d'
    simp [trackDelegation]; omega
  | (d, x) :: rest, s, hpos => by
    have hx : 0 ≤ x := hpos (d, x) (by simp)
    have hrest : ∀ p ∈ rest, 0 ≤ p.2 := fun p hp => hpos p (List.mem_cons_of_mem _ hp)
    simp only [trackDelegation]
    cases hk : (s.kindOf a).vesting? with
    | none =>
      simp only
      refine ⟨by intros; first | rfl | trivial, fun d' => ?_, fun h => h⟩
      rw [unvested_of_not_vesting hk]; omega
    | some sc =>
      simp only
      obtain ⟨_, _, k3, k4⟩ := trackDelegation1_fields s a d x
      have hk1 : ((trackDelegation1 s a d x).kindOf a).vesting? = some sc := by
        rw [kindOf_of_kinds k3]; exact hk
      obtain ⟨i1, i2, i3⟩ := trackDelegation_spec a rest (trackDelegation1 s a d x) hrest
      refine ⟨?_, ?_, ?_⟩
      · intro a' d' hne
        rw [i1 a' d' hne, trackDelegation1_dv]
        have : ¬ (a = a' ∧ d = d') := fun h => hne h.1.symm
        simp [this]
      · intro d'
        refine Int.le_trans (i2 d') ?_
        rw [unvested_of_kind hk1, unvested_of_kind hk, k4, trackDelegation1_dv, vestingCoins_of_kind hk,
          Coins.amountOf_cons]
        have hr := amountOf_nonneg_of_pos rest hrest d'
        by_cases hd : d = d'
        · subst hd; simp only [and_self, if_true]; omega
        · simp only [hd, and_false, if_false]; omega
      · intro hdf
        apply i3
        intro a' d'
        rw [trackDelegation1_df]
        have := hdf a' d'
        split <;> omega

/-! ### undelegation tracking -/

theorem trackUndelegation1_fields (s : State) (a : Addr) (d : Denom) (x : Int) :
    (trackUndelegation1 s a d x).ledger = s.ledger ∧ (trackUndelegation1 s a d x).holds = s.holds ∧
    (trackUndelegation1 s a d x).kinds = s.kinds ∧ (trackUndelegation1 s a d x).time = s.time := by
  simp [trackUndelegation1]

theorem trackUndelegation1_dv (s : State) (a : Addr) (d : Denom) (x : Int) (a' : Addr) (d' : Denom) :
    (trackUndelegation1 s a d x).dvOf a' d' = s.dvOf a' d' -
      (if a = a' ∧ d = d' then min (s.dvOf a d) (x - min (s.dfOf a d) x) else 0) := by
  simp only [trackUndelegation1, State.dvOf, State.dfOf, Ledger.bal_debit, Coins.amountOf_cons, Coins.amountOf_nil]
  by_cases h1 : a = a' <;> by_cases h2 : d = d' <;> simp [h1, h2]

theorem trackUndelegation1_df (s : State) (a : Addr) (d : Denom) (x : Int) (a' : Addr) (d' : Denom) :
    (trackUndelegation1 s a d x).dfOf a' d' = s.dfOf a' d' -
      (if a = a' ∧ d = d' then min (s.dfOf a d) x else 0) := by
  simp only [trackUndelegation1, State.dfOf, Ledger.bal_debit, Coins.amountOf_cons, Coins.amountOf_nil]
  by_cases h1 : a = a' <;> by_cases h2 : d = d' <;> simp [h1, h2]

/-- after tracking an undelegation of `amt` (non-negative amounts, DelegatedFree non-negative):
other accounts are untouched; the unvested amount grows by at most the undelegated amount. -/
theorem trackUndelegation_spec (a : Addr) : ∀ (amt : Coins) (s : State), (∀ p ∈ amt, 0 ≤ p.2) → DfNonneg s →
    (∀ a' d', a' ≠ a → (trackUndelegation s a amt).dvOf a' d' = s.dvOf a' d') ∧
    (∀ d', unvested (trackUndelegation s a amt) a d' ≤ unvested s a d' + Coins.amountOf amt d') ∧
    DfNonneg (trackUndelegation s a amt)
  | [], s, _, hdf => by
    refine ⟨fun _ _ _ => rfl, fun d' => ?_, hdf⟩
    simp [trackUndelegation]
  | (d, x) :: rest, s, hpos, hdf => by
    have hx : 0 ≤ x := hpos (d, x) (by simp)
    have hrest : ∀ p ∈ rest, 0 ≤ p.2 := fun p hp => hpos p (List.mem_cons_of_mem _ hp)
    simp only [trackUndelegation]
    cases hk : (s.kindOf a).vesting? with
    | none =>
      simp only
      refine ⟨by intros; first | rfl | trivial, fun d' => ?_, hdf⟩
      have := amountOf_nonneg_of_pos _ hpos d'
      omega
    | some sc =>
      simp only
      obtain ⟨_, _, k3, k4⟩ := trackUndelegation1_fields s a d x
      have hk1 : ((trackUndelegation1 s a d x).kindOf a).vesting? = some sc := by
        rw [kindOf_of_kinds k3]; exact hk
      have hdf1 : DfNonneg (trackUndelegation1 s a d x) := by
        intro a' d'
        rw [trackUndelegation1_df]
        have h1 := hdf a' d'
        have h2 := hdf a d
        split
        · rename_i hc; obtain ⟨rfl, rfl⟩ := hc; omega
        · omega
      obtain ⟨i1, i2, i3⟩ := trackUndelegation_spec a rest (trackUndelegation1 s a d x) hrest hdf1
      refine ⟨?_, ?_, i3⟩
      · intro a' d' hne
        rw [i1 a' d' hne, trackUndelegation1_dv]
        have : ¬ (a = a' ∧ d = d') := fun h => hne h.1.symm
        simp [this]
      · intro d'
        refine Int.le_trans (i2 d') ?_
        rw [unvested_of_kind hk1, unvested_of_kind hk, k4, trackUndelegation1_dv, Coins.amountOf_cons]
        have h2 := hdf a d
        by_cases hd : d = d'
        · subst hd; simp only [and_self, if_true]; omega
        · simp only [hd, and_false, if_false]; omega

end PvProofs.Lemmas.Lock
