/-
Helper lemmas for C06 about the sanction store model (`PvModel.Sanc`): membership after
set/delete, the "latest entry" fold, and the store invariant `StoreOK` preserved by every
keeper function.
-/
import PvModel.SancSpec
import Mathlib.Tactic.SplitIfs

namespace PvProofs.Sanc
open PvModel PvModel.Sanc PvModel.Sanc.Spec

/-! ### set / delete -/

theorem mem_tempSet {t : List TempEntry} {a : Addr} {p : Nat} {v : Bool} {e : TempEntry} :
    e ∈ tempSet t a p v ↔ e = ⟨a, p, v⟩ ∨ (e ∈ t ∧ ¬(e.addr = a ∧ e.id = p)) := by
  simp only [tempSet, sameKey, List.mem_cons, List.mem_filter, Bool.not_eq_true', decide_eq_false_iff_not]

theorem mem_delKeys {keys t : List TempEntry} {e : TempEntry} :
    e ∈ delKeys keys t ↔ e ∈ t ∧ ∀ k ∈ keys, ¬(e.addr = k.addr ∧ e.id = k.id) := by
  simp [delKeys, hasKey, sameKey]

theorem keysUnique_tempSet {t : List TempEntry} (h : KeysUnique t) (a : Addr) (p : Nat) (v : Bool) :
    KeysUnique (tempSet t a p v) := by
  intro e he e' he' ha hp
  rw [mem_tempSet] at he he'
  rcases he with rfl | ⟨he, hne⟩ <;> rcases he' with rfl | ⟨he', hne'⟩
  · rfl
  · exact absurd ⟨ha.symm, hp.symm⟩ hne'
  · exact absurd ⟨ha, hp⟩ hne
  · exact h e he e' he' ha hp

theorem keysUnique_delKeys {t : List TempEntry} (h : KeysUnique t) (keys : List TempEntry) :
    KeysUnique (delKeys keys t) := by
  intro e he e' he' ha hp
  exact h e (mem_delKeys.1 he).1 e' (mem_delKeys.1 he').1 ha hp

/-! ### the latest entry -/

theorem latestOf_some {a : Addr} {t : List TempEntry} {b : TempEntry} (h : latestOf a t = some b) :
    b ∈ t ∧ b.addr = a ∧ ∀ e ∈ t, e.addr = a → e.id ≤ b.id := by
  induction t generalizing b with
  | nil => simp [latestOf] at h
  | cons x r ih =>
    simp only [latestOf] at h
    by_cases hx : x.addr = a
    · simp only [hx, if_true] at h
      cases hr : latestOf a r with
      | none =>
        simp only [hr] at h
        cases h
        have hnone : ∀ e ∈ r, e.addr ≠ a := by
          intro e he hea
          clear ih
          induction r with
          | nil => cases he
          | cons y r' ih' =>
            simp only [latestOf] at hr
            by_cases hy : y.addr = a
            · simp only [hy, if_true] at hr
              cases h' : latestOf a r' <;> simp [h'] at hr
              split at hr <;> cases hr
            · simp only [hy, if_false] at hr
              rcases List.mem_cons.1 he with rfl | he
              · exact hy hea
              · exact ih' hr he
        refine ⟨List.mem_cons_self, hx, ?_⟩
        intro e he hea
        rcases List.mem_cons.1 he with rfl | he
        · exact Nat.le_refl _
        · exact absurd hea (hnone e he)
      | some c =>
        simp only [hr] at h
        obtain ⟨hc, hca, hmax⟩ := ih hr
        by_cases hlt : x.id < c.id
        · simp only [hlt, if_true] at h
          cases h
          refine ⟨List.mem_cons_of_mem _ hc, hca, ?_⟩
          intro e he hea
          rcases List.mem_cons.1 he with rfl | he
          · exact Nat.le_of_lt hlt
          · exact hmax e he hea
        · simp only [hlt, if_false] at h
          cases h
          refine ⟨List.mem_cons_self, hx, ?_⟩
          intro e he hea
          rcases List.mem_cons.1 he with rfl | he
          · exact Nat.le_refl _
          · exact Nat.le_trans (hmax e he hea) (Nat.le_of_not_lt hlt)
    · simp only [hx, if_false] at h
      obtain ⟨hb, hba, hmax⟩ := ih h
      refine ⟨List.mem_cons_of_mem _ hb, hba, ?_⟩
      intro e he hea
      rcases List.mem_cons.1 he with rfl | he
      · exact absurd hea hx
      · exact hmax e he hea

theorem latestOf_none {a : Addr} {t : List TempEntry} : latestOf a t = none ↔ ∀ e ∈ t, e.addr ≠ a := by
  induction t with
  | nil => simp [latestOf]
  | cons x r ih =>
    simp only [latestOf]
    by_cases hx : x.addr = a
    · simp only [hx, if_true]
      constructor
      · intro h
        cases hr : latestOf a r <;> simp [hr] at h
        split at h <;> cases h
      · intro h
        exact absurd hx (h x List.mem_cons_self)
    · simp only [hx, if_false, ih]
      constructor
      · intro h e he
        rcases List.mem_cons.1 he with rfl | he
        · exact hx
        · exact h e he
      · intro h e he
        exact h e (List.mem_cons_of_mem _ he)

/-- `getLatestTempEntry` is the value of the entry with the greatest proposal id. -/
theorem getLatest_eq_some {t : List TempEntry} (hu : KeysUnique t) {a : Addr} {v : Bool} :
    getLatestTempEntry t a = some v ↔ LatestSays t a v := by
  unfold getLatestTempEntry LatestSays
  constructor
  · intro h
    cases hl : latestOf a t with
    | none => simp [hl] at h
    | some b =>
      simp only [hl, Option.map_some, Option.some.injEq] at h
      obtain ⟨hb, hba, hmax⟩ := latestOf_some hl
      refine ⟨b.id, ?_, hmax⟩
      have : b = ⟨a, b.id, v⟩ := by cases b; simp_all
      rw [← this]; exact hb
  · rintro ⟨p, hmem, hmax⟩
    cases hl : latestOf a t with
    | none => exact absurd rfl (latestOf_none.1 hl _ hmem)
    | some b =>
      obtain ⟨hb, hba, hmax'⟩ := latestOf_some hl
      have h1 : p ≤ b.id := hmax' _ hmem rfl
      have h2 : b.id ≤ p := hmax b hb hba
      have hid : b.id = p := Nat.le_antisymm h2 h1
      have := hu b hb ⟨a, p, v⟩ hmem hba hid
      simp [this]

theorem getLatest_eq_none {t : List TempEntry} {a : Addr} :
    getLatestTempEntry t a = none ↔ NoTemp t a := by
  unfold getLatestTempEntry NoTemp
  rw [Option.map_eq_none_iff, latestOf_none]

theorem exists_max_id : ∀ (l : List TempEntry), l ≠ [] → ∃ e ∈ l, ∀ e' ∈ l, e'.id ≤ e.id
  | [], h => absurd rfl h
  | [x], _ => ⟨x, List.mem_cons_self, by intro e' he'; simp at he'; subst he'; exact Nat.le_refl _⟩
  | x :: y :: r, _ => by
    obtain ⟨m, hm, hmax⟩ := exists_max_id (y :: r) (by simp)
    by_cases h : m.id ≤ x.id
    · refine ⟨x, List.mem_cons_self, ?_⟩
      intro e' he'
      rcases List.mem_cons.1 he' with rfl | he'
      · exact Nat.le_refl _
      · exact Nat.le_trans (hmax e' he') h
    · refine ⟨m, List.mem_cons_of_mem _ hm, ?_⟩
      intro e' he'
      rcases List.mem_cons.1 he' with rfl | he'
      · omega
      · exact hmax e' he'


/-! ### the store invariant -/

/-- What every reachable sanction store satisfies. -/
structure StoreOK (c : Cfg) (st : Store) : Prop where
  unique : KeysUnique st.temp
  mirror : ∀ e, e ∈ st.idx ↔ e ∈ st.temp
  nonempty : ∀ e ∈ st.temp, e.addr ≠ ""
  permProt : ∀ a ∈ c.unsanctionable, a ∉ st.perm
  tempProt : ∀ e ∈ st.temp, e.addr ∈ c.unsanctionable → e.val = false
  sancPos : allPos st.sancMin = true
  unsancPos : allPos st.unsancMin = true

theorem storeOK_init (c : Cfg) : StoreOK c {} where
  unique := by intro e he; cases he
  mirror := by simp
  nonempty := by intro e he; cases he
  permProt := by simp
  tempProt := by intro e he; cases he
  sancPos := rfl
  unsancPos := rfl

theorem mem_deleteAddr {st : Store} {addrs : List Addr} {e : TempEntry} :
    e ∈ (deleteAddrTempEntries st addrs).temp ↔ e ∈ st.temp ∧ ¬(e.addr ≠ "" ∧ e.addr ∈ addrs) := by
  simp only [deleteAddrTempEntries, mem_delKeys, List.mem_filter, decide_eq_true_eq]
  constructor
  · rintro ⟨he, h⟩
    refine ⟨he, fun hk => h e ⟨he, hk⟩ ⟨rfl, rfl⟩⟩
  · rintro ⟨he, h⟩
    refine ⟨he, ?_⟩
    rintro k ⟨_, hk⟩ ⟨ha, _⟩
    exact h (ha ▸ hk)

theorem mem_deleteGovProp {st : Store} (hm : ∀ e, e ∈ st.idx ↔ e ∈ st.temp) {id : Nat} {e : TempEntry} :
    e ∈ (deleteGovPropTempEntries st id).temp ↔ e ∈ st.temp ∧ e.id ≠ id := by
  simp only [deleteGovPropTempEntries, mem_delKeys, List.mem_filter, decide_eq_true_eq]
  constructor
  · rintro ⟨he, h⟩
    refine ⟨he, fun hid => h e ⟨(hm e).2 he, hid⟩ ⟨rfl, rfl⟩⟩
  · rintro ⟨he, h⟩
    refine ⟨he, ?_⟩
    rintro k ⟨_, hk⟩ ⟨_, hp⟩
    exact h (hp.trans hk)

theorem storeOK_delKeys {c : Cfg} {st : Store} (h : StoreOK c st) (keys : List TempEntry) :
    StoreOK c { st with temp := delKeys keys st.temp, idx := delKeys keys st.idx } where
  unique := keysUnique_delKeys h.unique keys
  mirror := by intro e; simp only [mem_delKeys, h.mirror]
  nonempty := fun e he => h.nonempty e (mem_delKeys.1 he).1
  permProt := h.permProt
  tempProt := fun e he => h.tempProt e (mem_delKeys.1 he).1
  sancPos := h.sancPos
  unsancPos := h.unsancPos

theorem storeOK_deleteAddr {c : Cfg} {st : Store} (h : StoreOK c st) (addrs : List Addr) :
    StoreOK c (deleteAddrTempEntries st addrs) := storeOK_delKeys h _

theorem storeOK_deleteGovProp {c : Cfg} {st : Store} (h : StoreOK c st) (id : Nat) :
    StoreOK c (deleteGovPropTempEntries st id) := storeOK_delKeys h _

theorem storeOK_perm {c : Cfg} {st : Store} (h : StoreOK c st) {perm : List Addr}
    (hp : ∀ a ∈ c.unsanctionable, a ∉ perm) : StoreOK c { st with perm := perm } :=
  { h with permProt := hp }

theorem mem_permAdd {perm : List Addr} {a x : Addr} : x ∈ permAdd perm a ↔ x = a ∨ x ∈ perm := by
  unfold permAdd
  split_ifs with h
  · constructor
    · exact Or.inr
    · rintro (rfl | h') <;> assumption
  · simp

theorem sanctionLoop_ok {c : Cfg} {addrs perm perm' : List Addr} (h : sanctionLoop c perm addrs = .ok perm') :
    (∀ a ∈ addrs, a ∉ c.unsanctionable) ∧ ∀ x, x ∈ perm' ↔ x ∈ perm ∨ x ∈ addrs := by
  induction addrs generalizing perm with
  | nil => simp [sanctionLoop] at h; subst h; simp
  | cons a rest ih =>
    simp only [sanctionLoop] at h
    split_ifs at h with hu
    obtain ⟨h1, h2⟩ := ih h
    refine ⟨?_, ?_⟩
    · intro x hx
      rcases List.mem_cons.1 hx with rfl | hx
      · exact hu
      · exact h1 x hx
    · intro x
      rw [h2, mem_permAdd, List.mem_cons]
      constructor
      · rintro ((rfl | h) | h)
        · exact Or.inr (Or.inl rfl)
        · exact Or.inl h
        · exact Or.inr (Or.inr h)
      · rintro (h | rfl | h)
        · exact Or.inl (Or.inr h)
        · exact Or.inl (Or.inl rfl)
        · exact Or.inr h

theorem storeOK_sanctionAddresses {c : Cfg} {st st' : Store} {addrs : List Addr} (h : StoreOK c st)
    (hs : sanctionAddresses c st addrs = .ok st') : StoreOK c st' := by
  unfold sanctionAddresses at hs
  cases hl : sanctionLoop c st.perm addrs with
  | error e => simp [hl] at hs
  | ok perm =>
    simp only [hl, Except.ok.injEq] at hs
    subst hs
    obtain ⟨h1, h2⟩ := sanctionLoop_ok hl
    apply storeOK_deleteAddr
    apply storeOK_perm h
    intro a ha hmem
    rcases (h2 a).1 hmem with hp | hp
    · exact h.permProt a ha hp
    · exact h1 a hp ha

/-- after `SanctionAddresses` no temporary entry of a (non-empty) listed address remains -/
theorem temp_sanctionAddresses {c : Cfg} {st st' : Store} {addrs : List Addr}
    (hs : sanctionAddresses c st addrs = .ok st') {e : TempEntry} (he : e ∈ st'.temp) :
    e ∈ st.temp ∧ ¬(e.addr ≠ "" ∧ e.addr ∈ addrs) := by
  unfold sanctionAddresses at hs
  cases hl : sanctionLoop c st.perm addrs with
  | error e => simp [hl] at hs
  | ok perm =>
    simp only [hl, Except.ok.injEq] at hs
    subst hs
    exact mem_deleteAddr.1 he

theorem storeOK_unsanctionAddresses {c : Cfg} {st : Store} (addrs : List Addr) (h : StoreOK c st) :
    StoreOK c (unsanctionAddresses st addrs) := by
  apply storeOK_deleteAddr
  apply storeOK_perm h
  intro a ha hmem
  exact h.permProt a ha (List.mem_filter.1 hmem).1

theorem temp_unsanctionAddresses {st : Store} {addrs : List Addr} {e : TempEntry}
    (he : e ∈ (unsanctionAddresses st addrs).temp) : e ∈ st.temp ∧ ¬(e.addr ≠ "" ∧ e.addr ∈ addrs) :=
  mem_deleteAddr.1 he

/-- `addTempEntries`: invariant kept, and every entry afterwards is old or one of the new ones -/
theorem addTempEntries_ok {c : Cfg} {v : Bool} {id : Nat} {addrs : List Addr} {st st' : Store}
    (h : StoreOK c st) (hne : ∀ a ∈ addrs, a ≠ "") (hs : addTempEntries c v id st addrs = .ok st') :
    StoreOK c st' ∧ st'.perm = st.perm ∧ st'.sancMin = st.sancMin ∧ st'.unsancMin = st.unsancMin ∧
      (∀ e ∈ st'.temp, e ∈ st.temp ∨ (e.id = id ∧ e.addr ∈ addrs ∧ e.val = v)) ∧
      (∀ a ∈ addrs, (⟨a, id, v⟩ : TempEntry) ∈ st'.temp) ∧
      (∀ e ∈ st.temp, ¬(e.id = id ∧ e.addr ∈ addrs) → e ∈ st'.temp) := by
  induction addrs generalizing st with
  | nil =>
    simp only [addTempEntries, Except.ok.injEq] at hs
    subst hs
    exact ⟨h, rfl, rfl, rfl, fun e he => Or.inl he, by simp, fun e he _ => he⟩
  | cons a rest ih =>
    simp only [addTempEntries] at hs
    split_ifs at hs with hu
    have ha : a ≠ "" := hne a List.mem_cons_self
    have hok : StoreOK c { st with temp := tempSet st.temp a id v, idx := tempSet st.idx a id v } :=
      { unique := keysUnique_tempSet h.unique a id v
        mirror := by intro e; simp only [mem_tempSet, h.mirror]
        nonempty := by
          intro e he
          rcases mem_tempSet.1 he with rfl | ⟨he, _⟩
          · exact ha
          · exact h.nonempty e he
        permProt := h.permProt
        tempProt := by
          intro e he hun
          rcases mem_tempSet.1 he with rfl | ⟨he, _⟩
          · cases v
            · rfl
            · exact absurd ⟨rfl, hun⟩ hu
          · exact h.tempProt e he hun
        sancPos := h.sancPos
        unsancPos := h.unsancPos }
    obtain ⟨h1, h2, h3, h4, h5, h6, h7⟩ := ih hok (fun x hx => hne x (List.mem_cons_of_mem _ hx)) hs
    refine ⟨h1, h2, h3, h4, ?_, ?_, ?_⟩
    · intro e he
      rcases h5 e he with he | ⟨hid, hmem, hv⟩
      · rcases mem_tempSet.1 he with rfl | ⟨he, _⟩
        · exact Or.inr ⟨rfl, List.mem_cons_self, rfl⟩
        · exact Or.inl he
      · exact Or.inr ⟨hid, List.mem_cons_of_mem _ hmem, hv⟩
    · intro x hx
      rcases List.mem_cons.1 hx with rfl | hx
      · by_cases hr : x ∈ rest
        · exact h6 x hr
        · apply h7
          · exact mem_tempSet.2 (Or.inl rfl)
          · rintro ⟨_, hmem⟩; exact hr hmem
      · exact h6 x hx
    · intro e he hn
      apply h7 e
      · refine mem_tempSet.2 (Or.inr ⟨he, ?_⟩)
        rintro ⟨ha', hid⟩
        exact hn ⟨hid, ha' ▸ List.mem_cons_self⟩
      · rintro ⟨hid, hmem⟩
        exact hn ⟨hid, List.mem_cons_of_mem _ hmem⟩

end PvProofs.Sanc
