/-
C10 helper lemmas, part 4: the signers recorded on parties (`Spec.usedOf`, `Spec.Req.used`) and how
the endpoint models finish (`dropDetails`, `thenSmartContract`, `thenValueOwner`) with the
smart-contract signer rule KEPT — no `NoContracts` hypothesis anywhere.
-/
import PvProofs.C10ValueOwner

namespace PvProofs.Lemmas.SignersUsed
open PvModel.Signers PvProofs.Lemmas.Signers PvProofs.Lemmas.SignersCallers PvProofs.C10

/-! ### the rule looks at the recorded signers as a set -/

theorem smartContractsAuthorized_congr (env : Env) (mt : MsgType) {u1 u2 : List Addr}
    (h : ∀ w, w ∈ u1 ↔ w ∈ u2) :
    ∀ l : List Addr, Spec.smartContractsAuthorized env mt u1 l = Spec.smartContractsAuthorized env mt u2 l
  | [] => rfl
  | s :: rest => by
    have hc : u1.contains s = u2.contains s := by
      rw [Bool.eq_iff_iff]; simp [h s]
    simp only [Spec.smartContractsAuthorized, hc, smartContractsAuthorized_congr env mt h rest]

theorem smartContractOk_congr (env : Env) (mt : MsgType) (signers : List Addr) {u1 u2 : List Addr}
    (h : ∀ w, w ∈ u1 ↔ w ∈ u2) :
    Spec.smartContractOk env mt u1 signers = Spec.smartContractOk env mt u2 signers := by
  unfold Spec.smartContractOk
  rw [smartContractsAuthorized_congr env mt h]

theorem smartContractOk_congr_append (env : Env) (mt : MsgType) (signers extra : List Addr) {u1 u2 : List Addr}
    (h : ∀ w, w ∈ u1 ↔ w ∈ u2) :
    Spec.smartContractOk env mt (extra ++ u1) signers = Spec.smartContractOk env mt (extra ++ u2) signers :=
  smartContractOk_congr env mt signers (by intro w; simp [h w])

/-- the signers recorded by `validateAllRequiredSigned`: the stand-ins of the listed addresses -/
theorem mem_usedOf_allRequiredSigned (env : Env) (hv : env.valid "" = false) (mt : MsgType)
    (required signers : List Addr) (w : Addr) :
    w ∈ Spec.usedOf (validateAllRequiredSigned env mt required signers) ↔
      Spec.withoutPartiesOk env mt required signers = true ∧
        ∃ a ∈ required, (stage1fn env mt signers (wrapAddr a)).hasSigner = true
          ∧ (stage1fn env mt signers (wrapAddr a)).signer = w := by
  obtain ⟨c1, c2⟩ := validateAllRequiredSigned_char env mt required signers hv
  by_cases hs : Spec.withoutPartiesOk env mt required signers = true
  · rw [c2 hs]
    simp only [Spec.usedOf, getUsedSigners, List.mem_map, List.mem_filter, hs, true_and]
    constructor
    · rintro ⟨p, ⟨⟨q, ⟨a, ha, rfl⟩, rfl⟩, hp⟩, rfl⟩
      exact ⟨a, ha, hp, rfl⟩
    · rintro ⟨a, ha, hp, rfl⟩
      exact ⟨_, ⟨⟨_, ⟨a, ha, rfl⟩, rfl⟩, hp⟩, rfl⟩
  · obtain ⟨who, hw⟩ := c1 (by simpa using hs)
    rw [hw]
    simp [Spec.usedOf, hs]

/-- … which depends on the listed addresses as a set only (`GetAllOwnerAddresses` drops repeats) -/
theorem usedOf_allRequiredSigned_congr (env : Env) (hv : env.valid "" = false) (mt : MsgType)
    (signers : List Addr) {l1 l2 : List Addr} (h : ∀ a, a ∈ l1 ↔ a ∈ l2) (w : Addr) :
    w ∈ Spec.usedOf (validateAllRequiredSigned env mt l1 signers) ↔
      w ∈ Spec.usedOf (validateAllRequiredSigned env mt l2 signers) := by
  rw [mem_usedOf_allRequiredSigned env hv, mem_usedOf_allRequiredSigned env hv,
    withoutPartiesOk_congr env mt signers h]
  constructor
  · rintro ⟨h1, a, ha, h2⟩; exact ⟨h1, a, (h a).mp ha, h2⟩
  · rintro ⟨h1, a, ha, h2⟩; exact ⟨h1, a, (h a).mpr ha, h2⟩

theorem allRequiredSigned_nil (env : Env) (mt : MsgType) (signers : List Addr) :
    validateAllRequiredSigned env mt [] signers = .ok [] := rfl

theorem used_addrs_nil (env : Env) (mt : MsgType) (signers : List Addr) :
    (Spec.Req.addrs []).used env mt signers = [] := rfl

theorem ok_addrs_nil (env : Env) (mt : MsgType) (signers : List Addr) :
    (Spec.Req.addrs []).ok env mt signers = true := rfl

/-! ### the signature check of a requirement -/

/-- the signature check the endpoints run for a requirement -/
def check (env : Env) (mt : MsgType) (signers : List Addr) : Spec.Req → Except Err (List PartyDetails)
  | .parties req avail roles => validateAllRequiredPartiesSigned env mt req avail roles signers
  | .addrs required => validateAllRequiredSigned env mt required signers

theorem used_eq_check (env : Env) (mt : MsgType) (signers : List Addr) (req : Spec.Req) :
    req.used env mt signers = Spec.usedOf (check env mt signers req) := by
  cases req <;> rfl

theorem check_accepts_iff (env : Env) (hv : env.valid "" = false) (mt : MsgType) (signers : List Addr)
    (req : Spec.Req) : Accepts (check env mt signers req) ↔ req.ok env mt signers = true := by
  cases req with
  | parties r a roles =>
    simp only [check, Spec.Req.ok, Bool.and_eq_true]
    exact validateAllRequiredPartiesSigned_accepts_iff env hv mt r a roles signers
  | addrs l =>
    simp only [check, Spec.Req.ok]
    exact accepts_allRequiredSigned_iff env hv mt l signers

/-! ### the tails -/

/-- tail `thenSmartContract`: the check accepts and the rule holds for the signers it recorded -/
theorem thenSC_ok_iff (env : Env) (mt : MsgType) (signers : List Addr) (r : Except Err (List PartyDetails)) :
    thenSmartContract env mt signers r = .ok () ↔
      Accepts r ∧ Spec.smartContractOk env mt (Spec.usedOf r) signers = true := by
  cases r with
  | error e => simp [thenSmartContract, Accepts]
  | ok ps =>
    simp only [thenSmartContract, Spec.usedOf]
    rw [← smart_contract_rule]
    cases validateSmartContractSigners env mt (getUsedSigners ps) signers <;> simp [Accepts]

/-- tail `thenValueOwner`: both checks accept and the rule holds for the signers of both -/
theorem thenVO_ok_iff (env : Env) (mt : MsgType) (exVO pVO : Addr) (signers : List Addr)
    (r : Except Err (List PartyDetails)) :
    thenValueOwner env mt exVO pVO signers r = .ok () ↔
      Accepts r ∧ Accepts (validateScopeValueOwnersSigners env mt exVO pVO signers)
        ∧ Spec.smartContractOk env mt
            (Spec.usedVO (validateScopeValueOwnersSigners env mt exVO pVO signers) ++ Spec.usedOf r) signers
          = true := by
  rw [thenValueOwner_ok_iff]
  constructor
  · rintro ⟨parties, used, h1, h2, h3⟩
    refine ⟨⟨parties, h1⟩, ⟨used, h2⟩, ?_⟩
    rw [h1, h2]
    exact (smart_contract_rule env mt _ signers).mp h3
  · rintro ⟨⟨parties, h1⟩, ⟨used, h2⟩, h3⟩
    rw [h1, h2] at h3
    exact ⟨parties, used, h1, h2, (smart_contract_rule env mt _ signers).mpr h3⟩

/-- `thenSmartContract` after the signature check of a requirement given up to the order and
repeats of its address list -/
theorem sc_parties (env : Env) (hv : env.valid "" = false) (mt : MsgType) (req avail : List Party)
    (roles : List Role) (signers : List Addr) :
    thenSmartContract env mt signers (validateAllRequiredPartiesSigned env mt req avail roles signers) = .ok () ↔
      (Spec.Req.parties req avail roles).ok env mt signers = true
        ∧ (Spec.Req.parties req avail roles).contractsOk env mt signers [] = true := by
  rw [thenSC_ok_iff, validateAllRequiredPartiesSigned_accepts_iff env hv]
  simp [Spec.Req.ok, Spec.Req.contractsOk, Spec.Req.used]

theorem sc_addrs (env : Env) (hv : env.valid "" = false) (mt : MsgType) (signers : List Addr)
    {l l' : List Addr} (h : ∀ a, a ∈ l ↔ a ∈ l') :
    thenSmartContract env mt signers (validateAllRequiredSigned env mt l signers) = .ok () ↔
      (Spec.Req.addrs l').ok env mt signers = true
        ∧ (Spec.Req.addrs l').contractsOk env mt signers [] = true := by
  rw [thenSC_ok_iff, accepts_allRequiredSigned_iff env hv, withoutPartiesOk_congr env mt signers h,
    smartContractOk_congr env mt signers (usedOf_allRequiredSigned_congr env hv mt signers h)]
  simp [Spec.Req.ok, Spec.Req.contractsOk, Spec.Req.used]

theorem sc_nothing (env : Env) (mt : MsgType) (signers : List Addr) :
    thenSmartContract env mt signers (.ok []) = .ok () ↔
      (Spec.Req.addrs []).ok env mt signers = true
        ∧ (Spec.Req.addrs []).contractsOk env mt signers [] = true := by
  rw [thenSC_ok_iff]
  simp [Spec.Req.contractsOk, used_addrs_nil, ok_addrs_nil, Accepts, Spec.usedOf, getUsedSigners]

/-- `dropDetails (ValidateSignersWithParties …)` -/
theorem dd_with (env : Env) (hv : env.valid "" = false) (mt : MsgType) (req avail : List Party)
    (roles : List Role) (signers : List Addr) :
    dropDetails (validateSignersWithParties env mt req avail roles signers) = .ok () ↔
      (Spec.Req.parties req avail roles).ok env mt signers = true
        ∧ Spec.provenanceRoleOk env avail = true
        ∧ (Spec.Req.parties req avail roles).contractsOk env mt signers [] = true := by
  rw [dropDetails_ok_iff, validateSignersWithParties_accepts_iff env hv]
  simp only [Spec.Req.ok, Spec.Req.contractsOk, Spec.Req.used, List.nil_append, Bool.and_eq_true,
    Spec.withPartiesOk]
  constructor
  · rintro ⟨hs, ps, hps, hsc⟩
    refine ⟨hs.1, hs.2, ?_⟩
    rw [hps]; exact hsc
  · rintro ⟨h1, h3, h4⟩
    obtain ⟨ps, hps⟩ :=
      (validateAllRequiredPartiesSigned_accepts_iff env hv mt req avail roles signers).mpr h1
    refine ⟨⟨h1, h3⟩, ps, hps, ?_⟩
    rw [hps] at h4; exact h4

/-- `dropDetails (ValidateSignersWithoutParties …)` -/
theorem dd_without (env : Env) (hv : env.valid "" = false) (mt : MsgType) (signers : List Addr)
    {l l' : List Addr} (h : ∀ a, a ∈ l ↔ a ∈ l') :
    dropDetails (validateSignersWithoutParties env mt l signers) = .ok () ↔
      (Spec.Req.addrs l').ok env mt signers = true
        ∧ (Spec.Req.addrs l').contractsOk env mt signers [] = true := by
  rw [← sc_addrs env hv mt signers h]
  unfold validateSignersWithoutParties thenSmartContract dropDetails
  cases validateAllRequiredSigned env mt l signers with
  | error e => simp
  | ok ps =>
    simp only
    cases validateSmartContractSigners env mt (getUsedSigners ps) signers <;> simp

/-! ### all sign directly -/

theorem ok_of_allSignDirectly (env : Env) (mt : MsgType) (signers : List Addr) (req : Spec.Req)
    (h : req.allSignDirectly signers = true) : req.ok env mt signers = true := by
  cases req with
  | parties r a roles =>
    simp only [Spec.Req.allSignDirectly, Bool.and_eq_true, List.all_eq_true, Bool.or_eq_true,
      decide_eq_true_eq] at h
    simp only [Spec.Req.ok, Bool.and_eq_true]
    refine ⟨?_, ?_⟩
    · rw [requiredCovered_iff]
      intro p hp ho
      rcases h.1 p hp with h1 | h1
      · rw [ho] at h1; cases h1
      · simp [Spec.covered, h1]
    · unfold Spec.rolesCovered
      rw [List.all_eq_true]
      intro role hr
      simp only [decide_eq_true_eq]
      refine Nat.le_trans (h.2 role hr) ?_
      unfold Spec.coveredWithRole
      rw [← List.countP_eq_length_filter, ← List.countP_eq_length_filter]
      apply List.countP_mono_left
      intro k _ hk
      simp only [Bool.and_eq_true] at hk
      simp [Spec.covered, hk.1, hk.2]
  | addrs l =>
    simp only [Spec.Req.allSignDirectly, List.all_eq_true] at h
    simp only [Spec.Req.ok, Spec.withoutPartiesOk, List.all_eq_true]
    intro a ha
    simp [Spec.covered, h a ha]

/-- without smart-contract signers the rule holds whoever signs for whom -/
theorem contractsOk_of_noContracts (env : Env) (mt : MsgType) (signers extra : List Addr) (req : Spec.Req)
    (h : NoContracts env signers) : req.contractsOk env mt signers extra = true :=
  smartContractOk_of_noContracts env mt _ signers h

/-- if the rule holds, every signer decodes: so do the signers that count for the value owner -/
theorem valueOwnerSignerAccs_isSome_of_smartContractOk (env : Env) (mt : MsgType) (used signers : List Addr)
    (h : Spec.smartContractOk env mt used signers = true) : (valueOwnerSignerAccs env signers).isSome = true := by
  simp only [Spec.smartContractOk, Bool.and_eq_true, List.all_eq_true] at h
  have hall := h.1.1
  cases signers with
  | nil => rfl
  | cons s0 rest =>
    have h0 := hall s0 (by simp)
    have hr : rest.all env.valid = true := by
      rw [List.all_eq_true]; intro a ha; exact hall a (by simp [ha])
    simp only [valueOwnerSignerAccs, h0, Bool.not_true, Bool.false_eq_true, ↓reduceIte, hr]
    split_ifs <;> rfl

end PvProofs.Lemmas.SignersUsed
