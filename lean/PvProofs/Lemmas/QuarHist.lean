/-
Helper lemmas for C07: what each operation does to the accepted / unaccepted sender lists of
the stored records and to the receiver's settings, and the agreement of the store with the
history of successful messages (`Hist`, `PvModel/QuarSpec.lean`).
-/
import PvProofs.Lemmas.QuarRun

namespace PvProofs.QuarL
open PvModel PvModel.Quar

/-! ### association lists built by `map` -/

section kv
variable {κ ν : Type} [DecidableEq κ]

theorem kvGet_map_val (g : κ → ν → ν) (l : List (κ × ν)) (k : κ) :
    kvGet (l.map fun e => (e.1, g e.1 e.2)) k = (kvGet l k).map (g k) := by
  induction l with
  | nil => rfl
  | cons hd t ih =>
    obtain ⟨k2, v2⟩ := hd
    by_cases hk : k2 = k
    · subst hk; simp [kvGet]
    · simp [kvGet, hk, ih]

theorem kvGet_map_keys (g : κ → ν) (ks : List κ) (k : κ) :
    kvGet (ks.map fun k => (k, g k)) k = if k ∈ ks then some (g k) else none := by
  induction ks with
  | nil => simp
  | cons k2 t ih =>
    by_cases hk : k2 = k
    · subst hk; simp [kvGet]
    · have : ¬ k = k2 := fun e => hk e.symm
      simp [kvGet, hk, ih, this]

theorem mem_keys_of_kvGet_some {l : List (κ × ν)} {k : κ} {v : ν} (h : kvGet l k = some v) : k ∈ l.map (·.1) :=
  List.mem_map.mpr ⟨(k, v), mem_of_kvGet h, rfl⟩

theorem kvGet_some_of_mem_keys {l : List (κ × ν)} {k : κ} (h : k ∈ l.map (·.1)) : ∃ v, kvGet l k = some v := by
  induction l with
  | nil => simp at h
  | cons hd t ih =>
    obtain ⟨k2, v2⟩ := hd
    by_cases hk : k2 = k
    · subst hk; exact ⟨v2, by simp [kvGet]⟩
    · simp only [List.map_cons, List.mem_cons] at h
      rcases h with h | h
      · exact absurd h.symm hk
      · obtain ⟨v, hv⟩ := ih h
        exact ⟨v, by simp [kvGet, hk, hv]⟩

end kv

/-! ### operations that keep every record's sender lists (`Kept`) -/

/-- the lists of a record that is new: accepted = its senders that are on auto-accept now -/
def NewRec (s : State) (k : Addr × Suffix) (r' : Record) : Prop :=
  (∀ a, a ∈ r'.acc ↔ a ∈ k.2 ∧ getAutoResponse s k.1 a = .accept) ∧ (∀ a, a ∈ r'.unacc → a ∉ r'.acc)

/-- no record vanishes, every old record keeps both sender lists, a new record starts per `NewRec` -/
structure Kept (s s' : State) : Prop where
  old : ∀ k r', kvGet s'.recs k = some r' →
    (∃ r, kvGet s.recs k = some r ∧ r'.unacc = r.unacc ∧ r'.acc = r.acc) ∨ (kvGet s.recs k = none ∧ NewRec s k r')
  mono : ∀ k, kvGet s'.recs k = none → kvGet s.recs k = none

theorem Kept.of_recs {s s' : State} (h : s'.recs = s.recs) : Kept s s' := by
  refine ⟨fun k r' hg => Or.inl ⟨r', by rw [← h]; exact hg, rfl, rfl⟩, fun k hg => by rw [← h]; exact hg⟩

theorem NewRec.congr {s s0 : State} (ha : s0.auto = s.auto) {k : Addr × Suffix} {r' : Record} (h : NewRec s0 k r') :
    NewRec s k r' := by
  unfold NewRec at *
  simpa only [getAutoResponse_congr ha] using h

theorem Kept.congr {s s' s0 s2 : State} (h : Kept s0 s2) (h1 : s0.recs = s.recs) (ha : s0.auto = s.auto)
    (h2 : s'.recs = s2.recs) : Kept s s' := by
  refine ⟨fun k r' hg => ?_, fun k hg => ?_⟩
  · rw [h2] at hg
    rcases h.old k r' hg with ⟨r, hr, hu, hacc⟩ | ⟨hn, hnew⟩
    · exact Or.inl ⟨r, by rw [← h1]; exact hr, hu, hacc⟩
    · exact Or.inr ⟨by rw [← h1]; exact hn, hnew.congr ha⟩
  · rw [h2] at hg
    rw [← h1]; exact h.mono k hg

theorem Kept.trans {a b c : State} (h1 : Kept a b) (h2 : Kept b c) (ha : b.auto = a.auto) : Kept a c := by
  refine ⟨fun k r' hg => ?_, fun k hg => h1.mono k (h2.mono k hg)⟩
  rcases h2.old k r' hg with ⟨r, hr, hu, hacc⟩ | ⟨hn, hnew⟩
  · rcases h1.old k r hr with ⟨r0, hr0, hu0, hacc0⟩ | ⟨hn0, hnew0⟩
    · exact Or.inl ⟨r0, hr0, hu.trans hu0, hacc.trans hacc0⟩
    · refine Or.inr ⟨hn0, ?_⟩
      unfold NewRec at *
      rw [hu, hacc]; exact hnew0
  · exact Or.inr ⟨h1.mono k hn, hnew.congr ha⟩

theorem addQuarantinedCoins_kept {s s' : State} {c : Coins} {to : Addr} {froms : List Addr}
    (inv : StoreInv s) (h : addQuarantinedCoins s c to froms = .ok s') : Kept s s' := by
  unfold addQuarantinedCoins at h
  by_cases hfa : (toppedUpOrNew s c to froms).isFullyAccepted = true
  · simp [hfa] at h
  · simp only [hfa, Bool.false_eq_true, if_false, Except.ok.injEq] at h
    generalize hqr' : ({ toppedUpOrNew s c to froms with declined := isAutoDecline s to froms } : Record) = qr' at h
    have hu' : qr'.unacc = (toppedUpOrNew s c to froms).unacc := by rw [← hqr']
    have ha' : qr'.acc = (toppedUpOrNew s c to froms).acc := by rw [← hqr']
    have hfa' : qr'.isFullyAccepted = false := by
      rw [← hqr']; simpa [Record.isFullyAccepted] using hfa
    have hk' : keyOf qr' = keyOf (toppedUpOrNew s c to froms) := by
      simp only [keyOf, Record.getAllFromAddrs, hu', ha']
    have inv1 : StoreInv { s with qin := Coins.add s.qin c } := inv_with_qin inv _
    subst h
    have hself := setQR_get_self { s with qin := Coins.add s.qin c } to qr' inv1.nodup
    rw [hfa'] at hself
    simp only [Bool.false_eq_true, if_false] at hself
    -- the key and the lists of the record written
    have hcase : (∃ r, kvGet s.recs (to, keyOf qr') = some r ∧ qr'.unacc = r.unacc ∧ qr'.acc = r.acc) ∨
        (kvGet s.recs (to, keyOf qr') = none ∧ NewRec s (to, keyOf qr') qr') := by
      unfold NewRec
      rw [hk', hu', ha']
      unfold toppedUpOrNew getQuarantineRecord
      cases hget : kvGet s.recs (to, createRecordSuffix froms) with
      | some r =>
        left
        have hkr : keyOf r = createRecordSuffix froms := (inv.key _ (mem_of_kvGet hget)).symm
        refine ⟨r, ?_, rfl, rfl⟩
        show kvGet s.recs (to, keyOf (r.addCoins c)) = some r
        have : keyOf (r.addCoins c) = keyOf r := rfl
        rw [this, hkr]; exact hget
      | none =>
        right
        simp only
        have hkn : keyOf (⟨froms.filter (fun f => !isAutoAccept s to [f]), froms.filter (fun f => isAutoAccept s to [f]),
            c, false⟩ : Record) = createRecordSuffix froms := by
          apply createRecordSuffix_perm
          exact partition_perm _ _
        rw [hkn]
        refine ⟨hget, ?_, ?_⟩
        · intro a
          simp only [List.mem_filter, mem_createRecordSuffix, isAutoAccept_singleton, decide_eq_true_eq]
        · intro a hu hacc
          simp only [List.mem_filter] at hu hacc
          simp [hacc.2] at hu
    refine ⟨fun k r' hg => ?_, fun k hg => ?_⟩
    · by_cases hk : k = (to, keyOf qr')
      · subst hk
        rw [hself] at hg
        injection hg with hg
        subst hg
        exact hcase
      · rw [setQR_get_ne _ _ _ hk] at hg
        exact Or.inl ⟨r', hg, rfl, rfl⟩
    · by_cases hk : k = (to, keyOf qr')
      · subst hk
        rw [hself] at hg
        cases hg
      · rw [setQR_get_ne _ _ _ hk] at hg
        exact hg

theorem sendRestrictionFn_cases {s s' : State} {b : Bool} {f t dest : Addr} {amt : Coins}
    (h : sendRestrictionFn s b f t amt = .ok (s', dest)) : s' = s ∨ addQuarantinedCoins s amt t [f] = .ok s' := by
  unfold sendRestrictionFn at h
  split at h
  · simp only [Except.ok.injEq, Prod.mk.injEq] at h; exact Or.inl h.1.symm
  · split at h
    · simp only [Except.ok.injEq, Prod.mk.injEq] at h; exact Or.inl h.1.symm
    · split at h
      · simp only [Except.ok.injEq, Prod.mk.injEq] at h; exact Or.inl h.1.symm
      · cases hadd : addQuarantinedCoins s amt t [f] with
        | error e => simp [hadd] at h
        | ok s1 =>
          simp only [hadd, Except.ok.injEq, Prod.mk.injEq] at h
          exact Or.inr (by rw [h.1])

theorem applyRestrictions_kept (xs : List Xfer) :
    ∀ (s s' : State) (outs : List (Addr × Coins)), StoreInv s → (∀ x ∈ xs, ∀ d, 0 ≤ Coins.amountOf x.amt d) →
      applyRestrictions s false xs = .ok (s', outs) → Kept s s' := by
  induction xs with
  | nil =>
    intro s s' outs _ _ h
    simp only [applyRestrictions, Except.ok.injEq, Prod.mk.injEq] at h
    obtain ⟨rfl, _⟩ := h
    exact Kept.of_recs rfl
  | cons x rest ih =>
    intro s s' outs inv hn h
    have hn' : ∀ y ∈ rest, ∀ d, 0 ≤ Coins.amountOf y.amt d := fun y hy => hn y (List.mem_cons_of_mem _ hy)
    unfold applyRestrictions at h
    cases hr : restrictionChain s false x.from_ x.to x.amt with
    | error e => simp [hr] at h
    | ok p =>
      obtain ⟨s1, dest⟩ := p
      simp only [hr] at h
      cases hrest : applyRestrictions s1 false rest with
      | error e => simp [hrest] at h
      | ok q =>
        obtain ⟨s2, outs2⟩ := q
        simp only [hrest, Except.ok.injEq, Prod.mk.injEq] at h
        obtain ⟨rfl, _⟩ := h
        obtain ⟨_, hsr⟩ := restrictionChain_ok hr
        rcases sendRestrictionFn_cases hsr with rfl | hadd
        · exact ih _ _ _ inv hn' hrest
        · have Q := addQuarantinedCoins_ok inv (hn x (List.mem_cons_self ..)) hadd
          exact (addQuarantinedCoins_kept inv hadd).trans (ih _ _ _ Q.inv hn' hrest) Q.rest.auto

theorem bankTransfers_kept {s s' : State} {xs : List Xfer} (inv : StoreInv s)
    (hn : ∀ x ∈ xs, ∀ d, 0 ≤ Coins.amountOf x.amt d)
    (h : bankTransfers s false xs = .ok s') : Kept s s' := by
  unfold bankTransfers at h
  cases hd : debitAll s.bank xs with
  | error e => simp [hd] at h
  | ok b1 =>
    simp only [hd] at h
    cases ha : applyRestrictions { s with bank := b1 } false xs with
    | error e => simp [ha] at h
    | ok p =>
      obtain ⟨s2, outs⟩ := p
      simp only [ha, Except.ok.injEq] at h
      subst h
      exact (applyRestrictions_kept xs _ _ _ (inv_with_bank inv b1) hn ha).congr rfl rfl rfl

/-! ### the decline loop: what happens to the lists -/

/-- a decline takes every named sender's acceptance back and touches nobody else -/
def DeclRel (froms : List Addr) (r r' : Record) : Prop :=
  (∀ a, a ∈ r'.acc ↔ a ∈ r.acc ∧ a ∉ froms) ∧ (∀ a, a ∈ r'.unacc ↔ a ∈ r.unacc ∨ (a ∈ r.acc ∧ a ∈ froms))

theorem declRel_of_none_named {froms : List Addr} {r r' : Record}
    (hn : (r.acc.filter fun a => froms.contains a).isEmpty = true) (hu : r'.unacc = r.unacc) (ha : r'.acc = r.acc) :
    DeclRel froms r r' := by
  have hnil : r.acc.filter (fun a => froms.contains a) = [] := List.isEmpty_iff.mp hn
  have hnone : ∀ a ∈ r.acc, a ∉ froms := by
    intro a ha' hf
    have := List.filter_eq_nil_iff.mp hnil a ha'
    simp [hf] at this
  refine ⟨fun a => ?_, fun a => ?_⟩
  · rw [ha]; exact ⟨fun h => ⟨h, hnone a h⟩, fun h => h.1⟩
  · rw [hu]; exact ⟨fun h => Or.inl h, fun h => h.elim id (fun h => absurd h.2 (hnone a h.1))⟩

theorem declineFrom_rel (r : Record) (froms : List Addr) :
    match r.declineFrom froms with
    | some r' => DeclRel froms r r'
    | none => DeclRel froms r r := by
  unfold Record.declineFrom Record.findAddresses
  simp only
  cases hn : (r.acc.filter fun a => froms.contains a).isEmpty
  · simp only [Bool.false_eq_true, if_false]
    refine ⟨fun a => ?_, fun a => ?_⟩
    · simp [List.mem_filter]
    · simp [List.mem_append, List.mem_filter]
  · simp only [if_true]
    cases hd : r.declined
    · simp only [Bool.false_eq_true, if_false]
      exact declRel_of_none_named hn rfl rfl
    · simp only [if_true]
      exact declRel_of_none_named hn rfl rfl

structure DeclLists (s s' : State) (to : Addr) (froms : List Addr) (rs : List Record) : Prop where
  other : ∀ k, k ∉ rs.map (fun r => (to, keyOf r)) → kvGet s'.recs k = kvGet s.recs k
  each : ∀ r ∈ rs, ∃ r', kvGet s'.recs (to, keyOf r) = some r' ∧ DeclRel froms r r'

theorem declineLoop_lists (to : Addr) (froms : List Addr) :
    ∀ (rs : List Record) (s : State), StoreInv s → Snapshot s to rs →
      DeclLists s (declineLoop s to froms rs) to froms rs := by
  intro rs
  induction rs with
  | nil =>
    intro s _ _
    exact ⟨fun _ _ => rfl, by simp⟩
  | cons r rest ih =>
    intro s inv snap
    have hstored := snap.stored r (List.mem_cons_self ..)
    have hnd := List.nodup_cons.mp snap.nodup
    have hkey_notin : ((to, keyOf r) : Addr × Suffix) ∉ rest.map (fun r => (to, keyOf r)) := by
      intro hm
      obtain ⟨x, hx, he⟩ := List.mem_map.mp hm
      injection he with _ he
      exact hnd.1 (he ▸ List.mem_map.mpr ⟨x, hx, rfl⟩)
    have hrel := declineFrom_rel r froms
    unfold declineLoop
    cases hdf : r.declineFrom froms with
    | none =>
      rw [hdf] at hrel
      simp only
      have A := ih s inv snap.tail
      refine ⟨fun k hk => ?_, fun x hx => ?_⟩
      · simp only [List.map_cons, List.mem_cons, not_or] at hk
        exact A.other k hk.2
      · rcases List.mem_cons.mp hx with rfl | hx
        · exact ⟨x, by rw [A.other _ hkey_notin]; exact hstored, hrel⟩
        · exact A.each x hx
    | some r1 =>
      rw [hdf] at hrel
      simp only
      obtain ⟨hk1, hc1, hfa1⟩ := declineFrom_some hdf
      have hnfa : r.isFullyAccepted = false := inv.nfa _ (mem_of_kvGet hstored)
      have hfa := hfa1 hnfa
      have hnn : ∀ d, 0 ≤ Coins.amountOf r.coins d := inv.nonneg _ (mem_of_kvGet hstored)
      have inv1 := inv_setQR inv to r1 (by rw [hc1]; exact hnn)
      have snap1 : Snapshot (setQuarantineRecord s to r1) to rest := snap.after_set hk1 rfl
      have A := ih _ inv1 snap1
      have hself : kvGet (setQuarantineRecord s to r1).recs (to, keyOf r) = some r1 := by
        have := setQR_get_self s to r1 inv.nodup
        rw [hk1, hfa] at this
        simpa using this
      refine ⟨fun k hk => ?_, fun x hx => ?_⟩
      · simp only [List.map_cons, List.mem_cons, not_or] at hk
        rw [A.other k hk.2]
        apply setQR_get_ne
        rw [hk1]; exact hk.1
      · rcases List.mem_cons.mp hx with rfl | hx
        · exact ⟨r1, by rw [A.other _ hkey_notin]; exact hself, hrel⟩
        · exact A.each x hx

/-! ### settings -/

theorem setAutoResponses_auto (to : Addr) (ups : List (Addr × AutoResp)) :
    ∀ s : State, (setAutoResponses s to ups).auto = applyUps s.auto to ups := by
  induction ups with
  | nil => intro s; rfl
  | cons u rest ih =>
    intro s
    obtain ⟨f, r⟩ := u
    unfold setAutoResponses applyUps
    rw [ih]
    unfold setAutoResponse
    split <;> rfl

theorem setAutoResponses_optin (to : Addr) (ups : List (Addr × AutoResp)) :
    ∀ s : State, (setAutoResponses s to ups).optin = s.optin := by
  induction ups with
  | nil => intro s; rfl
  | cons u rest ih =>
    intro s
    obtain ⟨f, r⟩ := u
    unfold setAutoResponses
    rw [ih]
    unfold setAutoResponse
    split <;> rfl

/-! ### the store agrees with the history -/

/-- The store says what the history says: same opt-ins and auto-responses, and on every stored
record the accepted list is (as a set) the senders the history has as accepted; accepted and
unaccepted senders are disjoint; the history knows no record that is not stored. -/
structure HistOK (h : Hist) (s : State) : Prop where
  optin : h.optin = s.optin
  auto : h.auto = s.auto
  recs : ∀ k r, kvGet s.recs k = some r →
    ∃ ga, kvGet h.acc k = some ga ∧ (∀ a, a ∈ r.acc ↔ a ∈ ga) ∧ (∀ a, a ∈ r.unacc → a ∉ r.acc)
  stale : ∀ k, kvGet s.recs k = none → kvGet h.acc k = none

/-- what one successful message does to the accepted senders of record `k` -/
def accUpd (op : Op) (k : Addr × Suffix) (ga : List Addr) : List Addr :=
  match op with
  | .accept to froms _ => if k.1 = to then ga ++ k.2.filter (fun a => froms.contains a) else ga
  | .decline to froms _ => if k.1 = to then ga.filter (fun a => !froms.contains a) else ga
  | _ => ga

theorem kvGet_stepAccExisting (h : Hist) (op : Op) (k : Addr × Suffix) :
    kvGet (h.stepAccExisting op) k = (kvGet h.acc k).map (accUpd op k) := by
  cases op with
  | accept to froms perm =>
    exact kvGet_map_val (fun (k : Addr × Suffix) (ga : List Addr) =>
      if k.1 = to then ga ++ k.2.filter (fun a => froms.contains a) else ga) h.acc k
  | decline to froms perm =>
    exact kvGet_map_val (fun (k : Addr × Suffix) (ga : List Addr) =>
      if k.1 = to then ga.filter (fun a => !froms.contains a) else ga) h.acc k
  | optIn a => cases hk : kvGet h.acc k <;> simp [Hist.stepAccExisting, accUpd, hk]
  | optOut a => cases hk : kvGet h.acc k <;> simp [Hist.stepAccExisting, accUpd, hk]
  | auto to ups => cases hk : kvGet h.acc k <;> simp [Hist.stepAccExisting, accUpd, hk]
  | send f t c => cases hk : kvGet h.acc k <;> simp [Hist.stepAccExisting, accUpd, hk]
  | msend f outs => cases hk : kvGet h.acc k <;> simp [Hist.stepAccExisting, accUpd, hk]
  | iosend ins t => cases hk : kvGet h.acc k <;> simp [Hist.stepAccExisting, accUpd, hk]
  | bsend f t c => cases hk : kvGet h.acc k <;> simp [Hist.stepAccExisting, accUpd, hk]
  | qadd to froms amt payer => cases hk : kvGet h.acc k <;> simp [Hist.stepAccExisting, accUpd, hk]

theorem autoResp_eq {h : Hist} {s : State} (ha : h.auto = s.auto) (to f : Addr) :
    h.autoResp to f = getAutoResponse s to f := by
  unfold Hist.autoResp getAutoResponse
  rw [ha]

/-- The generic step: if the settings move as the history says and every record of the new
store either is an old one whose accepted list moved by `accUpd`, or is new per `NewRec`, the
stepped history agrees with the new store. -/
theorem histOK_step {h : Hist} {s s' : State} {op : Op} (H : HistOK h s)
    (hoptin : h.stepOptin op = s'.optin) (hauto : h.stepAuto op = s'.auto)
    (hrecs : ∀ k r', kvGet s'.recs k = some r' →
      (∃ r, kvGet s.recs k = some r ∧ (∀ ga, (∀ a, a ∈ r.acc ↔ a ∈ ga) → ∀ a, a ∈ r'.acc ↔ a ∈ accUpd op k ga) ∧
          ((∀ a, a ∈ r.unacc → a ∉ r.acc) → ∀ a, a ∈ r'.unacc → a ∉ r'.acc))
      ∨ (kvGet s.recs k = none ∧ NewRec s k r')) :
    HistOK (h.step op (s'.recs.map (·.1))) s' := by
  refine ⟨hoptin, hauto, fun k r' hg => ?_, fun k hg => ?_⟩
  · have hmem : k ∈ s'.recs.map (·.1) := mem_keys_of_kvGet_some hg
    simp only [Hist.step]
    rw [kvGet_map_keys (h.accAfter op), if_pos hmem]
    unfold Hist.accAfter
    rw [kvGet_stepAccExisting]
    rcases hrecs k r' hg with ⟨r, hr, hacc, hdis⟩ | ⟨hn, hnew⟩
    · obtain ⟨ga, hga, hag, hd⟩ := H.recs k r hr
      rw [hga]
      exact ⟨_, rfl, hacc ga hag, hdis hd⟩
    · rw [H.stale k hn]
      refine ⟨_, rfl, fun a => ?_, hnew.2⟩
      rw [hnew.1 a]
      simp only [Option.map_none, List.mem_filter, decide_eq_true_eq, autoResp_eq H.auto]
  · have hnm : k ∉ s'.recs.map (·.1) := by
      intro hm
      obtain ⟨v, hv⟩ := kvGet_some_of_mem_keys hm
      rw [hg] at hv; cases hv
    simp only [Hist.step]
    rw [kvGet_map_keys (h.accAfter op), if_neg hnm]

/-- `histOK_step` for the operations that keep every record's lists -/
theorem histOK_of_kept {h : Hist} {s s' : State} {op : Op} (H : HistOK h s) (K : Kept s s')
    (hupd : ∀ k ga, accUpd op k ga = ga)
    (hoptin : h.stepOptin op = s'.optin) (hauto : h.stepAuto op = s'.auto) :
    HistOK (h.step op (s'.recs.map (·.1))) s' := by
  refine histOK_step H hoptin hauto (fun k r' hg => ?_)
  rcases K.old k r' hg with ⟨r, hr, hu, hacc⟩ | hnew
  · refine Or.inl ⟨r, hr, fun ga hag a => ?_, fun hd a => ?_⟩
    · rw [hupd, hacc]; exact hag a
    · rw [hu, hacc]; exact hd a
  · exact Or.inr hnew

/-! ### one operation -/

/-- a successful `MsgSend` / `MsgMultiSend` / `InputOutputCoinsProv` is `bankTransfers` of its transfers -/
theorem exec_bankTransfers {s s' : State} {op : Op} {rel : Coins} (h : exec s op = .ok (s', rel))
    (hop : op.xfers ≠ []) :
    bankTransfers s false op.xfers = .ok s' ∧ ∀ x ∈ op.xfers, ∀ d, 0 ≤ Coins.amountOf x.amt d := by
  cases op with
  | send f t c =>
    simp only [exec, msgSend] at h
    cases hv : coinsValid c
    · simp [hv, Except.map] at h
    · simp only [hv, Bool.not_true, Bool.false_eq_true, if_false] at h
      cases hb : bankTransfers s false [⟨f, t, c⟩] with
      | error e => simp [hb, Except.map] at h
      | ok s1 =>
        simp only [hb, Except.map, Except.ok.injEq, Prod.mk.injEq] at h
        obtain ⟨rfl, _⟩ := h
        refine ⟨hb, ?_⟩
        intro x hx d
        simp only [Op.xfers, List.mem_singleton] at hx; subst hx
        exact coinsValid_nonneg hv d
  | msend f outs =>
    simp only [exec, msgMultiSend] at h
    cases hv : (outs.isEmpty || !outs.all fun o => coinsValid o.2)
    · simp only [hv, Bool.false_eq_true, if_false] at h
      cases hb : bankTransfers s false (outs.map fun o => ⟨f, o.1, o.2⟩) with
      | error e => simp [hb, Except.map] at h
      | ok s1 =>
        simp only [hb, Except.map, Except.ok.injEq, Prod.mk.injEq] at h
        obtain ⟨rfl, _⟩ := h
        simp only [Bool.or_eq_false_iff, Bool.not_eq_false'] at hv
        have hall := List.all_eq_true.mp hv.2
        refine ⟨hb, ?_⟩
        intro x hx d
        simp only [Op.xfers] at hx
        obtain ⟨o, ho, rfl⟩ := List.mem_map.mp hx
        exact coinsValid_nonneg (hall o ho) d
    · simp [hv, Except.map] at h
  | iosend ins t =>
    simp only [exec, ioSend] at h
    cases hv : (ins.isEmpty || !ins.all fun i => coinsValid i.2)
    · simp only [hv, Bool.false_eq_true, if_false] at h
      cases hb : bankTransfers s false (ins.map fun i => ⟨i.1, t, i.2⟩) with
      | error e => simp [hb, Except.map] at h
      | ok s1 =>
        simp only [hb, Except.map, Except.ok.injEq, Prod.mk.injEq] at h
        obtain ⟨rfl, _⟩ := h
        simp only [Bool.or_eq_false_iff, Bool.not_eq_false'] at hv
        have hall := List.all_eq_true.mp hv.2
        refine ⟨hb, ?_⟩
        intro x hx d
        simp only [Op.xfers] at hx
        obtain ⟨o, ho, rfl⟩ := List.mem_map.mp hx
        exact coinsValid_nonneg (hall o ho) d
    · simp [hv, Except.map] at h
  | bsend f t c => simp [Op.xfers] at hop
  | optIn a => simp [Op.xfers] at hop
  | optOut a => simp [Op.xfers] at hop
  | auto to ups => simp [Op.xfers] at hop
  | accept to froms perm => simp [Op.xfers] at hop
  | decline to froms perm => simp [Op.xfers] at hop
  | qadd to froms amt payer => simp [Op.xfers] at hop

theorem histOK_of_transfer {h : Hist} {s s' : State} {op : Op} {rel : Coins} (inv : StoreInv s) (H : HistOK h s)
    (he : exec s op = .ok (s', rel)) (hop : op.xfers ≠ [])
    (hupd : ∀ k ga, accUpd op k ga = ga) (ho : h.stepOptin op = h.optin) (ha : h.stepAuto op = h.auto) :
    HistOK (h.step op (s'.recs.map (·.1))) s' := by
  obtain ⟨hb, hn⟩ := exec_bankTransfers he hop
  have T := bankTransfers_ok inv hn hb
  exact histOK_of_kept H (bankTransfers_kept inv hn hb) hupd (by rw [ho, H.optin, T.rest.optin])
    (by rw [ha, H.auto, T.rest.auto])

/-- a stored record of `to` that the snapshot for `froms` does not contain has no sender among `froms` -/
theorem not_named_of_not_in_snapshot {s : State} (inv : StoreInv s) {to : Addr} {k2 : Suffix} {r : Record}
    {froms : List Addr} (hg : kvGet s.recs (to, k2) = some r)
    (hin : ((to, k2) : Addr × Suffix) ∉ (getQuarantineRecords s to froms).map (fun r => (to, keyOf r)))
    {a : Addr} (ha : a ∈ k2) : a ∉ froms := by
  intro hf
  apply hin
  have hmem := mem_of_kvGet hg
  have hkey : keyOf r = k2 := inv_key_of_get inv hg
  have ha' : a ∈ r.getAllFromAddrs := by
    rw [← hkey] at ha
    exact mem_createRecordSuffix.mp ha
  have hk := mem_suffixes inv hmem ha' hf
  refine List.mem_map.mpr ⟨r, ?_, by rw [hkey]⟩
  unfold getQuarantineRecords
  exact List.mem_filterMap.mpr ⟨k2, hk, hg⟩

theorem mem_key_iff {s : State} (inv : StoreInv s) {k : Addr × Suffix} {r : Record} (hg : kvGet s.recs k = some r)
    (a : Addr) : a ∈ k.2 ↔ a ∈ r.unacc ∨ a ∈ r.acc := by
  obtain ⟨to, k2⟩ := k
  have hkey : keyOf r = k2 := inv_key_of_get inv hg
  show a ∈ k2 ↔ _
  rw [← hkey]
  simp only [keyOf, mem_createRecordSuffix, Record.getAllFromAddrs, List.mem_append]

/-- **One successful operation keeps the store in agreement with the history.** -/
theorem exec_histOK {h : Hist} {s s' : State} {op : Op} {rel : Coins} (inv : StoreInv s) (H : HistOK h s)
    (he : exec s op = .ok (s', rel)) : HistOK (h.step op (s'.recs.map (·.1))) s' := by
  cases op with
  | optIn a =>
    simp only [exec, Except.ok.injEq, Prod.mk.injEq] at he
    obtain ⟨rfl, _⟩ := he
    refine histOK_of_kept H (Kept.of_recs rfl) (fun _ _ => rfl) ?_ H.auto
    show kvSet h.optin a () = kvSet s.optin a ()
    rw [H.optin]
  | optOut a =>
    simp only [exec, Except.ok.injEq, Prod.mk.injEq] at he
    obtain ⟨rfl, _⟩ := he
    refine histOK_of_kept H (Kept.of_recs rfl) (fun _ _ => rfl) ?_ H.auto
    show kvDel h.optin a = kvDel s.optin a
    rw [H.optin]
  | auto to ups =>
    simp only [exec] at he
    split at he
    · cases he
    · simp only [Except.ok.injEq, Prod.mk.injEq] at he
      obtain ⟨rfl, _⟩ := he
      refine histOK_of_kept H (Kept.of_recs (setAutoResponses_only to ups s).recs) (fun _ _ => rfl) ?_ ?_
      · rw [setAutoResponses_optin]; exact H.optin
      · rw [setAutoResponses_auto]
        show applyUps h.auto to ups = _
        rw [H.auto]
  | send f t c => exact histOK_of_transfer inv H he (by simp [Op.xfers]) (fun _ _ => rfl) rfl rfl
  | msend f outs =>
    by_cases hop : (Op.msend f outs).xfers = []
    · -- no outputs: rejected
      simp only [Op.xfers, List.map_eq_nil_iff] at hop
      subst hop
      simp [exec, msgMultiSend, Except.map] at he
    · exact histOK_of_transfer inv H he hop (fun _ _ => rfl) rfl rfl
  | iosend ins t =>
    by_cases hop : (Op.iosend ins t).xfers = []
    · simp only [Op.xfers, List.map_eq_nil_iff] at hop
      subst hop
      simp [exec, ioSend, Except.map] at he
    · exact histOK_of_transfer inv H he hop (fun _ _ => rfl) rfl rfl
  | bsend f t c =>
    simp only [exec, bypassSend] at he
    cases hv : coinsValid c
    · simp [hv, Except.map] at he
    · simp only [hv, Bool.not_true, Bool.false_eq_true, if_false] at he
      cases hb : bankTransfers s true [⟨f, t, c⟩] with
      | error e => simp [hb, Except.map] at he
      | ok s1 =>
        simp only [hb, Except.map, Except.ok.injEq, Prod.mk.injEq] at he
        obtain ⟨rfl, _⟩ := he
        obtain ⟨rfl, _, _⟩ := bankTransfers_bypass_ok hb
        exact histOK_of_kept H (Kept.of_recs rfl) (fun _ _ => rfl) H.optin H.auto
  | qadd to froms amt payer =>
    simp only [exec, qAdd] at he
    cases hv : (froms.isEmpty || !coinsValid amt)
    · simp only [hv, Bool.false_eq_true, if_false] at he
      cases hb : bankTransfers s true [⟨payer, s.holder, amt⟩] with
      | error e => simp [hb, Except.map] at he
      | ok s1 =>
        simp only [hb] at he
        cases hq : addQuarantinedCoins s1 amt to froms with
        | error e => simp [hq, Except.map] at he
        | ok s2 =>
          simp only [hq, Except.map, Except.ok.injEq, Prod.mk.injEq] at he
          obtain ⟨rfl, _⟩ := he
          obtain ⟨rfl, _, _⟩ := bankTransfers_bypass_ok hb
          have hvv : coinsValid amt = true := by
            simp only [Bool.or_eq_false_iff, Bool.not_eq_false'] at hv; exact hv.2
          have Q := addQuarantinedCoins_ok (inv_with_bank inv _) (coinsValid_nonneg hvv) hq
          have K := (addQuarantinedCoins_kept (inv_with_bank inv _) hq).congr (s := s) (s' := s2) rfl rfl rfl
          exact histOK_of_kept H K (fun _ _ => rfl) (by rw [Q.rest.optin]; exact H.optin) (by rw [Q.rest.auto]; exact H.auto)
    · simp [hv, Except.map] at he
  | accept to froms perm =>
    simp only [exec, msgAccept] at he
    cases hf : froms.isEmpty
    · simp only [hf, Bool.false_eq_true, if_false] at he
      cases ha : acceptQuarantinedFunds s to froms with
      | error e => simp [ha] at he
      | ok p =>
        obtain ⟨s1, rel1⟩ := p
        simp only [ha, Except.ok.injEq, Prod.mk.injEq] at he
        obtain ⟨rfl, _⟩ := he
        have A := acceptLoop_ok to froms _ s s1 [] rel1 inv (getQuarantineRecords_snapshot inv to froms) ha
        have hrecs' : (if perm = true then setAutoResponses s1 to (froms.map fun f => (f, AutoResp.accept)) else s1).recs = s1.recs := by
          split
          · exact (setAutoResponses_only to _ s1).recs
          · rfl
        refine histOK_step H ?_ ?_ (fun k r' hg => ?_)
        · show h.optin = _
          split
          · rw [setAutoResponses_optin, A.rest.optin]; exact H.optin
          · rw [A.rest.optin]; exact H.optin
        · cases perm
          · show h.auto = s1.auto
            rw [A.rest.auto]; exact H.auto
          · show applyUps h.auto to _ = (setAutoResponses s1 to _).auto
            rw [setAutoResponses_auto, A.rest.auto, H.auto]
        · rw [hrecs'] at hg
          left
          by_cases hin : k ∈ (getQuarantineRecords s to froms).map (fun r => (to, keyOf r))
          · obtain ⟨r, hr, rfl⟩ := List.mem_map.mp hin
            have hst := (getQuarantineRecords_snapshot inv to froms).stored r hr
            have hea := A.each r hr
            split at hea
            · rw [hea] at hg; cases hg
            · obtain ⟨r'', hg', _, hu, hacc⟩ := hea
              rw [hg'] at hg
              injection hg with hg
              subst hg
              refine ⟨r, hst, fun ga hag a => ?_, fun hd a hau => ?_⟩
              · have hk := mem_key_iff inv hst a
                simp only at hk
                simp only [accUpd, if_true, hacc, List.mem_append, List.mem_filter, hk, ← hag a]
                constructor
                · rintro (h1 | ⟨h1, h2⟩)
                  · exact Or.inl h1
                  · exact Or.inr ⟨Or.inl h1, h2⟩
                · rintro (h1 | ⟨h1 | h1, h2⟩)
                  · exact Or.inl h1
                  · exact Or.inr ⟨h1, h2⟩
                  · exact Or.inl h1
              · rw [hu] at hau
                rw [hacc]
                simp only [List.mem_filter, List.mem_append] at hau ⊢
                rintro (h1 | ⟨_, h2⟩)
                · exact hd a hau.1 h1
                · have h3 := hau.2
                  rw [h2] at h3
                  cases h3
          · rw [A.other k hin] at hg
            refine ⟨r', hg, fun ga hag a => ?_, fun hd => hd⟩
            obtain ⟨t, k2⟩ := k
            simp only [accUpd]
            split
            · rename_i ht
              subst ht
              simp only [List.mem_append, List.mem_filter]
              constructor
              · intro h1; exact Or.inl ((hag a).mp h1)
              · rintro (h1 | ⟨h1, h2⟩)
                · exact (hag a).mpr h1
                · have := not_named_of_not_in_snapshot inv hg hin h1
                  simp only [List.contains_iff_mem] at h2
                  exact absurd (by simpa using h2) this
            · exact hag a
    · simp [hf] at he
  | decline to froms perm =>
    simp only [exec, msgDecline] at he
    cases hf : froms.isEmpty
    · simp only [hf, Bool.false_eq_true, if_false, Except.map, Except.ok.injEq, Prod.mk.injEq] at he
      obtain ⟨rfl, _⟩ := he
      have D := declineQuarantinedFunds_ok inv to froms
      have L := declineLoop_lists to froms _ s inv (getQuarantineRecords_snapshot inv to froms)
      have hrecs' : (if perm = true then setAutoResponses (declineQuarantinedFunds s to froms) to (froms.map fun f => (f, AutoResp.decline))
          else declineQuarantinedFunds s to froms).recs = (declineQuarantinedFunds s to froms).recs := by
        split
        · exact (setAutoResponses_only to _ _).recs
        · rfl
      refine histOK_step H ?_ ?_ (fun k r' hg => ?_)
      · show h.optin = _
        split
        · rw [setAutoResponses_optin, D.rest.optin]; exact H.optin
        · rw [D.rest.optin]; exact H.optin
      · cases perm
        · show h.auto = (declineQuarantinedFunds s to froms).auto
          rw [D.rest.auto]; exact H.auto
        · show applyUps h.auto to _ = (setAutoResponses (declineQuarantinedFunds s to froms) to _).auto
          rw [setAutoResponses_auto, D.rest.auto, H.auto]
      · rw [hrecs'] at hg
        left
        by_cases hin : k ∈ (getQuarantineRecords s to froms).map (fun r => (to, keyOf r))
        · obtain ⟨r, hr, rfl⟩ := List.mem_map.mp hin
          have hst := (getQuarantineRecords_snapshot inv to froms).stored r hr
          obtain ⟨r'', hg', hrel⟩ := L.each r hr
          unfold declineQuarantinedFunds at hg
          rw [hg'] at hg
          injection hg with hg
          subst hg
          refine ⟨r, hst, fun ga hag a => ?_, fun hd a hau => ?_⟩
          · simp only [accUpd, if_true, List.mem_filter, hrel.1 a, hag a]
            simp
          · rw [hrel.1 a]
            rintro ⟨h1, h2⟩
            rcases (hrel.2 a).mp hau with h3 | ⟨_, h3⟩
            · exact hd a h3 h1
            · exact h2 h3
        · unfold declineQuarantinedFunds at hg
          rw [L.other k hin] at hg
          refine ⟨r', hg, fun ga hag a => ?_, fun hd => hd⟩
          obtain ⟨t, k2⟩ := k
          simp only [accUpd]
          split
          · rename_i ht
            subst ht
            simp only [List.mem_filter]
            constructor
            · intro h1
              refine ⟨(hag a).mp h1, ?_⟩
              have hk : a ∈ k2 := (mem_key_iff inv hg a).mpr (Or.inr h1)
              have := not_named_of_not_in_snapshot inv hg hin hk
              simpa using this
            · intro h1; exact (hag a).mpr h1.1
          · exact hag a
    · simp [hf, Except.map] at he

/-- the history of a whole operation list, started from `h` in state `s` -/
def histRun (h : Hist) (s : State) : List Op → Hist
  | [] => h
  | op :: rest =>
    match exec s op with
    | .ok (s', _) => histRun (h.step op (s'.recs.map (·.1))) s' rest
    | .error _ => histRun h s rest

theorem histRun_ok : ∀ (ops : List Op) (h : Hist) (s : State), StoreInv s → HistOK h s →
    HistOK (histRun h s ops) (run s ops) := by
  intro ops
  induction ops with
  | nil => intro h s _ H; exact H
  | cons op rest ih =>
    intro h s inv H
    show HistOK (histRun h s (op :: rest)) (run (step s op) rest)
    unfold histRun step
    cases he : exec s op with
    | error e => exact ih h s inv H
    | ok p =>
      obtain ⟨s', rel⟩ := p
      exact ih _ s' (exec_ok inv he).inv (exec_histOK inv H he)

/-! ### the state as the history reads it (`Hist.view`) -/

theorem completes_congr {froms : List Addr} {r r' : Record} (h : ∀ a, a ∈ r'.unacc ↔ a ∈ r.unacc) :
    completes froms r' = completes froms r := by
  unfold completes
  rw [Bool.eq_iff_iff, List.all_eq_true, List.all_eq_true]
  exact ⟨fun h1 a ha => h1 a ((h a).mpr ha), fun h1 a ha => h1 a ((h a).mp ha)⟩

/-- the unaccepted senders the history computes for a stored record are the stored ones -/
theorem view_unacc {h : Hist} {s : State} (inv : StoreInv s) (H : HistOK h s) {k : Addr × Suffix} {r : Record}
    (hg : kvGet s.recs k = some r) (a : Addr) :
    a ∈ k.2.filter (fun a => !(h.accepted k).contains a) ↔ a ∈ r.unacc := by
  obtain ⟨ga, hga, hag, hd⟩ := H.recs k r hg
  have hk := mem_key_iff inv hg a
  simp only [Hist.accepted, hga, Option.getD_some, List.mem_filter, hk, Bool.not_eq_true', List.contains_eq_mem,
    decide_eq_false_iff_not, ← hag a]
  constructor
  · rintro ⟨h1 | h1, h2⟩
    · exact h1
    · exact absurd h1 h2
  · intro h1; exact ⟨Or.inl h1, hd a h1⟩

theorem view_sameRest {h : Hist} {s : State} (H : HistOK h s) : SameRest s (h.view s) :=
  ⟨rfl, rfl, rfl, H.optin, H.auto⟩

theorem expReleased_view_aux {h : Hist} {s : State} (inv : StoreInv s) (H : HistOK h s) (to : Addr) (froms : List Addr)
    (d : Denom) : ∀ l : List ((Addr × Suffix) × Record), (∀ e ∈ l, kvGet s.recs e.1 = some e.2) →
      expReleased (l.map fun e => (e.1, { e.2 with unacc := e.1.2.filter (fun a => !(h.accepted e.1).contains a),
                                                    acc := e.1.2.filter (fun a => (h.accepted e.1).contains a) })) to froms d
        = expReleased l to froms d := by
  intro l
  induction l with
  | nil => intro _; rfl
  | cons e t ih =>
    intro hall
    obtain ⟨k, r⟩ := e
    have hg := hall (k, r) (List.mem_cons_self ..)
    have hc : completes froms ({ r with unacc := k.2.filter (fun a => !(h.accepted k).contains a),
                                        acc := k.2.filter (fun a => (h.accepted k).contains a) } : Record)
        = completes froms r := completes_congr (fun a => view_unacc inv H hg a)
    simp only [List.map_cons, expReleased, hc]
    rw [ih (fun e he => hall e (List.mem_cons_of_mem _ he))]

/-- what an accept has to pay is the same whether the completed records are determined from the
store's lists or from the history -/
theorem expReleased_view {h : Hist} {s : State} (inv : StoreInv s) (H : HistOK h s) (to : Addr) (froms : List Addr)
    (d : Denom) : expReleased (h.view s).recs to froms d = expReleased s.recs to froms d :=
  expReleased_view_aux inv H to froms d s.recs (fun _ he => kvGet_of_mem_nodup inv.nodup he)

end PvProofs.QuarL
