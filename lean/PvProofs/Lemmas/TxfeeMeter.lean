/-
C08 helper lemmas: what the fee meter holds after the messages ran, in terms of the
declarative `Incurred` list of `PvModel.TxfeeSpec`.
-/
import PvProofs.Lemmas.TxfeeBasics
import PvProofs.C19

namespace PvProofs.TxfeeL
open PvModel PvModel.Txfee PvModel.Fees

/-! ### the declarative sums -/

/-- part of the incurred fees in denom `d` that is NOT owed to a recipient -/
def collectorPart (d : Denom) : List Incurred → Int
  | [] => 0
  | i :: rest => (if i.denom = d then i.amt - i.share else 0) + collectorPart d rest

theorem totalIncurred_append (d : Denom) (xs ys : List Incurred) :
    totalIncurred d (xs ++ ys) = totalIncurred d xs + totalIncurred d ys := by
  induction xs with
  | nil => simp [totalIncurred]
  | cons h t ih => simp [totalIncurred, ih]; omega

theorem owedTo_append (a : Addr) (d : Denom) (xs ys : List Incurred) :
    owedTo a d (xs ++ ys) = owedTo a d xs + owedTo a d ys := by
  induction xs with
  | nil => simp [owedTo]
  | cons h t ih => simp [owedTo, ih]; omega

theorem owedRecipients_append (d : Denom) (xs ys : List Incurred) :
    owedRecipients d (xs ++ ys) = owedRecipients d xs + owedRecipients d ys := by
  induction xs with
  | nil => simp [owedRecipients]
  | cons h t ih => simp [owedRecipients, ih]; omega

theorem collectorPart_append (d : Denom) (xs ys : List Incurred) :
    collectorPart d (xs ++ ys) = collectorPart d xs + collectorPart d ys := by
  induction xs with
  | nil => simp [collectorPart]
  | cons h t ih => simp [collectorPart, ih]; omega

theorem totalIncurred_split (d : Denom) (is : List Incurred) :
    totalIncurred d is = collectorPart d is + owedRecipients d is := by
  induction is with
  | nil => rfl
  | cons h t ih => simp only [totalIncurred, collectorPart, owedRecipients, ih]; split_ifs <;> omega

theorem owedTo_empty (d : Denom) (is : List Incurred) : owedTo "" d is = 0 := by
  induction is with
  | nil => rfl
  | cons h t ih =>
    simp only [owedTo, ih, Incurred.share]
    split_ifs <;> simp_all

/-- only positive amounts are incurred, so "nothing in any denom" means an empty list -/
theorem incurred_nil_of_total_zero {is : List Incurred} (hpos : ∀ i ∈ is, 0 < i.amt)
    (hz : ∀ d, totalIncurred d is = 0) : is = [] := by
  have hnn : ∀ (l : List Incurred), (∀ i ∈ l, 0 < i.amt) → ∀ d, 0 ≤ totalIncurred d l := by
    intro l
    induction l with
    | nil => intro _ d; simp [totalIncurred]
    | cons h t ih =>
      intro hp d
      have h1 := hp h (by simp)
      have h2 := ih (fun i hi => hp i (by simp [hi])) d
      simp only [totalIncurred]; split_ifs <;> omega
  cases is with
  | nil => rfl
  | cons h t =>
    exfalso
    have h1 := hpos h (by simp)
    have h2 := hnn t (fun i hi => hpos i (by simp [hi])) h.denom
    have h3 := hz h.denom
    simp [totalIncurred] at h3
    omega

/-! ### SplitCoinByBips (theorem of C19) in the form used here -/

theorem split_ok {amt : Int} {bips : Nat} {r m : Int} (ha : 0 < amt)
    (h : splitCoinByBips amt bips = .ok (r, m)) :
    r = amt * bips / 10000 ∧ r + m = amt ∧ 0 ≤ r ∧ 0 ≤ m := by
  by_cases hb : bips ≤ 10000
  · obtain ⟨r', m', h', hfl, hsum, hr, hm⟩ := PvProofs.C19.splitByBips_floor_and_adds_up (Int.le_of_lt ha) hb
    rw [h'] at h
    injection h with h
    injection h with h1 h2
    subst h1; subst h2
    exact ⟨isFloorDiv_unique (by decide) hfl (floorDiv_isFloor _ (by decide)), hsum, hr, hm⟩
  · rw [PvProofs.C19.splitCoinByBips_rejects (by omega)] at h
    cases h

/-! ### MsgFeesDistribution.Increase / CalculateAdditionalFeesToBePaid -/

/-- a `Dist` accounts for the incurred list `is` -/
structure DAcct (D : Dist) (is : List Incurred) : Prop where
  total : ∀ d, Coins.amountOf D.total d = totalIncurred d is
  modl : ∀ d, Coins.amountOf D.moduleFees d = collectorPart d is
  recip : ∀ a d, distKey a d D.recips = (if a = "" then 0 else owedTo a d is)
  rtot : ∀ d, distTotal d D.recips = owedRecipients d is
  mnn : ∀ d, 0 ≤ Coins.amountOf D.moduleFees d
  rnn : ∀ e ∈ D.recips, ∀ d, 0 ≤ Coins.amountOf e.2 d

theorem dacct_empty : DAcct {} [] :=
  ⟨fun _ => rfl, fun _ => rfl, fun a _ => by simp [distKey, owedTo], fun _ => rfl, fun _ => by simp, fun e he => by cases he⟩

theorem insertDist_nonneg {k : Addr} {cs : Coins} {l : List (Addr × Coins)}
    (hcs : ∀ d, 0 ≤ Coins.amountOf cs d) (hl : ∀ e ∈ l, ∀ d, 0 ≤ Coins.amountOf e.2 d) :
    ∀ e ∈ insertDist k cs l, ∀ d, 0 ≤ Coins.amountOf e.2 d := by
  induction l with
  | nil => intro e he d; simp [insertDist] at he; subst he; exact hcs d
  | cons hd tl ih =>
    obtain ⟨k', cs'⟩ := hd
    intro e he d
    unfold insertDist at he
    have h0 := hl (k', cs') (by simp) d
    have htl : ∀ e ∈ tl, ∀ d, 0 ≤ Coins.amountOf e.2 d := fun e he => hl e (by simp [he])
    split_ifs at he
    · simp at he
      rcases he with rfl | he
      · have := hcs d; simp at h0 ⊢; omega
      · exact htl e he d
    · simp at he
      rcases he with rfl | rfl | he
      · exact hcs d
      · exact h0
      · exact htl e he d
    · simp at he
      rcases he with rfl | he
      · exact h0
      · exact ih htl e he d

theorem increase_acct {D D' : Dist} {is : List Incurred} {coin : Coin} {bips : Nat} {rcp : Addr}
    (hD : DAcct D is) (h : D.increase coin bips rcp = .ok D') :
    DAcct D' (is ++ (if 0 < coin.2 then [⟨coin.1, coin.2, rcp, bips⟩] else [])) := by
  obtain ⟨cd, ca⟩ := coin
  unfold Dist.increase at h
  by_cases hpos : 0 < ca
  · simp only [hpos, not_true_eq_false, if_false, if_true] at h ⊢
    by_cases hr : rcp = ""
    · subst hr
      simp only [if_true] at h
      cases h
      constructor
      · intro d; simp [totalIncurred_append, totalIncurred, hD.total d]
      · intro d; simp [collectorPart_append, collectorPart, Incurred.share, hD.modl d]
      · intro a d; simp [owedTo_append, owedTo, Incurred.share, hD.recip a d]
      · intro d; simp [owedRecipients_append, owedRecipients, Incurred.share, hD.rtot d]
      · intro d; have := hD.mnn d; simp; split_ifs <;> omega
      · exact hD.rnn
    · simp only [hr, if_false] at h
      split at h
      · cases h
      · rename_i r m hs
        obtain ⟨hr1, hr2, hr3, hr4⟩ := split_ok hpos hs
        have hsh : (⟨cd, ca, rcp, bips⟩ : Incurred).share = r := by simp [Incurred.share, hr, hr1]
        have hrn : ∀ e ∈ insertDist rcp [(cd, r)] D.recips, ∀ d, 0 ≤ Coins.amountOf e.2 d :=
          insertDist_nonneg (by intro d; simp; split_ifs <;> omega) hD.rnn
        by_cases hm : m = 0
        · simp only [hm, ne_eq, not_true_eq_false, if_false] at h
          cases h
          constructor
          · intro d; simp [totalIncurred_append, totalIncurred, hD.total d]
          · intro d; simp only [collectorPart_append, collectorPart, hsh, hD.modl d]; split_ifs <;> omega
          · intro a d
            simp only [distKey_insertDist, hD.recip a d, owedTo_append, owedTo, hsh, Coins.amountOf_cons, Coins.amountOf_nil]
            by_cases ha : a = ""
            · subst ha; simp [hr]
            · by_cases hra : rcp = a <;> by_cases hd : cd = d <;> simp [ha, hra, hd]
          · intro d; simp only [distTotal_insertDist, hD.rtot d, owedRecipients_append, owedRecipients, hsh,
              Coins.amountOf_cons, Coins.amountOf_nil]
          · exact hD.mnn
          · exact hrn
        · simp only [ne_eq, hm, not_false_eq_true, if_true] at h
          cases h
          constructor
          · intro d; simp [totalIncurred_append, totalIncurred, hD.total d]
          · intro d
            simp only [Coins.amountOf_append, Coins.amountOf_cons, Coins.amountOf_nil, collectorPart_append,
              collectorPart, hsh, hD.modl d]
            split_ifs <;> omega
          · intro a d
            simp only [distKey_insertDist, hD.recip a d, owedTo_append, owedTo, hsh, Coins.amountOf_cons, Coins.amountOf_nil]
            by_cases ha : a = ""
            · subst ha; simp [hr]
            · by_cases hra : rcp = a <;> by_cases hd : cd = d <;> simp [ha, hra, hd]
          · intro d; simp only [distTotal_insertDist, hD.rtot d, owedRecipients_append, owedRecipients, hsh,
              Coins.amountOf_cons, Coins.amountOf_nil]
          · intro d; have := hD.mnn d; simp only [Coins.amountOf_append, Coins.amountOf_cons, Coins.amountOf_nil]
            split_ifs <;> omega
          · exact hrn
  · simp only [hpos, not_false_eq_true, if_true, if_false, List.append_nil] at h ⊢
    cases h; exact hD

theorem convert_eq_assessCoin (cfg : Cfg) (a : Assess) (c : Coin) :
    convertDenomToHash cfg a.amount = .ok c ↔ assessCoin cfg a = some c := by
  unfold convertDenomToHash assessCoin
  split_ifs <;> simp

theorem convert_err_assessCoin (cfg : Cfg) (a : Assess) (e : Err) :
    convertDenomToHash cfg a.amount = .error e → assessCoin cfg a = none := by
  unfold convertDenomToHash assessCoin
  split_ifs <;> simp

theorem schedPart_acct {cfg : Cfg} {D D1 : Dist} {is : List Incurred} {m : RMsg}
    (hD : DAcct D is) (h : schedPart cfg D m = .ok D1) :
    DAcct D1 (is ++ schedIncurred cfg m) := by
  unfold schedPart at h
  unfold schedIncurred
  cases hl : lookupFee cfg m.typ with
  | none => simp only [hl] at h ⊢; cases h; simpa using hD
  | some f => simp only [hl] at h ⊢; exact increase_acct hD h

theorem assessPart_acct {cfg : Cfg} {D D1 : Dist} {is : List Incurred} {a : Assess}
    (hD : DAcct D is) (h : assessPart cfg D a = .ok D1) :
    DAcct D1 (is ++ assessIncurred cfg a) := by
  unfold assessPart at h
  unfold assessIncurred
  split at h
  · cases h
  · rename_i c hc
    have hac := (convert_eq_assessCoin cfg a c).mp hc
    simp only [hac]
    cases hb : a.bips with
    | none => simp only [hb] at h; simpa using increase_acct hD h
    | some b =>
      simp only [hb] at h
      split_ifs at h
      simpa using increase_acct hD h

theorem calcOne_acct {cfg : Cfg} {D D' : Dist} {is : List Incurred} {m : RMsg}
    (hD : DAcct D is) (h : calcOne cfg D m = .ok D') : DAcct D' (is ++ incurredOf cfg m) := by
  unfold calcOne at h
  unfold incurredOf
  split at h
  · cases h
  · rename_i D1 h1
    have hD1 := schedPart_acct hD h1
    cases ha : m.assess with
    | none => simp only [ha] at h ⊢; cases h; simpa using hD1
    | some a =>
      simp only [ha] at h ⊢
      simpa [List.append_assoc] using assessPart_acct hD1 h

theorem calc_single_acct {cfg : Cfg} {D : Dist} {m : RMsg}
    (h : calculateAdditionalFeesToBePaid cfg {} [m] = .ok D) : DAcct D (incurredOf cfg m) := by
  simp only [calculateAdditionalFeesToBePaid] at h
  split at h
  · cases h
  · rename_i D1 h1
    cases h
    simpa using calcOne_acct dacct_empty h1

theorem calc_list_acct {cfg : Cfg} : ∀ (ms : List RMsg) {D D' : Dist} {is : List Incurred},
    DAcct D is → calculateAdditionalFeesToBePaid cfg D ms = .ok D' →
    DAcct D' (is ++ (ms.flatMap (incurredOf cfg))) := by
  intro ms
  induction ms with
  | nil => intro D D' is hD h; simp only [calculateAdditionalFeesToBePaid] at h; cases h; simpa using hD
  | cons m rest ih =>
    intro D D' is hD h
    simp only [calculateAdditionalFeesToBePaid] at h
    split at h
    · cases h
    · rename_i D1 h1
      have := ih (calcOne_acct hD h1) h
      simpa [List.append_assoc] using this

theorem incurredOf_pos (cfg : Cfg) (m : RMsg) : ∀ i ∈ incurredOf cfg m, 0 < i.amt := by
  intro i hi
  unfold incurredOf schedIncurred at hi
  simp only [List.mem_append] at hi
  rcases hi with hi | hi
  · split at hi
    · split_ifs at hi with hp
      · simp at hi; subst hi; exact hp
      · cases hi
    · cases hi
  · split at hi
    · unfold assessIncurred at hi
      split at hi
      · split_ifs at hi with hp
        · simp at hi; subst hi; exact hp
        · cases hi
      · cases hi
    · cases hi

/-! ### the meter after consuming -/

/-- the meter's entries account for the incurred list -/
structure Acct (used : List (String × Addr × Coins)) (is : List Incurred) : Prop where
  total : ∀ d, Coins.amountOf (sumUsed used) d = totalIncurred d is
  recip : ∀ a d, a ≠ "" → usedKey a d used = owedTo a d is
  nonEmpty : ∀ d, usedNonEmpty d used = owedRecipients d is
  nn : ∀ e ∈ used, ∀ d, 0 ≤ Coins.amountOf e.2.2 d

theorem acct_nil : Acct [] [] := ⟨fun _ => rfl, fun _ _ _ => rfl, fun _ => rfl, fun e he => by cases he⟩

theorem foldl_consumeFee (typ : String) (recips : List (Addr × Coins)) (m : Meter) :
    (recips.foldl (fun acc rc => acc.consumeFee typ rc.1 rc.2) m).used =
        m.used ++ recips.map (fun rc => (typ, rc.1, rc.2)) ∧
    (recips.foldl (fun acc rc => acc.consumeFee typ rc.1 rc.2) m).base = m.base := by
  induction recips generalizing m with
  | nil => simp
  | cons hd tl ih =>
    simp only [List.foldl_cons, List.map_cons]
    obtain ⟨h1, h2⟩ := ih (m.consumeFee typ hd.1 hd.2)
    rw [h1, h2]
    simp [Meter.consumeFee]

theorem sumUsed_map (typ : String) (recips : List (Addr × Coins)) (d : Denom) :
    Coins.amountOf (sumUsed (recips.map (fun rc => (typ, rc.1, rc.2)))) d = distTotal d recips := by
  induction recips with
  | nil => rfl
  | cons hd tl ih => obtain ⟨k, cs⟩ := hd; simp [sumUsed, distTotal, ih]

theorem usedKey_map (typ : String) (a : Addr) (recips : List (Addr × Coins)) (d : Denom) :
    usedKey a d (recips.map (fun rc => (typ, rc.1, rc.2))) = distKey a d recips := by
  induction recips with
  | nil => rfl
  | cons hd tl ih => obtain ⟨k, cs⟩ := hd; simp [usedKey, distKey, ih]

theorem usedNonEmpty_map (typ : String) (recips : List (Addr × Coins)) (d : Denom) :
    usedNonEmpty d (recips.map (fun rc => (typ, rc.1, rc.2))) = distNonEmpty d recips := by
  induction recips with
  | nil => rfl
  | cons hd tl ih => obtain ⟨k, cs⟩ := hd; simp [usedNonEmpty, distNonEmpty, ih]

/-- `consumeMsgFees`: the meter grows by exactly what routing the message incurs. -/
theorem consumeMsgFees_acct {cfg : Cfg} {tx : Tx} {m m' : Meter} {msg : RMsg} {is : List Incurred}
    (hA : Acct m.used is) (h : consumeMsgFees cfg tx m msg = .ok m') :
    m'.base = m.base ∧ Acct m'.used (is ++ incurredOf cfg msg) := by
  unfold consumeMsgFees at h
  split at h
  · cases h
  · rename_i D hcalc
    have hD := calc_single_acct hcalc
    by_cases hz : D.total.isZero = true
    · simp only [hz, if_true] at h
      cases h
      have hnil : incurredOf cfg msg = [] :=
        incurred_nil_of_total_zero (incurredOf_pos cfg msg) (fun d => by rw [← hD.total d]; exact isZero_iff.mp hz d)
      rw [hnil]
      exact ⟨rfl, by simpa using hA⟩
    · simp only [hz, Bool.false_eq_true, if_false] at h
      split at h
      · cases h
      · cases h
        -- the `""` entry for the module part (absent when there is none)
        have hm1 : ∃ extra : List (String × Addr × Coins),
            (if D.moduleFees ≠ [] then m.consumeFee msg.typ "" D.moduleFees else m).used = m.used ++ extra ∧
            (if D.moduleFees ≠ [] then m.consumeFee msg.typ "" D.moduleFees else m).base = m.base ∧
            (∀ d, Coins.amountOf (sumUsed extra) d = collectorPart d (incurredOf cfg msg)) ∧
            (∀ a d, a ≠ "" → usedKey a d extra = 0) ∧ (∀ d, usedNonEmpty d extra = 0) ∧
            (∀ e ∈ extra, ∀ d, 0 ≤ Coins.amountOf e.2.2 d) := by
          by_cases hmf : D.moduleFees = []
          · refine ⟨[], by simp [hmf], by simp [hmf], ?_, fun _ _ _ => rfl, fun _ => rfl, fun e he => by cases he⟩
            intro d; rw [← hD.modl d, hmf]; rfl
          · refine ⟨[(msg.typ, "", D.moduleFees)], by simp [hmf, Meter.consumeFee], by simp [hmf, Meter.consumeFee], ?_, ?_, ?_, ?_⟩
            · intro d; simp [sumUsed, hD.modl d]
            · intro a d ha; have : ¬ "" = a := fun e => ha e.symm; simp [usedKey, this]
            · intro d; simp [usedNonEmpty]
            · intro e he d; simp at he; subst he; exact hD.mnn d
        obtain ⟨extra, hu, hb, ht, hk, hne, hnn⟩ := hm1
        obtain ⟨f1, f2⟩ := foldl_consumeFee msg.typ D.recips
          (if D.moduleFees ≠ [] then m.consumeFee msg.typ "" D.moduleFees else m)
        refine ⟨by rw [f2, hb], ?_⟩
        rw [f1, hu]
        constructor
        · intro d
          simp only [sumUsed_append, sumUsed_map, hA.total d, ht d, hD.rtot d, totalIncurred_append]
          rw [totalIncurred_split d (incurredOf cfg msg)]; omega
        · intro a d ha
          simp only [usedKey_append, usedKey_map, hA.recip a d ha, hk a d ha, hD.recip a d, owedTo_append, ha, if_false]
          omega
        · intro d
          have h1 := distTotal_split d D.recips
          have h2 := hD.recip "" d
          simp only [if_true] at h2
          simp only [usedNonEmpty_append, usedNonEmpty_map, hA.nonEmpty d, hne d, owedRecipients_append]
          have := hD.rtot d
          omega
        · intro e he d
          simp only [List.mem_append, List.mem_map] at he
          rcases he with (he | he) | ⟨rc, hrc, rfl⟩
          · exact hA.nn e he d
          · exact hnn e he d
          · exact hD.rnn rc hrc d

theorem coinsIncurred_total (fee : Coins) (d : Denom) :
    totalIncurred d (coinsIncurred fee) = Coins.amountOf fee d := by
  induction fee with
  | nil => rfl
  | cons hd tl ih =>
    obtain ⟨d', x⟩ := hd
    simp only [coinsIncurred, List.map_cons, totalIncurred, Coins.amountOf_cons] at ih ⊢
    rw [ih]

theorem coinsIncurred_owedTo (fee : Coins) (a : Addr) (d : Denom) : owedTo a d (coinsIncurred fee) = 0 := by
  induction fee with
  | nil => rfl
  | cons hd tl ih =>
    simp only [coinsIncurred, List.map_cons, owedTo, Incurred.share] at ih ⊢
    simp [ih]

theorem coinsIncurred_owedRecipients (fee : Coins) (d : Denom) : owedRecipients d (coinsIncurred fee) = 0 := by
  induction fee with
  | nil => rfl
  | cons hd tl ih =>
    simp only [coinsIncurred, List.map_cons, owedRecipients, Incurred.share] at ih ⊢
    simp [ih]

/-- handler-level `ConsumeMsgFee`: everything goes under the `""` key. -/
theorem consumeMsgFee_acct {m : Meter} {typ : String} {fee : Coins} {is : List Incurred} {cfg : Cfg}
    (hA : Acct m.used is) (hfee : ∀ d, 0 ≤ Coins.amountOf fee d) :
    (consumeMsgFee m typ fee).base = m.base ∧
    Acct (consumeMsgFee m typ fee).used (is ++ stepIncurred cfg (.consume typ fee)) := by
  unfold consumeMsgFee stepIncurred
  by_cases hz : fee.isZero = true
  · simp only [hz, if_true]; exact ⟨by simp, by simpa using hA⟩
  · simp only [hz, Bool.false_eq_true, if_false, Meter.consumeFee]
    refine ⟨by simp, ?_⟩
    constructor
    · intro d; simp [sumUsed_append, sumUsed, hA.total d, totalIncurred_append, coinsIncurred_total]
    · intro a d ha
      have : ¬ "" = a := fun e => ha e.symm
      simp [usedKey_append, usedKey, this, hA.recip a d ha, owedTo_append, coinsIncurred_owedTo]
    · intro d; simp [usedNonEmpty_append, usedNonEmpty, hA.nonEmpty d, owedRecipients_append, coinsIncurred_owedRecipients]
    · intro e he d
      simp only [List.mem_append, List.mem_singleton] at he
      rcases he with he | rfl
      · exact hA.nn e he d
      · exact hfee d

/-- every handler-level fee of the step list is non-negative -/
def StepsWf : List Step → Prop
  | [] => True
  | .consume _ fee :: rest => (∀ d, 0 ≤ Coins.amountOf fee d) ∧ StepsWf rest
  | _ :: rest => StepsWf rest

/-- Running the messages: the meter accounts for everything incurred by every routed message
(nested ones included) and every handler-level fee; the base fee record is untouched. -/
theorem runSteps_acct {cfg : Cfg} {tx : Tx} : ∀ (steps : List Step) {l l2 : Ledger} {m m2 : Meter} {is : List Incurred},
    StepsWf steps → Acct m.used is → runSteps cfg tx steps (l, m) = .ok (l2, m2) →
    m2.base = m.base ∧ Acct m2.used (is ++ stepsIncurred cfg steps) := by
  intro steps
  induction steps with
  | nil =>
    intro l l2 m m2 is _ hA h
    simp only [runSteps] at h
    cases h
    exact ⟨rfl, by simpa [stepsIncurred] using hA⟩
  | cons s rest ih =>
    intro l l2 m m2 is hwf hA h
    cases s with
    | route msg =>
      simp only [runSteps] at h
      split at h
      · cases h
      · rename_i m' hm
        obtain ⟨hb, hA'⟩ := consumeMsgFees_acct hA hm
        obtain ⟨hb2, hA2⟩ := ih (by simpa [StepsWf] using hwf) hA' h
        exact ⟨by rw [hb2, hb], by simpa [stepsIncurred, stepIncurred, List.append_assoc] using hA2⟩
    | effect f =>
      simp only [runSteps] at h
      split at h
      · cases h
      · rename_i l' hl
        obtain ⟨hb2, hA2⟩ := ih (by simpa [StepsWf] using hwf) hA h
        exact ⟨hb2, by simpa [stepsIncurred, stepIncurred] using hA2⟩
    | consume typ fee =>
      simp only [runSteps] at h
      simp only [StepsWf] at hwf
      obtain ⟨hb, hA'⟩ := consumeMsgFee_acct (cfg := cfg) (typ := typ) hA hwf.1
      obtain ⟨hb2, hA2⟩ := ih hwf.2 hA' h
      exact ⟨by rw [hb2, hb], by simpa [stepsIncurred, List.append_assoc] using hA2⟩

/-- with non-negative entries, a zero total means every key is zero -/
theorem usedKey_zero_of_total_zero {used : List (String × Addr × Coins)}
    (hnn : ∀ e ∈ used, ∀ d, 0 ≤ Coins.amountOf e.2.2 d) (d : Denom)
    (hz : Coins.amountOf (sumUsed used) d = 0) (a : Addr) : usedKey a d used = 0 := by
  induction used with
  | nil => rfl
  | cons hd tl ih =>
    obtain ⟨t, r, cs⟩ := hd
    have h0 := hnn (t, r, cs) (by simp) d
    have htl : ∀ e ∈ tl, ∀ d, 0 ≤ Coins.amountOf e.2.2 d := fun e he => hnn e (by simp [he])
    have hs : ∀ (u : List (String × Addr × Coins)), (∀ e ∈ u, ∀ d, 0 ≤ Coins.amountOf e.2.2 d) →
        0 ≤ Coins.amountOf (sumUsed u) d := by
      intro u
      induction u with
      | nil => intro _; simp [sumUsed]
      | cons h t ih2 =>
        intro hu
        obtain ⟨t', r', cs'⟩ := h
        have e1 := hu (t', r', cs') (by simp) d
        have e2 := ih2 (fun e he => hu e (by simp [he]))
        simp only [sumUsed, Coins.amountOf_append]
        simp only at e1
        omega
    have h1 := hs tl htl
    simp only [sumUsed, Coins.amountOf_append] at hz
    simp only at h0
    have hcs : Coins.amountOf cs d = 0 := by omega
    have htz : Coins.amountOf (sumUsed tl) d = 0 := by omega
    simp only [usedKey, ih htl htz, hcs]
    split_ifs <;> rfl

end PvProofs.TxfeeL
