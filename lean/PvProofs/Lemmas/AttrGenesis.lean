/-
C16 / C18 — helper lemmas for
* the block-time frame (`now` is changed by `beginBlock` only),
* the invariant "no stored expiration is before the block time" (`Fresh`),
* the invariant "every stored attribute passes `ValidateBasic`" (`Valid`),
* `importAttribute` / `InitGenesis`: replaying records with distinct keys into an empty store
  builds an EXACT store (counters = record counts, queue = the stored expirations).
-/
import PvProofs.Lemmas.AttrExact

set_option linter.unusedSimpArgs false
set_option linter.unusedVariables false

namespace PvProofs.Lemmas.AttrGenesis
open PvModel.Attr PvProofs.Lemmas.AttrStore PvProofs.Lemmas.AttrInv PvProofs.Lemmas.AttrSweep
  PvProofs.Lemmas.AttrStep PvProofs.Lemmas.AttrExact PvProofs.Lemmas.AttrCap

/-! ### the block time is changed by `beginBlock` only -/

theorem foldl_now {α} (f : State → α → State) (hf : ∀ s a, (f s a).now = s.now) :
    ∀ (l : List α) (s : State), (l.foldl f s).now = s.now := by
  intro l
  induction l with
  | nil => intro s; rfl
  | cons a t ih => intro s; simp only [List.foldl_cons]; rw [ih, hf]

theorem purgeOne_now (n x : String) (s : State) (k : Key) : (purgeOne n x s k).now = s.now := by
  simp [purgeOne]

theorem purgeAcct_now (n : String) (s : State) (x : String) : (purgeAcct n s x).now = s.now := by
  unfold purgeAcct; exact foldl_now _ (purgeOne_now n x) _ s

theorem expireOne_now (s : State) (q : Nat × Key) : (expireOne s q).now = s.now := by
  unfold expireOne
  cases getAttr s q.2 with
  | none => rfl
  | some a => by_cases h : a.exp = some q.1 <;> simp [h]

theorem reexp_now (s : State) (cur : Attribute) (e : Option Nat) : (reexp s cur e).now = s.now := by
  simp [reexp]

theorem begin_now {s s' : State} {t : Nat} (h : step s (.beginBlock t) = .ok s') : s'.now = t := by
  obtain ⟨l, _, rfl⟩ := begin_fold h
  rw [foldl_now _ expireOne_now]

theorem step_now {s s' : State} {op : Op} (h : step s op = .ok s') (hns : ∀ t, op ≠ .beginBlock t) :
    s'.now = s.now := by
  cases op with
  | add sg a => obtain ⟨_, _, rfl⟩ := add_ok h; simp
  | update sg addr name ov ot nv nt => obtain ⟨_, cur, _, _, _, rfl⟩ := update_ok h; simp
  | updateExp sg addr name v e => obtain ⟨_, cur, _, _, rfl⟩ := updateExp_ok h; exact reexp_now _ _ _
  | delete sg addr name => obtain ⟨_, _, rfl⟩ := delete_ok h; exact foldl_now _ deleteOne_now _ s
  | deleteDistinct sg addr name v => obtain ⟨_, _, rfl⟩ := deleteDistinct_ok h; exact foldl_now _ deleteOne_now _ s
  | bind name owner => obtain ⟨_, rfl⟩ := bind_ok h; rfl
  | transfer au name owner => obtain ⟨_, rfl⟩ := transfer_ok h; rfl
  | deleteName sg name =>
    obtain ⟨_, rfl⟩ := deleteName_ok h
    rw [foldl_now _ (purgeAcct_now name)]; rfl
  | beginBlock t => exact absurd rfl (hns t)

/-! ### what an accepted write was validated against -/

theorem add_valid {s s' : State} {sg : String} {a : Attribute} (h : step s (.add sg a) = .ok s') :
    validateBasic a = true := by
  simp only [step] at h
  split at h; · cases h
  unfold setAttribute at h
  split at h; · cases h
  split at h; · cases h
  rename_i h2
  simpa using h2

theorem update_valid {s s' : State} {sg addr name ov nv : String} {ot nt : AType}
    (h : step s (.update sg addr name ov ot nv nt) = .ok s') :
    validateBasic ⟨addr, name, nv, nt, none⟩ = true := by
  simp only [step] at h
  unfold updateAttribute at h
  split at h; · cases h
  split at h; · cases h
  rename_i h2
  simpa using h2

theorem updateExp_validates {s s' : State} {sg addr name v : String} {e : Option Nat}
    (h : step s (.updateExp sg addr name v e) = .ok s') : ∀ x, e = some x → s.now ≤ x := by
  simp only [step] at h
  unfold updateAttributeExpiration at h
  split at h; · cases h
  rename_i h1
  intro x hx
  subst hx
  simpa [validateExpirationDate] using h1

theorem validate_le {s : State} {a : Attribute} (h : validateExpirationDate s a = true) :
    ∀ x, a.exp = some x → s.now ≤ x := by
  intro x hx
  unfold validateExpirationDate at h
  rw [hx] at h
  simpa using h

/-- The successor's records: stored before, or exactly what the message says
(`appearancesJustified`, unfolded). -/
theorem appears {s s' : State} {op : Op}
    (hj : appearancesJustified s op s' = true) {r' : Attribute} (hr' : r' ∈ s'.recs) :
    r' ∈ s.recs ∨ mayWrite s op r' = true := by
  unfold appearancesJustified at hj
  simp only [List.all_eq_true, Bool.or_eq_true, List.contains_iff_mem] at hj
  exact hj r' hr'

/-! ### `Valid`: every stored attribute passes `Attribute.ValidateBasic` -/

def Valid (s : State) : Prop := ∀ r ∈ s.recs, validateBasic r = true

theorem step_valid {s s' : State} {op : Op} (hv : Valid s) (h : step s op = .ok s')
    (hj : appearancesJustified s op s' = true) : Valid s' := by
  intro r' hr'
  rcases appears hj hr' with h1 | h1
  · exact hv r' h1
  · cases op with
    | add sg a =>
      simp only [mayWrite, Bool.and_eq_true, decide_eq_true_eq] at h1
      rw [h1.2]; exact add_valid h
    | update sg addr name ov ot nv nt =>
      simp only [mayWrite, Bool.and_eq_true, decide_eq_true_eq] at h1
      rw [h1.2]; exact update_valid h
    | updateExp sg addr name v e =>
      simp only [mayWrite, Bool.and_eq_true, decide_eq_true_eq, List.any_eq_true] at h1
      obtain ⟨_, r, hr, hk, hty⟩ := h1
      have hvr := hv r hr
      obtain ⟨e1, e2, e3⟩ := (key_eq_iff r r').mp hk
      unfold validateBasic at hvr ⊢
      rw [← e1, ← e2, ← e3, ← hty]
      exact hvr
    | delete _ _ _ => simp [mayWrite] at h1
    | deleteDistinct _ _ _ _ => simp [mayWrite] at h1
    | bind _ _ => simp [mayWrite] at h1
    | transfer _ _ _ => simp [mayWrite] at h1
    | deleteName _ _ => simp [mayWrite] at h1
    | beginBlock _ => simp [mayWrite] at h1

/-! ### `Fresh`: no stored expiration is before the block time -/

def Fresh (s : State) : Prop := ∀ r ∈ s.recs, ∀ e, r.exp = some e → s.now ≤ e

theorem fresh_iff (s : State) : expiredGone s.now s = true ↔ Fresh s := by
  unfold expiredGone Fresh
  simp only [List.all_eq_true]
  constructor
  · intro h r hr e he
    have := h r hr
    rw [he] at this
    simpa using this
  · intro h r hr
    cases he : r.exp with
    | none => rfl
    | some e => simpa using h r hr e he

/-- Messages keep `Fresh` (the expiration of every write is validated against the block time,
and the block time does not move). -/
theorem step_fresh {s s' : State} {op : Op} (hf : Fresh s) (h : step s op = .ok s')
    (hj : appearancesJustified s op s' = true) (hns : ∀ t, op ≠ .beginBlock t) : Fresh s' := by
  intro r' hr' x hx
  rw [step_now h hns]
  rcases appears hj hr' with h1 | h1
  · exact hf r' h1 x hx
  · cases op with
    | add sg a =>
      simp only [mayWrite, Bool.and_eq_true, decide_eq_true_eq] at h1
      rw [h1.2] at hx
      exact validate_le (add_ok h).1 x hx
    | update sg addr name ov ot nv nt =>
      simp only [mayWrite, Bool.and_eq_true, decide_eq_true_eq] at h1
      rw [h1.2] at hx
      cases hx
    | updateExp sg addr name v e =>
      simp only [mayWrite, Bool.and_eq_true, decide_eq_true_eq, List.any_eq_true] at h1
      obtain ⟨⟨⟨_, _⟩, hexp⟩, _⟩ := h1
      exact updateExp_validates h x (by rw [← hexp, hx])
    | delete _ _ _ => simp [mayWrite] at h1
    | deleteDistinct _ _ _ _ => simp [mayWrite] at h1
    | bind _ _ => simp [mayWrite] at h1
    | transfer _ _ _ => simp [mayWrite] at h1
    | deleteName _ _ => simp [mayWrite] at h1
    | beginBlock t => exact absurd rfl (hns t)

/-! ### an EXACT store: distinct keys, counters = record counts, queue = stored expirations -/

/-- The expiration queue holds exactly the stored expirations of the stored attributes. -/
def QExact (s : State) : Prop :=
  ∀ q : Nat × Key, q ∈ s.queue ↔ ∃ r ∈ s.recs, r.key = q.2 ∧ r.exp = some q.1

structure Exact (s : State) : Prop where
  keys : KeysUnique s.recs
  cnt : CntEq s
  queue : QExact s

theorem put_recs_fresh {s : State} {a : Attribute} (hf : ∀ r ∈ s.recs, r.key ≠ a.key) :
    (put s a).recs = a :: s.recs := by
  rw [put_recs, filter_key_ne_self hf]

theorem put_queue (s : State) (a : Attribute) (q : Nat × Key) :
    q ∈ (put s a).queue ↔ (q ∈ s.queue ∨ ∃ e, a.exp = some e ∧ q = (e, a.key)) := by
  unfold put
  rw [mem_addExp]
  simp only [inc_queue, setRec_queue]

theorem put_exact {s : State} {a : Attribute} (hf : ∀ r ∈ s.recs, r.key ≠ a.key) (h : Exact s) :
    Exact (put s a) := by
  refine ⟨?_, put_cntEq hf h.cnt, ?_⟩
  · rw [put_recs]; exact h.keys.set a
  · intro q
    have hq := h.queue q
    rw [put_queue, put_recs_fresh hf]
    constructor
    · rintro (h1 | ⟨e, he, rfl⟩)
      · obtain ⟨r, hr, hk, hx⟩ := hq.mp h1
        exact ⟨r, List.mem_cons_of_mem _ hr, hk, hx⟩
      · exact ⟨a, List.mem_cons_self, rfl, he⟩
    · rintro ⟨r, hr, hk, hx⟩
      rcases List.mem_cons.mp hr with e1 | hr'
      · right
        subst e1
        exact ⟨q.1, hx, Prod.ext rfl hk.symm⟩
      · left; exact hq.mpr ⟨r, hr', hk, hx⟩

theorem importAttribute_eq (s : State) (a : Attribute) :
    importAttribute s a = if validateExpirationDate s a = true then put s a else s := by
  unfold importAttribute put
  cases validateExpirationDate s a <;> simp

theorem importAttribute_frame (s : State) (a : Attribute) :
    (importAttribute s a).now = s.now ∧ (importAttribute s a).names = s.names ∧
      (importAttribute s a).accts = s.accts := by
  rw [importAttribute_eq]
  split <;> simp

theorem validate_congr {s t : State} (h : s.now = t.now) (a : Attribute) :
    validateExpirationDate s a = validateExpirationDate t a := by
  unfold validateExpirationDate; rw [h]

theorem validate_iff_not_expired (s : State) (a : Attribute) :
    validateExpirationDate s a = true ↔ isExpired s.now a = false := by
  unfold validateExpirationDate isExpired
  cases a.exp with
  | none => simp
  | some e => simp [Nat.not_lt]

/-- Replaying `importAttribute` over records with pairwise distinct keys, none of them stored yet,
keeps the store exact and stores exactly the records that are not expired at the block time. -/
theorem importAll_exact : ∀ (l : List Attribute) (s : State), KeysUnique l →
    (∀ r ∈ s.recs, ∀ a ∈ l, r.key ≠ a.key) → Exact s →
    Exact (l.foldl importAttribute s) ∧
      (∀ r, r ∈ (l.foldl importAttribute s).recs ↔ (r ∈ s.recs ∨ (r ∈ l ∧ isExpired s.now r = false))) ∧
      (l.foldl importAttribute s).now = s.now ∧ (l.foldl importAttribute s).names = s.names ∧
      (l.foldl importAttribute s).accts = s.accts := by
  intro l
  induction l with
  | nil => intro s _ _ h; exact ⟨h, by simp, rfl, rfl, rfl⟩
  | cons a t ih =>
    intro s hk hd h
    simp only [List.foldl_cons]
    unfold KeysUnique at hk
    rw [List.pairwise_cons] at hk
    obtain ⟨f1, f2, f3⟩ := importAttribute_frame s a
    by_cases hv : validateExpirationDate s a = true
    · have he : importAttribute s a = put s a := by rw [importAttribute_eq]; simp [hv]
      have hf : ∀ r ∈ s.recs, r.key ≠ a.key := fun r hr => hd r hr a List.mem_cons_self
      have hd' : ∀ r ∈ (importAttribute s a).recs, ∀ b ∈ t, r.key ≠ b.key := by
        intro r hr b hb
        rw [he, put_recs_fresh hf] at hr
        rcases List.mem_cons.mp hr with e1 | hr'
        · rw [e1]; exact hk.1 b hb
        · exact hd r hr' b (List.mem_cons_of_mem _ hb)
      obtain ⟨g1, g2, g3, g4, g5⟩ := ih (importAttribute s a) hk.2 hd' (by rw [he]; exact put_exact hf h)
      refine ⟨g1, ?_, by rw [g3, f1], by rw [g4, f2], by rw [g5, f3]⟩
      intro r
      rw [g2 r, f1, he, put_recs_fresh hf]
      have hxa : isExpired s.now a = false := (validate_iff_not_expired s a).mp hv
      simp only [List.mem_cons]
      constructor
      · rintro ((e1 | h1) | ⟨h1, h2⟩)
        · right; exact ⟨Or.inl e1, by rw [e1]; exact hxa⟩
        · left; exact h1
        · right; exact ⟨Or.inr h1, h2⟩
      · rintro (h1 | ⟨e1 | h1, h2⟩)
        · left; right; exact h1
        · left; left; exact e1
        · right; exact ⟨h1, h2⟩
    · have he : importAttribute s a = s := by rw [importAttribute_eq]; simp [hv]
      rw [he]
      obtain ⟨g1, g2, g3, g4, g5⟩ := ih s hk.2 (fun r hr b hb => hd r hr b (List.mem_cons_of_mem _ hb)) h
      refine ⟨g1, ?_, g3, g4, g5⟩
      intro r
      rw [g2 r]
      have hxa : ¬ isExpired s.now a = false := fun hx => hv ((validate_iff_not_expired s a).mpr hx)
      simp only [List.mem_cons]
      constructor
      · rintro (h1 | ⟨h1, h2⟩)
        · left; exact h1
        · right; exact ⟨Or.inr h1, h2⟩
      · rintro (h1 | ⟨e1 | h1, h2⟩)
        · left; exact h1
        · rw [e1] at h2; exact absurd h2 hxa
        · right; exact ⟨h1, h2⟩

theorem empty_exact (now : Nat) (accts : List String) (names : List (String × String)) :
    Exact { now := now, accts := accts, names := names } := by
  refine ⟨List.Pairwise.nil, ?_, ?_⟩
  · intro n a; rfl
  · intro q; simp

/-- An exact store under bound names satisfies the four store invariants. -/
theorem exact_inv {s : State} (h : Exact s) (hb : Bound s) : Inv s := by
  refine ⟨h.keys, ?_, hb, ?_⟩
  · intro n a; rw [h.cnt n a]; exact Nat.le_refl _
  · intro r hr e he
    exact (h.queue (e, r.key)).mpr ⟨r, hr, rfl, he⟩

theorem noStale_of_exact {s : State} (h : Exact s) : noStale s = true := by
  unfold noStale
  simp only [List.all_eq_true, List.any_eq_true, Bool.and_eq_true, decide_eq_true_eq]
  intro q hq
  exact (h.queue q).mp hq

end PvProofs.Lemmas.AttrGenesis
