/-
C02 helper lemmas: what `CloseMarket` does, exactly.
-/
import PvProofs.Lemmas.ExholdGenesis

namespace PvProofs.Exhold
open PvModel PvModel.Exhold

/-- the parts of the state a hold-only step leaves alone -/
structure SameButHold (s s' : State) : Prop where
  markets : s'.markets = s.markets
  lastOrderId : s'.lastOrderId = s.lastOrderId
  payments : s'.payments = s.payments
  bank : s'.bank = s.bank

theorem cancelOrder_records {s s' : State} {id : Nat} {signer : Addr} (h : cancelOrder s id signer = .ok s') :
    s'.orders = deleteOrder s.orders id ∧ s'.commitments = s.commitments ∧ SameButHold s s' := by
  unfold cancelOrder at h
  split at h
  · simp at h
  · split at h
    · simp at h
    · split at h
      · simp at h
      · rename_i s1 hs1
        injection h with h
        obtain ⟨h', e1, _, _⟩ := releaseHoldTx_eq hs1
        subst e1; subst h
        exact ⟨rfl, rfl, ⟨rfl, rfl, rfl, rfl⟩⟩

theorem cancelOrderNoTx_eq {s : State} (hi : Inv s) {id : Nat} {o : Order} (hg : getOrder s.orders id = some o) :
    cancelOrder s id o.owner = .ok (cancelOrderNoTx s id) := by
  have hok : (releaseHold s o.owner (holdAmt o)).2 = true :=
    releaseHold_never_fails s o.owner (holdAmt o)
      (holdAmt_entriesNonneg (hi.wf.orders o (getOrder_mem hg)))
      (fun e => by
        rw [hi.holdsMatch o.owner e]
        have h1 := contrib_le_ordersObl hi.wf.orders hg o.owner e
        have h2 := commitsObl_nonneg hi.wf.commits o.owner e
        have h3 := paysObl_nonneg hi.wf.paysNonneg o.owner e
        simp only [contrib, ↓reduceIte] at h1
        simp only [obligations]; omega)
  unfold cancelOrder cancelOrderNoTx releaseHoldTx
  simp [hg, hok]

theorem foldl_cancel_spec {s : State} (hi : Inv s) (os : List Order) (hn : (os.map (·.id)).Nodup)
    (hf : ∀ o ∈ os, getOrder s.orders o.id = some o) :
    Inv ((os.map (·.id)).foldl cancelOrderNoTx s) ∧
    ((os.map (·.id)).foldl cancelOrderNoTx s).orders = deleteAll s.orders (os.map (·.id)) ∧
    ((os.map (·.id)).foldl cancelOrderNoTx s).commitments = s.commitments ∧
    (∀ a d, hold ((os.map (·.id)).foldl cancelOrderNoTx s) a d = hold s a d - ordersObl os a d) := by
  induction os generalizing s with
  | nil => exact ⟨hi, rfl, rfl, fun a d => by simp⟩
  | cons o t ih =>
    simp only [List.map_cons, List.nodup_cons, List.mem_map, not_exists, not_and] at hn
    simp only [List.map_cons, List.foldl_cons]
    have hg := hf o (by simp)
    have heq := cancelOrderNoTx_eq hi hg
    obtain ⟨w, hw, hi1, hh1⟩ := cancelOrder_inv hi heq
    have hwo : w = o := by rw [hg] at hw; injection hw with hw; exact hw.symm
    subst hwo
    obtain ⟨ho1, hc1, _⟩ := cancelOrder_records heq
    obtain ⟨hi2, ho2, hc2, hh2⟩ := ih hi1 hn.2 (by
      intro o' ho'
      rw [ho1, getOrder_deleteOrder_ne]
      · exact hf o' (by simp [ho'])
      · intro heq'; exact hn.1 o' ho' heq')
    refine ⟨hi2, ?_, by rw [hc2, hc1], fun a d => ?_⟩
    · rw [ho2, ho1]; rfl
    · rw [hh2, hh1, ordersObl_cons]
      omega

theorem releaseCommitment_all_records {s s' : State} {m : Nat} {a : Addr} (h : releaseCommitment s m a [] = .ok s') :
    s'.orders = s.orders ∧ s'.commitments = deleteCommitment s.commitments m a := by
  unfold releaseCommitment at h
  simp only [anyNegative, List.any_nil, Bool.false_eq_true, ↓reduceIte] at h
  split at h
  · simp at h
  · simp only [allZero, List.all_nil, Bool.not_true, Bool.false_eq_true, ↓reduceIte] at h
    split at h
    · simp at h
    · rename_i s1 hs1
      injection h with h
      obtain ⟨h', e1, _, _⟩ := releaseHoldTx_eq hs1
      subst e1; subst h
      exact ⟨rfl, by simp [setCommitment, allZero]⟩

theorem releaseCommitmentNoTx_eq {s : State} (hi : Inv s) (m : Nat) (a : Addr)
    (hnz : allZero (getCommitment s.commitments m a) = false) :
    releaseCommitment s m a [] = .ok (releaseCommitmentNoTx s m a) := by
  have hok : (releaseHold s a (getCommitment s.commitments m a)).2 = true :=
    releaseHold_never_fails s a _ (getCommitment_nonneg hi.wf.commits m a)
      (fun e => by
        rw [hi.holdsMatch a e]
        have h1 := commit_le_commitsObl hi.wf.commits m a e
        have h2 := ordersObl_nonneg hi.wf.orders a e
        have h3 := paysObl_nonneg hi.wf.paysNonneg a e
        simp only [obligations]; omega)
  unfold releaseCommitment releaseCommitmentNoTx releaseHoldTx
  simp only [anyNegative, List.any_nil, Bool.false_eq_true, ↓reduceIte, hnz, hok]
  simp [allZero]

/-- releasing, one by one, a list of commitments of market `m` with distinct accounts -/
theorem foldl_release_spec {s : State} (hi : Inv s) (m : Nat) (cs : List Commitment)
    (hn : (cs.map (·.account)).Nodup) (hf : ∀ c ∈ cs, getCommitment s.commitments m c.account = c.amount) :
    let s' := (cs.map (·.account)).foldl (fun st a => releaseCommitmentNoTx st m a) s
    Inv s' ∧ s'.orders = s.orders ∧ s'.commitments.Sublist s.commitments ∧
    (∀ c ∈ cs, allZero c.amount = false → (m, c.account) ∉ s'.commitments.map commitKey) ∧
    (∀ m' a', m' ≠ m → getCommitment s'.commitments m' a' = getCommitment s.commitments m' a') ∧
    (∀ a d, hold s' a d = hold s a d - commitsObl cs a d) := by
  induction cs generalizing s with
  | nil =>
    exact ⟨hi, rfl, List.Sublist.refl _, fun c hc => by simp at hc, fun _ _ _ => rfl, fun a d => by simp⟩
  | cons c t ih =>
    simp only [List.map_cons, List.nodup_cons, List.mem_map, not_exists, not_and] at hn
    simp only [List.map_cons, List.foldl_cons]
    have hc := hf c (by simp)
    by_cases hz : allZero (getCommitment s.commitments m c.account) = true
    · -- nothing committed: the call is a no-op
      have hs1 : releaseCommitmentNoTx s m c.account = s := by
        unfold releaseCommitmentNoTx; simp [hz]
      rw [hs1]
      obtain ⟨h1, h2, h3, h4, h5, h6⟩ := ih hi hn.2 (fun c' hc' => hf c' (by simp [hc']))
      refine ⟨h1, h2, h3, ?_, h5, fun a d => ?_⟩
      · intro c' hc' hnz
        rcases List.mem_cons.mp hc' with rfl | hc''
        · rw [← hc] at hnz; simp [hz] at hnz
        · exact h4 c' hc'' hnz
      · rw [h6, commitsObl_cons, ← hc, allZero_amountOf hz]; simp
    · have hnz : allZero (getCommitment s.commitments m c.account) = false := by simpa using hz
      have heq := releaseCommitmentNoTx_eq hi m c.account hnz
      obtain ⟨hi1, hh1⟩ := releaseCommitment_inv hi heq
      obtain ⟨ho1, hc1⟩ := releaseCommitment_all_records heq
      obtain ⟨h1, h2, h3, h4, h5, h6⟩ := ih hi1 hn.2 (by
        intro c' hc'
        rw [hc1, getCommitment_deleteCommitment_ne]
        · exact hf c' (by simp [hc'])
        · intro heq'
          simp only [Prod.mk.injEq] at heq'
          exact hn.1 c' hc' heq'.2)
      refine ⟨h1, by rw [h2, ho1], ?_, ?_, ?_, fun a d => ?_⟩
      · exact h3.trans (by rw [hc1]; exact deleteCommitment_sublist _ _ _)
      · intro c' hc' hnz'
        rcases List.mem_cons.mp hc' with rfl | hc''
        · intro hm
          have hsub := (h3.map commitKey).subset hm
          rw [hc1] at hsub
          exact not_mem_deleteCommitment hi.wf.ckeys m c'.account hsub
        · exact h4 c' hc'' hnz'
      · intro m' a' hne
        rw [h5 m' a' hne, hc1, getCommitment_deleteCommitment_ne]
        intro heq'
        simp only [Prod.mk.injEq] at heq'
        exact hne heq'.1
      · rw [h6, hh1, commitsObl_cons]
        simp only [releasedAmount, allZero, List.all_nil, ↓reduceIte, hc]
        omega

end PvProofs.Exhold

namespace PvProofs.Exhold
open PvModel PvModel.Exhold

/-! ### commitment settlement touches neither orders nor payments -/

/-- same orders and payments -/
def SameOP (s s' : State) : Prop := s'.orders = s.orders ∧ s'.payments = s.payments

theorem SameOP.refl (s : State) : SameOP s s := ⟨rfl, rfl⟩
theorem SameOP.trans {a b c : State} (h1 : SameOP a b) (h2 : SameOP b c) : SameOP a c :=
  ⟨h2.1.trans h1.1, h2.2.trans h1.2⟩

theorem releaseCommitment_sameOP {s s' : State} {m : Nat} {a : Addr} {amount : Coins}
    (h : releaseCommitment s m a amount = .ok s') : SameOP s s' := by
  unfold releaseCommitment at h
  split at h
  · simp at h
  · simp only at h
    split at h
    · simp at h
    · split at h
      · split at h
        · simp at h
        · split at h
          · simp at h
          · rename_i s1 hs1
            injection h with h
            obtain ⟨h', e1, _, _⟩ := releaseHoldTx_eq hs1
            subst e1; subst h
            exact ⟨rfl, rfl⟩
      · split at h
        · simp at h
        · rename_i s1 hs1
          injection h with h
          obtain ⟨h', e1, _, _⟩ := releaseHoldTx_eq hs1
          subst e1; subst h
          exact ⟨rfl, rfl⟩

theorem releaseCommitments_sameOP {s s' : State} {m : Nat} {es : List (Addr × Coins)}
    (h : releaseCommitments s m es = .ok s') : SameOP s s' := by
  induction es generalizing s with
  | nil => simp only [releaseCommitments] at h; injection h with h; subst h; exact SameOP.refl _
  | cons x t ih =>
    obtain ⟨a, amt⟩ := x
    simp only [releaseCommitments] at h
    split at h
    · simp at h
    · rename_i s1 hs1
      exact (releaseCommitment_sameOP hs1).trans (ih h)

theorem debitAll_sameOP {s s' : State} {es : List (Addr × Coins)} (h : debitAll s es = some s') : SameOP s s' := by
  induction es generalizing s with
  | nil => simp only [debitAll] at h; injection h with h; subst h; exact SameOP.refl _
  | cons x t ih =>
    obtain ⟨a, cs⟩ := x
    simp only [debitAll] at h
    split at h
    · exact (show SameOP s { s with bank := Ledger.debit s.bank a cs } from ⟨rfl, rfl⟩).trans (ih h)
    · simp at h

theorem creditAll_sameOP (s : State) (es : List (Addr × Coins)) : SameOP s (creditAll s es) := by
  induction es generalizing s with
  | nil => exact SameOP.refl _
  | cons x t ih =>
    obtain ⟨a, cs⟩ := x
    simp only [creditAll]
    exact (show SameOP s { s with bank := Ledger.credit s.bank a cs } from ⟨rfl, rfl⟩).trans (ih _)

theorem sendAllTo_sameOP {s s' : State} {dst : Addr} {es : List (Addr × Coins)} (h : sendAllTo s dst es = some s') :
    SameOP s s' := by
  induction es generalizing s with
  | nil => simp only [sendAllTo] at h; injection h with h; subst h; exact SameOP.refl _
  | cons x t ih =>
    obtain ⟨a, cs⟩ := x
    simp only [sendAllTo] at h
    split at h
    · simp at h
    · rename_i s1 hs1
      obtain ⟨k', e1, _⟩ := sendCoins_eq hs1
      exact (show SameOP s s1 by rw [e1]; exact ⟨rfl, rfl⟩).trans (ih h)

theorem addCommitmentCore_sameOP {s s' : State} {m : Nat} {a : Addr} {amount : Coins}
    (h : addCommitmentCore s m a amount = .ok s') : SameOP s s' := by
  unfold addCommitmentCore at h
  split at h
  · injection h with h; subst h; exact SameOP.refl _
  · split at h
    · simp at h
    · split at h
      · simp at h
      · rename_i s1 hs1
        injection h with h
        obtain ⟨h', e1, _⟩ := addHold_eq hs1
        subst e1; subst h
        exact ⟨rfl, rfl⟩

theorem commitAll_sameOP {s s' : State} {m : Nat} {es : List (Addr × Coins)} (h : commitAll s m es = .ok s') :
    SameOP s s' := by
  induction es generalizing s with
  | nil => simp only [commitAll] at h; injection h with h; subst h; exact SameOP.refl _
  | cons x t ih =>
    obtain ⟨a, cs⟩ := x
    simp only [commitAll] at h
    split at h
    · simp at h
    · rename_i s1 hs1
      exact (addCommitmentCore_sameOP hs1).trans (ih h)

theorem settleCommitments_sameOP {s s' : State} {admin : Addr} {m : Nat} {ins outs fees : List (Addr × Coins)}
    (h : settleCommitments s admin m ins outs fees = .ok s') : SameOP s s' := by
  unfold settleCommitments at h
  split at h
  · simp at h
  · split at h
    · simp at h
    · simp only at h
      split at h
      · simp at h
      · rename_i s1 hs1
        split at h
        · simp at h
        · rename_i s2 hs2
          split at h
          · simp at h
          · rename_i s3 hs3
            exact (releaseCommitments_sameOP hs1).trans ((debitAll_sameOP hs2).trans
              ((creditAll_sameOP s2 _).trans ((sendAllTo_sameOP hs3).trans (commitAll_sameOP h))))

theorem accounts_nodup_of_keys {cs : List Commitment} {m : Nat} (hk : (cs.map commitKey).Nodup)
    (hm : ∀ c ∈ cs, c.market = m) : (cs.map (·.account)).Nodup := by
  induction cs with
  | nil => simp
  | cons c t ih =>
    simp only [List.map_cons, List.nodup_cons, List.mem_map, not_exists, not_and] at hk ⊢
    refine ⟨fun c' hc' heq => hk.1 c' hc' ?_, ih hk.2 (fun c' hc' => hm c' (by simp [hc']))⟩
    simp only [commitKey, Prod.mk.injEq]
    exact ⟨by rw [hm c' (by simp [hc']), hm c (by simp)], heq⟩


end PvProofs.Exhold
