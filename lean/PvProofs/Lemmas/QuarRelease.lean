/-
Helper lemmas for C07: lookup through the suffix index is complete, and the coins an accept
releases are exactly the coins of the records it completes.
-/
import PvProofs.Lemmas.QuarStep

namespace PvProofs.QuarL
open PvModel PvModel.Quar

theorem mem_rawSuffixes {idx : Index} {to f : Addr} {x : Suffix} :
    ∀ froms : List Addr, f ∈ froms → (x ∈ getIdx idx to f ∨ x = [f]) → x ∈ rawSuffixes idx to froms := by
  intro froms
  induction froms with
  | nil => intro h; simp at h
  | cons g rest ih =>
    intro hf hx
    unfold rawSuffixes
    rcases List.mem_cons.mp hf with rfl | hf
    · rcases hx with hx | rfl
      · exact List.mem_append_left _ hx
      · exact List.mem_append_right _ (List.mem_cons_self ..)
    · exact List.mem_append_right _ (List.mem_cons_of_mem _ (ih hf hx))

/-- the suffix of every record with a sender among `froms` is among the looked-up suffixes -/
theorem mem_suffixes {s : State} (inv : StoreInv s) {to : Addr} {k : Suffix} {r : Record}
    (hmem : ((to, k), r) ∈ s.recs) {f : Addr} (hf : f ∈ r.getAllFromAddrs) {froms : List Addr} (hff : f ∈ froms) :
    k ∈ getQuarantineRecordSuffixes s.index to froms := by
  unfold getQuarantineRecordSuffixes
  rw [mem_simplify]
  refine ⟨mem_rawSuffixes froms hff ?_, by simp⟩
  by_cases hlen : 1 < r.getAllFromAddrs.length
  · exact Or.inl (inv.idx _ hmem hlen f hf)
  · right
    have hk : k = createRecordSuffix r.getAllFromAddrs := inv.key _ hmem
    cases hl : r.getAllFromAddrs with
    | nil => rw [hl] at hf; simp at hf
    | cons a t =>
      rw [hl] at hf hlen
      cases t with
      | nil =>
        simp only [List.mem_singleton] at hf
        subst hf
        rw [hk, hl]
        exact createRecordSuffix_singleton f
      | cons b t' => simp at hlen

theorem releases_eq_completes {r : Record} (froms : List Addr) (h : r.isFullyAccepted = false) :
    releases froms r = completes froms r := by
  unfold releases completes
  have hne : r.unacc ≠ [] := by
    intro e; simp [Record.isFullyAccepted, e] at h
  cases hc : r.unacc.all (fun a => froms.contains a)
  · -- some sender is not named: the "left over" list is not empty
    have : (r.unacc.filter fun a => !froms.contains a).isEmpty = false := by
      rw [Bool.eq_false_iff]
      intro he
      have hnil := List.isEmpty_iff.mp he
      have hall : r.unacc.all (fun a => froms.contains a) = true := by
        rw [List.all_eq_true]
        intro a ha
        have := List.filter_eq_nil_iff.mp hnil a ha
        simpa using this
      rw [hall] at hc; cases hc
    rw [this]; exact Bool.and_false _
  · have hall := List.all_eq_true.mp hc
    have h1 : r.unacc.filter (fun a => !froms.contains a) = [] := by
      rw [List.filter_eq_nil_iff]
      intro a ha
      have := hall a ha
      simp only [List.contains_eq_mem, decide_eq_true_eq] at this
      simp [this]
    have h2 : r.unacc.filter (fun a => froms.contains a) = r.unacc := by
      rw [List.filter_eq_self]
      intro a ha
      exact hall a ha
    rw [h1, h2]
    cases hu : r.unacc with
    | nil => exact absurd hu hne
    | cons a t => rfl

/-- `expReleased` as a sum over the store -/
theorem expReleased_eq_sumStore (recs : List ((Addr × Suffix) × Record)) (to : Addr) (froms : List Addr) (d : Denom) :
    expReleased recs to froms d =
      sumStore (fun k r => if k.1 = to ∧ completes froms r = true then Coins.amountOf r.coins d else 0) recs := by
  induction recs with
  | nil => rfl
  | cons e t ih =>
    obtain ⟨k, r⟩ := e
    simp only [expReleased, sumStore, ih]

/-- the coins released over the snapshot = the coins of the completed records of the store -/
theorem relSum_eq_expReleased {s : State} (inv : StoreInv s) (to : Addr) (froms : List Addr) (d : Denom) :
    relSum froms (getQuarantineRecords s to froms) d = expReleased s.recs to froms d := by
  rw [expReleased_eq_sumStore]
  have hnd : (getQuarantineRecordSuffixes s.index to froms).Nodup := nodup_simplify _ _
  rw [sumStore_eq_sumKeys _ s.recs ((getQuarantineRecordSuffixes s.index to froms).map fun x => (to, x)) inv.nodup]
  · -- the sum over the looked-up keys is the loop's sum over the snapshot
    unfold getQuarantineRecords
    generalize getQuarantineRecordSuffixes s.index to froms = sfxs
    induction sfxs with
    | nil => rfl
    | cons x t ih =>
      simp only [List.map_cons, sumKeys, List.filterMap_cons]
      cases hg : kvGet s.recs (to, x) with
      | none => simp only [ih]; omega
      | some r =>
        have hnfa : r.isFullyAccepted = false := inv.nfa _ (mem_of_kvGet hg)
        simp only [relSum, ih, releases_eq_completes froms hnfa, true_and]
  · -- the key list has no duplicates
    exact List.Pairwise.map (fun x => (to, x)) (fun a b hab h => hab (Prod.mk.inj h).2) hnd
  · -- it covers every completed record of `to`
    intro e he hne
    obtain ⟨⟨t, k⟩, r⟩ := e
    simp only at hne
    by_cases hc : t = to ∧ completes froms r = true
    · obtain ⟨rfl, hc⟩ := hc
      have hnfa : r.isFullyAccepted = false := inv.nfa _ he
      -- an unaccepted sender exists and is named
      cases hu : r.unacc with
      | nil => simp [Record.isFullyAccepted, hu] at hnfa
      | cons a rest =>
        have ha : a ∈ r.unacc := by rw [hu]; exact List.mem_cons_self ..
        have hfrom : a ∈ froms := by
          have := List.all_eq_true.mp hc a ha
          simpa using this
        have hk := mem_suffixes inv he (show a ∈ r.getAllFromAddrs from List.mem_append_left _ ha) hfrom
        exact List.mem_map.mpr ⟨k, hk, rfl⟩
    · simp [hc] at hne

/-! ### an accept never fails while the holder covers the records -/

theorem sumRecs_nonneg {l : List ((Addr × Suffix) × Record)} {d : Denom}
    (hn : ∀ x ∈ l, 0 ≤ Coins.amountOf x.2.coins d) : 0 ≤ sumRecs l d := by
  induction l with
  | nil => simp [sumRecs]
  | cons h t ih =>
    obtain ⟨k, r⟩ := h
    have h1 := hn (k, r) (List.mem_cons_self ..)
    have h2 := ih (fun x hx => hn x (List.mem_cons_of_mem _ hx))
    simp only at h1
    simp only [sumRecs]; omega

theorem le_sumRecs_of_mem {l : List ((Addr × Suffix) × Record)} {e : (Addr × Suffix) × Record} {d : Denom}
    (he : e ∈ l) (hn : ∀ x ∈ l, 0 ≤ Coins.amountOf x.2.coins d) : Coins.amountOf e.2.coins d ≤ sumRecs l d := by
  induction l with
  | nil => simp at he
  | cons h t ih =>
    obtain ⟨k, r⟩ := h
    have hpos : ∀ x ∈ t, 0 ≤ Coins.amountOf x.2.coins d := fun x hx => hn x (List.mem_cons_of_mem _ hx)
    have hsum := sumRecs_nonneg hpos
    have h1 := hn (k, r) (List.mem_cons_self ..)
    simp only at h1
    simp only [sumRecs]
    rcases List.mem_cons.mp he with rfl | he
    · simp only; omega
    · have := ih he hpos
      omega

theorem bankTransfers_bypass_succeeds {s : State} {f t : Addr} {c : Coins}
    (hfunds : ∀ d ∈ Coins.denoms c, Coins.amountOf c d ≤ Ledger.bal s.bank f d)
    (hm : markerAllows s f c = true) :
    bankTransfers s true [⟨f, t, c⟩] = .ok { s with bank := Ledger.move s.bank f t c } := by
  have hsub : subUnlockedCoins s.bank f c = .ok (Ledger.debit s.bank f c) := by
    unfold subUnlockedCoins
    rw [if_pos]
    rw [List.all_eq_true]
    intro d hd
    simpa using hfunds d hd
  have hm' : markerAllows { s with bank := Ledger.debit s.bank f c } f c = true := hm
  simp [bankTransfers, debitAll, hsub, applyRestrictions, restrictionChain, hm', sendRestrictionFn, creditAll,
    addCoins, Ledger.move]

theorem markerAllows_holder (s : State) (c : Coins) : markerAllows s s.holder c = true := by
  unfold markerAllows
  rw [List.all_eq_true]
  intro d _
  simp

theorem acceptLoop_succeeds (to : Addr) (froms : List Addr) :
    ∀ (rs : List Record) (s : State) (rel : Coins), StoreInv s → Snapshot s to rs → HolderCovers s →
      ∃ s' rel', acceptLoop s to froms rs rel = .ok (s', rel') := by
  intro rs
  induction rs with
  | nil => intro s rel _ _ _; exact ⟨s, rel, rfl⟩
  | cons r rest ih =>
    intro s rel inv snap hcov
    have hstored := snap.stored r (List.mem_cons_self ..)
    have hmem := mem_of_kvGet hstored
    have hnn : ∀ d, 0 ≤ Coins.amountOf r.coins d := inv.nonneg _ hmem
    unfold acceptLoop
    cases haf : r.acceptFrom froms with
    | none => exact ih s rel inv snap.tail hcov
    | some r1 =>
      simp only
      obtain ⟨hk1, hc1, hu1, hnow, _⟩ := acceptFrom_some haf
      cases hfa : r1.isFullyAccepted
      · simp only [Bool.false_eq_true, if_false]
        generalize hr2 : ({ r1 with declined := isAutoDecline s to r1.unacc } : Record) = r2
        have hk2 : keyOf r2 = keyOf r := by rw [← hr2]; exact hk1
        have hc2 : r2.coins = r.coins := by rw [← hr2]; exact hc1
        have hfa2 : r2.isFullyAccepted = false := by rw [← hr2]; exact hfa
        apply ih _ rel (inv_setQR inv to r2 (by rw [hc2]; exact hnn)) (snap.after_set hk2 rfl)
        intro d
        rw [outstanding_setQR, hk2, coinsAt_of_get hstored, hfa2, hc2, setQR_bank, setQR_holder]
        have := hcov d
        simp only [Bool.false_eq_true, if_false]
        omega
      · simp only [if_true]
        have hfunds : ∀ d ∈ Coins.denoms r1.coins, Coins.amountOf r1.coins d ≤ Ledger.bal s.bank s.holder d := by
          intro d _
          rw [hc1]
          have h1 := hcov d
          have h2 : Coins.amountOf r.coins d ≤ sumRecs s.recs d :=
            le_sumRecs_of_mem (e := ((to, keyOf r), r)) hmem (fun x hx => inv.nonneg x hx d)
          unfold outstanding at h1
          omega
        rw [bankTransfers_bypass_succeeds hfunds (markerAllows_holder s _)]
        simp only
        have inv1 : StoreInv { s with bank := Ledger.move s.bank s.holder to r1.coins, qout := Coins.add s.qout r1.coins } :=
          inv_with_bank_qout inv _ _
        apply ih _ _ (inv_setQR inv1 to r1 (by rw [hc1]; exact hnn)) (snap.after_set hk1 rfl)
        intro d
        rw [outstanding_setQR, hk1, hfa, setQR_bank, setQR_holder]
        have hca : coinsAt { s with bank := Ledger.move s.bank s.holder to r1.coins, qout := Coins.add s.qout r1.coins } to (keyOf r) = r.coins :=
          coinsAt_of_get hstored
        rw [hca]
        show outstanding s d - _ + (if true = true then 0 else _) ≤ Ledger.bal (Ledger.move s.bank s.holder to r1.coins) s.holder d
        rw [Ledger.bal_move, hc1]
        have := hcov d
        have := hnn d
        simp only [if_true]
        split <;> omega

theorem expReleased_nonneg {recs : List ((Addr × Suffix) × Record)} (to : Addr) (froms : List Addr) {d : Denom}
    (hn : ∀ x ∈ recs, 0 ≤ Coins.amountOf x.2.coins d) : 0 ≤ expReleased recs to froms d := by
  induction recs with
  | nil => simp [expReleased]
  | cons h t ih =>
    obtain ⟨k, r⟩ := h
    have h1 := hn (k, r) (List.mem_cons_self ..)
    have h2 := ih (fun x hx => hn x (List.mem_cons_of_mem _ hx))
    simp only at h1
    simp only [expReleased]
    split <;> omega

/-- the coins of a completed record are part of what the accept releases -/
theorem le_expReleased_of_mem {recs : List ((Addr × Suffix) × Record)} {to : Addr} {k : Suffix} {r : Record}
    {froms : List Addr} {d : Denom} (he : ((to, k), r) ∈ recs) (hc : completes froms r = true)
    (hn : ∀ x ∈ recs, 0 ≤ Coins.amountOf x.2.coins d) :
    Coins.amountOf r.coins d ≤ expReleased recs to froms d := by
  induction recs with
  | nil => simp at he
  | cons h t ih =>
    obtain ⟨k2, r2⟩ := h
    have hpos : ∀ x ∈ t, 0 ≤ Coins.amountOf x.2.coins d := fun x hx => hn x (List.mem_cons_of_mem _ hx)
    have hrest := expReleased_nonneg to froms hpos
    have h2 := hn (k2, r2) (List.mem_cons_self ..)
    simp only at h2
    simp only [expReleased]
    rcases List.mem_cons.mp he with he | he
    · injection he with hk hr
      subst hk hr
      simp only [hc, and_self, if_true]
      omega
    · have := ih he hpos
      split <;> omega

end PvProofs.QuarL
