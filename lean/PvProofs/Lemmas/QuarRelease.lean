/-
Helper lemmas for C07: lookup through the suffix index is complete, and the coins an accept
releases are exactly the coins of the records it completes.
-/
import PvProofs.Lemmas.QuarStep

namespace PvProofs.QuarL
open PvModel PvModel.Quar

theorem mem_rawSuffixes {idx : Index} {to f : Addr} {x : Suffix} :
    ∀ froms : List Addr, f ∈ froms → (x ∈ getIdx idx to f ∨ x = [f]) → x ∈ rawSuffixes idx to froms := by
  intro froms
  induction froms with
  | nil => intro h; simp at h
  | cons g rest ih =>
    intro hf hx
    unfold rawSuffixes
    rcases List.mem_cons.mp hf with rfl | hf
    · rcases hx with hx | rfl
      · exact List.mem_append_left _ hx
      · exact List.mem_append_right _ (List.mem_cons_self ..)
    · exact List.mem_append_right _ (List.mem_cons_of_mem _ (ih hf hx))

/-- the suffix of every record with a sender among `froms` is among the looked-up suffixes -/
theorem mem_suffixes {s : State} (inv : StoreInv s) {to : Addr} {k : Suffix} {r : Record}
    (hmem : ((to, k), r) ∈ s.recs) {f : Addr} (hf : f ∈ r.getAllFromAddrs) {froms : List Addr} (hff : f ∈ froms) :
    k ∈ getQuarantineRecordSuffixes s.index to froms := by
  unfold getQuarantineRecordSuffixes
  rw [mem_simplify]
  refine ⟨mem_rawSuffixes froms hff ?_, by simp⟩
  by_cases hlen : 1 < r.getAllFromAddrs.length
  · exact Or.inl (inv.idx _ hmem hlen f hf)
  · right
    have hk : k = createRecordSuffix r.getAllFromAddrs := inv.key _ hmem
    cases hl : r.getAllFromAddrs with
    | nil => rw [hl] at hf; simp at hf
    | cons a t =>
      rw [hl] at hf hlen
      cases t with
      | nil =>
        simp only [List.mem_singleton] at hf
        subst hf
        rw [hk, hl]
        exact createRecordSuffix_singleton f
      | cons b t' => simp at hlen

theorem releases_eq_completes {r : Record} (froms : List Addr) (h : r.isFullyAccepted = false) :
    releases froms r = completes froms r := by
  unfold releases completes
  have hne : r.unacc ≠ [] := by
    intro e; simp [Record.isFullyAccepted, e] at h
  cases hc : r.unacc.all (fun a => froms.contains a)
  · -- some sender is not named: the "left over" list is not empty
    have : (r.unacc.filter fun a => !froms.contains a).isEmpty = false := by
      rw [Bool.eq_false_iff]
      intro he
      have hnil := List.isEmpty_iff.mp he
      have hall : r.unacc.all (fun a => froms.contains a) = true := by
        rw [List.all_eq_true]
        intro a ha
        have := List.filter_eq_nil_iff.mp hnil a ha
        simpa using this
      rw [hall] at hc; cases hc
    rw [this]; exact Bool.and_false _
  · have hall := List.all_eq_true.mp hc
    have h1 : r.unacc.filter (fun a => !froms.contains a) = [] := by
      rw [List.filter_eq_nil_iff]
      intro a ha
      have := hall a ha
      simp only [List.contains_eq_mem, decide_eq_true_eq] at this
      simp [this]
    have h2 : r.unacc.filter (fun a => froms.contains a) = r.unacc := by
      rw [List.filter_eq_self]
      intro a ha
      exact hall a ha
    rw [h1, h2]
    cases hu : r.unacc with
    | nil => exact absurd hu hne
    | cons a t => rfl

/-- `expReleased` as a sum over the store -/
theorem expReleased_eq_sumStore (recs : List ((Addr × Suffix) × Record)) (to : Addr) (froms : List Addr) (d : Denom) :
    expReleased recs to froms d =
      sumStore (fun k r => if k.1 = to ∧ completes froms r = true then Coins.amountOf r.coins d else 0) recs := by
  induction recs with
  | nil => rfl
  | cons e t ih =>
    obtain ⟨k, r⟩ := e
    simp only [expReleased, sumStore, ih]

/-- the coins released over the snapshot = the coins of the completed records of the store -/
theorem relSum_eq_expReleased {s : State} (inv : StoreInv s) (to : Addr) (froms : List Addr) (d : Denom) :
    relSum froms (getQuarantineRecords s to froms) d = expReleased s.recs to froms d := by
  rw [expReleased_eq_sumStore]
  have hnd : (getQuarantineRecordSuffixes s.index to froms).Nodup := nodup_simplify _ _
  rw [sumStore_eq_sumKeys _ s.recs ((getQuarantineRecordSuffixes s.index to froms).map fun x => (to, x)) inv.nodup]
  · -- the sum over the looked-up keys is the loop's sum over the snapshot
    unfold getQuarantineRecords
    generalize getQuarantineRecordSuffixes s.index to froms = sfxs
    induction sfxs with
    | nil => rfl
    | cons x t ih =>
      simp only [List.map_cons, sumKeys, List.filterMap_cons]
      cases hg : kvGet s.recs (to, x) with
      | none => simp only [ih]; omega
      | some r =>
        have hnfa : r.isFullyAccepted = false := inv.nfa _ (mem_of_kvGet hg)
        simp only [relSum, ih, releases_eq_completes froms hnfa, true_and]
  · -- the key list has no duplicates
    exact List.Pairwise.map (fun x => (to, x)) (fun a b hab h => hab (Prod.mk.inj h).2) hnd
  · -- it covers every completed record of `to`
    intro e he hne
    obtain ⟨⟨t, k⟩, r⟩ := e
    simp only at hne
    by_cases hc : t = to ∧ completes froms r = true
    · obtain ⟨rfl, hc⟩ := hc
      have hnfa : r.isFullyAccepted = false := inv.nfa _ he
      -- an unaccepted sender exists and is named
      cases hu : r.unacc with
      | nil => simp [Record.isFullyAccepted, hu] at hnfa
      | cons a rest =>
        have ha : a ∈ r.unacc := by rw [hu]; exact List.mem_cons_self ..
        have hfrom : a ∈ froms := by
          have := List.all_eq_true.mp hc a ha
          simpa using this
        have hk := mem_suffixes inv he (show a ∈ r.getAllFromAddrs from List.mem_append_left _ ha) hfrom
        exact List.mem_map.mpr ⟨k, hk, rfl⟩
    · simp [hc] at hne

end PvProofs.QuarL
