/-
Helper lemmas for C14 (second store file): the value-owner list under `setScopeValueOwners`,
`kget` after `kput`, membership forms of the lookups.
-/
import PvProofs.Lemmas.MdStoreMsgs

namespace PvProofs.MdLemmas
open PvModel.MdStore

section KMap2
variable {α κ : Type} [DecidableEq κ] {key : α → κ}

theorem kget_kput_self (x : α) (l : List α) : kget key (kput key x l) (key x) = some x := by
  simp [kget, kput]

theorem kget_kput_of_ne (x : α) (l : List α) {k : κ} (h : k ≠ key x) :
    kget key (kput key x l) k = kget key l k := by
  have h' : key x ≠ k := fun e => h e.symm
  simp only [kget, kput, List.find?_cons, h', decide_false, List.find?_filter]
  induction l with
  | nil => rfl
  | cons a t ih =>
    simp only [List.find?_cons, ih]
    by_cases e : key a = k
    · have : key a ≠ key x := by rw [e]; exact h
      simp [e, h]
    · simp [e]

end KMap2

/-! ### the value-owner lookup -/

theorem mem_scopesForValueOwner {s : State} {a : Addr} {id : UUID} :
    id ∈ scopesForValueOwner s a ↔ (id, a) ∈ s.valueOwners := by
  simp only [scopesForValueOwner, List.mem_map, List.mem_filter, decide_eq_true_eq]
  constructor
  · rintro ⟨p, ⟨hp, rfl⟩, rfl⟩; exact hp
  · intro h; exact ⟨(id, a), ⟨h, rfl⟩, rfl⟩

/-- with one coin per scope, the holder `GetScopeValueOwner` reports is the stored pair -/
theorem getScopeValueOwner_iff {s : State} (hn : (s.valueOwners.map (·.1)).Nodup) {a : Addr} {id : UUID} :
    getScopeValueOwner s id = some a ↔ (id, a) ∈ s.valueOwners := by
  simp only [getScopeValueOwner, Option.map_eq_some_iff]
  constructor
  · rintro ⟨p, hp, rfl⟩
    obtain ⟨h1, rfl⟩ := kget_some hp
    exact h1
  · intro h
    exact ⟨(id, a), kget_of_mem (key := fun p : UUID × Addr => p.1) hn h, rfl⟩

/-- the coin holders after `SetScopeValueOwners`: the linked scopes are held by the new owner,
every other coin is where it was -/
theorem mem_setScopeValueOwners {st : State} {ids : List UUID} {a : Addr} {p : UUID × Addr} :
    p ∈ (setScopeValueOwners st ids a).valueOwners ↔
      (p.1 ∈ ids ∧ p.2 = a) ∨ (p.1 ∉ ids ∧ p ∈ st.valueOwners) := by
  unfold setScopeValueOwners
  induction ids generalizing st with
  | nil => simp
  | cons i t ih =>
    simp only [List.foldl_cons]
    rw [ih]
    obtain ⟨x, y⟩ := p
    simp only [mem_kput, List.mem_cons, Prod.mk.injEq, ne_eq, not_or]
    by_cases h1 : x ∈ t <;> by_cases h2 : x = i <;> by_cases h3 : y = a <;> simp [h1, h2, h3]
    all_goals tauto

theorem setScopeValueOwners_nodup {st : State} (hn : (st.valueOwners.map (·.1)).Nodup) (ids : List UUID) (a : Addr) :
    ((setScopeValueOwners st ids a).valueOwners.map (·.1)).Nodup := by
  unfold setScopeValueOwners
  induction ids generalizing st with
  | nil => exact hn
  | cons i t ih =>
    simp only [List.foldl_cons]
    exact ih (st := { st with valueOwners := kput (·.1) (i, a) st.valueOwners })
      (nodup_kput (key := fun p : UUID × Addr => p.1) (i, a) hn)

theorem setScopeValueOwners_others (st : State) (ids : List UUID) (a : Addr) :
    SameButSessRec st { setScopeValueOwners st ids a with valueOwners := st.valueOwners } ∧
    (setScopeValueOwners st ids a).records = st.records ∧
    (setScopeValueOwners st ids a).sessions = st.sessions := by
  unfold setScopeValueOwners
  induction ids generalizing st with
  | nil => exact ⟨SameButSessRec.refl st, rfl, rfl⟩
  | cons i t ih =>
    simp only [List.foldl_cons]
    obtain ⟨h1, h2, h3⟩ := ih (st := { st with valueOwners := kput (·.1) (i, a) st.valueOwners })
    exact ⟨⟨h1.scopes, h1.scopeSpecs, h1.contractSpecs, h1.recordSpecs, h1.idxAddrScope, h1.idxSpecScope,
      h1.idxAddrScopeSpec, h1.idxCSpecScopeSpec, h1.idxAddrCSpec, rfl, h1.navs, h1.sessSub⟩, h2, h3⟩

/-! ### the value-owner list under a scope write -/

variable {B : Addr → Addr}

theorem setScopeValueOwner_vo (s : State) (id : UUID) (vo : String) (hvo : vo ≠ "") :
    (setScopeValueOwner B s id vo).valueOwners =
      if getScopeValueOwner s id = some vo then s.valueOwners else kput (·.1) (id, B vo) s.valueOwners := by
  simp only [setScopeValueOwner, hvo, if_false]
  split <;> rfl

theorem setScopeValueOwner_congr (s t : State) (id : UUID) (vo : String) (h : s.valueOwners = t.valueOwners) :
    (setScopeValueOwner B s id vo).valueOwners = (setScopeValueOwner B t id vo).valueOwners := by
  have hg : getScopeValueOwner s id = getScopeValueOwner t id := by simp only [getScopeValueOwner, h]
  simp only [setScopeValueOwner, hg]
  repeat' split
  all_goals first | exact h | (simp only [h])

theorem setScope_vo (s : State) (sc : Scope) (vo : String) :
    (setScope B s sc vo).valueOwners = (if vo ≠ "" then setScopeValueOwner B s sc.id vo else s).valueOwners := by
  simp only [setScope, writeScopeToState, indexScope]

theorem writeScope_vo {st st' : State} {sc : Scope} {vo : String} {m : Nat}
    (hr : writeScope B st sc vo m = .ok st') :
    st'.valueOwners = (if vo ≠ "" then setScopeValueOwner B st sc.id vo else st).valueOwners := by
  simp only [writeScope] at hr
  (repeat' split at hr) <;> first | cases hr | skip
  all_goals
    rw [setScope_vo]
    try (split
         · exact setScopeValueOwner_congr _ _ _ _ rfl
         · rfl)

/-! ### `DeleteScope` removes exactly the scope's records and sessions -/

theorem removeRecords_keeps_session {st : State} (h : Inv B st) (recs : List Record) (id : UUID)
    (hrecs : ∀ q ∈ recs, q.id.scope = id) (x : Session) (hx : x ∈ st.sessions) (hne : x.id.scope ≠ id) :
    x ∈ (removeRecords st recs).sessions := by
  induction recs generalizing st with
  | nil => exact hx
  | cons a t ih =>
    rw [removeRecords_cons]
    apply ih (removeRecord_inv h a.id) (fun q hq => hrecs q (List.mem_cons_of_mem _ hq))
    unfold removeRecord
    split
    · exact hx
    · rename_i r hr
      obtain ⟨hrm, hrid⟩ := kget_some hr
      have hxs : x.id ≠ r.session := by
        intro e
        apply hne
        rw [e, h.recInScope r hrm, hrid]
        exact hrecs a (List.mem_cons_self ..)
      unfold removeSession
      split
      · exact hx
      · exact mem_kdel.mpr ⟨hx, hxs⟩

/-- `DeleteScope` (accepted, on a state satisfying the invariant): the records / sessions left
are exactly those of the other scopes -/
theorem deleteScope_exact {st st' : State} (h : PvModel.MdStore.Inv B st) (id : UUID)
    (hr : deleteScope B st id = .ok st') :
    (∀ r, r ∈ st'.records ↔ r ∈ st.records ∧ r.id.scope ≠ id) ∧
    (∀ x, x ∈ st'.sessions ↔ x ∈ st.sessions ∧ x.id.scope ≠ id) := by
  simp only [deleteScope, deleteScopeWith] at hr
  split at hr
  · cases hr
  · rename_i hk
    cases hr
    have hk' : khas (fun x : Scope => x.id) st.scopes id = true := by simpa using hk
    obtain ⟨sc, hsc⟩ := Option.isSome_iff_exists.mp (kget_isSome_iff.mpr (khas_iff.mp hk'))
    obtain ⟨_, _, hsess, hrec, _⟩ := deleteScopePreFix_spec h id sc hsc
    have w := afterWalk_spec h id
    rw [removeScope_eq hsc]
    constructor
    · intro r
      have e : (removeNetAssetValues { removeScopePreFix B st id with
          sessions := (removeScopePreFix B st id).sessions.filter (fun x => x.id.scope ≠ id) } id).records
          = (afterWalk B st id).records := hrec
      rw [e]
      exact ⟨fun hr => ⟨w.recSub r hr, w.recNoId r hr⟩, fun hr => w.recKept r hr.1 hr.2⟩
    · intro x
      have e : (removeNetAssetValues { removeScopePreFix B st id with
          sessions := (removeScopePreFix B st id).sessions.filter (fun x => x.id.scope ≠ id) } id).sessions
          = (afterWalk B st id).sessions.filter (fun x => x.id.scope ≠ id) := by
        rw [← hsess]; rfl
      rw [e, List.mem_filter]
      simp only [ne_eq, decide_not, Bool.not_eq_true', decide_eq_false_iff_not]
      constructor
      · exact fun hx => ⟨w.sessSub x hx.1, hx.2⟩
      · intro hx
        refine ⟨?_, hx.2⟩
        obtain ⟨h1, _⟩ := setScopeValueOwner_empty_inv h id
        obtain ⟨_, hs1, _⟩ := setScopeValueOwner_empty_same (B := B) st id
        unfold afterWalk
        exact removeRecords_keeps_session h1 _ id
          (fun q hq => by simpa using (List.mem_filter.mp hq).2) x (by rw [hs1]; exact hx.1) hx.2

/-! ### removal guards (the helper forms of `PvProofs.C14.scopeSpec_in_use_not_removed` / `contractSpec_in_use_not_removed`) -/

theorem scopeSpec_unused_of_deleted {st st' : State} {id : UUID} (h : PvModel.MdStore.Inv B st)
    (hr : deleteScopeSpecification B st id = .ok st') : ∀ sc ∈ st.scopes, sc.spec ≠ id := by
  intro sc hsc e
  simp only [deleteScopeSpecification, removeScopeSpecification] at hr
  split at hr
  · cases hr
  · split at hr
    · cases hr
    · rename_i hu
      have : (sc.spec, sc.id) ∈ st.idxSpecScope := h.specScope.2 sc hsc sc.spec (by simp)
      simp only [isScopeSpecUsed, List.any_eq_true, decide_eq_true_eq, not_exists, not_and] at hu
      exact hu _ this e

theorem contractSpec_unlisted_of_deleted {st st' : State} {id : UUID} (h : PvModel.MdStore.Inv B st)
    (hr : deleteContractSpecification B st id = .ok st') : ∀ sp ∈ st.scopeSpecs, id ∉ sp.cspecs := by
  intro sp hsp e
  simp only [deleteContractSpecification, removeContractSpecification] at hr
  split at hr
  · cases hr
  · split at hr
    · cases hr
    · rename_i hu
      have : (id, sp.id) ∈ st.idxCSpecScopeSpec := h.cspecScopeSpec.2 sp hsp id e
      simp only [isContractSpecUsed, Bool.or_eq_true, List.any_eq_true, decide_eq_true_eq, not_or,
        not_exists, not_and] at hu
      exact hu.1 _ this rfl

/-! ### specification integrity (`SpecInv`) is preserved by every operation -/

/-- keep only the accepted branches of an unfolded handler -/
local macro "ok_branches" hr:ident : tactic =>
  `(tactic| ((repeat' split at $hr:ident) <;> first | cases $hr:ident | skip))

theorem specInv_of_same {st st' : State} (h : SpecInv st) (h1 : st'.scopes = st.scopes)
    (h2 : st'.scopeSpecs = st.scopeSpecs) (h3 : st'.contractSpecs = st.contractSpecs)
    (h4 : st'.recordSpecs = st.recordSpecs) : SpecInv st' :=
  ⟨by unfold RecSpecsHaveCSpec; rw [h3, h4]; exact h.1,
   by unfold ScopeSpecCSpecsExist; rw [h2, h3]; exact h.2,
   by unfold ScopesHaveSpec; rw [h1, h2]; exact h.3⟩

theorem specInv_of_sameButSessRec {st st' : State} (h : SpecInv st) (hs : SameButSessRec st st') : SpecInv st' :=
  specInv_of_same h hs.scopes hs.scopeSpecs hs.contractSpecs hs.recordSpecs

theorem setScope_specs (st : State) (sc : Scope) (vo : String) :
    (setScope B st sc vo).scopeSpecs = st.scopeSpecs ∧ (setScope B st sc vo).contractSpecs = st.contractSpecs ∧
    (setScope B st sc vo).recordSpecs = st.recordSpecs := by
  simp only [setScope, writeScopeToState, indexScope, setScopeValueOwner]
  repeat' split
  all_goals exact ⟨rfl, rfl, rfl⟩

/-- a scope write that keeps the specification lists and writes a scope whose specification exists -/
theorem specInv_setScope {st : State} (h : SpecInv st) (sc : Scope) (vo : String)
    (hsp : ∃ sp ∈ st.scopeSpecs, sp.id = sc.spec) : SpecInv (setScope B st sc vo) := by
  obtain ⟨h2, h3, h4⟩ := setScope_specs (B := B) st sc vo
  obtain ⟨_, h1, _⟩ := setScope_frame (B := B) st sc vo
  refine ⟨by unfold RecSpecsHaveCSpec; rw [h3, h4]; exact h.1,
    by unfold ScopeSpecCSpecsExist; rw [h2, h3]; exact h.2, ?_⟩
  unfold ScopesHaveSpec
  rw [h1, h2]
  intro x hx
  rcases mem_kput.mp hx with rfl | ⟨hx', _⟩
  · exact hsp
  · exact h.3 x hx'

theorem writeScope_spec_exists {st st' : State} {sc : Scope} {vo : String} {m : Nat} (h : ScopesHaveSpec st)
    (hr : writeScope B st sc vo m = .ok st') : ∃ sp ∈ st.scopeSpecs, sp.id = sc.spec := by
  simp only [writeScope] at hr
  ok_branches hr
  all_goals (rename_i hc _)
  all_goals first
    | exact khas_iff.mp (by simpa using hc)
    | (cases hk : khas (fun x : ScopeSpec => x.id) st.scopeSpecs sc.spec with
       | true => exact khas_iff.mp hk
       | false =>
         rw [hk] at hc
         simp only [Bool.not_false, Bool.and_true, Bool.not_eq_true', Bool.not_eq_false, Bool.and_eq_true,
           decide_eq_true_eq] at hc
         have he := ‹kget (fun x : Scope => x.id) st.scopes sc.id = some _›
         obtain ⟨sp, hsp, hid⟩ := h _ (kget_some he).1
         exact ⟨sp, hsp, hid.trans hc.1.1.2⟩)

theorem specInv_setScopeSpecification {st : State} (h : SpecInv st) (sp : ScopeSpec)
    (hc : ∀ c ∈ sp.cspecs, ∃ cs ∈ st.contractSpecs, cs.id = c) : SpecInv (setScopeSpecification B st sp) := by
  have h1 : (setScopeSpecification B st sp).scopes = st.scopes := by
    simp only [setScopeSpecification, indexScopeSpecification]
  have h2 : (setScopeSpecification B st sp).scopeSpecs = kput (·.id) sp st.scopeSpecs := by
    simp only [setScopeSpecification, indexScopeSpecification]
  have h3 : (setScopeSpecification B st sp).contractSpecs = st.contractSpecs := by
    simp only [setScopeSpecification, indexScopeSpecification]
  have h4 : (setScopeSpecification B st sp).recordSpecs = st.recordSpecs := by
    simp only [setScopeSpecification, indexScopeSpecification]
  refine ⟨by unfold RecSpecsHaveCSpec; rw [h3, h4]; exact h.1, ?_, ?_⟩
  · unfold ScopeSpecCSpecsExist
    rw [h2, h3]
    intro x hx
    rcases mem_kput.mp hx with rfl | ⟨hx', _⟩
    · exact hc
    · exact h.2 x hx'
  · unfold ScopesHaveSpec
    rw [h1, h2]
    intro sc hsc
    obtain ⟨y, hy, hyr⟩ := h.3 sc hsc
    exact exists_key_kput.mpr (Or.inr ⟨y, hy, hyr⟩)

/-- every operation of the current code keeps the specification-integrity clauses (given the
main invariant, whose exact indexes are what the removal guards read) -/
theorem applyOp_specInv (H : String → NameKey) {st st' : State} (hi : PvModel.MdStore.Inv B st) (h : SpecInv st)
    (op : Op) (hr : applyOp B H st op = .ok st') : SpecInv st' := by
  unfold applyOp at hr
  cases op <;> simp only [applyOpWith] at hr
  case writeScopeSpec sp =>
    simp only [writeScopeSpecification] at hr
    split at hr
    · cases hr
    · split at hr
      · cases hr
      · rename_i hchk
        cases hr
        apply specInv_setScopeSpecification h sp
        have hnew : ∀ c ∈ getNewContractSpecIDs sp (kget (·.id) st.scopeSpecs sp.id),
            ∃ cs ∈ st.contractSpecs, cs.id = c := by
          intro c hc
          simp only [List.any_eq_true, Bool.not_eq_true', not_exists, not_and, Bool.not_eq_false] at hchk
          exact khas_iff.mp (hchk c hc)
        intro c hc
        cases hg : kget (fun x : ScopeSpec => x.id) st.scopeSpecs sp.id with
        | none =>
          rw [hg] at hnew
          exact hnew c hc
        | some e =>
          rw [hg] at hnew
          simp only [getNewContractSpecIDs] at hnew
          split at hnew
          · exact hnew c hc
          · by_cases hce : c ∈ e.cspecs
            · exact h.2 e (kget_some hg).1 c hce
            · exact hnew c (List.mem_filter.mpr ⟨hc, by simpa using hce⟩)
  case deleteScopeSpec id =>
    have hno := scopeSpec_unused_of_deleted hi hr
    simp only [deleteScopeSpecification, removeScopeSpecification] at hr
    ok_branches hr
    refine ⟨h.1, ?_, ?_⟩
    · intro sp hsp
      exact h.2 sp (by
        have : sp ∈ kdel (fun x : ScopeSpec => x.id) id st.scopeSpecs := by
          simpa [indexScopeSpecification] using hsp
        exact (mem_kdel.mp this).1)
    · intro sc hsc
      have hsc' : sc ∈ st.scopes := by simpa [indexScopeSpecification] using hsc
      obtain ⟨y, hy, hyr⟩ := h.3 sc hsc'
      refine ⟨y, ?_, hyr⟩
      have : y ∈ kdel (fun x : ScopeSpec => x.id) id st.scopeSpecs :=
        mem_kdel.mpr ⟨hy, by rw [hyr]; exact hno sc hsc'⟩
      simpa [indexScopeSpecification] using this
  case writeContractSpec sp =>
    simp only [writeContractSpecification] at hr
    ok_branches hr
    have h3 : (setContractSpecification B st sp).contractSpecs = kput (·.id) sp st.contractSpecs := by
      simp only [setContractSpecification, indexContractSpecification]
    refine ⟨?_, ?_, ?_⟩
    · intro rs hrs
      have hrs' : rs ∈ st.recordSpecs := by simpa [setContractSpecification, indexContractSpecification] using hrs
      obtain ⟨y, hy, hyr⟩ := h.1 rs hrs'
      rw [h3]
      exact exists_key_kput.mpr (Or.inr ⟨y, hy, hyr⟩)
    · intro x hx c hc
      have hx' : x ∈ st.scopeSpecs := by simpa [setContractSpecification, indexContractSpecification] using hx
      obtain ⟨y, hy, hyr⟩ := h.2 x hx' c hc
      rw [h3]
      exact exists_key_kput.mpr (Or.inr ⟨y, hy, hyr⟩)
    · intro sc hsc
      have hsc' : sc ∈ st.scopes := by simpa [setContractSpecification, indexContractSpecification] using hsc
      obtain ⟨y, hy, hyr⟩ := h.3 sc hsc'
      exact ⟨y, by simpa [setContractSpecification, indexContractSpecification] using hy, hyr⟩
  case deleteContractSpec id =>
    have hno := contractSpec_unlisted_of_deleted hi hr
    simp only [deleteContractSpecification, removeContractSpecification] at hr
    ok_branches hr
    refine ⟨?_, ?_, ?_⟩
    · intro rs hrs
      have hrs' : rs ∈ st.recordSpecs.filter (fun r => r.id.cspec ≠ id) := by
        simpa [indexContractSpecification] using hrs
      obtain ⟨hm, hne⟩ := List.mem_filter.mp hrs'
      obtain ⟨y, hy, hyr⟩ := h.1 rs hm
      refine ⟨y, ?_, hyr⟩
      have : y ∈ kdel (fun x : ContractSpec => x.id) id st.contractSpecs :=
        mem_kdel.mpr ⟨hy, by rw [hyr]; simpa using hne⟩
      simpa [indexContractSpecification] using this
    · intro x hx c hc
      have hx' : x ∈ st.scopeSpecs := by simpa [indexContractSpecification] using hx
      obtain ⟨y, hy, hyr⟩ := h.2 x hx' c hc
      refine ⟨y, ?_, hyr⟩
      have : y ∈ kdel (fun x : ContractSpec => x.id) id st.contractSpecs :=
        mem_kdel.mpr ⟨hy, by rw [hyr]; intro e; exact hno x hx' (e ▸ hc)⟩
      simpa [indexContractSpecification] using this
    · intro sc hsc
      have hsc' : sc ∈ st.scopes := by simpa [indexContractSpecification] using hsc
      obtain ⟨y, hy, hyr⟩ := h.3 sc hsc'
      exact ⟨y, by simpa [indexContractSpecification] using hy, hyr⟩
  case addCSpecToScopeSpec c p =>
    simp only [addContractSpecToScopeSpec] at hr
    split at hr
    · cases hr
    · rename_i hk
      split at hr
      · cases hr
      · rename_i sp hsp
        split at hr
        · cases hr
        · cases hr
          apply specInv_setScopeSpecification h
          intro c' hc'
          rcases List.mem_append.mp hc' with hc' | hc'
          · exact h.2 sp (kget_some hsp).1 c' hc'
          · have : c' = c := by simpa using hc'
            subst this
            exact khas_iff.mp (by simpa using hk)
  case delCSpecFromScopeSpec c p =>
    simp only [deleteContractSpecFromScopeSpec] at hr
    split at hr
    · cases hr
    · rename_i sp hsp
      split at hr
      · cases hr
      · cases hr
        apply specInv_setScopeSpecification h
        intro c' hc'
        exact h.2 sp (kget_some hsp).1 c' (List.mem_filter.mp hc').1
  case writeRecordSpec c n =>
    simp only [writeRecordSpecification] at hr
    ok_branches hr
    all_goals
      have hk' : khas (fun x : ContractSpec => x.id) st.contractSpecs c = true := by
        have := ‹¬(!khas (fun x : ContractSpec => x.id) st.contractSpecs c) = true›
        simpa using this
      refine ⟨?_, h.2, h.3⟩
      intro rs hrs
      rcases mem_kput.mp hrs with rfl | ⟨hrs', _⟩
      · exact khas_iff.mp hk'
      · exact h.1 rs hrs'
  case deleteRecordSpec c n =>
    simp only [deleteRecordSpecification, removeRecordSpecification] at hr
    ok_branches hr
    exact ⟨fun rs hrs => h.1 rs (mem_kdel.mp hrs).1, h.2, h.3⟩
  case writeScope sc vo m =>
    have hsp := writeScope_spec_exists h.3 hr
    simp only [writeScope] at hr
    ok_branches hr
    all_goals first
      | exact specInv_setScope (st := setNetAssetValue st sc.id "usd") (specInv_of_same h rfl rfl rfl rfl) sc vo hsp
      | exact specInv_setScope h sc vo hsp
  case deleteScope id =>
    simp only [deleteScopeWith] at hr
    split at hr
    · cases hr
    · rename_i hk
      cases hr
      have hk' : khas (fun x : Scope => x.id) st.scopes id = true := by simpa using hk
      obtain ⟨sc, hsc⟩ := Option.isSome_iff_exists.mp (kget_isSome_iff.mpr (khas_iff.mp hk'))
      have w := afterWalk_spec hi id
      rw [removeScope_eq hsc, removeScopePreFix_eq hsc]
      refine ⟨?_, ?_, ?_⟩
      · intro rs hrs
        have hrs' : rs ∈ st.recordSpecs := by
          have : rs ∈ (afterWalk B st id).recordSpecs := by simpa [removeNetAssetValues, indexScope] using hrs
          rw [w.recordSpecs] at this; exact this
        obtain ⟨y, hy, hyr⟩ := h.1 rs hrs'
        refine ⟨y, ?_, hyr⟩
        have : y ∈ (afterWalk B st id).contractSpecs := by rw [w.contractSpecs]; exact hy
        simpa [removeNetAssetValues, indexScope] using this
      · intro x hx c hc
        have hx' : x ∈ st.scopeSpecs := by
          have : x ∈ (afterWalk B st id).scopeSpecs := by simpa [removeNetAssetValues, indexScope] using hx
          rw [w.scopeSpecs] at this; exact this
        obtain ⟨y, hy, hyr⟩ := h.2 x hx' c hc
        refine ⟨y, ?_, hyr⟩
        have : y ∈ (afterWalk B st id).contractSpecs := by rw [w.contractSpecs]; exact hy
        simpa [removeNetAssetValues, indexScope] using this
      · intro x hx
        have hx' : x ∈ st.scopes := by
          have : x ∈ kdel (fun s : Scope => s.id) id (afterWalk B st id).scopes := by
            simpa [removeNetAssetValues, indexScope] using hx
          rw [w.scopes] at this; exact (mem_kdel.mp this).1
        obtain ⟨y, hy, hyr⟩ := h.3 x hx'
        refine ⟨y, ?_, hyr⟩
        have : y ∈ (afterWalk B st id).scopeSpecs := by rw [w.scopeSpecs]; exact hy
        simpa [removeNetAssetValues, indexScope] using this
  case addDataAccess id a =>
    simp only [addScopeDataAccess] at hr
    ok_branches hr
    rename_i e he _
    exact specInv_setScope h _ _ (h.3 e (kget_some he).1)
  case delDataAccess id a =>
    simp only [deleteScopeDataAccess] at hr
    ok_branches hr
    rename_i e he _
    exact specInv_setScope h _ _ (h.3 e (kget_some he).1)
  case addOwners id a =>
    simp only [addScopeOwner] at hr
    ok_branches hr
    rename_i e he _ _ _
    exact specInv_setScope h _ _ (h.3 e (kget_some he).1)
  case delOwners id a =>
    simp only [deleteScopeOwner] at hr
    ok_branches hr
    rename_i e he _ _ _
    exact specInv_setScope h _ _ (h.3 e (kget_some he).1)
  case updateValueOwners ids a =>
    simp only [updateValueOwners] at hr
    ok_branches hr
    have := (setScopeValueOwners_others st ids (B a)).1
    exact specInv_of_same h this.scopes this.scopeSpecs this.contractSpecs this.recordSpecs
  case migrateValueOwner a b =>
    simp only [migrateValueOwner] at hr
    ok_branches hr
    have := (setScopeValueOwners_others st
      ((st.valueOwners.filter (fun p => p.2 = B a)).map (·.1)) (B b)).1
    exact specInv_of_same h this.scopes this.scopeSpecs this.contractSpecs this.recordSpecs
  case writeSession x =>
    simp only [writeSession] at hr
    ok_branches hr
    all_goals exact specInv_of_same h rfl rfl rfl rfl
  case writeRecord sid n g =>
    simp only [writeRecord] at hr
    ok_branches hr
    all_goals first
      | exact specInv_of_sameButSessRec (specInv_of_same (st' := setRecord st _) h rfl rfl rfl rfl) (removeSession_same _ _)
      | exact specInv_of_same h rfl rfl rfl rfl
  case deleteRecord s n =>
    simp only [deleteRecord] at hr
    ok_branches hr
    exact specInv_of_sameButSessRec h (removeRecord_same _ _)
  case addNav id =>
    simp only [addNetAssetValues] at hr
    ok_branches hr
    exact specInv_of_same h rfl rfl rfl rfl
  case keeperRemoveSession id =>
    cases hr
    exact specInv_of_sameButSessRec h (removeSession_same _ _)

end PvProofs.MdLemmas
