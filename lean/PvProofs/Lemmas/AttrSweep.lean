/-
C16 — the begin-block sweep of the current code (`expireOne`, as repaired by commit f2249cacd):
invariants and the exact set of records it removes.
-/
import PvProofs.Lemmas.AttrInv

set_option linter.unusedSimpArgs false
set_option linter.unusedVariables false

namespace PvProofs.Lemmas.AttrSweep
open PvModel.Attr PvProofs.Lemmas.AttrStore PvProofs.Lemmas.AttrInv

/-- Either the repaired step behaves as the original one (the entry is the attribute's current
expiration) or it only drops the queue entry. -/
theorem expireOne_cases (s : State) (q : Nat × Key) :
    (∃ a, getAttr s q.2 = some a ∧ a.exp = some q.1 ∧ expireOne s q = expireOnePreFix s q) ∨
    ((∀ a, getAttr s q.2 = some a → a.exp ≠ some q.1) ∧
      expireOne s q = { s with queue := s.queue.filter (fun q' => decide (q' ≠ q)) }) := by
  unfold expireOne expireOnePreFix
  cases h : getAttr s q.2 with
  | none => right; exact ⟨fun a ha => (by cases ha), rfl⟩
  | some a =>
    by_cases he : a.exp = some q.1
    · left; exact ⟨a, rfl, he, by simp [he]⟩
    · right
      refine ⟨fun a' ha' => (by cases ha'; exact he), by simp [he]⟩

theorem expireOne_inv {s : State} (q : Nat × Key) (hi : Inv s) : Inv (expireOne s q) := by
  rcases expireOne_cases s q with ⟨a, _, _, he⟩ | ⟨hne, he⟩
  · rw [he]; exact expireOnePreFix_inv q hi
  · rw [he]
    refine ⟨hi.keys, hi.cntGe, hi.bound, ?_⟩
    intro r hr e hx
    have hq := hi.queueComplete r hr e hx
    refine List.mem_filter.mpr ⟨hq, ?_⟩
    simp only [decide_eq_true_eq]
    intro heq
    have hk : r.key = q.2 := by rw [← heq]
    have he1 : e = q.1 := by rw [← heq]
    cases hg : getAttr s q.2 with
    | none => exact getAttr_none hg r hr hk
    | some a =>
      obtain ⟨ha, hka⟩ := getAttr_some hg
      have : a = r := hi.keys.eq_of_key ha hr (by rw [hka, hk])
      subst this
      exact hne a hg (by rw [hx, he1])

theorem expireOne_recs {s : State} (hi : Inv s) (q : Nat × Key) (r : Attribute) :
    r ∈ (expireOne s q).recs ↔ (r ∈ s.recs ∧ ¬ (r.key = q.2 ∧ r.exp = some q.1)) := by
  rcases expireOne_cases s q with ⟨a, hg, hx, he⟩ | ⟨hne, he⟩
  · rw [he, expireOnePreFix_recs]
    obtain ⟨ha, hka⟩ := getAttr_some hg
    constructor
    · rintro ⟨h1, h2⟩; exact ⟨h1, fun h => h2 h.1⟩
    · rintro ⟨h1, h2⟩
      refine ⟨h1, fun hk => h2 ⟨hk, ?_⟩⟩
      have : a = r := hi.keys.eq_of_key ha h1 (by rw [hka, hk])
      rw [← this]; exact hx
  · rw [he]
    constructor
    · intro h1
      refine ⟨h1, ?_⟩
      rintro ⟨hk, hx⟩
      cases hg : getAttr s q.2 with
      | none => exact getAttr_none hg r h1 hk
      | some a =>
        obtain ⟨ha, hka⟩ := getAttr_some hg
        have : a = r := hi.keys.eq_of_key ha h1 (by rw [hka, hk])
        subst this
        exact hne a hg hx
    · intro h; exact h.1

theorem expireOne_names (s : State) (q : Nat × Key) : (expireOne s q).names = s.names := by
  rcases expireOne_cases s q with ⟨a, _, _, he⟩ | ⟨_, he⟩
  · rw [he, expireOnePreFix_names]
  · rw [he]

theorem foldl_expireOne_inv (l : List (Nat × Key)) :
    ∀ s : State, Inv s → Inv (l.foldl expireOne s) := by
  induction l with
  | nil => intro s h; exact h
  | cons q t ih => intro s h; simp only [List.foldl_cons]; exact ih _ (expireOne_inv q h)

theorem foldl_expireOne_recs (l : List (Nat × Key)) :
    ∀ (s : State), Inv s → ∀ r : Attribute,
      (r ∈ (l.foldl expireOne s).recs ↔ (r ∈ s.recs ∧ ∀ q ∈ l, ¬ (r.key = q.2 ∧ r.exp = some q.1))) := by
  induction l with
  | nil => intro s _ r; simp
  | cons q t ih =>
    intro s hi r
    simp only [List.foldl_cons]
    rw [ih _ (expireOne_inv q hi), expireOne_recs hi]
    simp only [List.mem_cons, forall_eq_or_imp]
    constructor
    · rintro ⟨⟨h1, h2⟩, h3⟩; exact ⟨h1, h2, h3⟩
    · rintro ⟨h1, h2, h3⟩; exact ⟨⟨h1, h2⟩, h3⟩

end PvProofs.Lemmas.AttrSweep
