/-
Helper lemmas for C09: the invariant and, per message, what a successful execution
establishes about every token whose holder changed (`GoodStep`).
-/
import PvProofs.Lemmas.VownerSteps

namespace PvProofs.VownerL
open PvModel PvModel.Ledger PvModel.Vowner

/-- The state invariant: every SCOPE denom is either absent or held as one indivisible unit by one
non-empty address, and only scopes that exist have a token.  Nothing is asked of ordinary coin
denoms (`isScopeDenom d = false`): accounts may hold any amounts of them. -/
def Inv (s : State) : Prop :=
  ∀ d, isScopeDenom d = true →
    ∃ o, HolderIs s.ledger d o ∧ o ≠ some "" ∧ (o.isSome = true → hasScope s d = true)

theorem Inv.allHeld {s : State} (h : Inv s) : AllHeld s.ledger :=
  fun d hd => let ⟨o, ho, _⟩ := h d hd; ⟨o, ho⟩

/-! ### The property's two authorisation conditions, as propositions -/

/-- `h`'s consent to a step of the given kind signed by `signers`: one of the four routes. -/
def Consents (s : State) (kind : StepKind) (signers : List Addr) (h : Addr) : Prop :=
  match kind with
  | .send => signers = [h]
  | .msg mt =>
    h ∈ signers ∨
    (∃ g ∈ s.grants, g.granter = h ∧ g.grantee ∈ signers ∧ g.mt = mt) ∨
    (∃ m, findMarker s h = some m ∧ ∃ x ∈ signers, m.has x .withdraw = true)
  | .mwithdraw => ∃ m, findMarker s h = some m ∧ ∃ x ∈ signers, m.has x .withdraw = true
  | .env => False
  | .fill oid => ∃ o ∈ s.orders, o.id = oid ∧ o.seller = h

/-- when `h'` is a restricted marker, one of `signers` has deposit on it -/
def DepositP (s : State) (signers : List Addr) (h' : Addr) : Prop :=
  ∀ m, findMarker s h' = some m → m.restricted = true → ∃ x ∈ signers, m.has x .deposit = true

/-- every scope token whose holder differs between `s` and `s'` moved with the old holder's
consent and, into a restricted marker, with a signer's deposit permission -/
def GoodStep (s : State) (kind : StepKind) (signers : List Addr) (s' : State) : Prop :=
  ∀ d, isScopeDenom d = true → ∀ o o', HolderIs s.ledger d o → HolderIs s'.ledger d o' → o ≠ o' →
    (∀ h, o = some h → Consents s kind signers h) ∧ (∀ h', o' = some h' → DepositP s signers h')

theorem goodStep_of_ledger_eq {s s' : State} (kind : StepKind) (signers : List Addr)
    (h : s'.ledger = s.ledger) : GoodStep s kind signers s' := by
  intro d _ o o' ho ho' hne
  rw [h] at ho'
  exact absurd (holderIs_unique ho ho') hne

theorem Consents.mono {s : State} {kind : StepKind} {sg sg' : List Addr} {h : Addr}
    (hsub : ∀ x ∈ sg, x ∈ sg') (hk : kind ≠ .send) (hc : Consents s kind sg h) : Consents s kind sg' h := by
  cases kind with
  | send => exact absurd rfl hk
  | env => exact hc
  | fill oid => exact hc
  | mwithdraw =>
    obtain ⟨m, hm, x, hx, h1⟩ := hc
    exact ⟨m, hm, x, hsub _ hx, h1⟩
  | msg mt =>
    rcases hc with h1 | ⟨g, hg, h1, h2, h3⟩ | ⟨m, hm, x, hx, h1⟩
    · exact Or.inl (hsub _ h1)
    · exact Or.inr (Or.inl ⟨g, hg, h1, hsub _ h2, h3⟩)
    · exact Or.inr (Or.inr ⟨m, hm, x, hsub _ hx, h1⟩)

theorem DepositP.mono {s : State} {sg sg' : List Addr} {h : Addr}
    (hsub : ∀ x ∈ sg, x ∈ sg') (hc : DepositP s sg h) : DepositP s sg' h := by
  intro m hm hr
  obtain ⟨x, hx, h1⟩ := hc m hm hr
  exact ⟨x, hsub _ hx, h1⟩

theorem GoodStep.mono {s s' : State} {kind : StepKind} {sg sg' : List Addr}
    (hsub : ∀ x ∈ sg, x ∈ sg') (hk : kind ≠ .send) (hg : GoodStep s kind sg s') : GoodStep s kind sg' s' := by
  intro d hd o o' ho ho' hne
  obtain ⟨h1, h2⟩ := hg d hd o o' ho ho' hne
  exact ⟨fun h hh => (h1 h hh).mono hsub hk, fun h hh => (h2 h hh).mono hsub⟩

theorem anyHas_iff {m : Marker} {as : List Addr} {p : Access} :
    anyHas m as p = true ↔ ∃ x ∈ as, m.has x p = true := by
  simp [anyHas, List.any_eq_true]

/-- the validation's verdict on the old holder plus the send restriction's verdict = consent -/
theorem consents_of_vo {s : State} {pre : List Grant} {eff : List Addr} {mt : MsgType} {h : Addr}
    (hpre : pre = s.grants) (hv : VoConsent s pre eff mt h) (hw : withdrawOk s eff h = true) :
    Consents s (.msg mt) eff h := by
  subst hpre
  rcases hv with h1 | h1 | ⟨ge, hge, g, hg, h1, h2, h3⟩
  · exact Or.inl h1
  · unfold isMarker at h1
    cases hm : findMarker s h with
    | none => simp [hm] at h1
    | some m =>
      simp only [withdrawOk, hm, Bool.and_eq_true] at hw
      obtain ⟨x, hx, hp⟩ := anyHas_iff.mp hw.2
      exact Or.inr (Or.inr ⟨m, hm, x, hx, hp⟩)
  · exact Or.inr (Or.inl ⟨g, hg, h2, by rw [h1]; exact hge, h3⟩)

theorem depositP_of_agents {s : State} {ag : List Addr} {frm to : Addr}
    (hd : depositOk s ag frm to = true) (hne : ag ≠ []) : DepositP s ag to := by
  intro m hm hr
  simp only [depositOk, hm, hr, if_true] at hd
  have : ag.isEmpty = false := by cases ag with | nil => exact absurd rfl hne | cons _ _ => rfl
  simp only [this, Bool.not_false, if_true] at hd
  exact anyHas_iff.mp hd

theorem depositP_of_sender {s : State} {frm to : Addr}
    (hd : depositOk s [] frm to = true) : DepositP s [frm] to := by
  intro m hm hr
  simp only [depositOk, hm, hr, if_true] at hd
  simp at hd
  exact ⟨frm, by simp, hd⟩

/-! ### scope store -/

theorem findScope_isSome (s : State) (id : ScopeId) : (findScope s id).isSome = hasScope s id := by
  unfold findScope hasScope
  induction s.scopes with
  | nil => simp
  | cons e t ih =>
    simp only [List.find?_cons, List.any_cons]
    by_cases hc : e.id = id
    · simp [hc]
    · simp [hc, ih]

theorem hasScope_iff {s : State} {d : ScopeId} : hasScope s d = true ↔ ∃ e ∈ s.scopes, e.id = d := by
  simp [hasScope, List.any_eq_true]

theorem hasScope_putScope (s : State) (id : ScopeId) (owners : List Party) (rollup : Bool) (d : ScopeId) :
    hasScope (putScope s id owners rollup) d = (decide (id = d) || hasScope s d) := by
  rw [Bool.eq_iff_iff, Bool.or_eq_true, hasScope_iff, hasScope_iff]
  simp only [putScope, List.mem_cons, List.mem_filter, decide_eq_true_eq]
  constructor
  · rintro ⟨e, he | ⟨he, _⟩, hd⟩
    · subst he; exact Or.inl hd
    · exact Or.inr ⟨e, he, hd⟩
  · rintro (h | ⟨e, he, hd⟩)
    · exact ⟨⟨id, owners, rollup⟩, Or.inl rfl, h⟩
    · by_cases hc : id = d
      · exact ⟨⟨id, owners, rollup⟩, Or.inl rfl, hc⟩
      · refine ⟨e, Or.inr ⟨he, ?_⟩, hd⟩
        simp only [ne_eq]
        rw [hd]; exact fun x => hc x.symm

theorem hasScope_dropScope (s : State) (id d : ScopeId) :
    hasScope (dropScope s id) d = (!decide (id = d) && hasScope s d) := by
  rw [Bool.eq_iff_iff, Bool.and_eq_true, hasScope_iff, hasScope_iff]
  simp only [dropScope, List.mem_filter, Bool.not_eq_eq_eq_not, Bool.not_true, decide_eq_false_iff_not]
  constructor
  · rintro ⟨e, ⟨he, hne⟩, hd⟩
    refine ⟨?_, e, he, hd⟩
    simp only [ne_eq, decide_not, Bool.not_eq_eq_eq_not, Bool.not_true, decide_eq_false_iff_not] at hne
    rw [hd] at hne; exact fun x => hne x.symm
  · rintro ⟨hne, e, he, hd⟩
    refine ⟨e, ⟨he, ?_⟩, hd⟩
    simp only [ne_eq, decide_not, Bool.not_eq_eq_eq_not, Bool.not_true, decide_eq_false_iff_not]
    rw [hd]; exact fun x => hne x.symm

theorem hasScope_congr {s s' : State} (h : s'.scopes = s.scopes) (d : ScopeId) : hasScope s' d = hasScope s d := by
  simp [hasScope, h]

end PvProofs.VownerL
